import Juniper.Driver.Basic
import Juniper.Model.Batch
/-!
Conformance engine for the Batch LTS (C11): `driver batch`.

The Go harness runs a scenario on the real `stream.Batch`/`BatchFunc` under `testing/synctest` and
sends, per environment action, what it observed once every goroutine was durably blocked. The engine
keeps the set of model states compatible with the observations so far:

    S := quiescent internal closure of { apply(action, s) | s ∈ S };  S := { s ∈ S | obs(s) = observed }

`S = ∅` means the implementation did something the model says is impossible (this includes
refusals: a call that has returned in every quiescent model state but not in the implementation).

The environment is restricted the way the harness restricts it: the source hands out the released
events in order (queue `q`), a gated `full` callback returns when the script gave it a token, and
virtual time never passes an armed timer's deadline without the timer expiring (synctest fires timers
exactly at their deadline). Every engine path is a path of `Model.Batch.step code`.

A `sleep` of any length is accepted (hours of idleness are a single clock advance once no timer is
armed). Where the regenerated code lets `bgCtx` end without `Close` the engine follows it (`bgEnds`).

Lines:
    cfg batch <maxWait> <batchSize> [slow]    |  cfg func <maxWait> <gated:0|1> [slow]
    step <action> [arg] obs <cons> <nres> <lastres> <pulled> <spend> <sclosed> <cret> <fpend> <sinclose>
actions: rel <v> | eof | err [canceled|wrapcanceled|deadline|wrapdeadline] | next live | next dead | cancel | sleep <d> | fullret | fullopen | close | srcclosed

`slow`: the source's `Close` takes time — it returns when the script says so (`srcclosed`). The model's
`prodCloseSrc` label is the *return* of `s.Close()` (followed by `wg.Done()`); while the harness holds
the call it is an environment action, not an internal move. `<sclosed>` counts returned calls,
`<sinclose>` says that the producer is inside the held call.
-/
namespace Juniper.Driver.C11
open Juniper.Driver Juniper.Model.Batch

structure EState where
  s : State
  /-- released source events: `.srcRet ev` or `.srcCancelErr wrapped` labels, in order -/
  q : List Label := []
  tokens : Nat := 0
  gated : Bool := false
  /-- the source's `Close` is held by the harness (not released yet) -/
  slowClose : Bool := false
  deriving DecidableEq

structure Eng where
  cfg : Option Cfg := none
  set : List EState := []
  dead : Bool := false

def marked (v : Nat) : Bool := v ≥ 1000

def funcCfg (maxWait : Nat) : Cfg where
  maxWait := maxWait
  fullOK := fun b r => r == (match b.getLast? with | some v => marked v | none => false)

/-- Enabled internal moves of one engine state. -/
def moves (cfg : Cfg) (e : EState) : List EState :=
  let base := internalLabels.filterMap fun l =>
    match l with
    | .fullRet _ =>
      if e.gated && e.tokens == 0 then none
      else (step code cfg e.s l).map fun s' =>
        { e with s := s', tokens := if e.gated then e.tokens - 1 else e.tokens }
    | .prodCloseSrc => if e.slowClose then none else (step code cfg e.s l).map fun s' => { e with s := s' }
    | _ => (step code cfg e.s l).map fun s' => { e with s := s' }
  let src := match e.q with
    | l :: rest => ((step code cfg e.s l).map fun s' => { e with s := s', q := rest }).toList
    | [] => []
  base ++ src

/-- All quiescent states reachable by internal moves (worklist; `fuel` bounds the exploration). -/
def closure (cfg : Cfg) (fuel : Nat) (todo seen quiet : List EState) : List EState :=
  match fuel, todo with
  | 0, _ => quiet
  | _, [] => quiet
  | fuel + 1, e :: rest =>
    if seen.contains e then closure cfg fuel rest seen quiet
    else
      let ms := moves cfg e
      if ms.isEmpty then closure cfg fuel rest (e :: seen) (if quiet.contains e then quiet else e :: quiet)
      else closure cfg fuel (ms ++ rest) (e :: seen) quiet

def quiesce (cfg : Cfg) (l : List EState) : List EState := closure cfg 20000 l [] []

def applyLabel (cfg : Cfg) (l : Label) (set : List EState) : List EState :=
  set.filterMap fun e => (step code cfg e.s l).map fun s' => { e with s := s' }

/-- Advance virtual time by `d`, stopping at every timer deadline on the way. -/
def advance (cfg : Cfg) : Nat → Nat → List EState → List EState
  | 0, _, set => set
  | fuel + 1, target, set =>
    let (doneL, moreL) := set.partition fun e => e.s.now ≥ target
    if moreL.isEmpty then doneL
    else
      let stepped := moreL.flatMap fun e =>
        let stop := match e.s.timer with
          | .armed t => if t > e.s.now ∧ t < target then t else target
          | _ => target
        match step code cfg e.s (.tick (stop - e.s.now)) with
        | some s' => quiesce cfg [{ e with s := s' }]
        | none => []
      doneL ++ advance cfg fuel target stepped

def showRes : Res → String
  | .batch b => "b:" ++ joinWith "," (b.map toString)
  | .endOK => "end"
  | .srcErr => "err"
  | .ctxErr => "ctx"
  | .bgErr => "other"

def b01 (b : Bool) : String := if b then "1" else "0"

/-- The observation the harness makes of a quiescent state. -/
def obsOf (e : EState) : List String :=
  [ (if e.s.cons = .idle then "idle" else "pend"),
    toString e.s.results.length,
    (match e.s.results.getLast? with | some r => showRes r | none => "-"),
    toString e.s.pulled.length,
    b01 (e.s.ppc = .next),
    toString e.s.srcCloses,
    b01 e.s.closeReturned,
    b01 (e.s.bpc = .inFull),
    b01 (e.slowClose && decide (e.s.ppc = .closeSrc)) ]

def dedup (l : List EState) : List EState :=
  l.foldl (fun acc e => if acc.contains e then acc else e :: acc) []

def dedupS (l : List String) : List String :=
  l.foldl (fun acc e => if acc.contains e then acc else acc ++ [e]) []

def doAction (cfg : Cfg) (set : List EState) : List String → Option (List EState)
  | ["rel", v] => some (set.map fun e => { e with q := e.q ++ [.srcRet (.item (natOr v))] })
  | ["eof"] => some (set.map fun e => { e with q := e.q ++ [.srcRet .eof] })
  | ["err"] => some (set.map fun e => { e with q := e.q ++ [.srcRet .err] })
  -- the source fails of its own accord with context.Canceled / an error wrapping it
  | ["err", "canceled"] => some (set.map fun e => { e with q := e.q ++ [.srcCancelErr false] })
  | ["err", "wrapcanceled"] => some (set.map fun e => { e with q := e.q ++ [.srcCancelErr true] })
  -- context.DeadlineExceeded (bare / wrapped) is an ordinary error for the producer's test
  | ["err", "deadline"] => some (set.map fun e => { e with q := e.q ++ [.srcRet .err] })
  | ["err", "wrapdeadline"] => some (set.map fun e => { e with q := e.q ++ [.srcRet .err] })
  | ["next", "live"] => some (applyLabel cfg (.nextCall true) set)
  | ["next", "dead"] => some (applyLabel cfg (.nextCall false) set)
  | ["cancel"] => some (applyLabel cfg .ctxExpire set)
  | ["fullret"] => some (set.map fun e => { e with tokens := e.tokens + 1 })
  | ["fullopen"] => some (set.map fun e => { e with gated := false })
  | ["close"] => some (applyLabel cfg .close set)
  | ["srcclosed"] => some (set.map fun e => { e with slowClose := false })
  | _ => none

def stepLine (g : Eng) (toks : List String) : Eng × String :=
  match toks with
  | ["cfg", "batch", mw, sz] =>
    let cfg := Cfg.ofBatch (natOr mw) (natOr sz)
    ({ cfg := some cfg, set := [{ s := init }] }, "ok 1")
  | ["cfg", "func", mw, gated] =>
    let cfg := funcCfg (natOr mw)
    ({ cfg := some cfg, set := [{ s := init, gated := gated == "1" }] }, "ok 1")
  | ["cfg", "batch", mw, sz, "slow"] =>
    let cfg := Cfg.ofBatch (natOr mw) (natOr sz)
    ({ cfg := some cfg, set := [{ s := init, slowClose := true }] }, "ok 1")
  | ["cfg", "func", mw, gated, "slow"] =>
    let cfg := funcCfg (natOr mw)
    ({ cfg := some cfg, set := [{ s := init, gated := gated == "1", slowClose := true }] }, "ok 1")
  | "step" :: rest =>
    match g.cfg with
    | none => (g, "bad-op no cfg")
    | some cfg =>
      if g.dead then (g, "dead")
      else
        let act := rest.takeWhile (· ≠ "obs")
        let obs := (rest.dropWhile (· ≠ "obs")).drop 1
        let after : Option (List EState) :=
          match act with
          | ["sleep", d] =>
            -- Virtual time passes (any amount: a sleep of hours is one `tick` per timer deadline on
            -- the way). For code whose background context can end without Close (`Code.bgMayEnd`:
            -- a deadline on `bgCtx`, `bgCancel` handed to a timer) the label `bgEnds` may be taken
            -- before or after the time has passed; on the unchanged tree `step code … .bgEnds = none`
            -- and both extra branches are empty.
            let target := fun (e : EState) => e.s.now + natOr d
            let sleepOn := fun (set : List EState) => set.flatMap fun e => advance cfg 200 (target e) [e]
            let early := quiesce cfg (applyLabel cfg .bgEnds g.set)
            let plain := sleepOn g.set
            let late := quiesce cfg (applyLabel cfg .bgEnds plain)
            some (plain ++ (early.flatMap fun e => advance cfg 200 (e.s.now + natOr d) [e]) ++ late)
          | _ => (doAction cfg g.set act).map (quiesce cfg)
        match after with
        | none => (g, "bad-op")
        | some set =>
          let set := dedup set
          let keep := set.filter fun e => obsOf e == obs
          if keep.isEmpty then
            let allowed := dedupS (set.map fun e => joinWith " " (obsOf e))
            ({ g with set := [], dead := true },
             s!"EMPTY observed [{joinWith " " obs}] model allows {allowed.length}: [{joinWith " | " allowed}]")
          else ({ g with set := keep }, s!"ok {keep.length}")
  | _ => (g, "bad-op")

def handler : Handler := { σ := Eng, init := {}, step := stepLine }

end Juniper.Driver.C11
