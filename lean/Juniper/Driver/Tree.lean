import Juniper.Driver.Basic
import Juniper.Model.BTreeCost
/-! Driver for the B-tree model (C01, C02, C03): `driver tree`.

Protocol (one output line per input line; keys/values decimal ints):
`new <map|set> <less|cmp> <nat|rev|coarse> <d> [ignored…]`, `put k v`, `del k`, `get k`, `has k`, `len`,
`first`, `last`, `range lo hi`, `rrange lo hi` (bounds `u`, `i<k>`, `e<k>`, `z` = zero Bound → `panic`),
`iter j fwd|rev lo hi`, `next j`, `cost k`, `costget k`, `alias`, `shape`. -/
namespace Juniper.Driver.Tree
open Juniper.Driver Juniper.Model.BTree Juniper.Gen.Tree

structure St where
  isSet : Bool := false
  cmp : Int → Int → Int := fun a b => a - b
  t : Tree Int Int := Tree.empty
  /-- the model hit a nil dereference: every later line answers `crash` -/
  dead : Bool := false
  its : Array (Option (Iter Int)) := Array.replicate 8 none

def mkCmp (ctor kind : String) (d : Int) : Int → Int → Int :=
  let d := if d ≤ 0 then 1 else d
  match ctor, kind with
  | "cmp", "nat" => fun a b => a - b
  | "cmp", "rev" => fun a b => b - a
  | "cmp", "coarse" => fun a b => a / d - b / d
  | _, "nat" => lessCmp fun a b => decide (a < b)
  | _, "rev" => lessCmp fun a b => decide (b < a)
  | _, _ => lessCmp fun a b => decide (a / d < b / d)

def parseBound (s : String) : Option (Bound Int) :=
  if s == "u" then some ⟨some .unb, 0⟩
  else if s == "z" then some ⟨none, 0⟩
  else if s.startsWith "i" then (s.drop 1).toString.toInt?.map fun k => ⟨some .incl, k⟩
  else if s.startsWith "e" then (s.drop 1).toString.toInt?.map fun k => ⟨some .excl, k⟩
  else none

def showOptV : Option Int → String
  | none => "zero"
  | some v => toString v

def showKV (isSet : Bool) (kv : Int × Option Int) : String :=
  if isSet then toString kv.1 else s!"{kv.1}:{showOptV kv.2}"

def showEntry (isSet : Bool) : Option (Int × Int) → String
  | none => "zero"
  | some (k, v) => if isSet then toString k else s!"{k} {v}"

partial def showNodes (x : Node Int Int) (acc : Array String) : Array String :=
  match x with
  | .mk id kvs kids =>
    let kv := joinWith "," (kvs.map fun p => s!"{p.1}:{p.2}")
    let cs := joinWith "," (kids.map fun c => toString c.id)
    kids.foldl (fun a c => showNodes c a) (acc.push s!"{id}[{kv}]({cs})")

def showShape (t : Tree Int Int) : String :=
  s!"size={t.size} gen={t.gen} " ++ joinWith " " (showNodes t.root #[]).toList

def mkIterOf (s : St) (rev : Bool) (lo hi : String) : Option (Option (Iter Int)) :=
  match parseBound lo, parseBound hi with
  | some l, some h => some (if rev then rangeReverse s.cmp s.t l h else range s.cmp s.t l h)
  | _, _ => none

/-- drain an iterator (`Model.BTree.drain`), noticing a `Next` that panics (`iterNextPanics`); `none` = panic -/
def drainP (cmp : Int → Int → Int) (t : Tree Int Int) : Nat → Iter Int → Option (List (Int × Option Int))
  | 0, _ => some []
  | fuel + 1, it =>
    if iterNextPanics t it then none else
    match iterNext cmp t it with
    | (_, none) => some []
    | (it', some kv) => (drainP cmp t fuel it').map (kv :: ·)

def step (s : St) (toks : List String) : St × String :=
  match toks with
  | "new" :: kind :: ctor :: ck :: d :: _ =>
    ({ isSet := kind == "set", cmp := mkCmp ctor ck (intOr d 1) }, "ok")
  | _ =>
  if s.dead then (s, "crash") else
  match toks with
  | ["put", k, v] =>
    match put s.cmp s.t (intOr k) (intOr v) with
    | some t => ({ s with t := t }, "ok")
    | none => ({ s with dead := true }, "crash")
  | ["del", k] =>
    match delete s.cmp s.t (intOr k) with
    | some t => ({ s with t := t }, "ok")
    | none => ({ s with dead := true }, "crash")
  | ["get", k] => (s, showOptV (get s.cmp s.t (intOr k)))
  | ["has", k] => (s, if contains s.cmp s.t (intOr k) then "true" else "false")
  | ["len"] => (s, toString (len s.t))
  | ["first"] => (s, showEntry s.isSet (first s.t))
  | ["last"] => (s, showEntry s.isSet (last s.t))
  | ["cost", k] => (s, toString (containsCost s.cmp (intOr k) s.t.root))
  | ["costget", k] => (s, toString (getCost s.cmp (intOr k) s.t.root))
  | ["alias"] => (s, "ok")
  | ["shape"] => (s, showShape s.t)
  | [op, lo, hi] =>
    if op == "range" || op == "rrange" then
      match mkIterOf s (op == "rrange") lo hi with
      | none => (s, "bad-op")
      | some none => (s, "panic")
      | some (some it) =>
        match drainP s.cmp s.t (s.t.size.toNat + 2) it with
        | none => (s, "panic")
        | some l => (s, if l.isEmpty then "-" else joinWith "," (l.map (showKV s.isSet)))
    else (s, "bad-op")
  | ["iter", j, dir, lo, hi] =>
    let j := natOr j 99
    if j ≥ s.its.size then (s, "bad-op") else
    match mkIterOf s (dir == "rev") lo hi with
    | none => (s, "bad-op")
    | some none => (s, "panic")
    | some (some it) => ({ s with its := s.its.set! j (some it) }, "ok")
  | ["next", j] =>
    let j := natOr j 99
    match s.its[j]? with
    | some (some it) =>
      if iterNextPanics s.t it then (s, "panic") else
      let r := iterNext s.cmp s.t it
      ({ s with its := s.its.set! j (some r.1) },
        match r.2 with
        | none => "end"
        | some kv => showKV s.isSet kv)
    | _ => (s, "bad-op")
  | _ => (s, "bad-op")

def handler : Handler := { σ := St, init := {}, step := step }

end Juniper.Driver.Tree
