import Juniper.Driver.Basic
import Juniper.Model.Iter
import Juniper.Model.Stream
import Juniper.Model.XSlices
/-! Driver for the combinator models (C07, C08, C09): `driver comb`.

A case is `it|st|xs <src=script> <stage>...` followed by consumer operations; every answer carries the
ghost logs of all sources (`calls/pulled/closes/after`), so that the harness compares values *and*
pull timing / Close behaviour after every consumer call. -/
namespace Juniper.Driver.C07
open Juniper.Driver Juniper.Model

inductive V where
  | i (n : Int)
  | l (xs : List V)
  deriving Inhabited, BEq

partial def V.show : V → String
  | .i n => toString n
  | .l xs => "[" ++ ",".intercalate (xs.map V.show) ++ "]"

def V.toInt : V → Int
  | .i n => n
  | .l xs => xs.length

mutual
def V.decEq : (a b : V) → Decidable (a = b)
  | .i m, .i n => if h : m = n then isTrue (by rw [h]) else isFalse (by intro e; cases e; exact h rfl)
  | .i _, .l _ => isFalse (by intro e; cases e)
  | .l _, .i _ => isFalse (by intro e; cases e)
  | .l xs, .l ys =>
    match V.decEqList xs ys with
    | isTrue h => isTrue (by rw [h])
    | isFalse h => isFalse (by intro e; cases e; exact h rfl)
def V.decEqList : (a b : List V) → Decidable (a = b)
  | [], [] => isTrue rfl
  | [], _ :: _ => isFalse (by intro e; cases e)
  | _ :: _, [] => isFalse (by intro e; cases e)
  | a :: as, b :: bs =>
    match V.decEq a b, V.decEqList as bs with
    | isTrue h1, isTrue h2 => isTrue (by rw [h1, h2])
    | isFalse h1, _ => isFalse (by intro e; cases e; exact h1 rfl)
    | _, isFalse h2 => isFalse (by intro e; cases e; exact h2 rfl)
end
instance : DecidableEq V := V.decEq

structure Log where
  calls : Nat
  pulled : Nat
  closes : Nat
  after : Nat

def Log.show (name : String) (g : Log) : String := s!"{name}:{g.calls}/{g.pulled}/{g.closes}/{g.after}"

abbrev Logs := List Log × List Log   -- static sources, dynamically created sources

def showLogs (l : Logs) : String :=
  let a := l.1.zipIdx.map fun (g, k) => g.show s!"s{k}"
  let b := l.2.zipIdx.map fun (g, k) => g.show s!"d{k}"
  " ".intercalate (a ++ b)

def catLogs (a b : Logs) : Logs := (a.1 ++ b.1, a.2 ++ b.2)

/-- A stream of `V` with its state packed away in closures (`logs` = ghost logs of its sources now). -/
inductive SP where
  | dead
  | mk (step : Bool → Stream.SStep V × SP) (close : Unit → SP) (logs : Logs)
  deriving Inhabited

/-- An iterator of `V` with its state packed away. -/
inductive IP where
  | dead
  | mk (step : Unit → Iter.Step V × IP) (logs : Logs)
  deriving Inhabited

/-- the universal machines over packed states -/
def spM : Stream.SM SP V :=
  ⟨fun p c => match p with | .dead => (.end_, .dead) | .mk st _ _ => st c,
   fun p => match p with | .dead => .dead | .mk _ cl _ => cl ()⟩
def ipM : Iter.IM IP V := ⟨fun p => match p with | .dead => (.done, .dead) | .mk st _ => st ()⟩

def SP.lg : SP → Logs
  | .dead => ([], [])
  | .mk _ _ l => l
def IP.lg : IP → Logs
  | .dead => ([], [])
  | .mk _ l => l

partial def packS {σ : Type} (m : Stream.SM σ V) (logs : σ → Logs) (s : σ) : SP :=
  .mk (fun c => let (r, s') := m.step s c; (r, packS m logs s')) (fun _ => packS m logs (m.close s)) (logs s)
partial def packI {σ : Type} (m : Iter.IM σ V) (logs : σ → Logs) (s : σ) : IP :=
  .mk (fun _ => let (r, s') := m.step s; (r, packI m logs s')) (logs s)

/-- results of list-valued stages are wrapped into `V.l` -/
def liftS {σ : Type} (m : Stream.SM σ (List V)) : Stream.SM σ V :=
  ⟨fun st c => match m.step st c with
    | (.item xs, st') => (.item (V.l xs), st') | (.skip, st') => (.skip, st')
    | (.end_, st') => (.end_, st') | (.err e, st') => (.err e, st'), m.close⟩
def liftI {σ : Type} (m : Iter.IM σ (List V)) : Iter.IM σ V :=
  ⟨fun st => match m.step st with
    | (.item xs, st') => (.item (V.l xs), st') | (.skip, st') => (.skip, st') | (.done, st') => (.done, st')⟩

/-! ### parsing -/

def parseScript (s : String) : List (Stream.Ev V) :=
  if s == "-" || s == "" then []
  else (s.splitOn ",").filterMap fun t =>
    if t.startsWith "t" then some (.transient (natOr (t.drop 1).toString))
    else if t.startsWith "f" then some (.fatal (natOr (t.drop 1).toString))
    else (t.toInt?).map fun n => .item (V.i n)

def scriptItems (sc : List (Stream.Ev V)) : List V :=
  sc.filterMap fun | .item a => some a | _ => none

def sLog (s : Stream.Src V) : Log := ⟨s.calls, s.pulled, s.closes, s.after⟩
def iLog (s : Iter.Src V) : Log := ⟨s.calls, s.pulled, 0, 0⟩

def mkSrcS (sc : String) : SP := packS Stream.src (fun s => ([sLog s], [])) (Stream.Src.of (parseScript sc))
def mkSrcI (sc : String) : IP := packI Iter.src (fun s => ([iLog s], [])) (Iter.Src.of (scriptItems (parseScript sc)))

/-- `name!v`: the callback fails with `cb v` on the item whose integer value is `v`. -/
def splitBang (s : String) : String × Option Int :=
  match s.splitOn "!" with
  | [a, b] => (a, b.toInt?)
  | _ => (s, none)

def predOf (name : String) (a : V) : Bool :=
  let n := a.toInt
  if name == "even" then n % 2 == 0
  else if name == "odd" then n % 2 != 0
  else if name == "nz" then n != 0
  else if name == "true" then true
  else if name == "false" then false
  else if name.startsWith "lt" then n < intOr (name.drop 2).toString
  else true

def predE (spec : String) (a : V) : Except Stream.Err Bool :=
  let (name, bad) := splitBang spec
  if bad == some a.toInt then .error (.cb a.toInt.toNat) else .ok (predOf name a)

def fnOf (name : String) (a : V) : V :=
  let n := a.toInt
  if name == "inc" then .i (n + 1)
  else if name == "neg" then .i (-n)
  else if name == "dbl" then .i (2 * n)
  else if name == "const" then .i 7
  else a

def fnE (spec : String) (a : V) : Except Stream.Err V :=
  let (name, bad) := splitBang spec
  if bad == some a.toInt then .error (.cb a.toInt.toNat) else .ok (fnOf name a)

def relOf (name : String) (a b : V) : Bool :=
  if name == "par" then a.toInt % 2 == b.toInt % 2
  else if name == "le" then a.toInt ≤ b.toInt
  else if name == "near" then (a.toInt - b.toInt).natAbs ≤ 1
  else a == b

def asList : V → List V
  | .l xs => xs
  | v => [v]

def pickScript (tbl : List String) (v : V) : String :=
  if tbl.isEmpty then "-" else tbl.getD (v.toInt.toNat % tbl.length) "-"

def optNat (s : String) : Option Nat := if s == "all" then none else some (natOr s)

/-! ### stages -/

def splitTok (tok : String) : String × String :=
  match tok.splitOn "=" with
  | [k, a] => (k, a)
  | _ => (tok, "")

def foldLogsS (l : List SP) : Logs := l.foldl (fun acc q => catLogs acc q.lg) ([], [])
def foldLogsI (l : List IP) : Logs := l.foldl (fun acc q => catLogs acc q.lg) ([], [])

def stageS (p : SP) (tok : String) : Option SP :=
  let (k, arg) := splitTok tok
  match k with
  | "peek" => some (packS (Stream.withPeek spM) (fun st => st.inner.lg) { inner := p })
  | "chunk" => some (packS (liftS (Stream.chunk (Gen.Comb.stChunkInitSize (intOr arg)) spM)) (fun st => st.inner.lg) { inner := p })
  | "compact" => some (packS (Stream.compact (relOf arg) spM) (fun st => st.inner.lg) (Stream.compactInit p))
  | "compactw" => some (packS (Stream.compactEq spM) (fun st => st.inner.lg) (Stream.compactInit p))
  | "filter" => some (packS (Stream.filter (predE arg) spM) (fun st => st.inner.lg) ⟨p⟩)
  | "map" => some (packS (Stream.map (fnE arg) spM) (fun st => st.inner.lg) ⟨p⟩)
  | "first" => some (packS (Stream.first spM) (fun st => st.inner.lg) (Stream.firstInit p (intOr arg)))
  | "while" => some (packS (Stream.while_ (predE arg) spM) (fun st => st.inner.lg) { inner := p })
  | "flats" =>
    let mi : Stream.SM SP (List V) := ⟨fun q c => match spM.step q c with
              | (.item v, q') => (.item (asList v), q') | (.skip, q') => (.skip, q')
              | (.end_, q') => (.end_, q') | (.err e, q') => (.err e, q'), spM.close⟩
    some (packS (Stream.flattenSlices mi) (fun st => st.inner.lg) { inner := p })
  | "flat" =>
    let tbl := arg.splitOn ";"
    -- outer machine: items of `p` turned into fresh scripted sources
    let mo : Stream.SM SP (Stream.Src V) := ⟨fun q c => match spM.step q c with
              | (.item v, q') => (.item (Stream.Src.of (parseScript (pickScript tbl v))), q') | (.skip, q') => (.skip, q')
              | (.end_, q') => (.end_, q') | (.err e, q') => (.err e, q'), spM.close⟩
    some (packS (Stream.flatten mo Stream.src)
      (fun st => catLogs st.outer.lg ([], (st.finished ++ st.curr.toList).map sLog)) { outer := p })
  | "join" =>
    let extra := (arg.splitOn ";").map mkSrcS
    some (packS (Stream.join spM) (fun st => foldLogsS (st.finished ++ st.remaining)) { remaining := p :: extra })
  | "runs" =>
    match arg.splitOn "," with
    | [same, take, cl] =>
      some (packS (liftS (Stream.runsProto (relOf same) (optNat take) (cl == "1") spM))
        (fun st => st.rs.pk.inner.lg) { rs := { pk := { inner := p } } })
    | _ => none
  | _ => none

/-- iterator `Flatten` with a ghost list of the inner iterators that ended (for the logs only) -/
def flattenILogged (mo : Iter.IM IP (Iter.Src V)) : Iter.IM (Iter.FlattenSt IP (Iter.Src V) × List Log) V :=
  ⟨fun (st, fin) =>
    match (Iter.flatten mo Iter.src).step st with
    | (r, st') =>
      let fin' := match st.curr, st'.curr with
        | some c, none => fin ++ [iLog (Iter.src.step c).2]
        | _, _ => fin
      (r, (st', fin'))⟩

/-- iterator `Join` with a ghost list of the iterators that were dropped from the front -/
def joinILogged : Iter.IM (List IP × List IP) V :=
  ⟨fun (st, fin) =>
    match (Iter.join ipM).step st with
    | (r, st') =>
      let fin' := if st'.length < st.length then
          (match st with | q :: _ => fin ++ [(ipM.step q).2] | [] => fin) else fin
      (r, (st', fin'))⟩

def stageI (p : IP) (tok : String) : Option IP :=
  let (k, arg) := splitTok tok
  match k with
  | "peek" => some (packI (Iter.withPeek ipM) (fun st => st.inner.lg) { inner := p })
  | "chunk" => some (packI (liftI (Iter.chunk (Gen.Comb.itChunkInitSize (intOr arg)) ipM)) (fun st => st.inner.lg) { inner := p })
  | "compact" => some (packI (Iter.compact (relOf arg) ipM) (fun st => st.inner.lg) (Iter.compactInit p))
  | "compactw" => some (packI (Iter.compactEq ipM) (fun st => st.inner.lg) (Iter.compactInit p))
  | "filter" => some (packI (Iter.filter (predOf (splitBang arg).1) ipM) (fun st => st.lg) p)
  | "map" => some (packI (Iter.map (fnOf (splitBang arg).1) ipM) (fun st => st.lg) p)
  | "first" => some (packI (Iter.first ipM) (fun st => st.inner.lg) (Iter.firstInit p (intOr arg)))
  | "while" => some (packI (Iter.while_ (predOf (splitBang arg).1) ipM) (fun st => st.inner.lg) (Iter.whileInit p))
  | "flat" =>
    let tbl := arg.splitOn ";"
    let mo : Iter.IM IP (Iter.Src V) := ⟨fun q => match ipM.step q with
              | (.item v, q') => (.item (Iter.Src.of (scriptItems (parseScript (pickScript tbl v)))), q')
              | (.skip, q') => (.skip, q') | (.done, q') => (.done, q')⟩
    some (packI (flattenILogged mo)
      (fun (st, fin) => catLogs st.outer.lg ([], fin ++ st.curr.toList.map iLog)) ({ outer := p }, []))
  | "join" =>
    let extra := (arg.splitOn ";").map mkSrcI
    some (packI joinILogged (fun (st, fin) => foldLogsI (fin ++ st)) (p :: extra, []))
  | "runs" =>
    match arg.splitOn "," with
    | [same, take, _] =>
      some (packI (liftI (Iter.runsProto (relOf same) (optNat take) ipM))
        (fun st => st.rs.pk.inner.lg) { rs := { pk := { inner := p } } })
    | _ => none
  | _ => none

/-- the zero value of the element type (`any`: nil; it never shows in a result) -/
def zeroV : V := V.i 0

/-- xslices: every stage is a total function on lists, or a panic. -/
def stageX (l : List V) (tok : String) : Option (List V) :=
  let (k, arg) := splitTok tok
  match k with
  | "chunk" => (XSlices.chunk l (intOr arg)).map fun cs => cs.map V.l
  | "compact" => some (XSlices.compactFunc zeroV (relOf arg) l)
  | "compactw" => some (XSlices.compact zeroV l)
  | "filter" => some (XSlices.filter zeroV (predOf (splitBang arg).1) l)
  | "map" => XSlices.map zeroV (fnOf (splitBang arg).1) l
  | "runs" => match arg.splitOn "," with
    | same :: _ => (XSlices.runs (relOf same) l).map fun rs => rs.map V.l
    | _ => none
  | "join" => XSlices.join zeroV (l :: (arg.splitOn ";").map fun sc => scriptItems (parseScript sc))
  | "repeat" => match l with
    | a :: _ => XSlices.repeat_ zeroV a (intOr arg)
    | [] => XSlices.repeat_ zeroV (V.i 0) (intOr arg)
  | _ => none

/-- The fold function of the `reduce` lines is the harness's own `acc*3 + x` on Go `int`s; with more than about forty
items it wraps around. The model folds over unbounded `Int`, so the printed value is reduced to the two's-complement
64-bit representative (a ring homomorphism: wrapping once at the end equals wrapping at every step). Found by a
thorough run on the unchanged tree (seed 161: a join of 17 iterators, 59 items) as a correspondence difference. -/
def wrap64 (x : Int) : Int := (x + 9223372036854775808) % 18446744073709551616 - 9223372036854775808

/-- the terminal operation of an `xs` line: `reduce` (`xslices.Reduce`, the fold of `ireduce`),
`equal=<script>` (`xslices.Equal` with the items of the script), or none (the list itself) -/
def finishX (l : List V) (tok : Option String) : String :=
  match tok with
  | none => "list " ++ (V.l l).show
  | some t =>
    let (k, arg) := splitTok t
    if k == "reduce" then
      s!"val {wrap64 (XSlices.reduce zeroV (fun (acc : V) a => V.i (acc.toInt * 3 + a.toInt)) (V.i 0) l).toInt}"
    else if k == "equal" then s!"equal {XSlices.equal l (scriptItems (parseScript arg))}"
    else "bad-op"

def isTerminalX (tok : String) : Bool := let k := (splitTok tok).1; k == "reduce" || k == "equal"

/-! ### driver state and operations -/

structure St where
  sp : Option SP := none
  ips : Array IP := #[]
  peekS : Option (Stream.PeekSt SP V) := none
  peekI : Option (Iter.PeekSt IP V) := none
  runsS : Option (String × Stream.RunsSt SP V) := none
  runsI : Option (String × Iter.RunsSt IP V) := none

def FUEL : Nat := 100000

def showErr : Stream.Err → String
  | .ctx => "ctx"
  | .transient n => s!"t{n}"
  | .fatal n => s!"f{n}"
  | .cb n => s!"cb{n}"
  | .empty => "ErrEmpty"
  | .moreThanOne => "ErrMoreThanOne"
  | .bogus => "bogus"

def showS : Option (Stream.SStep V) → String
  | none => "diverge"
  | some (.item a) => "item " ++ a.show
  | some .skip => "diverge"
  | some .end_ => "end"
  | some (.err e) => "err " ++ showErr e

def showI : Option (Option V) → String
  | none => "diverge"
  | some none => "end"
  | some (some a) => "item " ++ a.show

def showOptList (l : List (Option V)) : String :=
  "[" ++ ",".intercalate (l.map fun | some v => v.show | none => "_") ++ "]"

def showList (l : List V) : String := (V.l l).show

def ctxOf (s : String) : Bool := s != "0"

def buildS (toks : List String) : Option SP :=
  match toks with
  | src :: stages =>
    match splitTok src with
    | ("src", sc) => stages.foldl (fun acc t => acc.bind (stageS · t)) (some (mkSrcS sc))
    | ("empty", _) => stages.foldl (fun acc t => acc.bind (stageS · t))
        (some (packS (Stream.empty (α := V)) (fun _ => ([], [])) ()))
    | ("error", n) => stages.foldl (fun acc t => acc.bind (stageS · t))
        (some (packS (Stream.error (α := V) (.fatal (natOr n))) (fun _ => ([], [])) ()))
    | ("fromit", sc) => stages.foldl (fun acc t => acc.bind (stageS · t))
        (some (packS (Stream.fromIterator Iter.src) (fun s => ([iLog s], [])) (Iter.Src.of (scriptItems (parseScript sc)))))
    | ("chan", sc) => stages.foldl (fun acc t => acc.bind (stageS · t))
        (some (packS (Stream.chan (α := V)) (fun _ => ([], [])) { buf := scriptItems (parseScript sc) }))
    | _ => none
  | [] => none

def buildI (toks : List String) : Option IP :=
  match toks with
  | src :: stages =>
    match splitTok src with
    | ("src", sc) => stages.foldl (fun acc t => acc.bind (stageI · t)) (some (mkSrcI sc))
    | ("slice", sc) => stages.foldl (fun acc t => acc.bind (stageI · t))
        (some (packI Iter.src (fun _ => ([], [])) (Iter.Src.of (scriptItems (parseScript sc)))))
    | ("counter", n) => stages.foldl (fun acc t => acc.bind (stageI · t))
        (some (packI (Iter.map V.i (Iter.counterOf (intOr n))) (fun _ => ([], [])) (Iter.counterInit (intOr n))))
    | ("repeat", n) => stages.foldl (fun acc t => acc.bind (stageI · t))
        (some (packI (Iter.repeat_ (V.i 5)) (fun _ => ([], [])) (Iter.repeatInit (intOr n))))
    | ("chan", sc) => stages.foldl (fun acc t => acc.bind (stageI · t))
        (some (packI (Iter.chan (α := V)) (fun _ => ([], [])) { buf := scriptItems (parseScript sc) }))
    | ("empty", _) => stages.foldl (fun acc t => acc.bind (stageI · t))
        (some (packI (Iter.empty (α := V)) (fun _ => ([], [])) ()))
    | _ => none
  | [] => none

def logsS (s : St) : String :=
  match s.sp with
  | some p => showLogs p.lg
  | none => ""

def allLogsI (s : St) : String := showLogs (foldLogsI s.ips.toList)

def showROut {ρ : Type} (f : ρ → String) : Stream.ROut ρ → String
  | .ok r => f r
  | .error e => "err " ++ showErr e
  | .panic => "panic"
  | .fuel => "diverge"

/-- run a reducer on the stream under test -/
def onStream (s : St) (f : SP → String × SP) : St × String :=
  match s.sp with
  | some p =>
    let (out, p') := f p
    let s' := { s with sp := some p' }
    (s', out ++ " | " ++ logsS s')
  | none => (s, "bad-op")

def onIter (s : St) (k : String) (f : IP → String × IP) : St × String :=
  match s.ips[natOr k]? with
  | some p =>
    let (out, p') := f p
    let s' := { s with ips := s.ips.set! (natOr k) p' }
    (s', out ++ " | " ++ allLogsI s')
  | none => (s, "bad-op")

/-- generic "drive to the first non-skip answer" for port-level operations -/
def driveS {σ ρ : Type} (f : σ → Stream.SStep ρ × σ) : Nat → σ → Option (Stream.SStep ρ) × σ
  | 0, st => (none, st)
  | fuel + 1, st =>
    match f st with
    | (.skip, st') => driveS f fuel st'
    | (x, st') => (some x, st')

def driveI {σ ρ : Type} (f : σ → Iter.Step ρ × σ) : Nat → σ → Option (Option ρ) × σ
  | 0, st => (none, st)
  | fuel + 1, st =>
    match f st with
    | (.skip, st') => driveI f fuel st'
    | (.item a, st') => (some (some a), st')
    | (.done, st') => (some none, st')

def showRun : Option (Stream.SStep Nat) → String
  | none => "diverge"
  | some (.item g) => s!"run {g}"
  | some .skip => "diverge"
  | some .end_ => "end"
  | some (.err e) => "err " ++ showErr e

def step (s : St) : List String → St × String
  | "st" :: toks =>
    match buildS toks with
    | some p => ({ s with sp := some p }, "ok")
    | none => (s, "bad-pipeline")
  | "it" :: toks =>
    match buildI toks with
    | some p => ({ s with ips := s.ips.push p }, "ok")
    | none => (s, "bad-pipeline")
  | "xs" :: src :: stages =>
    match splitTok src with
    | ("src", sc) =>
      let (stages, term) := match stages.getLast? with
        | some t => if isTerminalX t then (stages.dropLast, some t) else (stages, none)
        | none => (stages, none)
      match stages.foldl (fun acc t => acc.bind (stageX · t)) (some (scriptItems (parseScript sc))) with
      | some l => (s, finishX l term)
      | none => (s, "panic")
    | _ => (s, "bad-pipeline")
  | "stpk" :: toks =>
    match buildS toks with
    | some p => ({ s with peekS := some { inner := p } }, "ok")
    | none => (s, "bad-pipeline")
  | "itpk" :: toks =>
    match buildI toks with
    | some p => ({ s with peekI := some { inner := p } }, "ok")
    | none => (s, "bad-pipeline")
  | "strp" :: same :: toks =>
    match buildS toks with
    | some p => ({ s with runsS := some (same, { pk := { inner := p } }) }, "ok")
    | none => (s, "bad-pipeline")
  | "itrp" :: same :: toks =>
    match buildI toks with
    | some p => ({ s with runsI := some (same, { pk := { inner := p } }) }, "ok")
    | none => (s, "bad-pipeline")
  -- stream under test
  | ["next", c] => onStream s fun p => let (x, p') := Stream.drive spM (ctxOf c) FUEL p; (showS x, p')
  | ["close"] => onStream s fun p => ("closed", spM.close p)
  | ["collect", c] => onStream s fun p =>
      let (r, p') := Stream.collect spM (ctxOf c) FUEL p; (showROut (fun l => "list " ++ showList l) r, p')
  | ["last", n, c] => onStream s fun p =>
      let (r, p') := Stream.last spM (intOr n) (ctxOf c) FUEL p; (showROut (fun l => "list " ++ showOptList l) r, p')
  | ["one", c] => onStream s fun p =>
      let (r, p') := Stream.one spM (ctxOf c) FUEL p; (showROut (fun v => "item " ++ V.show v) r, p')
  | ["reduce", f, c] => onStream s fun p =>
      let bad := (splitBang f).2
      let g : Int → V → Except Stream.Err Int := fun acc a =>
        if bad == some a.toInt then .error (.cb a.toInt.toNat) else .ok (acc * 3 + a.toInt)
      let (r, p') := Stream.reduce spM g (ctxOf c) FUEL (0 : Int) p
      (showROut (fun (v : Int) => s!"val {wrap64 v}") r, p')
  | ["sample", k, c] => onStream s fun p =>
      let (r, p') := Stream.sampleCount spM (ctxOf c) FUEL p
      (showROut (fun (n : Nat) => s!"count {min n (natOr k)}") r, p')
  -- top-level stream peekable
  | ["pnext", c] =>
    match s.peekS with
    | some pk =>
      let (x, pk') := driveS (fun q => Stream.peekNext spM q (ctxOf c)) FUEL pk
      ({ s with peekS := some pk' }, showS x ++ " | " ++ showLogs pk'.inner.lg)
    | none => (s, "bad-op")
  | ["ppeek", c] =>
    match s.peekS with
    | some pk =>
      let (x, pk') := driveS (fun q => Stream.peekPeek spM q (ctxOf c)) FUEL pk
      ({ s with peekS := some pk' }, showS x ++ " | " ++ showLogs pk'.inner.lg)
    | none => (s, "bad-op")
  | ["pclose"] =>
    match s.peekS with
    | some pk =>
      let pk' := Stream.peekClose spM pk
      ({ s with peekS := some pk' }, "closed | " ++ showLogs pk'.inner.lg)
    | none => (s, "bad-op")
  -- stream Runs, port level
  | ["onext", c] =>
    match s.runsS with
    | some (same, st) =>
      let (x, st') := driveS (fun q => Stream.runsOuter (relOf same) spM q (ctxOf c)) FUEL st
      ({ s with runsS := some (same, st') }, showRun x ++ " | " ++ showLogs st'.pk.inner.lg)
    | none => (s, "bad-op")
  | ["inext", g, c] =>
    match s.runsS with
    | some (same, st) =>
      let (x, st') := driveS (fun q => Stream.runsInner (relOf same) spM (natOr g) q (ctxOf c)) FUEL st
      ({ s with runsS := some (same, st') }, showS x ++ " | " ++ showLogs st'.pk.inner.lg)
    | none => (s, "bad-op")
  | ["iclose", g] =>
    match s.runsS with
    | some (same, st) =>
      let st' := Stream.runsInnerClose (natOr g) st
      ({ s with runsS := some (same, st') }, "closed | " ++ showLogs st'.pk.inner.lg)
    | none => (s, "bad-op")
  | ["oclose"] =>
    match s.runsS with
    | some (same, st) =>
      let st' := Stream.runsClose spM st
      ({ s with runsS := some (same, st') }, "closed | " ++ showLogs st'.pk.inner.lg)
    | none => (s, "bad-op")
  -- iterators
  | ["inextit", k] => onIter s k fun p => let (x, p') := Iter.drive ipM FUEL p; (showI x, p')
  | ["icollect", k] => onIter s k fun p =>
      let (x, p') := Iter.collect ipM FUEL p
      ((match x with | none => "diverge" | some l => "list " ++ showList l), p')
  | ["ireduce", k] => onIter s k fun p =>
      let (x, p') := Iter.reduce ipM (fun (acc : V) a => V.i (acc.toInt * 3 + a.toInt)) FUEL (V.i 0) p
      ((match x with | none => "diverge" | some v => s!"val {wrap64 v.toInt}"), p')
  | ["ilast", k, n] => onIter s k fun p =>
      let (x, p') := Iter.last ipM (intOr n) FUEL p
      ((match x with | .ok l => "list " ++ showOptList l | .panic => "panic" | .fuel => "diverge"), p')
  | ["ione", k] => onIter s k fun p =>
      let (x, p') := Iter.one ipM FUEL p
      ((match x with | none => "diverge" | some none => "none" | some (some a) => "item " ++ a.show), p')
  | ["iequal"] =>
    let (x, ps) := Iter.equal ipM FUEL FUEL s.ips.toList
    let s' := { s with ips := ps.toArray }
    ((s', (match x with | none => "diverge" | some b => s!"equal {b}") ++ " | " ++ allLogsI s'))
  | ["ipnext"] =>
    match s.peekI with
    | some pk =>
      let (x, pk') := driveI (Iter.peekNext ipM) FUEL pk
      ({ s with peekI := some pk' }, showI x ++ " | " ++ showLogs pk'.inner.lg)
    | none => (s, "bad-op")
  | ["ippeek"] =>
    match s.peekI with
    | some pk =>
      let (x, pk') := driveI (Iter.peekPeek ipM) FUEL pk
      ({ s with peekI := some pk' }, showI x ++ " | " ++ showLogs pk'.inner.lg)
    | none => (s, "bad-op")
  | ["ionext"] =>
    match s.runsI with
    | some (same, st) =>
      let (x, st') := driveI (Iter.runsOuter (relOf same) ipM) FUEL st
      ({ s with runsI := some (same, st') },
        (match x with | none => "diverge" | some none => "end" | some (some g) => s!"run {g}") ++ " | " ++ showLogs st'.pk.inner.lg)
    | none => (s, "bad-op")
  | ["iinext", g] =>
    match s.runsI with
    | some (same, st) =>
      let (x, st') := driveI (Iter.runsInner (relOf same) ipM (natOr g)) FUEL st
      ({ s with runsI := some (same, st') }, showI x ++ " | " ++ showLogs st'.pk.inner.lg)
    | none => (s, "bad-op")
  | _ => (s, "bad-op")

def handler : Handler := { σ := St, init := {}, step := step }

end Juniper.Driver.C07
