import Std.Data.HashSet
import Juniper.Driver.Basic
import Juniper.Model.Merge
import Juniper.Model.StreamMerge
/-!
Drivers for the C12 models: state-set conformance (`driver merge | replicate | smerge`).

The harness sends one line per environment action followed by ` ; ` and what it observed at the next
quiescent point (`synctest.Wait()`). The driver keeps the set of model states compatible with the
log so far: apply the action to every state, close under internal steps up to quiescence (states
without enabled internal step), keep the states whose observables equal the observation. An empty
set means the implementation did something the model excludes; the answer is then
`EMPTY allowed=<observations the model allows>` and every later line is answered `dead`.
-/
namespace Juniper.Driver.C12
open Juniper.Driver

/-- Quiescent states reachable from `start` by internal steps (worklist, de-duplicated). `none` when
more than `cap` states were visited. -/
partial def closure {σ : Type} [BEq σ] [Hashable σ] (internal : σ → List σ) (start : List σ)
    (cap : Nat := 400000) : Option (List σ) :=
  let rec go (todo : List σ) (seen : Std.HashSet σ) (qs : List σ) : Option (List σ) :=
    match todo with
    | [] => some qs
    | s :: rest =>
      if seen.contains s then go rest seen qs
      else if seen.size > cap then none
      else
        let seen := seen.insert s
        match internal s with
        | [] => go rest seen (s :: qs)
        | succ => go (succ ++ rest) seen qs
  go start {} []

def dedupStrings (l : List String) : List String :=
  l.foldl (fun acc x => if acc.contains x then acc else acc ++ [x]) []

/-- Generic state of a conformance run. -/
structure Conf (σ : Type) where
  states : List σ := []
  dead : Bool := false
  started : Bool := false

def splitObs (toks : List String) : List String × List String :=
  let a := toks.takeWhile (· ≠ ";")
  let b := (toks.dropWhile (· ≠ ";")).drop 1
  (a, b)

/-- One conformance line: `apply` maps a state to its successors under the action (already including
what the action itself reveals, as part of the observation string computed by `obs`). -/
def confStep {σ : Type} [BEq σ] [Hashable σ] (internal : σ → List σ) (obs : σ → String)
    (advance : σ → σ) (c : Conf σ) (succ : List σ) (observed : String) : Conf σ × String :=
  match closure internal succ with
  | none => ({ c with dead := true }, "ok overflow")
  | some qs =>
    let keep := qs.filter (fun s => obs s == observed)
    if keep.isEmpty then
      ({ c with dead := true, states := [] },
        "EMPTY allowed=" ++ joinWith "|" (dedupStrings (qs.map obs)) ++ " observed=" ++ observed)
    else ({ c with states := keep.map advance, started := true }, s!"ok {keep.length}")

/-! ## chans.Merge -/
section merge
open Juniper.Model.Merge
abbrev V := Option Int

def parseV (s : String) : V := if s == "nil" then none else some (intOr s)
def showV : V → String
  | none => "nil"
  | some v => toString v

/-- conformance state: model state + what the last `take` got -/
structure MS where
  s : St V
  got : String := "-"
  deriving BEq, Hashable

def mInternal (m : MS) : List MS :=
  (internalLabels m.s).filterMap fun l => (step m.s l).map fun s' => { m with s := s' }

def mObs (m : MS) : String :=
  let r := match m.s.pc with | .done => "1" | .panicked => "panic" | _ => "0"
  s!"got={m.got} ret={r}"

def mApply (toks : List String) (m : MS) : List MS :=
  match toks with
  | ["send", i, v] => ((step m.s (.envSend (natOr i) (parseV v))).map fun s' => { s := s' }).toList
  | ["close", i] => ((step m.s (.envClose (natOr i))).map fun s' => { s := s' }).toList
  | ["take"] =>
    match m.s.pc with
    | .hold _ v => ((step m.s .deliver).map fun s' => { s := s', got := showV v }).toList
    | _ => [{ m with got := "none" }]
  | _ => []

def mergeStep (c : Conf MS) (toks : List String) : Conf MS × String :=
  if c.dead then (c, "dead") else
  let (a, o) := splitObs toks
  let observed := joinWith " " o
  match a with
  | ["init", n] => confStep mInternal mObs (fun m => { m with got := "-" }) c [{ s := init V (natOr n) }] observed
  | _ => confStep mInternal mObs (fun m => { m with got := "-" }) c (c.states.flatMap (mApply a)) observed

def mergeHandler : Handler := { σ := Conf MS, init := {}, step := mergeStep }

/-! ## chans.Replicate -/
structure RS where
  s : RSt V
  got : String := "-"
  deriving BEq, Hashable

def rInternal (m : RS) : List RS :=
  ((rstep m.s .recv).map fun s' => { m with s := s' }).toList

def rObs (m : RS) : String :=
  let r := match m.s.pc with | .done => "1" | _ => "0"
  s!"got={m.got} ret={r}"

def rApply (toks : List String) (m : RS) : List RS :=
  match toks with
  | ["send", v] => ((rstep m.s (.envSend (parseV v))).map fun s' => { s := s' }).toList
  | ["close"] => ((rstep m.s .envClose).map fun s' => { s := s' }).toList
  | ["take", j] =>
    match m.s.pc with
    | .sending v k =>
      if k == natOr j then ((rstep m.s .deliver).map fun s' => { s := s', got := showV v }).toList
      else [{ m with got := "none" }]
    | _ => [{ m with got := "none" }]
  | _ => []

def replStep (c : Conf RS) (toks : List String) : Conf RS × String :=
  if c.dead then (c, "dead") else
  let (a, o) := splitObs toks
  let observed := joinWith " " o
  match a with
  | ["init", m] => confStep rInternal rObs (fun m => { m with got := "-" }) c [{ s := rinit V (natOr m) }] observed
  | _ => confStep rInternal rObs (fun m => { m with got := "-" }) c (c.states.flatMap (rApply a)) observed

def replHandler : Handler := { σ := Conf RS, init := {}, step := replStep }
end merge

/-! ## stream.Merge -/
section smerge
open Juniper.Model.StreamMerge
abbrev W := Option Int

inductive Cmd | item (v : W) | endd | err (e : Nat)
  deriving BEq, Hashable, Repr

/-- model state + the harness's gates: per input the released-but-unconsumed commands and whether
the input honours the context (`gated`) or never blocks and ignores it (`immediate`). -/
structure SS where
  s : St W
  q : List (List Cmd)
  honours : List Bool
  seen : Nat := 0          -- consumer results already reported
  /-- per input: its `Close` is gated by the harness and has not been released yet (`crel i`). The
  model's `closeInput` step is the *return* of `in[i].Close()`; while the gate is shut it is an
  environment action, not an internal step. -/
  slow : List Bool := []
  deriving BEq, Hashable

/-- goroutine `i` is inside `in[i].Close()` and the harness has not released that call. -/
def inSlowClose (m : SS) (i : Nat) : Bool :=
  m.slow.getD i false &&
    match m.s.gs[i]? with
    | some g => (match g.pc with | .exiting (.closeInput :: _) => true | _ => false)
    | none => false

def sInternal (m : SS) : List SS :=
  let own := (internalLabels m.s).filterMap fun l =>
    match l with
    | .inCtx i => if m.honours.getD i false then (step m.s l).map fun s' => { m with s := s' } else none
    | .exitStep i => if inSlowClose m i then none else (step m.s l).map fun s' => { m with s := s' }
    | _ => (step m.s l).map fun s' => { m with s := s' }
  let feed := (List.range m.s.k).filterMap fun i =>
    match m.q.getD i [] with
    | [] => none
    | c :: rest =>
      let l : Label W := match c with
        | .item v => .inItem i v
        | .endd => .inEnd i
        | .err e => .inErr i e
      (step m.s l).map fun s' => { m with s := s', q := m.q.set i rest }
  own ++ feed

def showErr : Err → String
  | .inj e => s!"E{e}"
  | .ctx => "ctx"

def showRes : Res W → String
  | .item _ v => "v" ++ Juniper.Driver.C12.showV v
  | .endd => "End"
  | .err e => showErr e
  | .ctx => "ctx"

def sObs (m : SS) : String :=
  let news := (m.s.results.drop m.seen).map showRes
  let pend := match m.s.cpc with | .inNext _ => "1" | _ => "0"
  let cret := match m.s.cpc with | .closing [] => "1" | .closing _ => "0" | _ => "-"
  let gauge := joinWith "" (m.s.gs.map fun g => match g.pc with | .next => "1" | _ => "0")
  let nexts := joinWith "," (m.s.gs.map fun g => toString g.nexts)
  let closes := joinWith "," (m.s.gs.map fun g => toString g.closes)
  let inclose := joinWith "" ((List.range m.s.k).map fun i => if inSlowClose m i then "1" else "0")
  s!"res={joinWith "," news} pend={pend} closeret={cret} gauge={gauge} nexts={nexts} closes={closes} inclose={inclose}"

def sApply (toks : List String) (m : SS) : List SS :=
  match toks with
  | ["push", i, "item", v] => [{ m with q := m.q.set (natOr i) (m.q.getD (natOr i) [] ++ [.item (parseV v)]) }]
  | ["push", i, "end"] => [{ m with q := m.q.set (natOr i) (m.q.getD (natOr i) [] ++ [.endd]) }]
  | ["push", i, "err", e] => [{ m with q := m.q.set (natOr i) (m.q.getD (natOr i) [] ++ [.err (natOr e)]) }]
  | ["cnext", l] => ((step m.s (.cCall (l == "live"))).map fun s' => { m with s := s' }).toList
  | ["close"] => ((step m.s .cClose).map fun s' => { m with s := s' }).toList
  -- the context of the pending `Next` is cancelled
  | ["ccancel"] => ((step m.s .cExpire).map fun s' => { m with s := s' }).toList
  | ["crel", i] => [{ m with slow := m.slow.set (natOr i) false }]
  -- virtual time passes (any duration): the model has no clock; the only thing time can do is end the
  -- context handed to the inputs, if its origin allows (`ctxEnds`: dead when `origin = plainCancel`)
  | ["sleep", _] => m :: ((step m.s .ctxEnds).map fun s' => { m with s := s' }).toList
  | _ => []

def parseCmds (s : String) : List Cmd :=
  ((s.splitOn ",").filter (· ≠ "")).map fun t =>
    if t == "end" then .endd
    else if t.startsWith "e" then .err (natOr (t.drop 1).toString)
    else .item (parseV t)

/-- `init k <spec_0> … <spec_{k-1}>`: spec `g` = gated input honouring ctx; `i:<cmds>` = immediate
input with the preloaded commands (`3,nil,end` / `e2`), ignoring ctx; a leading `s` (`sg`, `si:…`) =
the input's `Close` does not return before the harness releases it (`crel i`). -/
def sInit (k : Nat) (specs : List String) : SS :=
  let slow := specs.map fun sp => sp.startsWith "s"
  let specs := specs.map fun sp => if sp.startsWith "s" then (sp.drop 1).toString else sp
  let hon := specs.map fun sp => sp == "g"
  let q := specs.map fun sp => if sp.startsWith "i:" then parseCmds (sp.drop 2).toString else []
  { s := init W k, q := q, honours := hon, slow := slow }

def smergeStep (c : Conf SS) (toks : List String) : Conf SS × String :=
  if c.dead then (c, "dead") else
  let (a, o) := splitObs toks
  let observed := joinWith " " o
  let adv := fun (m : SS) => { m with seen := m.s.results.length }
  match a with
  | "init" :: k :: specs => confStep sInternal sObs adv c [sInit (natOr k) specs] observed
  | _ => confStep sInternal sObs adv c (c.states.flatMap (sApply a)) observed

def smergeHandler : Handler := { σ := Conf SS, init := {}, step := smergeStep }
end smerge

end Juniper.Driver.C12
