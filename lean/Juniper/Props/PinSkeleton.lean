-- Tie theorems of the pins (written by `gofacts -pin` together with Juniper/Pinned/Skeleton.lean; see notes/pins.md).
-- Each says: the declaration gofacts reads from the tree under check today is, up to the names of its locals,
-- the one the author of the model saw. `rfl` on two literals: kernel-checked, no axioms.
import Juniper.Generated.PinSkeleton
import Juniper.Pinned.Skeleton

namespace Juniper.Props.PinSkeleton

theorem pin_chans_Merge_ok : Juniper.Gen.PinSkeleton.pin_chans_Merge = Juniper.Pinned.Skeleton.pin_chans_Merge := by rfl
theorem pin_chans_Replicate_ok : Juniper.Gen.PinSkeleton.pin_chans_Replicate = Juniper.Pinned.Skeleton.pin_chans_Replicate := by rfl
theorem pin_chans_merge2_ok : Juniper.Gen.PinSkeleton.pin_chans_merge2 = Juniper.Pinned.Skeleton.pin_chans_merge2 := by rfl
theorem pin_chans_merge3_ok : Juniper.Gen.PinSkeleton.pin_chans_merge3 = Juniper.Pinned.Skeleton.pin_chans_merge3 := by rfl
theorem pin_stream_Batch_ok : Juniper.Gen.PinSkeleton.pin_stream_Batch = Juniper.Pinned.Skeleton.pin_stream_Batch := by rfl
theorem pin_stream_BatchFunc_ok : Juniper.Gen.PinSkeleton.pin_stream_BatchFunc = Juniper.Pinned.Skeleton.pin_stream_BatchFunc := by rfl
theorem pin_stream_Merge_ok : Juniper.Gen.PinSkeleton.pin_stream_Merge = Juniper.Pinned.Skeleton.pin_stream_Merge := by rfl
theorem pin_stream_Pipe_ok : Juniper.Gen.PinSkeleton.pin_stream_Pipe = Juniper.Pinned.Skeleton.pin_stream_Pipe := by rfl
theorem pin_stream_PipeSender_Close_ok : Juniper.Gen.PinSkeleton.pin_stream_PipeSender_Close = Juniper.Pinned.Skeleton.pin_stream_PipeSender_Close := by rfl
theorem pin_stream_PipeSender_Send_ok : Juniper.Gen.PinSkeleton.pin_stream_PipeSender_Send = Juniper.Pinned.Skeleton.pin_stream_PipeSender_Send := by rfl
theorem pin_stream_PipeSender_TrySend_ok : Juniper.Gen.PinSkeleton.pin_stream_PipeSender_TrySend = Juniper.Pinned.Skeleton.pin_stream_PipeSender_TrySend := by rfl
theorem pin_stream_batchStream_Close_ok : Juniper.Gen.PinSkeleton.pin_stream_batchStream_Close = Juniper.Pinned.Skeleton.pin_stream_batchStream_Close := by rfl
theorem pin_stream_batchStream_Next_ok : Juniper.Gen.PinSkeleton.pin_stream_batchStream_Next = Juniper.Pinned.Skeleton.pin_stream_batchStream_Next := by rfl
theorem pin_stream_chanStream_Close_ok : Juniper.Gen.PinSkeleton.pin_stream_chanStream_Close = Juniper.Pinned.Skeleton.pin_stream_chanStream_Close := by rfl
theorem pin_stream_chanStream_Next_ok : Juniper.Gen.PinSkeleton.pin_stream_chanStream_Next = Juniper.Pinned.Skeleton.pin_stream_chanStream_Next := by rfl
theorem pin_stream_mergeStream_Close_ok : Juniper.Gen.PinSkeleton.pin_stream_mergeStream_Close = Juniper.Pinned.Skeleton.pin_stream_mergeStream_Close := by rfl
theorem pin_stream_mergeStream_Next_ok : Juniper.Gen.PinSkeleton.pin_stream_mergeStream_Next = Juniper.Pinned.Skeleton.pin_stream_mergeStream_Next := by rfl
theorem pin_stream_pipeStream_Close_ok : Juniper.Gen.PinSkeleton.pin_stream_pipeStream_Close = Juniper.Pinned.Skeleton.pin_stream_pipeStream_Close := by rfl
theorem pin_stream_pipeStream_Next_ok : Juniper.Gen.PinSkeleton.pin_stream_pipeStream_Next = Juniper.Pinned.Skeleton.pin_stream_pipeStream_Next := by rfl
theorem pin_chans_vars_ok : Juniper.Gen.PinSkeleton.pin_chans_vars = Juniper.Pinned.Skeleton.pin_chans_vars := by rfl
theorem pin_stream_type_Peekable_ok : Juniper.Gen.PinSkeleton.pin_stream_type_Peekable = Juniper.Pinned.Skeleton.pin_stream_type_Peekable := by rfl
theorem pin_stream_type_PipeSender_ok : Juniper.Gen.PinSkeleton.pin_stream_type_PipeSender = Juniper.Pinned.Skeleton.pin_stream_type_PipeSender := by rfl
theorem pin_stream_type_Stream_ok : Juniper.Gen.PinSkeleton.pin_stream_type_Stream = Juniper.Pinned.Skeleton.pin_stream_type_Stream := by rfl
theorem pin_stream_type_batchStream_ok : Juniper.Gen.PinSkeleton.pin_stream_type_batchStream = Juniper.Pinned.Skeleton.pin_stream_type_batchStream := by rfl
theorem pin_stream_type_chanStream_ok : Juniper.Gen.PinSkeleton.pin_stream_type_chanStream = Juniper.Pinned.Skeleton.pin_stream_type_chanStream := by rfl
theorem pin_stream_type_chunkStream_ok : Juniper.Gen.PinSkeleton.pin_stream_type_chunkStream = Juniper.Pinned.Skeleton.pin_stream_type_chunkStream := by rfl
theorem pin_stream_type_compactStream_ok : Juniper.Gen.PinSkeleton.pin_stream_type_compactStream = Juniper.Pinned.Skeleton.pin_stream_type_compactStream := by rfl
theorem pin_stream_type_emptyStream_ok : Juniper.Gen.PinSkeleton.pin_stream_type_emptyStream = Juniper.Pinned.Skeleton.pin_stream_type_emptyStream := by rfl
theorem pin_stream_type_errorStream_ok : Juniper.Gen.PinSkeleton.pin_stream_type_errorStream = Juniper.Pinned.Skeleton.pin_stream_type_errorStream := by rfl
theorem pin_stream_type_filterStream_ok : Juniper.Gen.PinSkeleton.pin_stream_type_filterStream = Juniper.Pinned.Skeleton.pin_stream_type_filterStream := by rfl
theorem pin_stream_type_firstStream_ok : Juniper.Gen.PinSkeleton.pin_stream_type_firstStream = Juniper.Pinned.Skeleton.pin_stream_type_firstStream := by rfl
theorem pin_stream_type_flattenSlicesStream_ok : Juniper.Gen.PinSkeleton.pin_stream_type_flattenSlicesStream = Juniper.Pinned.Skeleton.pin_stream_type_flattenSlicesStream := by rfl
theorem pin_stream_type_flattenStream_ok : Juniper.Gen.PinSkeleton.pin_stream_type_flattenStream = Juniper.Pinned.Skeleton.pin_stream_type_flattenStream := by rfl
theorem pin_stream_type_iteratorStream_ok : Juniper.Gen.PinSkeleton.pin_stream_type_iteratorStream = Juniper.Pinned.Skeleton.pin_stream_type_iteratorStream := by rfl
theorem pin_stream_type_joinStream_ok : Juniper.Gen.PinSkeleton.pin_stream_type_joinStream = Juniper.Pinned.Skeleton.pin_stream_type_joinStream := by rfl
theorem pin_stream_type_mapStream_ok : Juniper.Gen.PinSkeleton.pin_stream_type_mapStream = Juniper.Pinned.Skeleton.pin_stream_type_mapStream := by rfl
theorem pin_stream_type_mergeStream_ok : Juniper.Gen.PinSkeleton.pin_stream_type_mergeStream = Juniper.Pinned.Skeleton.pin_stream_type_mergeStream := by rfl
theorem pin_stream_type_peekable_ok : Juniper.Gen.PinSkeleton.pin_stream_type_peekable = Juniper.Pinned.Skeleton.pin_stream_type_peekable := by rfl
theorem pin_stream_type_pipeStream_ok : Juniper.Gen.PinSkeleton.pin_stream_type_pipeStream = Juniper.Pinned.Skeleton.pin_stream_type_pipeStream := by rfl
theorem pin_stream_type_runsInnerStream_ok : Juniper.Gen.PinSkeleton.pin_stream_type_runsInnerStream = Juniper.Pinned.Skeleton.pin_stream_type_runsInnerStream := by rfl
theorem pin_stream_type_runsStream_ok : Juniper.Gen.PinSkeleton.pin_stream_type_runsStream = Juniper.Pinned.Skeleton.pin_stream_type_runsStream := by rfl
theorem pin_stream_type_whileStream_ok : Juniper.Gen.PinSkeleton.pin_stream_type_whileStream = Juniper.Pinned.Skeleton.pin_stream_type_whileStream := by rfl
theorem pin_stream_vars_ok : Juniper.Gen.PinSkeleton.pin_stream_vars = Juniper.Pinned.Skeleton.pin_stream_vars := by rfl

end Juniper.Props.PinSkeleton
