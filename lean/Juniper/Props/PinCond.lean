-- Tie theorems of the pins (written by `gofacts -pin` together with Juniper/Pinned/Cond.lean; see notes/pins.md).
-- Each says: the declaration gofacts reads from the tree under check today is, up to the names of its locals,
-- the one the author of the model saw. `rfl` on two literals: kernel-checked, no axioms.
import Juniper.Generated.PinCond
import Juniper.Pinned.Cond

namespace Juniper.Props.PinCond

theorem pin_xsync_ContextCond_Broadcast_ok : Juniper.Gen.PinCond.pin_xsync_ContextCond_Broadcast = Juniper.Pinned.Cond.pin_xsync_ContextCond_Broadcast := by rfl
theorem pin_xsync_ContextCond_Signal_ok : Juniper.Gen.PinCond.pin_xsync_ContextCond_Signal = Juniper.Pinned.Cond.pin_xsync_ContextCond_Signal := by rfl
theorem pin_xsync_ContextCond_Wait_ok : Juniper.Gen.PinCond.pin_xsync_ContextCond_Wait = Juniper.Pinned.Cond.pin_xsync_ContextCond_Wait := by rfl
theorem pin_xsync_NewContextCond_ok : Juniper.Gen.PinCond.pin_xsync_NewContextCond = Juniper.Pinned.Cond.pin_xsync_NewContextCond := by rfl
theorem pin_xsync_type_ContextCond_ok : Juniper.Gen.PinCond.pin_xsync_type_ContextCond = Juniper.Pinned.Cond.pin_xsync_type_ContextCond := by rfl
theorem pin_xsync_type_Future_ok : Juniper.Gen.PinCond.pin_xsync_type_Future = Juniper.Pinned.Cond.pin_xsync_type_Future := by rfl
theorem pin_xsync_type_Group_ok : Juniper.Gen.PinCond.pin_xsync_type_Group = Juniper.Pinned.Cond.pin_xsync_type_Group := by rfl
theorem pin_xsync_type_Map_ok : Juniper.Gen.PinCond.pin_xsync_type_Map = Juniper.Pinned.Cond.pin_xsync_type_Map := by rfl
theorem pin_xsync_type_Pool_ok : Juniper.Gen.PinCond.pin_xsync_type_Pool = Juniper.Pinned.Cond.pin_xsync_type_Pool := by rfl
theorem pin_xsync_type_Watchable_ok : Juniper.Gen.PinCond.pin_xsync_type_Watchable = Juniper.Pinned.Cond.pin_xsync_type_Watchable := by rfl
theorem pin_xsync_type_watchableInner_ok : Juniper.Gen.PinCond.pin_xsync_type_watchableInner = Juniper.Pinned.Cond.pin_xsync_type_watchableInner := by rfl
theorem pin_xsync_vars_ok : Juniper.Gen.PinCond.pin_xsync_vars = Juniper.Pinned.Cond.pin_xsync_vars := by rfl

end Juniper.Props.PinCond
