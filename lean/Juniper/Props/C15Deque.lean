import Juniper.Proofs.DequeWF
/-!
# C15 (deque half) — `Deque.Iterate` is snapshot-or-panic (property theorems)

Model: `Juniper.Model.Deque` (`iterate`, `iterNext`; `nextObs` = one `Next` call observed as
item / exhausted / panic; `nexts` = `n` consecutive `Next` calls; `runEv` = the observations made
through one iterator during an arbitrary sequence of deque calls and `Next` calls).
Spec: `Juniper.Spec.Deque.SnapshotOrPanic s obs` — every item is the next element of the snapshot
`s`, "exhausted" only after the whole snapshot, otherwise a panic (and then panics only).

The theorems rest on two regenerated presence facts about `deque.go`, both discharged by `decide`
*inside* the proofs, so that deleting one of the statements in the Go source breaks them:
`GenFacts` — `d.gen++` occurs in both pushes, in both branches of both pops (also the one that
empties the deque), in `resize` and in `Set`; `ClearFacts` — the pops zero the vacated slot.
-/
namespace Juniper.Props.C15Deque
open Juniper.Gen.Deque Juniper.Model.Deque Juniper.Proofs.Deque
open Juniper.Spec.Deque (Op Out Obs SnapshotOrPanic)

variable {α : Type}

/-- **Unchanged container.** On a deque that is not touched, an iterator yields exactly the
contents front to back and then reports exhaustion for ever: the first `n` calls return the first
`n` elements (all of them when `n ≥ Len`), the remaining calls return "exhausted"; nothing panics.
Draining it (`Op.iterate`) returns the contents. -/
theorem dequeIter_unchanged_yields_contents {d : Deque α} (h : WF d) (n : Nat) :
    (nexts d (iterate d) n).2 =
      ((contents d).take n).map (fun x => Obs.item (some x))
        ++ List.replicate (n - (contents d).length) Obs.done ∧
    collect d = some ((contents d).map some) := by
  have := (IterAt.nexts h n (iterate d) 0 (Rep.iterate_at h)).1
  simp only [List.drop_zero, Nat.sub_zero] at this
  exact ⟨this, Rep.collect_eq h⟩

/-- **Unchanged container, with reads in between** (audit C15-F6). "Unchanged" does not mean "not called": while an
iterator is live the deque may be *read* (`Front`, `Back`, `Item`, `Len`, draining another iterator), and calls that
refuse and panic (`PopFront`/`PopBack`/`Front`/`Back` of an empty deque, `Item`/`Set` outside the range, `Shrink` of a
negative amount) or that happen not to reallocate (`Grow`/`Shrink` that keep the buffer: last disjunct) leave it as it
is. In every such interleaving the iterator's `Next` calls return exactly what back-to-back calls return: the contents
front to back, then "exhausted" for ever — in particular **no spurious panic** (`dequeIter_snapshot_or_panic` alone
would allow one). -/
theorem dequeIter_unchanged_reads_yield_contents {d : Deque α} (h : WF d) (es : List (Ev α))
    (hq : ∀ o, Ev.op o ∈ es → Quiet (contents d) o ∨ (applyOp d o).1 = d) :
    runEv d (iterate d) es =
      ((contents d).take (nextCount es)).map (fun x => Obs.item (some x))
        ++ List.replicate (nextCount es - (contents d).length) Obs.done := by
  rw [runEv_untouched d es (iterate d) (fun o ho => (hq o ho).elim (fun q => Rep.applyOp_quiet h (by decide) q) id)]
  exact (dequeIter_unchanged_yields_contents h (nextCount es)).1

/-- **Snapshot or panic, any interleaving.** For every well-formed state: make an iterator, then
let *any* sequence of deque calls (each of the twelve operations, any arguments, panicking calls
included) and `Next` calls happen in any order. What the iterator returns is a prefix of the
snapshot taken when it was made, it reports exhaustion only after the whole snapshot, and otherwise
it panics (and keeps panicking). -/
theorem dequeIter_snapshot_or_panic {d : Deque α} (h : WF d) (es : List (Ev α)) :
    SnapshotOrPanic (contents d) (runEv d (iterate d) es) := by
  have := IterAt.runEv (by decide) (by decide) es d (contents d) (iterate d) 0 h (Rep.iterate_at h)
  simpa using this

/-- The instance named in the property text: every well-formed state, every iterator position
(`pos` items requested so far — more than `Len` included), every mid-iteration operation, followed
by any number of further `Next` calls. -/
theorem dequeIter_midop_snapshot_or_panic {d : Deque α} (h : WF d) (pos : Nat) (o : Op α)
    (more : Nat) :
    SnapshotOrPanic (contents d)
      (runEv d (iterate d) (List.replicate pos .next ++ .op o :: List.replicate more .next)) :=
  dequeIter_snapshot_or_panic h _

/-- **Adding or removing an element makes the next call panic**, at every iterator position: after a
`PushFront`, a `PushBack`, or a `PopFront`/`PopBack` of a non-empty deque (the pop that empties it
included), and likewise after a `Set` inside the range, the iterator's next `Next` panics. -/
theorem dequeIter_add_remove_panics {d : Deque α} (h : WF d) (pos : Nat) (o : Op α)
    (ho : (∃ x, o = .pushFront x) ∨ (∃ x, o = .pushBack x) ∨
      ((o = .popFront ∨ o = .popBack) ∧ contents d ≠ []) ∨
      (∃ i x, o = .set i x ∧ 0 ≤ i ∧ i < (contents d).length)) :
    (nextObs (applyOp d o).1 (nexts d (iterate d) pos).1).2 = Obs.panic := by
  have hgf : GenFacts := by decide
  have hit := (IterAt.nexts h pos (iterate d) 0 (Rep.iterate_at h)).2
  obtain ⟨hr, _, hs, _⟩ := Rep.applyOp h o (by decide)
  have hlt : d.gen < (applyOp d o).1.gen := by
    rcases hs with hs | hs
    · -- the state cannot be untouched: the contents differ
      exfalso
      have hc := hr.contents_eq
      rw [hs] at hc
      rcases ho with ⟨x, rfl⟩ | ⟨x, rfl⟩ | ⟨ho, hne⟩ | ⟨i, x, rfl, hi0, hi1⟩
      · have := congrArg List.length hc
        simp [Spec.Deque.step, Spec.Deque.panics] at this
      · have := congrArg List.length hc
        simp [Spec.Deque.step, Spec.Deque.panics] at this
      · have hp := List.length_pos_iff.mpr hne
        have hemp : (contents d).isEmpty = false := by
          cases hcd : contents d with
          | nil => exact absurd hcd hne
          | cons _ _ => rfl
        rcases ho with rfl | rfl
        · have := congrArg List.length hc
          simp [Spec.Deque.step, Spec.Deque.panics, hemp] at this
          omega
        · have := congrArg List.length hc
          simp [Spec.Deque.step, Spec.Deque.panics, hemp] at this
          omega
      · -- `Set` may write the value that is already there; then nothing the iterator could see
        -- differs — but the counter moved, which is what is claimed: use the step lemma directly
        obtain ⟨d', he, _, hg⟩ := Rep.set h hi0 hi1 x
        have e : (applyOp d (.set i x)).1 = d' := by simp only [applyOp, he, outUnit]
        rw [e] at hs
        have := lt_bump hgf.2.2.2.2.2.2.2 d.gen
        rw [← hg, hs] at this
        omega
    · exact hs.2 hgf
  have hne : (nexts d (iterate d) pos).1.gen ≠ (applyOp d o).1.gen := by
    have := hit.gen_eq; omega
  rw [nextObs_stale _ _ hne]

/-! ## Non-vacuity (and the replays of D9, now panicking) -/

/-- `PushBack 7; Iterate; PopFront; Next` — the pop that empties the deque invalidates the iterator
(before the repair: `(zero, false)`, a silent early end). -/
example :
    let d := (run (zero : Deque Int) [.pushBack 7]).1
    WF d ∧ contents d = [7] ∧
      runEv d (iterate d) [.op .popFront, .next] = [.panic] := by
  exact ⟨(Rep.run (by decide) _ _ _ rep_zero).1.wf, by decide +kernel, by decide +kernel⟩

/-- A wrapped window (`front = 14`, three elements), one `Next`, then `Grow` reallocates: the
iterator panics instead of reading a raw index of the old buffer; without a reallocation
(`Grow(1)`) it carries on and yields the whole snapshot. -/
example :
    let d := (run (zero : Deque Int)
      (.pushBack 0 :: (List.range 13).flatMap (fun _ => [Op.pushBack 0, Op.popFront]) ++
        [.pushBack 1, .popFront, .pushBack 2, .pushBack 3])).1
    d.front = 14 ∧ d.back = 0 ∧ contents d = [1, 2, 3] ∧
      runEv d (iterate d) [.next, .op (.grow 20), .next, .next] = [.item (some 1), .panic, .panic] ∧
      runEv d (iterate d) [.next, .op (.grow 1), .next, .next, .next, .next]
        = [.item (some 1), .item (some 2), .item (some 3), .done, .done] := by
  refine ⟨by decide +kernel, by decide +kernel, by decide +kernel, by decide +kernel,
    by decide +kernel⟩

/-- `Set` ahead of the iterator. -/
example :
    let d := (run (zero : Deque Int) [.pushBack 1, .pushBack 2]).1
    runEv d (iterate d) [.next, .op (.set 1 99), .next] = [.item (some 1), .panic] ∧
      SnapshotOrPanic (contents d) (runEv d (iterate d) [.next, .op (.set 1 99), .next]) := by
  refine ⟨by decide +kernel, dequeIter_snapshot_or_panic (Rep.run (by decide) _ _ _ rep_zero).1.wf _⟩

/-- reads, refused calls and a non-reallocating `Grow` between the `Next`s: the whole snapshot, then "exhausted". -/
example :
    let d := (run (zero : Deque Int) [.pushBack 1, .pushBack 2]).1
    let es : List (Ev Int) := [.op .len, .next, .op (.item 1), .op (.set 5 9), .op (.shrink (-1)), .op .front, .next,
      .op (.grow 0), .op .iterate, .next, .next]
    (∀ o, Ev.op o ∈ es → Quiet (contents d) o ∨ (applyOp d o).1 = d) ∧
      runEv d (iterate d) es = [.item (some 1), .item (some 2), .done, .done] := by
  refine ⟨?_, by decide +kernel⟩
  intro o ho
  simp only [List.mem_cons, Ev.op.injEq, reduceCtorEq, false_or, List.not_mem_nil, or_false] at ho
  rcases ho with rfl | rfl | rfl | rfl | rfl | rfl | rfl
  · exact Or.inl (Or.inl rfl)
  · exact Or.inl (Or.inl rfl)
  · exact Or.inl (Or.inr (by decide +kernel))
  · exact Or.inl (Or.inr (by decide +kernel))
  · exact Or.inl (Or.inl rfl)
  · exact Or.inr (by decide +kernel)
  · exact Or.inl (Or.inl rfl)

end Juniper.Props.C15Deque
