-- Tie theorems of the pins (written by `gofacts -pin` together with Juniper/Pinned/Watch.lean; see notes/pins.md).
-- Each says: the declaration gofacts reads from the tree under check today is, up to the names of its locals,
-- the one the author of the model saw. `rfl` on two literals: kernel-checked, no axioms.
import Juniper.Generated.PinWatch
import Juniper.Pinned.Watch

namespace Juniper.Props.PinWatch

theorem pin_xsync_Future_Fill_ok : Juniper.Gen.PinWatch.pin_xsync_Future_Fill = Juniper.Pinned.Watch.pin_xsync_Future_Fill := by rfl
theorem pin_xsync_Future_Wait_ok : Juniper.Gen.PinWatch.pin_xsync_Future_Wait = Juniper.Pinned.Watch.pin_xsync_Future_Wait := by rfl
theorem pin_xsync_Future_WaitContext_ok : Juniper.Gen.PinWatch.pin_xsync_Future_WaitContext = Juniper.Pinned.Watch.pin_xsync_Future_WaitContext := by rfl
theorem pin_xsync_Lazy_ok : Juniper.Gen.PinWatch.pin_xsync_Lazy = Juniper.Pinned.Watch.pin_xsync_Lazy := by rfl
theorem pin_xsync_Map_CompareAndDelete_ok : Juniper.Gen.PinWatch.pin_xsync_Map_CompareAndDelete = Juniper.Pinned.Watch.pin_xsync_Map_CompareAndDelete := by rfl
theorem pin_xsync_Map_CompareAndSwap_ok : Juniper.Gen.PinWatch.pin_xsync_Map_CompareAndSwap = Juniper.Pinned.Watch.pin_xsync_Map_CompareAndSwap := by rfl
theorem pin_xsync_Map_Delete_ok : Juniper.Gen.PinWatch.pin_xsync_Map_Delete = Juniper.Pinned.Watch.pin_xsync_Map_Delete := by rfl
theorem pin_xsync_Map_Load_ok : Juniper.Gen.PinWatch.pin_xsync_Map_Load = Juniper.Pinned.Watch.pin_xsync_Map_Load := by rfl
theorem pin_xsync_Map_LoadAndDelete_ok : Juniper.Gen.PinWatch.pin_xsync_Map_LoadAndDelete = Juniper.Pinned.Watch.pin_xsync_Map_LoadAndDelete := by rfl
theorem pin_xsync_Map_LoadOrStore_ok : Juniper.Gen.PinWatch.pin_xsync_Map_LoadOrStore = Juniper.Pinned.Watch.pin_xsync_Map_LoadOrStore := by rfl
theorem pin_xsync_Map_Range_ok : Juniper.Gen.PinWatch.pin_xsync_Map_Range = Juniper.Pinned.Watch.pin_xsync_Map_Range := by rfl
theorem pin_xsync_Map_Store_ok : Juniper.Gen.PinWatch.pin_xsync_Map_Store = Juniper.Pinned.Watch.pin_xsync_Map_Store := by rfl
theorem pin_xsync_Map_Swap_ok : Juniper.Gen.PinWatch.pin_xsync_Map_Swap = Juniper.Pinned.Watch.pin_xsync_Map_Swap := by rfl
theorem pin_xsync_NewFuture_ok : Juniper.Gen.PinWatch.pin_xsync_NewFuture = Juniper.Pinned.Watch.pin_xsync_NewFuture := by rfl
theorem pin_xsync_Watchable_Set_ok : Juniper.Gen.PinWatch.pin_xsync_Watchable_Set = Juniper.Pinned.Watch.pin_xsync_Watchable_Set := by rfl
theorem pin_xsync_Watchable_Value_ok : Juniper.Gen.PinWatch.pin_xsync_Watchable_Value = Juniper.Pinned.Watch.pin_xsync_Watchable_Value := by rfl
theorem pin_xsync_type_ContextCond_ok : Juniper.Gen.PinWatch.pin_xsync_type_ContextCond = Juniper.Pinned.Watch.pin_xsync_type_ContextCond := by rfl
theorem pin_xsync_type_Future_ok : Juniper.Gen.PinWatch.pin_xsync_type_Future = Juniper.Pinned.Watch.pin_xsync_type_Future := by rfl
theorem pin_xsync_type_Group_ok : Juniper.Gen.PinWatch.pin_xsync_type_Group = Juniper.Pinned.Watch.pin_xsync_type_Group := by rfl
theorem pin_xsync_type_Map_ok : Juniper.Gen.PinWatch.pin_xsync_type_Map = Juniper.Pinned.Watch.pin_xsync_type_Map := by rfl
theorem pin_xsync_type_Pool_ok : Juniper.Gen.PinWatch.pin_xsync_type_Pool = Juniper.Pinned.Watch.pin_xsync_type_Pool := by rfl
theorem pin_xsync_type_Watchable_ok : Juniper.Gen.PinWatch.pin_xsync_type_Watchable = Juniper.Pinned.Watch.pin_xsync_type_Watchable := by rfl
theorem pin_xsync_type_watchableInner_ok : Juniper.Gen.PinWatch.pin_xsync_type_watchableInner = Juniper.Pinned.Watch.pin_xsync_type_watchableInner := by rfl
theorem pin_xsync_vars_ok : Juniper.Gen.PinWatch.pin_xsync_vars = Juniper.Pinned.Watch.pin_xsync_vars := by rfl

end Juniper.Props.PinWatch
