import Juniper.Proofs.StreamReduce
import Juniper.Proofs.StreamLast
import Juniper.Proofs.StreamRuns
/-!
# C08 — stream failures surface intact and never lose or duplicate items (property theorems,
caller's-goroutine combinators)

The vocabulary is that of `Props/C07.lean`. `SDen soft m cost s L t` quantifies over every choice of
per-call contexts and lets *soft* failures (expired context, transient source failure) happen between
the outputs; `sden_next` (C07) reads it at the consumer. The per-combinator theorems `s_*_denotes` of
C07 are stated for every termination `t` of the inner stream, i.e. they already cover failures; here
are the C08 readings.
-/
namespace Juniper.Props.C08
open Juniper.Model Juniper.Model.Stream Juniper.Spec Juniper.Gen.Comb
open Juniper.Proofs Juniper.Proofs.StreamDen
universe u v w
variable {σ : Type u} {τ : Type w} {α β : Type v}

/-- **The source.** A script = items, transient failures, possibly a fatal failure (sticky). It denotes
the items before the first fatal failure and then that failure (or the end); transient failures and
calls with an expired context cost nothing. -/
theorem source_fault_denotes (sc : List (Ev α)) :
    SDen Err.soft src (fun s : Src α => s.pulled) (Src.of sc) (scriptItems true 0 sc) (scriptTerm true 0 sc) := by
  simpa [Src.of] using src_sden (soft := Err.soft) true (fun _ => rfl) (fun _ => rfl) sc 0 0 0

example : scriptItems true 0 [Ev.item 1, .transient 5, .item 2, .fatal 9, .item 3] = [(1, 1), (2, 2)] ∧
    scriptTerm true 0 [Ev.item 1, .transient 5, .item 2, .fatal 9, .item 3] = .fail (.fatal 9) := by decide

/-- **A failed `Next` costs nothing** (`C_transient_transparent`, for every combinator at once): a
script and the same script with its transient failures erased denote the same thing; so by `sden_next`
the answers of any run — with the failed calls erased — are those of the fault-free run, no item lost
or duplicated. Combined with the `s_*_denotes` theorems this holds behind every pipeline. -/
theorem transient_transparent (sc : List (Ev α)) :
    scriptItems true 0 (eraseT sc) = scriptItems true 0 sc ∧ scriptTerm true 0 (eraseT sc) = scriptTerm true 0 sc :=
  ⟨scriptItems_eraseT true 0 sc, scriptTerm_eraseT true 0 sc⟩

/-- The consumer-level reading of the two theorems above for a combinator `C` given by its
denotation lemma `hC`: whatever contexts are passed and wherever the transient failures sit, the
answers with the failed calls erased conform to what `C` yields on the erased script. -/
theorem pipeline_transient_transparent {σ' : Type w} {m' : SM σ' β} {cost' : σ' → Nat} {mk : Src α → σ'}
    {spec : List (α × Nat) → Term → List (β × Nat) × Term}
    (hC : ∀ (s : Src α) L t, SDen Err.soft src (fun s : Src α => s.pulled) s L t →
      SDen Err.soft m' cost' (mk s) (spec L t).1 (spec L t).2)
    (sc : List (Ev α)) :
    ∃ F, ∀ fuel, F ≤ fuel → ∀ cs,
      Conforms (hard Err.soft (snexts m' fuel cs (mk (Src.of sc))))
        ((spec (scriptItems true 0 (eraseT sc)) (scriptTerm true 0 (eraseT sc))).1.map Prod.fst)
        (spec (scriptItems true 0 (eraseT sc)) (scriptTerm true 0 (eraseT sc))).2 := by
  rw [(transient_transparent sc).1, (transient_transparent sc).2]
  exact sden_conforms rfl (hC _ _ _ (source_fault_denotes sc))

/-- instance: `Chunk` keeps its pending chunk across failed calls -/
theorem chunk_transient_transparent (n : Nat) (sc : List (Ev α)) :
    ∃ F, ∀ fuel, F ≤ fuel → ∀ cs,
      Conforms (hard Err.soft (snexts (chunk (n : Int) src) fuel cs ⟨Src.of sc, []⟩))
        ((chunkGoS n [] (scriptItems true 0 (eraseT sc)) (scriptTerm true 0 (eraseT sc))).map Prod.fst)
        (scriptTerm true 0 (eraseT sc)) :=
  pipeline_transient_transparent (m' := chunk (n : Int) src) (mk := fun s => ⟨s, []⟩)
    (spec := fun L t => (chunkGoS n [] L t, t)) (fun _ _ _ h => chunk_sden n h []) sc

example : chunkGoS 2 [] (scriptItems true 0 [Ev.item 1, .transient 5, .item 2, .item 3]) (.end_ 3) =
    [([1, 2], 2), ([3], 3)] := by decide

/-- **`C_fatal`**: after `p` items the source fails for good with `E`: `Chunk` delivers the full
chunks of those `p` items (not the partial one) and then `E` itself. -/
theorem chunk_fatal (n : Nat) (l : List α) (E : Nat) (rest : List (Ev α)) :
    SDen Err.soft (chunk (n : Int) src) (fun st => st.inner.pulled) ⟨Src.of (l.map Ev.item ++ .fatal E :: rest), []⟩
      (chunkGoS n [] (scriptItems true 0 (l.map Ev.item ++ .fatal E :: rest)) (.fail (.fatal E)))
      (.fail (.fatal E)) := by
  have e : ∀ (l : List α) p, scriptTerm true p (l.map Ev.item ++ Ev.fatal E :: rest) = .fail (.fatal E) := by
    intro l
    induction l with
    | nil => intro p; rfl
    | cons a l ih => intro p; simp [scriptTerm, ih]
  have h := chunk_sden (soft := Err.soft) n (source_fault_denotes (l.map Ev.item ++ .fatal E :: rest)) []
  rwa [e] at h

/-- the same reading for every other single-source combinator is its `s_*_denotes` theorem (C07)
instantiated with `t := .fail E`: the spec functions (`mapS`, `filterS`, `whileS`, `firstTermS`,
`chunkGoS`, `flattenS`, `joinS`, `runsGoS`) leave a failure term untouched unless the combinator has
already ended. For `Map`: if the callback succeeds on every item before the failure, all their images
are delivered and then `E` itself. -/
theorem map_fatal (f : α → Except Err β) (L : List (α × Nat)) (E : Err) (hok : ∀ p ∈ L, ∃ b, f p.1 = .ok b) :
    (mapS f L (.fail E)).2 = .fail E ∧ (mapS f L (.fail E)).1.length = L.length := by
  induction L with
  | nil => exact ⟨rfl, rfl⟩
  | cons p L ih =>
    obtain ⟨a, c⟩ := p
    obtain ⟨b, hb⟩ := hok (a, c) (by simp)
    have := ih (fun p hp => hok p (by simp [hp]))
    simp only [mapS, hb, List.length_cons]
    exact ⟨this.1, by rw [this.2]⟩

/-- **`C_callback_error`**: a callback failing with `E` on some item: `Map` / `Filter` / `While`
deliver the outputs of the items before it and then `E` itself (never the end, another error, or
silence). Reading of `s_map_denotes`: the spec stops at the first failing item with `.fail E`. -/
theorem map_callback_error (f : α → Except Err β) (a : α) (c : Nat) (E : Err) (hfa : f a = .error E)
    (pre : List (α × Nat)) (hpre : ∀ p ∈ pre, ∃ b, f p.1 = .ok b) (post : List (α × Nat)) (t : Term) :
    (mapS f (pre ++ (a, c) :: post) t).2 = .fail E ∧ (mapS f (pre ++ (a, c) :: post) t).1.length = pre.length := by
  induction pre with
  | nil => simp [mapS, hfa]
  | cons p pre ih =>
    obtain ⟨x, k⟩ := p
    obtain ⟨b, hb⟩ := hpre (x, k) (by simp)
    have := ih (fun p hp => hpre p (by simp [hp]))
    simp only [List.cons_append, mapS, hb, List.length_cons]
    exact ⟨this.1, by rw [this.2]⟩

/-- **Reducers return `E`**: a reducer gives up at the first failure of any kind (transient ones
included) and returns that failure itself — `Collect`, `Reduce`, `SampleStream`. -/
theorem collect_err {m : SM σ α} {cost : σ → Nat} {s : σ} {L : List (α × Nat)} {E : Err}
    (h : SDen strict m cost s L (.fail E)) :
    ∃ F, ∀ fuel, F ≤ fuel → (collect m true fuel s).1 = .error E := by
  obtain ⟨F, hF⟩ := collect_sden h
  exact ⟨F, fun fuel hf => by simpa [outOf] using hF fuel hf⟩

theorem reduce_err {γ : Type v} {m : SM σ α} {cost : σ → Nat} {s : σ} {L : List (α × Nat)} {E : Err}
    (f : γ → α → Except Err γ) (hok : ∀ acc a, ∃ acc', f acc a = .ok acc') (h : SDen strict m cost s L (.fail E)) :
    ∃ F, ∀ fuel, F ≤ fuel → ∀ init, (reduce m f true fuel init s).1 = .error E := by
  obtain ⟨F, hF⟩ := reduce_sden f h
  refine ⟨F, fun fuel hf init => ?_⟩
  rw [hF fuel hf init]
  generalize L.map Prod.fst = l
  induction l generalizing init with
  | nil => rfl
  | cons a l ih =>
    obtain ⟨acc', h'⟩ := hok init a
    simp only [foldRes, h']
    exact ih acc'

theorem last_err {m : SM σ α} {cost : σ → Nat} {s : σ} {L : List (α × Nat)} {E : Err} (n : Nat)
    (h : SDen strict m cost s L (.fail E)) :
    ∃ F, ∀ fuel, F ≤ fuel → (last m (n : Int) true fuel s).1 = .error E := by
  obtain ⟨F, hF⟩ := last_sden n h
  exact ⟨F, fun fuel hf => by simpa [outOf] using hF fuel hf⟩

theorem one_err {m : SM σ α} {cost : σ → Nat} {s : σ} {L : List (α × Nat)} {E : Err}
    (h : SDen strict m cost s L (.fail E)) (hl : L.length ≤ 1) :
    ∃ F, ∀ fuel, F ≤ fuel → (one m true fuel s).1 = .error E := by
  obtain ⟨F, hF⟩ := one_sden h
  refine ⟨F, fun fuel hf => ?_⟩
  rw [hF fuel hf]
  match L, hl with
  | [], _ => rfl
  | [_], _ => rfl

theorem sample_err {m : SM σ α} {cost : σ → Nat} {s : σ} {L : List (α × Nat)} {E : Err}
    (h : SDen strict m cost s L (.fail E)) :
    ∃ F, ∀ fuel, F ≤ fuel → (sampleCount m true fuel s).1 = .error E := by
  obtain ⟨F, hF⟩ := sample_sden h
  exact ⟨F, fun fuel hf => by simpa [outOf] using hF fuel hf⟩

/-- `Runs` under faults (`runs_sden`, stated in C07 as `s_runs_denotes`): a failure in the middle of a
run drops that run and surfaces itself; a failed call that costs nothing — whether it hit the outer
stream while it was skipping the rest of a run, or an inner stream — changes nothing. -/
theorem runs_fatal (same : α → α → Bool) (take : Option Nat) (acc : List α) (prev : α) (E : Err) :
    runsGoS same take (some acc) prev [] (.fail E) = [] := rfl

/-- the reducer's view of a script: the items before the first failure of any kind, then that failure -/
theorem source_strict_denotes (sc : List (Ev α)) :
    SDen strict src (fun s : Src α => s.pulled) (Src.of sc) (scriptItems false 0 sc) (scriptTerm false 0 sc) := by
  simpa [Src.of] using src_sden (soft := strict) false (fun _ => rfl) (fun _ => rfl) sc 0 0 0

example : scriptTerm false 0 [Ev.item (1 : Nat), .transient 5, .item 2] = .fail (.transient 5) := by decide

/-- a reducer handed an expired context returns the context error without consuming anything -/
theorem reducer_ctx_costs_nothing {γ : Type v} (m : SM σ α) (f : γ → α → Except Err γ) (fuel : Nat) (acc : γ) (s : σ)
    (h : m.step s false = (.err .ctx, s)) : reduceLoop m f false (fuel + 1) acc s = (.error .ctx, s) :=
  reduceLoop_ctx m f fuel acc s h

end Juniper.Props.C08
