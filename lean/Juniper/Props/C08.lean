import Juniper.Proofs.StreamReduce
import Juniper.Proofs.StreamLast
import Juniper.Proofs.StreamRuns
import Juniper.Proofs.StreamFaults
/-!
# C08 — stream failures surface intact and never lose or duplicate items (property theorems,
caller's-goroutine combinators)

The vocabulary is that of `Props/C07.lean`. `SDen soft m cost s L t` quantifies over every choice of
per-call contexts and lets *soft* failures (expired context, transient source failure) happen between
the outputs; `sden_next` (C07) reads it at the consumer. The per-combinator theorems `s_*_denotes` of
C07 are stated for every termination `t` of the inner stream, i.e. they already cover failures; here
are the C08 readings.
-/
namespace Juniper.Props.C08
open Juniper.Model Juniper.Model.Stream Juniper.Spec Juniper.Gen.Comb
open Juniper.Proofs Juniper.Proofs.StreamDen
open Juniper.Proofs.IterDen (annot annot_fst)
universe u v w x
variable {σ : Type u} {τ : Type w} {α β : Type v}

/-- **The source.** A script = items, transient failures, possibly a fatal failure (sticky). It denotes
the items before the first fatal failure and then that failure (or the end); transient failures and
calls with an expired context cost nothing. -/
theorem source_fault_denotes (sc : List (Ev α)) :
    SDen Err.soft src (fun s : Src α => s.pulled) (Src.of sc) (scriptItems true 0 sc) (scriptTerm true 0 sc) := by
  simpa [Src.of] using src_sden (soft := Err.soft) true (fun _ => rfl) (fun _ => rfl) sc 0 0 0

example : scriptItems true 0 [Ev.item 1, .transient 5, .item 2, .fatal 9, .item 3] = [(1, 1), (2, 2)] ∧
    scriptTerm true 0 [Ev.item 1, .transient 5, .item 2, .fatal 9, .item 3] = .fail (.fatal 9) := by decide

/-- **A failed `Next` costs nothing** (`C_transient_transparent`, for every combinator at once): a
script and the same script with its transient failures erased denote the same thing; so by `sden_next`
the answers of any run — with the failed calls erased — are those of the fault-free run, no item lost
or duplicated. Combined with the `s_*_denotes` theorems this holds behind every pipeline. -/
theorem transient_transparent (sc : List (Ev α)) :
    scriptItems true 0 (eraseT sc) = scriptItems true 0 sc ∧ scriptTerm true 0 (eraseT sc) = scriptTerm true 0 sc :=
  ⟨scriptItems_eraseT true 0 sc, scriptTerm_eraseT true 0 sc⟩

/-- The consumer-level reading of the two theorems above for a combinator `C` given by its
denotation lemma `hC`: whatever contexts are passed and wherever the transient failures sit, the
answers with the failed calls erased conform to what `C` yields on the erased script. -/
theorem pipeline_transient_transparent {σ' : Type w} {m' : SM σ' β} {cost' : σ' → Nat} {mk : Src α → σ'}
    {spec : List (α × Nat) → Term → List (β × Nat) × Term}
    (hC : ∀ (s : Src α) L t, SDen Err.soft src (fun s : Src α => s.pulled) s L t →
      SDen Err.soft m' cost' (mk s) (spec L t).1 (spec L t).2)
    (sc : List (Ev α)) :
    ∃ F, ∀ fuel, F ≤ fuel → ∀ cs,
      Conforms (hard Err.soft (snexts m' fuel cs (mk (Src.of sc))))
        ((spec (scriptItems true 0 (eraseT sc)) (scriptTerm true 0 (eraseT sc))).1.map Prod.fst)
        (spec (scriptItems true 0 (eraseT sc)) (scriptTerm true 0 (eraseT sc))).2 := by
  rw [(transient_transparent sc).1, (transient_transparent sc).2]
  exact sden_conforms rfl (hC _ _ _ (source_fault_denotes sc))

/-- instance: `Chunk` keeps its pending chunk across failed calls -/
theorem chunk_transient_transparent (n : Nat) (sc : List (Ev α)) :
    ∃ F, ∀ fuel, F ≤ fuel → ∀ cs,
      Conforms (hard Err.soft (snexts (chunk (n : Int) src) fuel cs ⟨Src.of sc, []⟩))
        ((chunkGoS n [] (scriptItems true 0 (eraseT sc)) (scriptTerm true 0 (eraseT sc))).map Prod.fst)
        (scriptTerm true 0 (eraseT sc)) :=
  pipeline_transient_transparent (m' := chunk (n : Int) src) (mk := fun s => ⟨s, []⟩)
    (spec := fun L t => (chunkGoS n [] L t, t)) (fun _ _ _ h => chunk_sden n h []) sc

example : chunkGoS 2 [] (scriptItems true 0 [Ev.item 1, .transient 5, .item 2, .item 3]) (.end_ 3) =
    [([1, 2], 2), ([3], 3)] := by decide

/-- **`C_fatal`**: after `p` items the source fails for good with `E`: `Chunk` delivers the full
chunks of those `p` items (not the partial one) and then `E` itself. -/
theorem chunk_fatal (n : Nat) (l : List α) (E : Nat) (rest : List (Ev α)) :
    SDen Err.soft (chunk (n : Int) src) (fun st => st.inner.pulled) ⟨Src.of (l.map Ev.item ++ .fatal E :: rest), []⟩
      (chunkGoS n [] (scriptItems true 0 (l.map Ev.item ++ .fatal E :: rest)) (.fail (.fatal E)))
      (.fail (.fatal E)) := by
  have e : ∀ (l : List α) p, scriptTerm true p (l.map Ev.item ++ Ev.fatal E :: rest) = .fail (.fatal E) := by
    intro l
    induction l with
    | nil => intro p; rfl
    | cons a l ih => intro p; simp [scriptTerm, ih]
  have h := chunk_sden (soft := Err.soft) n (source_fault_denotes (l.map Ev.item ++ .fatal E :: rest)) []
  rwa [e] at h

/-- the same reading for every other single-source combinator is its `s_*_denotes` theorem (C07)
instantiated with `t := .fail E`: the spec functions (`mapS`, `filterS`, `whileS`, `firstTermS`,
`chunkGoS`, `flattenS`, `joinS`, `runsGoS`) leave a failure term untouched unless the combinator has
already ended. For `Map`: if the callback succeeds on every item before the failure, all their images
are delivered and then `E` itself. -/
theorem map_fatal (f : α → Except Err β) (L : List (α × Nat)) (E : Err) (hok : ∀ p ∈ L, ∃ b, f p.1 = .ok b) :
    (mapS f L (.fail E)).2 = .fail E ∧ (mapS f L (.fail E)).1.length = L.length := by
  induction L with
  | nil => exact ⟨rfl, rfl⟩
  | cons p L ih =>
    obtain ⟨a, c⟩ := p
    obtain ⟨b, hb⟩ := hok (a, c) (by simp)
    have := ih (fun p hp => hok p (by simp [hp]))
    simp only [mapS, hb, List.length_cons]
    exact ⟨this.1, by rw [this.2]⟩

/-- **`C_callback_error`**: a callback failing with `E` on some item: `Map` / `Filter` / `While`
deliver the outputs of the items before it and then `E` itself (never the end, another error, or
silence). Reading of `s_map_denotes`: the spec stops at the first failing item with `.fail E`. -/
theorem map_callback_error (f : α → Except Err β) (a : α) (c : Nat) (E : Err) (hfa : f a = .error E)
    (pre : List (α × Nat)) (hpre : ∀ p ∈ pre, ∃ b, f p.1 = .ok b) (post : List (α × Nat)) (t : Term) :
    (mapS f (pre ++ (a, c) :: post) t).2 = .fail E ∧ (mapS f (pre ++ (a, c) :: post) t).1.length = pre.length := by
  induction pre with
  | nil => simp [mapS, hfa]
  | cons p pre ih =>
    obtain ⟨x, k⟩ := p
    obtain ⟨b, hb⟩ := hpre (x, k) (by simp)
    have := ih (fun p hp => hpre p (by simp [hp]))
    simp only [List.cons_append, mapS, hb, List.length_cons]
    exact ⟨this.1, by rw [this.2]⟩

/-- **Reducers return `E`**: a reducer gives up at the first failure of any kind (transient ones
included) and returns that failure itself — `Collect`, `Reduce`, `SampleStream`. -/
theorem collect_err {m : SM σ α} {cost : σ → Nat} {s : σ} {L : List (α × Nat)} {E : Err}
    (h : SDen strict m cost s L (.fail E)) :
    ∃ F, ∀ fuel, F ≤ fuel → (collect m true fuel s).1 = .error E := by
  obtain ⟨F, hF⟩ := collect_sden h
  exact ⟨F, fun fuel hf => by simpa [outOf] using hF fuel hf⟩

theorem reduce_err {γ : Type v} {m : SM σ α} {cost : σ → Nat} {s : σ} {L : List (α × Nat)} {E : Err}
    (f : γ → α → Except Err γ) (hok : ∀ acc a, ∃ acc', f acc a = .ok acc') (h : SDen strict m cost s L (.fail E)) :
    ∃ F, ∀ fuel, F ≤ fuel → ∀ init, (reduce m f true fuel init s).1 = .error E := by
  obtain ⟨F, hF⟩ := reduce_sden f h
  refine ⟨F, fun fuel hf init => ?_⟩
  rw [hF fuel hf init]
  generalize L.map Prod.fst = l
  induction l generalizing init with
  | nil => rfl
  | cons a l ih =>
    obtain ⟨acc', h'⟩ := hok init a
    simp only [foldRes, h']
    exact ih acc'

theorem last_err {m : SM σ α} {cost : σ → Nat} {s : σ} {L : List (α × Nat)} {E : Err} (n : Nat)
    (h : SDen strict m cost s L (.fail E)) :
    ∃ F, ∀ fuel, F ≤ fuel → (last m (n : Int) true fuel s).1 = .error E := by
  obtain ⟨F, hF⟩ := last_sden n h
  exact ⟨F, fun fuel hf => by simpa [outOf] using hF fuel hf⟩

theorem one_err {m : SM σ α} {cost : σ → Nat} {s : σ} {L : List (α × Nat)} {E : Err}
    (h : SDen strict m cost s L (.fail E)) (hl : L.length ≤ 1) :
    ∃ F, ∀ fuel, F ≤ fuel → (one m true fuel s).1 = .error E := by
  obtain ⟨F, hF⟩ := one_sden h
  refine ⟨F, fun fuel hf => ?_⟩
  rw [hF fuel hf]
  match L, hl with
  | [], _ => rfl
  | [_], _ => rfl

theorem sample_err {m : SM σ α} {cost : σ → Nat} {s : σ} {L : List (α × Nat)} {E : Err}
    (h : SDen strict m cost s L (.fail E)) :
    ∃ F, ∀ fuel, F ≤ fuel → (sampleCount m true fuel s).1 = .error E := by
  obtain ⟨F, hF⟩ := sample_sden h
  exact ⟨F, fun fuel hf => by simpa [outOf] using hF fuel hf⟩

/-- `Runs` under faults (`runs_sden`, stated in C07 as `s_runs_denotes`): a failure in the middle of a
run drops that run and surfaces itself; a failed call that costs nothing — whether it hit the outer
stream while it was skipping the rest of a run, or an inner stream — changes nothing. -/
theorem runs_fatal (same : α → α → Bool) (take : Option Nat) (acc : List α) (prev : α) (E : Err) :
    runsGoS same take (some acc) prev [] (.fail E) = [] := rfl

/-- the reducer's view of a script: the items before the first failure of any kind, then that failure -/
theorem source_strict_denotes (sc : List (Ev α)) :
    SDen strict src (fun s : Src α => s.pulled) (Src.of sc) (scriptItems false 0 sc) (scriptTerm false 0 sc) := by
  simpa [Src.of] using src_sden (soft := strict) false (fun _ => rfl) (fun _ => rfl) sc 0 0 0

example : scriptTerm false 0 [Ev.item (1 : Nat), .transient 5, .item 2] = .fail (.transient 5) := by decide

/-- a reducer handed an expired context returns the context error without consuming anything -/
theorem reducer_ctx_costs_nothing {γ : Type v} (m : SM σ α) (f : γ → α → Except Err γ) (fuel : Nat) (acc : γ) (s : σ)
    (h : m.step s false = (.err .ctx, s)) : reduceLoop reduceG m f false (fuel + 1) acc s = (.error .ctx, s) :=
  reduceLoop_ctx reduceG_canon m f (fun h => by cases h) fuel acc s h

/-! ## every combinator named in the property: its own `*_transient_transparent`, `*_fatal`,
`*_callback_error` (most are corollaries of its `s_*_denotes` theorem, which holds for every termination
of the inner stream and any soft failures in between) -/

/-- the general reading used below: whatever a combinator is shown to denote on a script, the consumer
sees — with the failed calls that cost nothing erased, under any contexts — what it denotes on the
script with its transient failures erased. -/
theorem erased_run_conforms {ι : Type x} {σ' : Type w} {m' : SM σ' β} {cost' : σ' → Nat} {st : σ'} (sc : List (Ev ι))
    (X : List (ι × Nat) → Term → List (β × Nat) × Term)
    (h : SDen Err.soft m' cost' st (X (scriptItems true 0 sc) (scriptTerm true 0 sc)).1
      (X (scriptItems true 0 sc) (scriptTerm true 0 sc)).2) :
    ∃ F, ∀ fuel, F ≤ fuel → ∀ cs, Conforms (hard Err.soft (snexts m' fuel cs st))
      ((X (scriptItems true 0 (eraseT sc)) (scriptTerm true 0 (eraseT sc))).1.map Prod.fst)
      (X (scriptItems true 0 (eraseT sc)) (scriptTerm true 0 (eraseT sc))).2 := by
  rw [scriptItems_eraseT true 0 sc, scriptTerm_eraseT true 0 sc]
  exact sden_conforms rfl h

/-! ### `*_transient_transparent` -/

theorem filter_transient_transparent (keep : α → Except Err Bool) (hf : ∀ a e, keep a = .error e → Err.soft e = false)
    (sc : List (Ev α)) :
    ∃ F, ∀ fuel, F ≤ fuel → ∀ cs, Conforms (hard Err.soft (snexts (filter keep src) fuel cs ⟨Src.of sc⟩))
      ((filterS keep (scriptItems true 0 (eraseT sc)) (scriptTerm true 0 (eraseT sc))).1.map Prod.fst)
      (filterS keep (scriptItems true 0 (eraseT sc)) (scriptTerm true 0 (eraseT sc))).2 :=
  erased_run_conforms sc (filterS keep) (filter_sden keep hf (source_fault_denotes sc))

theorem map_transient_transparent (f : α → Except Err β) (hf : ∀ a e, f a = .error e → Err.soft e = false)
    (sc : List (Ev α)) :
    ∃ F, ∀ fuel, F ≤ fuel → ∀ cs, Conforms (hard Err.soft (snexts (map f src) fuel cs ⟨Src.of sc⟩))
      ((mapS f (scriptItems true 0 (eraseT sc)) (scriptTerm true 0 (eraseT sc))).1.map Prod.fst)
      (mapS f (scriptItems true 0 (eraseT sc)) (scriptTerm true 0 (eraseT sc))).2 :=
  erased_run_conforms sc (mapS f) (map_sden f hf (source_fault_denotes sc))

/-- `CompactFunc` keeps `prev` / `first` across failed calls. -/
theorem compact_transient_transparent (eq : α → α → Bool) (sc : List (Ev α)) :
    ∃ F, ∀ fuel, F ≤ fuel → ∀ cs, Conforms (hard Err.soft (snexts (compact eq src) fuel cs ⟨Src.of sc, true, none⟩))
      ((Seq.compactGo (fun p q => eq p.1 q.1) none (scriptItems true 0 (eraseT sc))).map Prod.fst)
      (scriptTerm true 0 (eraseT sc)) :=
  erased_run_conforms sc (fun L t => (Seq.compactGo (fun p q => eq p.1 q.1) none L, t))
    (compact_sden eq (source_fault_denotes sc) none)

/-- `First` does not count a failed call against its budget. -/
theorem first_transient_transparent (n : Int) (sc : List (Ev α)) :
    ∃ F, ∀ fuel, F ≤ fuel → ∀ cs, Conforms (hard Err.soft (snexts (first src) fuel cs ⟨Src.of sc, n⟩))
      (((scriptItems true 0 (eraseT sc)).take n.toNat).map Prod.fst)
      (firstTermS 0 n.toNat (scriptItems true 0 (eraseT sc)) (scriptTerm true 0 (eraseT sc))) :=
  erased_run_conforms sc (fun L t => (L.take n.toNat, firstTermS 0 n.toNat L t))
    (first_sden (source_fault_denotes sc) n)

/-- `While` keeps the held item across a failed callback / failed call. -/
theorem while_transient_transparent (f : α → Except Err Bool) (hf : ∀ a e, f a = .error e → Err.soft e = false)
    (sc : List (Ev α)) :
    ∃ F, ∀ fuel, F ≤ fuel → ∀ cs, Conforms (hard Err.soft (snexts (while_ f src) fuel cs ⟨Src.of sc, none, false⟩))
      ((whileS f (scriptItems true 0 (eraseT sc)) (scriptTerm true 0 (eraseT sc))).1.map Prod.fst)
      (whileS f (scriptItems true 0 (eraseT sc)) (scriptTerm true 0 (eraseT sc))).2 :=
  erased_run_conforms sc (whileS f) (while_sden f hf (source_fault_denotes sc))

/-- `WithPeek`: a failed `Next` leaves the peek buffer alone. -/
theorem peekable_transient_transparent (sc : List (Ev α)) :
    ∃ F, ∀ fuel, F ≤ fuel → ∀ cs, Conforms (hard Err.soft (snexts (withPeek src) fuel cs ⟨Src.of sc, none⟩))
      ((scriptItems true 0 (eraseT sc)).map Prod.fst) (scriptTerm true 0 (eraseT sc)) :=
  erased_run_conforms sc (fun L t => (L, t)) (peek_sden (source_fault_denotes sc))

/-- `FlattenSlices` keeps its buffer across failed calls. -/
theorem flattenSlices_transient_transparent (sc : List (Ev (List α))) :
    ∃ F, ∀ fuel, F ≤ fuel → ∀ cs, Conforms (hard Err.soft (snexts (flattenSlices src) fuel cs ⟨Src.of sc, []⟩))
      (((scriptItems true 0 (eraseT sc)).flatMap fun p => p.1.map fun a => (a, p.2)).map Prod.fst)
      (scriptTerm true 0 (eraseT sc)) :=
  erased_run_conforms sc (fun L t => (L.flatMap fun p => p.1.map fun a => (a, p.2), t))
    (flattenSlices_sden (source_fault_denotes sc))

/-- `Flatten` (faulty outer stream, inner streams denoting `D`): a failed call of the outer stream or
of the current inner stream changes nothing; the current inner stream is kept. -/
theorem flatten_transient_transparent {mi : SM τ α} (D : τ → List α × Term) (sc : List (Ev τ))
    (hD : ∀ p ∈ scriptItems true 0 sc, ∃ (ci : τ → Nat) (Li : List (α × Nat)),
      SDen Err.soft mi ci p.1 Li (D p.1).2 ∧ Li.map Prod.fst = (D p.1).1) :
    ∃ F, ∀ fuel, F ≤ fuel → ∀ cs, Conforms (hard Err.soft (snexts (flatten src mi) fuel cs ⟨Src.of sc, none, []⟩))
      ((flattenS D (scriptItems true 0 (eraseT sc)) (scriptTerm true 0 (eraseT sc))).1.map Prod.fst)
      (flattenS D (scriptItems true 0 (eraseT sc)) (scriptTerm true 0 (eraseT sc))).2 :=
  erased_run_conforms sc (flattenS D) (flatten_sden D (source_fault_denotes sc) hD [])

/-- non-vacuity: a faulty outer script of faulty inner scripted sources -/
example : (flattenS srcD (scriptItems true 0
      [Ev.item (Src.of [Ev.item 1, .transient 3, .item 2]), .transient 7, .item (Src.of [Ev.item 3])]) (.end_ 2)).1.map Prod.fst
    = [1, 2, 3] := by decide

/-- `Join` over faulty scripted sources: transient failures of any argument cost nothing. -/
theorem join_transient_transparent (scs : List (List (Ev α))) :
    ∃ F, ∀ fuel, F ≤ fuel → ∀ cs, Conforms (hard Err.soft (snexts (join src) fuel cs ⟨scs.map Src.of, []⟩))
      ((joinS srcD ((scs.map eraseT).map Src.of)).1.map Prod.fst) (joinS srcD ((scs.map eraseT).map Src.of)).2 := by
  have e : joinS srcD ((scs.map eraseT).map Src.of) = joinS srcD (scs.map Src.of) := by
    induction scs with
    | nil => rfl
    | cons sc scs ih =>
      have h1 : srcD (Src.of (eraseT sc)) = srcD (Src.of sc) := by
        simp [srcD, Src.of, scriptItems_eraseT, scriptTerm_eraseT]
      simp only [List.map_cons, joinS, h1, ih]
  rw [e]
  exact sden_conforms rfl (join_sden (soft := Err.soft) srcD (scs.map Src.of) (fun s hs => by
    obtain ⟨sc, _, rfl⟩ := List.mem_map.mp hs
    exact srcD_hyp_script sc) [])

/-- `Runs` (documented protocol). -/
theorem runs_transient_transparent (same : α → α → Bool) (hrefl : ∀ a, same a a = true) (take : Option Nat)
    (closeInner : Bool) (sc : List (Ev α)) :
    ∃ F, ∀ fuel, F ≤ fuel → ∀ cs,
      Conforms (hard Err.soft (snexts (runsProto same take closeInner src) fuel cs ⟨⟨⟨Src.of sc, none⟩, 0, none⟩, none⟩))
        ((runsStartS same take (scriptItems true 0 (eraseT sc)) (scriptTerm true 0 (eraseT sc))).map Prod.fst)
        (scriptTerm true 0 (eraseT sc)) :=
  erased_run_conforms sc (fun L t => (runsStartS same take L t, t))
    ((runs_sden same hrefl take closeInner (source_fault_denotes sc)).2.2 0)

/-! ### `*_fatal`: the source delivers `l` and then fails for good with `E` -/

/-- the failing source itself -/
theorem fatal_source_denotes (l : List α) (E : Nat) (rest : List (Ev α)) :
    SDen Err.soft src (fun s : Src α => s.pulled) (Src.of (fatalAfter l E rest)) (annot 0 l) (.fail (.fatal E)) :=
  fatal_src_sden l E rest

/-- `Filter` (callback not failing): the kept ones of the `p` items, then `E` itself. -/
theorem filter_fatal (keep : α → Bool) (l : List α) (E : Nat) (rest : List (Ev α)) :
    SDen Err.soft (filter (fun a => .ok (keep a)) src) (fun st => st.inner.pulled) ⟨Src.of (fatalAfter l E rest)⟩
      ((annot 0 l).filter fun p => keep p.1) (.fail (.fatal E)) := by
  have h := filter_sden (soft := Err.soft) (fun a => Except.ok (keep a)) (by intro a e h; cases h) (fatal_src_sden l E rest)
  rwa [filterS_ok] at h

/-- `CompactFunc`. -/
theorem compact_fatal (eq : α → α → Bool) (l : List α) (E : Nat) (rest : List (Ev α)) :
    SDen Err.soft (compact eq src) (fun st => st.inner.pulled) ⟨Src.of (fatalAfter l E rest), true, none⟩
      (Seq.compactGo (fun p q => eq p.1 q.1) none (annot 0 l)) (.fail (.fatal E)) :=
  compact_sden eq (fatal_src_sden l E rest) none

/-- `First n` with `n` larger than the number of items before the failure: all of them, then `E` itself … -/
theorem first_fatal (n : Nat) (l : List α) (E : Nat) (rest : List (Ev α)) (hn : l.length < n) :
    SDen Err.soft (first src) (fun st => st.inner.pulled) ⟨Src.of (fatalAfter l E rest), (n : Int)⟩
      (annot 0 l) (.fail (.fatal E)) := by
  have h := first_sden (soft := Err.soft) (fatal_src_sden l E rest) (n : Int)
  have hl : (annot 0 l).length = l.length := by rw [← List.length_map (f := Prod.fst), annot_fst]
  rw [firstTermS_short _ _ _ _ (by simpa [hl] using hn), List.take_of_length_le (by simp [hl]; omega)] at h
  exact h

/-- … and with `n ≤ p` it ends normally after `n` items without ever reaching the failure. -/
theorem first_fatal_not_reached (n : Nat) (l : List α) (E : Nat) (rest : List (Ev α)) (hn : n ≤ l.length) :
    ∃ e, SDen Err.soft (first src) (fun st => st.inner.pulled) ⟨Src.of (fatalAfter l E rest), (n : Int)⟩
      ((annot 0 l).take n) (.end_ e) := by
  have h := first_sden (soft := Err.soft) (fatal_src_sden l E rest) (n : Int)
  have hl : (annot 0 l).length = l.length := by rw [← List.length_map (f := Prod.fst), annot_fst]
  obtain ⟨e, he⟩ := firstTermS_enough ((fun s : Src α => s.pulled) (Src.of (fatalAfter l E rest))) n (annot 0 l)
    (.fail (.fatal E)) (by omega)
  simp only [Int.toNat_natCast] at h
  rw [he] at h
  exact ⟨e, h⟩

/-- `While` (all items before the failure pass): all of them, then `E` itself. -/
theorem while_fatal (f : α → Bool) (l : List α) (E : Nat) (rest : List (Ev α)) (hall : ∀ a ∈ l, f a = true) :
    SDen Err.soft (while_ (fun a => .ok (f a)) src) (fun st => st.inner.pulled) ⟨Src.of (fatalAfter l E rest), none, false⟩
      (annot 0 l) (.fail (.fatal E)) := by
  have h := while_sden (soft := Err.soft) (fun a => Except.ok (f a)) (by intro a e h; cases h) (fatal_src_sden l E rest)
  rwa [whileS_all _ _ _ (by
    intro p hp
    have := List.mem_map_of_mem (f := Prod.fst) hp
    rw [annot_fst] at this
    simp [hall p.1 this])] at h

/-- `WithPeek`. -/
theorem peekable_fatal (l : List α) (E : Nat) (rest : List (Ev α)) :
    SDen Err.soft (withPeek src) (fun st => st.inner.pulled) ⟨Src.of (fatalAfter l E rest), none⟩
      (annot 0 l) (.fail (.fatal E)) := peek_sden (fatal_src_sden l E rest)

/-- `FlattenSlices`: every item of every slice received before the failure — the buffer is drained
before the source is asked again — then `E` itself. -/
theorem flattenSlices_fatal (ls : List (List α)) (E : Nat) (rest : List (Ev (List α))) :
    SDen Err.soft (flattenSlices src) (fun st => st.inner.pulled) ⟨Src.of (fatalAfter ls E rest), []⟩
      ((annot 0 ls).flatMap fun p => p.1.map fun a => (a, p.2)) (.fail (.fatal E)) :=
  flattenSlices_sden (fatal_src_sden ls E rest)

/-- `Flatten`, the outer stream failing after it has handed out inner streams that all end: all their
items, then `E` itself. -/
theorem flatten_fatal {mi : SM τ α} (D : τ → List α × Term) (xs : List τ) (E : Nat) (rest : List (Ev τ))
    (hD : ∀ x ∈ xs, ∃ (ci : τ → Nat) (Li : List (α × Nat)), SDen Err.soft mi ci x Li (D x).2 ∧ Li.map Prod.fst = (D x).1)
    (hend : ∀ x ∈ xs, ∃ e, (D x).2 = .end_ e) :
    SDen Err.soft (flatten src mi) (fun st => st.outer.pulled) ⟨Src.of (fatalAfter xs E rest), none, []⟩
      ((annot 0 xs).flatMap fun p => (D p.1).1.map fun a => (a, p.2)) (.fail (.fatal E)) := by
  have hm : ∀ p ∈ annot 0 xs, p.1 ∈ xs := fun p hp => by
    have := List.mem_map_of_mem (f := Prod.fst) hp
    rwa [annot_fst] at this
  have h := flatten_sden (soft := Err.soft) D (fatal_src_sden xs E rest) (fun p hp => hD p.1 (hm p hp)) []
  rwa [flattenS_allEnd D _ _ (fun p hp => hend p.1 (hm p hp))] at h

/-- `Flatten`, an inner stream failing with `E`: the items of the inner streams before it, its own
items before the failure, then `E` itself — the later inner streams are never asked for. -/
theorem flatten_inner_fatal (D : τ → List α × Term) (pre post : List (τ × Nat)) (x : τ) (k : Nat) (t : Term) (E : Err)
    (hpre : AllEnd D pre) (hx : (D x).2 = .fail E) :
    flattenS D (pre ++ (x, k) :: post) t =
      ((pre.flatMap fun p => (D p.1).1.map fun a => (a, p.2)) ++ (D x).1.map fun a => (a, k), .fail E) :=
  flattenS_inner_fail D pre post x k t E hpre hx

/-- `Join`: the arguments `pre` end normally, the next one fails for good with `E` after the items `l`:
the items of `pre`, then `l`, then `E` itself — the later arguments are never asked for. -/
theorem join_fatal (pre : List (List α)) (l : List α) (E : Nat) (rest : List (Ev α)) (post : List (List (Ev α))) :
    SDen Err.soft (join src) (fun _ => 0)
      ⟨pre.map ofList ++ Src.of (fatalAfter l E rest) :: post.map Src.of, []⟩
      ((pre.flatten ++ l).map fun a => (a, 0)) (.fail (.fatal E)) := by
  have e : ((pre.map ofList).flatMap fun s => (srcD s).1.map fun a => (a, 0)) = pre.flatten.map fun a => (a, 0) := by
    induction pre with
    | nil => rfl
    | cons l0 pre ih => simp [srcD_ofList, ih]
  have h := join_sden (soft := Err.soft) srcD (pre.map ofList ++ Src.of (fatalAfter l E rest) :: post.map Src.of)
    (fun s hs => by
      simp only [List.mem_append, List.mem_map, List.mem_cons] at hs
      rcases hs with ⟨l', _, rfl⟩ | rfl | ⟨sc, _, rfl⟩
      · exact srcD_hyp_script _
      · exact srcD_hyp_script _
      · exact srcD_hyp_script _) []
  rw [joinS_fail srcD (pre.map ofList) (post.map Src.of) (Src.of (fatalAfter l E rest)) (.fatal E)
    (fun s hs => by
      obtain ⟨l', _, rfl⟩ := List.mem_map.mp hs
      exact ⟨_, by rw [srcD_ofList]⟩)
    (by rw [srcD_fatalAfter])] at h
  rw [e, srcD_fatalAfter, ← List.map_append] at h
  exact h

example : fatalAfter [1, 2] 9 [Ev.item 3] = [Ev.item 1, .item 2, .fatal 9, .item 3] := rfl

/-! ### `*_callback_error`: a callback fails with `E` on some item -/

/-- `Filter`: the kept ones among the items before it, then `E` itself. -/
theorem filter_callback_error (keep : α → Except Err Bool) (a : α) (c : Nat) (E : Err) (hfa : keep a = .error E)
    (pre : List (α × Nat)) (hpre : ∀ p ∈ pre, ∃ b, keep p.1 = .ok b) (post : List (α × Nat)) (t : Term) :
    (filterS keep (pre ++ (a, c) :: post) t).2 = .fail E ∧
    (filterS keep (pre ++ (a, c) :: post) t).1 = pre.filter fun p => keptBy keep p.1 :=
  filterS_callback_error keep a c E hfa pre hpre post t

/-- `While`: the items before it (all passing), then `E` itself — not the end. -/
theorem while_callback_error (f : α → Except Err Bool) (a : α) (c : Nat) (E : Err) (hfa : f a = .error E)
    (pre : List (α × Nat)) (hpre : ∀ p ∈ pre, f p.1 = .ok true) (post : List (α × Nat)) (t : Term) :
    whileS f (pre ++ (a, c) :: post) t = (pre, .fail E) := whileS_callback_error f a c E hfa pre hpre post t

/-- `Reduce`: the callback succeeds on `pre` (reaching `acc'`) and fails with `E` on the next item: the
reducer returns `E` itself, whatever the stream would have done later. -/
theorem reduce_callback_error {γ : Type v} {m : SM σ α} {cost : σ → Nat} {s : σ} {L : List (α × Nat)} {t : Term}
    (f : γ → α → Except Err γ) (h : SDen strict m cost s L t) (E : Err) (pre : List α) (init acc' : γ) (a : α)
    (post : List α) (hL : L.map Prod.fst = pre ++ a :: post) (hpre : foldRes f init pre (.end_ 0) = .ok acc')
    (hfa : f acc' a = .error E) :
    ∃ F, ∀ fuel, F ≤ fuel → (reduce m f true fuel init s).1 = .error E := by
  obtain ⟨F, hF⟩ := reduce_sden f h
  exact ⟨F, fun fuel hf => by rw [hF fuel hf init, hL, foldRes_callback_error f E t pre init acc' a post hpre hfa]⟩

example : (filterS (fun n : Nat => if n = 3 then .error (.cb 7) else .ok (n % 2 == 0)) [(2, 1), (1, 2), (3, 3), (4, 4)] (.end_ 4))
    = ([(2, 1)], .fail (.cb 7)) := by decide

/-! ## pipelines of any depth under sequences of several faults -/

/-- **`pipeline_faults`**: any pipeline (`SPipe`: any depth, callbacks may fail) over any fault script —
any number of transient failures at any positions, possibly a fatal one — under any per-call contexts
(each expired context is one more fault): with the failed calls that cost nothing erased, the consumer
sees exactly what the pipeline yields on the script without its transient failures; nothing lost,
nothing duplicated, and the termination is the pipeline's own image of the script's. -/
theorem pipeline_faults {α : Type} (p : SPipe α) (sc : List (Ev α)) :
    ∃ F, ∀ fuel, F ≤ fuel → ∀ cs,
      Conforms (hard Err.soft (snexts (p.machine src).m fuel cs ((p.machine src).wrap (Src.of sc))))
        ((p.spec 0 (scriptItems true 0 (eraseT sc)) (scriptTerm true 0 (eraseT sc))).1.map Prod.fst)
        (p.spec 0 (scriptItems true 0 (eraseT sc)) (scriptTerm true 0 (eraseT sc))).2 :=
  erased_run_conforms sc (p.spec 0) (spipe_sden (c := fun s : Src α => s.pulled) p (source_fault_denotes sc))

/-- **two faults**: two transient failures anywhere in the input: the pipeline's answers (failed calls
erased) are those of the fault-free input. -/
theorem pipeline_two_faults {α : Type} (p : SPipe α) (l1 l2 l3 : List α) (n1 n2 : Nat) :
    ∃ F, ∀ fuel, F ≤ fuel → ∀ cs,
      Conforms (hard Err.soft (snexts (p.machine src).m fuel cs ((p.machine src).wrap
          (Src.of (l1.map Ev.item ++ .transient n1 :: (l2.map Ev.item ++ .transient n2 :: l3.map Ev.item))))))
        ((p.spec 0 (annot 0 (l1 ++ l2 ++ l3)) (.end_ (l1 ++ l2 ++ l3).length)).1.map Prod.fst)
        (p.spec 0 (annot 0 (l1 ++ l2 ++ l3)) (.end_ (l1 ++ l2 ++ l3).length)).2 := by
  have h := spipe_sden (c := fun s : Src α => s.pulled) p
    (source_fault_denotes (l1.map Ev.item ++ .transient n1 :: (l2.map Ev.item ++ .transient n2 :: l3.map Ev.item)))
  rw [(script_two_transients l1 l2 l3 n1 n2).1, (script_two_transients l1 l2 l3 n1 n2).2,
    scriptItems_map_item, scriptTerm_map_item, Nat.zero_add] at h
  exact sden_conforms rfl h

/-- **a transient failure and later a fatal one**: the pipeline's outputs for the items before the
fatal failure, then its image of that failure (`pipeline_fatal_surfaces`). -/
theorem pipeline_transient_then_fatal {α : Type} (p : SPipe α) (l1 l2 : List α) (n E : Nat) (rest : List (Ev α)) :
    ∃ F, ∀ fuel, F ≤ fuel → ∀ cs,
      Conforms (hard Err.soft (snexts (p.machine src).m fuel cs ((p.machine src).wrap
          (Src.of (l1.map Ev.item ++ .transient n :: (l2.map Ev.item ++ .fatal E :: rest))))))
        ((p.spec 0 (annot 0 (l1 ++ l2)) (.fail (.fatal E))).1.map Prod.fst)
        (p.spec 0 (annot 0 (l1 ++ l2)) (.fail (.fatal E))).2 := by
  have h := spipe_sden (c := fun s : Src α => s.pulled) p
    (source_fault_denotes (l1.map Ev.item ++ .transient n :: (l2.map Ev.item ++ .fatal E :: rest)))
  rw [(script_transient_then_fatal l1 l2 n E rest).1, (script_transient_then_fatal l1 l2 n E rest).2,
    scriptItems_map_item] at h
  exact sden_conforms rfl h

/-- **`E` itself**: a pipeline over a stream that fails with `E` terminates with `E` — or with its own
normal end when a `First`/`While` stage had already ended, or with a callback's own failure that came
first; never with another error and never silently. -/
theorem pipeline_fatal_surfaces {α : Type} (p : SPipe α) (c0 : Nat) (L : List (α × Nat)) (E : Err) :
    TermOk E (p.spec c0 L (.fail E)).2 := spipe_termOk p c0 L E

/-- non-vacuity: a depth-4 pipeline with a type-changing stage, two transient faults and a fatal one -/
example :
    let p : SPipe Nat := .first 3 (.chunkFlat 2 (.filter (fun n => .ok (n % 2 == 1)) (.map (fun n => .ok (n + 1)) .src)))
    let sc : List (Ev Nat) := [.item 0, .transient 1, .item 1, .item 2, .transient 2, .item 4, .item 6, .fatal 9, .item 8]
    (p.spec 0 (scriptItems true 0 (eraseT sc)) (scriptTerm true 0 (eraseT sc))).1.map Prod.fst = [1, 3, 5] := by
  decide

end Juniper.Props.C08
