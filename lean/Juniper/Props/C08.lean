import Juniper.Proofs.StreamReduce
import Juniper.Proofs.StreamLast
import Juniper.Proofs.StreamRuns
import Juniper.Proofs.StreamFaults
import Juniper.Proofs.StreamRetry
import Juniper.Proofs.Sources
/-!
# C08 — stream failures surface intact and never lose or duplicate items (property theorems,
caller's-goroutine combinators)

The vocabulary is that of `Props/C07.lean`. `SDen soft m cost s L t` quantifies over every choice of
per-call contexts and lets *soft* failures (expired context, transient source failure) happen between
the outputs. The per-combinator theorems `s_*_denotes` of C07 are stated for every termination `t` of
the inner stream, i.e. they already cover failures; here are the C08 readings, at three levels:

1. **one step** (`*_error_itself`): whatever error `e` the source (or a callback) hands a method, the
   method returns *that* `e` and leaves its own state (pending chunk, held item, `prev`, counters,
   current inner stream) as it was. These evaluate the error guards and returned error operands
   regenerated from `stream.go` (`Proofs/StreamGuards.lean`): `return item, End` for `return item, err`
   breaks the theorem of that method.
2. **one call** (`failed_call_costs_nothing`, `recovered_source_progress`): a failed `Next` — context
   error only if the call's context had expired — leaves any denoting machine in a state that denotes
   the same remaining sequence; once no soft failure is ahead, a live call returns exactly the next item.
3. **the whole run, nothing erased** (`*_retry_exact`, `pipeline_retry_exact`: `ExactE`): every call of a
   run under arbitrary contexts over an arbitrary fault script answers the context error (expired
   context), *the next* transient error of the script (itself, once), the next item of the fault-free
   run, the end, or the fatal error itself. A machine that keeps answering `ctx.Err()` does not satisfy
   this (`stuck_machine_excluded`).

`Flatten` and `Join` (several sources) have levels 1 and 2 and, for the whole run, the weaker erased
reading (`*_transient_conforms_partial`).
-/
namespace Juniper.Props.C08
open Juniper.Model Juniper.Model.Stream Juniper.Spec Juniper.Gen.Comb
open Juniper.Proofs Juniper.Proofs.StreamDen
open Juniper.Proofs.IterDen (annot annot_fst)
universe u v w x
variable {σ : Type u} {τ : Type w} {α β : Type v}

/-- **The source.** A script = items, transient failures, possibly a fatal failure (sticky). It denotes
the items before the first fatal failure and then that failure (or the end); transient failures and
calls with an expired context cost nothing. -/
theorem source_fault_denotes (sc : List (Ev α)) :
    SDen Err.soft src (fun s : Src α => s.pulled) (Src.of sc) (scriptItems true 0 sc) (scriptTerm true 0 sc) := by
  simpa [Src.of] using src_sden (soft := Err.soft) true (fun _ => rfl) (fun _ => rfl) sc 0 0 0

example : scriptItems true 0 [Ev.item 1, .transient 5, .item 2, .fatal 9, .item 3] = [(1, 1), (2, 2)] ∧
    scriptTerm true 0 [Ev.item 1, .transient 5, .item 2, .fatal 9, .item 3] = .fail (.fatal 9) := by decide

/-- the fault-free reference: the spec of a script (`scriptItems true`, `scriptTerm true`: the items before
the first fatal failure, then that failure or the end) is the spec of the same script with its transient
failures removed — so the outputs the theorems below compare a faulty run with *are* those of the
fault-free run (a fact about the two list functions, used to read the statements). -/
theorem script_spec_ignores_transients (sc : List (Ev α)) :
    scriptItems true 0 (eraseT sc) = scriptItems true 0 sc ∧ scriptTerm true 0 (eraseT sc) = scriptTerm true 0 sc :=
  ⟨scriptItems_eraseT true 0 sc, scriptTerm_eraseT true 0 sc⟩

/-! ## level 1 — one step: the error itself, own state untouched

For an arbitrary inner machine `m`: if the pull (`inner.Next(ctx)`) answers the error `e` — a fatal or
transient source failure, the context error, an error handed through from further down — the method
answers `e` itself and only its inner state moves. Proved by evaluating the regenerated error guards and
returned error operands of the method (`Proofs/StreamGuards.lean`). -/

/-- `Chunk`: the error itself; the pending chunk stays (it is delivered by a later call, or dropped by a fatal failure) -/
theorem chunk_error_itself (size : Int) (m : SM σ α) (st : ChunkSt σ α) (c : Bool) (e : Err) (s' : σ)
    (h : m.step st.inner c = (.err e, s')) : (chunk size m).step st c = (.err e, { st with inner := s' }) := by
  simp [chunk, h]

/-- `CompactFunc`: the error itself; `first` / `prev` stay -/
theorem compact_error_itself (eq : α → α → Bool) (m : SM σ α) (st : CompactSt σ α) (c : Bool) (e : Err) (s' : σ)
    (h : m.step st.inner c = (.err e, s')) : (compact eq m).step st c = (.err e, { st with inner := s' }) := by
  simp [compact, h]

/-- `Filter`: the source's error itself … -/
theorem filter_error_itself (keep : α → Except Err Bool) (m : SM σ α) (st : Wrap σ) (c : Bool) (e : Err) (s' : σ)
    (h : m.step st.inner c = (.err e, s')) : (filter keep m).step st c = (.err e, ⟨s'⟩) := by
  simp [filter, h]

/-- … and the callback's error itself -/
theorem filter_callback_error_itself (keep : α → Except Err Bool) (m : SM σ α) (st : Wrap σ) (c : Bool) (a : α)
    (e : Err) (s' : σ) (h : m.step st.inner c = (.item a, s')) (hk : keep a = .error e) :
    (filter keep m).step st c = (.err e, ⟨s'⟩) := by
  simp [filter, h, hk]

/-- `Map`: the source's error itself … -/
theorem map_error_itself (f : α → Except Err β) (m : SM σ α) (st : Wrap σ) (c : Bool) (e : Err) (s' : σ)
    (h : m.step st.inner c = (.err e, s')) : (map f m).step st c = (.err e, ⟨s'⟩) := by
  simp [map, h]

/-- … and the callback's error itself -/
theorem map_callback_error_itself (f : α → Except Err β) (m : SM σ α) (st : Wrap σ) (c : Bool) (a : α)
    (e : Err) (s' : σ) (h : m.step st.inner c = (.item a, s')) (hk : f a = .error e) :
    (map f m).step st c = (.err e, ⟨s'⟩) := by
  simp [map, h, hk]

/-- `First`: the error itself, and the failed call is not counted against `n` -/
theorem first_error_itself (m : SM σ α) (st : FirstSt σ) (c : Bool) (e : Err) (s' : σ) (hx : 0 < st.x)
    (h : m.step st.inner c = (.err e, s')) : (first m).step st c = (.err e, { st with inner := s' }) := by
  have : stFirstDone st.x = false := by simp [stFirstDone]; omega
  simp [first, this, h]

/-- `While`: the source's error itself; nothing is held … -/
theorem while_error_itself (f : α → Except Err Bool) (m : SM σ α) (s : σ) (c : Bool) (e : Err) (s' : σ)
    (h : m.step s c = (.err e, s')) : (while_ f m).step ⟨s, none, false⟩ c = (.err e, ⟨s', none, false⟩) := by
  simp [while_, stWhileDone, stWhilePulls, h]

/-- … and the callback's error itself, **with the item still held** (`item`/`has` stay: the next call
asks the callback again about the same item, it is not pulled again and not lost) -/
theorem while_callback_error_itself (f : α → Except Err Bool) (m : SM σ α) (s : σ) (c : Bool) (a : α) (e : Err) (s' : σ)
    (h : m.step s c = (.item a, s')) (hk : f a = .error e) :
    (while_ f m).step ⟨s, none, false⟩ c = (.err e, ⟨s', some a, false⟩) ∧
    (while_ f m).step ⟨s', some a, false⟩ c = (.err e, ⟨s', some a, false⟩) := by
  constructor
  · simp [while_, stWhileDone, stWhilePulls, h, hk, stWhileSetsHas]
  · simp [while_, stWhileDone, stWhilePulls, hk]

/-- `WithPeek`, `Next`: the error itself; `Peek`: the error itself, nothing buffered, and a buffered
item is served whatever the context -/
theorem peekable_error_itself (m : SM σ α) (s : σ) (c : Bool) (e : Err) (s' : σ) (h : m.step s c = (.err e, s')) :
    (withPeek m).step ⟨s, none⟩ c = (.err e, ⟨s', none⟩) ∧ peekPeek m ⟨s, none⟩ c = (.err e, ⟨s', none⟩) ∧
    ∀ a c', peekPeek m ⟨s, some a⟩ c' = (.item a, ⟨s, some a⟩) ∧ ((withPeek m).step ⟨s, some a⟩ c').1 = .item a := by
  refine ⟨by simp [withPeek, peekNext, stPeekNextHas, h], by simp [peekPeek, stPeekPulls, h], fun a c' => ?_⟩
  exact ⟨by simp [peekPeek, stPeekPulls], by simp [withPeek, peekNext, stPeekNextHas]⟩

/-- `FlattenSlices`: the error itself (the buffer is empty whenever the source is asked) -/
theorem flattenSlices_error_itself (m : SM σ (List α)) (s : σ) (c : Bool) (e : Err) (s' : σ)
    (h : m.step s c = (.err e, s')) : (flattenSlices m).step ⟨s, []⟩ c = (.err e, ⟨s', []⟩) := by
  simp [flattenSlices, h]

/-- `Flatten`: an error of the outer stream itself; an error of the current inner stream itself, and
that inner stream stays the current one -/
theorem flatten_error_itself (mo : SM σ τ) (mi : SM τ α) (so : σ) (fin : List τ) (c : Bool) (e : Err) :
    (∀ s', mo.step so c = (.err e, s') → (flatten mo mi).step ⟨so, none, fin⟩ c = (.err e, ⟨s', none, fin⟩)) ∧
    (∀ x x', mi.step x c = (.err e, x') → (flatten mo mi).step ⟨so, some x, fin⟩ c = (.err e, ⟨so, some x', fin⟩)) :=
  ⟨fun s' h => by simp [flatten, h], fun x x' h => by simp [flatten, h]⟩

/-- `Join`: an error of the argument being read itself; that argument stays the current one, the later
ones are not touched -/
theorem join_error_itself (m : SM σ α) (s : σ) (rest fin : List σ) (c : Bool) (e : Err) (s' : σ)
    (h : m.step s c = (.err e, s')) : (join m).step ⟨s :: rest, fin⟩ c = (.err e, ⟨s' :: rest, fin⟩) := by
  simp [join, h]

/-- `Runs`: the outer stream (looking for the next run) and an inner stream report the error of the shared
peekable's source itself; the run in progress stays as it is -/
theorem runs_error_itself (same : α → α → Bool) (m : SM σ α) (s : σ) (gen g : Nat) (prev : α) (c : Bool) (e : Err) (s' : σ)
    (h : m.step s c = (.err e, s')) :
    runsOuter same m ⟨⟨s, none⟩, gen, none⟩ c = (.err e, ⟨⟨s', none⟩, gen, none⟩) ∧
    runsInner same m g ⟨⟨s, none⟩, gen, some (g, prev, false)⟩ c = (.err e, ⟨⟨s', none⟩, gen, some (g, prev, false)⟩) := by
  constructor
  · simp [runsOuter, peekPeek, stPeekPulls, h]
  · simp [runsInner, peekPeek, stPeekPulls, h]

/-- `FromIterator`: a call whose context has expired is answered with the context error before the
iterator is touched — nothing is pulled, nothing is lost -/
theorem fromIterator_ctx_costs_nothing (m : Juniper.Model.Iter.IM σ α) (s : σ) :
    (fromIterator m).step s false = (.err .ctx, s) := by
  rw [fromIterator_step]; rfl

example : let r := (chunk 3 src).step ⟨Src.of [Ev.transient 4, .item 9], [1, 2]⟩ true
    r.1 = .err (.transient 4) ∧ r.2.pend = [1, 2] ∧ r.2.inner.script = [.item 9] := by decide

/-! ## level 2 — one call: a failed `Next` costs nothing; a recovered source makes progress -/

/-- **A failed call costs nothing** — any machine in a state that denotes `(L, t)` (every combinator and
every pipeline, by the `s_*_denotes` theorems of C07), any context, enough fuel: the call either delivers
what is due (the next item of `L`; at the end of `L` the end, or the hard failure `t` itself), or it
fails softly — **with the context error only if its own context had expired** — and the machine is then
in a state that denotes *the same* `(L, t)`: calling `Next` again continues exactly where it left off. -/
theorem failed_call_costs_nothing {soft : Err → Bool} {m : SM σ α} {cost : σ → Nat} {s : σ} {L : List (α × Nat)} {t : Term}
    (h : SDen soft m cost s L t) :
    ∃ F, ∀ fuel, F ≤ fuel → ∀ c, CallOk soft m cost c (drive m c fuel s).1 (drive m c fuel s).2 L t := sden_call h

/-- **Progress after recovery** — when no soft failure is ahead any more (a derivation in which nothing
is soft: the source has recovered), a call under a live context returns exactly the next item (and the
rest is again such a state), resp. the end / the failure itself. -/
theorem recovered_source_progress {m : SM σ α} {cost : σ → Nat} {s : σ} {L : List (α × Nat)} {t : Term}
    (h : SDen strict m cost s L t) :
    ∃ F, ∀ fuel, F ≤ fuel →
      match L, t with
      | [], .end_ _ => (drive m true fuel s).1 = some .end_
      | [], .fail e => (drive m true fuel s).1 = some (.err e)
      | p :: L', _ => (drive m true fuel s).1 = some (.item p.1) ∧ SDen strict m cost (drive m true fuel s).2 L' t :=
  drive_sden h

/-- non-vacuity of the two together: `Chunk 2` over `1, transient, 2, 3`: the second call fails with that
transient error, keeps the pending `[1]`, and the third — the source has recovered — delivers `[1, 2]` -/
example : (snexts (chunk 2 src) 5 [true, true, true] ⟨Src.of [Ev.item 1, .transient 7, .item 2, .item 3], []⟩) =
    [some (.err (.transient 7)), some (.item [1, 2]), some (.item [3])] := by decide

/-! ## level 3 — the whole run, nothing erased (`ExactE`, see `Proofs/StreamRetry.lean`) -/

/-- the general statement: a machine over a scripted source that hands soft failures through
(`SoftThru`) and denotes `(L, t)` -/
theorem retry_exact {σ' : Type w} {M : SM σ' β} {proj : σ' → Src α} {cost : σ' → Nat} {st : σ'} {L : List (β × Nat)} {t : Term}
    (hthru : SoftThru src M proj) (h : SDen Err.soft M cost st L t) :
    ∃ F, ∀ fuel, F ≤ fuel → ∀ cs : List Bool,
      ExactE (cs.zip (snexts M fuel cs st)) (pendingT (proj st)) (L.map Prod.fst) t :=
  Juniper.Proofs.StreamDen.retry_exact hthru h

/-- a machine that answers the context error to a live call is excluded (this is what the erased reading
`Conforms ∘ hard` could not do) -/
theorem stuck_machine_excluded (E : List Nat) (l : List β) (t : Term) (R : List (Bool × Option (SStep β))) :
    ¬ ExactE ((true, some (.err .ctx)) :: R) E l t := stuck_not_exact E l t R

/-- **`Chunk`**: any fault script, any contexts. The pending chunk survives every failed call. -/
theorem chunk_retry_exact (n : Nat) (sc : List (Ev α)) :
    ∃ F, ∀ fuel, F ≤ fuel → ∀ cs : List Bool,
      ExactE (cs.zip (snexts (chunk (n : Int) src) fuel cs ⟨Src.of sc, []⟩)) (transientsOf sc)
        ((chunkGoS n [] (scriptItems true 0 sc) (scriptTerm true 0 sc)).map Prod.fst) (scriptTerm true 0 sc) :=
  retry_exact (M := chunk (n : Int) src) (proj := fun st => st.inner) (chunk_softThru _ src)
    (chunk_sden n (source_fault_denotes sc) [])

example : transientsOf [Ev.item 1, .transient 5, .item 2, .transient 6, .fatal 9, .transient 7] = [5, 6, 7] := by decide

example : chunkGoS 2 [] (scriptItems true 0 [Ev.item 1, .transient 5, .item 2, .item 3]) (.end_ 3) =
    [([1, 2], 2), ([3], 3)] := by decide

/-- **`C_fatal`**: after `p` items the source fails for good with `E`: `Chunk` delivers the full
chunks of those `p` items (not the partial one) and then `E` itself. -/
theorem chunk_fatal (n : Nat) (l : List α) (E : Nat) (rest : List (Ev α)) :
    SDen Err.soft (chunk (n : Int) src) (fun st => st.inner.pulled) ⟨Src.of (l.map Ev.item ++ .fatal E :: rest), []⟩
      (chunkGoS n [] (scriptItems true 0 (l.map Ev.item ++ .fatal E :: rest)) (.fail (.fatal E)))
      (.fail (.fatal E)) := by
  have e : ∀ (l : List α) p, scriptTerm true p (l.map Ev.item ++ Ev.fatal E :: rest) = .fail (.fatal E) := by
    intro l
    induction l with
    | nil => intro p; rfl
    | cons a l ih => intro p; simp [scriptTerm, ih]
  have h := chunk_sden (soft := Err.soft) n (source_fault_denotes (l.map Ev.item ++ .fatal E :: rest)) []
  rwa [e] at h

/-- the same reading for every other single-source combinator is its `s_*_denotes` theorem (C07)
instantiated with `t := .fail E`: the spec functions (`mapS`, `filterS`, `whileS`, `firstTermS`,
`chunkGoS`, `flattenS`, `joinS`, `runsGoS`) leave a failure term untouched unless the combinator has
already ended. `Map` (machine level): the source fails for good with `E` after the items `l` and the
callback succeeds: all their images are delivered and then `E` itself. -/
theorem map_fatal (f : α → β) (l : List α) (E : Nat) (rest : List (Ev α)) :
    SDen Err.soft (map (fun a => .ok (f a)) src) (fun st => st.inner.pulled) ⟨Src.of (fatalAfter l E rest)⟩
      ((annot 0 l).map fun p => (f p.1, p.2)) (.fail (.fatal E)) := map_fatal_sden f l E rest

/-- **`C_callback_error`** (machine level): the callback of `Map` fails (hard) with `E` on the item `a`
after succeeding on the items `pre`: the machine delivers `pre.length` outputs and then `E` itself —
never the end, another error, or silence — whatever the source would have delivered afterwards. -/
theorem map_callback_error (f : α → Except Err β) (hf : ∀ a e, f a = .error e → Err.soft e = false)
    (pre : List α) (a : α) (post : List α) (E : Err) (hfa : f a = .error E) (hpre : ∀ x ∈ pre, ∃ b, f x = .ok b) :
    ∃ L, SDen Err.soft (map f src) (fun st => st.inner.pulled) ⟨ofList (pre ++ a :: post)⟩ L (.fail E) ∧
      L.length = pre.length := map_cb_sden f hf pre a post E hfa hpre

/-- **Reducers return `E`**: a reducer gives up at the first failure of any kind (transient ones
included) and returns that failure itself — `Collect`, `Reduce`, `SampleStream`. -/
theorem collect_err {m : SM σ α} {cost : σ → Nat} {s : σ} {L : List (α × Nat)} {E : Err}
    (h : SDen strict m cost s L (.fail E)) :
    ∃ F, ∀ fuel, F ≤ fuel → (collect m true fuel s).1 = .error E := by
  obtain ⟨F, hF⟩ := collect_sden h
  exact ⟨F, fun fuel hf => by simpa [outOf] using hF fuel hf⟩

theorem reduce_err {γ : Type v} {m : SM σ α} {cost : σ → Nat} {s : σ} {L : List (α × Nat)} {E : Err}
    (f : γ → α → Except Err γ) (hok : ∀ acc a, ∃ acc', f acc a = .ok acc') (h : SDen strict m cost s L (.fail E)) :
    ∃ F, ∀ fuel, F ≤ fuel → ∀ init, (reduce m f true fuel init s).1 = .error E := by
  obtain ⟨F, hF⟩ := reduce_sden f h
  refine ⟨F, fun fuel hf init => ?_⟩
  rw [hF fuel hf init]
  generalize L.map Prod.fst = l
  induction l generalizing init with
  | nil => rfl
  | cons a l ih =>
    obtain ⟨acc', h'⟩ := hok init a
    simp only [foldRes, h']
    exact ih acc'

theorem last_err {m : SM σ α} {cost : σ → Nat} {s : σ} {L : List (α × Nat)} {E : Err} (n : Nat)
    (h : SDen strict m cost s L (.fail E)) :
    ∃ F, ∀ fuel, F ≤ fuel → (last m (n : Int) true fuel s).1 = .error E := by
  obtain ⟨F, hF⟩ := last_sden n h
  exact ⟨F, fun fuel hf => by simpa [outOf] using hF fuel hf⟩

theorem one_err {m : SM σ α} {cost : σ → Nat} {s : σ} {L : List (α × Nat)} {E : Err}
    (h : SDen strict m cost s L (.fail E)) (hl : L.length ≤ 1) :
    ∃ F, ∀ fuel, F ≤ fuel → (one m true fuel s).1 = .error E := by
  obtain ⟨F, hF⟩ := one_sden h
  refine ⟨F, fun fuel hf => ?_⟩
  rw [hF fuel hf]
  match L, hl with
  | [], _ => rfl
  | [_], _ => rfl

theorem sample_err {m : SM σ α} {cost : σ → Nat} {s : σ} {L : List (α × Nat)} {E : Err}
    (h : SDen strict m cost s L (.fail E)) :
    ∃ F, ∀ fuel, F ≤ fuel → (sampleCount m true fuel s).1 = .error E := by
  obtain ⟨F, hF⟩ := sample_sden h
  exact ⟨F, fun fuel hf => by simpa [outOf] using hF fuel hf⟩

/-- `Runs` under faults (machine level, documented protocol): the source fails for good with `E` after the
items `l`: the complete runs of `l` are delivered, the run being collected when the failure strikes is
dropped (it is not an output the items seen determine: `runsGoS … [] (.fail E) = []`), then `E` itself. A
failed call that costs nothing — whether it hit the outer stream while it was skipping the rest of a run,
or an inner stream — changes nothing (`runs_retry_exact`). -/
theorem runs_fatal (same : α → α → Bool) (hrefl : ∀ a, same a a = true) (take : Option Nat) (closeInner : Bool)
    (l : List α) (E : Nat) (rest : List (Ev α)) :
    SDen Err.soft (runsProto same take closeInner src) (StreamDen.rcost fun s : Src α => s.pulled)
      ⟨⟨⟨Src.of (fatalAfter l E rest), none⟩, 0, none⟩, none⟩
      (runsStartS same take (annot 0 l) (.fail (.fatal E))) (.fail (.fatal E)) :=
  (runs_sden same hrefl take closeInner (fatal_src_sden l E rest)).2.2 0

example : runsStartS (fun a b : Nat => a == b) none (annot 0 [1, 1, 2, 2]) (.fail (.fatal 9)) = [([1, 1], 3)] := by decide

/-- the reducer's view of a script: the items before the first failure of any kind, then that failure -/
theorem source_strict_denotes (sc : List (Ev α)) :
    SDen strict src (fun s : Src α => s.pulled) (Src.of sc) (scriptItems false 0 sc) (scriptTerm false 0 sc) := by
  simpa [Src.of] using src_sden (soft := strict) false (fun _ => rfl) (fun _ => rfl) sc 0 0 0

example : scriptTerm false 0 [Ev.item (1 : Nat), .transient 5, .item 2] = .fail (.transient 5) := by decide

/-- a reducer handed an expired context returns the context error without consuming anything -/
theorem reducer_ctx_costs_nothing {γ : Type v} (m : SM σ α) (f : γ → α → Except Err γ) (fuel : Nat) (acc : γ) (s : σ)
    (h : m.step s false = (.err .ctx, s)) : reduceLoop reduceG m f false (fuel + 1) acc s = (.error .ctx, s) :=
  reduceLoop_ctx reduceG_canon m f (fun h => by cases h) fuel acc s h

/-- **a reducer over a faulty pipeline**: `Collect` over any `SPipe` pipeline over any fault script returns
the pipeline's image of the first failure of any kind in the script (a reducer gives up at a transient
failure too) — `E` itself — or, if the pipeline ends normally, all its outputs. -/
theorem collect_pipeline {α : Type} (p : SPipe α) (sc : List (Ev α)) :
    ∃ F, ∀ fuel, F ≤ fuel → (collect (p.machine src).m true fuel ((p.machine src).wrap (Src.of sc))).1 =
      outOf (p.spec 0 (scriptItems false 0 sc) (scriptTerm false 0 sc)).2
        ((p.spec 0 (scriptItems false 0 sc) (scriptTerm false 0 sc)).1.map Prod.fst) :=
  collect_sden (spipe_sden' (soft := strict) (fun _ => rfl) (c := fun s : Src α => s.pulled) p (source_strict_denotes sc))

/-! ## every combinator named in the property: its own `*_retry_exact` (the whole run, nothing erased),
`*_fatal`, `*_callback_error` -/

/-! ### `*_retry_exact`: any fault script, any contexts -/

/-- `Filter` (callback failing hard or not at all). -/
theorem filter_retry_exact (keep : α → Except Err Bool) (hf : ∀ a e, keep a = .error e → Err.soft e = false)
    (sc : List (Ev α)) :
    ∃ F, ∀ fuel, F ≤ fuel → ∀ cs : List Bool,
      ExactE (cs.zip (snexts (filter keep src) fuel cs ⟨Src.of sc⟩)) (transientsOf sc)
        ((filterS keep (scriptItems true 0 sc) (scriptTerm true 0 sc)).1.map Prod.fst)
        (filterS keep (scriptItems true 0 sc) (scriptTerm true 0 sc)).2 :=
  retry_exact (M := filter keep src) (proj := fun st => st.inner) (filter_softThru keep hf src)
    (filter_sden keep hf (source_fault_denotes sc))

/-- `Map`. -/
theorem map_retry_exact (f : α → Except Err β) (hf : ∀ a e, f a = .error e → Err.soft e = false) (sc : List (Ev α)) :
    ∃ F, ∀ fuel, F ≤ fuel → ∀ cs : List Bool,
      ExactE (cs.zip (snexts (map f src) fuel cs ⟨Src.of sc⟩)) (transientsOf sc)
        ((mapS f (scriptItems true 0 sc) (scriptTerm true 0 sc)).1.map Prod.fst)
        (mapS f (scriptItems true 0 sc) (scriptTerm true 0 sc)).2 :=
  retry_exact (M := map f src) (proj := fun st => st.inner) (map_softThru f hf src)
    (map_sden f hf (source_fault_denotes sc))

/-- `CompactFunc` keeps `prev` / `first` across failed calls. -/
theorem compact_retry_exact (eq : α → α → Bool) (sc : List (Ev α)) :
    ∃ F, ∀ fuel, F ≤ fuel → ∀ cs : List Bool,
      ExactE (cs.zip (snexts (compact eq src) fuel cs ⟨Src.of sc, true, none⟩)) (transientsOf sc)
        ((Seq.compactGo (fun p q => eq p.1 q.1) none (scriptItems true 0 sc)).map Prod.fst) (scriptTerm true 0 sc) :=
  retry_exact (M := compact eq src) (proj := fun st => st.inner) (compact_softThru eq src)
    (compact_sden eq (source_fault_denotes sc) none)

/-- `First` does not count a failed call against its budget. -/
theorem first_retry_exact (n : Int) (sc : List (Ev α)) :
    ∃ F, ∀ fuel, F ≤ fuel → ∀ cs : List Bool,
      ExactE (cs.zip (snexts (first src) fuel cs ⟨Src.of sc, n⟩)) (transientsOf sc)
        (((scriptItems true 0 sc).take n.toNat).map Prod.fst)
        (firstTermS 0 n.toNat (scriptItems true 0 sc) (scriptTerm true 0 sc)) :=
  retry_exact (M := first src) (proj := fun st => st.inner) (first_softThru src)
    (first_sden (source_fault_denotes sc) n)

/-- `While` keeps the held item across a failed callback / failed call. -/
theorem while_retry_exact (f : α → Except Err Bool) (hf : ∀ a e, f a = .error e → Err.soft e = false) (sc : List (Ev α)) :
    ∃ F, ∀ fuel, F ≤ fuel → ∀ cs : List Bool,
      ExactE (cs.zip (snexts (while_ f src) fuel cs ⟨Src.of sc, none, false⟩)) (transientsOf sc)
        ((whileS f (scriptItems true 0 sc) (scriptTerm true 0 sc)).1.map Prod.fst)
        (whileS f (scriptItems true 0 sc) (scriptTerm true 0 sc)).2 :=
  retry_exact (M := while_ f src) (proj := fun st => st.inner) (while_softThru f hf src)
    (while_sden f hf (source_fault_denotes sc))

/-- `WithPeek`: a failed `Next` leaves the peek buffer alone. -/
theorem peekable_retry_exact (sc : List (Ev α)) :
    ∃ F, ∀ fuel, F ≤ fuel → ∀ cs : List Bool,
      ExactE (cs.zip (snexts (withPeek src) fuel cs ⟨Src.of sc, none⟩)) (transientsOf sc)
        ((scriptItems true 0 sc).map Prod.fst) (scriptTerm true 0 sc) :=
  retry_exact (M := withPeek src) (proj := fun st => st.inner) (withPeek_softThru src)
    (peek_sden (source_fault_denotes sc))

/-- `FlattenSlices` keeps its buffer across failed calls (and serves it whatever the context). -/
theorem flattenSlices_retry_exact (sc : List (Ev (List α))) :
    ∃ F, ∀ fuel, F ≤ fuel → ∀ cs : List Bool,
      ExactE (cs.zip (snexts (flattenSlices src) fuel cs ⟨Src.of sc, []⟩)) (transientsOf sc)
        (((scriptItems true 0 sc).flatMap fun p => p.1.map fun a => (a, p.2)).map Prod.fst) (scriptTerm true 0 sc) :=
  retry_exact (M := flattenSlices src) (proj := fun st => st.inner) (flattenSlices_softThru src)
    (flattenSlices_sden (source_fault_denotes sc))

/-- `Runs` (documented protocol: outer `Next`, read the inner stream, optionally close it, advance): a
failed call — whether it hit the outer stream while it was skipping the rest of a run, or an inner
stream — returns the script's own error and loses nothing of the run being collected. -/
theorem runs_retry_exact (same : α → α → Bool) (hrefl : ∀ a, same a a = true) (take : Option Nat)
    (closeInner : Bool) (sc : List (Ev α)) :
    ∃ F, ∀ fuel, F ≤ fuel → ∀ cs : List Bool,
      ExactE (cs.zip (snexts (runsProto same take closeInner src) fuel cs ⟨⟨⟨Src.of sc, none⟩, 0, none⟩, none⟩))
        (transientsOf sc) ((runsStartS same take (scriptItems true 0 sc) (scriptTerm true 0 sc)).map Prod.fst)
        (scriptTerm true 0 sc) :=
  retry_exact (M := runsProto same take closeInner src) (proj := fun st => st.rs.pk.inner)
    (runsProto_softThru same take closeInner src)
    ((runs_sden same hrefl take closeInner (source_fault_denotes sc)).2.2 0)

/-- `Peek` under faults (live context; `peekable.Peek` is one of the anchors): it never changes what the
stream denotes; it answers the first item, the end, a soft failure (nothing lost, nothing buffered), or
the hard failure the stream denotes — itself. -/
theorem peek_faults {soft : Err → Bool} {m : SM σ α} {cost : σ → Nat} {s : σ} {L : List (α × Nat)} {t : Term}
    (h : SDen soft m cost s L t) :
    (∃ e, (peekPeek m ⟨s, none⟩ true).1 = .err e ∧ soft e = false ∧ L = [] ∧ t = .fail e) ∨
    ((peekPeek m ⟨s, none⟩ true).1 = .end_ ∧ L = [] ∧ ∃ e, t = .end_ e) ∨
    (SDen soft (withPeek m) (fun st => cost st.inner) (peekPeek m ⟨s, none⟩ true).2 L t ∧
      ((peekPeek m ⟨s, none⟩ true).1 = .skip ∨ (∃ e, (peekPeek m ⟨s, none⟩ true).1 = .err e ∧ soft e = true) ∨
        ∃ a c L', L = (a, c) :: L' ∧ (peekPeek m ⟨s, none⟩ true).1 = .item a)) := peekPeek_sden h

/-! ### the multi-source combinators: the erased reading (partial)

For `Flatten` and `Join` the steps (`*_error_itself`) and single calls (`failed_call_costs_nothing`,
which applies to them through `s_flatten_denotes` / `s_join_denotes`) are exact. For the
whole run only the *erased* reading is stated: the answers with the failed calls that cost nothing removed
(`hard`) conform to the fault-free sequence. That reading does not say that a failed call returned the
script's own transient error, nor that a live call never answers the context error, and it bounds the
number of failed calls by nothing; the full statement is `ExactE` over the transient failures of all
sources involved (interleaved in the order the sources are asked), as proved above for the
single-source combinators. -/

/-- the erased reading, in general: whatever a combinator is shown to denote on a script, the consumer
sees — with the failed calls that cost nothing erased, under any contexts — what it denotes on the
script with its transient failures erased. -/
theorem erased_run_conforms_weak {ι : Type x} {σ' : Type w} {m' : SM σ' β} {cost' : σ' → Nat} {st : σ'} (sc : List (Ev ι))
    (X : List (ι × Nat) → Term → List (β × Nat) × Term)
    (h : SDen Err.soft m' cost' st (X (scriptItems true 0 sc) (scriptTerm true 0 sc)).1
      (X (scriptItems true 0 sc) (scriptTerm true 0 sc)).2) :
    ∃ F, ∀ fuel, F ≤ fuel → ∀ cs, Conforms (hard Err.soft (snexts m' fuel cs st))
      ((X (scriptItems true 0 (eraseT sc)) (scriptTerm true 0 (eraseT sc))).1.map Prod.fst)
      (X (scriptItems true 0 (eraseT sc)) (scriptTerm true 0 (eraseT sc))).2 := by
  rw [scriptItems_eraseT true 0 sc, scriptTerm_eraseT true 0 sc]
  exact sden_conforms rfl h

/-- **`flatten_transient_conforms_partial`** (faulty outer stream, inner streams denoting `D`): erased reading. -/
theorem flatten_transient_conforms_partial {mi : SM τ α} (D : τ → List α × Term) (sc : List (Ev τ))
    (hD : ∀ p ∈ scriptItems true 0 sc, ∃ (ci : τ → Nat) (Li : List (α × Nat)),
      SDen Err.soft mi ci p.1 Li (D p.1).2 ∧ Li.map Prod.fst = (D p.1).1) :
    ∃ F, ∀ fuel, F ≤ fuel → ∀ cs, Conforms (hard Err.soft (snexts (flatten src mi) fuel cs ⟨Src.of sc, none, []⟩))
      ((flattenS D (scriptItems true 0 (eraseT sc)) (scriptTerm true 0 (eraseT sc))).1.map Prod.fst)
      (flattenS D (scriptItems true 0 (eraseT sc)) (scriptTerm true 0 (eraseT sc))).2 :=
  erased_run_conforms_weak sc (flattenS D) (flatten_sden D (source_fault_denotes sc) hD [])

/-- non-vacuity: a faulty outer script of faulty inner scripted sources -/
example : (flattenS srcD (scriptItems true 0
      [Ev.item (Src.of [Ev.item 1, .transient 3, .item 2]), .transient 7, .item (Src.of [Ev.item 3])]) (.end_ 2)).1.map Prod.fst
    = [1, 2, 3] := by decide

/-- **`join_transient_conforms_partial`** (faulty scripted arguments): erased reading. -/
theorem join_transient_conforms_partial (scs : List (List (Ev α))) :
    ∃ F, ∀ fuel, F ≤ fuel → ∀ cs, Conforms (hard Err.soft (snexts (join src) fuel cs ⟨scs.map Src.of, []⟩))
      ((joinS srcD ((scs.map eraseT).map Src.of)).1.map Prod.fst) (joinS srcD ((scs.map eraseT).map Src.of)).2 := by
  have e : joinS srcD ((scs.map eraseT).map Src.of) = joinS srcD (scs.map Src.of) := by
    induction scs with
    | nil => rfl
    | cons sc scs ih =>
      have h1 : srcD (Src.of (eraseT sc)) = srcD (Src.of sc) := by
        simp [srcD, Src.of, scriptItems_eraseT, scriptTerm_eraseT]
      simp only [List.map_cons, joinS, h1, ih]
  rw [e]
  exact sden_conforms rfl (join_sden (soft := Err.soft) srcD (scs.map Src.of) (fun s hs => by
    obtain ⟨sc, _, rfl⟩ := List.mem_map.mp hs
    exact srcD_hyp_script sc) [])

/-! ### `*_fatal`: the source delivers `l` and then fails for good with `E` -/

/-- the failing source itself -/
theorem fatal_source_denotes (l : List α) (E : Nat) (rest : List (Ev α)) :
    SDen Err.soft src (fun s : Src α => s.pulled) (Src.of (fatalAfter l E rest)) (annot 0 l) (.fail (.fatal E)) :=
  fatal_src_sden l E rest

/-- `Filter` (callback not failing): the kept ones of the `p` items, then `E` itself. -/
theorem filter_fatal (keep : α → Bool) (l : List α) (E : Nat) (rest : List (Ev α)) :
    SDen Err.soft (filter (fun a => .ok (keep a)) src) (fun st => st.inner.pulled) ⟨Src.of (fatalAfter l E rest)⟩
      ((annot 0 l).filter fun p => keep p.1) (.fail (.fatal E)) := by
  have h := filter_sden (soft := Err.soft) (fun a => Except.ok (keep a)) (by intro a e h; cases h) (fatal_src_sden l E rest)
  rwa [filterS_ok] at h

/-- `CompactFunc`. -/
theorem compact_fatal (eq : α → α → Bool) (l : List α) (E : Nat) (rest : List (Ev α)) :
    SDen Err.soft (compact eq src) (fun st => st.inner.pulled) ⟨Src.of (fatalAfter l E rest), true, none⟩
      (Seq.compactGo (fun p q => eq p.1 q.1) none (annot 0 l)) (.fail (.fatal E)) :=
  compact_sden eq (fatal_src_sden l E rest) none

/-- `First n` with `n` larger than the number of items before the failure: all of them, then `E` itself … -/
theorem first_fatal (n : Nat) (l : List α) (E : Nat) (rest : List (Ev α)) (hn : l.length < n) :
    SDen Err.soft (first src) (fun st => st.inner.pulled) ⟨Src.of (fatalAfter l E rest), (n : Int)⟩
      (annot 0 l) (.fail (.fatal E)) := by
  have h := first_sden (soft := Err.soft) (fatal_src_sden l E rest) (n : Int)
  have hl : (annot 0 l).length = l.length := by rw [← List.length_map (f := Prod.fst), annot_fst]
  rw [firstTermS_short _ _ _ _ (by simpa [hl] using hn), List.take_of_length_le (by simp [hl]; omega)] at h
  exact h

/-- … and with `n ≤ p` it ends normally after `n` items without ever reaching the failure. -/
theorem first_fatal_not_reached (n : Nat) (l : List α) (E : Nat) (rest : List (Ev α)) (hn : n ≤ l.length) :
    ∃ e, SDen Err.soft (first src) (fun st => st.inner.pulled) ⟨Src.of (fatalAfter l E rest), (n : Int)⟩
      ((annot 0 l).take n) (.end_ e) := by
  have h := first_sden (soft := Err.soft) (fatal_src_sden l E rest) (n : Int)
  have hl : (annot 0 l).length = l.length := by rw [← List.length_map (f := Prod.fst), annot_fst]
  obtain ⟨e, he⟩ := firstTermS_enough ((fun s : Src α => s.pulled) (Src.of (fatalAfter l E rest))) n (annot 0 l)
    (.fail (.fatal E)) (by omega)
  simp only [Int.toNat_natCast] at h
  rw [he] at h
  exact ⟨e, h⟩

/-- `While` (all items before the failure pass): all of them, then `E` itself. -/
theorem while_fatal (f : α → Bool) (l : List α) (E : Nat) (rest : List (Ev α)) (hall : ∀ a ∈ l, f a = true) :
    SDen Err.soft (while_ (fun a => .ok (f a)) src) (fun st => st.inner.pulled) ⟨Src.of (fatalAfter l E rest), none, false⟩
      (annot 0 l) (.fail (.fatal E)) := by
  have h := while_sden (soft := Err.soft) (fun a => Except.ok (f a)) (by intro a e h; cases h) (fatal_src_sden l E rest)
  rwa [whileS_all _ _ _ (by
    intro p hp
    have := List.mem_map_of_mem (f := Prod.fst) hp
    rw [annot_fst] at this
    simp [hall p.1 this])] at h

/-- `WithPeek`. -/
theorem peekable_fatal (l : List α) (E : Nat) (rest : List (Ev α)) :
    SDen Err.soft (withPeek src) (fun st => st.inner.pulled) ⟨Src.of (fatalAfter l E rest), none⟩
      (annot 0 l) (.fail (.fatal E)) := peek_sden (fatal_src_sden l E rest)

/-- `FlattenSlices`: every item of every slice received before the failure — the buffer is drained
before the source is asked again — then `E` itself. -/
theorem flattenSlices_fatal (ls : List (List α)) (E : Nat) (rest : List (Ev (List α))) :
    SDen Err.soft (flattenSlices src) (fun st => st.inner.pulled) ⟨Src.of (fatalAfter ls E rest), []⟩
      ((annot 0 ls).flatMap fun p => p.1.map fun a => (a, p.2)) (.fail (.fatal E)) :=
  flattenSlices_sden (fatal_src_sden ls E rest)

/-- `Flatten`, the outer stream failing after it has handed out inner streams that all end: all their
items, then `E` itself. -/
theorem flatten_fatal {mi : SM τ α} (D : τ → List α × Term) (xs : List τ) (E : Nat) (rest : List (Ev τ))
    (hD : ∀ x ∈ xs, ∃ (ci : τ → Nat) (Li : List (α × Nat)), SDen Err.soft mi ci x Li (D x).2 ∧ Li.map Prod.fst = (D x).1)
    (hend : ∀ x ∈ xs, ∃ e, (D x).2 = .end_ e) :
    SDen Err.soft (flatten src mi) (fun st => st.outer.pulled) ⟨Src.of (fatalAfter xs E rest), none, []⟩
      ((annot 0 xs).flatMap fun p => (D p.1).1.map fun a => (a, p.2)) (.fail (.fatal E)) := by
  have hm : ∀ p ∈ annot 0 xs, p.1 ∈ xs := fun p hp => by
    have := List.mem_map_of_mem (f := Prod.fst) hp
    rwa [annot_fst] at this
  have h := flatten_sden (soft := Err.soft) D (fatal_src_sden xs E rest) (fun p hp => hD p.1 (hm p hp)) []
  rwa [flattenS_allEnd D _ _ (fun p hp => hend p.1 (hm p hp))] at h

/-- `Join`: the arguments `pre` end normally, the next one fails for good with `E` after the items `l`:
the items of `pre`, then `l`, then `E` itself — the later arguments are never asked for. -/
theorem join_fatal (pre : List (List α)) (l : List α) (E : Nat) (rest : List (Ev α)) (post : List (List (Ev α))) :
    SDen Err.soft (join src) (fun _ => 0)
      ⟨pre.map ofList ++ Src.of (fatalAfter l E rest) :: post.map Src.of, []⟩
      ((pre.flatten ++ l).map fun a => (a, 0)) (.fail (.fatal E)) := by
  have e : ((pre.map ofList).flatMap fun s => (srcD s).1.map fun a => (a, 0)) = pre.flatten.map fun a => (a, 0) := by
    induction pre with
    | nil => rfl
    | cons l0 pre ih => simp [srcD_ofList, ih]
  have h := join_sden (soft := Err.soft) srcD (pre.map ofList ++ Src.of (fatalAfter l E rest) :: post.map Src.of)
    (fun s hs => by
      simp only [List.mem_append, List.mem_map, List.mem_cons] at hs
      rcases hs with ⟨l', _, rfl⟩ | rfl | ⟨sc, _, rfl⟩
      · exact srcD_hyp_script _
      · exact srcD_hyp_script _
      · exact srcD_hyp_script _) []
  rw [joinS_fail srcD (pre.map ofList) (post.map Src.of) (Src.of (fatalAfter l E rest)) (.fatal E)
    (fun s hs => by
      obtain ⟨l', _, rfl⟩ := List.mem_map.mp hs
      exact ⟨_, by rw [srcD_ofList]⟩)
    (by rw [srcD_fatalAfter])] at h
  rw [e, srcD_fatalAfter, ← List.map_append] at h
  exact h

example : fatalAfter [1, 2] 9 [Ev.item 3] = [Ev.item 1, .item 2, .fatal 9, .item 3] := rfl

/-! ### `*_callback_error`: a callback fails with `E` on some item -/

/-- `Filter` (machine level): the callback fails (hard) with `E` on `a` after succeeding on `pre`: the kept
ones of `pre`, then `E` itself — whatever the source would have delivered afterwards. -/
theorem filter_callback_error (keep : α → Except Err Bool) (hf : ∀ a e, keep a = .error e → Err.soft e = false)
    (pre : List α) (a : α) (post : List α) (E : Err) (hfa : keep a = .error E) (hpre : ∀ x ∈ pre, ∃ b, keep x = .ok b) :
    ∃ L, SDen Err.soft (filter keep src) (fun st => st.inner.pulled) ⟨ofList (pre ++ a :: post)⟩ L (.fail E) ∧
      L.map Prod.fst = pre.filter (keptBy keep) := filter_cb_sden keep hf pre a post E hfa hpre

/-- `While` (machine level): the callback fails (hard) with `E` on `a` after passing all of `pre`: `pre`,
then `E` itself — not the end. -/
theorem while_callback_error (f : α → Except Err Bool) (hf : ∀ a e, f a = .error e → Err.soft e = false)
    (pre : List α) (a : α) (post : List α) (E : Err) (hfa : f a = .error E) (hpre : ∀ x ∈ pre, f x = .ok true) :
    SDen Err.soft (while_ f src) (fun st => st.inner.pulled) ⟨ofList (pre ++ a :: post), none, false⟩
      (annot 0 pre) (.fail E) := while_cb_sden f hf pre a post E hfa hpre

/-- `Reduce`: the callback succeeds on `pre` (reaching `acc'`) and fails with `E` on the next item: the
reducer returns `E` itself, whatever the stream would have done later. -/
theorem reduce_callback_error {γ : Type v} {m : SM σ α} {cost : σ → Nat} {s : σ} {L : List (α × Nat)} {t : Term}
    (f : γ → α → Except Err γ) (h : SDen strict m cost s L t) (E : Err) (pre : List α) (init acc' : γ) (a : α)
    (post : List α) (hL : L.map Prod.fst = pre ++ a :: post) (hpre : foldRes f init pre (.end_ 0) = .ok acc')
    (hfa : f acc' a = .error E) :
    ∃ F, ∀ fuel, F ≤ fuel → (reduce m f true fuel init s).1 = .error E := by
  obtain ⟨F, hF⟩ := reduce_sden f h
  exact ⟨F, fun fuel hf => by rw [hF fuel hf init, hL, foldRes_callback_error f E t pre init acc' a post hpre hfa]⟩

example : (filterS (fun n : Nat => if n = 3 then .error (.cb 7) else .ok (n % 2 == 0)) [(2, 1), (1, 2), (3, 3), (4, 4)] (.end_ 4))
    = ([(2, 1)], .fail (.cb 7)) := by decide

/-! ## pipelines of any depth under sequences of several faults -/

/-- **`pipeline_retry_exact`**: any pipeline of the seven stage kinds of `SPipe` (any depth; callbacks may
fail with their own hard error) over any fault script — any number of transient failures at any
positions, possibly a fatal one — under any per-call contexts: call by call (`ExactE`) the consumer sees
the context error only under an expired context, each transient error of the script *itself*, in order
and at most once, under a live context, and otherwise exactly what the pipeline yields on the script
without its transient failures — nothing lost, nothing duplicated — ending with the pipeline's own image
of the script's termination. (For pipelines containing `Runs` / `Chunk` alone / a type-changing `Map`: compose `retry_exact` with the
stages' `*_softThru` and `s_*_denotes` lemmas by hand; `SoftThru` for the multi-source stages `Flatten` /
`Join` is not proved.) -/
theorem pipeline_retry_exact {α : Type} (p : SPipe α) (sc : List (Ev α)) :
    ∃ F, ∀ fuel, F ≤ fuel → ∀ cs : List Bool,
      ExactE (cs.zip (snexts (p.machine src).m fuel cs ((p.machine src).wrap (Src.of sc)))) (transientsOf sc)
        ((p.spec 0 (scriptItems true 0 sc) (scriptTerm true 0 sc)).1.map Prod.fst)
        (p.spec 0 (scriptItems true 0 sc) (scriptTerm true 0 sc)).2 := by
  have h := retry_exact (spipe_softThru src p) (spipe_sden (c := fun s : Src α => s.pulled) p (source_fault_denotes sc))
  simp only [SPipe.proj_wrap] at h
  exact h

/-- **two faults**: two transient failures anywhere in the input: the run is exact from `[n1, n2]` against
the fault-free input's outputs. -/
theorem pipeline_two_faults {α : Type} (p : SPipe α) (l1 l2 l3 : List α) (n1 n2 : Nat) :
    ∃ F, ∀ fuel, F ≤ fuel → ∀ cs : List Bool,
      ExactE (cs.zip (snexts (p.machine src).m fuel cs ((p.machine src).wrap
          (Src.of (l1.map Ev.item ++ .transient n1 :: (l2.map Ev.item ++ .transient n2 :: l3.map Ev.item))))))
        [n1, n2]
        ((p.spec 0 (annot 0 (l1 ++ l2 ++ l3)) (.end_ (l1 ++ l2 ++ l3).length)).1.map Prod.fst)
        (p.spec 0 (annot 0 (l1 ++ l2 ++ l3)) (.end_ (l1 ++ l2 ++ l3).length)).2 := by
  have h := pipeline_retry_exact p (l1.map Ev.item ++ .transient n1 :: (l2.map Ev.item ++ .transient n2 :: l3.map Ev.item))
  rw [(script_two_transients l1 l2 l3 n1 n2).1, (script_two_transients l1 l2 l3 n1 n2).2,
    scriptItems_map_item, scriptTerm_map_item, Nat.zero_add] at h
  have e : transientsOf (l1.map Ev.item ++ Ev.transient n1 :: (l2.map Ev.item ++ Ev.transient n2 :: l3.map Ev.item)) = [n1, n2] := by
    have k : ∀ (l : List α) (r : List (Ev α)), transientsOf (l.map Ev.item ++ r) = transientsOf r := by
      intro l r; induction l with
      | nil => rfl
      | cons a l ih => simpa [transientsOf] using ih
    have k0 : transientsOf (l3.map Ev.item) = [] := by have := k l3 []; simpa [transientsOf] using this
    rw [k, transientsOf, k, transientsOf, k0]
  rwa [e] at h

/-- **a transient failure and later a fatal one**: exact from `n :: …` against the pipeline's outputs for
the items before the fatal failure, then its image of that failure (`pipeline_fatal_surfaces`). -/
theorem pipeline_transient_then_fatal {α : Type} (p : SPipe α) (l1 l2 : List α) (n E : Nat) (rest : List (Ev α)) :
    ∃ F, ∀ fuel, F ≤ fuel → ∀ cs : List Bool,
      ExactE (cs.zip (snexts (p.machine src).m fuel cs ((p.machine src).wrap
          (Src.of (l1.map Ev.item ++ .transient n :: (l2.map Ev.item ++ .fatal E :: rest))))))
        (n :: transientsOf rest)
        ((p.spec 0 (annot 0 (l1 ++ l2)) (.fail (.fatal E))).1.map Prod.fst)
        (p.spec 0 (annot 0 (l1 ++ l2)) (.fail (.fatal E))).2 := by
  have h := pipeline_retry_exact p (l1.map Ev.item ++ .transient n :: (l2.map Ev.item ++ .fatal E :: rest))
  rw [(script_transient_then_fatal l1 l2 n E rest).1, (script_transient_then_fatal l1 l2 n E rest).2,
    scriptItems_map_item] at h
  have k : ∀ (l : List α) (r : List (Ev α)), transientsOf (l.map Ev.item ++ r) = transientsOf r := by
    intro l r; induction l with
    | nil => rfl
    | cons a l ih => simpa [transientsOf] using ih
  have e : transientsOf (l1.map Ev.item ++ Ev.transient n :: (l2.map Ev.item ++ Ev.fatal E :: rest)) = n :: transientsOf rest := by
    rw [k, transientsOf, k]; simp [transientsOf]
  rwa [e] at h

/-- **`E` itself**: a pipeline over a stream that fails with `E` terminates with `E` — or with its own
normal end when a `First`/`While` stage had already ended, or with a callback's own failure that came
first; never with another error and never silently. -/
theorem pipeline_fatal_surfaces {α : Type} (p : SPipe α) (c0 : Nat) (L : List (α × Nat)) (E : Err) :
    TermOk E (p.spec c0 L (.fail E)).2 := spipe_termOk p c0 L E

/-- non-vacuity: a depth-4 pipeline with a type-changing stage, two transient faults and a fatal one: the
spec, and one concrete run (a live call, an expired one, live ones) against `ExactE` -/
example :
    let p : SPipe Nat := .first 3 (.chunkFlat 2 (.filter (fun n => .ok (n % 2 == 1)) (.map (fun n => .ok (n + 1)) .src)))
    let sc : List (Ev Nat) := [.item 0, .transient 1, .item 1, .item 2, .transient 2, .item 4, .item 6, .fatal 9, .item 8]
    (p.spec 0 (scriptItems true 0 sc) (scriptTerm true 0 sc)).1.map Prod.fst = [1, 3, 5] ∧ transientsOf sc = [1, 2] ∧
    snexts (p.machine src).m 20 [true, false, true, true, true, true, true] ((p.machine src).wrap (Src.of sc)) =
      [some (.err (.transient 1)), some (.err .ctx), some (.item 1), some (.item 3), some (.err (.transient 2)),
       some (.item 5), some .end_] := by
  decide

end Juniper.Props.C08
