import Juniper.Model.HelpersSlices
import Juniper.Model.HelpersSort
import Juniper.Model.HelpersMisc
/-!
# C19 — pure helpers match their specification (property theorems)

Only property theorems and their non-vacuity examples live here; helper lemmas are in
`Juniper/Proofs/Helpers*.lean`.
-/
namespace Juniper.Props.C19
open Juniper.Gen.Helpers Juniper.Model.Helpers

/-- `xmath.Clamp` (the generated function): for `lo ≤ hi` the result lies in `[lo, hi]`, is `x`
when `x` already does, `lo` when `x` is below and `hi` when `x` is above. -/
theorem clamp_spec (x lo hi : Int) (h : lo ≤ hi) :
    lo ≤ clamp x lo hi ∧ clamp x lo hi ≤ hi ∧
    (lo ≤ x → x ≤ hi → clamp x lo hi = x) ∧ (x < lo → clamp x lo hi = lo) ∧ (hi < x → clamp x lo hi = hi) := by
  unfold clamp
  simp only [decide_eq_true_eq]
  split <;> (try split) <;> omega

example : clamp 5 1 3 = 3 ∧ clamp 0 1 3 = 1 ∧ clamp 2 1 3 = 2 := by decide

end Juniper.Props.C19
