import Juniper.Proofs.HelpersPartition
import Juniper.Proofs.HelpersRemove
import Juniper.Proofs.HelpersReverse
import Juniper.Proofs.HelpersChunk
import Juniper.Proofs.HelpersRuns
import Juniper.Proofs.HelpersUnique
import Juniper.Proofs.HelpersSearch
import Juniper.Proofs.HelpersMerge
import Juniper.Proofs.HelpersMinK
import Juniper.Proofs.HelpersMaps
import Juniper.Proofs.HelpersMisc
import Juniper.Proofs.HelpersRand
import Juniper.Proofs.HelpersLoops
import Juniper.Proofs.HelpersWrappers
import Juniper.Proofs.HelpersShapes
/-!
# C19 — pure helpers match their specification (property theorems)

Only property theorems and their non-vacuity examples live here; helper lemmas are in
`Juniper/Proofs/Helpers*.lean`, the specification vocabulary in `Juniper/Spec/Helpers.lean`, the
models in `Juniper/Model/Helpers*.lean` (defined through the facts regenerated from the Go source,
`Juniper.Gen.Helpers`). A Go panic is `none`; functions that write through their argument also
return the caller's backing array.

Go's `int` is 64-bit two's complement: every index / count expression of the generated facts is rendered
with `Juniper.Facts.wrap64` (it overflows exactly where the Go expression does), the theorems are stated
for every `int` argument (`-2^63 ≤ x ≤ 2^63-1`, written out as literals) and every slice length an `int`
can hold (`s.length ≤ 9223372036854775807` — true of every Go slice); that no intermediate value
overflows is *proved*, not assumed. Allocating helpers (`Repeat`, `Grow`) carry the allocator's limit
`Stdlib.allocLimit` explicitly.

Not proved (partial, see `notes/C19.md`): "every subset equally likely" for the `xrand.Sample*`
functions — a statement about IEEE floats fed by a PRNG. What is proved about sampling is
`sample_count_distinct_positions` for *every* decision script satisfying the sampler's contract; the
contract is checked on the real sampler on every run and the distribution is tested statistically.
-/
namespace Juniper.Props.C19
open Juniper.Gen.Helpers Juniper.Model.Helpers Juniper.Spec.Helpers
open Juniper.Model.Stdlib (Sl)

variable {α : Type}

/-! ## xslices -/

/-- `Partition`: never panics; the result is a permutation of the input; everything before the
returned index has `f = false`, everything from it on has `f = true` (so it is the index of the
first element for which `f` holds, or `len(s)`). -/
theorem partition_perm_and_split (f : α → Bool) (s : List α) (hlen : s.length ≤ 9223372036854775807) :
    ∃ (s' : List α) (r : Nat), partition f s = some (s', (r : Int)) ∧ s'.Perm s ∧ r ≤ s.length ∧
      (∀ x ∈ s'.take r, f x = false) ∧ (∀ x ∈ s'.drop r, f x = true) :=
  Proofs.Helpers.partition_perm_and_split f s hlen

example : partition (fun x => x % 2 == 1) [1, 2, 3, 4] = some ([4, 2, 3, 1], 2) := by decide

/-- `RemoveUnordered(s, idx, n)` for `idx + n ≤ len(s)`: no panic; the result has `len - n` items,
keeps `s[:idx]`, is a rearrangement of `s[:idx] ++ s[idx+n:]` in which only (up to) the last `n`
items moved, and the vacated tail of the caller's array is cleared. -/
theorem removeUnordered_spec (zero : α) (s : List α) (idx n : Nat) (h : idx + n ≤ s.length)
    (hlen : s.length ≤ 9223372036854775807) :
    ∃ ret arr, removeUnordered zero s (idx : Int) (n : Int) = some (ret, arr) ∧
      ret.length = s.length - n ∧ ret.take idx = s.take idx ∧
      ret.Perm (s.take idx ++ s.drop (idx + n)) ∧
      (∀ p, idx + n ≤ p → p < s.length - n → ret[p]? = s[p]?) ∧
      arr = ret ++ List.replicate n zero :=
  Proofs.Helpers.removeUnordered_spec zero s idx n h hlen

example : removeUnordered 0 [1, 2, 3, 4, 5] 1 2 = some ([1, 4, 5], [1, 4, 5, 0, 0]) := by decide

/-- `Unique` keeps exactly the first instance of every item, in order: it equals the
specification `firstOccs`, which is duplicate-free, has the same members as `s` and is a
subsequence of `s`. -/
theorem unique_first_occurrences [DecidableEq α] (s : List α) :
    unique s = firstOccs s ∧ (unique s).Nodup ∧ (∀ x, x ∈ unique s ↔ x ∈ s) ∧ (unique s).Sublist s := by
  rw [Proofs.Helpers.unique_eq_firstOccs]
  exact ⟨rfl, Proofs.Helpers.nodup_firstOccs s, Proofs.Helpers.mem_firstOccs s, Proofs.Helpers.sublist_firstOccs s⟩

example : unique [1, 2, 1, 3, 2] = [1, 2, 3] := by decide

/-- `UniqueInPlace` returns the same items as `Unique`, stored at the front of the caller's array,
and clears the rest of the array. -/
theorem uniqueInPlace_clears_tail [DecidableEq α] (zero : α) (s : List α) :
    uniqueInPlace zero s =
      some (firstOccs s, firstOccs s ++ List.replicate (s.length - (firstOccs s).length) zero) :=
  Proofs.Helpers.uniqueInPlace_eq zero s

example : uniqueInPlace 0 [1, 2, 1, 3, 2] = some ([1, 2, 3], [1, 2, 3, 0, 0]) := by decide

/-- `Chunk` panics exactly for `chunkSize ≤ 0` — for every `int` chunk size (up to `MaxInt64`; below
`MinInt64` there is no `int`) and every slice length, in 64-bit arithmetic: no chunk size, however
large, makes the count or a bound overflow (D19: before the fix `Chunk(s, MaxInt)` panicked or
silently returned nothing). -/
theorem chunk_panics_iff_nonpositive (len size : Int) (h : 0 ≤ len) (hlen : len ≤ 9223372036854775807)
    (hsize : size ≤ 9223372036854775807) : chunk len size = none ↔ size ≤ 0 :=
  Proofs.Helpers.chunk_panics_iff_nonpositive len size h hlen hsize

example : chunk 2 (-1) = none ∧ chunk 3 0 = none ∧ chunk 0 3 = some [] ∧ chunk 2 (-9223372036854775808) = none := by decide
/-- the inputs of D19: the largest chunk size, the longest slice -/
example : chunk 2 9223372036854775807 = some [(0, 2)] ∧ chunk 5 9223372036854775807 = some [(0, 5)] ∧
    chunk 9223372036854775807 4611686018427387904 = some [(0, 4611686018427387904), (4611686018427387904, 9223372036854775807)] ∧
    chunk 0 9223372036854775807 = some [] := by decide

/-- `Chunk` for a positive size: the chunks are sub-slices of `s` that concatenate to `s`; there are
`⌈len/size⌉` of them (none for an empty `s`); every chunk is non-empty and at most `size` long and
all but the last are exactly `size` long. -/
theorem chunk_concat_sizes (s : List α) (size : Int) (h : 0 < size) (hsize : size ≤ 9223372036854775807)
    (hlen : s.length ≤ 9223372036854775807) :
    ∃ rs, chunk (s.length : Int) size = some rs ∧
      (rs.map (fun r => slice s r.1 r.2)).flatten = s ∧
      (rs.length : Int) = ((s.length : Int) + size - 1) / size ∧
      (∀ r ∈ rs, 0 ≤ r.1 ∧ 0 < r.2 - r.1 ∧ r.2 - r.1 ≤ size ∧ r.2 ≤ s.length) ∧
      (∀ r ∈ rs.dropLast, r.2 - r.1 = size) :=
  Proofs.Helpers.chunk_concat_sizes s size h hsize hlen

example : chunk 5 2 = some [(0, 2), (2, 4), (4, 5)] := by decide

/-- `Runs` (for any `same`): the runs are sub-slices of `s` (index ranges: they share `s`'s array)
that concatenate to `s`, each is non-empty, neighbours inside a run are `same`, consecutive runs
are adjacent and the last item of a run is not `same` as the first item of the next (maximality). -/
theorem runs_spec (same : α → α → Bool) (s : List α) (hlen : s.length ≤ 9223372036854775807) :
    ∃ rs, runs same s = some rs ∧
      (rs.map (fun r => slice s r.1 r.2)).flatten = s ∧
      (∀ r ∈ rs, 0 ≤ r.1 ∧ r.1 < r.2 ∧ r.2 ≤ s.length) ∧
      (∀ r ∈ rs, AdjAll (fun a b => same a b = true) (slice s r.1 r.2)) ∧
      AdjAll (fun (r1 r2 : Int × Int) => r1.2 = r2.1 ∧
        ∀ a b, getI s (r1.2 - 1) = some a → getI s r2.1 = some b → same a b = false) rs :=
  Proofs.Helpers.runs_spec same s hlen

example : runs (fun a b => a / 2 == b / 2) [5, 2, 3, 7] = some [(0, 1), (1, 3), (3, 4)] := by decide
example : runs (fun a b => a == b) [5] = some [(0, 1)] ∧ runs (fun a b => a == b) [1, 2, 2] = some [(0, 1), (1, 3)] := by
  decide

/-- With `same` reflexive and transitive (the documented requirement) every item of a run is `same`
as every later item of the run — "same(a, b) returns true for any a and b in the run". -/
theorem runs_all_pairs_same (same : α → α → Bool) (hr : ∀ a, same a a = true)
    (ht : ∀ a b c, same a b = true → same b c = true → same a c = true) (s : List α)
    (hlen : s.length ≤ 9223372036854775807) :
    ∃ rs, runs same s = some rs ∧ ∀ r ∈ rs, ∀ i j (hi : i < (slice s r.1 r.2).length)
      (hj : j < (slice s r.1 r.2).length), i ≤ j → same (slice s r.1 r.2)[i] (slice s r.1 r.2)[j] = true := by
  obtain ⟨rs, h1, _, _, h4, _⟩ := Proofs.Helpers.runs_spec same s hlen
  exact ⟨rs, h1, fun r hr' => Proofs.Helpers.adjAll_all_pairs same hr ht _ (h4 r hr')⟩

/-- `Shrink(s, n)` for `n ≥ 0`: same contents; the result's capacity is at most `len + n`; the slice
is reallocated only if necessary (`cap(s) > len + n`), otherwise it is returned as it is. `len + n` in
this statement is the sum in the integers; the code's 64-bit arithmetic (`cap(s)-len(s) > n`,
`make([]T, len(s)+n)` on the reallocating path only) is exact for every `n ≥ 0` and every capacity an
`int` can hold (D20: before the fix `Shrink(s, MaxInt)` panicked). -/
theorem shrink_cap (zero : α) (s : List α) (cap n : Int) (hc : (s.length : Int) ≤ cap) (hn : 0 ≤ n)
    (hcap : cap ≤ 9223372036854775807) :
    ∃ c re, shrink zero s cap n = some (s, c, re) ∧ c ≤ s.length + n ∧ (s.length : Int) ≤ c ∧
      (cap ≤ s.length + n → c = cap ∧ re = false) ∧ (s.length + n < cap → c = s.length + n ∧ re = true) :=
  Proofs.Helpers.shrink_spec zero s cap n hc hn hcap

example : shrink 0 [1, 2] 5 1 = some ([1, 2], 3, true) ∧ shrink 0 [1, 2] 3 1 = some ([1, 2], 3, false) := by decide
/-- the input of D20, and the other end of the range -/
example : shrink 0 [1] 4 9223372036854775807 = some ([1], 4, false) ∧ shrink 0 [1] 4 (-9223372036854775808) = none := by decide

/-- `Reverse` reverses in place and never panics. -/
theorem reverse_spec (s : List α) (hlen : s.length ≤ 9223372036854775807) : reverse s = some s.reverse :=
  Proofs.Helpers.reverse_spec s hlen

example : reverse [1, 2, 3, 4, 5] = some [5, 4, 3, 2, 1] := by decide

/-! ## xsort -/

/-- `Search` on a slice sorted by a strict weak order returns the lower bound of `item`: everything
before the returned index is less than `item`, nothing from it on is. (Hence it is the index of an
equal item if there is one, and the insertion index otherwise.) `sort.Search` is modelled by its
binary search. -/
theorem search_lower_bound (less : α → α → Bool) (hw : StrictWeak less) (x : List α) (hs : SortedBy less x) (item : α) :
    ∃ r : Nat, search less x item = (r : Int) ∧ r ≤ x.length ∧
      (∀ a ∈ x.take r, less a item = true) ∧ (∀ a ∈ x.drop r, less a item = false) :=
  Proofs.Helpers.search_lower_bound less hw x hs item

example : search (fun a b => decide (a < b)) [1, 3, 3, 5] 3 = 1 ∧ search (fun a b => decide (a / 2 < b / 2)) [1, 2, 3, 5] 4 = 3 := by
  decide

/-- `LessCompare(less)` for a strict weak order: negative iff `a < b`, positive iff `b < a`, zero
iff neither, and antisymmetric. (`lessCompare` is the generated function.) -/
theorem lessCompare_spec (less : α → α → Bool) (hw : StrictWeak less) (a b : α) :
    (lessCompareOf less a b < 0 ↔ less a b = true) ∧ (lessCompareOf less a b > 0 ↔ less b a = true) ∧
    (lessCompareOf less a b = 0 ↔ (less a b = false ∧ less b a = false)) ∧
    lessCompareOf less a b = - lessCompareOf less b a :=
  Proofs.Helpers.lessCompare_spec less hw a b

example : lessCompare true false = -1 ∧ lessCompare false true = 1 ∧ lessCompare false false = 0 := by decide

/-- `Merge` (drained) for any heap meeting the min-heap specification `PopSpec`: the output holds
exactly the items of all inputs, and it is sorted whenever `less` is a strict weak order and every
input is sorted. Any number of inputs, empty ones included. -/
theorem merge_sorted_perm (less : α → α → Bool)
    (pop : ((α × Nat) → (α × Nat) → Bool) → List (α × Nat) → Option ((α × Nat) × List (α × Nat)))
    (hp : PopSpec pop) (ins : List (List α)) :
    (merge less pop ins).Perm ins.flatten ∧
    (StrictWeak less → (∀ l ∈ ins, SortedBy less l) → SortedBy less (merge less pop ins)) :=
  Proofs.Helpers.merge_sorted_perm less pop hp ins

example : merge (fun a b => decide (a < b)) popFirstMin [[1, 4], [], [2, 3]] = [1, 2, 3, 4] ∧
    merge (fun a b => decide (a < b)) popFirstMin ([] : List (List Int)) = [] := by decide

/-- The heap specification assumed by `merge_sorted_perm` and `minK_spec` is satisfiable: the
driver's instance meets it. (The real `internal/heap` is the subject of C05.) -/
theorem popFirstMin_meets_heap_spec {ε : Type} : PopSpec (popFirstMin (α := ε)) :=
  Proofs.Helpers.popFirstMin_spec

/-- `MergeSlices`: the result is `Merge` drained (so a sorted permutation of all inputs), and it is
stored into the caller's `out` array exactly when that has room for all items (`Grow(out[:0], n)`:
generated arguments, documented contract of `slices.Grow`). -/
theorem mergeSlices_spec (less : α → α → Bool)
    (pop : ((α × Nat) → (α × Nat) → Bool) → List (α × Nat) → Option ((α × Nat) × List (α × Nat)))
    (hp : PopSpec pop) (outCap : Int) (hc : 0 ≤ outCap) (ins : List (List α)) :
    (mergeSlices less pop outCap ins).1.Perm ins.flatten ∧
    (StrictWeak less → (∀ l ∈ ins, SortedBy less l) → SortedBy less (mergeSlices less pop outCap ins).1) ∧
    ((mergeSlices less pop outCap ins).2 = true ↔ ((ins.map List.length).sum : Int) ≤ outCap) :=
  ⟨(Proofs.Helpers.merge_sorted_perm less pop hp ins).1, (Proofs.Helpers.merge_sorted_perm less pop hp ins).2,
    Proofs.Helpers.mergeSlices_reuse less pop outCap hc ins⟩

example : mergeSlices (fun a b => decide (a < b)) popFirstMin 3 [[1, 3], [2]] = ([1, 2, 3], true) := by decide

/-- `MinK` for any heap meeting `PopSpec`, a strict weak order and every `int` `k`: never panics and
returns `min(k, n)` items (none for `k ≤ 0`), sorted, taken from the input, and nothing left out is less
than anything returned. The output loop is modelled statement by statement: `out := make([]T, h.Len())`,
`for i := len(out) - 1; i >= 0; i-- { out[i] = h.Pop() }` with the generated length, start index (64-bit:
`len(out) - 1` is exact because `h.Len() ≤ k ≤ MaxInt64`) and loop condition; `zero` is what `make` fills
the slice with (no slot keeps it). -/
theorem minK_spec (zero : α) (less : α → α → Bool) (pop : (α → α → Bool) → List α → Option (α × List α))
    (hp : PopSpec pop) (hw : StrictWeak less) (xs : List α) (k : Int) (hk64 : k ≤ 9223372036854775807) :
    ∃ out, minK zero less pop xs k = some out ∧
    out.length = min k.toNat xs.length ∧ SortedBy less out ∧
    ∃ rest, xs.Perm (out ++ rest) ∧ ∀ a ∈ out, ∀ b ∈ rest, less b a = false :=
  Proofs.Helpers.minK_spec zero less pop hp hw xs k hk64

example : minK 0 (fun a b => decide (a < b)) popFirstMin [5, 1, 4, 2] 2 = some [1, 2] ∧
    minK 0 (fun a b => decide (a < b)) popFirstMin [5, 1] 7 = some [1, 5] ∧
    minK 0 (fun a b => decide (a < b)) popFirstMin [5, 1] (-3) = some [] := by decide

/-! ## xmaps (maps as association lists `mget`/`mput`, sets as lists) -/

variable {κ ν : Type} [DecidableEq κ]

/-- `Union`: an element is in the result iff it is in some input set (no sets: empty). -/
theorem union_spec (sets : List (List κ)) (x : κ) : x ∈ setUnion sets ↔ ∃ s ∈ sets, x ∈ s :=
  Proofs.Helpers.mem_setUnion sets x

/-- `Intersection` never panics (`sets[j]` stays in range); an element is in the result iff there is at
least one set and it is in all. The inner loop is modelled statement by statement from the generated
`j := 1`, `j < len(sets)`, `j++`, miss guard, `include = false`, `break`, `if include`, and the sort by size. -/
theorem intersection_spec (sets : List (List κ)) :
    ∃ r, setIntersection sets = some r ∧ ∀ x, x ∈ r ↔ sets ≠ [] ∧ ∀ s ∈ sets, x ∈ s :=
  Proofs.Helpers.mem_setIntersection sets

/-- `Intersects` never panics; true iff there is at least one set and some element is in all of them. -/
theorem intersects_spec (sets : List (List κ)) :
    ∃ b, setIntersects sets = some b ∧ (b = true ↔ sets ≠ [] ∧ ∃ x, ∀ s ∈ sets, x ∈ s) :=
  Proofs.Helpers.setIntersects_iff sets

/-- `Difference`. -/
theorem difference_spec (a b : List κ) (x : κ) : x ∈ setDifference a b ↔ x ∈ a ∧ x ∉ b :=
  Proofs.Helpers.mem_setDifference a b x

example : setUnion [[1, 2], [2, 3]] = [1, 2, 3] ∧ setIntersection [[1, 2, 3], [2, 3], [3, 2, 5]] = some [2, 3] ∧
    setIntersection ([] : List (List Int)) = some [] ∧ setIntersects [[1, 2], [3]] = some false ∧
    setIntersects [[1, 2], [3, 2], [2]] = some true ∧
    setDifference [1, 2, 3] [2] = [1, 3] := by decide

/-- `Reverse`: `k` is listed under `v` iff `m[k] = v`. -/
theorem reverse_map_spec [DecidableEq ν] (m : List (κ × ν)) (k : κ) (v : ν) :
    k ∈ (mget (mapReverse m) v).getD [] ↔ (k, v) ∈ m :=
  Proofs.Helpers.mapReverse_spec m k v

/-- `ReverseSingle`: every entry `v ↦ k` of the result comes from `m[k] = v`; the result's keys are
exactly `m`'s values; the flag is true iff no value occurs twice. -/
theorem reverseSingle_spec [DecidableEq ν] (m : List (κ × ν)) :
    (∀ v k, mget (mapReverseSingle m).1 v = some k → (k, v) ∈ m) ∧
    (∀ v, (mget (mapReverseSingle m).1 v).isSome = true ↔ ∃ k, (k, v) ∈ m) ∧
    ((mapReverseSingle m).2 = true ↔ (m.map Prod.snd).Nodup) :=
  Proofs.Helpers.mapReverseSingle_spec m

/-- `ToIndex`: exactly the keys are mapped, each to an index holding it (the last one). -/
theorem toIndex_spec (keys : List κ) (k : κ) :
    (k ∉ keys → mget (toIndex keys) k = none) ∧
    (k ∈ keys → ∃ j : Nat, mget (toIndex keys) k = some j ∧ keys[j]? = some k ∧ ∀ j', j < j' → keys[j']? ≠ some k) :=
  Proofs.Helpers.toIndex_spec keys k

/-- `FromKeysAndValues` panics iff the lengths differ; otherwise exactly the keys are mapped, each
to a value standing at one of its indices, and the flag is true iff no key occurs twice. -/
theorem fromKeysAndValues_spec (keys : List κ) (values : List ν) :
    (fromKeysAndValues keys values = none ↔ keys.length ≠ values.length) ∧
    (∀ m ok, fromKeysAndValues keys values = some (m, ok) →
      (ok = true ↔ keys.Nodup) ∧
      (∀ k, k ∉ keys → mget m k = none) ∧
      (∀ k, k ∈ keys → ∃ (j : Nat) (v : ν), mget m k = some v ∧ keys[j]? = some k ∧ values[j]? = some v)) :=
  Proofs.Helpers.fromKeysAndValues_spec keys values

example : mapReverse [(1, 5), (2, 5), (3, 6)] = [(5, [1, 2]), (6, [3])] ∧
    (mapReverseSingle [(1, 5), (2, 5)]).2 = false ∧ toIndex [7, 8, 7] = [(7, 2), (8, 1)] ∧
    fromKeysAndValues [1, 2] [3, 4] = some ([(2, 4), (1, 3)], true) ∧ fromKeysAndValues [1] [3, 4] = none := by
  decide

/-! ## xmath -/

/-- `Abs` (the generated function, two's complement `BitVec w`) for the 8/16/32/64-bit
instantiations: panics exactly on the minimum value, otherwise returns the absolute value. -/
theorem abs_spec :
    (∀ x : BitVec 8, (abs 8 x = none ↔ x = BitVec.intMin 8) ∧ ∀ y, abs 8 x = some y → y.toInt = (x.toInt.natAbs : Int)) ∧
    (∀ x : BitVec 16, (abs 16 x = none ↔ x = BitVec.intMin 16) ∧ ∀ y, abs 16 x = some y → y.toInt = (x.toInt.natAbs : Int)) ∧
    (∀ x : BitVec 32, (abs 32 x = none ↔ x = BitVec.intMin 32) ∧ ∀ y, abs 32 x = some y → y.toInt = (x.toInt.natAbs : Int)) ∧
    (∀ x : BitVec 64, (abs 64 x = none ↔ x = BitVec.intMin 64) ∧ ∀ y, abs 64 x = some y → y.toInt = (x.toInt.natAbs : Int)) :=
  ⟨Proofs.Helpers.abs_spec8, Proofs.Helpers.abs_spec16, Proofs.Helpers.abs_spec32, Proofs.Helpers.abs_spec64⟩

example : abs 8 (-128#8) = none ∧ abs 8 (-127#8) = some 127#8 ∧ abs 8 5#8 = some 5#8 := by decide

/-- `Clamp` (the generated function): for `lo ≤ hi` the result lies in `[lo, hi]`, is `x` when `x`
already does, `lo` when `x` is below and `hi` when `x` is above. -/
theorem clamp_spec (x lo hi : Int) (h : lo ≤ hi) :
    lo ≤ clamp x lo hi ∧ clamp x lo hi ≤ hi ∧
    (lo ≤ x → x ≤ hi → clamp x lo hi = x) ∧ (x < lo → clamp x lo hi = lo) ∧ (hi < x → clamp x lo hi = hi) := by
  unfold clamp
  simp only [decide_eq_true_eq]
  split <;> (try split) <;> omega

example : clamp 5 1 3 = 3 ∧ clamp 0 1 3 = 1 ∧ clamp 2 1 3 = 2 := by decide

/-! ## xerrors (`inductive Err`: leaves comparable or not, `fmt.Errorf("%w")` wrappers, stacks)

The theorems consume the regenerated facts about `WithStack` — how an attached stack is detected
(`errors.As` with a `withStack` target), that `withStack` is not comparable and has no `Is`/`As`
method, that `Unwrap` returns the inner error — as obligations discharged by `decide` INSIDE each proof
(not as auto-param binders, which would only be checked at use sites). -/

/-- `WithStack(nil) = nil`. -/
theorem withStack_nil : withStack none = none := by
  have h1 : wsNilGuard true = true := by decide
  have h2 : wsNilReturnsNil = true := by decide
  simp [withStack, h1, h2]

/-- `WithStack` is idempotent: an error that already has a stack attached (anywhere along its
chain) is returned as it is; in particular `WithStack(WithStack(e)) = WithStack(e)`.
The generated facts are obligations of THIS theorem (discharged by `decide` inside the proof):
re-introducing D4 (`wsDetect = "is"`) makes it fail to compile. -/
theorem withStack_idempotent (o : Option Err) :
    withStack (withStack o) = withStack o ∧
    (∀ e, o = some e → Proofs.Helpers.hasStack e = true → withStack o = some e) := by
  have hd : wsDetect = "as" := by decide
  have ha : wsHasAsMethod = false := by decide
  have h0 : wsNilGuard true = true := by decide
  have h1 : wsNilGuard false = false := by decide
  have h2 : wsDetectedReturnsErr = true := by decide
  have h3 : wsWrapsErr = true := by decide
  have h4 : wsNilReturnsNil = true := by decide
  cases o with
  | none => simp [withStack, h0, h4]
  | some e =>
    rw [Proofs.Helpers.withStack_some e hd ha h1 h2 h3]
    by_cases hs : Proofs.Helpers.hasStack e = true
    · simp [hs, Proofs.Helpers.withStack_some e hd ha h1 h2 h3]
    · simp only [hs, Bool.false_eq_true, ↓reduceIte, Option.some.injEq, forall_eq', false_imp_iff, and_true]
      rw [Proofs.Helpers.withStack_some _ hd ha h1 h2 h3, Proofs.Helpers.hasStack_stack]
      simp

example : withStack (withStack (some (.wrap 1 (.leaf 3 false)))) = some (.stack (.wrap 1 (.leaf 3 false))) ∧
    withStack (some (.wrap 2 (.stack (.leaf 1 true)))) = some (.wrap 2 (.stack (.leaf 1 true))) := by decide

/-- `WithStack(e)` for an `e` without a stack wraps `e`: `errors.Unwrap` gives `e` back. -/
theorem withStack_unwrap (e : Err) (hs : Proofs.Helpers.hasStack e = false) :
    ∃ w, withStack (some e) = some w ∧ w.unwrap = some e := by
  have hd : wsDetect = "as" := by decide
  have ha : wsHasAsMethod = false := by decide
  have h1 : wsNilGuard false = false := by decide
  have h2 : wsDetectedReturnsErr = true := by decide
  have h3 : wsWrapsErr = true := by decide
  have h5 : wsUnwrapReturnsInner = true := by decide
  refine ⟨.stack e, ?_, by simp [Err.unwrap, h5]⟩
  rw [Proofs.Helpers.withStack_some e hd ha h1 h2 h3]; simp [hs]

/-- `WithStack` is transparent to `errors.Is` for every target (comparable or not), and to
`errors.As` for every target type other than the stack type itself. The stack type declares neither
an `Is` nor an `As` method and is not comparable (all three are generated facts and obligations of
this theorem: with an `Is` method `Err.is` would be `false` on both sides and the statement hollow). -/
theorem withStack_is_transparent (e : Err) :
    wsHasIsMethod = false ∧
    ∃ w, withStack (some e) = some w ∧ (∀ t, w.is t = e.is t) ∧ (∀ ty, ty ≠ Err.Ty.stackTy → w.as ty = e.as ty) := by
  have hd : wsDetect = "as" := by decide
  have ha : wsHasAsMethod = false := by decide
  have hi : wsHasIsMethod = false := by decide
  have h1 : wsNilGuard false = false := by decide
  have h2 : wsDetectedReturnsErr = true := by decide
  have h3 : wsWrapsErr = true := by decide
  have h5 : wsUnwrapReturnsInner = true := by decide
  have h6 : wsComparable = false := by decide
  refine ⟨hi, ?_⟩
  rw [Proofs.Helpers.withStack_some e hd ha h1 h2 h3]
  by_cases hs : Proofs.Helpers.hasStack e = true
  · exact ⟨e, by simp [hs], fun _ => rfl, fun _ _ => rfl⟩
  · refine ⟨.stack e, by simp [hs], ?_, ?_⟩
    · intro t
      simp only [Err.is, Err.chain, h5, ↓reduceIte, List.any_cons]
      have : (t.comparable && decide (Err.stack e = t)) = false := by
        cases t <;> simp [Err.comparable, h6]
      rw [this, Bool.false_or]
    · intro ty hty
      unfold Err.as
      simp only [ha, Bool.false_eq_true, ↓reduceIte, Err.chain, h5]
      rw [List.find?_cons_of_neg]
      simp only [Err.ty]
      intro h
      exact hty (of_decide_eq_true h).symm

example : (Err.stack (.wrap 1 (.leaf 3 false))).is (.leaf 3 false) = false ∧
    (Err.stack (.wrap 1 (.leaf 2 true))).is (.leaf 2 true) = true ∧
    (Err.stack (.wrap 1 (.leaf 3 false))).as (.leafTy 3) = some (.leaf 3 false) := by decide

/-! ## xmath/xrand -/

/-- `Sample` (positions of `[0, n)`): for **every** decision script satisfying the sampler's contract
that reaches a stopping decision, the reservoir holds `min(k, n)` positions, all distinct and all in
`[0, n)`. (The final shuffle only permutes them: `shuffle_perm`.) -/
theorem sample_count_distinct_positions (n k : Int) (hk : 0 ≤ k) (hn : 0 ≤ n) (ds : List (Int × Int))
    (hc : SamplerContract k n ds) (hstop : ∃ d ∈ ds, n ≤ d.1) :
    ∃ out, rSample n k ds = some out ∧ (out.length : Int) = min k n ∧ out.Nodup ∧ ∀ p ∈ out, 0 ≤ p ∧ p < n :=
  Proofs.Helpers.sample_count_distinct_positions n k hk hn ds hc hstop

/-- the same for `SampleSlice` (which position of `a` each returned item comes from) -/
theorem sampleSlice_count_distinct_positions (n k : Int) (hk : 0 ≤ k) (hn : 0 ≤ n) (ds : List (Int × Int))
    (hc : SamplerContract k n ds) (hstop : ∃ d ∈ ds, n ≤ d.1) :
    ∃ out, rSampleSlicePos n k ds = some out ∧ (out.length : Int) = min k n ∧ out.Nodup ∧ ∀ p ∈ out, 0 ≤ p ∧ p < n :=
  Proofs.Helpers.sampleSlice_count_distinct_positions n k hk hn ds hc hstop

/-- the same for `SampleIterator` (`stream = false`) and `SampleStream` (`stream = true`) on a source
of `n` items -/
theorem sampleIter_count_distinct_positions (stream : Bool) (n k : Int) (hk : 0 ≤ k) (hn : 0 ≤ n) (ds : List (Int × Int))
    (hc : SamplerContract k n ds) (hstop : ∃ d ∈ ds, n ≤ d.1) :
    ∃ out, rSampleIterPos stream n k ds = some out ∧ (out.length : Int) = min k n ∧ out.Nodup ∧ ∀ p ∈ out, 0 ≤ p ∧ p < n :=
  Proofs.Helpers.sampleIter_count_distinct_positions stream n k hk hn ds hc hstop

example : rSample 10 2 [(0, 0), (1, 1), (4, 0), (7, 1), (12, 0)] = some [4, 7] ∧
    rSample 1 3 [(0, 0), (1, 1)] = some [0] ∧
    rSampleIterPos false 10 2 [(0, 0), (1, 1), (4, 0), (7, 1), (12, 0)] = some [4, 7] := by decide

/-- The hypothesis of the three theorems above is satisfiable and is what the integer part of the
sampler (generated guards and updates of `sampler.Next`) produces: for every script of finite
non-negative skips and in-range `Intn` results its decisions satisfy the contract. `int(skip) + 1` is
64-bit (`wrap64`): a skip below `MaxInt64` is required explicitly; the running position `s.i` is a
mathematical integer (that `s.i + int(skip) + 1` stays below 2^63 for `float64` variates is a statement
about floats and is not proved — the loop stops at the first position `≥ n`, see `notes/C19.md`). -/
theorem sampler_decisions_contract (k n maxInt : Int) (hk : 0 ≤ k) (m : Nat) (script : List (Option Int × Int))
    (hs : ∀ e ∈ script, ∃ sk, e.1 = some sk ∧ 0 ≤ sk ∧ sk < 9223372036854775807 ∧ 0 ≤ e.2 ∧ e.2 < k) :
    SamplerContract k n (samplerRun maxInt m (newSamp k) script) :=
  Proofs.Helpers.sampler_decisions_contract k n maxInt hk m script hs

example : samplerRun 99 4 (newSamp 2) [(some 1, 0), (some 0, 1)] = [(0, 0), (1, 1), (3, 0), (4, 1)] ∧
    samplerRun 99 3 (newSamp 2) [(none, 0)] = [(0, 0), (1, 1), (99, 0)] := by decide

/-- `Shuffle`: whatever swaps `r.Shuffle(n, swap)` asks for — `swap(i, j)` with `0 ≤ i, j < n`, and `n` is
what `rShuffle` hands over: the generated `shuffleN (len a)` (= `len(a)`) — the result is a permutation
(no index panic). Were the count `len(a) + 1`, the hypothesis would allow the index `len(a)` and the
statement would be false. -/
theorem shuffle_perm (a : List α) (swaps : List (Int × Int))
    (h : ∀ p ∈ swaps, 0 ≤ p.1 ∧ p.1 < shuffleN a.length ∧ 0 ≤ p.2 ∧ p.2 < shuffleN a.length) :
    ∃ a', applySwaps swaps a = some a' ∧ a'.Perm a :=
  Proofs.Helpers.shuffle_perm a swaps h

example : applySwaps [(0, 2), (1, 2)] [1, 2, 3] = some [3, 1, 2] := by decide

/-- **The entry points users call.** The package-level `Sample`, `SampleSlice`, `SampleIterator`,
`SampleStream`, `Shuffle` and the exported `RSample*`, `RShuffle` are, argument for argument, the
unexported `r*` functions the theorems above are about (with the default source resp. the caller's
source), and the default source's three methods are `math/rand`'s top-level `Float64`, `Intn`,
`Shuffle` called with the same arguments. All thirteen bodies are regenerated facts: a package-level
function that swaps `n` and `k`, samples from a different source, or a default source whose `Intn`
ignores its argument (audit C19 F2: `Intn ≡ 0`) no longer satisfies this theorem. What the default
source's *distribution* is remains the statistical part (χ² and all-subsets tests run through these very
entry points). -/
theorem xrand_entry_points_delegate (n k : Int) (ds sw : List (Int × Int)) (a : List α) :
    pkgSample n k ds = rSample n k ds ∧ pkgSampleSlicePos n k ds = rSampleSlicePos n k ds ∧
    pkgSampleIterPos n k ds = rSampleIterPos false n k ds ∧ pkgSampleStreamPos n k ds = rSampleIterPos true n k ds ∧
    pkgShuffle sw a = applySwaps sw a ∧
    expRSample n k ds = rSample n k ds ∧ expRSampleSlicePos n k ds = rSampleSlicePos n k ds ∧
    expRSampleIterPos n k ds = rSampleIterPos false n k ds ∧ expRSampleStreamPos n k ds = rSampleIterPos true n k ds ∧
    expRShuffle sw a = applySwaps sw a ∧
    (∀ (R : Type) (randFloat64 : R), dfltFloat64W randFloat64 = randFloat64) ∧
    (∀ (R : Type) (randIntn : Int → R) (m : Int), dfltIntnW randIntn m = randIntn m) ∧
    (∀ (S R : Type) (randShuffle : Int → S → R) (m : Int) (swap : S), dfltShuffleW randShuffle m swap = randShuffle m swap) :=
  ⟨rfl, rfl, rfl, rfl, rfl, rfl, rfl, rfl, rfl, rfl, fun _ _ => rfl, fun _ _ _ => rfl, fun _ _ _ _ _ => rfl⟩

/-- hence the count / distinct-positions theorem holds for the package-level `Sample` itself -/
theorem pkgSample_count_distinct_positions (n k : Int) (hk : 0 ≤ k) (hn : 0 ≤ n) (ds : List (Int × Int))
    (hc : SamplerContract k n ds) (hstop : ∃ d ∈ ds, n ≤ d.1) :
    ∃ out, pkgSample n k ds = some out ∧ (out.length : Int) = min k n ∧ out.Nodup ∧ ∀ p ∈ out, 0 ≤ p ∧ p < n := by
  rw [(xrand_entry_points_delegate (α := Int) n k ds [] []).1]
  exact Proofs.Helpers.sample_count_distinct_positions n k hk hn ds hc hstop

example : pkgSample 10 2 [(0, 0), (1, 1), (4, 0), (7, 1), (12, 0)] = some [4, 7] ∧
    pkgShuffle [(0, 2), (1, 2)] [1, 2, 3] = some [3, 1, 2] := by decide

/-! # The remaining exported helpers (one theorem each)

Models: `Model/HelpersMore.lean`. Helpers with a loop of their own mirror the loop through the
regenerated guards / values / statement lists. Thin wrappers are the regenerated body
(`Gen.Helpers.<name>W`) applied to the *documented contract* of the standard-library callee
(`Model/HelpersStdlib.lean`: trusted, compared with the real behaviour by the correspondence check on
every run). `Sl α` is a slice value with its backing array up to the capacity (`arr`), its length and
whether that array was allocated by the call (`fresh`); `Sl.callerAfter s r` is the caller's array
after a call that was given `s` and returned `r`. A panic is `none`. -/

/-! ## xslices: helpers with their own loop -/

variable {β : Type}

/-- `All`: "returns true if f(s[i]) returns true for all i. Trivially, returns true if s is empty." -/
theorem all_spec (f : α → Bool) (s : List α) : all f s = true ↔ ∀ x ∈ s, f x = true :=
  Proofs.Helpers.all_iff f s

example : all (fun x => x % 2 == 1) [1, 3, 4] = false ∧ all (fun x => x % 2 == 1) [1, 3] = true ∧
    all (fun _ => false) ([] : List Int) = true := by decide

/-- `CountFunc`: "the number of items in s for which f returns true." -/
theorem countFunc_spec (f : α → Bool) (s : List α) : countFunc f s = (s.countP f : Int) :=
  Proofs.Helpers.countFunc_eq f s

/-- `Count`: "the number of times x appears in s." (generated body: `CountFunc` with `x == ·`) -/
theorem count_spec [DecidableEq α] (s : List α) (x : α) : count s x = (s.count x : Int) :=
  Proofs.Helpers.count_eq s x

example : countFunc (fun x => x % 2 == 1) [1, 2, 3, 5] = 3 ∧ count [1, 2, 1, 3] 1 = 2 ∧ count [1, 2] 7 = 0 := by decide

/-- `Fill`: "fills s with copies of x" — the caller's array afterwards. -/
theorem fill_spec (s : List α) (x : α) : fill s x = List.replicate s.length x :=
  Proofs.Helpers.fill_eq s x

/-- `Clear`: "fills s with the zero value of T." (generated body: `Fill(s, zero)`) -/
theorem clear_spec (zero : α) (s : List α) : clear zero s = List.replicate s.length zero :=
  Proofs.Helpers.clear_eq zero s

example : fill [1, 2, 3] 9 = [9, 9, 9] ∧ clear 0 [1, 2] = [0, 0] := by decide

/-- `Group`: "a map from u to all items of s for which f(s[i]) returned u": a key is present iff some
item maps to it, and it holds exactly those items (the code keeps them in their order in `s`). -/
theorem group_spec (f : α → κ) (s : List α) (u : κ) :
    mget (group f s) u =
      if s.any (fun x => decide (f x = u)) then some (s.filter (fun x => decide (f x = u))) else none :=
  Proofs.Helpers.group_get f s u

example : group (fun x => x % 2) [1, 2, 3, 4, 5] = [(1, [1, 3, 5]), (0, [2, 4])] := by decide

/-- `Join`: "joins together the contents of each in" — never panics; the result is the concatenation,
allocated once with exactly the capacity needed. -/
theorem join_spec (zero : α) (ins : List (List α)) :
    join zero ins = some (ins.flatten, some (ins.flatten.length : Int)) :=
  Proofs.Helpers.join_eq zero ins

example : join 0 [[1, 2], [], [3]] = some ([1, 2, 3], some 3) ∧ join 0 ([] : List (List Int)) = some ([], some 0) := by
  decide

/-- `LastIndex`: "the last index of x in s, or -1 if x is not in s" (never out of range). -/
theorem lastIndex_spec [DecidableEq α] (s : List α) (x : α) (hlen : s.length ≤ 9223372036854775807) :
    ∃ r : Int, lastIndex s x = some r ∧ -1 ≤ r ∧ r < s.length ∧
      (r = -1 → x ∉ s) ∧ (0 ≤ r → s[r.toNat]? = some x ∧ ∀ j : Nat, r < j → s[j]? ≠ some x) :=
  Proofs.Helpers.lastIndex_spec s x hlen

/-- `LastIndexFunc`: "the last index in s for which f(s[i]) returns true, or -1 if there are no such
items." -/
theorem lastIndexFunc_spec (s : List α) (f : α → Bool) (hlen : s.length ≤ 9223372036854775807) :
    ∃ r : Int, lastIndexFunc s f = some r ∧ -1 ≤ r ∧ r < s.length ∧
      (r = -1 → ∀ y ∈ s, f y = false) ∧
      (0 ≤ r → (∃ y, s[r.toNat]? = some y ∧ f y = true) ∧
        ∀ j : Nat, r < j → ∀ y, s[j]? = some y → f y = false) :=
  Proofs.Helpers.lastIndexFunc_spec s f hlen

example : lastIndex [1, 2, 1, 3] 1 = some 2 ∧ lastIndex [1, 2] 7 = some (-1) ∧
    lastIndexFunc [1, 2, 4, 3] (fun x => x % 2 == 0) = some 2 ∧ lastIndex ([] : List Int) 1 = some (-1) := by decide

/-- `Map`: "creates a new slice by applying f to each element of s." -/
theorem map_spec (zero : β) (f : α → β) (s : List α) : map zero f s = some (s.map f) :=
  Proofs.Helpers.map_eq zero f s

/-- `Reduce`: "reduces s to a single value using the reduction function f" — the left fold from
`initial`. -/
theorem reduce_spec (zero : β) (s : List α) (initial : β) (f : β → α → β) :
    reduce zero s initial f = s.foldl f initial :=
  Proofs.Helpers.reduce_eq zero s initial f

/-- `Repeat`: "a slice with length n where every item is s" (panics for a negative `n`, and — `make` —
for more elements than the allocator can provide, `Stdlib.allocLimit`). -/
theorem repeat_spec (zero x : α) (n : Int) :
    repeatN zero x n = if n < 0 then none else if n > Model.Stdlib.allocLimit then none
      else some (List.replicate n.toNat x) :=
  Proofs.Helpers.repeatN_eq zero x n

example : map 0 (fun x => 2 * x) [1, 2, 3] = some [2, 4, 6] ∧ reduce 0 [1, 2, 3] 10 (fun a x => a - x) = 4 ∧
    repeatN 0 7 3 = some [7, 7, 7] ∧ repeatN 0 7 (-1) = none ∧ repeatN 0 7 9223372036854775807 = none := by decide

/-! ## xslices: wrappers over package `slices` -/

/-- `Any`: "returns true if f(s[i]) returns true for any i. Trivially, returns false if s is empty." -/
theorem any_spec (s : Sl α) (f : α → Bool) : any s f = true ↔ ∃ x ∈ s.items, f x = true := by
  simp [any, anyW, Model.Stdlib.containsFunc]

example : any (Sl.ofList [2, 4, 5]) (fun x => x % 2 == 1) = true ∧ any (Sl.ofList ([] : List Int)) (fun _ => true) = false := by
  decide

/-- `Clone`: "creates a new slice and copies the elements of s into it" — same items, an array of its
own, the caller's array untouched. -/
theorem clone_spec (s : Sl α) :
    (clone s).items = s.items ∧ (clone s).fresh = true ∧ Sl.callerAfter s (clone s) = s.arr :=
  ⟨Proofs.Helpers.items_clone s, rfl, rfl⟩

example : (clone (Sl.withSpare [1, 2] [-7])).items = [1, 2] ∧ (clone (Sl.withSpare [1, 2] [-7])).fresh = true ∧
    Sl.callerAfter (Sl.withSpare [1, 2] [-7]) (clone (Sl.withSpare [1, 2] [-7])) = [1, 2, -7] := by decide

/-- `Compact`: "only the first item from each contiguous run of the same item", in a new slice (the
input is not modified). -/
theorem compact_spec [DecidableEq α] (zero : α) (s : Sl α) :
    (compact zero s).items = firstOfRuns (fun a b => decide (a = b)) s.items ∧
    (compact zero s).items.Sublist s.items ∧
    (compact zero s).fresh = true ∧ Sl.callerAfter s (compact zero s) = s.arr := by
  have h : (compact zero s).items = firstOfRuns (fun a b => decide (a = b)) s.items := by
    show (Sl.shrinkTo zero (Model.Stdlib.clone s) _).items = _
    rw [Proofs.Helpers.items_shrinkTo, Proofs.Helpers.items_clone, Proofs.Helpers.compactBy_eq]
  exact ⟨h, h ▸ Proofs.Helpers.firstOfRuns_sublist _ _, rfl, rfl⟩

/-- `CompactFunc`: "only the first item from each contiguous run of items for which eq returns true",
in a new slice. -/
theorem compactFunc_spec (zero : α) (s : Sl α) (eq : α → α → Bool) :
    (compactFunc zero s eq).items = firstOfRuns eq s.items ∧
    (compactFunc zero s eq).fresh = true ∧ Sl.callerAfter s (compactFunc zero s eq) = s.arr := by
  refine ⟨?_, rfl, rfl⟩
  show (Sl.shrinkTo zero (Model.Stdlib.clone s) _).items = _
  rw [Proofs.Helpers.items_shrinkTo, Proofs.Helpers.items_clone, Proofs.Helpers.compactBy_eq]

/-- `CompactInPlace`: the same items, "done in-place and so modifies the contents of s. The modified
slice is returned": the result is the front of `s`'s own array; the vacated elements are zeroed
(documented by `slices.Compact`), the spare capacity is untouched. -/
theorem compactInPlace_spec [DecidableEq α] (zero : α) (s : Sl α) :
    (compactInPlace zero s).items = firstOfRuns (fun a b => decide (a = b)) s.items ∧
    (compactInPlace zero s).fresh = s.fresh ∧
    (compactInPlace zero s).arr = (compactInPlace zero s).items ++
      List.replicate (s.items.length - (compactInPlace zero s).items.length) zero ++ s.arr.drop s.len := by
  have hc : compactInPlace zero s =
      Sl.shrinkTo zero s (Model.Stdlib.compactBy (fun a b => decide (a = b)) s.items) := rfl
  obtain ⟨h1, h2, h3⟩ := Proofs.Helpers.shrinkTo_spec zero s (Model.Stdlib.compactBy (fun a b => decide (a = b)) s.items)
  rw [hc]
  refine ⟨by rw [h1, Proofs.Helpers.compactBy_eq], h2, ?_⟩
  rw [h3, h1]

/-- `CompactInPlaceFunc`: as `CompactFunc`, in place. -/
theorem compactInPlaceFunc_spec (zero : α) (s : Sl α) (eq : α → α → Bool) :
    (compactInPlaceFunc zero s eq).items = firstOfRuns eq s.items ∧
    (compactInPlaceFunc zero s eq).fresh = s.fresh ∧
    (compactInPlaceFunc zero s eq).arr = (compactInPlaceFunc zero s eq).items ++
      List.replicate (s.items.length - (compactInPlaceFunc zero s eq).items.length) zero ++ s.arr.drop s.len := by
  have hc : compactInPlaceFunc zero s eq = Sl.shrinkTo zero s (Model.Stdlib.compactBy eq s.items) := rfl
  obtain ⟨h1, h2, h3⟩ := Proofs.Helpers.shrinkTo_spec zero s (Model.Stdlib.compactBy eq s.items)
  rw [hc]
  refine ⟨by rw [h1, Proofs.Helpers.compactBy_eq], h2, ?_⟩
  rw [h3, h1]

example : firstOfRuns (fun a b => decide (a = b)) [1, 1, 2, 2, 2, 1] = [1, 2, 1] ∧
    (compact 0 (Sl.ofList [1, 1, 2, 2, 2, 1])).items = [1, 2, 1] ∧
    (compactInPlace 0 (Sl.withSpare [1, 1, 2, 2, 2, 1] [-7])).arr = [1, 2, 1, 0, 0, 0, -7] ∧
    (compactFunc 0 (Sl.ofList [1, 3, 2, 5]) (fun a b => a % 2 == b % 2)).items = [1, 2, 5] := by decide

/-- `Equal`: "true if a and b contain the same items in the same order." -/
theorem equal_spec [DecidableEq α] (a b : Sl α) : equal a b = true ↔ a.items = b.items := by
  simp [equal, equalW, Model.Stdlib.equal]

/-- `EqualFunc`: "... the same items in the same order according to eq": equal lengths and `eq` on
every pair of corresponding items. -/
theorem equalFunc_spec (a b : Sl α) (eq : α → α → Bool) :
    equalFunc a b eq = true ↔ a.items.length = b.items.length ∧ ∀ p ∈ a.items.zip b.items, eq p.1 p.2 = true :=
  Proofs.Helpers.equalFuncL_iff eq a.items b.items

example : equal (Sl.ofList [1, 2]) (Sl.withSpare [1, 2] [9]) = true ∧ equal (Sl.ofList [1, 2]) (Sl.ofList [1]) = false ∧
    equalFunc (Sl.ofList [1, 2]) (Sl.ofList [3, 4]) (fun a b => a % 2 == b % 2) = true := by decide

/-- `Filter`: "only the elements of s for which keep() returns true in the same order", in a new
slice (the polarity adapter `!keep(t)` is part of the generated body). -/
theorem filter_spec (zero : α) (s : Sl α) (keep : α → Bool) :
    (filter zero s keep).items = s.items.filter keep ∧
    (filter zero s keep).fresh = true ∧ Sl.callerAfter s (filter zero s keep) = s.arr := by
  refine ⟨?_, rfl, rfl⟩
  show (Sl.shrinkTo zero (Model.Stdlib.clone s) _).items = _
  rw [Proofs.Helpers.items_shrinkTo, Proofs.Helpers.items_clone]
  simp

/-- `FilterInPlace`: the same, "done in-place and so modifies the contents of s. The modified slice is
returned": front of `s`'s own array, vacated elements zeroed, spare capacity untouched. -/
theorem filterInPlace_spec (zero : α) (s : Sl α) (keep : α → Bool) :
    (filterInPlace zero s keep).items = s.items.filter keep ∧
    (filterInPlace zero s keep).fresh = s.fresh ∧
    (filterInPlace zero s keep).arr = s.items.filter keep ++
      List.replicate (s.items.length - (s.items.filter keep).length) zero ++ s.arr.drop s.len := by
  have e : (fun x => !(fun t => !keep t) x) = keep := by funext x; simp
  have hc : filterInPlace zero s keep = Sl.shrinkTo zero s (s.items.filter (fun x => !(fun t => !keep t) x)) := rfl
  rw [hc, e]
  exact Proofs.Helpers.shrinkTo_spec zero s _

example : (filter 0 (Sl.ofList [1, 2, 3, 4]) (fun x => x % 2 == 0)).items = [2, 4] ∧
    (filterInPlace 0 (Sl.withSpare [1, 2, 3, 4] [-7]) (fun x => x % 2 == 0)).arr = [2, 4, 0, 0, -7] := by decide

/-- `Grow`: "grows s's capacity by reallocating, if necessary, to fit n more elements ... does not
change the length of s": same items, room for `n` more; `s` itself is returned when it already has
the room, otherwise a new array; a negative `n` panics, and so does (documented by `slices.Grow`: "too
large to allocate the memory") an `n` beyond the allocator's limit that does not already fit. -/
theorem grow_spec (zero : α) (s : Sl α) (n : Int) :
    (n < 0 → grow zero s n = none) ∧
    (0 ≤ n → Model.Stdlib.allocLimit < n → s.cap < s.len + n.toNat → grow zero s n = none) ∧
    (0 ≤ n → (n ≤ Model.Stdlib.allocLimit ∨ s.len + n.toNat ≤ s.cap) →
      ∃ r, grow zero s n = some r ∧ r.items = s.items ∧ r.items.length + n.toNat ≤ r.cap ∧
      (s.len + n.toNat ≤ s.cap → r = s) ∧ (s.cap < s.len + n.toNat → r.fresh = true)) :=
  Proofs.Helpers.grow_spec zero s n

example : grow 0 (Sl.withSpare [1, 2] [-7]) 1 = some (Sl.withSpare [1, 2] [-7]) ∧
    (grow 0 (Sl.withSpare [1, 2] [-7]) 2).map (·.fresh) = some true ∧ grow 0 (Sl.ofList [1]) (-1) = none ∧
    grow 0 (Sl.ofList [1]) 9223372036854775807 = none := by decide

/-- `Index`: "the first index of x in s, or -1 if x is not in s." -/
theorem index_spec [DecidableEq α] (s : Sl α) (x : α) :
    -1 ≤ index s x ∧ index s x < s.items.length ∧ (index s x = -1 ↔ x ∉ s.items) ∧
    (∀ i : Nat, index s x = i → s.items[i]? = some x ∧ ∀ j : Nat, j < i → s.items[j]? ≠ some x) := by
  obtain ⟨h1, h2, h3, h4⟩ := Proofs.Helpers.indexFunc_spec s (fun y => decide (y = x))
  refine ⟨h1, h2, ?_, fun i hi => ?_⟩
  · rw [show index s x = Model.Stdlib.indexFunc s (fun y => decide (y = x)) from rfl, h3]
    constructor
    · intro h hx; simpa using h x hx
    · intro h y hy; simp only [decide_eq_false_iff_not]; intro e; exact h (e ▸ hy)
  · obtain ⟨⟨y, hy, hyx⟩, hlt⟩ := h4 i hi
    have : y = x := by simpa using hyx
    subst this
    exact ⟨hy, fun j hj hjx => by simpa using hlt j hj y hjx⟩

/-- `IndexFunc`: "the first index in s for which f(s[i]) returns true, or -1 if there are no such
items." -/
theorem indexFunc_spec (s : Sl α) (f : α → Bool) :
    -1 ≤ indexFunc s f ∧ indexFunc s f < s.items.length ∧
    (indexFunc s f = -1 ↔ ∀ y ∈ s.items, f y = false) ∧
    (∀ i : Nat, indexFunc s f = i →
      (∃ y, s.items[i]? = some y ∧ f y = true) ∧ ∀ j : Nat, j < i → ∀ y, s.items[j]? = some y → f y = false) :=
  Proofs.Helpers.indexFunc_spec s f

example : index (Sl.ofList [3, 1, 2, 1]) 1 = 1 ∧ index (Sl.ofList [3, 1]) 7 = -1 ∧
    indexFunc (Sl.ofList [3, 1, 2, 4]) (fun x => x % 2 == 0) = 2 := by decide

/-- `Insert`: "inserts the given values starting at index idx, shifting elements after idx to the
right and growing the slice to make room. Insert will expand the length of the slice up to its
capacity if it can": panics exactly for `idx` outside `[0, len]` (documented by `slices.Insert`);
otherwise the items are `s[:idx] ++ values ++ s[idx:]`, stored in `s`'s own array when
`len + len(values) ≤ cap` (the rest of the spare capacity untouched) and in a new array otherwise. -/
theorem insert_spec (s : Sl α) (idx : Int) (vals : List α) (hs : s.WF) :
    (insertAt s idx vals = none ↔ idx < 0 ∨ (s.len : Int) < idx) ∧
    (∀ r, insertAt s idx vals = some r →
      r.items = s.items.take idx.toNat ++ vals ++ s.items.drop idx.toNat ∧
      (s.len + vals.length ≤ s.cap → r.fresh = s.fresh ∧ r.arr = r.items ++ s.arr.drop (s.len + vals.length)) ∧
      (s.cap < s.len + vals.length → r.fresh = true)) :=
  Proofs.Helpers.insertAt_spec s idx vals hs

example : (insertAt (Sl.withSpare [1, 2, 3] [-7, -7, -7]) 1 [8, 9]).map (fun r => (r.items, r.arr, r.fresh)) =
      some ([1, 8, 9, 2, 3], [1, 8, 9, 2, 3, -7], false) ∧
    (insertAt (Sl.withSpare [1, 2, 3] [-7]) 1 [8, 9]).map (fun r => (r.items, r.fresh)) = some ([1, 8, 9, 2, 3], true) ∧
    insertAt (Sl.ofList [1, 2]) 3 [8] = none := by decide

/-- `Remove`: "removes n elements from s starting at index idx and returns the modified slice"
(generated body: `slices.Delete(s, idx, idx+n)`, the sum in 64-bit arithmetic): for EVERY pair of `int`
arguments it panics exactly when `s[idx:idx+n]` (sum in the integers) is not a valid range — an
overflowing `idx+n` wraps to a negative bound, which `Delete` rejects too; otherwise order is preserved,
the result is the front of `s`'s own array and the `n` vacated elements at the end are zeroed
(documented by `slices.Delete`). -/
theorem remove_spec (zero : α) (s : Sl α) (idx n : Int) (hs : s.WF)
    (hlen : (s.len : Int) ≤ 9223372036854775807)
    (hidx : -9223372036854775808 ≤ idx ∧ idx ≤ 9223372036854775807)
    (hn : -9223372036854775808 ≤ n ∧ n ≤ 9223372036854775807) :
    (remove zero s idx n = none ↔ idx < 0 ∨ n < 0 ∨ (s.len : Int) < idx + n) ∧
    (∀ r, remove zero s idx n = some r →
      r.items = s.items.take idx.toNat ++ s.items.drop (idx + n).toNat ∧ r.fresh = s.fresh ∧
      r.arr = r.items ++ List.replicate n.toNat zero ++ s.arr.drop s.len) :=
  Proofs.Helpers.remove_spec zero s idx n hs hlen hidx hn

example : (remove 0 (Sl.withSpare [1, 2, 3, 4] [-7]) 1 2).map (fun r => (r.items, r.arr, r.fresh)) =
      some ([1, 4], [1, 4, 0, 0, -7], false) ∧ remove 0 (Sl.ofList [1, 2]) 1 2 = none ∧
    remove 0 (Sl.ofList [1, 2]) 1 9223372036854775807 = none := by decide

/-! ## xsort: derived comparisons, `Reverse`, `OrderedLess`, the `sort.Slice*` adapters -/

/-- `Greater`: "true if a > b according to less" — `b` is less than `a`. (generated function) -/
theorem greater_spec (less : α → α → Bool) (a b : α) : greaterOf less a b = less b a := rfl

/-- `LessOrEqual`: "true if a <= b according to less": for a strict weak order, `a` is less than `b`
or they are equivalent. -/
theorem lessOrEqual_spec (less : α → α → Bool) (hw : StrictWeak less) (a b : α) :
    lessOrEqualOf less a b = true ↔ less a b = true ∨ Equiv less a b = true := by
  have := @Proofs.Helpers.sw_asymm _ less hw a b
  simp only [lessOrEqualOf, lessOrEqual, Equiv]
  cases h1 : less a b <;> cases h2 : less b a <;> simp_all

/-- `GreaterOrEqual`: "true if a >= b according to less". -/
theorem greaterOrEqual_spec (less : α → α → Bool) (hw : StrictWeak less) (a b : α) :
    greaterOrEqualOf less a b = true ↔ less b a = true ∨ Equiv less a b = true := by
  have := @Proofs.Helpers.sw_asymm _ less hw a b
  simp only [greaterOrEqualOf, greaterOrEqual, Equiv]
  cases h1 : less a b <;> cases h2 : less b a <;> simp_all

/-- `Equal`: "true if a == b according to less" — neither is less than the other. -/
theorem sortEqual_spec (less : α → α → Bool) (a b : α) : sortEqualOf less a b = Equiv less a b := rfl

example : greater false true = true ∧ lessOrEqual true false = true ∧ lessOrEqual false true = false ∧
    greaterOrEqual false false = true ∧ sortEqual false false = true ∧ sortEqual true false = false := by decide

/-- `Reverse`: "a Less that orders elements in the opposite order of the provided less": the closure
is `less(b, a)`; it is again a strict weak order, and a list is sorted by it iff its reversal is
sorted by `less`. -/
theorem sortReverse_spec (less : α → α → Bool) :
    (∀ a b, reverseOf less a b = less b a) ∧
    (StrictWeak less → StrictWeak (reverseOf less)) ∧
    (∀ l, SortedBy (reverseOf less) l ↔ SortedBy less l.reverse) := by
  refine ⟨fun _ _ => rfl, fun hw => ⟨fun a => hw.irrefl a, fun a b c h1 h2 => hw.trans c b a h2 h1,
    fun a b c h1 h2 => hw.negTrans c b a h2 h1⟩, fun l => ?_⟩
  unfold SortedBy
  rw [List.pairwise_reverse]
  rfl

example : reverseOf (fun a b => decide (a < b)) 2 1 = true ∧ reverseOf (fun a b => decide (a < b)) 1 2 = false := by decide

/-- `OrderedLess`: "an implementation of Less for cmp.Ordered types by using the < operator" (at
`int`): it is `<`, a strict weak order. -/
theorem orderedLess_spec : (∀ a b : Int, orderedLess a b = true ↔ a < b) ∧ StrictWeak orderedLess := by
  have h : ∀ a b : Int, orderedLess a b = decide (a < b) := fun _ _ => rfl
  refine ⟨fun a b => by simp [h], ⟨fun a => by simp [h], fun a b c => ?_, fun a b c => ?_⟩⟩
  · simp only [h, decide_eq_true_eq]; omega
  · simp only [h, decide_eq_false_iff_not]; omega

example : orderedLess (-1) 2 = true ∧ orderedLess 2 2 = false ∧ orderedLess 3 2 = false := by decide

/-- `Slice`: "sorts x in-place using the given less function" (`sort.Slice` with the index adapter
`less(x[i], x[j])`, generated): the items afterwards are a permutation of the items before, sorted
by `less`; in `x`'s own array, spare capacity untouched. Which arrangement of equivalent items
results is left open by `sort.Slice`. -/
theorem sortSlice_spec (zero : α) (x : Sl α) (less : α → α → Bool) (hw : StrictWeak less) :
    (sortSlice zero x less).items.Perm x.items ∧ SortedBy less (sortSlice zero x less).items ∧
    (sortSlice zero x less).fresh = x.fresh ∧
    (sortSlice zero x less).arr = (sortSlice zero x less).items ++ x.arr.drop x.len := by
  obtain ⟨h1, h2, h3⟩ := Proofs.Helpers.sortSliceStable_items zero x less
  refine ⟨?_, ?_, h2, ?_⟩
  · show (sortSliceStable zero x less).items.Perm _
    rw [h1]; exact Proofs.Helpers.sortStable_perm less _
  · show SortedBy less (sortSliceStable zero x less).items
    rw [h1]; exact Proofs.Helpers.sortStable_sorted less hw _
  · show (sortSliceStable zero x less).arr = (sortSliceStable zero x less).items ++ _
    rw [h1]; exact h3

/-- `SliceStable`: "stably sorts x in-place": as `Slice`, and for every `a` the items equivalent to `a`
keep their original relative order. -/
theorem sortSliceStable_spec (zero : α) (x : Sl α) (less : α → α → Bool) (hw : StrictWeak less) :
    (sortSliceStable zero x less).items.Perm x.items ∧ SortedBy less (sortSliceStable zero x less).items ∧
    (∀ a, (sortSliceStable zero x less).items.filter (Equiv less a) = x.items.filter (Equiv less a)) ∧
    (sortSliceStable zero x less).fresh = x.fresh ∧
    (sortSliceStable zero x less).arr = (sortSliceStable zero x less).items ++ x.arr.drop x.len := by
  obtain ⟨h1, h2, h3⟩ := Proofs.Helpers.sortSliceStable_items zero x less
  rw [h1]
  exact ⟨Proofs.Helpers.sortStable_perm less _, Proofs.Helpers.sortStable_sorted less hw _,
    fun a => Proofs.Helpers.sortStable_stable less hw a _, h2, h3⟩

/-- `SliceIsSorted`: "true if x is in sorted order according to the given less function". -/
theorem sortSliceIsSorted_spec (zero : α) (x : Sl α) (less : α → α → Bool) (hw : StrictWeak less) (hx : x.WF) :
    sortSliceIsSorted zero x less = true ↔ SortedBy less x.items :=
  Proofs.Helpers.sortSliceIsSorted_iff zero x less hw hx

example : (sortSlice 0 (Sl.withSpare [3, 1, 2] [-7]) (fun a b => decide (a < b))).arr = [1, 2, 3, -7] ∧
    (Sl.withSpare [3, 1, 2] [-7]).WF := ⟨by decide, by simp [Sl.WF, Sl.withSpare]⟩

example : (sortSliceStable 0 (Sl.ofList [5, 2, 4, 3]) (fun a b => decide (a / 2 < b / 2))).items = [2, 3, 5, 4] ∧
    sortSliceIsSorted 0 (Sl.ofList [2, 3, 5, 4]) (fun a b => decide (a / 2 < b / 2)) = true ∧
    sortSliceIsSorted 0 (Sl.ofList [2, 5, 3]) (fun a b => decide (a / 2 < b / 2)) = false := by decide

/-! ## xmaps.Set (sets as duplicate-free lists) -/

/-- `Set.Add`: "adds item to the set." -/
theorem setAdd_spec (s : List κ) (item y : κ) : y ∈ setAdd s item ↔ y = item ∨ y ∈ s :=
  Proofs.Helpers.mem_setAdd s item y

/-- `Set.Remove`: "removes item from the set." -/
theorem setRemove_spec (s : List κ) (item y : κ) : y ∈ setRemove s item ↔ y ∈ s ∧ y ≠ item :=
  Proofs.Helpers.mem_setRemove s item y

/-- `Set.Contains`: "true if item is in the set." -/
theorem setContains_spec (s : List κ) (item : κ) : setContains s item = true ↔ item ∈ s :=
  Proofs.Helpers.setContains_iff s item

/-- `SetFromSlice`: "a Set whose elements are items." -/
theorem setFromSlice_spec (items : List κ) :
    (∀ y, y ∈ setFromSlice items ↔ y ∈ items) ∧ (setFromSlice items).Nodup :=
  Proofs.Helpers.setFromSlice_spec items

example : setAdd [1, 2] 3 = [1, 2, 3] ∧ setAdd [1, 2] 2 = [1, 2] ∧ setRemove [1, 2, 3] 2 = [1, 3] ∧
    setContains [1, 2] 2 = true ∧ setContains [1, 2] 5 = false ∧ setFromSlice [3, 1, 3, 2, 1] = [3, 1, 2] := by decide

/-! ## xmath.Min / Max (at `int`; generated bodies over the builtins) -/

/-- `Min`: "the minimum of a and b based on the < operator." -/
theorem min_spec (a b : Int) : xmin a b ≤ a ∧ xmin a b ≤ b ∧ (xmin a b = a ∨ xmin a b = b) := by
  have h : xmin a b = if a ≤ b then a else b := rfl
  rw [h]
  split <;> omega

/-- `Max`: "the maximum of a and b based on the > operator." -/
theorem max_spec (a b : Int) : a ≤ xmax a b ∧ b ≤ xmax a b ∧ (xmax a b = a ∨ xmax a b = b) := by
  have h : xmax a b = if a ≤ b then b else a := rfl
  rw [h]
  split <;> omega

example : xmin 3 (-2) = -2 ∧ xmax 3 (-2) = 3 ∧ xmin 4 4 = 4 := by decide

end Juniper.Props.C19
