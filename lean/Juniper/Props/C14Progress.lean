import Juniper.Proofs.ParMapMeasure
import Juniper.Proofs.ParMapMeasureIter
/-!
# C14 — progress of `parallel.MapStream` / `MapIterator` by a decreasing measure

`Props/C14.lean` proves deadlock freedom in the form "in every reachable state with the consumer inside
`Next`/`Close` an internal step is enabled, or a call of `f` / of the source is in progress". This file
adds what that form leaves to trust: a **well-founded measure**.

* `SM.nu : Stream.St → Nat` (`Proofs/ParMapMeasure.lean`) and `IM.nu : Iter.Cfg → Iter.St → Nat`
  (`Proofs/ParMapMeasureIter.lean`) are strictly decreased by **every** step of the LTS except the
  labels by which the consumer starts a new call (`nextCall`, `closeCall`) — by all internal steps of
  dispatcher, workers and consumer (token hand-offs, rendez-vous on `in`, sends on `c`, errgroup
  bookkeeping, `cond.Wait`/`Signal`), and also by the environment's returns (`f` returns, the source
  returns an item / end / error, the source's `Close` returns), by the expiry of the consumer's context
  and by the cancellation of the parent context.
* In reachable states the measure is bounded by a function of the clamped parameters only:
  `8·max(B,P') + 6·P' + 21` (MapStream), `6·max(B,P') + 3·P' + 15` (MapIterator), `P'` = effective
  parallelism.

Consequences, each a theorem below: no infinite run of internal steps (the library cannot spin or
ping-pong on itself, whatever the scheduler does); a quiescent state with a pending `Next`/`Close`
always has a *specific* outstanding environment call; once that environment answers — however slowly,
in whatever order — a pending `Next` / `Close` returns after at most `nu` further steps of the whole
system.

**What exactly is proved, and what is assumed.** The theorems are about *runs of the LTS* (lists of labels):
(i) a bound on the length of every run that contains no `nextCall` / `closeCall` (MapIterator: no `nextCall`)
— these are the only labels excluded from the measure, being the labels by which the single consumer starts
a new call, enabled only while it is idle; (ii) "quiescent (no label with `isEnv = false` enabled) and a call
pending ⇒ a call of `f` is running or a call on the source is unanswered"; (iii) existence of a run to the
return made of internal steps and returns of `f` / the source only. "`Next` / `Close` returns" in the prose
below is (i) + (ii) + (iii) **under two assumptions that are not part of any theorem**: a step that is
enabled is eventually taken (weak fairness of single steps — in fact only "the system does not stop while an
internal step is enabled"), and calls of `f` and of the source return. No statement here is about wall-clock
time.

**Ties.** As in `Props/C14.lean`, every theorem takes `cfg.code = Stream.code` / `Iter.code` and discharges
`stream_ties` / `iter_ties` inside its proof. The MapStream measure needs `Code.Sound.ctxPlain` (the library's
context does not end by itself: `libCtxEnd` disabled), the bound and the quiescence theorems the invariants;
every MapIterator theorem needs `Code.Sound.sectionsAtomic` (the dispatcher's check and its parking are one
step, because both critical sections lock `mapIterator.m`, which is `cond.L`) — in the LTS of code without it
`dPark` is a step of its own, a `Signal` can be lost, and (ii) / (iii) are false (`Props/C14.lean`, last
example).
-/
namespace Juniper.Props.C14Progress
open Juniper.Gen Juniper.Model.ParMap Juniper.Proofs.ParMap

/-! ## MapStream -/

/-- **The measure (MapStream).** Every step other than a new consumer call (`nextCall`, `closeCall`)
strictly decreases `SM.nu` — all internal labels and the environment's `srcRet`, `srcCloseRet`, `fRet`,
`consCtxExpire`, `parentCancel` — in every state, reachable or not; the only fact about the code used for
this half is `ctxPlain` (`libCtxEnd`, "the library's context ends by itself", is not a step of the code as
it is). In reachable states `SM.nu` is at most `8·max(B,P') + 6·P' + 21` where `P'` is the clamped
parallelism. -/
theorem mapStream_measure (cfg : Stream.Cfg) (hc : cfg.code = Stream.code) :
    (∀ s l s', Stream.step cfg s l = some s' → SM.isCall l = false → SM.nu s' < SM.nu s) ∧
    (1 ≤ cfg.gmp → ∀ s, Stream.Reach cfg s →
      SM.nu s ≤ 8 * (max cfg.B (Stream.par cfg)).toNat + 6 * (Stream.par cfg).toNat + 21) := by
  have hs : cfg.code.Sound := hc ▸ stream_code_sound stream_ties
  refine ⟨fun s l s' h hl => SM.nu_decreases hs.ctxPlain h hl, ?_⟩
  intro hg s h
  have := SM.nu_le hs hg h
  simp only [SM.nuBound, S.numTokens_eq hs, S.numWorkers_eq hs, S.buf_eq hs] at this
  exact this

/-- non-vacuity: the measure along a run of parallelism 1, buffer 2 — it falls with every step except
where the consumer calls `Next` (`15 → 25`) -/
example : (List.range 14).map (fun n => (Stream.run ⟨Stream.code, 1, 2, 8⟩ (Stream.init ⟨Stream.code, 1, 2, 8⟩)
      (([.dPull, .srcRet (.item 7), .dTakeToken, .dSend 0, .dPull, .fRet 0 (.ok 100), .wSendC 0, .srcRet (.item 8),
        .dTakeToken, .nextCall true, .cRecv, .cYield, .cRelease] : List Stream.Label).take n)).map SM.nu)
    = [some 24, some 23, some 22, some 21, some 20, some 19, some 18, some 17, some 16, some 15, some 25, some 24,
       some 22, some 21] := by
  decide

/-- **Internal steps terminate (MapStream).** From any reachable state every sequence of internal
steps (dispatcher, workers, consumer — everything that is not an environment action) is shorter than the
measure, hence than `8·max(B,P') + 6·P' + 21`; in particular there is no infinite internal run. -/
theorem mapStream_internal_steps_terminate (cfg : Stream.Cfg) (hc : cfg.code = Stream.code) (hg : 1 ≤ cfg.gmp)
    (s : Stream.St) (h : Stream.Reach cfg s) :
    (∀ ls s', (∀ l ∈ ls, Stream.Label.isEnv l = false) → Stream.run cfg s ls = some s' →
      ls.length + SM.nu s' ≤ SM.nu s ∧
      ls.length ≤ 8 * (max cfg.B (Stream.par cfg)).toNat + 6 * (Stream.par cfg).toNat + 21) ∧
    ¬ ∃ σ : Nat → Stream.St, σ 0 = s ∧
        ∀ n, ∃ l, Stream.Label.isEnv l = false ∧ Stream.step cfg (σ n) l = some (σ (n + 1)) := by
  have hs : cfg.code.Sound := hc ▸ stream_code_sound stream_ties
  have hb := (mapStream_measure cfg hc).2 hg s h
  constructor
  · intro ls s' hl hr
    have := SM.run_nu hs.ctxPlain hr (fun l hm => SM.isCall_of_not_env (hl l hm))
    exact ⟨this, by omega⟩
  · rintro ⟨σ, h0, hσ⟩
    have key : ∀ n, n + SM.nu (σ n) ≤ SM.nu (σ 0) := by
      intro n
      induction n with
      | zero => simp
      | succ n ih =>
        obtain ⟨l, hl, hst⟩ := hσ n
        have := SM.nu_decreases hs.ctxPlain hst (SM.isCall_of_not_env hl)
        omega
    have := key (SM.nu (σ 0) + 1)
    omega

/-- non-vacuity: a reachable state from which 6 internal steps in a row are possible (two workers
hand over their results, the consumer receives both, yields the first and releases the token) -/
example : ∃ s s', Stream.Reach ⟨Stream.code, 2, 2, 8⟩ s ∧
    Stream.run ⟨Stream.code, 2, 2, 8⟩ s [.wSendC 1, .wSendC 0, .cRecv, .cRecv, .cYield, .cRelease] = some s' ∧
    SM.nu s = 26 ∧ SM.nu s' = 19 :=
  ⟨_, _, Stream.reach_of_run Stream.Reach.init (ls := [.dPull, .srcRet (.item 7), .dTakeToken, .dSend 0, .dPull,
      .srcRet (.item 8), .dTakeToken, .dSend 1, .dPull, .fRet 1 (.ok 101), .fRet 0 (.ok 100), .nextCall true]) rfl,
    rfl, by decide, by decide⟩

/-- **The library never waits on itself (MapStream).** From every reachable state at most `SM.nu s`
internal steps lead to a quiescent state (one in which no internal step is enabled), and in *every*
reachable quiescent state in which a `Next` or `Close` of the consumer is pending, the environment owes
a specific return: a call of `f` is running, or a call on the source (`Next`, or the `Close` issued by the
dispatcher) has not been answered. -/
theorem mapStream_quiescent_next_served (cfg : Stream.Cfg) (hc : cfg.code = Stream.code) (hg : 1 ≤ cfg.gmp)
    (s : Stream.St) (h : Stream.Reach cfg s) :
    (∃ ls s', (∀ l ∈ ls, Stream.Label.isEnv l = false) ∧ Stream.run cfg s ls = some s' ∧
        ls.length ≤ SM.nu s ∧ SM.Quiescent cfg s') ∧
    (SM.Quiescent cfg s → S.consBusy s.cons = true → 0 < Stream.fRunning s ∨ Stream.srcBusy s = true) := by
  have hs : cfg.code.Sound := hc ▸ stream_code_sound stream_ties
  constructor
  · obtain ⟨ls, s', h1, h2, h3⟩ := SM.exists_quiescent_run cfg hs.ctxPlain (SM.nu s) s (Nat.le_refl _)
    have := SM.run_nu hs.ctxPlain h2 (fun l hm => SM.isCall_of_not_env (h1 l hm))
    exact ⟨ls, s', h1, h2, by omega, h3⟩
  · intro hq hb
    rcases S.progress hs hg h hb with ⟨l, hl, hen⟩ | h' | h'
    · rw [S.En, hq l hl] at hen; simp at hen
    · exact Or.inl h'
    · exact Or.inr h'

/-- non-vacuity: a quiescent reachable state with `Next` pending: nothing to receive yet, the dispatcher
waits for the source and one call of `f` is running — exactly the two things the theorem says may be owed -/
example : ∃ s, Stream.Reach ⟨Stream.code, 1, 1, 8⟩ s ∧ S.consBusy s.cons = true ∧
    (∀ l ∈ Stream.internalLabels s, Stream.step ⟨Stream.code, 1, 1, 8⟩ s l = none) ∧
    Stream.fRunning s = 1 ∧ Stream.srcBusy s = true :=
  ⟨_, Stream.reach_of_run Stream.Reach.init (ls := [.dPull, .srcRet (.item 7), .dTakeToken, .dSend 0, .dPull,
      .nextCall true]) rfl, rfl, by decide, rfl, rfl⟩

/-- **`Next` returns (MapStream).** Let `s` be a reachable state in which the consumer is inside `Next`.
(1) Every continuation in which the consumer makes no new call — *all* other labels allowed, internal
and environment, in any order — has at most `SM.nu s ≤ 8·max(B,P') + 6·P' + 21` steps, and along it the
call is either still pending with nothing reported, or has returned exactly one result. (2) If such a
continuation ends in a state where no internal step is enabled and the environment owes nothing (no call
of `f` running, no source call pending), `Next` has returned. (3) Such a continuation exists using only
internal steps and returns of `f` / of the source. So: provided running calls of `f` and the pending
source call return, `Next` returns within `SM.nu s` steps. -/
theorem mapStream_next_terminates (cfg : Stream.Cfg) (hc : cfg.code = Stream.code) (hg : 1 ≤ cfg.gmp)
    (s : Stream.St) (h : Stream.Reach cfg s) (hn : SM.inNext s.cons = true) :
    (∀ ls s', (∀ l ∈ ls, SM.isCall l = false) → Stream.run cfg s ls = some s' →
      ls.length + SM.nu s' ≤ SM.nu s ∧ SM.NextOutcome s s') ∧
    SM.nu s ≤ 8 * (max cfg.B (Stream.par cfg)).toNat + 6 * (Stream.par cfg).toNat + 21 ∧
    (∀ ls s', (∀ l ∈ ls, SM.isCall l = false) → Stream.run cfg s ls = some s' →
      SM.Quiescent cfg s' → Stream.fRunning s' = 0 → Stream.srcBusy s' = false →
      s'.cons = .idle ∧ ∃ r, s'.results = s.results ++ [r]) ∧
    (∃ ls s', (∀ l ∈ ls, Stream.Label.isEnv l = false ∨ SM.isReturn l = true) ∧
      Stream.run cfg s ls = some s' ∧ ls.length ≤ SM.nu s ∧ s'.cons = .idle ∧ ∃ r, s'.results = s.results ++ [r]) := by
  have hs : cfg.code.Sound := hc ▸ stream_code_sound stream_ties
  have h0 : SM.NextOutcome s s := Or.inl ⟨hn, rfl⟩
  refine ⟨?_, (mapStream_measure cfg hc).2 hg s h, ?_, ?_⟩
  · intro ls s' hl hr
    exact ⟨SM.run_nu hs.ctxPlain hr hl, SM.nextOutcome_run h0 hl hr⟩
  · intro ls s' hl hr hq hf hsrc
    rcases SM.nextOutcome_run h0 hl hr with ⟨hp, _⟩ | hret
    · exfalso
      have hb : S.consBusy s'.cons = true := by cases hc' : s'.cons <;> simp_all [SM.inNext, S.consBusy]
      rcases S.progress hs hg (Stream.reach_of_run h hr) hb with ⟨l, hl', hen⟩ | h' | h'
      · rw [S.En, hq l hl'] at hen; simp at hen
      · omega
      · simp [hsrc] at h'
    · exact hret
  · obtain ⟨ls, s', h1, h2, h3⟩ := SM.exists_next_run hs hg s (SM.nu s) s h h0 (Nat.le_refl _)
    have := SM.run_nu hs.ctxPlain h2 (fun l hm => SM.isCall_of_service (h1 l hm))
    exact ⟨ls, s', h1, h2, by omega, h3⟩

/-- non-vacuity: `Next` is called while item 0 is still inside `f` and the dispatcher inside the source;
the source answers, `f` returns, and five internal steps later `Next` has returned item 0's value -/
example : ∃ s s', Stream.Reach ⟨Stream.code, 1, 1, 8⟩ s ∧ SM.inNext s.cons = true ∧ SM.nu s = 22 ∧
    Stream.run ⟨Stream.code, 1, 1, 8⟩ s [.srcRet (.item 8), .fRet 0 (.ok 100), .wSendC 0, .cRecv, .cYield, .cRelease]
      = some s' ∧ s'.cons = .idle ∧ s'.results = s.results ++ [.val 0 100] :=
  ⟨_, _, Stream.reach_of_run Stream.Reach.init (ls := [.dPull, .srcRet (.item 7), .dTakeToken, .dSend 0, .dPull,
      .nextCall true]) rfl, rfl, by decide, rfl, rfl, rfl⟩

/-- **`Close` returns (MapStream).** Let `s` be a reachable state in which `Close` has been called and
has not returned. (1) *Every* continuation of the system — any labels at all: the consumer can make no
further call — has at most `SM.nu s ≤ 8·max(B,P') + 6·P' + 21` steps. (2) A continuation that ends where
no internal step is enabled and the environment owes nothing has returned from `Close`. (3) A continuation
to the return exists that uses only internal steps and returns of `f` / of the source. So: provided the
running calls of `f` and the pending source call return, `Close` returns within `SM.nu s` steps (and then
`mapStream_close_returns_workers_stopped_source_closed` applies). -/
theorem mapStream_close_terminates (cfg : Stream.Cfg) (hc : cfg.code = Stream.code) (hg : 1 ≤ cfg.gmp)
    (s : Stream.St) (h : Stream.Reach cfg s) (hclose : s.cons = .closeWait) :
    (∀ ls s', Stream.run cfg s ls = some s' → ls.length + SM.nu s' ≤ SM.nu s) ∧
    SM.nu s ≤ 8 * (max cfg.B (Stream.par cfg)).toNat + 6 * (Stream.par cfg).toNat + 21 ∧
    (∀ ls s', Stream.run cfg s ls = some s' →
      SM.Quiescent cfg s' → Stream.fRunning s' = 0 → Stream.srcBusy s' = false → s'.cons = .closed) ∧
    (∃ ls s', (∀ l ∈ ls, Stream.Label.isEnv l = false ∨ SM.isReturn l = true) ∧
      Stream.run cfg s ls = some s' ∧ ls.length ≤ SM.nu s ∧ s'.cons = .closed) := by
  have hs : cfg.code.Sound := hc ▸ stream_code_sound stream_ties
  have hp : SM.closePhase s.cons = true := by simp [hclose, SM.closePhase]
  refine ⟨?_, (mapStream_measure cfg hc).2 hg s h, ?_, ?_⟩
  · intro ls s' hr
    exact SM.run_nu hs.ctxPlain hr (SM.closePhase_run hp hr).1
  · intro ls s' hr hq hf hsrc
    have hp' := (SM.closePhase_run hp hr).2
    cases hc' : s'.cons with
    | closed => rfl
    | closeWait =>
      exfalso
      rcases S.progress hs hg (Stream.reach_of_run h hr) (by simp [hc', S.consBusy]) with ⟨l, hl', hen⟩ | h' | h'
      · rw [S.En, hq l hl'] at hen; simp at hen
      · omega
      · simp [hsrc] at h'
    | _ => simp [hc', SM.closePhase] at hp'
  · obtain ⟨ls, s', h1, h2, h3⟩ := SM.exists_close_run hs hg (SM.nu s) s h hp (Nat.le_refl _)
    have := SM.run_nu hs.ctxPlain h2 (fun l hm => SM.isCall_of_service (h1 l hm))
    exact ⟨ls, s', h1, h2, by omega, h3⟩

/-- non-vacuity: `Close` is called while one result sits in `c`, one call of `f` is running and the
dispatcher is inside the source's `Next`; measure 14; after the two returns and seven internal steps
`Close` has returned -/
example : ∃ s s', Stream.Reach ⟨Stream.code, 1, 2, 8⟩ s ∧ s.cons = .closeWait ∧ Stream.fRunning s = 1 ∧
    Stream.srcBusy s = true ∧ SM.nu s = 14 ∧
    Stream.run ⟨Stream.code, 1, 2, 8⟩ s [.srcRet (.err 9002), .dCloseIn, .srcCloseRet, .dEgDone, .fRet 0 (.ok 101),
      .wSendCtx 0, .wDefer 0, .wEgDone 0, .cCloseDone] = some s' ∧ s'.cons = .closed :=
  ⟨_, _, Stream.reach_of_run Stream.Reach.init (ls := [.dPull, .srcRet (.item 7), .dTakeToken, .dSend 0, .dPull,
      .srcRet (.item 8), .dTakeToken, .fRet 0 (.ok 100), .wSendC 0, .dSend 0, .dPull, .closeCall]) rfl,
    rfl, rfl, rfl, by decide, rfl, rfl⟩

/-! ## MapIterator

`MapIterator` has no `Close` (it "must be consumed completely"); the counterpart of
`mapStream_close_terminates` is `mapIterator_next_terminates`, applied to each of the consumer's calls. -/

/-- **The measure (MapIterator).** Every step other than `nextCall` strictly decreases `IM.nu` (in every
state; the facts about the code used are the guard `inFlight >= bufferSize` and `sectionsAtomic`: the
dispatcher's check-and-park is one step, `dPark` is not a step of the code as it is), and in reachable states
`IM.nu ≤ 6·max(B,P') + 3·P' + 15`. -/
theorem mapIterator_measure (cfg : Iter.Cfg) (hc : cfg.code = Iter.code) :
    (∀ s l s', Iter.step cfg s l = some s' → l ≠ .nextCall → IM.nu cfg s' < IM.nu cfg s) ∧
    (1 ≤ cfg.gmp → ∀ s, Iter.Reach cfg s →
      IM.nu cfg s ≤ 6 * (max cfg.B (Iter.par cfg)).toNat + 3 * (Iter.par cfg).toNat + 15) := by
  have hs : cfg.code.Sound := hc ▸ iter_code_sound iter_ties
  refine ⟨fun s l s' h hl => IM.nu_decreases hs h hl, ?_⟩
  intro hg s h
  have := IM.nu_le hs hg h
  simp only [IM.nuBound, I.numWorkers_eq hs, I.buf_eq hs] at this
  exact this

/-- non-vacuity: the measure along a run with parallelism 1, buffer 1 in which the dispatcher parks and
is woken: it falls with every step except the two `nextCall`s -/
example : (List.range 15).map (fun n => (Iter.run ⟨Iter.code, 1, 1, 8⟩ (Iter.init ⟨Iter.code, 1, 1, 8⟩)
      (([.dPull, .srcRet (some 7), .dAcquire, .dSend 0, .dPull, .srcRet (some 8), .dAcquire, .fRet 0 100, .nextCall,
        .wHandOff 0, .cYield, .dAcquire, .dSend 0, .nextCall] : List Iter.Label).take n)).map (IM.nu ⟨Iter.code, 1, 1, 8⟩))
    = [some 11, some 10, some 9, some 8, some 7, some 6, some 5, some 4, some 3, some 11, some 10, some 9, some 8,
       some 7, some 15] := by
  decide

/-- **Internal steps terminate (MapIterator).** From any reachable state every sequence of internal steps
(`isEnv = false`: dispatcher incl. parking and being woken, workers, consumer) has
`length + IM.nu(end) ≤ IM.nu(start) ≤ 6·max(B,P') + 3·P' + 15`; there is no infinite internal run. -/
theorem mapIterator_internal_steps_terminate (cfg : Iter.Cfg) (hc : cfg.code = Iter.code) (hg : 1 ≤ cfg.gmp)
    (s : Iter.St) (h : Iter.Reach cfg s) :
    (∀ ls s', (∀ l ∈ ls, Iter.Label.isEnv l = false) → Iter.run cfg s ls = some s' →
      ls.length + IM.nu cfg s' ≤ IM.nu cfg s ∧
      ls.length ≤ 6 * (max cfg.B (Iter.par cfg)).toNat + 3 * (Iter.par cfg).toNat + 15) ∧
    ¬ ∃ σ : Nat → Iter.St, σ 0 = s ∧
        ∀ n, ∃ l, Iter.Label.isEnv l = false ∧ Iter.step cfg (σ n) l = some (σ (n + 1)) := by
  have hs : cfg.code.Sound := hc ▸ iter_code_sound iter_ties
  have hb := (mapIterator_measure cfg hc).2 hg s h
  constructor
  · intro ls s' hl hr
    have := IM.run_nu hs hr (fun l hm => IM.ne_nextCall_of_not_env (hl l hm))
    exact ⟨this, by omega⟩
  · rintro ⟨σ, h0, hσ⟩
    have key : ∀ n, n + IM.nu cfg (σ n) ≤ IM.nu cfg (σ 0) := by
      intro n
      induction n with
      | zero => simp
      | succ n ih =>
        obtain ⟨l, hl, hst⟩ := hσ n
        have := IM.nu_decreases hs hst (IM.ne_nextCall_of_not_env hl)
        omega
    have := key (IM.nu cfg (σ 0) + 1)
    omega

/-- non-vacuity: four internal steps in a row — hand-off to the consumer, yield with `Signal`, the woken
dispatcher takes the slot and hands the next item to the worker -/
example : ∃ s s', Iter.Reach ⟨Iter.code, 1, 1, 8⟩ s ∧
    Iter.run ⟨Iter.code, 1, 1, 8⟩ s [.wHandOff 0, .cYield, .dAcquire, .dSend 0] = some s' ∧
    IM.nu ⟨Iter.code, 1, 1, 8⟩ s = 11 ∧ IM.nu ⟨Iter.code, 1, 1, 8⟩ s' = 7 :=
  ⟨_, _, Iter.reach_of_run Iter.Reach.init (ls := [.dPull, .srcRet (some 7), .dAcquire, .dSend 0, .dPull, .srcRet (some 8),
      .dAcquire, .fRet 0 100, .nextCall]) rfl, rfl, by decide, by decide⟩

/-- **The library never waits on itself (MapIterator).** At most `IM.nu` internal steps lead to a
quiescent state, and in every reachable quiescent state with `Next` pending a call of `f` is running or
the source iterator has been asked for an item and has not answered — never a parked dispatcher alone,
never a worker blocked on the result channel alone. -/
theorem mapIterator_quiescent_next_served (cfg : Iter.Cfg) (hc : cfg.code = Iter.code) (hg : 1 ≤ cfg.gmp)
    (s : Iter.St) (h : Iter.Reach cfg s) :
    (∃ ls s', (∀ l ∈ ls, Iter.Label.isEnv l = false) ∧ Iter.run cfg s ls = some s' ∧
        ls.length ≤ IM.nu cfg s ∧ IM.Quiescent cfg s') ∧
    (IM.Quiescent cfg s → s.cons = .next → 0 < Iter.fRunning s ∨ s.disp = .inNext) := by
  have hs : cfg.code.Sound := hc ▸ iter_code_sound iter_ties
  constructor
  · obtain ⟨ls, s', h1, h2, h3⟩ := IM.exists_quiescent_run hs (IM.nu cfg s) s (Nat.le_refl _)
    have := IM.run_nu hs h2 (fun l hm => IM.ne_nextCall_of_not_env (h1 l hm))
    exact ⟨ls, s', h1, h2, by omega, h3⟩
  · intro hq hb
    rcases I.progress hs hg h hb with ⟨l, hl, hen⟩ | h' | h'
    · rw [I.En, hq l hl] at hen; simp at hen
    · exact Or.inl h'
    · exact Or.inr h'

/-- non-vacuity: quiescent with `Next` pending, the dispatcher parked (buffer 1 full) — what is owed is
the running call of `f` -/
example : ∃ s, Iter.Reach ⟨Iter.code, 1, 1, 8⟩ s ∧ s.cons = .next ∧ s.disp = .parked 8 ∧
    (∀ l ∈ Iter.internalLabels s, Iter.step ⟨Iter.code, 1, 1, 8⟩ s l = none) ∧ Iter.fRunning s = 1 :=
  ⟨_, Iter.reach_of_run Iter.Reach.init (ls := [.dPull, .srcRet (some 7), .dAcquire, .dSend 0, .dPull, .srcRet (some 8),
      .dAcquire, .nextCall]) rfl, rfl, rfl, by decide, rfl⟩

/-- **`Next` returns (MapIterator).** For a reachable state inside `Next`: (1) every continuation without
a new `nextCall` — internal steps and environment returns in any order — has at most
`IM.nu cfg s ≤ 6·max(B,P') + 3·P' + 15` steps, the call being still pending or having returned exactly
one result; (2) a continuation ending where no internal step is enabled, no call of `f` runs and the
source is not being asked has returned; (3) such a continuation exists using only internal steps and
returns of `f` / of the source. -/
theorem mapIterator_next_terminates (cfg : Iter.Cfg) (hc : cfg.code = Iter.code) (hg : 1 ≤ cfg.gmp)
    (s : Iter.St) (h : Iter.Reach cfg s) (hn : s.cons = .next) :
    (∀ ls s', (∀ l ∈ ls, l ≠ Iter.Label.nextCall) → Iter.run cfg s ls = some s' →
      ls.length + IM.nu cfg s' ≤ IM.nu cfg s ∧ IM.NextOutcome s s') ∧
    IM.nu cfg s ≤ 6 * (max cfg.B (Iter.par cfg)).toNat + 3 * (Iter.par cfg).toNat + 15 ∧
    (∀ ls s', (∀ l ∈ ls, l ≠ Iter.Label.nextCall) → Iter.run cfg s ls = some s' →
      IM.Quiescent cfg s' → Iter.fRunning s' = 0 → s'.disp ≠ .inNext →
      s'.cons = .idle ∧ ∃ r, s'.results = s.results ++ [r]) ∧
    (∃ ls s', (∀ l ∈ ls, Iter.Label.isEnv l = false ∨ IM.isReturn l = true) ∧
      Iter.run cfg s ls = some s' ∧ ls.length ≤ IM.nu cfg s ∧ s'.cons = .idle ∧ ∃ r, s'.results = s.results ++ [r]) := by
  have hs : cfg.code.Sound := hc ▸ iter_code_sound iter_ties
  have h0 : IM.NextOutcome s s := Or.inl ⟨hn, rfl⟩
  refine ⟨?_, (mapIterator_measure cfg hc).2 hg s h, ?_, ?_⟩
  · intro ls s' hl hr
    exact ⟨IM.run_nu hs hr hl, IM.nextOutcome_run h0 hl hr⟩
  · intro ls s' hl hr hq hf hsrc
    rcases IM.nextOutcome_run h0 hl hr with ⟨hp, _⟩ | hret
    · exfalso
      rcases I.progress hs hg (Iter.reach_of_run h hr) hp with ⟨l, hl', hen⟩ | h' | h'
      · rw [I.En, hq l hl'] at hen; simp at hen
      · omega
      · exact hsrc h'
    · exact hret
  · obtain ⟨ls, s', h1, h2, h3⟩ := IM.exists_next_run hs hg s (IM.nu cfg s) s h h0 (Nat.le_refl _)
    have := IM.run_nu hs h2 (fun l hm => IM.ne_nextCall_of_service (h1 l hm))
    exact ⟨ls, s', h1, h2, by omega, h3⟩

/-- non-vacuity: `Next` pending with the dispatcher parked; `f` returns and two internal steps later
`Next` has returned item 0's value (and woken the dispatcher) -/
example : ∃ s s', Iter.Reach ⟨Iter.code, 1, 1, 8⟩ s ∧ s.cons = .next ∧ IM.nu ⟨Iter.code, 1, 1, 8⟩ s = 12 ∧
    Iter.run ⟨Iter.code, 1, 1, 8⟩ s [.fRet 0 100, .wHandOff 0, .cYield] = some s' ∧
    s'.cons = .idle ∧ s'.results = s.results ++ [.val 0 100] ∧ s'.disp = .acquire 8 :=
  ⟨_, _, Iter.reach_of_run Iter.Reach.init (ls := [.dPull, .srcRet (some 7), .dAcquire, .dSend 0, .dPull, .srcRet (some 8),
      .dAcquire, .nextCall]) rfl, rfl, by decide, rfl, rfl, rfl, rfl⟩

/-- **Consuming a MapIterator to the end terminates** (the counterpart of `Close` for an iterator that
"must be consumed completely"). Let `s` be reachable with the source ended. (1) Every continuation —
the consumer calling `Next` again and again, internal steps, returns of `f`, in any order — that has not
yet reported the end has at most `IM.delta s` steps (`5` per busy worker, `2` per result waiting in the
reorder buffer, `1` for the consumer). (2) A continuation of at most `IM.delta s + 1` steps exists at the
end of which `Next` has reported the end. -/
theorem mapIterator_drain_terminates (cfg : Iter.Cfg) (hc : cfg.code = Iter.code) (hg : 1 ≤ cfg.gmp)
    (s : Iter.St) (h : Iter.Reach cfg s) (hend : s.srcEnded = true) :
    (∀ ls s', Iter.run cfg s ls = some s' → Iter.NextRes.end ∉ s'.results → ls.length + IM.delta s' ≤ IM.delta s) ∧
    (∃ ls s', Iter.run cfg s ls = some s' ∧ Iter.NextRes.end ∈ s'.results ∧ ls.length ≤ IM.delta s + 1) := by
  have hs : cfg.code.Sound := hc ▸ iter_code_sound iter_ties
  have hd : s.disp = .done := by
    have hse := (I.invA hs hg h).SE
    rw [hend] at hse
    cases hdp : s.disp <;> rw [hdp] at hse <;> first | rfl | (simp [I.dDone] at hse)
  exact ⟨fun ls s' hr he => IM.run_delta hd hr he, IM.exists_drain_run hs hg (IM.delta s) s h hd (Nat.le_refl _)⟩

/-- non-vacuity: two items, the source has ended, item 1 is still inside `f`, item 0 waits for the
consumer: `delta = 5 + 4 + 1 = 10`; nine steps later the end has been reported -/
example : ∃ s s', Iter.Reach ⟨Iter.code, 2, 2, 8⟩ s ∧ s.srcEnded = true ∧ IM.delta s = 10 ∧
    Iter.run ⟨Iter.code, 2, 2, 8⟩ s [.nextCall, .wHandOff 0, .cYield, .fRet 1 101, .nextCall, .wHandOff 1, .cYield,
      .wExitIdle 0, .wExitIdle 1, .nextCall, .cRecvClosed] = some s' ∧
    s'.results = [.val 0 100, .val 1 101, .end] :=
  ⟨_, _, Iter.reach_of_run Iter.Reach.init (ls := [.dPull, .srcRet (some 7), .dAcquire, .dSend 0, .dPull, .srcRet (some 8),
      .dAcquire, .dSend 1, .dPull, .srcRet none, .fRet 0 100]) rfl, rfl, by decide, rfl, rfl⟩

end Juniper.Props.C14Progress
