import Juniper.Model.ChanStream
import Juniper.Proofs.ChanStream
import Juniper.Model.Skeleton
import Juniper.Generated.Skeleton
/-!
# stream.Chan (`chanStream`) — companion of C10 / the C08 clause "the per-call context only guards
the wait, not the buffered data"

Theorems about `Juniper.Model.ChanStream` (the `select` of `chanStream.Next` is the regenerated table
`Gen.Pipe.chanNextArms`), for every channel capacity, every sequence of environment actions and every
choice among ready arms.
-/
namespace Juniper.Props.C10Chan
open Juniper.Facts Juniper.Gen.Pipe Juniper.Model.ChanStream Juniper.Proofs.ChanStream

/-- `chanStream.Next` is one `select` over the data channel and the context, nothing else. -/
theorem chan_tables_exact : tablesKnown = true := by decide

/-- Tie 1 for the control flow: the regenerated statement-kind skeleton of `chanStream.Next` is
`var zero; select { data arm: if !ok { return End }; return item | ctx arm: return }` and `Close` is
empty — no statement added, removed or moved (`Model/Skeleton.lean`). -/
theorem chan_skeleton_ok :
    Gen.Skeleton.chanNext = Model.Skeleton.chanNext ∧ Gen.Skeleton.chanClose = Model.Skeleton.chanClose := by
  decide

/-- **Exact FIFO, nothing lost, nothing duplicated:** what `Next` has returned followed by what the
channel still buffers is what the channel accepted, in order — whatever happened in between
(expired contexts included). -/
theorem chan_fifo {c : Nat} {st : State} (hr : Reach (init c) st) :
    st.delivered ++ st.buf = st.puts := (inv_reach hr).fifo

/-- **The end comes after the data:** once the end was reported the channel is closed and everything
it ever accepted has been delivered. -/
theorem chan_end_after_data {c : Nat} {st : State} (hr : Reach (init c) st) (he : st.endReported = true) :
    st.closed = true ∧ st.delivered = st.puts := by
  have h := inv_reach hr
  obtain ⟨hc, hb⟩ := h.fin he
  have := h.fifo
  rw [hb, List.append_nil] at this
  exact ⟨hc, this⟩

/-- **A Next that fails on an expired context costs nothing:** the step changes nothing but `parked`. -/
theorem chan_ctx_costs_nothing {st st' : State} (hs : step st (.arm (.recv chCtx)) = some st') :
    st' = { st with parked := false } := by
  rcases step_cases hs with ⟨v, h, _⟩ | ⟨v, h, _⟩ | ⟨h, _⟩ | ⟨c, h, _⟩ | ⟨h, _⟩ | ⟨v, rest, h, _⟩ | ⟨h, _⟩ | ⟨_, _, _, h⟩
  all_goals first | exact h | (simp [chCtx, chData] at h)

/-- **Next returns once a value is buffered, the channel is closed or its context expired** — proved as:
in any state (reachable or not) in which `Next` is pending and one of the three holds, (1) `Next` is that
one `select` and nothing else (regenerated control skeleton); (2) an arm of the `select` is enabled whose
step makes the call return (`parked = false` afterwards); (3) stability: after any label of the LTS the
call has returned or one of the three still holds. "Returns" then needs the scheduler to run an arm that
stays enabled (weak fairness, trusted — not proved). No measure is needed: every arm returns. -/
theorem chan_next_never_stuck {st : State} (hp : st.parked = true)
    (hc : st.buf ≠ [] ∨ st.closed = true ∨ st.rctx = true) :
    Gen.Skeleton.chanNext = Model.Skeleton.chanNext ∧
    (∃ a st', step st (.arm a) = some st' ∧ st'.parked = false) ∧
    (∀ l st', step st l = some st' →
      st'.parked = false ∨ (st'.buf ≠ [] ∨ st'.closed = true ∨ st'.rctx = true)) := by
  have hd : chanNextArms.contains (.recv chData) = true := by decide
  have hx : chanNextArms.contains (.recv chCtx) = true := by decide
  refine ⟨by decide, ?_, ?_⟩
  · cases hb : st.buf with
    | cons v rest =>
      exact ⟨.recv chData, { st with buf := rest, delivered := st.delivered ++ [v], parked := false },
        by simp [step, hp, hd, hb, chData], rfl⟩
    | nil =>
      rcases hc with h | h | h
      · exact absurd hb h
      · exact ⟨.recv chData, { st with parked := false, endReported := true }, by simp [step, hp, hd, hb, h, chData], rfl⟩
      · exact ⟨.recv chCtx, { st with parked := false }, by simp [step, hp, hx, h, chData, chCtx], rfl⟩
  · intro l st' hs
    rcases step_cases hs with ⟨v, _, _, _, rfl⟩ | ⟨v, _, _, _, _, _, rfl⟩ | ⟨_, _, rfl⟩ | ⟨c, _, hnp, rfl⟩ |
        ⟨_, _, rfl⟩ | ⟨v, rest, _, _, _, rfl⟩ | ⟨_, _, _, _, rfl⟩ | ⟨_, _, _, rfl⟩
    · exact Or.inr (Or.inl (by simp))
    · exact Or.inl rfl
    · exact Or.inr (Or.inr (Or.inl rfl))
    · rw [hp] at hnp; cases hnp
    · exact Or.inr (Or.inr (Or.inr rfl))
    · exact Or.inl rfl
    · exact Or.inl rfl
    · exact Or.inl rfl

/-- **What `Next` returns versus the logs (the `!ok` branch is load-bearing).** `completion st l` is the
result with which `Next` returns in step `l` (if it does), read off the regenerated body of the data arm
(`item, ok := <-s.c; if !ok { return zero, End }; return item, nil`) and of the context arm. For every step:
* `Next` returns the value `v` exactly when `v` is appended to `delivered` in this step (popped from the
  buffer, or handed over by a `put` on an unbuffered channel);
* it returns `End` exactly in the step that sets `endReported`, which needs the channel closed **and**
  drained (`!ok`), and delivers nothing;
* it returns the context's error only from the context arm with an expired context; nothing else changes;
* every other step (a buffered `put`, `close`, a call being started, a context expiring) returns nothing
  and leaves `delivered` and `endReported` alone. -/
theorem chan_next_result_matches_log {st st' : State} {l : Label} (hs : step st l = some st') :
    (∃ v, completion st l = some (.val v) ∧ st'.delivered = st.delivered ++ [v] ∧ st'.endReported = st.endReported) ∨
    (completion st l = some .fin ∧ st'.delivered = st.delivered ∧ st.closed = true ∧ st.buf = [] ∧
      st'.endReported = true) ∨
    (completion st l = some .ctx ∧ st.rctx = true ∧ st' = { st with parked := false }) ∨
    (completion st l = none ∧ st'.delivered = st.delivered ∧ st'.endReported = st.endReported) := by
  have hbody : chanNextBodies.lookup (.recv chData) =
      some ["bind item,ok:=", "if !ok {", "return zero, End", "}", "return item, nil"] := by decide
  have hctx : chanNextBodies.lookup (.recv chCtx) = some ["return zero, ctx.Err()"] := by decide
  rcases step_cases hs with ⟨v, rfl, _, hlt, rfl⟩ | ⟨v, rfl, _, hlt, hcap, _, rfl⟩ | ⟨rfl, _, rfl⟩ | ⟨c, rfl, _, rfl⟩ |
      ⟨rfl, _, rfl⟩ | ⟨v, rest, rfl, _, hb, rfl⟩ | ⟨rfl, _, hb, hcl, rfl⟩ | ⟨rfl, _, hr, rfl⟩
  · refine Or.inr (Or.inr (Or.inr ⟨?_, rfl, rfl⟩))
    have : ¬ st.cap = 0 := by omega
    simp [completion, this]
  · refine Or.inl ⟨v, ?_, rfl, rfl⟩
    simp [completion, hcap, dataResult, hbody]
  · exact Or.inr (Or.inr (Or.inr ⟨rfl, rfl, rfl⟩))
  · exact Or.inr (Or.inr (Or.inr ⟨rfl, rfl, rfl⟩))
  · exact Or.inr (Or.inr (Or.inr ⟨rfl, rfl, rfl⟩))
  · refine Or.inl ⟨v, ?_, rfl, rfl⟩
    simp [completion, dataResult, hbody, hb, chData]
  · refine Or.inr (Or.inl ⟨?_, rfl, hcl, hb, rfl⟩)
    simp [completion, dataResult, hbody, hb, chData]
  · refine Or.inr (Or.inr (Or.inl ⟨?_, hr, rfl⟩))
    simp [completion, hctx, chData, chCtx]

/-- non-vacuity: a value popped, the end of a closed and drained channel, an expired context, a
hand-over on an unbuffered channel -/
example : completion { cap := 2, buf := [1, 2], parked := true } (.arm (.recv chData)) = some (.val 1) ∧
    completion { cap := 2, closed := true, parked := true } (.arm (.recv chData)) = some .fin ∧
    completion { cap := 2, parked := true, rctx := true } (.arm (.recv chCtx)) = some .ctx ∧
    completion { cap := 0, parked := true } (.put 4) = some (.val 4) := by decide

/-- non-vacuity: capacity 2; two values, a `Next` whose context is expired, a live `Next`, close, two
more: delivered `[1, 2]`, then the end. -/
example : (run (init 2) [.put 1, .put 2, .startNext true, .arm (.recv chCtx), .startNext false, .arm (.recv chData),
      .close, .startNext false, .arm (.recv chData), .startNext false, .arm (.recv chData)]).map
    (fun st => (st.delivered, st.puts, st.endReported, st.closed)) = some ([1, 2], [1, 2], true, true) := by decide

example : ∃ st, Reach (init 0) st ∧ st.parked = true ∧ st.closed = true :=
  ⟨{ cap := 0, parked := true, closed := true }, reach_of_run (ls := [.startNext false, .close]) (by decide), rfl, rfl⟩

end Juniper.Props.C10Chan
