-- Tie theorems of the pins (written by `gofacts -pin` together with Juniper/Pinned/Group.lean; see notes/pins.md).
-- Each says: the declaration gofacts reads from the tree under check today is, up to the names of its locals,
-- the one the author of the model saw. `rfl` on two literals: kernel-checked, no axioms.
import Juniper.Generated.PinGroup
import Juniper.Pinned.Group

namespace Juniper.Props.PinGroup

theorem pin_xsync_Group_Do_ok : Juniper.Gen.PinGroup.pin_xsync_Group_Do = Juniper.Pinned.Group.pin_xsync_Group_Do := by rfl
theorem pin_xsync_Group_Periodic_ok : Juniper.Gen.PinGroup.pin_xsync_Group_Periodic = Juniper.Pinned.Group.pin_xsync_Group_Periodic := by rfl
theorem pin_xsync_Group_PeriodicOrTrigger_ok : Juniper.Gen.PinGroup.pin_xsync_Group_PeriodicOrTrigger = Juniper.Pinned.Group.pin_xsync_Group_PeriodicOrTrigger := by rfl
theorem pin_xsync_Group_Stop_ok : Juniper.Gen.PinGroup.pin_xsync_Group_Stop = Juniper.Pinned.Group.pin_xsync_Group_Stop := by rfl
theorem pin_xsync_Group_StopAndWait_ok : Juniper.Gen.PinGroup.pin_xsync_Group_StopAndWait = Juniper.Pinned.Group.pin_xsync_Group_StopAndWait := by rfl
theorem pin_xsync_Group_Trigger_ok : Juniper.Gen.PinGroup.pin_xsync_Group_Trigger = Juniper.Pinned.Group.pin_xsync_Group_Trigger := by rfl
theorem pin_xsync_Group_spawn_ok : Juniper.Gen.PinGroup.pin_xsync_Group_spawn = Juniper.Pinned.Group.pin_xsync_Group_spawn := by rfl
theorem pin_xsync_NewGroup_ok : Juniper.Gen.PinGroup.pin_xsync_NewGroup = Juniper.Pinned.Group.pin_xsync_NewGroup := by rfl
theorem pin_xsync_jitterDuration_ok : Juniper.Gen.PinGroup.pin_xsync_jitterDuration = Juniper.Pinned.Group.pin_xsync_jitterDuration := by rfl
theorem pin_xsync_type_ContextCond_ok : Juniper.Gen.PinGroup.pin_xsync_type_ContextCond = Juniper.Pinned.Group.pin_xsync_type_ContextCond := by rfl
theorem pin_xsync_type_Future_ok : Juniper.Gen.PinGroup.pin_xsync_type_Future = Juniper.Pinned.Group.pin_xsync_type_Future := by rfl
theorem pin_xsync_type_Group_ok : Juniper.Gen.PinGroup.pin_xsync_type_Group = Juniper.Pinned.Group.pin_xsync_type_Group := by rfl
theorem pin_xsync_type_Map_ok : Juniper.Gen.PinGroup.pin_xsync_type_Map = Juniper.Pinned.Group.pin_xsync_type_Map := by rfl
theorem pin_xsync_type_Pool_ok : Juniper.Gen.PinGroup.pin_xsync_type_Pool = Juniper.Pinned.Group.pin_xsync_type_Pool := by rfl
theorem pin_xsync_type_Watchable_ok : Juniper.Gen.PinGroup.pin_xsync_type_Watchable = Juniper.Pinned.Group.pin_xsync_type_Watchable := by rfl
theorem pin_xsync_type_watchableInner_ok : Juniper.Gen.PinGroup.pin_xsync_type_watchableInner = Juniper.Pinned.Group.pin_xsync_type_watchableInner := by rfl
theorem pin_xsync_vars_ok : Juniper.Gen.PinGroup.pin_xsync_vars = Juniper.Pinned.Group.pin_xsync_vars := by rfl

end Juniper.Props.PinGroup
