import Juniper.Proofs.StreamMergeMeasure
/-!
# C12 — progress of `stream.Merge` by one measure valid in all states

`Props/C12.lean` proves progress of `stream.Merge` in two special situations, each with its own measure:
after `Close` of the merged stream was requested (`streamMerge_goroutines_finish_after_close`, measure
`nu`) and once every input has ended (`streamMerge_end_iff_all_done`, measure `nu2`); `chans.Merge` has
"decreasing measure plus a terminating internal run" once all inputs are closed. What was missing for
`stream.Merge` is the general case — a `Next` of the consumer pending while inputs are still producing.
This file adds it: `nuU` is strictly decreased by **every** step other than the consumer starting a call
(`cCall`, `cClose`), in every state; hence the library cannot run for ever on its own, a quiescent state
with a pending `Next` is always waiting for a *specific* input whose `Next` is in progress and not
cancelled, and the pending `Next` returns within `nuU ≤ 10·k + 5` steps once those inputs answer.
-/
namespace Juniper.Props.C12Progress
open Juniper.Model Juniper.Model.StreamMerge Juniper.Proofs.StreamMerge
variable {V : Type}

/-- **The measure (stream.Merge).** Every step other than `cCall` / `cClose` strictly decreases `nuU`
— goroutine steps, the consumer's `select` arms, the statements of `Close`, and every return of an
input's `Next` — in every state whose context is the one of the code read on this run (`origin = ctxOrigin`;
the proof re-derives `ctxOrigin = plainCancel` from the regenerated facts: the environment label `ctxEnds`,
"the context ends without `cancel()`", which would not decrease the measure, is dead); in states reachable
from `Merge(in₀,…,in_{k-1})`, `nuU ≤ 10·k + 5`. -/
theorem streamMerge_measure (k : Nat) :
    (∀ (s s' : St V) l, s.origin = ctxOrigin → step s l = some s' → isCall l = false → nuU s' < nuU s) ∧
    (∀ s : St V, Reach (init V k) s → nuU s ≤ 10 * k + 5) :=
  have ho : ctxOrigin = .plainCancel := by decide
  ⟨fun _ _ _ hs h hl => nuU_decreases (hs.trans ho) h hl, fun _ h => nuU_le (reach_invA h) (reach_invD h)⟩

/-- non-vacuity: the measure along a run of a 2-input merge — it falls with every step, including the
inputs' returns, except where the consumer calls `Next` -/
example : (List.range 9).map (fun n => (run (init (Option Int) 2)
      (([.inItem 0 (some 3), .inItem 1 (some 7), .cCall true, .sendOk 1, .inEnd 1, .exitStep 1, .cCall true, .sendOk 0] :
        List (Label (Option Int))).take n)).map nuU)
    = [some 20, some 16, some 12, some 17, some 16, some 11, some 10, some 15, some 14] := by
  decide

/-- **Internal steps terminate (stream.Merge).** From any reachable state every sequence of steps that
contains no new call of the consumer — in particular every sequence of steps from `internalLabels` —
has at most `nuU s ≤ 10·k + 5` elements; there is no infinite run of such steps. -/
theorem streamMerge_internal_steps_terminate (k : Nat) (s : St V) (h : Reach (init V k) s) :
    (∀ ls s', (∀ l ∈ ls, isCall l = false) → run s ls = some s' → ls.length + nuU s' ≤ nuU s ∧ ls.length ≤ 10 * k + 5) ∧
    (∀ l, l ∈ internalLabels s → isCall l = false) ∧
    ¬ ∃ σ : Nat → St V, σ 0 = s ∧ ∀ n, ∃ l, isCall l = false ∧ step (σ n) l = some (σ (n + 1)) := by
  have ho : ctxOrigin = .plainCancel := by decide
  have hso : s.origin = .plainCancel := (reach_invA h).org.trans ho
  have hb := (streamMerge_measure (V := V) k).2 s h
  refine ⟨?_, fun l hl => isCall_of_internal hl, ?_⟩
  · intro ls s' hl hr
    have := run_nuU hso hr hl
    exact ⟨this, by omega⟩
  · rintro ⟨σ, h0, hσ⟩
    have key : ∀ n, (σ n).origin = .plainCancel ∧ n + nuU (σ n) ≤ nuU (σ 0) := by
      intro n
      induction n with
      | zero => exact ⟨h0 ▸ hso, by simp⟩
      | succ n ih =>
        obtain ⟨l, hl, hst⟩ := hσ n
        have := nuU_decreases ih.1 hst hl
        exact ⟨(step_origin hst).trans ih.1, by omega⟩
    have key : ∀ n, n + nuU (σ n) ≤ nuU (σ 0) := fun n => (key n).2
    have := key (nuU (σ 0) + 1)
    omega

/-- non-vacuity: two goroutines each holding an item, the consumer inside `Next`: hand-over, then the
other input ends and its goroutine runs its five deferred steps — 7 steps in a row, measure 17 → 6 -/
example : ∃ s s' : St (Option Int), Reach (init (Option Int) 2) s ∧
    run s [.sendOk 1, .inEnd 1, .exitStep 1, .exitStep 1, .exitStep 1, .exitStep 1, .exitStep 1] = some s' ∧
    nuU s = 17 ∧ nuU s' = 6 :=
  ⟨_, _, reach_of_run [.inItem 0 (some 3), .inItem 1 (some 7), .cCall true] .refl rfl, rfl, by decide, by decide⟩

/-- **A pending `Next` never waits on the library (stream.Merge).** In every reachable state in which
the consumer is inside `Next` and no step needing no further input is enabled (`internalLabels`: the
goroutines' steps, the consumer's arms, an input honouring a cancelled context), some input's `Next` is in
progress, the shared context has not been cancelled — the environment owes that return — and that context
cannot end on its own however long the input stays silent (`ctxEnds` is not enabled: `ctxOrigin = plainCancel`,
re-derived here from the regenerated facts), so the waiting `Next` neither fails nor ends while inputs are
idle. (With `Close` pending there is no quiescent state short of its return:
`streamMerge_goroutines_finish_after_close`.) -/
theorem streamMerge_quiescent_next_served (k : Nat) (s : St V) (h : Reach (init V k) s) (live : Bool)
    (hc : s.cpc = .inNext live) (hq : QuiescentM s) :
    (∃ (i : Nat) (g : G V), s.gs[i]? = some g ∧ g.pc = GPc.next ∧ s.cancelled = false) ∧
    step s .ctxEnds = none := by
  have ho : ctxOrigin = .plainCancel := by decide
  refine ⟨quiescent_next_waits_for_input (reach_invA h) (reach_invC h) (reach_invL h) hc hq, ?_⟩
  cases hs : step s .ctxEnds with
  | none => rfl
  | some s' => exact (no_ctxEnds ((reach_invA h).org.trans ho) hs).elim

/-- non-vacuity: input 1 has ended and its goroutine finished, the consumer waits in `Next`, nothing
internal is enabled: input 0's `Next` is what is owed -/
example : ∃ s : St (Option Int), Reach (init (Option Int) 2) s ∧ s.cpc = .inNext true ∧
    (∀ l ∈ internalLabels s, step s l = none) ∧ s.gs.map (·.pc) = [.next, .finished] :=
  ⟨_, reach_of_run [.inEnd 1, .exitStep 1, .exitStep 1, .exitStep 1, .exitStep 1, .exitStep 1, .cCall true] .refl rfl,
    rfl, by decide, by decide⟩

/-- **`Next` of the merged stream returns.** For a reachable state inside `Next`: (1) every continuation
without a new consumer call — goroutine steps and input returns in any order — has at most
`nuU s ≤ 10·k + 5` steps, the call being still pending or having returned exactly one result; (2) a
continuation ending where nothing internal is enabled and no input's `Next` is in progress has returned;
(3) a continuation to the return exists. So `Next` returns within `nuU s` steps of the whole system,
provided the inputs' pending `Next` calls return. -/
theorem streamMerge_next_terminates (k : Nat) (s : St V) (h : Reach (init V k) s) (live : Bool)
    (hc : s.cpc = .inNext live) :
    (∀ ls s', (∀ l ∈ ls, isCall l = false) → run s ls = some s' →
      ls.length + nuU s' ≤ nuU s ∧ NextOutcome s s') ∧
    nuU s ≤ 10 * k + 5 ∧
    (∀ ls s', (∀ l ∈ ls, isCall l = false) → run s ls = some s' → QuiescentM s' →
      (∀ g, g ∈ s'.gs → g.pc ≠ .next) → s'.cpc = .idle ∧ ∃ r, s'.results = s.results ++ [r]) ∧
    (∃ ls s', (∀ l ∈ ls, isCall l = false) ∧ run s ls = some s' ∧ ls.length ≤ nuU s ∧
      s'.cpc = .idle ∧ ∃ r, s'.results = s.results ++ [r]) := by
  have ho : ctxOrigin = .plainCancel := by decide
  have hso : s.origin = .plainCancel := (reach_invA h).org.trans ho
  have h0 : NextOutcome s s := Or.inl ⟨⟨live, hc⟩, rfl⟩
  refine ⟨?_, (streamMerge_measure (V := V) k).2 s h, ?_, ?_⟩
  · intro ls s' hl hr
    exact ⟨run_nuU hso hr hl, nextOutcome_run h0 hl hr⟩
  · intro ls s' hl hr hq hnone
    rcases nextOutcome_run h0 hl hr with ⟨⟨live', hp⟩, _⟩ | hret
    · exfalso
      have hr' := reach_of_run ls h hr
      obtain ⟨i, g, hg, hp', _⟩ := quiescent_next_waits_for_input (reach_invA hr') (reach_invC hr') (reach_invL hr') hp hq
      exact hnone g (List.mem_of_getElem? hg) hp'
    · exact hret
  · obtain ⟨ls, s', h1, h2, h3⟩ := exists_next_run ho s (nuU s) s h h0 (Nat.le_refl _)
    have := run_nuU hso h2 h1
    exact ⟨ls, s', h1, h2, by omega, h3⟩

/-- non-vacuity: the consumer waits in `Next` with both inputs silent; input 1 returns an item and the
hand-over ends the `Next` -/
example : ∃ s s' : St (Option Int), Reach (init (Option Int) 2) s ∧ s.cpc = .inNext true ∧ nuU s = 25 ∧
    run s [.inItem 1 (some 7), .sendOk 1] = some s' ∧ s'.cpc = .idle ∧ s'.results = s.results ++ [.item 1 (some 7)] :=
  ⟨_, _, reach_of_run [.cCall true] .refl rfl, rfl, by decide, rfl, rfl, rfl⟩

end Juniper.Props.C12Progress
