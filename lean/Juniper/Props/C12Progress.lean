import Juniper.Proofs.StreamMergeMeasure
import Juniper.Proofs.MergeProgress
import Juniper.Model.Skeleton
import Juniper.Generated.Skeleton
/-!
# C12 — progress: `stream.Merge` by one measure valid in all states; `chans.Merge` / `chans.Replicate`
# keep forwarding before everything is delivered

Second half of this file (sections `chansMerge`, `replicate`): `Props/C12.lean` proves for `chans.Merge` and
`chans.Replicate` conservation (safety) and "returns once every input is closed and everything was delivered"
(progress from `AllDone`). Nothing there says that they *move* values before that point. Added here, for
every arity / number of destinations, every reachable state: a receivable value can be received and is then
the next value delivered; a closed and drained input can be seen closed; every step of Merge / Replicate and
of their consumers strictly decreases a measure that only the producers' sends raise; and when no step of
Merge / Replicate is enabled they have returned, or are parked at an output channel waiting for its receiver,
or every input they listen to is open and empty. Who must act is named in each statement: `recv` / `exit` are
steps of the goroutine itself; `deliver` is a rendez-vous on an unbuffered output and needs its receiver;
`envSend` / `envClose` are the producers'. No fairness is asserted: these are enabledness + measure theorems.
The arm tables (`Gen.Merge.merge2Clauses` … through `Proofs.MergeChans.good`) and the control skeletons are
the regenerated facts the safety theorems depend on.

First half:

`Props/C12.lean` proves progress of `stream.Merge` in two special situations, each with its own measure:
after `Close` of the merged stream was requested (`streamMerge_goroutines_finish_after_close`, measure
`nu`) and once every input has ended (`streamMerge_end_iff_all_done`, measure `nu2`); `chans.Merge` has
"decreasing measure plus a terminating internal run" once all inputs are closed. What was missing for
`stream.Merge` is the general case — a `Next` of the consumer pending while inputs are still producing.
This file adds it: `nuU` is strictly decreased by **every** step other than the consumer starting a call
(`cCall`, `cClose`), in every state; hence the library cannot run for ever on its own, a quiescent state
with a pending `Next` is always waiting for a *specific* input whose `Next` is in progress and not
cancelled, and the pending `Next` returns within `nuU ≤ 10·k + 6` steps once those inputs answer.
-/
namespace Juniper.Props.C12Progress
open Juniper.Model

section streamMerge
open Juniper.Model.StreamMerge Juniper.Proofs.StreamMerge
variable {V : Type}

/-- **The measure (stream.Merge).** Every step other than `cCall` / `cClose` strictly decreases `nuU`
— goroutine steps, the consumer's `select` arms, the expiry of the consumer's context while its `Next` is
pending (`cExpire`), the statements of `Close`, and every return of an
input's `Next` — in every state whose context is the one of the code read on this run (`origin = ctxOrigin`;
the proof re-derives `ctxOrigin = plainCancel` from the regenerated facts: the environment label `ctxEnds`,
"the context ends without `cancel()`", which would not decrease the measure, is dead); in states reachable
from `Merge(in₀,…,in_{k-1})`, `nuU ≤ 10·k + 6`. -/
theorem streamMerge_measure (k : Nat) :
    (∀ (s s' : St V) l, s.origin = ctxOrigin → step s l = some s' → isCall l = false → nuU s' < nuU s) ∧
    (∀ s : St V, Reach (init V k) s → nuU s ≤ 10 * k + 6) :=
  have ho : ctxOrigin = .plainCancel := by decide
  ⟨fun _ _ _ hs h hl => nuU_decreases (hs.trans ho) h hl, fun _ h => nuU_le (reach_invA h) (reach_invD h)⟩

/-- non-vacuity: the measure along a run of a 2-input merge — it falls with every step, including the
inputs' returns, except where the consumer calls `Next` -/
example : (List.range 9).map (fun n => (run (init (Option Int) 2)
      (([.inItem 0 (some 3), .inItem 1 (some 7), .cCall true, .sendOk 1, .inEnd 1, .exitStep 1, .cCall true, .sendOk 0] :
        List (Label (Option Int))).take n)).map nuU)
    = [some 20, some 16, some 12, some 18, some 16, some 11, some 10, some 16, some 14] := by
  decide

/-- **Internal steps terminate (stream.Merge).** From any reachable state every sequence of steps that
contains no new call of the consumer — in particular every sequence of steps from `internalLabels` —
has at most `nuU s ≤ 10·k + 6` elements; there is no infinite run of such steps. -/
theorem streamMerge_internal_steps_terminate (k : Nat) (s : St V) (h : Reach (init V k) s) :
    (∀ ls s', (∀ l ∈ ls, isCall l = false) → run s ls = some s' → ls.length + nuU s' ≤ nuU s ∧ ls.length ≤ 10 * k + 6) ∧
    (∀ l, l ∈ internalLabels s → isCall l = false) ∧
    ¬ ∃ σ : Nat → St V, σ 0 = s ∧ ∀ n, ∃ l, isCall l = false ∧ step (σ n) l = some (σ (n + 1)) := by
  have ho : ctxOrigin = .plainCancel := by decide
  have hso : s.origin = .plainCancel := (reach_invA h).org.trans ho
  have hb := (streamMerge_measure (V := V) k).2 s h
  refine ⟨?_, fun l hl => isCall_of_internal hl, ?_⟩
  · intro ls s' hl hr
    have := run_nuU hso hr hl
    exact ⟨this, by omega⟩
  · rintro ⟨σ, h0, hσ⟩
    have key : ∀ n, (σ n).origin = .plainCancel ∧ n + nuU (σ n) ≤ nuU (σ 0) := by
      intro n
      induction n with
      | zero => exact ⟨h0 ▸ hso, by simp⟩
      | succ n ih =>
        obtain ⟨l, hl, hst⟩ := hσ n
        have := nuU_decreases ih.1 hst hl
        exact ⟨(step_origin hst).trans ih.1, by omega⟩
    have key : ∀ n, n + nuU (σ n) ≤ nuU (σ 0) := fun n => (key n).2
    have := key (nuU (σ 0) + 1)
    omega

/-- non-vacuity: two goroutines each holding an item, the consumer inside `Next`: hand-over, then the
other input ends and its goroutine runs its five deferred steps — 7 steps in a row, measure 18 → 6 -/
example : ∃ s s' : St (Option Int), Reach (init (Option Int) 2) s ∧
    run s [.sendOk 1, .inEnd 1, .exitStep 1, .exitStep 1, .exitStep 1, .exitStep 1, .exitStep 1] = some s' ∧
    nuU s = 18 ∧ nuU s' = 6 :=
  ⟨_, _, reach_of_run [.inItem 0 (some 3), .inItem 1 (some 7), .cCall true] .refl rfl, rfl, by decide, by decide⟩

/-- **A pending `Next` never waits on the library (stream.Merge).** In every reachable state in which
the consumer is inside `Next` and no step needing no further input is enabled (`internalLabels`: the
goroutines' steps, the consumer's arms, an input honouring a cancelled context), some input's `Next` is in
progress, the shared context has not been cancelled — the environment owes that return — and that context
cannot end on its own however long the input stays silent (`ctxEnds` is not enabled: `ctxOrigin = plainCancel`,
re-derived here from the regenerated facts), so the waiting `Next` neither fails nor ends while inputs are
idle. (With `Close` pending there is no quiescent state short of its return:
`streamMerge_goroutines_finish_after_close`.) -/
theorem streamMerge_quiescent_next_served (k : Nat) (s : St V) (h : Reach (init V k) s) (live : Bool)
    (hc : s.cpc = .inNext live) (hq : QuiescentM s) :
    (∃ (i : Nat) (g : G V), s.gs[i]? = some g ∧ g.pc = GPc.next ∧ s.cancelled = false) ∧
    step s .ctxEnds = none := by
  have ho : ctxOrigin = .plainCancel := by decide
  refine ⟨quiescent_next_waits_for_input (reach_invA h) (reach_invC h) (reach_invL h) hc hq, ?_⟩
  cases hs : step s .ctxEnds with
  | none => rfl
  | some s' => exact (no_ctxEnds ((reach_invA h).org.trans ho) hs).elim

/-- non-vacuity: input 1 has ended and its goroutine finished, the consumer waits in `Next`, nothing
internal is enabled: input 0's `Next` is what is owed -/
example : ∃ s : St (Option Int), Reach (init (Option Int) 2) s ∧ s.cpc = .inNext true ∧
    (∀ l ∈ internalLabels s, step s l = none) ∧ s.gs.map (·.pc) = [.next, .finished] :=
  ⟨_, reach_of_run [.inEnd 1, .exitStep 1, .exitStep 1, .exitStep 1, .exitStep 1, .exitStep 1, .cCall true] .refl rfl,
    rfl, by decide, by decide⟩

/-- **`Next` of the merged stream returns.** For a reachable state inside `Next`: (1) every continuation
without a new consumer call — goroutine steps and input returns in any order — has at most
`nuU s ≤ 10·k + 6` steps, the call being still pending or having returned exactly one result; (2) a
continuation ending where nothing internal is enabled and no input's `Next` is in progress has returned;
(3) a continuation to the return exists. So `Next` returns within `nuU s` steps of the whole system,
provided the inputs' pending `Next` calls return. -/
theorem streamMerge_next_terminates (k : Nat) (s : St V) (h : Reach (init V k) s) (live : Bool)
    (hc : s.cpc = .inNext live) :
    (∀ ls s', (∀ l ∈ ls, isCall l = false) → run s ls = some s' →
      ls.length + nuU s' ≤ nuU s ∧ NextOutcome s s') ∧
    nuU s ≤ 10 * k + 6 ∧
    (∀ ls s', (∀ l ∈ ls, isCall l = false) → run s ls = some s' → QuiescentM s' →
      (∀ g, g ∈ s'.gs → g.pc ≠ .next) → s'.cpc = .idle ∧ ∃ r, s'.results = s.results ++ [r]) ∧
    (∃ ls s', (∀ l ∈ ls, isCall l = false) ∧ run s ls = some s' ∧ ls.length ≤ nuU s ∧
      s'.cpc = .idle ∧ ∃ r, s'.results = s.results ++ [r]) := by
  have ho : ctxOrigin = .plainCancel := by decide
  have hso : s.origin = .plainCancel := (reach_invA h).org.trans ho
  have h0 : NextOutcome s s := Or.inl ⟨⟨live, hc⟩, rfl⟩
  refine ⟨?_, (streamMerge_measure (V := V) k).2 s h, ?_, ?_⟩
  · intro ls s' hl hr
    exact ⟨run_nuU hso hr hl, nextOutcome_run h0 hl hr⟩
  · intro ls s' hl hr hq hnone
    rcases nextOutcome_run h0 hl hr with ⟨⟨live', hp⟩, _⟩ | hret
    · exfalso
      have hr' := reach_of_run ls h hr
      obtain ⟨i, g, hg, hp', _⟩ := quiescent_next_waits_for_input (reach_invA hr') (reach_invC hr') (reach_invL hr') hp hq
      exact hnone g (List.mem_of_getElem? hg) hp'
    · exact hret
  · obtain ⟨ls, s', h1, h2, h3⟩ := exists_next_run ho s (nuU s) s h h0 (Nat.le_refl _)
    have := run_nuU hso h2 h1
    exact ⟨ls, s', h1, h2, by omega, h3⟩

/-- non-vacuity: the consumer waits in `Next` with both inputs silent; input 1 returns an item and the
hand-over ends the `Next` -/
example : ∃ s s' : St (Option Int), Reach (init (Option Int) 2) s ∧ s.cpc = .inNext true ∧ nuU s = 26 ∧
    run s [.inItem 1 (some 7), .sendOk 1] = some s' ∧ s'.cpc = .idle ∧ s'.results = s.results ++ [.item 1 (some 7)] :=
  ⟨_, _, reach_of_run [.cCall true] .refl rfl, rfl, by decide, rfl, rfl, rfl⟩

end streamMerge

section chansMerge
variable {V : Type} [Merge.HasNil V]
open Juniper.Model.Merge Juniper.Proofs.MergeChans

/-- **chans.Merge takes what is offered.** For every arity (each of the four code paths), in every reachable
state in which Merge is at its receive / `select` / `reflect.Select` (`pc = top`): (1) if a value is
receivable on input `i`, Merge's receive on `i` is enabled and Merge then holds exactly the oldest such value
for `out` — in particular `i` is still listened to; (2) if input `i` is closed and drained and still listened
to, the receive on `i` is enabled and observes the close: `i` is no longer listened to, nothing else changes,
Merge is back at the `select` or has returned. Both are steps of Merge alone (no other party has to act).
First conjunct: the code paths have the control flow the LTS hard-wires (regenerated skeletons); the arms'
behaviour is the regenerated `Gen.Merge` tables (through `good`). -/
theorem merge_offers (n : Nat) (s : St V) (h : Reach (init V n) s) (hp : s.pc = .top)
    (i : Nat) (c : Chan V) (hc : s.ins[i]? = some c) :
    (Gen.Skeleton.chansMerge = Model.Skeleton.chansMerge ∧ Gen.Skeleton.merge2 = Model.Skeleton.merge2 ∧
      Gen.Skeleton.merge3 = Model.Skeleton.merge3) ∧
    (∀ v rest, c.avail = v :: rest →
      step s (.recv i) = some { s with ins := s.ins.set i { c with avail := rest }, pc := .hold i v }) ∧
    (c.avail = [] → c.closed = true → i ∈ s.live →
      ∃ s', step s (.recv i) = some s' ∧ s'.live = s.live.erase i ∧ (s'.pc = .top ∨ s'.pc = .done) ∧
        s'.ins = s.ins ∧ s'.out = s.out) :=
  have hi := reach_inv h
  ⟨⟨by decide, by decide, by decide⟩, fun _ _ hav => recv_value_enabled (good n) hi hp hc hav,
   fun hav hcl hil => recv_close_enabled (good n) hi hp hc hav hcl hil⟩

/-- three inputs (`merge3`): input 1 has two values queued and is closed, input 0 is closed and empty; the
receive on 1 takes the older value; the receive on 0 sees the close -/
example : ∃ s : St (Option Int), Reach (init (Option Int) 3) s ∧ s.pc = .top ∧
    (∃ s', step s (.recv 1) = some s' ∧ s'.pc = .hold 1 (some 5)) ∧
    (∃ s', step s (.recv 0) = some s' ∧ s'.live = [1, 2] ∧ s'.pc = .top) :=
  ⟨_, reach_of_run [.envSend 1 (some 5), .envSend 1 (some 6), .envClose 1, .envClose 0] .refl rfl, rfl,
    ⟨_, rfl, by decide⟩, ⟨_, rfl, by decide, by decide⟩⟩

/-- **A value received is the next value delivered (chans.Merge).** In any state in which Merge holds value
`v` of input `i` (blocked in `out <- item`): the hand-off `deliver` is enabled — it is a rendez-vous on `out`,
so it is the *consumer of `out`* who must act — and appends exactly `(i, v)` to the output; no other step of
Merge is enabled (no further receive, no return), so nothing can overtake `v` and Merge receives at most one
value ahead of its consumer. -/
theorem merge_forwards_what_it_received (s : St V) (i : Nat) (v : V) (hp : s.pc = .hold i v) :
    step s .deliver = some { s with out := s.out ++ [(i, v)], pc := .top } ∧
    (∀ j, step s (.recv j) = none) ∧ step s .exit = none :=
  hold_only_deliver hp

example : ∃ s s' : St (Option Int), Reach (init (Option Int) 4) s ∧ s.pc = .hold 2 none ∧
    step s (.recv 0) = none ∧ step s .deliver = some s' ∧ s'.out = [(2, none)] ∧ s'.pc = .top :=
  ⟨_, _, reach_of_run [.envSend 2 none, .envSend 0 (some 5), .recv 2] .refl rfl, rfl, rfl, rfl, rfl, rfl⟩

/-- **The measure before everything is delivered (chans.Merge).** `muPre = 2·(values receivable on the
inputs) + (inputs still listened to) + (2 holding a value | 1 at the select | 0 returned)`. In every reachable
state, for every arity: every step of Merge (`recv`: a value or a close observation; `exit`) and of its
consumer (`deliver`) strictly decreases `muPre`; a producer's `envSend` raises it by exactly 2 and `envClose`
leaves it unchanged. Hence between two actions of the producers at most `muPre s` steps happen (every run
without `envSend`/`envClose` has at most `muPre s` steps): Merge cannot spin, and each received value is
handed over before the next receive (`merge_forwards_what_it_received`). -/
theorem merge_measure (n : Nat) (s : St V) (h : Reach (init V n) s) :
    (∀ l s', step s l = some s' →
      (isEnvInput l = false → muPre s' < muPre s) ∧
      (∀ i v, l = .envSend i v → muPre s' = muPre s + 2) ∧ (∀ i, l = .envClose i → muPre s' = muPre s)) ∧
    (∀ ls s', run s ls = some s' → (∀ l ∈ ls, isEnvInput l = false) → ls.length + muPre s' ≤ muPre s) :=
  have hi := reach_inv h
  ⟨fun _ _ hs => muPre_step (good n) hi hs, fun ls _ hr hl => run_muPre (good n) ls hi hr hl⟩

/-- the measure along a run of a 2-input merge: +2 per send, unchanged by a close, −1 per step of Merge /
of the consumer -/
example : (List.range 9).map (fun k => (run (init (Option Int) 2)
      (([.envSend 0 (some 1), .envSend 1 (some 2), .recv 1, .envClose 0, .deliver, .recv 0, .deliver, .recv 0] :
        List (Label (Option Int))).take k)).map muPre)
    = [some 3, some 5, some 7, some 6, some 6, some 5, some 4, some 3, some 2] := by
  decide

/-- **chans.Merge is never stuck while an input has a value and the consumer is willing.** In every reachable
state, for every arity: if no step of Merge itself is enabled (no `recv i`, no `exit`) and Merge has not
returned, then either Merge is parked in `out <- item` holding a value — the consumer of `out` must act, and
`deliver` is then enabled (`merge_forwards_what_it_received`) —, or Merge is at the `select`, still listens
to at least one input, every input it listens to is open and has nothing receivable, and no other input has
anything receivable either — the producers must act. -/
theorem merge_quiescent_waits_for_environment (n : Nat) (s : St V) (h : Reach (init V n) s)
    (hnd : s.pc ≠ .done) (hq : QuiescentOwn s) :
    (∃ i v, s.pc = .hold i v) ∨
    (s.pc = .top ∧ s.live ≠ [] ∧
      (∀ i, i ∈ s.live → ∃ c, s.ins[i]? = some c ∧ c.avail = [] ∧ c.closed = false) ∧
      (∀ (i : Nat) (c : Chan V), s.ins[i]? = some c → c.avail = [])) :=
  quiescent_cases (good n) (reach_inv h) hnd hq

/-- five inputs (reflect path), two of them seen closed, one value delivered: nothing of Merge is enabled, the
three remaining inputs are open and empty -/
example : ∃ s : St (Option Int), Reach (init (Option Int) 5) s ∧ s.pc = .top ∧ s.live = [0, 2, 4] ∧
    (∀ i < 5, step s (.recv i) = none) ∧ step s .exit = none :=
  ⟨_, reach_of_run [.envClose 1, .envSend 3 (some 9), .envClose 3, .recv 1, .recv 3, .deliver, .recv 3] .refl rfl,
    rfl, by decide, by decide, by decide⟩

end chansMerge

section replicate
variable {V : Type}
open Juniper.Model.Merge Juniper.Proofs.Replicate

/-- **chans.Replicate takes what is offered and hands it to every destination in order.** For every number of
destinations `m`, every reachable state: (1) at `range src` with a receivable value, the receive is enabled and
Replicate starts handing the oldest value to destination 0 (with no destination it just consumes it); at
`range src` with `src` closed and drained, the receive is enabled and Replicate returns; (2) while handing `v`
to destination `j`, the hand-off `deliver` is enabled — a rendez-vous: *destination `j`'s receiver* must act —,
appends `v` to what `j` received and moves on to `j + 1` (or back to `range src`), and no receive from `src`
is enabled: nothing overtakes `v`; (3) so `m - j` hand-offs, to destinations `j, …, m-1` in this order, give `v`
to each of them, change nothing else, and bring Replicate back to `range src`. First conjunct: Replicate is
the two nested `range` loops around one send (regenerated skeleton); `src` / `dsts` / the send are the
regenerated `Gen.Merge.repl*` facts. -/
theorem replicate_offers (m : Nat) (s : RSt V) (h : RReach (rinit V m) s) :
    Gen.Skeleton.replicate = Model.Skeleton.replicate ∧
    (s.pc = .top → ∀ v rest, s.src.avail = v :: rest →
      rstep s .recv = some (if 0 < s.m then { s with src := { s.src with avail := rest }, pc := .sending v 0 }
                            else { s with src := { s.src with avail := rest } })) ∧
    (s.pc = .top → s.src.avail = [] → s.src.closed = true → rstep s .recv = some { s with pc := .done }) ∧
    (∀ v j, s.pc = .sending v j →
      (∃ o, s.outs[j]? = some o ∧
        rstep s .deliver = some { s with outs := s.outs.set j (o ++ [v]), pc := rAfter s.m v j }) ∧
      rstep s .recv = none ∧
      ∃ s', rrun s (List.replicate (m - j) .deliver) = some s' ∧ s'.pc = .top ∧ s'.src = s.src ∧
        s'.outs.length = s.outs.length ∧
        ∀ (j' : Nat) (o : List V), s.outs[j']? = some o → s'.outs[j']? = some (if j ≤ j' then o ++ [v] else o)) := by
  have hi := rreach_inv h
  refine ⟨by decide, fun hp _ _ hav => rrecv_value_enabled hp hav, fun hp hav hcl => rrecv_close_enabled hp hav hcl, ?_⟩
  intro v j hp
  obtain ⟨h1, h2⟩ := sending_only_deliver hi hp
  exact ⟨h1, h2, fanout (m - j) s v j hi hp rfl⟩

/-- three destinations, destination 0 already has the value 7: two more hand-offs complete the fan-out -/
example : ∃ s s' : RSt (Option Int), RReach (rinit (Option Int) 3) s ∧ s.pc = .sending (some 7) 1 ∧
    rrun s [.deliver, .deliver] = some s' ∧ s'.pc = .top ∧ s'.outs = [[some 7], [some 7], [some 7]] :=
  ⟨_, _, rreach_of_run [.envSend (some 7), .recv, .deliver] .refl rfl, rfl, rfl, rfl, by decide⟩

/-- **The measure (chans.Replicate).** `rmu = (m+1)·(values receivable on src) + (hand-offs still owed of the
value being fanned out, +1) `. In every reachable state: every step of Replicate (`recv`) and of the
destinations (`deliver`) strictly decreases `rmu`; the producer's `envSend` raises it by exactly `m + 1`,
`envClose` leaves it unchanged; hence every run without `envSend`/`envClose` has at most `rmu s` steps. -/
theorem replicate_measure (m : Nat) (s : RSt V) (h : RReach (rinit V m) s) :
    (∀ l s', rstep s l = some s' →
      (rIsEnvInput l = false → rmu s' < rmu s) ∧
      (∀ v, l = .envSend v → rmu s' = rmu s + (m + 1)) ∧ (l = .envClose → rmu s' = rmu s)) ∧
    (∀ ls s', rrun s ls = some s' → (∀ l ∈ ls, rIsEnvInput l = false) → ls.length + rmu s' ≤ rmu s) :=
  have hi := rreach_inv h
  ⟨fun _ _ hs => rmu_step hi hs, fun ls _ hr hl => rrun_rmu ls hi hr hl⟩

example : (List.range 8).map (fun k => (rrun (rinit (Option Int) 2)
      (([.envSend (some 7), .recv, .envSend none, .deliver, .deliver, .envClose, .recv] :
        List (RLabel (Option Int))).take k)).map rmu)
    = [some 1, some 4, some 3, some 6, some 5, some 4, some 4, some 3] := by
  decide

/-- **chans.Replicate is never stuck while the source has a value and the destinations are willing.** In every
reachable state: if Replicate's receive is not enabled and it has not returned, then either it is parked in
`dst <- item` for a destination `j < m` — that destination's receiver must act, and `deliver` is then enabled
(`replicate_offers`) —, or it is at `range src` and `src` is open and empty — the producer must act. -/
theorem replicate_quiescent_waits_for_environment (m : Nat) (s : RSt V) (h : RReach (rinit V m) s)
    (hnd : s.pc ≠ .done) (hq : rstep s .recv = none) :
    (∃ v j, s.pc = .sending v j ∧ j < m) ∨ (s.pc = .top ∧ s.src.avail = [] ∧ s.src.closed = false) :=
  rquiescent_cases (rreach_inv h) hnd hq

/-- destination 0 does not take: the second value of the source stays receivable but is not received -/
example : ∃ s : RSt (Option Int), RReach (rinit (Option Int) 2) s ∧ s.pc = .sending (some 7) 0 ∧
    s.src.avail = [none] ∧ rstep s .recv = none :=
  ⟨_, rreach_of_run [.envSend (some 7), .recv, .envSend none] .refl rfl, rfl, rfl, rfl⟩

end replicate

end Juniper.Props.C12Progress
