-- Tie theorems of the pins (written by `gofacts -pin` together with Juniper/Pinned/Heap.lean; see notes/pins.md).
-- Each says: the declaration gofacts reads from the tree under check today is, up to the names of its locals,
-- the one the author of the model saw. `rfl` on two literals: kernel-checked, no axioms.
import Juniper.Generated.PinHeap
import Juniper.Pinned.Heap

namespace Juniper.Props.PinHeap

theorem pin_container_xheap_Heap_Grow_ok : Juniper.Gen.PinHeap.pin_container_xheap_Heap_Grow = Juniper.Pinned.Heap.pin_container_xheap_Heap_Grow := by rfl
theorem pin_container_xheap_Heap_Iterate_ok : Juniper.Gen.PinHeap.pin_container_xheap_Heap_Iterate = Juniper.Pinned.Heap.pin_container_xheap_Heap_Iterate := by rfl
theorem pin_container_xheap_Heap_Len_ok : Juniper.Gen.PinHeap.pin_container_xheap_Heap_Len = Juniper.Pinned.Heap.pin_container_xheap_Heap_Len := by rfl
theorem pin_container_xheap_Heap_Peek_ok : Juniper.Gen.PinHeap.pin_container_xheap_Heap_Peek = Juniper.Pinned.Heap.pin_container_xheap_Heap_Peek := by rfl
theorem pin_container_xheap_Heap_Pop_ok : Juniper.Gen.PinHeap.pin_container_xheap_Heap_Pop = Juniper.Pinned.Heap.pin_container_xheap_Heap_Pop := by rfl
theorem pin_container_xheap_Heap_Push_ok : Juniper.Gen.PinHeap.pin_container_xheap_Heap_Push = Juniper.Pinned.Heap.pin_container_xheap_Heap_Push := by rfl
theorem pin_container_xheap_Heap_Shrink_ok : Juniper.Gen.PinHeap.pin_container_xheap_Heap_Shrink = Juniper.Pinned.Heap.pin_container_xheap_Heap_Shrink := by rfl
theorem pin_container_xheap_New_ok : Juniper.Gen.PinHeap.pin_container_xheap_New = Juniper.Pinned.Heap.pin_container_xheap_New := by rfl
theorem pin_container_xheap_NewCmp_ok : Juniper.Gen.PinHeap.pin_container_xheap_NewCmp = Juniper.Pinned.Heap.pin_container_xheap_NewCmp := by rfl
theorem pin_container_xheap_NewPriorityQueue_ok : Juniper.Gen.PinHeap.pin_container_xheap_NewPriorityQueue = Juniper.Pinned.Heap.pin_container_xheap_NewPriorityQueue := by rfl
theorem pin_container_xheap_NewPriorityQueueCmp_ok : Juniper.Gen.PinHeap.pin_container_xheap_NewPriorityQueueCmp = Juniper.Pinned.Heap.pin_container_xheap_NewPriorityQueueCmp := by rfl
theorem pin_container_xheap_PriorityQueue_Contains_ok : Juniper.Gen.PinHeap.pin_container_xheap_PriorityQueue_Contains = Juniper.Pinned.Heap.pin_container_xheap_PriorityQueue_Contains := by rfl
theorem pin_container_xheap_PriorityQueue_Iterate_ok : Juniper.Gen.PinHeap.pin_container_xheap_PriorityQueue_Iterate = Juniper.Pinned.Heap.pin_container_xheap_PriorityQueue_Iterate := by rfl
theorem pin_container_xheap_PriorityQueue_Len_ok : Juniper.Gen.PinHeap.pin_container_xheap_PriorityQueue_Len = Juniper.Pinned.Heap.pin_container_xheap_PriorityQueue_Len := by rfl
theorem pin_container_xheap_PriorityQueue_Peek_ok : Juniper.Gen.PinHeap.pin_container_xheap_PriorityQueue_Peek = Juniper.Pinned.Heap.pin_container_xheap_PriorityQueue_Peek := by rfl
theorem pin_container_xheap_PriorityQueue_Pop_ok : Juniper.Gen.PinHeap.pin_container_xheap_PriorityQueue_Pop = Juniper.Pinned.Heap.pin_container_xheap_PriorityQueue_Pop := by rfl
theorem pin_container_xheap_PriorityQueue_Priority_ok : Juniper.Gen.PinHeap.pin_container_xheap_PriorityQueue_Priority = Juniper.Pinned.Heap.pin_container_xheap_PriorityQueue_Priority := by rfl
theorem pin_container_xheap_PriorityQueue_Remove_ok : Juniper.Gen.PinHeap.pin_container_xheap_PriorityQueue_Remove = Juniper.Pinned.Heap.pin_container_xheap_PriorityQueue_Remove := by rfl
theorem pin_container_xheap_PriorityQueue_Update_ok : Juniper.Gen.PinHeap.pin_container_xheap_PriorityQueue_Update = Juniper.Pinned.Heap.pin_container_xheap_PriorityQueue_Update := by rfl
theorem pin_internal_heap_Heap_Grow_ok : Juniper.Gen.PinHeap.pin_internal_heap_Heap_Grow = Juniper.Pinned.Heap.pin_internal_heap_Heap_Grow := by rfl
theorem pin_internal_heap_Heap_Item_ok : Juniper.Gen.PinHeap.pin_internal_heap_Heap_Item = Juniper.Pinned.Heap.pin_internal_heap_Heap_Item := by rfl
theorem pin_internal_heap_Heap_Iterate_ok : Juniper.Gen.PinHeap.pin_internal_heap_Heap_Iterate = Juniper.Pinned.Heap.pin_internal_heap_Heap_Iterate := by rfl
theorem pin_internal_heap_Heap_Len_ok : Juniper.Gen.PinHeap.pin_internal_heap_Heap_Len = Juniper.Pinned.Heap.pin_internal_heap_Heap_Len := by rfl
theorem pin_internal_heap_Heap_Peek_ok : Juniper.Gen.PinHeap.pin_internal_heap_Heap_Peek = Juniper.Pinned.Heap.pin_internal_heap_Heap_Peek := by rfl
theorem pin_internal_heap_Heap_Pop_ok : Juniper.Gen.PinHeap.pin_internal_heap_Heap_Pop = Juniper.Pinned.Heap.pin_internal_heap_Heap_Pop := by rfl
theorem pin_internal_heap_Heap_Push_ok : Juniper.Gen.PinHeap.pin_internal_heap_Heap_Push = Juniper.Pinned.Heap.pin_internal_heap_Heap_Push := by rfl
theorem pin_internal_heap_Heap_RemoveAt_ok : Juniper.Gen.PinHeap.pin_internal_heap_Heap_RemoveAt = Juniper.Pinned.Heap.pin_internal_heap_Heap_RemoveAt := by rfl
theorem pin_internal_heap_Heap_Shrink_ok : Juniper.Gen.PinHeap.pin_internal_heap_Heap_Shrink = Juniper.Pinned.Heap.pin_internal_heap_Heap_Shrink := by rfl
theorem pin_internal_heap_Heap_UpdateAt_ok : Juniper.Gen.PinHeap.pin_internal_heap_Heap_UpdateAt = Juniper.Pinned.Heap.pin_internal_heap_Heap_UpdateAt := by rfl
theorem pin_internal_heap_Heap_less_ok : Juniper.Gen.PinHeap.pin_internal_heap_Heap_less = Juniper.Pinned.Heap.pin_internal_heap_Heap_less := by rfl
theorem pin_internal_heap_Heap_notifyIndexChanged_ok : Juniper.Gen.PinHeap.pin_internal_heap_Heap_notifyIndexChanged = Juniper.Pinned.Heap.pin_internal_heap_Heap_notifyIndexChanged := by rfl
theorem pin_internal_heap_Heap_percolateDown_ok : Juniper.Gen.PinHeap.pin_internal_heap_Heap_percolateDown = Juniper.Pinned.Heap.pin_internal_heap_Heap_percolateDown := by rfl
theorem pin_internal_heap_Heap_percolateUp_ok : Juniper.Gen.PinHeap.pin_internal_heap_Heap_percolateUp = Juniper.Pinned.Heap.pin_internal_heap_Heap_percolateUp := by rfl
theorem pin_internal_heap_Heap_swap_ok : Juniper.Gen.PinHeap.pin_internal_heap_Heap_swap = Juniper.Pinned.Heap.pin_internal_heap_Heap_swap := by rfl
theorem pin_internal_heap_New_ok : Juniper.Gen.PinHeap.pin_internal_heap_New = Juniper.Pinned.Heap.pin_internal_heap_New := by rfl
theorem pin_internal_heap_children_ok : Juniper.Gen.PinHeap.pin_internal_heap_children = Juniper.Pinned.Heap.pin_internal_heap_children := by rfl
theorem pin_internal_heap_heapIterator_Next_ok : Juniper.Gen.PinHeap.pin_internal_heap_heapIterator_Next = Juniper.Pinned.Heap.pin_internal_heap_heapIterator_Next := by rfl
theorem pin_internal_heap_parent_ok : Juniper.Gen.PinHeap.pin_internal_heap_parent = Juniper.Pinned.Heap.pin_internal_heap_parent := by rfl
theorem pin_container_xheap_type_Heap_ok : Juniper.Gen.PinHeap.pin_container_xheap_type_Heap = Juniper.Pinned.Heap.pin_container_xheap_type_Heap := by rfl
theorem pin_container_xheap_type_KP_ok : Juniper.Gen.PinHeap.pin_container_xheap_type_KP = Juniper.Pinned.Heap.pin_container_xheap_type_KP := by rfl
theorem pin_container_xheap_type_PriorityQueue_ok : Juniper.Gen.PinHeap.pin_container_xheap_type_PriorityQueue = Juniper.Pinned.Heap.pin_container_xheap_type_PriorityQueue := by rfl
theorem pin_container_xheap_vars_ok : Juniper.Gen.PinHeap.pin_container_xheap_vars = Juniper.Pinned.Heap.pin_container_xheap_vars := by rfl
theorem pin_internal_heap_type_Heap_ok : Juniper.Gen.PinHeap.pin_internal_heap_type_Heap = Juniper.Pinned.Heap.pin_internal_heap_type_Heap := by rfl
theorem pin_internal_heap_type_Less_ok : Juniper.Gen.PinHeap.pin_internal_heap_type_Less = Juniper.Pinned.Heap.pin_internal_heap_type_Less := by rfl
theorem pin_internal_heap_type_heapIterator_ok : Juniper.Gen.PinHeap.pin_internal_heap_type_heapIterator = Juniper.Pinned.Heap.pin_internal_heap_type_heapIterator := by rfl
theorem pin_internal_heap_vars_ok : Juniper.Gen.PinHeap.pin_internal_heap_vars = Juniper.Pinned.Heap.pin_internal_heap_vars := by rfl

end Juniper.Props.PinHeap
