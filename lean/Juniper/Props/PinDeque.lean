-- Tie theorems of the pins (written by `gofacts -pin` together with Juniper/Pinned/Deque.lean; see notes/pins.md).
-- Each says: the declaration gofacts reads from the tree under check today is, up to the names of its locals,
-- the one the author of the model saw. `rfl` on two literals: kernel-checked, no axioms.
import Juniper.Generated.PinDeque
import Juniper.Pinned.Deque

namespace Juniper.Props.PinDeque

theorem pin_container_deque_Deque_Front_ok : Juniper.Gen.PinDeque.pin_container_deque_Deque_Front = Juniper.Pinned.Deque.pin_container_deque_Deque_Front := by rfl
theorem pin_container_deque_Deque_Grow_ok : Juniper.Gen.PinDeque.pin_container_deque_Deque_Grow = Juniper.Pinned.Deque.pin_container_deque_Deque_Grow := by rfl
theorem pin_container_deque_Deque_Item_ok : Juniper.Gen.PinDeque.pin_container_deque_Deque_Item = Juniper.Pinned.Deque.pin_container_deque_Deque_Item := by rfl
theorem pin_container_deque_Deque_Iterate_ok : Juniper.Gen.PinDeque.pin_container_deque_Deque_Iterate = Juniper.Pinned.Deque.pin_container_deque_Deque_Iterate := by rfl
theorem pin_container_deque_Deque_Len_ok : Juniper.Gen.PinDeque.pin_container_deque_Deque_Len = Juniper.Pinned.Deque.pin_container_deque_Deque_Len := by rfl
theorem pin_container_deque_Deque_PopBack_ok : Juniper.Gen.PinDeque.pin_container_deque_Deque_PopBack = Juniper.Pinned.Deque.pin_container_deque_Deque_PopBack := by rfl
theorem pin_container_deque_Deque_PopFront_ok : Juniper.Gen.PinDeque.pin_container_deque_Deque_PopFront = Juniper.Pinned.Deque.pin_container_deque_Deque_PopFront := by rfl
theorem pin_container_deque_Deque_PushBack_ok : Juniper.Gen.PinDeque.pin_container_deque_Deque_PushBack = Juniper.Pinned.Deque.pin_container_deque_Deque_PushBack := by rfl
theorem pin_container_deque_Deque_PushFront_ok : Juniper.Gen.PinDeque.pin_container_deque_Deque_PushFront = Juniper.Pinned.Deque.pin_container_deque_Deque_PushFront := by rfl
theorem pin_container_deque_Deque_Set_ok : Juniper.Gen.PinDeque.pin_container_deque_Deque_Set = Juniper.Pinned.Deque.pin_container_deque_Deque_Set := by rfl
theorem pin_container_deque_Deque_Shrink_ok : Juniper.Gen.PinDeque.pin_container_deque_Deque_Shrink = Juniper.Pinned.Deque.pin_container_deque_Deque_Shrink := by rfl
theorem pin_container_deque_Deque_maybeExpand_ok : Juniper.Gen.PinDeque.pin_container_deque_Deque_maybeExpand = Juniper.Pinned.Deque.pin_container_deque_Deque_maybeExpand := by rfl
theorem pin_container_deque_Deque_resize_ok : Juniper.Gen.PinDeque.pin_container_deque_Deque_resize = Juniper.Pinned.Deque.pin_container_deque_Deque_resize := by rfl
theorem pin_container_deque_dequeIterator_Next_ok : Juniper.Gen.PinDeque.pin_container_deque_dequeIterator_Next = Juniper.Pinned.Deque.pin_container_deque_dequeIterator_Next := by rfl
theorem pin_container_deque_positiveMod_ok : Juniper.Gen.PinDeque.pin_container_deque_positiveMod = Juniper.Pinned.Deque.pin_container_deque_positiveMod := by rfl
theorem pin_container_deque_type_Deque_ok : Juniper.Gen.PinDeque.pin_container_deque_type_Deque = Juniper.Pinned.Deque.pin_container_deque_type_Deque := by rfl
theorem pin_container_deque_type_dequeIterator_ok : Juniper.Gen.PinDeque.pin_container_deque_type_dequeIterator = Juniper.Pinned.Deque.pin_container_deque_type_dequeIterator := by rfl
theorem pin_container_deque_vars_ok : Juniper.Gen.PinDeque.pin_container_deque_vars = Juniper.Pinned.Deque.pin_container_deque_vars := by rfl

end Juniper.Props.PinDeque
