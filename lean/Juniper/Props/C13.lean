import Juniper.Proofs.ParWrap
/-!
# C13 — parallel.Do / DoContext / Map / MapContext (property theorems)

The LTS is `Juniper.Model.ParDo` (`step`, `Reach`): all interleavings of the worker goroutines, `f`
as the environment (arbitrary results, arbitrary order of returns), the caller's cancellation as an
environment label at any moment. `doCode` / `dcCode` are the two function bodies as they are in the source
now; every theorem holds for all `n`, requested parallelism `P : Int` (`GOMAXPROCS = gmp` when `P ≤ 0`),
failure sets and schedules. The wrappers `Map` / `MapContext` have their own LTS on top of it
(`Juniper.Model.ParWrap`, second half of this file). Only property theorems and their non-vacuity
examples live here; invariants are in `Juniper/Proofs/ParDo*.lean`, `Juniper/Proofs/ParWrap.lean`.

**What is regenerated from `parallel/parallel.go` on every run and consumed semantically** (the model
computes with it, `Code.Sound` / `Wrapper.Sound` state what the proofs assume about it): the three
clamping guards, the *bodies* of the two clamp statements (assigned variable and right-hand side), the
`init`, condition and `post` clauses of the sequential loop and of the spawn loop, the counter's initial
value, increment and conversion, the worker's three tests, the sequential loop's stop test; for the
wrappers the allocation length, the callee and its argument expressions, the callback's parameter
binders, the index expressions of `out[…]` and `in[…]`, which context variable `f` gets, the result
expressions of the `return`s. **Pinned but not computed with**: presence / order of the statements named
in `Code.structural`, the statement shapes of the wrappers, the control skeletons (`Code.skeleton`, `Wrapper.skeleton`).
**Hand-written** (tied by skeletons + trace conformance of the real code only): the step function itself —
which goroutine does what in which order, `.ret` enabled exactly when every worker is done
(= the trusted meaning of `WaitGroup.Wait` / `errgroup.Wait`), `egDone` recording the first error and
cancelling in one step (= the trusted meaning of errgroup), context propagation from the caller.

`Code.Sound` / `Wrapper.Sound` are proved *inside every theorem below* (`pardo_sound`, `wrapper_sound`): there
is no closed soundness lemma upstream, so a changed fact makes these theorems fail to compile by name.

Ghost vocabulary: `begunCount s i` / `endedCount s i` = number of calls of `f` for index `i` that
began / returned so far; `s.ret = some r` = the call has returned `r`; `running s` = calls in progress.
-/
namespace Juniper.Props.C13
open Juniper.Gen Juniper.Model.ParDo Juniper.Proofs.ParDo

/-- **Exactly once.** When `Do`/`DoContext` has returned, no call failed and the caller's context
was not cancelled, `f` was called exactly once for every `i < n` (and each of these calls has
returned). In every reachable state no index is ever handed to `f` twice or out of range.
Content (through `Code.Sound`): the regenerated loop headers `for i := 0; i < n; i++` (sequential path:
`seqInit`, `seqLoop`, `seqPost`), the counter (`counterInit = -1`, `counterDelta = 1`, `fetch`), the worker's
`i >= n` test, and that neither clamp assigns `n` (`effN = n`). Model shape: one atomic `fetch` per
`atomic.AddInt32` (linearizability of the atomic add is trusted). -/
theorem do_exactly_once (cfg : Cfg) (hc : cfg.code = doCode ∨ cfg.code = dcCode) (hg : 1 ≤ cfg.gmp)
    (s : St) (h : Reach cfg s) :
    (∀ i, begunCount s i ≤ 1 ∧ (0 < begunCount s i → i < cfg.n)) ∧
    (s.ret ≠ none → noFailure s → s.callerCancelled = false →
      ∀ i, i < cfg.n → begunCount s i = 1 ∧ endedCount s i = 1) := by
  have hs : cfg.code.Sound := by pardo_sound hc
  constructor
  · intro i
    have hA := (inv1 hs h).A i
    by_cases hcnd : ((i : Int) ≤ s.x ∧ i < cfg.n)
    · rw [if_pos hcnd] at hA; exact ⟨by omega, fun _ => hcnd.2⟩
    · rw [if_neg hcnd] at hA; exact ⟨by omega, fun hp => by omega⟩
  · intro hret hnf hcc
    have hf : hasFail s = false := (noFailure_iff s).1 hnf
    have h2 := inv2 hs h
    have h4 := inv4 hs h
    have h3 := inv3 hs h
    have h7 := inv7 hs h
    -- no failure and a live caller: nothing was recorded, nothing cancelled, nothing skipped
    have heg : s.egErr = none := by
      cases he : s.egErr with
      | none => rfl
      | some e =>
        rcases h3.E1 e he with ⟨k, i, _, hm⟩ | ⟨_, hcan⟩
        · have := hnf _ hm; simp [Res.isErr] at this
        · simp [hcc] at hcan
    have hdc : s.dCause = none := by
      cases hd : s.dCause with
      | none => rfl
      | some c =>
        cases c with
        | lib => exact absurd heg (h2.E4.1 hd)
        | caller => have := h2.E4.2 hd; simp [hcc] at this
    have hsk : s.skipped = [] := by
      cases hk : s.skipped with
      | nil => rfl
      | cons a l => exact absurd hdc (h7.K (by simp [hk]))
    exact all_once_of_clean hs hg h hret hf hsk

/-- For `Do` itself there is no failure and no context: exactly once, unconditionally. -/
theorem do_exactly_once_Do (cfg : Cfg) (hc : cfg.code = doCode) (hg : 1 ≤ cfg.gmp)
    (s : St) (h : Reach cfg s) (hret : s.ret ≠ none) :
    ∀ i, i < cfg.n → begunCount s i = 1 ∧ endedCount s i = 1 := by
  have hs : cfg.code.Sound := by pardo_sound (Or.inl hc : cfg.code = doCode ∨ cfg.code = dcCode)
  have hm := (inv2 hs h).M (by rw [hc]; rfl)
  exact (do_exactly_once cfg (Or.inl hc) hg s h).2 hret hm.2.2.2.2.2 hm.2.1

/-- non-vacuity: `Do(2, 3, f)` run to its return, late index first -/
example : ∃ s, Reach ⟨doCode, 2, 3, 8⟩ s ∧ s.ret ≠ none ∧ begunCount s 2 = 1 :=
  ⟨_, reach_of_run Reach.init (ls := [.fetch 0, .fetch 1, .begin 1, .begin 0, .fEnd 1 (.ok 7), .fetch 1, .begin 1,
      .fEnd 1 (.ok 8), .fEnd 0 (.ok 9), .fetch 0, .fetch 1, .ret]) rfl, by decide, by decide⟩

/-- **Bounded.** In every reachable state:

1. `running s ≤ s.ws.length` — the calls of `f` in progress are at most the goroutines that call `f`. This
   conjunct is *model shape*: the LTS gives every such goroutine one program counter, i.e. a goroutine runs
   its calls one after another. What ties that shape to the source is the worker's control skeleton
   (`forever{fetch; if … {return}; … call}`, and the sequential loops: `Code.skeleton`, the field
   `Code.Sound.skeleton` this conjunct's proof is handed), plus conformance.
2. `s.ws.length = nW cfg` and `nW cfg = if effPar cfg = 1 then 1 else (effPar cfg).toNat` — *content*: the number
   of goroutines is the number of iterations of the spawn loop `for j := 0; j < parallelism; j++`, whose
   `init`, condition and `post` clauses are regenerated (`spawnInit`, `spawnLoop`, `spawnPost`), run with the
   clamped parallelism; the caller alone on the fast path `parallelism == 1`.
3. `effPar cfg = min (reqPar cfg) n` and `(nW cfg : Int) ≤ max 1 (reqPar cfg)` — content: the second clamp
   (`if parallelism > n { parallelism = n }`, guard, assigned variable and right-hand side regenerated).
4. `reqPar cfg = if P ≤ 0 then GOMAXPROCS else P` — content: the first clamp's regenerated guard
   `parallelism <= 0` and its regenerated body `parallelism = runtime.GOMAXPROCS(-1)` (`lowAssign`): with
   `parallelism = 16` there, or with the assignment going to `n`, `Code.Sound` and hence this theorem fail.

Together: never more than `max(1, parallelism)` calls at a time, `GOMAXPROCS` standing in for `parallelism ≤ 0`. -/
theorem do_bound (cfg : Cfg) (hc : cfg.code = doCode ∨ cfg.code = dcCode) (s : St) (h : Reach cfg s) :
    running s ≤ s.ws.length ∧
    (s.ws.length = nW cfg ∧ nW cfg = if effPar cfg = 1 then 1 else (effPar cfg).toNat) ∧
    (effPar cfg = min (reqPar cfg) cfg.n ∧ (nW cfg : Int) ≤ max 1 (reqPar cfg)) ∧
    (reqPar cfg = if cfg.P ≤ 0 then (cfg.gmp : Int) else cfg.P) ∧
    (running s : Int) ≤ max 1 (if cfg.P ≤ 0 then (cfg.gmp : Int) else cfg.P) := by
  have hs : cfg.code.Sound := by pardo_sound hc
  have hlen := (inv1 hs h).len
  have hshape : running s ≤ s.ws.length :=
    (fun (_ : cfg.code.skeleton = true) => List.countP_le_length) hs.skeleton
  have hnW : nW cfg = if effPar cfg = 1 then 1 else (effPar cfg).toNat := by
    unfold nW; rw [hs.isSeq, numWorkers_eq hs]; simp
  have hle : (nW cfg : Int) ≤ max 1 (reqPar cfg) := by
    have := effPar_le_reqPar hs
    rw [hnW]; split <;> omega
  have hreq := reqPar_eq hs
  refine ⟨hshape, ⟨hlen, hnW⟩, ⟨?_, hle⟩, hreq, ?_⟩
  · rw [effPar_eq hs]; split <;> omega
  · rw [← hreq]; omega

/-- non-vacuity: `DoContext(ctx, 2, 3, f)` with two calls running at once -/
example : ∃ s, Reach ⟨dcCode, 2, 3, 8⟩ s ∧ running s = 2 :=
  ⟨_, reach_of_run Reach.init (ls := [.fetch 0, .fetch 1, .check 0, .check 1, .begin 1, .begin 0]) rfl, by decide⟩

/-- **Barrier.** Once the call has returned, no call of `f` is in progress and every call that
began has returned. What this rests on: the model's `.ret` step is enabled only when every worker's program
counter is `done` (`allDone ws`) — a *hand-written* guard that encodes the trusted meaning of
`WaitGroup.Wait` / `errgroup.Wait` ("returns after every worker function has returned"); it is tied to the
source by the presence / order facts `wg.Add(parallelism)`, `defer wg.Done()`, `wg.Wait()`, `wg.Add` before
`wg.Wait`, `return eg.Wait()` (in `Code.structural`), by the control skeletons and by trace conformance, not
by a computation. The content proved on top of it is the counting invariant: no call is running or pending
in a `done` worker (`run + ended = begun` per index). Visibility of the calls' effects is the happens-before
edge of `WaitGroup` / `errgroup`: trusted, exercised by the `-race` binary (thorough tier). -/
theorem do_barrier (cfg : Cfg) (hc : cfg.code = doCode ∨ cfg.code = dcCode) (s : St) (h : Reach cfg s)
    (hret : s.ret ≠ none) : running s = 0 ∧ ∀ i, endedCount s i = begunCount s i := by
  have hs : cfg.code.Sound := by pardo_sound hc
  have hD := (inv2 hs h).D hret
  constructor
  · have hr : running s ≤ cnt notDone s.ws := countP_le_cnt_notDone _ rfl s.ws
    omega
  · intro i
    have hB := (inv1 hs h).B i
    have := countP_le_cnt_notDone (isRun i) (by simp [isRun]) s.ws
    unfold runC at hB; omega

/-- non-vacuity: a returned `DoContext` whose calls all ended -/
example : ∃ s, Reach ⟨dcCode, 2, 2, 8⟩ s ∧ s.ret ≠ none ∧ s.begun.length = 2 :=
  ⟨_, reach_of_run Reach.init (ls := [.fetch 0, .fetch 1, .check 0, .check 1, .begin 1, .begin 0, .fEnd 1 (.ok 11),
      .fEnd 0 (.ok 10), .fetch 0, .fetch 1, .ret]) rfl, by decide, by decide⟩

/-- **First error.** If `DoContext` returns an error, it is an error that one of the
calls of `f` returned, or the caller's own context error after the caller cancelled — never the
cancellation the errgroup caused itself; and a failure is never swallowed: a `nil` return means no
call returned an error. (For `MapContext`: `mapContext_ctx_and_first_error`.) "First" is the trusted errgroup
semantics (`egDone` keeps the first recorded error); which of two concurrent failures is recorded first is
up to the schedule, both are reachable. -/
theorem doContext_error_is_returned_by_some_call_or_caller_ctx (cfg : Cfg)
    (hc : cfg.code = doCode ∨ cfg.code = dcCode) (s : St) (h : Reach cfg s) :
    (∀ e, s.ret = some (some e) →
      (∃ k i, e = .f k ∧ (i, Res.err k) ∈ s.ended) ∨ (e = .ctxCaller ∧ s.callerCancelled = true)) ∧
    (s.ret = some none → noFailure s) := by
  have hs : cfg.code.Sound := by pardo_sound hc
  refine ⟨fun e he => (inv3 hs h).E3 e he, ?_⟩
  intro hret
  have h2 := inv2 hs h
  have h4 := inv4 hs h
  have hD := h2.D (by simp [hret])
  have heg := h2.R hret
  have hre : cnt isRetErr s.ws = 0 := by
    have := countP_le_cnt_notDone isRetErr (by simp [isRetErr]) s.ws
    unfold cnt at *; omega
  apply (noFailure_iff s).2
  cases hf : hasFail s with
  | false => rfl
  | true =>
    rcases h4.F1 (Or.inl hf) with h' | h' | ⟨e, h'⟩
    · exact absurd heg h'
    · omega
    · rw [hret] at h'; simp at h'

/-- non-vacuity: index 1 fails with error 5 while index 0 is still running; `DoContext` returns it -/
example : ∃ s, Reach ⟨dcCode, 2, 3, 8⟩ s ∧ s.ret = some (some (.f 5)) :=
  ⟨_, reach_of_run Reach.init (ls := [.fetch 0, .fetch 1, .check 0, .check 1, .begin 0, .begin 1, .fEnd 1 (.err 5),
      .egDone 1, .fEnd 0 (.ok 1), .fetch 0, .check 0, .egDone 0, .ret]) rfl, by decide⟩

/-- **Cancels the others.** For every reachable state of `DoContext`:

1. (parallel path, unconditional) once errgroup has recorded an error (`s.egErr ≠ none`) the context handed
   to the calls is cancelled (`s.dCause ≠ none`) — in the model `egDone` does both in one step, which is the
   trusted errgroup semantics "records the first error, then cancels" — and every call of `f` that begins
   from then on is recorded as begun with a cancelled context;
2. (parallel path) a failed call leaves no gap: when some call has returned an error, either errgroup has
   recorded an error already (so 1. applies) or the worker in which a call failed is still at
   `retErr (.f k)`, i.e. between the return of `f` and errgroup's bookkeeping, a step that is enabled
   (`egDone`) and not up to the environment;
3. (sequential path, effective parallelism 1) after a failure no call begins at all.

There is no cancellation "at once": between the return of the failing call and the `egDone` step of its
worker the others still see a live context (that window is in the model and in the real code). -/
theorem doContext_cancels_others (cfg : Cfg) (hc : cfg.code = doCode ∨ cfg.code = dcCode)
    (s : St) (h : Reach cfg s) :
    (s.seq = false → s.egErr ≠ none →
        s.dCause ≠ none ∧ ctxCancelled s = true ∧
        ∀ w s', step cfg s (.begin w) = some s' → ∃ i, s'.begun = s.begun ++ [⟨i, true⟩]) ∧
    (hasFail s = true → s.seq = false →
        s.egErr ≠ none ∨ ∃ k w, s.ws[w]? = some (.retErr (.f k)) ∧ (step cfg s (.egDone w)).isSome = true) ∧
    (hasFail s = true → s.seq = true → ∀ w s', step cfg s (.begin w) ≠ some s') := by
  have hs : cfg.code.Sound := by pardo_sound hc
  have h2 := inv2 hs h
  have h4 := inv4 hs h
  have h7 := inv7 hs h
  have h8 := inv8 hs h
  refine ⟨?_, ?_, ?_⟩
  · intro hseq heg
    have hdc : s.dCause ≠ none := h2.G hseq heg
    have hctx : cfg.code.ctxMode = true := by
      cases hm : cfg.code.ctxMode with
      | true => rfl
      | false => exact absurd (h2.M hm).2.2.1 heg
    refine ⟨hdc, by simp [ctxCancelled, hseq, Option.isSome_iff_ne_none, hdc], ?_⟩
    intro w s' hstep
    simp only [step] at hstep
    split at hstep
    · next i _ =>
      simp only [Option.some.injEq] at hstep; subst hstep
      refine ⟨i, ?_⟩
      simp [hctx, ctxCancelled, hseq, Option.isSome_iff_ne_none, hdc]
    · simp at hstep
  · intro hf hseq
    rcases h8.C hf with h' | h' | ⟨k, h'⟩
    · exact Or.inl h'
    · obtain ⟨k, hm⟩ := exists_retF_of_cnt h'
      obtain ⟨w, hw⟩ := List.getElem?_of_mem hm
      refine Or.inr ⟨k, w, hw, ?_⟩
      simp only [step, hw, hseq]
      cases s.egErr <;> simp
    · have := h7.R2 hseq _ h'
      exact Or.inl (by rw [← this]; simp)
  · intro hf hseq w s' hstep
    have hlen := (inv1 hs h).len
    have hseq' := (inv1 hs h).seq
    have hS := h2.S hseq
    have h1 : s.ws.length = 1 := by rw [hlen]; unfold nW; rw [← hseq', hseq]; simp
    simp only [step] at hstep
    split at hstep
    · next i hw =>
      have hcall := cnt_ge isCall hw
      simp [isCall] at hcall
      rcases h4.F1 (Or.inl hf) with h' | h' | ⟨e, h'⟩
      · exact h' hS.1
      · have hre := cnt_add_one_le (p := isRetErr) hw (by simp [isRetErr])
        omega
      · have hD := h2.D (by simp [h'])
        have hnd := cnt_ge notDone hw
        simp [notDone] at hnd; omega
    · simp at hstep

/-- non-vacuity: after index 1 failed and its worker is done, the other worker begins index 2 with a
cancelled context (it had passed its `ctx.Err()` test before) -/
example : ∃ s, Reach ⟨dcCode, 2, 4, 8⟩ s ∧ hasFail s = true ∧ s.seq = false ∧ s.egErr ≠ none ∧
    startedCancelled s = 1 :=
  ⟨_, reach_of_run Reach.init (ls := [.fetch 0, .fetch 1, .check 0, .check 1, .begin 0, .begin 1, .fEnd 0 (.ok 1),
      .fetch 0, .check 0, .fEnd 1 (.err 5), .egDone 1, .begin 0]) rfl, by decide, by decide, by decide, by decide⟩

/-- non-vacuity of the window of conjunct 2: call 1 has failed, errgroup has not recorded it yet (its worker
is at `retErr (.f 5)`), the call still running sees a live context -/
example : ∃ s, Reach ⟨dcCode, 2, 4, 8⟩ s ∧ hasFail s = true ∧ s.seq = false ∧ s.egErr = none ∧
    s.ws[1]? = some (.retErr (.f 5)) ∧ ctxCancelled s = false ∧ running s = 1 :=
  ⟨_, reach_of_run Reach.init (ls := [.fetch 0, .fetch 1, .check 0, .check 1, .begin 0, .begin 1, .fEnd 1 (.err 5)]) rfl,
    by decide, by decide, by decide, by decide, by decide, by decide⟩

/-- **No call after the return.** From a state in which the call has returned, the only possible
step is the caller cancelling its own context: no worker moves, no call of `f` begins. (Consequence of the
same hand-written `.ret` guard as `do_barrier`: after the return every worker is `done`, and a `done`
worker has no step.) -/
theorem doContext_no_call_after_return (cfg : Cfg) (hc : cfg.code = doCode ∨ cfg.code = dcCode)
    (s : St) (h : Reach cfg s) (hret : s.ret ≠ none) (l : Label) (s' : St)
    (hstep : step cfg s l = some s') : l = .callerCancel ∧ s'.begun = s.begun ∧ s'.ws = s.ws := by
  have hs : cfg.code.Sound := by pardo_sound hc
  have hD := (inv2 hs h).D hret
  have key : ∀ (w : Nat) (pc : Pc), s.ws[w]? = some pc → notDone pc = true → False := by
    intro w pc hw hn
    have := cnt_ge notDone hw
    simp [hn] at this; omega
  cases l with
  | callerCancel =>
    simp only [step] at hstep
    split at hstep
    · simp at hstep
    · simp only [Option.some.injEq] at hstep; subst hstep; simp
  | ret =>
    simp only [step] at hstep
    have : s.ret.isSome = true := by cases hr : s.ret <;> simp_all
    simp [this] at hstep
  | fetch w => simp only [step] at hstep; split at hstep <;> first | (exact (key _ _ ‹_ = some _› rfl).elim) | simp at hstep
  | check w => simp only [step] at hstep; split at hstep <;> first | (exact (key _ _ ‹_ = some _› rfl).elim) | simp at hstep
  | begin w => simp only [step] at hstep; split at hstep <;> first | (exact (key _ _ ‹_ = some _› rfl).elim) | simp at hstep
  | fEnd w r => simp only [step] at hstep; split at hstep <;> first | (exact (key _ _ ‹_ = some _› rfl).elim) | simp at hstep
  | egDone w => simp only [step] at hstep; split at hstep <;> first | (exact (key _ _ ‹_ = some _› rfl).elim) | simp at hstep

/-- non-vacuity: a returned state from which the caller can still cancel -/
example : ∃ s s', Reach ⟨dcCode, 2, 1, 8⟩ s ∧ s.ret ≠ none ∧ step ⟨dcCode, 2, 1, 8⟩ s .callerCancel = some s' :=
  ⟨_, _, reach_of_run Reach.init (ls := [.begin 0, .fEnd 0 (.ok 1), .ret]) rfl, by decide, rfl⟩

/-- **At most `parallelism − 1` calls begin cancelled.** In every reachable state in which the
caller's own context is still live, the number of calls of `f` that began with an already-cancelled
context is at most (number of workers) − 1 ≤ `max(1, parallelism) − 1` with the *requested* parallelism
(`GOMAXPROCS` when `P ≤ 0`), and 0 as long as no call failed. Content: the worker tests `ctx.Err()` between
the fetch and the call (regenerated test `workerCancelled`, order facts `dcFetchBeforeCheck`,
`dcCheckBeforeCall`), so only the workers already past that test can still begin a call, and the failing
worker itself begins none; the number of workers comes from the regenerated spawn-loop header. -/
theorem doContext_at_most_Pminus1_start_cancelled (cfg : Cfg) (hc : cfg.code = doCode ∨ cfg.code = dcCode)
    (s : St) (h : Reach cfg s) (hlive : s.callerCancelled = false) :
    (startedCancelled s : Int) ≤ max 1 (reqPar cfg) - 1 ∧ (hasFail s = false → startedCancelled s = 0) := by
  have hs : cfg.code.Sound := by pardo_sound hc
  have ⟨hH⟩ := inv5 hs h
  have ⟨h0, h1⟩ := hH hlive
  have hb := (do_bound cfg hc s h).2.2.1.2
  have hlen := (inv1 hs h).len
  have h2 := inv2 hs h
  have h3 := inv3 hs h
  constructor
  · cases hd : s.dCause with
    | none => have := h0 hd; omega
    | some c => have := h1 (by simp [hd]); omega
  · intro hf
    cases hd : s.dCause with
    | none => exact h0 hd
    | some c =>
      exfalso
      cases c with
      | caller => have := h2.E4.2 hd; simp [hlive] at this
      | lib =>
        have hne := h2.E4.1 hd
        cases he : s.egErr with
        | none => exact hne he
        | some e =>
          rcases h3.E1 e he with ⟨k, i, _, hm⟩ | ⟨_, hcan⟩
          · have := (noFailure_iff s).2 hf _ hm; simp [Res.isErr] at this
          · simp [hlive] at hcan

/-- non-vacuity: parallelism 3, index 0 fails, the two other workers each begin one call cancelled:
`3 − 1` is reached -/
example : ∃ s, Reach ⟨dcCode, 3, 6, 8⟩ s ∧ s.callerCancelled = false ∧ startedCancelled s = 2 :=
  ⟨_, reach_of_run Reach.init (ls := [.fetch 0, .fetch 1, .fetch 2, .check 0, .check 1, .check 2, .begin 0,
      .fEnd 0 (.err 1), .egDone 0, .begin 1, .begin 2]) rfl, by decide, by decide⟩

/-! ## The wrappers `Map` / `MapContext`

`Juniper.Model.ParWrap`: the wrapper LTS `wstep` runs the `Do` / `DoContext` LTS above with
`n := len(in)` and the wrapper's `parallelism` (both through the regenerated argument expressions) and
does what the regenerated callback does: the user's `f` is called on `in[readIdx i]` with the context the
binder facts say, its value is stored at `out[writeIdx i]`. `mapWrapper` / `mapContextWrapper` are the two
wrappers as they are in the source now; `WCfg` = the wrapper, `parallelism : Int`, `in : List α` (any
element type), `GOMAXPROCS`. `s.calls` = the calls of the user's `f` in the order they began (callee's
index, element, context state at entry); `s.wret` = what the wrapper has returned. -/
section Wrappers
open Juniper.Model.ParWrap Juniper.Proofs.ParWrap
variable {α : Type}

/-- **Positional.** For `Map` and `MapContext`, all `parallelism : Int`, all `in`, every schedule, every
reachable state:

* the callee runs with `n = len(in)` and the wrapper's `parallelism` (regenerated arguments);
* no index expression of the callback ever leaves its slice (`panic = false`), `out` has `len(in)` slots;
* every call of the user's `f` is for an index `i < len(in)` and receives `in[i]`;
* the wrapper returns exactly when the callee does: `out` with a nil error if the callee returned nil,
  `nil` with the callee's error otherwise (`MapContext` only);
* when it has returned without error, for every `i < len(in)`: `out[i]` is the value returned by the one
  call of `f` for `in[i]` (exactly one call began for `i`, it got `in[i]`, exactly one ended, with that value).

Depends on the regenerated wrapper facts through `Wrapper.Sound` (proved here by `wrapper_sound_ex`: write
index, read index, allocation length, argument expressions, binders, statement shapes, `return`s) and on
`Code.Sound` of the callee (`pardo_sound`). Model shape, not content: that the callback calls `f` once,
synchronously, and stores its value (the statement shapes `mapCbShape` / `mcCbShape` pin the text). -/
theorem map_positional (wc : WCfg α) (hw : wc.w = mapWrapper ∨ wc.w = mapContextWrapper) (hg : 1 ≤ wc.gmp)
    (s : WSt α) (h : WReach wc s) :
    (wc.cfg.n = wc.inp.length ∧ wc.cfg.P = wc.P) ∧
    (s.panic = false ∧ s.out.length = wc.inp.length) ∧
    (∀ c ∈ s.calls, c.idx < wc.inp.length ∧ wc.inp[c.idx]? = some c.arg) ∧
    ((s.wret = none ↔ s.core.ret = none) ∧
      (∀ o, s.wret = some ⟨o, none⟩ → o = some s.out ∧ s.core.ret = some none) ∧
      (∀ o e, s.wret = some ⟨o, some e⟩ → o = none ∧ s.core.ret = some (some e))) ∧
    (∀ o, s.wret = some ⟨o, none⟩ → ∀ i, i < wc.inp.length →
      ∃ v a, s.out[i]? = some (some v) ∧ (i, Res.ok v) ∈ s.core.ended ∧ endedCount s.core i = 1 ∧
        callCount s i = 1 ∧ wc.inp[i]? = some a ∧ (⟨i, a, false⟩ ∈ s.calls ∨ ⟨i, a, true⟩ ∈ s.calls)) := by
  obtain ⟨ctx, hws⟩ : ∃ ctx, wc.w.Sound ctx := by wrapper_sound_ex hw
  have hc : wc.cfg.code = doCode ∨ wc.cfg.code = dcCode := sound_codes hws
  have hs : wc.cfg.code.Sound := by pardo_sound hc
  have hi := winv hws hs h
  have hcore := core_reach h
  have hn := cfg_n hws
  have hwr := wret_cases hws hs h
  refine ⟨⟨hn, hws.P _⟩, ⟨hi.P0, hi.O1⟩, ?_, ⟨hwr.1, hwr.2.1, fun o e he => ⟨(hwr.2.2 o e he).1, (hwr.2.2 o e he).2.2⟩⟩, ?_⟩
  · intro c hcm
    have h2 := hi.C2 c hcm
    exact ⟨(List.getElem?_eq_some_iff.1 h2).1, h2⟩
  · intro o ho i hlt
    have hret := (hwr.2.1 o ho).2
    have hcl := clean_of_ret_nil hs hcore hret
    have ⟨hb, hend⟩ := all_once_of_clean hs hg hcore (by simp [hret]) hcl.1 hcl.2 i (hn ▸ hlt)
    have hpos : 0 < endedCount s.core i := by omega
    obtain ⟨⟨j, r⟩, hm, hj⟩ := List.countP_pos_iff.1 hpos
    simp at hj; subst hj
    have hcc : callCount s j = 1 := by rw [callCount_eq hi]; exact hb
    obtain ⟨c, hcm, hcj⟩ := List.countP_pos_iff.1 (by rw [← callCount, hcc]; omega : 0 < s.calls.countP (·.idx == j))
    simp at hcj
    have hca := hi.C2 c hcm
    rw [hcj] at hca
    cases r with
    | ok v =>
      refine ⟨v, c.arg, hi.O2 j v hm, hm, hend, hcc, hca, ?_⟩
      obtain ⟨ci, ca, cc⟩ := c
      simp at hcj; subst hcj
      cases cc
      · exact Or.inl hcm
      · exact Or.inr hcm
    | err k =>
      have := (noFailure_iff s.core).2 hcl.1 _ hm
      simp [Res.isErr] at this

/-- non-vacuity: `MapContext(ctx, 2, ["a", "b"], f)`, second element first; the wrapper returns `out` -/
example : ∃ s, WReach (⟨mapContextWrapper, 2, ["a", "b"], 8⟩ : WCfg String) s ∧
    s.wret = some ⟨some [some 10, some 11], none⟩ ∧
    s.calls = [⟨1, "b", false⟩, ⟨0, "a", false⟩] :=
  ⟨_, wreach_of_run WReach.init (ls := [.fetch 0, .fetch 1, .check 0, .check 1, .begin 1, .begin 0, .fEnd 1 (.ok 11),
      .fEnd 0 (.ok 10), .fetch 0, .fetch 1, .ret]) rfl, by decide, by decide⟩

/-- **Exactly once, bounded, barrier — for the wrappers** (corollaries of `do_exactly_once`, `do_bound`,
`do_barrier` through the wrapper: the calls of the user's `f` are the callee's calls of the callback, one
for one, which is conjunct `C1` of the wrapper invariant and rests on the regenerated callback shape).
In every reachable state of `Map` / `MapContext`: no element is handed to `f` twice or from outside `in`;
once the wrapper has returned with no failed call and a live caller context, `f` was called exactly once
for every element and every call has returned; the calls of `f` in progress are at most
`max(1, parallelism)` (`GOMAXPROCS` for `parallelism ≤ 0`); once the wrapper has returned no call of `f` is
in progress and every call that began has ended. -/
theorem map_exactly_once_bound_barrier (wc : WCfg α) (hw : wc.w = mapWrapper ∨ wc.w = mapContextWrapper)
    (hg : 1 ≤ wc.gmp) (s : WSt α) (h : WReach wc s) :
    (∀ i, callCount s i ≤ 1 ∧ (0 < callCount s i → i < wc.inp.length)) ∧
    (s.wret ≠ none → noFailure s.core → s.core.callerCancelled = false →
      ∀ i, i < wc.inp.length → callCount s i = 1 ∧ endedCount s.core i = 1) ∧
    ((running s.core : Int) ≤ max 1 (if wc.P ≤ 0 then (wc.gmp : Int) else wc.P)) ∧
    (s.wret ≠ none → running s.core = 0 ∧ ∀ i, endedCount s.core i = callCount s i) := by
  obtain ⟨ctx, hws⟩ : ∃ ctx, wc.w.Sound ctx := by wrapper_sound_ex hw
  have hc : wc.cfg.code = doCode ∨ wc.cfg.code = dcCode := sound_codes hws
  have hs : wc.cfg.code.Sound := by pardo_sound hc
  have hi := winv hws hs h
  have hcore := core_reach h
  have hn := cfg_n hws
  have hwr := (wret_cases hws hs h).1
  have hP : wc.cfg.P = wc.P := hws.P _
  have hE := do_exactly_once wc.cfg hc hg s.core hcore
  have hB := (do_bound wc.cfg hc s.core hcore).2.2.2.2
  refine ⟨?_, ?_, ?_, ?_⟩
  · intro i; rw [callCount_eq hi, ← hn]; exact hE.1 i
  · intro hret hnf hcc i hlt
    rw [callCount_eq hi]
    exact hE.2 (fun hx => hret (hwr.2 hx)) hnf hcc i (hn ▸ hlt)
  · rw [hP] at hB; exact hB
  · intro hret
    have := do_barrier wc.cfg hc s.core hcore (fun hx => hret (hwr.2 hx))
    exact ⟨this.1, fun i => by rw [callCount_eq hi]; exact this.2 i⟩

/-- non-vacuity: `Map(0, [7, 8, 9], f)` under `GOMAXPROCS = 2`: two calls of `f` in progress -/
example : ∃ s, WReach (⟨mapWrapper, 0, [7, 8, 9], 2⟩ : WCfg Nat) s ∧ running s.core = 2 ∧
    s.calls = [⟨1, 8, false⟩, ⟨0, 7, false⟩] :=
  ⟨_, wreach_of_run WReach.init (ls := [.fetch 0, .fetch 1, .begin 1, .begin 0]) rfl, by decide, by decide⟩

/-- **`MapContext`: the context handed to `f`, first error.** In every reachable state of `MapContext`:

1. every call of the user's `f` received the context `DoContext` hands to its callback — the errgroup's
   context on the parallel path — and not, say, the caller's: call by call, the state of `f`'s context at
   entry is the state `DoContext` recorded for its callback (`s.calls` ↦ `s.core.begun`), and at any
   moment `f`'s context is cancelled iff that context is (`userCtxCancelled = ctxCancelled`). This is the
   regenerated binder fact `mcCtxSource = "closureParam"` (with `func(_ context.Context, i int)` the
   argument `ctx` of `f(ctx, in[i])` is the *caller's* context: `"callerCtx"`, and this theorem fails);
2. hence `doContext_cancels_others` transfers: on the parallel path, once errgroup has recorded an error
   the context handed to `f` is cancelled, and every call of `f` that begins from then on is recorded
   with `cancelled = true`;
3. if `MapContext` returns an error, the slice is `nil` and the error is one a call of `f` returned, or the
   caller's context error after the caller cancelled; if it returns a nil error no call failed. -/
theorem mapContext_ctx_and_first_error (wc : WCfg α) (hw : wc.w = mapContextWrapper)
    (s : WSt α) (h : WReach wc s) :
    (s.calls.map (fun c => (⟨c.idx, c.cancelled⟩ : Begun)) = s.core.begun ∧
      userCtxCancelled wc s = ctxCancelled s.core ∧ s.callerCancelled = s.core.callerCancelled) ∧
    (s.core.seq = false → s.core.egErr ≠ none →
      userCtxCancelled wc s = true ∧
      ∀ w s', wstep wc s (.begin w) = some s' → ∃ c, s'.calls = s.calls ++ [c] ∧ c.cancelled = true) ∧
    ((∀ o e, s.wret = some ⟨o, some e⟩ → o = none ∧
        ((∃ k i, e = .f k ∧ (i, Res.err k) ∈ s.core.ended) ∨ (e = .ctxCaller ∧ s.callerCancelled = true))) ∧
      (∀ o, s.wret = some ⟨o, none⟩ → noFailure s.core)) := by
  have hws : wc.w.Sound true := by wrapper_sound hw
  have hc : wc.cfg.code = doCode ∨ wc.cfg.code = dcCode := sound_codes hws
  have hs : wc.cfg.code.Sound := by pardo_sound hc
  have hi := winv hws hs h
  have hcore := core_reach h
  have hwr := wret_cases hws hs h
  have hux : userCtxCancelled wc s = ctxCancelled s.core := by simp [userCtxCancelled, hws.ctxSrc rfl]
  have hcc := hi.CC rfl
  have hE := doContext_error_is_returned_by_some_call_or_caller_ctx wc.cfg hc s.core hcore
  refine ⟨⟨hi.C1, hux, hcc⟩, ?_, ⟨?_, ?_⟩⟩
  · intro hseq heg
    have hC := (doContext_cancels_others wc.cfg hc s.core hcore).1 hseq heg
    refine ⟨by rw [hux]; exact hC.2.1, ?_⟩
    intro w s' hst
    obtain ⟨i, a, hcalls⟩ := wstep_begin_calls hws (inv1 hs hcore) hi hst
    refine ⟨_, hcalls, ?_⟩
    simp [sound_ctxMode hws, hux, hC.2.1]
  · intro o e he
    have ⟨h1, _, h3⟩ := hwr.2.2 o e he
    refine ⟨h1, ?_⟩
    rw [hcc]
    exact hE.1 e h3
  · intro o ho
    exact hE.2 (hwr.2.1 o ho).2

/-- non-vacuity: `MapContext(ctx, 2, [7, 8, 9, 10], f)`: `f(8)` fails, errgroup records it, the other worker
(past its `ctx.Err()` test) calls `f(9)` with a cancelled context; the wrapper returns `nil` and that error -/
example : ∃ s s', WReach (⟨mapContextWrapper, 2, [7, 8, 9, 10], 8⟩ : WCfg Nat) s ∧ s.core.egErr ≠ none ∧
    s.calls = [⟨0, 7, false⟩, ⟨1, 8, false⟩, ⟨2, 9, true⟩] ∧
    wrun ⟨mapContextWrapper, 2, [7, 8, 9, 10], 8⟩ s [.fEnd 0 (.ok 1), .fetch 0, .check 0, .egDone 0, .ret] = some s' ∧
    s'.wret = some ⟨none, some (.f 5)⟩ :=
  ⟨_, _, wreach_of_run WReach.init (ls := [.fetch 0, .fetch 1, .check 0, .check 1, .begin 0, .begin 1, .fEnd 0 (.ok 1),
      .fetch 0, .check 0, .fEnd 1 (.err 5), .egDone 1, .begin 0]) rfl, by decide, by decide, rfl, by decide⟩

end Wrappers

end Juniper.Props.C13
