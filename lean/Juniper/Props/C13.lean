import Juniper.Proofs.ParDoInv
/-!
# C13 — parallel.Do / DoContext / Map / MapContext (property theorems)

The LTS is `Juniper.Model.ParDo` (`step`, `Reach`): all interleavings of the worker goroutines, `f`
as the environment, the guards regenerated from `parallel/parallel.go`. `doCode` / `dcCode` are the
two function bodies as they are in the source now. Only property theorems and their non-vacuity
examples live here; invariants and helper lemmas are in `Juniper/Proofs/ParDo*.lean`.
-/
namespace Juniper.Props.C13
open Juniper.Gen Juniper.Model.ParDo Juniper.Proofs.ParDo

/-- **Bounded.** In every reachable state of `Do` and of `DoContext`, for every `n`, requested
parallelism `P` (`GOMAXPROCS` when `P ≤ 0`) and schedule, the number of calls of `f` in progress is at
most the number of workers, which is at most the requested parallelism. -/
theorem do_bound (cfg : Cfg) (hc : cfg.code = doCode ∨ cfg.code = dcCode) (s : St) (h : Reach cfg s) :
    running s ≤ nW cfg ∧ (nW cfg : Int) ≤ max 1 (reqPar cfg) ∧
      (reqPar cfg = if cfg.P ≤ 0 then (cfg.gmp : Int) else cfg.P) := by
  have hs : cfg.code.Sound := by rcases hc with h | h <;> rw [h] <;> first | exact doCode_sound | exact dcCode_sound
  refine ⟨?_, ?_, reqPar_eq hs⟩
  · have := (inv1 hs h).len
    unfold running; rw [← this]; exact List.countP_le_length
  · unfold nW
    split
    · omega
    · rw [numWorkers_eq hs]
      have := effPar_le_reqPar hs
      omega

/-- non-vacuity: `DoContext(ctx, 2, 3, f)` with two calls running at once -/
example : ∃ s, Reach ⟨dcCode, 2, 3, 8⟩ s ∧ running s = 2 :=
  ⟨_, reach_of_run Reach.init (ls := [.fetch 0, .fetch 1, .check 0, .check 1, .begin 1, .begin 0]) rfl, by decide⟩

end Juniper.Props.C13
