-- Tie theorems of the pins (written by `gofacts -pin` together with Juniper/Pinned/Batch.lean; see notes/pins.md).
-- Each says: the declaration gofacts reads from the tree under check today is, up to the names of its locals,
-- the one the author of the model saw. `rfl` on two literals: kernel-checked, no axioms.
import Juniper.Generated.PinBatch
import Juniper.Pinned.Batch

namespace Juniper.Props.PinBatch

theorem pin_stream_Batch_ok : Juniper.Gen.PinBatch.pin_stream_Batch = Juniper.Pinned.Batch.pin_stream_Batch := by rfl
theorem pin_stream_BatchFunc_ok : Juniper.Gen.PinBatch.pin_stream_BatchFunc = Juniper.Pinned.Batch.pin_stream_BatchFunc := by rfl
theorem pin_stream_batchStream_Close_ok : Juniper.Gen.PinBatch.pin_stream_batchStream_Close = Juniper.Pinned.Batch.pin_stream_batchStream_Close := by rfl
theorem pin_stream_batchStream_Next_ok : Juniper.Gen.PinBatch.pin_stream_batchStream_Next = Juniper.Pinned.Batch.pin_stream_batchStream_Next := by rfl
theorem pin_stream_type_Peekable_ok : Juniper.Gen.PinBatch.pin_stream_type_Peekable = Juniper.Pinned.Batch.pin_stream_type_Peekable := by rfl
theorem pin_stream_type_PipeSender_ok : Juniper.Gen.PinBatch.pin_stream_type_PipeSender = Juniper.Pinned.Batch.pin_stream_type_PipeSender := by rfl
theorem pin_stream_type_Stream_ok : Juniper.Gen.PinBatch.pin_stream_type_Stream = Juniper.Pinned.Batch.pin_stream_type_Stream := by rfl
theorem pin_stream_type_batchStream_ok : Juniper.Gen.PinBatch.pin_stream_type_batchStream = Juniper.Pinned.Batch.pin_stream_type_batchStream := by rfl
theorem pin_stream_type_chanStream_ok : Juniper.Gen.PinBatch.pin_stream_type_chanStream = Juniper.Pinned.Batch.pin_stream_type_chanStream := by rfl
theorem pin_stream_type_chunkStream_ok : Juniper.Gen.PinBatch.pin_stream_type_chunkStream = Juniper.Pinned.Batch.pin_stream_type_chunkStream := by rfl
theorem pin_stream_type_compactStream_ok : Juniper.Gen.PinBatch.pin_stream_type_compactStream = Juniper.Pinned.Batch.pin_stream_type_compactStream := by rfl
theorem pin_stream_type_emptyStream_ok : Juniper.Gen.PinBatch.pin_stream_type_emptyStream = Juniper.Pinned.Batch.pin_stream_type_emptyStream := by rfl
theorem pin_stream_type_errorStream_ok : Juniper.Gen.PinBatch.pin_stream_type_errorStream = Juniper.Pinned.Batch.pin_stream_type_errorStream := by rfl
theorem pin_stream_type_filterStream_ok : Juniper.Gen.PinBatch.pin_stream_type_filterStream = Juniper.Pinned.Batch.pin_stream_type_filterStream := by rfl
theorem pin_stream_type_firstStream_ok : Juniper.Gen.PinBatch.pin_stream_type_firstStream = Juniper.Pinned.Batch.pin_stream_type_firstStream := by rfl
theorem pin_stream_type_flattenSlicesStream_ok : Juniper.Gen.PinBatch.pin_stream_type_flattenSlicesStream = Juniper.Pinned.Batch.pin_stream_type_flattenSlicesStream := by rfl
theorem pin_stream_type_flattenStream_ok : Juniper.Gen.PinBatch.pin_stream_type_flattenStream = Juniper.Pinned.Batch.pin_stream_type_flattenStream := by rfl
theorem pin_stream_type_iteratorStream_ok : Juniper.Gen.PinBatch.pin_stream_type_iteratorStream = Juniper.Pinned.Batch.pin_stream_type_iteratorStream := by rfl
theorem pin_stream_type_joinStream_ok : Juniper.Gen.PinBatch.pin_stream_type_joinStream = Juniper.Pinned.Batch.pin_stream_type_joinStream := by rfl
theorem pin_stream_type_mapStream_ok : Juniper.Gen.PinBatch.pin_stream_type_mapStream = Juniper.Pinned.Batch.pin_stream_type_mapStream := by rfl
theorem pin_stream_type_mergeStream_ok : Juniper.Gen.PinBatch.pin_stream_type_mergeStream = Juniper.Pinned.Batch.pin_stream_type_mergeStream := by rfl
theorem pin_stream_type_peekable_ok : Juniper.Gen.PinBatch.pin_stream_type_peekable = Juniper.Pinned.Batch.pin_stream_type_peekable := by rfl
theorem pin_stream_type_pipeStream_ok : Juniper.Gen.PinBatch.pin_stream_type_pipeStream = Juniper.Pinned.Batch.pin_stream_type_pipeStream := by rfl
theorem pin_stream_type_runsInnerStream_ok : Juniper.Gen.PinBatch.pin_stream_type_runsInnerStream = Juniper.Pinned.Batch.pin_stream_type_runsInnerStream := by rfl
theorem pin_stream_type_runsStream_ok : Juniper.Gen.PinBatch.pin_stream_type_runsStream = Juniper.Pinned.Batch.pin_stream_type_runsStream := by rfl
theorem pin_stream_type_whileStream_ok : Juniper.Gen.PinBatch.pin_stream_type_whileStream = Juniper.Pinned.Batch.pin_stream_type_whileStream := by rfl
theorem pin_stream_vars_ok : Juniper.Gen.PinBatch.pin_stream_vars = Juniper.Pinned.Batch.pin_stream_vars := by rfl

end Juniper.Props.PinBatch
