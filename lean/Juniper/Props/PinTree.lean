-- Tie theorems of the pins (written by `gofacts -pin` together with Juniper/Pinned/Tree.lean; see notes/pins.md).
-- Each says: the declaration gofacts reads from the tree under check today is, up to the names of its locals,
-- the one the author of the model saw. `rfl` on two literals: kernel-checked, no axioms.
import Juniper.Generated.PinTree
import Juniper.Pinned.Tree

namespace Juniper.Props.PinTree

theorem pin_container_tree_Map_Contains_ok : Juniper.Gen.PinTree.pin_container_tree_Map_Contains = Juniper.Pinned.Tree.pin_container_tree_Map_Contains := by rfl
theorem pin_container_tree_Map_Delete_ok : Juniper.Gen.PinTree.pin_container_tree_Map_Delete = Juniper.Pinned.Tree.pin_container_tree_Map_Delete := by rfl
theorem pin_container_tree_Map_First_ok : Juniper.Gen.PinTree.pin_container_tree_Map_First = Juniper.Pinned.Tree.pin_container_tree_Map_First := by rfl
theorem pin_container_tree_Map_Get_ok : Juniper.Gen.PinTree.pin_container_tree_Map_Get = Juniper.Pinned.Tree.pin_container_tree_Map_Get := by rfl
theorem pin_container_tree_Map_Iterate_ok : Juniper.Gen.PinTree.pin_container_tree_Map_Iterate = Juniper.Pinned.Tree.pin_container_tree_Map_Iterate := by rfl
theorem pin_container_tree_Map_Last_ok : Juniper.Gen.PinTree.pin_container_tree_Map_Last = Juniper.Pinned.Tree.pin_container_tree_Map_Last := by rfl
theorem pin_container_tree_Map_Len_ok : Juniper.Gen.PinTree.pin_container_tree_Map_Len = Juniper.Pinned.Tree.pin_container_tree_Map_Len := by rfl
theorem pin_container_tree_Map_Put_ok : Juniper.Gen.PinTree.pin_container_tree_Map_Put = Juniper.Pinned.Tree.pin_container_tree_Map_Put := by rfl
theorem pin_container_tree_Map_Range_ok : Juniper.Gen.PinTree.pin_container_tree_Map_Range = Juniper.Pinned.Tree.pin_container_tree_Map_Range := by rfl
theorem pin_container_tree_Map_RangeReverse_ok : Juniper.Gen.PinTree.pin_container_tree_Map_RangeReverse = Juniper.Pinned.Tree.pin_container_tree_Map_RangeReverse := by rfl
theorem pin_container_tree_NewMap_ok : Juniper.Gen.PinTree.pin_container_tree_NewMap = Juniper.Pinned.Tree.pin_container_tree_NewMap := by rfl
theorem pin_container_tree_NewMapCmp_ok : Juniper.Gen.PinTree.pin_container_tree_NewMapCmp = Juniper.Pinned.Tree.pin_container_tree_NewMapCmp := by rfl
theorem pin_container_tree_NewSet_ok : Juniper.Gen.PinTree.pin_container_tree_NewSet = Juniper.Pinned.Tree.pin_container_tree_NewSet := by rfl
theorem pin_container_tree_NewSetCmp_ok : Juniper.Gen.PinTree.pin_container_tree_NewSetCmp = Juniper.Pinned.Tree.pin_container_tree_NewSetCmp := by rfl
theorem pin_container_tree_Set_Add_ok : Juniper.Gen.PinTree.pin_container_tree_Set_Add = Juniper.Pinned.Tree.pin_container_tree_Set_Add := by rfl
theorem pin_container_tree_Set_Contains_ok : Juniper.Gen.PinTree.pin_container_tree_Set_Contains = Juniper.Pinned.Tree.pin_container_tree_Set_Contains := by rfl
theorem pin_container_tree_Set_First_ok : Juniper.Gen.PinTree.pin_container_tree_Set_First = Juniper.Pinned.Tree.pin_container_tree_Set_First := by rfl
theorem pin_container_tree_Set_Iterate_ok : Juniper.Gen.PinTree.pin_container_tree_Set_Iterate = Juniper.Pinned.Tree.pin_container_tree_Set_Iterate := by rfl
theorem pin_container_tree_Set_Last_ok : Juniper.Gen.PinTree.pin_container_tree_Set_Last = Juniper.Pinned.Tree.pin_container_tree_Set_Last := by rfl
theorem pin_container_tree_Set_Len_ok : Juniper.Gen.PinTree.pin_container_tree_Set_Len = Juniper.Pinned.Tree.pin_container_tree_Set_Len := by rfl
theorem pin_container_tree_Set_Range_ok : Juniper.Gen.PinTree.pin_container_tree_Set_Range = Juniper.Pinned.Tree.pin_container_tree_Set_Range := by rfl
theorem pin_container_tree_Set_RangeReverse_ok : Juniper.Gen.PinTree.pin_container_tree_Set_RangeReverse = Juniper.Pinned.Tree.pin_container_tree_Set_RangeReverse := by rfl
theorem pin_container_tree_Set_Remove_ok : Juniper.Gen.PinTree.pin_container_tree_Set_Remove = Juniper.Pinned.Tree.pin_container_tree_Set_Remove := by rfl
theorem pin_container_tree_Unbounded_ok : Juniper.Gen.PinTree.pin_container_tree_Unbounded = Juniper.Pinned.Tree.pin_container_tree_Unbounded := by rfl
theorem pin_container_tree_amalgam1_Child_ok : Juniper.Gen.PinTree.pin_container_tree_amalgam1_Child = Juniper.Pinned.Tree.pin_container_tree_amalgam1_Child := by rfl
theorem pin_container_tree_amalgam1_Len_ok : Juniper.Gen.PinTree.pin_container_tree_amalgam1_Len = Juniper.Pinned.Tree.pin_container_tree_amalgam1_Len := by rfl
theorem pin_container_tree_backwardIterator_Next_ok : Juniper.Gen.PinTree.pin_container_tree_backwardIterator_Next = Juniper.Pinned.Tree.pin_container_tree_backwardIterator_Next := by rfl
theorem pin_container_tree_btree_Cursor_ok : Juniper.Gen.PinTree.pin_container_tree_btree_Cursor = Juniper.Pinned.Tree.pin_container_tree_btree_Cursor := by rfl
theorem pin_container_tree_btree_Delete_ok : Juniper.Gen.PinTree.pin_container_tree_btree_Delete = Juniper.Pinned.Tree.pin_container_tree_btree_Delete := by rfl
theorem pin_container_tree_btree_First_ok : Juniper.Gen.PinTree.pin_container_tree_btree_First = Juniper.Pinned.Tree.pin_container_tree_btree_First := by rfl
theorem pin_container_tree_btree_Last_ok : Juniper.Gen.PinTree.pin_container_tree_btree_Last = Juniper.Pinned.Tree.pin_container_tree_btree_Last := by rfl
theorem pin_container_tree_btree_Put_ok : Juniper.Gen.PinTree.pin_container_tree_btree_Put = Juniper.Pinned.Tree.pin_container_tree_btree_Put := by rfl
theorem pin_container_tree_btree_Range_ok : Juniper.Gen.PinTree.pin_container_tree_btree_Range = Juniper.Pinned.Tree.pin_container_tree_btree_Range := by rfl
theorem pin_container_tree_btree_RangeReverse_ok : Juniper.Gen.PinTree.pin_container_tree_btree_RangeReverse = Juniper.Pinned.Tree.pin_container_tree_btree_RangeReverse := by rfl
theorem pin_container_tree_btree_insertIntoLeaf_ok : Juniper.Gen.PinTree.pin_container_tree_btree_insertIntoLeaf = Juniper.Pinned.Tree.pin_container_tree_btree_insertIntoLeaf := by rfl
theorem pin_container_tree_btree_merge_ok : Juniper.Gen.PinTree.pin_container_tree_btree_merge = Juniper.Pinned.Tree.pin_container_tree_btree_merge := by rfl
theorem pin_container_tree_btree_mergeTwo_ok : Juniper.Gen.PinTree.pin_container_tree_btree_mergeTwo = Juniper.Pinned.Tree.pin_container_tree_btree_mergeTwo := by rfl
theorem pin_container_tree_btree_overfill_ok : Juniper.Gen.PinTree.pin_container_tree_btree_overfill = Juniper.Pinned.Tree.pin_container_tree_btree_overfill := by rfl
theorem pin_container_tree_btree_removeRightmost_ok : Juniper.Gen.PinTree.pin_container_tree_btree_removeRightmost = Juniper.Pinned.Tree.pin_container_tree_btree_removeRightmost := by rfl
theorem pin_container_tree_btree_rotateLeft_ok : Juniper.Gen.PinTree.pin_container_tree_btree_rotateLeft = Juniper.Pinned.Tree.pin_container_tree_btree_rotateLeft := by rfl
theorem pin_container_tree_btree_rotateRight_ok : Juniper.Gen.PinTree.pin_container_tree_btree_rotateRight = Juniper.Pinned.Tree.pin_container_tree_btree_rotateRight := by rfl
theorem pin_container_tree_btree_searchNode_ok : Juniper.Gen.PinTree.pin_container_tree_btree_searchNode = Juniper.Pinned.Tree.pin_container_tree_btree_searchNode := by rfl
theorem pin_container_tree_btree_siblings_ok : Juniper.Gen.PinTree.pin_container_tree_btree_siblings = Juniper.Pinned.Tree.pin_container_tree_btree_siblings := by rfl
theorem pin_container_tree_btree_steal_ok : Juniper.Gen.PinTree.pin_container_tree_btree_steal = Juniper.Pinned.Tree.pin_container_tree_btree_steal := by rfl
theorem pin_container_tree_cursor_Backward_ok : Juniper.Gen.PinTree.pin_container_tree_cursor_Backward = Juniper.Pinned.Tree.pin_container_tree_cursor_Backward := by rfl
theorem pin_container_tree_cursor_BackwardWhile_ok : Juniper.Gen.PinTree.pin_container_tree_cursor_BackwardWhile = Juniper.Pinned.Tree.pin_container_tree_cursor_BackwardWhile := by rfl
theorem pin_container_tree_cursor_Forward_ok : Juniper.Gen.PinTree.pin_container_tree_cursor_Forward = Juniper.Pinned.Tree.pin_container_tree_cursor_Forward := by rfl
theorem pin_container_tree_cursor_ForwardWhile_ok : Juniper.Gen.PinTree.pin_container_tree_cursor_ForwardWhile = Juniper.Pinned.Tree.pin_container_tree_cursor_ForwardWhile := by rfl
theorem pin_container_tree_cursor_Next_ok : Juniper.Gen.PinTree.pin_container_tree_cursor_Next = Juniper.Pinned.Tree.pin_container_tree_cursor_Next := by rfl
theorem pin_container_tree_cursor_Prev_ok : Juniper.Gen.PinTree.pin_container_tree_cursor_Prev = Juniper.Pinned.Tree.pin_container_tree_cursor_Prev := by rfl
theorem pin_container_tree_cursor_SeekFirst_ok : Juniper.Gen.PinTree.pin_container_tree_cursor_SeekFirst = Juniper.Pinned.Tree.pin_container_tree_cursor_SeekFirst := by rfl
theorem pin_container_tree_cursor_SeekFirstGreater_ok : Juniper.Gen.PinTree.pin_container_tree_cursor_SeekFirstGreater = Juniper.Pinned.Tree.pin_container_tree_cursor_SeekFirstGreater := by rfl
theorem pin_container_tree_cursor_SeekFirstGreaterOrEqual_ok : Juniper.Gen.PinTree.pin_container_tree_cursor_SeekFirstGreaterOrEqual = Juniper.Pinned.Tree.pin_container_tree_cursor_SeekFirstGreaterOrEqual := by rfl
theorem pin_container_tree_cursor_SeekLast_ok : Juniper.Gen.PinTree.pin_container_tree_cursor_SeekLast = Juniper.Pinned.Tree.pin_container_tree_cursor_SeekLast := by rfl
theorem pin_container_tree_cursor_SeekLastLess_ok : Juniper.Gen.PinTree.pin_container_tree_cursor_SeekLastLess = Juniper.Pinned.Tree.pin_container_tree_cursor_SeekLastLess := by rfl
theorem pin_container_tree_cursor_SeekLastLessOrEqual_ok : Juniper.Gen.PinTree.pin_container_tree_cursor_SeekLastLessOrEqual = Juniper.Pinned.Tree.pin_container_tree_cursor_SeekLastLessOrEqual := by rfl
theorem pin_container_tree_cursor_find_ok : Juniper.Gen.PinTree.pin_container_tree_cursor_find = Juniper.Pinned.Tree.pin_container_tree_cursor_find := by rfl
theorem pin_container_tree_cursor_lost_ok : Juniper.Gen.PinTree.pin_container_tree_cursor_lost = Juniper.Pinned.Tree.pin_container_tree_cursor_lost := by rfl
theorem pin_container_tree_cursor_seek_ok : Juniper.Gen.PinTree.pin_container_tree_cursor_seek = Juniper.Pinned.Tree.pin_container_tree_cursor_seek := by rfl
theorem pin_container_tree_forwardIterator_Next_ok : Juniper.Gen.PinTree.pin_container_tree_forwardIterator_Next = Juniper.Pinned.Tree.pin_container_tree_forwardIterator_Next := by rfl
theorem pin_container_tree_insertOne_ok : Juniper.Gen.PinTree.pin_container_tree_insertOne = Juniper.Pinned.Tree.pin_container_tree_insertOne := by rfl
theorem pin_container_tree_leftmostLeaf_ok : Juniper.Gen.PinTree.pin_container_tree_leftmostLeaf = Juniper.Pinned.Tree.pin_container_tree_leftmostLeaf := by rfl
theorem pin_container_tree_newAmalgam1_ok : Juniper.Gen.PinTree.pin_container_tree_newAmalgam1 = Juniper.Pinned.Tree.pin_container_tree_newAmalgam1 := by rfl
theorem pin_container_tree_newBtree_ok : Juniper.Gen.PinTree.pin_container_tree_newBtree = Juniper.Pinned.Tree.pin_container_tree_newBtree := by rfl
theorem pin_container_tree_node_full_ok : Juniper.Gen.PinTree.pin_container_tree_node_full = Juniper.Pinned.Tree.pin_container_tree_node_full := by rfl
theorem pin_container_tree_removeOne_ok : Juniper.Gen.PinTree.pin_container_tree_removeOne = Juniper.Pinned.Tree.pin_container_tree_removeOne := by rfl
theorem pin_container_tree_rightmostLeaf_ok : Juniper.Gen.PinTree.pin_container_tree_rightmostLeaf = Juniper.Pinned.Tree.pin_container_tree_rightmostLeaf := by rfl
theorem pin_xsort_LessCompare_ok : Juniper.Gen.PinTree.pin_xsort_LessCompare = Juniper.Pinned.Tree.pin_xsort_LessCompare := by rfl
theorem pin_container_tree_type_Bound_ok : Juniper.Gen.PinTree.pin_container_tree_type_Bound = Juniper.Pinned.Tree.pin_container_tree_type_Bound := by rfl
theorem pin_container_tree_type_KVPair_ok : Juniper.Gen.PinTree.pin_container_tree_type_KVPair = Juniper.Pinned.Tree.pin_container_tree_type_KVPair := by rfl
theorem pin_container_tree_type_Map_ok : Juniper.Gen.PinTree.pin_container_tree_type_Map = Juniper.Pinned.Tree.pin_container_tree_type_Map := by rfl
theorem pin_container_tree_type_Set_ok : Juniper.Gen.PinTree.pin_container_tree_type_Set = Juniper.Pinned.Tree.pin_container_tree_type_Set := by rfl
theorem pin_container_tree_type_amalgam1_ok : Juniper.Gen.PinTree.pin_container_tree_type_amalgam1 = Juniper.Pinned.Tree.pin_container_tree_type_amalgam1 := by rfl
theorem pin_container_tree_type_backwardIterator_ok : Juniper.Gen.PinTree.pin_container_tree_type_backwardIterator = Juniper.Pinned.Tree.pin_container_tree_type_backwardIterator := by rfl
theorem pin_container_tree_type_boundType_ok : Juniper.Gen.PinTree.pin_container_tree_type_boundType = Juniper.Pinned.Tree.pin_container_tree_type_boundType := by rfl
theorem pin_container_tree_type_btree_ok : Juniper.Gen.PinTree.pin_container_tree_type_btree = Juniper.Pinned.Tree.pin_container_tree_type_btree := by rfl
theorem pin_container_tree_type_cursor_ok : Juniper.Gen.PinTree.pin_container_tree_type_cursor = Juniper.Pinned.Tree.pin_container_tree_type_cursor := by rfl
theorem pin_container_tree_type_forwardIterator_ok : Juniper.Gen.PinTree.pin_container_tree_type_forwardIterator = Juniper.Pinned.Tree.pin_container_tree_type_forwardIterator := by rfl
theorem pin_container_tree_type_node_ok : Juniper.Gen.PinTree.pin_container_tree_type_node = Juniper.Pinned.Tree.pin_container_tree_type_node := by rfl
theorem pin_container_tree_vars_ok : Juniper.Gen.PinTree.pin_container_tree_vars = Juniper.Pinned.Tree.pin_container_tree_vars := by rfl
theorem pin_xsort_type_Less_ok : Juniper.Gen.PinTree.pin_xsort_type_Less = Juniper.Pinned.Tree.pin_xsort_type_Less := by rfl
theorem pin_xsort_type_mergeIterator_ok : Juniper.Gen.PinTree.pin_xsort_type_mergeIterator = Juniper.Pinned.Tree.pin_xsort_type_mergeIterator := by rfl
theorem pin_xsort_type_valueAndSource_ok : Juniper.Gen.PinTree.pin_xsort_type_valueAndSource = Juniper.Pinned.Tree.pin_xsort_type_valueAndSource := by rfl
theorem pin_xsort_vars_ok : Juniper.Gen.PinTree.pin_xsort_vars = Juniper.Pinned.Tree.pin_xsort_vars := by rfl

end Juniper.Props.PinTree
