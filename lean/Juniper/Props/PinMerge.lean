-- Tie theorems of the pins (written by `gofacts -pin` together with Juniper/Pinned/Merge.lean; see notes/pins.md).
-- Each says: the declaration gofacts reads from the tree under check today is, up to the names of its locals,
-- the one the author of the model saw. `rfl` on two literals: kernel-checked, no axioms.
import Juniper.Generated.PinMerge
import Juniper.Pinned.Merge

namespace Juniper.Props.PinMerge

theorem pin_chans_Merge_ok : Juniper.Gen.PinMerge.pin_chans_Merge = Juniper.Pinned.Merge.pin_chans_Merge := by rfl
theorem pin_chans_Replicate_ok : Juniper.Gen.PinMerge.pin_chans_Replicate = Juniper.Pinned.Merge.pin_chans_Replicate := by rfl
theorem pin_chans_merge2_ok : Juniper.Gen.PinMerge.pin_chans_merge2 = Juniper.Pinned.Merge.pin_chans_merge2 := by rfl
theorem pin_chans_merge3_ok : Juniper.Gen.PinMerge.pin_chans_merge3 = Juniper.Pinned.Merge.pin_chans_merge3 := by rfl
theorem pin_stream_Merge_ok : Juniper.Gen.PinMerge.pin_stream_Merge = Juniper.Pinned.Merge.pin_stream_Merge := by rfl
theorem pin_stream_Pipe_ok : Juniper.Gen.PinMerge.pin_stream_Pipe = Juniper.Pinned.Merge.pin_stream_Pipe := by rfl
theorem pin_stream_PipeSender_Close_ok : Juniper.Gen.PinMerge.pin_stream_PipeSender_Close = Juniper.Pinned.Merge.pin_stream_PipeSender_Close := by rfl
theorem pin_stream_PipeSender_Send_ok : Juniper.Gen.PinMerge.pin_stream_PipeSender_Send = Juniper.Pinned.Merge.pin_stream_PipeSender_Send := by rfl
theorem pin_stream_mergeStream_Close_ok : Juniper.Gen.PinMerge.pin_stream_mergeStream_Close = Juniper.Pinned.Merge.pin_stream_mergeStream_Close := by rfl
theorem pin_stream_mergeStream_Next_ok : Juniper.Gen.PinMerge.pin_stream_mergeStream_Next = Juniper.Pinned.Merge.pin_stream_mergeStream_Next := by rfl
theorem pin_stream_pipeStream_Close_ok : Juniper.Gen.PinMerge.pin_stream_pipeStream_Close = Juniper.Pinned.Merge.pin_stream_pipeStream_Close := by rfl
theorem pin_stream_pipeStream_Next_ok : Juniper.Gen.PinMerge.pin_stream_pipeStream_Next = Juniper.Pinned.Merge.pin_stream_pipeStream_Next := by rfl
theorem pin_chans_vars_ok : Juniper.Gen.PinMerge.pin_chans_vars = Juniper.Pinned.Merge.pin_chans_vars := by rfl
theorem pin_stream_type_Peekable_ok : Juniper.Gen.PinMerge.pin_stream_type_Peekable = Juniper.Pinned.Merge.pin_stream_type_Peekable := by rfl
theorem pin_stream_type_PipeSender_ok : Juniper.Gen.PinMerge.pin_stream_type_PipeSender = Juniper.Pinned.Merge.pin_stream_type_PipeSender := by rfl
theorem pin_stream_type_Stream_ok : Juniper.Gen.PinMerge.pin_stream_type_Stream = Juniper.Pinned.Merge.pin_stream_type_Stream := by rfl
theorem pin_stream_type_batchStream_ok : Juniper.Gen.PinMerge.pin_stream_type_batchStream = Juniper.Pinned.Merge.pin_stream_type_batchStream := by rfl
theorem pin_stream_type_chanStream_ok : Juniper.Gen.PinMerge.pin_stream_type_chanStream = Juniper.Pinned.Merge.pin_stream_type_chanStream := by rfl
theorem pin_stream_type_chunkStream_ok : Juniper.Gen.PinMerge.pin_stream_type_chunkStream = Juniper.Pinned.Merge.pin_stream_type_chunkStream := by rfl
theorem pin_stream_type_compactStream_ok : Juniper.Gen.PinMerge.pin_stream_type_compactStream = Juniper.Pinned.Merge.pin_stream_type_compactStream := by rfl
theorem pin_stream_type_emptyStream_ok : Juniper.Gen.PinMerge.pin_stream_type_emptyStream = Juniper.Pinned.Merge.pin_stream_type_emptyStream := by rfl
theorem pin_stream_type_errorStream_ok : Juniper.Gen.PinMerge.pin_stream_type_errorStream = Juniper.Pinned.Merge.pin_stream_type_errorStream := by rfl
theorem pin_stream_type_filterStream_ok : Juniper.Gen.PinMerge.pin_stream_type_filterStream = Juniper.Pinned.Merge.pin_stream_type_filterStream := by rfl
theorem pin_stream_type_firstStream_ok : Juniper.Gen.PinMerge.pin_stream_type_firstStream = Juniper.Pinned.Merge.pin_stream_type_firstStream := by rfl
theorem pin_stream_type_flattenSlicesStream_ok : Juniper.Gen.PinMerge.pin_stream_type_flattenSlicesStream = Juniper.Pinned.Merge.pin_stream_type_flattenSlicesStream := by rfl
theorem pin_stream_type_flattenStream_ok : Juniper.Gen.PinMerge.pin_stream_type_flattenStream = Juniper.Pinned.Merge.pin_stream_type_flattenStream := by rfl
theorem pin_stream_type_iteratorStream_ok : Juniper.Gen.PinMerge.pin_stream_type_iteratorStream = Juniper.Pinned.Merge.pin_stream_type_iteratorStream := by rfl
theorem pin_stream_type_joinStream_ok : Juniper.Gen.PinMerge.pin_stream_type_joinStream = Juniper.Pinned.Merge.pin_stream_type_joinStream := by rfl
theorem pin_stream_type_mapStream_ok : Juniper.Gen.PinMerge.pin_stream_type_mapStream = Juniper.Pinned.Merge.pin_stream_type_mapStream := by rfl
theorem pin_stream_type_mergeStream_ok : Juniper.Gen.PinMerge.pin_stream_type_mergeStream = Juniper.Pinned.Merge.pin_stream_type_mergeStream := by rfl
theorem pin_stream_type_peekable_ok : Juniper.Gen.PinMerge.pin_stream_type_peekable = Juniper.Pinned.Merge.pin_stream_type_peekable := by rfl
theorem pin_stream_type_pipeStream_ok : Juniper.Gen.PinMerge.pin_stream_type_pipeStream = Juniper.Pinned.Merge.pin_stream_type_pipeStream := by rfl
theorem pin_stream_type_runsInnerStream_ok : Juniper.Gen.PinMerge.pin_stream_type_runsInnerStream = Juniper.Pinned.Merge.pin_stream_type_runsInnerStream := by rfl
theorem pin_stream_type_runsStream_ok : Juniper.Gen.PinMerge.pin_stream_type_runsStream = Juniper.Pinned.Merge.pin_stream_type_runsStream := by rfl
theorem pin_stream_type_whileStream_ok : Juniper.Gen.PinMerge.pin_stream_type_whileStream = Juniper.Pinned.Merge.pin_stream_type_whileStream := by rfl
theorem pin_stream_vars_ok : Juniper.Gen.PinMerge.pin_stream_vars = Juniper.Pinned.Merge.pin_stream_vars := by rfl

end Juniper.Props.PinMerge
