-- Tie theorems of the pins (written by `gofacts -pin` together with Juniper/Pinned/TreeSlots.lean; see notes/pins.md).
-- Each says: the declaration gofacts reads from the tree under check today is, up to the names of its locals,
-- the one the author of the model saw. `rfl` on two literals: kernel-checked, no axioms.
import Juniper.Generated.PinTreeSlots
import Juniper.Pinned.TreeSlots

namespace Juniper.Props.PinTreeSlots

theorem pin_container_tree_amalgam1_Child_ok : Juniper.Gen.PinTreeSlots.pin_container_tree_amalgam1_Child = Juniper.Pinned.TreeSlots.pin_container_tree_amalgam1_Child := by rfl
theorem pin_container_tree_amalgam1_Key_ok : Juniper.Gen.PinTreeSlots.pin_container_tree_amalgam1_Key = Juniper.Pinned.TreeSlots.pin_container_tree_amalgam1_Key := by rfl
theorem pin_container_tree_amalgam1_Value_ok : Juniper.Gen.PinTreeSlots.pin_container_tree_amalgam1_Value = Juniper.Pinned.TreeSlots.pin_container_tree_amalgam1_Value := by rfl
theorem pin_container_tree_btree_Delete_ok : Juniper.Gen.PinTreeSlots.pin_container_tree_btree_Delete = Juniper.Pinned.TreeSlots.pin_container_tree_btree_Delete := by rfl
theorem pin_container_tree_btree_insertIntoLeaf_ok : Juniper.Gen.PinTreeSlots.pin_container_tree_btree_insertIntoLeaf = Juniper.Pinned.TreeSlots.pin_container_tree_btree_insertIntoLeaf := by rfl
theorem pin_container_tree_btree_merge_ok : Juniper.Gen.PinTreeSlots.pin_container_tree_btree_merge = Juniper.Pinned.TreeSlots.pin_container_tree_btree_merge := by rfl
theorem pin_container_tree_btree_mergeTwo_ok : Juniper.Gen.PinTreeSlots.pin_container_tree_btree_mergeTwo = Juniper.Pinned.TreeSlots.pin_container_tree_btree_mergeTwo := by rfl
theorem pin_container_tree_btree_overfill_ok : Juniper.Gen.PinTreeSlots.pin_container_tree_btree_overfill = Juniper.Pinned.TreeSlots.pin_container_tree_btree_overfill := by rfl
theorem pin_container_tree_btree_removeRightmost_ok : Juniper.Gen.PinTreeSlots.pin_container_tree_btree_removeRightmost = Juniper.Pinned.TreeSlots.pin_container_tree_btree_removeRightmost := by rfl
theorem pin_container_tree_btree_rotateLeft_ok : Juniper.Gen.PinTreeSlots.pin_container_tree_btree_rotateLeft = Juniper.Pinned.TreeSlots.pin_container_tree_btree_rotateLeft := by rfl
theorem pin_container_tree_btree_rotateRight_ok : Juniper.Gen.PinTreeSlots.pin_container_tree_btree_rotateRight = Juniper.Pinned.TreeSlots.pin_container_tree_btree_rotateRight := by rfl
theorem pin_container_tree_btree_searchNode_ok : Juniper.Gen.PinTreeSlots.pin_container_tree_btree_searchNode = Juniper.Pinned.TreeSlots.pin_container_tree_btree_searchNode := by rfl
theorem pin_container_tree_btree_siblings_ok : Juniper.Gen.PinTreeSlots.pin_container_tree_btree_siblings = Juniper.Pinned.TreeSlots.pin_container_tree_btree_siblings := by rfl
theorem pin_container_tree_btree_steal_ok : Juniper.Gen.PinTreeSlots.pin_container_tree_btree_steal = Juniper.Pinned.TreeSlots.pin_container_tree_btree_steal := by rfl
theorem pin_container_tree_insertOne_ok : Juniper.Gen.PinTreeSlots.pin_container_tree_insertOne = Juniper.Pinned.TreeSlots.pin_container_tree_insertOne := by rfl
theorem pin_container_tree_newAmalgam1_ok : Juniper.Gen.PinTreeSlots.pin_container_tree_newAmalgam1 = Juniper.Pinned.TreeSlots.pin_container_tree_newAmalgam1 := by rfl
theorem pin_container_tree_removeOne_ok : Juniper.Gen.PinTreeSlots.pin_container_tree_removeOne = Juniper.Pinned.TreeSlots.pin_container_tree_removeOne := by rfl
theorem pin_container_tree_rightmostLeaf_ok : Juniper.Gen.PinTreeSlots.pin_container_tree_rightmostLeaf = Juniper.Pinned.TreeSlots.pin_container_tree_rightmostLeaf := by rfl
theorem pin_container_tree_type_Bound_ok : Juniper.Gen.PinTreeSlots.pin_container_tree_type_Bound = Juniper.Pinned.TreeSlots.pin_container_tree_type_Bound := by rfl
theorem pin_container_tree_type_KVPair_ok : Juniper.Gen.PinTreeSlots.pin_container_tree_type_KVPair = Juniper.Pinned.TreeSlots.pin_container_tree_type_KVPair := by rfl
theorem pin_container_tree_type_Map_ok : Juniper.Gen.PinTreeSlots.pin_container_tree_type_Map = Juniper.Pinned.TreeSlots.pin_container_tree_type_Map := by rfl
theorem pin_container_tree_type_Set_ok : Juniper.Gen.PinTreeSlots.pin_container_tree_type_Set = Juniper.Pinned.TreeSlots.pin_container_tree_type_Set := by rfl
theorem pin_container_tree_type_amalgam1_ok : Juniper.Gen.PinTreeSlots.pin_container_tree_type_amalgam1 = Juniper.Pinned.TreeSlots.pin_container_tree_type_amalgam1 := by rfl
theorem pin_container_tree_type_backwardIterator_ok : Juniper.Gen.PinTreeSlots.pin_container_tree_type_backwardIterator = Juniper.Pinned.TreeSlots.pin_container_tree_type_backwardIterator := by rfl
theorem pin_container_tree_type_boundType_ok : Juniper.Gen.PinTreeSlots.pin_container_tree_type_boundType = Juniper.Pinned.TreeSlots.pin_container_tree_type_boundType := by rfl
theorem pin_container_tree_type_btree_ok : Juniper.Gen.PinTreeSlots.pin_container_tree_type_btree = Juniper.Pinned.TreeSlots.pin_container_tree_type_btree := by rfl
theorem pin_container_tree_type_cursor_ok : Juniper.Gen.PinTreeSlots.pin_container_tree_type_cursor = Juniper.Pinned.TreeSlots.pin_container_tree_type_cursor := by rfl
theorem pin_container_tree_type_forwardIterator_ok : Juniper.Gen.PinTreeSlots.pin_container_tree_type_forwardIterator = Juniper.Pinned.TreeSlots.pin_container_tree_type_forwardIterator := by rfl
theorem pin_container_tree_type_node_ok : Juniper.Gen.PinTreeSlots.pin_container_tree_type_node = Juniper.Pinned.TreeSlots.pin_container_tree_type_node := by rfl
theorem pin_container_tree_vars_ok : Juniper.Gen.PinTreeSlots.pin_container_tree_vars = Juniper.Pinned.TreeSlots.pin_container_tree_vars := by rfl

end Juniper.Props.PinTreeSlots
