import Juniper.Model.XList
/-!
# C06 — xlist.List equals an ideal sequence of node handles (property theorems)
-/
namespace Juniper.Props.C06
open Juniper.Gen.XList Juniper.Model.XList

/-- No statement of package xlist assigns to (or takes the address of) a node's `Value`. -/
theorem no_value_writes : valueWrites = 0 := by decide

end Juniper.Props.C06
