import Juniper.Proofs.XListRep
/-!
# C06 — xlist.List equals an ideal sequence of node handles (property theorems)

The model is the interpreter `Model.XList.apply` running the statement lists `Gen.XList.<op>Stmts`
regenerated from `container/xlist/xlist.go`; `Rep l h` (in `Spec/XList.lean`) says, clause by clause
as in the property text, that the heap `h` represents the ideal sequence of handles `l`:
both walks, both ends, `Len`, distinct handles. Handles are creation indices; `h.nextId` is the
identity of the next node to be created. Helper lemmas live in `Proofs/XList*.lean`.
-/
namespace Juniper.Props.C06
open Juniper.Gen.XList Juniper.Model.XList Juniper.Spec.XList Juniper.Proofs.XList

/-- a concrete non-trivial history used by the non-vacuity examples: ends in the sequence `[3, 0, 2]`
with node 1 removed -/
def demoOps : List Op :=
  [.pushBack 10, .pushFront 11, .insertAfter 12 0, .moveBefore 1 2, .remove 1, .pushFront 13]

theorem demo_wf : HistWF [] 0 demoOps := by
  simp [demoOps, HistWF, Op.wellFormed, step, nextFresh, Op.creates, insBefore, insAfter]

/-- No statement of package xlist assigns to (or takes the address of) a node's `Value`. -/
theorem no_value_writes : valueWrites = 0 := by decide

/-- The zero `List` represents the empty sequence. -/
theorem rep_init : Rep [] ({} : Heap) :=
  rep_of_inv ⟨linked_nil rfl rfl, rfl, by simp, fun x _ => Store.get_empty x⟩

/-- **Every operation, applied with handles of nodes currently in the list, keeps the
representation**: it does not panic, returns the new handle (creating operations) and the heap
represents the result of the same operation on the ideal sequence. Covers all ten operations and
all relative positions of node and mark (adjacent either way, identical, at the ends, single
element lists). -/
theorem rep_step {l : List Nat} {h : Heap} (hR : Rep l h) (o : Op) (hwf : Op.wellFormed l o) :
    let r := apply h o
    r.panicked = false ∧ r.ret = (if Op.creates o then some h.nextId else none) ∧
      Rep (step l h.nextId o) r.h ∧ r.h.nextId = nextFresh h.nextId o := by
  obtain ⟨h1, h2, h3, h4, _⟩ := step_inv (inv_of_rep hR) o hwf
  exact ⟨h1, h2, rep_of_inv h3, h4⟩

/-- the heap reached by `demoOps` -/
def demoHeap : Heap := (runP {} demoOps).1

/-- Non-vacuity witness used by the examples below: the heap reached by the six operations of
`demoOps` represents `[3, 0, 2]` (node 1 was moved and then removed). -/
theorem demo_rep : Rep [3, 0, 2] demoHeap := by
  have := (history_inv (R := []) (inv_of_rep rep_init) (by simp [Unlinked]) demoOps demo_wf).2.1
  have e : runSpec [] 0 demoOps = [3, 0, 2] := by
    simp [demoOps, runSpec, step, nextFresh, Op.creates, insBefore, insAfter]
  rw [e] at this
  exact rep_of_inv this

/-- what the accessors return on the witness: both walks, the ends and `Len`, computed -/
example : walk (nextOf demoHeap) (frontOf demoHeap) 9 = [3, 0, 2] ∧
    walk (prevOf demoHeap) (backOf demoHeap) 9 = [2, 0, 3] ∧ lenOf demoHeap = 3 ∧
    prevOf demoHeap 1 = none ∧ nextOf demoHeap 1 = none ∧ valueOf demoHeap 1 = some 11 := by decide

example : Op.wellFormed [3, 0, 2] (.moveBefore 2 3) ∧ Op.wellFormed [3, 0, 2] (.insertAfter 7 0) := by
  simp [Op.wellFormed]
example := rep_step demo_rep (.moveAfter 3 0) (by simp [Op.wellFormed])

/-! ## The ten operations one by one (instances of `rep_step` with the ideal result spelled out) -/

/-- `PushFront`: the new handle is the first element. -/
theorem rep_pushFront {l : List Nat} {h : Heap} (hR : Rep l h) (v : Int) :
    (apply h (.pushFront v)).ret = some h.nextId ∧ Rep (h.nextId :: l) (apply h (.pushFront v)).h :=
  let r := rep_step hR (.pushFront v) trivial; ⟨r.2.1, r.2.2.1⟩

example : Rep [demoHeap.nextId, 3, 0, 2] (apply demoHeap (.pushFront 5)).h := (rep_pushFront demo_rep 5).2

/-- `PushBack`: the new handle is the last element. -/
theorem rep_pushBack {l : List Nat} {h : Heap} (hR : Rep l h) (v : Int) :
    (apply h (.pushBack v)).ret = some h.nextId ∧ Rep (l ++ [h.nextId]) (apply h (.pushBack v)).h :=
  let r := rep_step hR (.pushBack v) trivial; ⟨r.2.1, r.2.2.1⟩

example : Rep [3, 0, 2, demoHeap.nextId] (apply demoHeap (.pushBack 5)).h := (rep_pushBack demo_rep 5).2

/-- `InsertBefore(value, mark)` with `mark` in the list. -/
theorem rep_insertBefore {l : List Nat} {h : Heap} (hR : Rep l h) (v : Int) {m : Nat} (hm : m ∈ l) :
    (apply h (.insertBefore v m)).ret = some h.nextId ∧
      Rep (insBefore l m h.nextId) (apply h (.insertBefore v m)).h :=
  let r := rep_step hR (.insertBefore v m) hm; ⟨r.2.1, r.2.2.1⟩

example : Rep [3, demoHeap.nextId, 0, 2] (apply demoHeap (.insertBefore 5 0)).h := by
  simpa [insBefore] using (rep_insertBefore demo_rep 5 (m := 0) (by simp)).2

/-- `InsertAfter(value, mark)` with `mark` in the list. -/
theorem rep_insertAfter {l : List Nat} {h : Heap} (hR : Rep l h) (v : Int) {m : Nat} (hm : m ∈ l) :
    (apply h (.insertAfter v m)).ret = some h.nextId ∧
      Rep (insAfter l m h.nextId) (apply h (.insertAfter v m)).h :=
  let r := rep_step hR (.insertAfter v m) hm; ⟨r.2.1, r.2.2.1⟩

example : Rep [3, 0, 2, demoHeap.nextId] (apply demoHeap (.insertAfter 5 2)).h := by
  simpa [insAfter] using (rep_insertAfter demo_rep 5 (m := 2) (by simp)).2

/-- `Remove(node)` with `node` in the list. -/
theorem rep_remove {l : List Nat} {h : Heap} (hR : Rep l h) {n : Nat} (hn : n ∈ l) :
    Rep (l.erase n) (apply h (.remove n)).h :=
  (rep_step hR (.remove n) hn).2.2.1

example : Rep [3, 2] (apply demoHeap (.remove 0)).h := by
  simpa using rep_remove demo_rep (n := 0) (by simp)

/-- `MoveBefore(node, mark)`, both in the list; `node == mark` leaves the sequence as it is. -/
theorem rep_moveBefore {l : List Nat} {h : Heap} (hR : Rep l h) {n m : Nat} (hn : n ∈ l) (hm : m ∈ l) :
    Rep (if n = m then l else insBefore (l.erase n) m n) (apply h (.moveBefore n m)).h :=
  (rep_step hR (.moveBefore n m) ⟨hn, hm⟩).2.2.1

/-- node just after mark -/
example : Rep [0, 3, 2] (apply demoHeap (.moveBefore 0 3)).h := by
  simpa [insBefore] using rep_moveBefore demo_rep (n := 0) (m := 3) (by simp) (by simp)
/-- node just before mark: the sequence does not change -/
example : Rep [3, 0, 2] (apply demoHeap (.moveBefore 3 0)).h := by
  simpa [insBefore] using rep_moveBefore demo_rep (n := 3) (m := 0) (by simp) (by simp)
/-- node == mark -/
example : Rep [3, 0, 2] (apply demoHeap (.moveBefore 0 0)).h := by
  simpa using rep_moveBefore demo_rep (n := 0) (m := 0) (by simp) (by simp)

/-- `MoveAfter(node, mark)`, both in the list; `node == mark` leaves the sequence as it is. -/
theorem rep_moveAfter {l : List Nat} {h : Heap} (hR : Rep l h) {n m : Nat} (hn : n ∈ l) (hm : m ∈ l) :
    Rep (if n = m then l else insAfter (l.erase n) m n) (apply h (.moveAfter n m)).h :=
  (rep_step hR (.moveAfter n m) ⟨hn, hm⟩).2.2.1

/-- both ends: the last node moved after... the first -/
example : Rep [3, 2, 0] (apply demoHeap (.moveAfter 2 3)).h := by
  simpa [insAfter] using rep_moveAfter demo_rep (n := 2) (m := 3) (by simp) (by simp)

/-- `MoveToFront(node)` with `node` in the list. -/
theorem rep_moveToFront {l : List Nat} {h : Heap} (hR : Rep l h) {n : Nat} (hn : n ∈ l) :
    Rep (n :: l.erase n) (apply h (.moveToFront n)).h :=
  (rep_step hR (.moveToFront n) hn).2.2.1

example : Rep [2, 3, 0] (apply demoHeap (.moveToFront 2)).h := by
  simpa using rep_moveToFront demo_rep (n := 2) (by simp)

/-- `MoveToBack(node)` with `node` in the list. -/
theorem rep_moveToBack {l : List Nat} {h : Heap} (hR : Rep l h) {n : Nat} (hn : n ∈ l) :
    Rep (l.erase n ++ [n]) (apply h (.moveToBack n)).h :=
  (rep_step hR (.moveToBack n) hn).2.2.1

example : Rep [0, 2, 3] (apply demoHeap (.moveToBack 3)).h := by
  simpa using rep_moveToBack demo_rep (n := 3) (by simp)

/-- `Clear()`. -/
theorem rep_clear {l : List Nat} {h : Heap} (hR : Rep l h) : Rep [] (apply h .clear).h :=
  (rep_step hR .clear trivial).2.2.1

example : Rep [] (apply demoHeap .clear).h := rep_clear demo_rep

/-- `MoveBefore(node, node)` and `MoveAfter(node, node)` do not touch the heap at all (for any
heap and any handle: the early `return` comes before the first assignment). -/
theorem move_self_noop (h : Heap) (n : Nat) :
    (apply h (.moveBefore n n)).h = h ∧ (apply h (.moveAfter n n)).h = h ∧
      (apply h (.moveBefore n n)).panicked = false ∧ (apply h (.moveAfter n n)).panicked = false := by
  simp [apply, runOp, exec, execStmt, execSimples, execSimple, evalP, moveBeforeStmts, moveAfterStmts]

example := move_self_noop demoHeap 0

/-- The documented postcondition of the moves: afterwards `mark.Prev() == node && node.Next() == mark`
(resp. `mark.Next() == node && node.Prev() == mark`). -/
theorem move_postcondition {l : List Nat} {h : Heap} (hR : Rep l h) {n m : Nat} (hn : n ∈ l) (hm : m ∈ l)
    (hnm : n ≠ m) :
    (prevOf (apply h (.moveBefore n m)).h m = some n ∧ nextOf (apply h (.moveBefore n m)).h n = some m) ∧
    (nextOf (apply h (.moveAfter n m)).h m = some n ∧ prevOf (apply h (.moveAfter n m)).h n = some m) := by
  have hI := inv_of_rep hR
  have hnd := hI.linked.nodup
  have hmk : m ∈ l.erase n := (mem_erase_nodup hnd).2 ⟨hm, Ne.symm hnm⟩
  have hnk : n ∉ l.erase n := fun hx => ((mem_erase_nodup hnd).1 hx).2 rfl
  have hkd := hnd.erase n
  obtain ⟨_, _, b3, _⟩ := moveBefore_spec hI hn hm
  obtain ⟨_, _, a3, _⟩ := moveAfter_spec hI hn hm
  simp only [hnm, if_false] at b3 a3
  have hmb : m ∈ insBefore (l.erase n) m n := (mem_insBefore hmk m).2 (Or.inr hmk)
  have hnb : n ∈ insBefore (l.erase n) m n := (mem_insBefore hmk n).2 (Or.inl rfl)
  have hma : m ∈ insAfter (l.erase n) m n := (mem_insAfter hmk m).2 (Or.inr hmk)
  have hna : n ∈ insAfter (l.erase n) m n := (mem_insAfter hmk n).2 (Or.inl rfl)
  refine ⟨⟨?_, ?_⟩, ?_, ?_⟩
  · rw [prevOf_live (b3.linked.live m hmb), b3.linked.prev m hmb, prevIn_insBefore hkd hmk hnk]
    simp [Ne.symm hnm]
  · rw [nextOf_live (b3.linked.live n hnb), b3.linked.next n hnb, nextIn_insBefore hkd hmk hnk]
    simp
  · rw [nextOf_live (a3.linked.live m hma), a3.linked.next m hma, nextIn_insAfter hkd hmk hnk]
    simp [Ne.symm hnm]
  · rw [prevOf_live (a3.linked.live n hna), a3.linked.prev n hna, prevIn_insAfter hkd hmk hnk]
    simp

example := move_postcondition demo_rep (n := 2) (m := 3) (by simp) (by simp) (by decide)

/-- **A removed node has neither neighbour** — and it is the removed node itself (still allocated,
`valueOf … = some _`) whose links are nil, not a never-allocated id for which the totalised
`prevOf`/`nextOf` would answer `none` as well. -/
theorem remove_clears_links {l : List Nat} {h : Heap} (hR : Rep l h) {n : Nat} (hn : n ∈ l) :
    (valueOf (apply h (.remove n)).h n).isSome ∧
    prevOf (apply h (.remove n)).h n = none ∧ nextOf (apply h (.remove n)).h n = none := by
  have hI := inv_of_rep hR
  obtain ⟨_, _, _, h4, h5, h6, _⟩ := remove_spec hI hn
  have hl := (h4.value n (hI.linked.live n hn)).1
  exact ⟨by rw [valueOf_isSome]; exact hl, by rw [prevOf_live hl]; exact h5, by rw [nextOf_live hl]; exact h6⟩

example := remove_clears_links demo_rep (n := 0) (by simp)

/-- **What `Clear` does to the nodes it drops** (audit C06-F2; the reading of "removed" made a theorem instead of a
sentence). `Clear` — its three regenerated statements `l.front = nil; l.back = nil; l.size = 0` — writes the list
header only: the result represents the empty sequence, and *every* node keeps exactly the links and the value it had.
So each node dropped by `Clear` still names its former neighbours: in a list of two or more nodes the former first
node keeps its `Next`, the former second its `Prev`. "A removed node has neither neighbour" therefore holds for the
nodes taken out by `Remove` (`remove_clears_links`, `history_refines`) and is **false** for the nodes dropped by
`Clear` — the wider reading of the sentence is refuted for the code as it is, for every list with at least two nodes,
not assumed away. (Such a handle is not a node of the list any more, so no well-formed history can pass it to an
operation; an unlinking `Clear` would be O(n). If `xlist.go` ever unlinks in `Clear`, this theorem stops compiling
and `history_refines` can be stated for `Clear` as well.) -/
theorem clear_keeps_links_of_dropped_nodes {l : List Nat} {h : Heap} (hR : Rep l h) :
    let r := apply h .clear
    Rep [] r.h ∧
    (∀ x, prevOf r.h x = prevOf h x ∧ nextOf r.h x = nextOf h x ∧ valueOf r.h x = valueOf h x) ∧
    (∀ a b rest, l = a :: b :: rest → nextOf r.h a = some b ∧ prevOf r.h b = some a) := by
  have hI := inv_of_rep hR
  obtain ⟨_, _, h3, h4, _⟩ := clear_spec hI
  have hsame : ∀ x, prevOf (apply h .clear).h x = prevOf h x ∧ nextOf (apply h .clear).h x = nextOf h x ∧
      valueOf (apply h .clear).h x = valueOf h x := by
    intro x; simp [prevOf, nextOf, valueOf, h4]
  refine ⟨rep_of_inv h3, hsame, ?_⟩
  intro a b rest hl
  subst hl
  have hne : a ≠ b := by
    have := hI.linked.nodup
    simp only [List.nodup_cons, List.mem_cons, not_or] at this
    exact this.1.1
  have ha : a ∈ a :: b :: rest := by simp
  have hb : b ∈ a :: b :: rest := by simp
  refine ⟨?_, ?_⟩
  · rw [(hsame a).2.1, nextOf_live (hI.linked.live a ha), hI.linked.next a ha]; simp [nextIn]
  · rw [(hsame b).1, prevOf_live (hI.linked.live b hb), hI.linked.prev b hb]; simp [prevIn]

/-- the concrete instance the audit gave: `PushBack 1; PushBack 2; Clear` — a well-formed history after which node 0
still has node 1 as `Next` and node 1 still has node 0 as `Prev`. -/
example : let h := (runP {} [.pushBack 1, .pushBack 2, .clear]).1
    HistWF [] 0 [.pushBack 1, .pushBack 2, .clear] ∧ nextOf h 0 = some 1 ∧ prevOf h 1 = some 0 := by
  refine ⟨by simp [HistWF, Op.wellFormed], by decide, by decide⟩

example := (clear_keeps_links_of_dropped_nodes demo_rep).2.2 3 0 [2] rfl

/-- **Values are never touched** and **handles keep their identity**: after any well-formed
operation every node that existed still exists with the value it had, a created node carries exactly
the value given and a new identity, and the nodes that are neither in the list nor created by the
operation are not written at all (their links included). -/
theorem values_untouched {l : List Nat} {h : Heap} (hR : Rep l h) (o : Op) (hwf : Op.wellFormed l o) :
    let r := apply h o
    (∀ x, (valueOf h x).isSome → valueOf r.h x = valueOf h x) ∧
    (∀ x, x ∉ l → x ≠ h.nextId → r.h.nodes.get x = h.nodes.get x) ∧
    (∀ v, (o = .pushFront v ∨ o = .pushBack v ∨ (∃ m, o = .insertBefore v m) ∨ ∃ m, o = .insertAfter v m) →
      valueOf r.h h.nextId = some v ∧ valueOf h h.nextId = none ∧ h.nextId ∉ l) := by
  have hI := inv_of_rep hR
  obtain ⟨_, _, _, _, hF⟩ := step_inv hI o hwf
  have hnl : h.nextId ∉ l := fun hx => by have := hI.bound _ hx; omega
  refine ⟨?_, ?_, ?_⟩
  · intro x hx
    rw [valueOf_isSome] at hx
    obtain ⟨v1, v2⟩ := hF.value x hx
    simp only [valueOf, Store.get_of_isSome hx, Store.get_of_isSome v1, Option.map_some, v2]
  · intro x hx hxn
    exact hF.out x (by simp [hx, hxn])
  · intro v hv
    refine ⟨?_, by simp [valueOf, hI.fresh _ (Nat.le_refl _)], hnl⟩
    rcases hv with rfl | rfl | ⟨m, rfl⟩ | ⟨m, rfl⟩
    · obtain ⟨_, _, _, _, g, _⟩ := pushFront_spec hI v; simp [valueOf, g]
    · obtain ⟨_, _, _, _, g, _⟩ := pushBack_spec hI v; simp [valueOf, g]
    · obtain ⟨_, _, _, _, g, _⟩ := insertBefore_spec hI hwf v; simp [valueOf, g]
    · obtain ⟨_, _, _, _, g, _⟩ := insertAfter_spec hI hwf v; simp [valueOf, g]

example := values_untouched demo_rep (.insertBefore 9 3) (by simp [Op.wellFormed])

/-- **Every history refines the ideal sequence.** From any heap that represents `l`, any sequence
of operations each applied with handles of nodes in the list at that moment: no operation panics, the
final heap represents the result of the same history on the ideal sequence (so both walks, both
ends and `Len` are right after every prefix, this being a statement about arbitrary `os`), no node
that existed before the history changes its value (for the nodes created during the history see
`created_value_kept`), and every node removed by a `Remove` of the history is still allocated and has
neither neighbour at the end. ("Removed" is read as "removed by `Remove`": the nodes dropped by
`Clear` keep their stale links — the code does not unlink them — a disclosed narrowing of the text,
`checks/C06.json` assumptions.) -/
theorem history_refines {l : List Nat} {h : Heap} (hR : Rep l h) (os : List Op)
    (hwf : HistWF l h.nextId os) :
    let t := runP h os
    t.2 = false ∧ Rep (runSpec l h.nextId os) t.1 ∧
      (∀ x, (valueOf h x).isSome → valueOf t.1 x = valueOf h x) ∧
      (∀ n ∈ removedIn os, n ∉ runSpec l h.nextId os ∧ (valueOf t.1 n).isSome ∧
        prevOf t.1 n = none ∧ nextOf t.1 n = none) := by
  obtain ⟨h1, h2, h3, h4⟩ := history_inv (R := []) (inv_of_rep hR) (by simp [Unlinked]) os hwf
  refine ⟨h1, rep_of_inv h2, ?_, ?_⟩
  · intro x hx
    rw [valueOf_isSome] at hx
    obtain ⟨v1, v2⟩ := h3 x hx
    simp only [valueOf, Store.get_of_isSome hx, Store.get_of_isSome v1, Option.map_some, v2]
  · intro n hn
    obtain ⟨u1, u2, u3, u4⟩ := h4 n (by simpa using hn)
    exact ⟨u1, by rw [valueOf_isSome]; exact u2, by rw [prevOf_live u2]; exact u3, by rw [nextOf_live u2]; exact u4⟩

example := history_refines demo_rep [.moveToBack 3, .remove 0, .clear, .pushBack 1]
  (by simp [HistWF, Op.wellFormed, step])

/-- **Values are never touched, whole-history form for nodes created mid-history**: every node
created by a `PushFront` / `PushBack` / `InsertBefore` / `InsertAfter` of the history still carries,
at the end of the history, exactly the value it was created with (whatever moves, removals and
`Clear`s came after). Together with conjunct 3 of `history_refines` (nodes that existed before the
history) this is "no value ever changes" for every node. -/
theorem created_value_kept {l : List Nat} {h : Heap} (hR : Rep l h) (os : List Op)
    (hwf : HistWF l h.nextId os) :
    ∀ c ∈ createdIn h.nextId os, valueOf (runP h os).1 c.1 = some c.2 := by
  induction os generalizing l h with
  | nil => intro c hc; simp [createdIn] at hc
  | cons o os ih =>
    obtain ⟨hwo, hwt⟩ := hwf
    obtain ⟨_, _, hR', hn'⟩ := rep_step hR o hwo
    have hwt' : HistWF (step l h.nextId o) (apply h o).h.nextId os := by rw [hn']; exact hwt
    have htail := ih hR' hwt'
    rw [hn'] at htail
    have hrun : (runP h (o :: os)).1 = (runP (apply h o).h os).1 := rfl
    intro c hc
    rw [hrun]
    cases hv : Op.createdValue o with
    | none =>
      simp only [createdIn, hv] at hc
      exact htail c hc
    | some v =>
      simp only [createdIn, hv, List.mem_cons] at hc
      rcases hc with rfl | hc
      · -- the node created by `o`: it has value `v` right after `o`, and the rest of the history
        -- does not touch values of existing nodes
        have hcr : o = .pushFront v ∨ o = .pushBack v ∨ (∃ m, o = .insertBefore v m) ∨
            ∃ m, o = .insertAfter v m := by
          cases o <;> simp [Op.createdValue] at hv <;> subst hv <;> simp
        have hval := ((values_untouched hR o hwo).2.2 v hcr).1
        obtain ⟨_, _, hkeep, _⟩ := history_refines hR' os hwt'
        rw [hkeep h.nextId (by rw [hval]; rfl)]
        exact hval
      · exact htail c hc

example : createdIn 4 [.moveToBack 3, .pushBack 7, .clear, .insertAfter 9 4] = [(4, 7), (5, 9)] := by
  decide

/-- The same from the zero `List`: every history of the ten operations. -/
theorem history_from_empty (os : List Op) (hwf : HistWF [] 0 os) :
    (runP {} os).2 = false ∧ Rep (runSpec [] 0 os) (runP {} os).1 ∧
      (∀ c ∈ createdIn 0 os, valueOf (runP {} os).1 c.1 = some c.2) ∧
      ∀ n ∈ removedIn os, prevOf (runP {} os).1 n = none ∧ nextOf (runP {} os).1 n = none := by
  obtain ⟨h1, h2, _, h4⟩ := history_refines rep_init os hwf
  exact ⟨h1, h2, created_value_kept rep_init os hwf, fun n hn => (h4 n hn).2.2⟩

example := history_from_empty demoOps demo_wf

end Juniper.Props.C06
