import Juniper.Model.Watch
/-!
# C18 — Watchable / Future / Lazy / xsync.Map (property theorems)
-/
namespace Juniper.Props.C18
open Juniper.Model.Watch

/-- The shape of `Watchable.Set/Value`, `Future.Fill/Wait/WaitContext` and `Lazy` regenerated from
the source is the one the C18 theorems are about. -/
theorem wcfg_is_std : WCfg.gen = WCfg.std := by decide

end Juniper.Props.C18
