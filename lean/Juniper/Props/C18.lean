import Juniper.Proofs.WatchLive
/-!
# C18 — Watchable / Future / Lazy / xsync.Map (property theorems)

The typed-map theorems are about the wrapper functions of `Model/Watch.lean` instantiated with
`MapCfg.gen` (the classified bodies of `Load`, `LoadAndDelete`, `LoadOrStore`, `Swap` and of the
closure of `Range`, as regenerated from the source); the Watchable / Future theorems are about
`wstep WCfg.gen` / `fstep FCfg.gen`, whose shape is tied to the classified statements of `Set`,
`Value`, `Fill`, `Wait`, `WaitContext`, `NewFuture` and to the declared field types
(`p atomic.Pointer[watchableInner[T]]`, `c chan struct{}`); `lazy_once` is about `lstep lazyOnceGen`.
`sync.Map`, `sync.OnceValue`, `atomic.Pointer`, channels and contexts are modelled by their
documented behaviour.

Every theorem discharges its tie to the regenerated facts inside its own proof
(`have hgen : … .gen = … .std := by decide`): when a fact changes, the property theorem itself stops
compiling. No theorem of this file has an auto-param (`:= by decide`) hypothesis.
-/
namespace Juniper.Props.C18
open Juniper.Model.Watch Juniper.Proofs.Watch

section TypedMap
variable {K UK V UV : Type} [DecidableEq UK] [DecidableEq UV]

/-- **xsync.Map returns for every operation and every key state exactly what sync.Map returns**
(read back into the type parameters, the nil interface being the zero value) **and never panics**;
the underlying `sync.Map` goes through exactly the states it would go through when used directly.
For every kind of key and value type (`kk`, `vk` arbitrary: interface or not), every map state
`m` (so: absent keys, present keys, stored nil interface values) and all arguments.
`Range`, for EVERY callback `f` (so: one that stops at the first, at a middle, at the last entry or
never): the typed `Range` invokes `f` on exactly the typed images of the entries that
`sync.Map.Range` hands to a callback that answers what `f` answers on the typed image — the same
entries, in the same order, stopping at the same position (all entries up to and including the
first on which `f` returns false).
The tie to the source is `MapCfg.sound MapCfg.gen` (`Proofs/Watch.lean`), not equality with one fixed configuration:
every assertion comma-ok, no absent-key guard in `LoadOrStore`, the closure of `Range` as classified, the forwarding
and the method set intact — a source that adds or drops the (then immaterial) absent-key guard in `Load`,
`LoadAndDelete` or `Swap` still satisfies it (audit C18 F7), a plain assertion `x.(V)` does not. -/
theorem typedMap_refines_syncMap (kk : Kind K UK) (vk : Kind V UV) (m : SMap UK UV) (k : K) (v old new : V)
    (f : K → V → Bool) :
    tLoad MapCfg.gen kk vk m k = (m, .ok (vk.ofAny (m.load (kk.toAny k)).1, (m.load (kk.toAny k)).2)) ∧
    tStore kk vk m k v = (m.store (kk.toAny k) (vk.toAny v), .ok ()) ∧
    tDelete kk m k = (m.delete (kk.toAny k), .ok ()) ∧
    tLoadAndDelete MapCfg.gen kk vk m k =
      ((m.loadAndDelete (kk.toAny k)).1,
        .ok (vk.ofAny (m.loadAndDelete (kk.toAny k)).2.1, (m.loadAndDelete (kk.toAny k)).2.2)) ∧
    tLoadOrStore MapCfg.gen kk vk m k v =
      ((m.loadOrStore (kk.toAny k) (vk.toAny v)).1,
        .ok (vk.ofAny (m.loadOrStore (kk.toAny k) (vk.toAny v)).2.1, (m.loadOrStore (kk.toAny k) (vk.toAny v)).2.2)) ∧
    tSwap MapCfg.gen kk vk m k v =
      ((m.swap (kk.toAny k) (vk.toAny v)).1,
        .ok (vk.ofAny (m.swap (kk.toAny k) (vk.toAny v)).2.1, (m.swap (kk.toAny k) (vk.toAny v)).2.2)) ∧
    tCompareAndSwap kk vk m k old new =
      ((m.compareAndSwap (kk.toAny k) (vk.toAny old) (vk.toAny new)).1,
        .ok (m.compareAndSwap (kk.toAny k) (vk.toAny old) (vk.toAny new)).2) ∧
    tCompareAndDelete kk vk m k old =
      ((m.compareAndDelete (kk.toAny k) (vk.toAny old)).1, .ok (m.compareAndDelete (kk.toAny k) (vk.toAny old)).2) ∧
    tRange MapCfg.gen kk vk m f =
      .ok ((m.rangeWith (fun k' v' => f (kk.ofAny k') (vk.ofAny v'))).map (fun p => (kk.ofAny p.1, vk.ofAny p.2))) := by
  have hgen : MapCfg.sound MapCfg.gen = true := by decide
  obtain ⟨h1, h2, h3, h4, h5⟩ := typed_of_sound MapCfg.gen hgen kk vk m k v f
  exact ⟨h1, rfl, rfl, h2, h3, h4, rfl, rfl, h5⟩

/-- **… reporting absent values as the zero value rather than panicking**: on a key that is not in
the map, `Load`, `LoadAndDelete` and `Swap` return the zero value and `false`. -/
theorem typedMap_absent_is_zero (kk : Kind K UK) (vk : Kind V UV) (m : SMap UK UV) (k : K) (v : V)
    (habs : m.find (kk.toAny k) = none) :
    (tLoad MapCfg.gen kk vk m k).2 = .ok (vk.zero, false) ∧
    (tLoadAndDelete MapCfg.gen kk vk m k).2 = .ok (vk.zero, false) ∧
    (tSwap MapCfg.gen kk vk m k v).2 = .ok (vk.zero, false) := by
  have h := typedMap_refines_syncMap kk vk m k v v v (fun _ _ => true)
  rw [h.1, h.2.2.2.1, h.2.2.2.2.2.1]
  simp [SMap.load, SMap.loadAndDelete, SMap.swap, habs, Kind.ofAny]

/-- both kinds of type parameter are covered: a value survives the round trip through
`interface{}` for a non-interface type (`int`) and for an interface type (`error`, `any`), where the
nil interface is the zero value -/
theorem kinds_lawful (T : Type) (zero : T) (U : Type) : (concrete T zero).Lawful ∧ (iface U).Lawful := by
  constructor
  · intro t; rfl
  · intro t; cases t <;> rfl

/-- **what went in through the wrapper comes out of it**, for value types that are and that are not interfaces:
after `Store(k, v)`, `Load(k)` returns exactly `v` and `true` — for every kind of value type whose values survive the
round trip through `interface{}` (`Lawful`; both `concrete` and `iface` are, `kinds_lawful`), in particular a stored
nil `error` comes back as nil, `true` and a stored `0` as `0`, `true` (not as "absent"). -/
theorem typedMap_store_then_load (kk : Kind K UK) (vk : Kind V UV) (hv : vk.Lawful) (m : SMap UK UV) (k : K) (v : V) :
    (tLoad MapCfg.gen kk vk (tStore kk vk m k v).1 k).2 = .ok (v, true) := by
  have h := (typedMap_refines_syncMap kk vk (tStore kk vk m k v).1 k v v v (fun _ _ => true)).1
  rw [h]
  simp only [tStore, smap_load_store, hv v]

/-- … instantiated at both kinds (this is where `kinds_lawful` is used) -/
theorem typedMap_store_then_load_both_kinds (T : Type) (zero : T) (U : Type) [DecidableEq T] [DecidableEq U]
    (m1 : SMap T T) (m2 : SMap T U) (k v : T) (e : Option U) :
    (tLoad MapCfg.gen (concrete T zero) (concrete T zero) (tStore (concrete T zero) (concrete T zero) m1 k v).1 k).2
      = .ok (v, true) ∧
    (tLoad MapCfg.gen (concrete T zero) (iface U) (tStore (concrete T zero) (iface U) m2 k e).1 k).2 = .ok (e, true) :=
  ⟨typedMap_store_then_load _ _ (kinds_lawful T zero U).1 m1 k v,
   typedMap_store_then_load _ _ (kinds_lawful T zero U).2 m2 k e⟩

/-- robustness of the tie (audit C18 F7): a source without the absent-key guard in `Load` and with one in `Swap` —
behaviourally the same wrapper — is still `sound`; a plain assertion in `Load`, or a guard in `LoadOrStore`, is not. -/
example : MapCfg.sound { MapCfg.gen with loadGuard := false, swapGuard := true } = true ∧
    MapCfg.sound { MapCfg.gen with loadAssert := .plain } = false ∧
    MapCfg.sound { MapCfg.gen with losGuard := true } = false := by decide

/-- non-vacuity: `V = error` with a stored nil value, and an absent key -/
example : tLoad MapCfg.gen (concrete Int 0) (iface Int) [(some 1, none)] 1 = ([(some 1, none)], .ok (none, true)) ∧
    (tSwap MapCfg.gen (concrete Int 0) (concrete Int 0) [] 5 7).2 = .ok (0, false) := by decide

/-- non-vacuity of the `Range` conjunct: `K = int`, `V = error`, three entries (the second one a
stored nil value), a callback that stops at the second entry: `f` is invoked on the first two
entries and not on the third; a callback that never stops sees all three; on the empty map `f`
is not called. -/
example :
    tRange MapCfg.gen (concrete Int 0) (iface Int) [(some 1, some 10), (some 2, none), (some 3, some 30)]
      (fun k _ => decide (k < 2)) = .ok [(1, some 10), (2, none)] ∧
    tRange MapCfg.gen (concrete Int 0) (iface Int) [(some 1, some 10), (some 2, none), (some 3, some 30)]
      (fun _ _ => true) = .ok [(1, some 10), (2, none), (3, some 30)] ∧
    tRange MapCfg.gen (concrete Int 0) (iface Int) [(some 1, some 10), (some 2, none), (some 3, some 30)]
      (fun _ _ => false) = .ok [(1, some 10)] ∧
    tRange MapCfg.gen (concrete Int 0) (iface Int) [] (fun _ _ => false) = .ok [] := by decide

end TypedMap

/-! ## Watchable -/

/-- **`Value` returns the most recently `Set` value (the zero value before the first `Set`)**, for
all interleavings of concurrent `Set` and `Value` calls, `Value` racing the first `Set` included:
a `Value` call that has returned cell `c` read the pointer for the last time when `lin` `Set`s had
swapped (`lin` is recorded by the model at that read), and the value of `c` is the last of those
`lin` values — `none`, the zero value, if `lin = 0`. -/
theorem value_is_latest_set {s : WState} {j c lin : Nat} (hr : WReach WCfg.gen s)
    (hj : s.readers[j]? = some (.done c lin)) :
    lin ≤ s.hist.length ∧ (cellAt s c).val = latest (s.hist.take lin) := by
  have hgen : WCfg.gen = WCfg.std := by decide
  rw [hgen] at hr
  have hI := winv_reach hr
  obtain ⟨ce, hce, he⟩ := hI.reader j c lin hj
  obtain ⟨h1, h2, _, _⟩ := hI.cell c ce hce
  subst he
  simp only [cellAt, hce, Option.getD_some]
  exact ⟨h1, h2⟩

example : ∃ s, WReach WCfg.gen s ∧ s.readers[0]? = some (.done 1 1) ∧ (cellAt s 1).val = some 7 ∧ s.hist = [7, 8] :=
  ⟨_, .step (.swap 1) (.step (.reload 0) (.step (.swap 0) (.step (.cas 0) (.step (.cas 1) (.step (.load 1) (.step (.load 0)
    (.init [7, 8] 2) rfl) rfl) rfl) rfl) rfl) rfl) rfl, by decide, by decide, by decide⟩

/-- **… together with a channel that is closed if and only if a later `Set` has happened**: if the
channel of the returned cell is closed then more than `lin` `Set`s have swapped; and if more than
`lin` `Set`s have swapped then the channel is closed, or the `Set` call that swapped the cell out
is between its `Swap` and its `close` — its next step is enabled and closes the channel. -/
theorem chan_closed_iff_later_set {s : WState} {j c lin : Nat} (hr : WReach WCfg.gen s)
    (hj : s.readers[j]? = some (.done c lin)) :
    ((cellAt s c).closed = true → lin < s.hist.length) ∧
    (lin < s.hist.length → (cellAt s c).closed = true ∨
      ∃ (i : Nat) (v : Int), s.setters[i]? = some (v, .swapped (some c)) ∧
        ∃ s', wstep WCfg.gen s (.close i) = some s' ∧ (cellAt s' c).closed = true) := by
  have hgen : WCfg.gen = WCfg.std := by decide
  rw [hgen] at *
  have hI := winv_reach hr
  obtain ⟨ce, hce, he⟩ := hI.reader j c lin hj
  obtain ⟨h1, h2, h3, h4⟩ := hI.cell c ce hce
  have hlt : c < s.cells.length := (List.getElem?_eq_some_iff.mp hce).1
  have hcell : cellAt s c = ce := by simp [cellAt, hce]
  subst he
  rw [hcell]
  constructor
  · intro hcl
    by_cases hlast : c + 1 = s.cells.length
    · have := (h3 hlast).2; rw [hcl] at this; cases this
    · exact (h4 (by omega)).1
  · intro hl
    have hnl : c + 1 < s.cells.length := by
      by_cases hlast : c + 1 = s.cells.length
      · have := (h3 hlast).1; omega
      · omega
    rcases (h4 hnl).2 with hcl | ⟨i, v, hi⟩
    · exact .inl hcl
    · by_cases hcl : ce.closed = true
      · exact .inl hcl
      · right
        have hcl' : ce.closed = false := by simpa using hcl
        refine ⟨i, v, hi, setSetter { s with cells := s.cells.set c { cellAt s c with closed := true } } i .done, ?_, ?_⟩
        · simp [wstep, hi, WCfg.std, hcell, hcl']
        · simp [cellAt, setSetter, hlt]

/-- **… so an observer loop always ends up seeing the final value** — the statement is split into
four theorems: (1) `observer_sees_final` (this one, correctness at quiescence): when every `Set`
call has returned (none is between its `Swap` and its `close`) and the observer waits on a channel
that is not closed, the value it holds is the last value `Set`; (2) `observer_progress`: if the
channel is closed the observer's next `Value` returns a strictly later cell, and the measure is
bounded by the number of `Set` calls, so the loop `for { v, ch := w.Value(); …; <-ch }` performs at
most (number of `Set`s) + 1 iterations; (3) `value_never_blocked`: that next `Value` can always
complete, on its own steps alone, and then returns the latest value with an open channel;
(4) `watchable_never_panics`: neither `Set` nor `Value` ever panics. What is NOT a theorem: a
fairness assumption ("the observer goroutine is eventually scheduled") — with it, (1)–(4) give that
every run of the loop ends up parked on the final value. -/
theorem observer_sees_final {s : WState} {j c lin : Nat} (hr : WReach WCfg.gen s)
    (hj : s.readers[j]? = some (.done c lin)) (hopen : (cellAt s c).closed = false)
    (hquiet : ∀ (i : Nat) (v : Int) (old : Option Nat), s.setters[i]? ≠ some (v, .swapped old)) :
    (cellAt s c).val = latest s.hist := by
  obtain ⟨hle, hval⟩ := value_is_latest_set hr hj
  obtain ⟨_, hlater⟩ := chan_closed_iff_later_set hr hj
  have : lin = s.hist.length := by
    by_cases hlt : lin < s.hist.length
    · rcases hlater hlt with hcl | ⟨i, v, hi, _⟩
      · rw [hopen] at hcl; cases hcl
      · exact absurd hi (hquiet i v _)
    · omega
  subst this
  rw [hval, List.take_length]

/-- non-vacuity: both `Set`s have returned; observer 0 is parked on the open channel of the final
cell, observer 1 still holds the first cell, whose channel is closed -/
example : ∃ s, WReach WCfg.gen s ∧ s.readers[0]? = some (.done 1 2) ∧ (cellAt s 1).closed = false ∧
    s.setters = [(7, .done), (8, .done)] ∧ (cellAt s 1).val = some 8 ∧
    s.readers[1]? = some (.done 0 1) ∧ (cellAt s 0).closed = true :=
  ⟨_, .step (.load 0) (.step (.close 1) (.step (.swap 1) (.step (.load 1) (.step (.close 0) (.step (.swap 0)
    (.init [7, 8] 2) rfl) rfl) rfl) rfl) rfl) rfl, by decide, by decide, by decide, by decide, by decide, by decide⟩

/-- **Neither `Set` nor `Value` ever panics** (all interleavings, any number of concurrent `Set` and
`Value` calls): `Set`'s `close(oldInner.c)` never hits a closed channel — a cell that has been
swapped out has exactly one `Set` call that will close it, and it is open until that call does —
and `Value`'s `inner.t` after the reload never dereferences nil — once the `CompareAndSwap(nil, _)`
has failed the pointer is non-nil for good. Without this, the three theorems above would say
nothing about a `Value` that did not return. -/
theorem watchable_never_panics {s : WState} (hr : WReach WCfg.gen s) :
    (∀ (i : Nat) (v : Int), s.setters[i]? ≠ some (v, .panicked)) ∧ (∀ (j : Nat), s.readers[j]? ≠ some .panicked) := by
  have hgen : WCfg.gen = WCfg.std := by decide
  rw [hgen] at hr
  exact ⟨(wsafe_reach hr).set_ok, (wsafe_reach hr).val_ok⟩

/-- non-vacuity: the two steps that could panic do happen — a `Value` whose CAS failed reloads, and
two `Set`s close the channels they swapped out, out of order -/
example : ∃ s, WReach WCfg.gen s ∧ s.readers = [.done 1 1, .done 0 0] ∧ s.setters = [(7, .done), (8, .done)] ∧
    (s.cells.map (·.closed)) = [true, true, false] :=
  ⟨_, .step (.close 0) (.step (.close 1) (.step (.swap 1) (.step (.reload 0) (.step (.swap 0) (.step (.cas 0) (.step (.cas 1) (.step (.load 1) (.step (.load 0)
    (.init [7, 8] 2) rfl) rfl) rfl) rfl) rfl) rfl) rfl) rfl) rfl, by decide, by decide, by decide⟩

/-- **Progress of the observer loop**: the observer holds the result `(c, lin)` of a `Value` call
whose channel is closed; its next `Value` call `j'` has not started yet in `s`. In whatever later
state `s'` that call has returned, it returned a cell of a strictly later epoch (`lin < lin'`);
`lin'` is at most the number of `Set`s that have swapped, which is at most the number of `Set` calls
of the run (`setters.length`, which no step changes). So `setters.length - lin` is a strictly
decreasing measure of the loop `for { v, ch := w.Value(); …; <-ch }`: it performs at most
(number of `Set` calls) + 1 iterations. -/
theorem observer_progress {s s' : WState} {j j' c lin c' lin' : Nat} (hr : WReach WCfg.gen s)
    (hj : s.readers[j]? = some (.done c lin)) (hclosed : (cellAt s c).closed = true)
    (hidle : s.readers[j']? = some .idle) (hsteps : WSteps WCfg.gen s s')
    (hj' : s'.readers[j']? = some (.done c' lin')) :
    lin < lin' ∧ lin' ≤ s'.hist.length ∧ s'.hist.length ≤ s'.setters.length ∧ s'.setters.length = s.setters.length := by
  have hlater := (chan_closed_iff_later_set hr hj).1 hclosed
  have hle := (value_is_latest_set (wreach_steps hr hsteps) hj').1
  have hgen : WCfg.gen = WCfg.std := by decide
  rw [hgen] at hr hsteps
  obtain ⟨_, hlen, hlin⟩ := steps_reader_lin hsteps hidle
  have := hlin c' lin' hj'
  exact ⟨by omega, hle, hist_le_setters (wreach_steps hr hsteps), hlen⟩

/-- non-vacuity: observer call 0 returned the first cell (`lin = 1`), `Set(8)` closed its channel,
the observer's next call 1 returns the second cell (`lin' = 2`) -/
example : ∃ s s', WReach WCfg.gen s ∧ s.readers[0]? = some (.done 0 1) ∧ (cellAt s 0).closed = true ∧
    s.readers[1]? = some .idle ∧ WSteps WCfg.gen s s' ∧ s'.readers[1]? = some (.done 1 2) :=
  ⟨_, _, .step (.close 1) (.step (.swap 1) (.step (.load 0) (.step (.close 0) (.step (.swap 0) (.init [7, 8] 2) rfl) rfl) rfl) rfl) rfl,
    by decide, by decide, by decide, .step (.load 1) (.refl _) rfl, by decide⟩

/-- **`Value` is never blocked**: in every reachable state, a `Value` call that has not returned
(not started, or after its first `Load` saw nil, or after its CAS failed) returns within at most two
steps of its own — no other goroutine has to move — and what it then returns is the most recently
`Set` value (`lin = ` the number of `Set`s that have swapped) together with a channel that is not
closed. In particular, once no further `Set` happens, an observer that calls `Value` again (because
its channel was closed) obtains the final value and parks on an open channel. -/
theorem value_never_blocked {s : WState} {j : Nat} {pc : ValPc} (hr : WReach WCfg.gen s)
    (hj : s.readers[j]? = some pc) (hpc : pc = .idle ∨ pc = .sawNil ∨ pc = .casFailed) :
    ∃ (ls : List WLabel) (s' : WState) (c : Nat), ls.length ≤ 2 ∧ (∀ l ∈ ls, l.ofReader j = true) ∧
      wrun WCfg.gen s ls = some s' ∧ s'.readers[j]? = some (.done c s.hist.length) ∧
      (cellAt s' c).val = latest s.hist ∧ (cellAt s' c).closed = false := by
  have hgen : WCfg.gen = WCfg.std := by decide
  rw [hgen] at hr ⊢
  exact value_solo hr hj hpc

/-- non-vacuity: a reachable state with a call in each of the three unfinished program points
(call 0: CAS failed; call 1: saw nil, a `Set` has swapped since; call 2: not started) -/
example : ∃ s, WReach WCfg.gen s ∧ s.readers = [.casFailed, .sawNil, .idle] ∧ s.hist = [7] :=
  ⟨_, .step (.cas 0) (.step (.swap 0) (.step (.load 1) (.step (.load 0) (.init [7] 3) rfl) rfl) rfl) rfl, by decide, by decide⟩

/-! ## Future -/

/-- **A Future delivers the single value it was filled with to all earlier and later waiters and
never changes afterwards**: in every reachable state of a run with one `Fill(v)` call and any
number of `Wait` / `WaitContext` calls started before, during or after it, every call that returned
a value returned `v`; once the channel is closed the stored value is `v` (for good); and a blocked
waiter of a filled Future can proceed. -/
theorem future_single_value_all_waiters {v : Int} {s : FState} (hr : FReach FCfg.gen s) (hv : fvals s = [v]) :
    (∀ (j : Nat) (w : FWaiter) (r : Option Int), s.waiters[j]? = some w → w.pc = .done (.val r) → r = some v) ∧
    (s.closed = true → s.x = some v) ∧
    (∀ (j : Nat) (w : FWaiter), s.waiters[j]? = some w → w.pc = .blocked → s.closed = true →
      (fstep FCfg.gen s (.recv j)).isSome) := by
  have hgen : FCfg.gen = FCfg.std := by decide
  rw [hgen] at *
  have hI := finv_reach hr hv
  refine ⟨hI.doneVal, hI.closed_x, ?_⟩
  intro j w hw hp hc
  simp [fstep, hw, hp, hc]

example : ∃ s, FReach FCfg.gen s ∧ fvals s = [5] ∧ s.waiters[0]? = some { withCtx := false, cancelled := false, pc := .done (.val (some 5)) } :=
  ⟨_, .step (.read 0) (.step (.recv 0) (.step (.fill2 0) (.step (.fill1 0) (.step (.call 0) (.init [5] [false, true]) rfl) rfl) rfl) rfl) rfl,
    by decide, by decide⟩

/-- **`WaitContext` gives up when its context ends**: a `WaitContext` call that is blocked while
its context has ended can return the context's error at once (the step is enabled), and a call
returns the context's error only if it is a `WaitContext` whose context has ended. -/
theorem waitContext_gives_up {v : Int} {s : FState} (hr : FReach FCfg.gen s) (hv : fvals s = [v]) :
    (∀ (j : Nat) (w : FWaiter), s.waiters[j]? = some w → w.pc = .blocked → w.withCtx = true → w.cancelled = true →
      fstep FCfg.gen s (.giveUp j) = some (setWaiter s j (.done .ctxErr))) ∧
    (∀ (j : Nat) (w : FWaiter), s.waiters[j]? = some w → w.pc = .done .ctxErr → w.withCtx = true ∧ w.cancelled = true) := by
  have hgen : FCfg.gen = FCfg.std := by decide
  rw [hgen] at *
  refine ⟨?_, (finv_reach hr hv).doneErr⟩
  intro j w hw hp hc hcan
  simp [fstep, hw, hp, hc, hcan]

/-! ## Lazy -/

/-- **Lazy runs its function once and gives every caller that result** (`Lazy` is
`sync.OnceValue` — `lazyOnceGen`, regenerated from the body of `Lazy`; `sync.OnceValue` is modelled
by its specification, which includes a run of `f` that does not return: "If f panics, the returned
function will panic with the same value on every call"; concurrent first calls included). "That
result" is the outcome `o : LOut` of the single run — `.val v` (`f` returned `v`) or `.pan v` (`f`
panicked with `v`): `f` is started at most once, and any two calls that have ended ended with the
same outcome, the one the run of `f` produced — in particular no call returns a value when the run
panicked, and no call panics when the run returned. -/
theorem lazy_once {s : LState} (hr : LReach lazyOnceGen s) :
    s.runs ≤ 1 ∧
    ∀ (j k : Nat) (r r' : LOut), s.callers[j]? = some (.done r) → s.callers[k]? = some (.done r') →
      r = r' ∧ s.once = .done r ∧ s.runs = 1 := by
  have hgen : lazyOnceGen = true := by decide
  rw [hgen] at hr
  have hI := linv_reach hr
  constructor
  · cases ho : s.once with
    | fresh => have := (hI.fresh ho).1; omega
    | running => have := (hI.running ho).1; omega
    | done v => have := (hI.done v ho).1; omega
  · intro j k r r' hj hk
    cases ho : s.once with
    | fresh => have := (hI.fresh ho).2 j _ hj; cases this
    | running => exact absurd hj ((hI.running ho).2.1 j r)
    | done v =>
      obtain ⟨h1, h2, _⟩ := hI.done v ho
      have e1 := h2 j r hj
      have e2 := h2 k r' hk
      subst e1; subst e2
      exact ⟨rfl, rfl, h1⟩

/-- three callers, the first runs `f` (returns 4) while the second is parked behind it, the third comes later -/
example : ∃ s, LReach lazyOnceGen s ∧ s.callers = [.done (.val 4), .done (.val 4), .done (.val 4)] ∧ s.runs = 1 :=
  ⟨_, .step (.wake 1) (.step (.enter 2) (.step (.finish 0 (.val 4)) (.step (.enter 1) (.step (.enter 0) (.init 3) rfl) rfl) rfl) rfl) rfl,
    by decide, by decide⟩

/-- the same schedule with a run of `f` that panics with 7: the parked caller and the later caller
panic with 7 as well, `f` is not run again -/
example : ∃ s, LReach lazyOnceGen s ∧ s.callers = [.done (.pan 7), .done (.pan 7), .done (.pan 7)] ∧ s.runs = 1 :=
  ⟨_, .step (.wake 1) (.step (.enter 2) (.step (.finish 0 (.pan 7)) (.step (.enter 1) (.step (.enter 0) (.init 3) rfl) rfl) rfl) rfl) rfl,
    by decide, by decide⟩

end Juniper.Props.C18
