import Juniper.Proofs.TreeHeapLinkReach
/-!
# C03 — the two B-tree models describe the same tree (refinement heap model → functional model)

`Model/BTree.lean` (labelled functional tree; C01, C02 and the `WF` half of C03 are proved about it) and
`Model/BTreeSlotsOps.lean` (heap of slot-level nodes with parent pointers, a transliteration of `Put` /
`Delete`; the slot-level "no retained garbage" half of C03 is proved about it) are linked here:

* `Rel h t` (`Proofs/TreeHeapLinkRel.lean`): same root identity, same allocation counter, same `size` /
  `gen`, and the functional tree is *in the store*: for every node `Node.mk id kvs kids` of `t` the object
  `id` exists, its three fixed arrays hold exactly `kvs` and the identities of `kids` in their live
  prefixes and nothing behind them (`NodeRep`), `n = kvs.length`, its parent pointer is the node above
  (`nil` for the root); node identities are pairwise distinct and allocated.
* `heap_put_refines`, `heap_delete_refines`: on related states with a well-formed tree the heap model
  does **not** answer `crash` (no nil dereference, no index out of range, no helper called outside its
  documented precondition) and the results are related again — leaf insert, split cascade, new root;
  leaf / inner removal, steal left / right, merge left / right, cascade, root collapse.
* `heap_refines_functional`: hence for every `Put` / `Delete` history from the empty tree;
  `heap_never_crashes`, `unlinked_unreachable` (tombstones of the heap model are not reachable from the
  root), `reachable_iff_node`, `no_retained_reachable` (the retention clause in the form the property
  text uses: every slot behind the live prefix of every array of every node reachable from the root is
  zero, after every history).

Only balance (`WF.bal`) is used of `WF`; the comparator may be arbitrary (both models run the same
comparisons), so the history theorems need no hypothesis on `cmp`.
-/
namespace Juniper.Props.C03Link
open Juniper Juniper.Model.BTree Juniper.Model.BTreeSlotsOps Juniper.Proofs.Tree Juniper.Proofs.TreeSlotsOps
open Juniper.Proofs.TreeHeapLink

variable {K V : Type}

/-- `newBtree` in both models. -/
theorem rel_new : Rel (Heap.empty : Heap K V) (Tree.empty : Tree K V) := rel_empty

example : Rel (Heap.empty : Heap Int Int) Tree.empty ∧ WF (fun a b : Int => a - b) (Tree.empty : Tree Int Int) :=
  ⟨rel_empty, wf_empty _⟩

/-- **`Put` refines.** On related states with a well-formed functional tree, `Heap.put` succeeds (the heap
model does not crash: every nil check, index and helper precondition on the way holds) and ends in a
state related to `put t k v`. -/
theorem heap_put_refines (cmp : K → K → Int) {h : Heap K V} {t : Tree K V} (hrel : Rel h t) (hw : WF cmp t)
    (k : K) (v : V) : ∃ h' t', put cmp t k v = some t' ∧ h.put cmp k v = some h' ∧ Rel h' t' :=
  put_sim cmp hrel hw.bal k v

/-- a related pair with a full root leaf exists: 15 `Put`s from the empty tree (the 16th will split it) -/
example : ∃ (h : Heap Int Int) (t : Tree Int Int), Rel h t ∧ WF (fun a b : Int => a - b) t ∧ t.size = 15 := by
  have hc : StrictWeak (fun a b : Int => a - b) := ⟨by intro a b; omega, by intro a b c; omega⟩
  let ms : List (Juniper.Proofs.Tree.Mut Int Int) := (List.range 15).map (fun (i : Nat) => .put (10 * ((i : Int) + 1)) (i : Int))
  obtain ⟨h, t, h1, h2, h3, _⟩ := refines_runMuts (fun a b : Int => a - b) ms Heap.empty Tree.empty rel_empty balTree_empty
  obtain ⟨t', h1', h2', _⟩ := inv_runMuts hc ms (Tree.empty : Tree Int Int) (inv_empty _)
  rw [h1] at h1'; cases h1'
  refine ⟨h, t, h3, h2'.wf, ?_⟩
  have hd : (Heap.runMuts (fun a b : Int => a - b) (Heap.empty : Heap Int Int) (ms.map toHeapMut)).map (·.size) = some 15 := by
    decide
  rw [h2] at hd
  rw [← h3.size]
  simpa using hd

/-- **`Delete` refines.** Same for `Heap.delete`: removal at a leaf or through the rightmost leaf of the left
subtree, steal from the right then the left sibling, merge into the left sibling or with the right one,
the cascade up the parent pointers and the collapse of an emptied root. -/
theorem heap_delete_refines (cmp : K → K → Int) {h : Heap K V} {t : Tree K V} (hrel : Rel h t) (hw : WF cmp t) (k : K) :
    ∃ h' t', delete cmp t k = some t' ∧ h.delete cmp k = some h' ∧ Rel h' t' :=
  delete_sim cmp hrel hw.bal k

example : ∃ (h' : Heap Int Int) (t' : Tree Int Int), delete (fun a b => a - b) (Tree.empty : Tree Int Int) 7 = some t' ∧
    (Heap.empty : Heap Int Int).delete (fun a b => a - b) 7 = some h' ∧ Rel h' t' :=
  heap_delete_refines _ rel_empty (wf_empty _) 7

/-- **The heap model refines the functional model on every history.** For every comparator and every
sequence of `Put`s and `Delete`s from the empty tree both models run to the end without a crash and the
final states are related; the functional tree is balanced (and well formed if the comparator is a strict
weak order, `wf_reachable` of `Props/C03.lean`). -/
theorem heap_refines_functional (cmp : K → K → Int) (ms : List (Juniper.Proofs.Tree.Mut K V)) :
    ∃ (h : Heap K V) (t : Tree K V), runMuts cmp Tree.empty ms = some t ∧
      Heap.runMuts cmp Heap.empty (ms.map toHeapMut) = some h ∧ Rel h t ∧ BalTree t := by
  obtain ⟨h, t, h1, h2, h3, h4⟩ := refines_runMuts cmp ms Heap.empty Tree.empty rel_empty balTree_empty
  exact ⟨h, t, h1, h2, h3, h4⟩

/-- 16 `Put`s (leaf split, new root) and two `Delete`s (steal from the left sibling; merge with root collapse):
both models end with the one node `0` holding 14 entries; objects 1 and 2 are unlinked in the heap model -/
example : ∃ (h : Heap Int Int) (t : Tree Int Int),
    runMuts (fun a b : Int => a - b) Tree.empty
      ((List.range 16).map (fun (i : Nat) => Juniper.Proofs.Tree.Mut.put (10 * ((i : Int) + 1)) (i : Int)) ++
        [Juniper.Proofs.Tree.Mut.del 160, Juniper.Proofs.Tree.Mut.del 150]) = some t ∧ Rel h t ∧ t.size = 14 ∧ t.root.id = 0 ∧ t.nextId = 3 ∧
      h.get 1 = none ∧ h.get 2 = none := by
  obtain ⟨h, t, h1, h2, h3, _⟩ := heap_refines_functional (fun a b : Int => a - b)
    ((List.range 16).map (fun (i : Nat) => Juniper.Proofs.Tree.Mut.put (10 * ((i : Int) + 1)) (i : Int)) ++
      [Juniper.Proofs.Tree.Mut.del 160, Juniper.Proofs.Tree.Mut.del 150])
  have hd : (Heap.runMuts (fun a b : Int => a - b) (Heap.empty : Heap Int Int)
      (((List.range 16).map (fun (i : Nat) => Juniper.Proofs.Tree.Mut.put (10 * ((i : Int) + 1)) (i : Int)) ++
        [Juniper.Proofs.Tree.Mut.del 160, Juniper.Proofs.Tree.Mut.del 150]).map toHeapMut)).map
        (fun h => (h.size, h.root, h.nodes.length, (h.get 1).isSome, (h.get 2).isSome)) = some (14, 0, 3, false, false) := by
    decide
  rw [h2] at hd
  simp only [Option.map_some, Option.some.injEq, Prod.mk.injEq] at hd
  obtain ⟨e1, e2, e3, e4, e5⟩ := hd
  refine ⟨h, t, h1, h3, by rw [← h3.size]; exact e1, by rw [← h3.root]; exact e2, by rw [h3.next]; exact e3, ?_, ?_⟩
  · cases hg : h.get 1 with
    | none => rfl
    | some x => rw [hg] at e4; cases e4
  · cases hg : h.get 2 with
    | none => rfl
    | some x => rw [hg] at e5; cases e5

/-- **(i) The heap model never crashes.** Every `Put` / `Delete` history from the empty tree runs to its end on
the heap model: no nil dereference, no index out of range, no rotation into a full node, no merge that
does not fit, no access to an unlinked object. (This was previously covered only by the correspondence
harness `c03slots`.) -/
theorem heap_never_crashes (cmp : K → K → Int) (ms : List (Heap.Mut K V)) :
    (Heap.runMuts cmp (Heap.empty : Heap K V) ms).isSome = true := by
  obtain ⟨ms', rfl⟩ := toHeapMut_surj ms
  obtain ⟨h, t, _, h2, _⟩ := heap_refines_functional cmp ms'
  rw [h2]; rfl

example : (Heap.runMuts (fun a b : Int => b - a) (Heap.empty : Heap Int Int) [.put 1 1, .del 2, .put 1 2, .del 1]).isSome = true :=
  heap_never_crashes _ _

/-- **(ii) Unlinked objects are unreachable.** After every history, an object the heap model has unlinked (the
right node of a `mergeTwo`, a collapsed root: `get` answers `none`) cannot be reached from the root through
any non-nil child slot. -/
theorem unlinked_unreachable (cmp : K → K → Int) (ms : List (Heap.Mut K V)) {h : Heap K V}
    (hrun : Heap.runMuts cmp Heap.empty ms = some h) {j : Nat} (hn : h.get j = none) : ¬ Reach h j := by
  obtain ⟨ms', rfl⟩ := toHeapMut_surj ms
  obtain ⟨h', t, _, h2, h3, _⟩ := heap_refines_functional cmp ms'
  rw [hrun] at h2; cases h2
  exact unreachable_of_none h3 hn

/-- the root is reachable, so the statement is about something -/
example (h : Heap Int Int) : Reach h h.root := Reach.root

/-- **Reachable = node of the functional tree.** After every history the objects reachable from the heap's
root are exactly the node identities of the functional tree, and each of them represents its node: `n`
entries, the entries and child identities in the live prefixes. -/
theorem reachable_iff_node (cmp : K → K → Int) (ms : List (Juniper.Proofs.Tree.Mut K V)) :
    ∃ (h : Heap K V) (t : Tree K V), runMuts cmp Tree.empty ms = some t ∧
      Heap.runMuts cmp Heap.empty (ms.map toHeapMut) = some h ∧ ∀ j, Reach h j ↔ j ∈ ids t.root := by
  obtain ⟨h, t, h1, h2, h3, _⟩ := heap_refines_functional cmp ms
  exact ⟨h, t, h1, h2, fun j => (reach_iff h3 j).trans mem_ids_iff_cnt.symm⟩

example : ∃ (h : Heap Int Int) (t : Tree Int Int), runMuts (fun a b => a - b) Tree.empty [.put 3 30] = some t ∧
    Heap.runMuts (fun a b => a - b) Heap.empty ([Juniper.Proofs.Tree.Mut.put 3 30].map toHeapMut) = some h ∧
    ∀ j, Reach h j ↔ j ∈ ids t.root := reachable_iff_node _ _

/-- **(iii) No retained garbage in the live structure.** "Keys and values that were deleted or moved elsewhere
are no longer referenced from the live structure": after every history, in every node object reachable from
the root every key and value slot from `n` on is zero, and the node is a leaf with all child slots zero or
its child slots from `n + 1` on are zero (`TailOK`); moreover the object represents its node (`NodeRep`). -/
theorem no_retained_reachable (cmp : K → K → Int) (ms : List (Heap.Mut K V)) {h : Heap K V}
    (hrun : Heap.runMuts cmp Heap.empty ms = some h) {j : Nat} (hr : Reach h j) :
    ∃ x kvs kids, h.get j = some x ∧ NodeRep x kvs kids ∧ TailOK x := by
  obtain ⟨ms', rfl⟩ := toHeapMut_surj ms
  obtain ⟨h', t, _, h2, h3, _⟩ := heap_refines_functional cmp ms'
  rw [hrun] at h2; cases h2
  exact reachable_rep h3 hr

example : ∃ (h : Heap Int Int), Heap.runMuts (fun a b => a - b) Heap.empty [.put 3 30, .del 3] = some h ∧ Reach h h.root := by
  have := heap_never_crashes (fun a b : Int => a - b) ([.put 3 30, .del 3] : List (Heap.Mut Int Int))
  obtain ⟨h, hh⟩ := Option.isSome_iff_exists.mp this
  exact ⟨h, hh, Reach.root⟩

end Juniper.Props.C03Link
