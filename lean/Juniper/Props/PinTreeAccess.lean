-- Tie theorems of the pins (written by `gofacts -pin` together with Juniper/Pinned/TreeAccess.lean; see notes/pins.md).
-- Each says: the declaration gofacts reads from the tree under check today is, up to the names of its locals,
-- the one the author of the model saw. `rfl` on two literals: kernel-checked, no axioms.
import Juniper.Generated.PinTreeAccess
import Juniper.Pinned.TreeAccess

namespace Juniper.Props.PinTreeAccess

theorem pin_container_tree_backwardIterator_Next_ok : Juniper.Gen.PinTreeAccess.pin_container_tree_backwardIterator_Next = Juniper.Pinned.TreeAccess.pin_container_tree_backwardIterator_Next := by rfl
theorem pin_container_tree_btree_Contains_ok : Juniper.Gen.PinTreeAccess.pin_container_tree_btree_Contains = Juniper.Pinned.TreeAccess.pin_container_tree_btree_Contains := by rfl
theorem pin_container_tree_btree_Cursor_ok : Juniper.Gen.PinTreeAccess.pin_container_tree_btree_Cursor = Juniper.Pinned.TreeAccess.pin_container_tree_btree_Cursor := by rfl
theorem pin_container_tree_btree_Get_ok : Juniper.Gen.PinTreeAccess.pin_container_tree_btree_Get = Juniper.Pinned.TreeAccess.pin_container_tree_btree_Get := by rfl
theorem pin_container_tree_btree_Put_ok : Juniper.Gen.PinTreeAccess.pin_container_tree_btree_Put = Juniper.Pinned.TreeAccess.pin_container_tree_btree_Put := by rfl
theorem pin_container_tree_btree_insertIntoLeaf_ok : Juniper.Gen.PinTreeAccess.pin_container_tree_btree_insertIntoLeaf = Juniper.Pinned.TreeAccess.pin_container_tree_btree_insertIntoLeaf := by rfl
theorem pin_container_tree_btree_overfill_ok : Juniper.Gen.PinTreeAccess.pin_container_tree_btree_overfill = Juniper.Pinned.TreeAccess.pin_container_tree_btree_overfill := by rfl
theorem pin_container_tree_btree_searchNode_ok : Juniper.Gen.PinTreeAccess.pin_container_tree_btree_searchNode = Juniper.Pinned.TreeAccess.pin_container_tree_btree_searchNode := by rfl
theorem pin_container_tree_cursor_Key_ok : Juniper.Gen.PinTreeAccess.pin_container_tree_cursor_Key = Juniper.Pinned.TreeAccess.pin_container_tree_cursor_Key := by rfl
theorem pin_container_tree_cursor_Next_ok : Juniper.Gen.PinTreeAccess.pin_container_tree_cursor_Next = Juniper.Pinned.TreeAccess.pin_container_tree_cursor_Next := by rfl
theorem pin_container_tree_cursor_Prev_ok : Juniper.Gen.PinTreeAccess.pin_container_tree_cursor_Prev = Juniper.Pinned.TreeAccess.pin_container_tree_cursor_Prev := by rfl
theorem pin_container_tree_cursor_SeekFirst_ok : Juniper.Gen.PinTreeAccess.pin_container_tree_cursor_SeekFirst = Juniper.Pinned.TreeAccess.pin_container_tree_cursor_SeekFirst := by rfl
theorem pin_container_tree_cursor_SeekFirstGreater_ok : Juniper.Gen.PinTreeAccess.pin_container_tree_cursor_SeekFirstGreater = Juniper.Pinned.TreeAccess.pin_container_tree_cursor_SeekFirstGreater := by rfl
theorem pin_container_tree_cursor_SeekFirstGreaterOrEqual_ok : Juniper.Gen.PinTreeAccess.pin_container_tree_cursor_SeekFirstGreaterOrEqual = Juniper.Pinned.TreeAccess.pin_container_tree_cursor_SeekFirstGreaterOrEqual := by rfl
theorem pin_container_tree_cursor_SeekLast_ok : Juniper.Gen.PinTreeAccess.pin_container_tree_cursor_SeekLast = Juniper.Pinned.TreeAccess.pin_container_tree_cursor_SeekLast := by rfl
theorem pin_container_tree_cursor_SeekLastLess_ok : Juniper.Gen.PinTreeAccess.pin_container_tree_cursor_SeekLastLess = Juniper.Pinned.TreeAccess.pin_container_tree_cursor_SeekLastLess := by rfl
theorem pin_container_tree_cursor_SeekLastLessOrEqual_ok : Juniper.Gen.PinTreeAccess.pin_container_tree_cursor_SeekLastLessOrEqual = Juniper.Pinned.TreeAccess.pin_container_tree_cursor_SeekLastLessOrEqual := by rfl
theorem pin_container_tree_cursor_find_ok : Juniper.Gen.PinTreeAccess.pin_container_tree_cursor_find = Juniper.Pinned.TreeAccess.pin_container_tree_cursor_find := by rfl
theorem pin_container_tree_cursor_lost_ok : Juniper.Gen.PinTreeAccess.pin_container_tree_cursor_lost = Juniper.Pinned.TreeAccess.pin_container_tree_cursor_lost := by rfl
theorem pin_container_tree_cursor_seek_ok : Juniper.Gen.PinTreeAccess.pin_container_tree_cursor_seek = Juniper.Pinned.TreeAccess.pin_container_tree_cursor_seek := by rfl
theorem pin_container_tree_cursor_valueUnchecked_ok : Juniper.Gen.PinTreeAccess.pin_container_tree_cursor_valueUnchecked = Juniper.Pinned.TreeAccess.pin_container_tree_cursor_valueUnchecked := by rfl
theorem pin_container_tree_forwardIterator_Next_ok : Juniper.Gen.PinTreeAccess.pin_container_tree_forwardIterator_Next = Juniper.Pinned.TreeAccess.pin_container_tree_forwardIterator_Next := by rfl
theorem pin_container_tree_insertOne_ok : Juniper.Gen.PinTreeAccess.pin_container_tree_insertOne = Juniper.Pinned.TreeAccess.pin_container_tree_insertOne := by rfl
theorem pin_container_tree_leftmostLeaf_ok : Juniper.Gen.PinTreeAccess.pin_container_tree_leftmostLeaf = Juniper.Pinned.TreeAccess.pin_container_tree_leftmostLeaf := by rfl
theorem pin_container_tree_newAmalgam1_ok : Juniper.Gen.PinTreeAccess.pin_container_tree_newAmalgam1 = Juniper.Pinned.TreeAccess.pin_container_tree_newAmalgam1 := by rfl
theorem pin_container_tree_node_leaf_ok : Juniper.Gen.PinTreeAccess.pin_container_tree_node_leaf = Juniper.Pinned.TreeAccess.pin_container_tree_node_leaf := by rfl
theorem pin_container_tree_rightmostLeaf_ok : Juniper.Gen.PinTreeAccess.pin_container_tree_rightmostLeaf = Juniper.Pinned.TreeAccess.pin_container_tree_rightmostLeaf := by rfl
theorem pin_xslices_Index_ok : Juniper.Gen.PinTreeAccess.pin_xslices_Index = Juniper.Pinned.TreeAccess.pin_xslices_Index := by rfl
theorem pin_container_tree_type_Bound_ok : Juniper.Gen.PinTreeAccess.pin_container_tree_type_Bound = Juniper.Pinned.TreeAccess.pin_container_tree_type_Bound := by rfl
theorem pin_container_tree_type_KVPair_ok : Juniper.Gen.PinTreeAccess.pin_container_tree_type_KVPair = Juniper.Pinned.TreeAccess.pin_container_tree_type_KVPair := by rfl
theorem pin_container_tree_type_Map_ok : Juniper.Gen.PinTreeAccess.pin_container_tree_type_Map = Juniper.Pinned.TreeAccess.pin_container_tree_type_Map := by rfl
theorem pin_container_tree_type_Set_ok : Juniper.Gen.PinTreeAccess.pin_container_tree_type_Set = Juniper.Pinned.TreeAccess.pin_container_tree_type_Set := by rfl
theorem pin_container_tree_type_amalgam1_ok : Juniper.Gen.PinTreeAccess.pin_container_tree_type_amalgam1 = Juniper.Pinned.TreeAccess.pin_container_tree_type_amalgam1 := by rfl
theorem pin_container_tree_type_backwardIterator_ok : Juniper.Gen.PinTreeAccess.pin_container_tree_type_backwardIterator = Juniper.Pinned.TreeAccess.pin_container_tree_type_backwardIterator := by rfl
theorem pin_container_tree_type_boundType_ok : Juniper.Gen.PinTreeAccess.pin_container_tree_type_boundType = Juniper.Pinned.TreeAccess.pin_container_tree_type_boundType := by rfl
theorem pin_container_tree_type_btree_ok : Juniper.Gen.PinTreeAccess.pin_container_tree_type_btree = Juniper.Pinned.TreeAccess.pin_container_tree_type_btree := by rfl
theorem pin_container_tree_type_cursor_ok : Juniper.Gen.PinTreeAccess.pin_container_tree_type_cursor = Juniper.Pinned.TreeAccess.pin_container_tree_type_cursor := by rfl
theorem pin_container_tree_type_forwardIterator_ok : Juniper.Gen.PinTreeAccess.pin_container_tree_type_forwardIterator = Juniper.Pinned.TreeAccess.pin_container_tree_type_forwardIterator := by rfl
theorem pin_container_tree_type_node_ok : Juniper.Gen.PinTreeAccess.pin_container_tree_type_node = Juniper.Pinned.TreeAccess.pin_container_tree_type_node := by rfl
theorem pin_container_tree_vars_ok : Juniper.Gen.PinTreeAccess.pin_container_tree_vars = Juniper.Pinned.TreeAccess.pin_container_tree_vars := by rfl
theorem pin_xslices_vars_ok : Juniper.Gen.PinTreeAccess.pin_xslices_vars = Juniper.Pinned.TreeAccess.pin_xslices_vars := by rfl

end Juniper.Props.PinTreeAccess
