import Juniper.Proofs.TreeAccessExample
import Juniper.Proofs.FirstRace
/-!
# C01, last sentence — "Puts from several goroutines to distinct keys that are already present,
concurrent with reads of other keys, are free of data races and all take effect" (property theorems)

The theorems are about the **access-level model** `Model/BTreeAccess.lean`: every operation is a
sequence of atomic shared-memory accesses `read loc` / `write loc` (locations: `root`, `size`, `gen`,
and per node object `n`, `keys[i]`, `values[i]`, `children[i]`), a configuration is the shared memory
plus one program counter per goroutine, a step is one goroutine performing its next access, and a
**data race** is a reachable configuration in which two different goroutines are about to access the
same location, at least one of them writing. The statement order of `Put` (what happens before the
descent, in the overwrite branch, after the insertion) is interpreted from the regenerated statement
lists `Juniper.Gen.TreeAccess` (`putPlan_eq` pins it by `decide`).

Hypotheses (`ConcHyp cmp t puts reads`): `cmp` a strict weak order; the node objects of `t` pairwise
distinct; goroutine `j < puts.length` executes `Put k_j v_j`, the `k_j` pairwise inequivalent and
present in `t`; the other goroutines are readers: `Get` / `Contains` of keys inequivalent to every `k_j`,
and **range readers** — `Range` / `RangeReverse` / `Iterate` (`Op.scan`, built from the bounds by the two
regenerated `switch` tables: `scanOf`, `scanOf_bounds`) followed by any number of `Next` calls — such that
every key stored in `t` that lies inside **both** bounds of the reader is inequivalent to every `k_j`
(with range readers present `t` satisfies the tree invariant: balanced, strictly sorted — every tree
reachable from the empty one does). `m` is any memory that holds `t` (`Rep m t`) including its parent
pointers and zero key slots behind the live prefixes (`AuxRep m t`); `memOf t` is one: `memOf_rep`,
`memOf_auxRep`.

The range reader is modelled access by access (`Model.BTreeAccess.itNext`): seek, and per `Next` the `lost()`
check, the in-range test on the remembered key, **then** the value read, then the cursor move through
child and parent pointers. Two things make it race free. (1) It reads no value slot beyond its *far* bound:
the statement order of `forwardIterator.Next` / `backwardIterator.Next` (test before `valueUnchecked()`) and
`cursor.Next` / `Prev` reading keys only — pinned literally by `scanShape_eq`. (Before the repair of defect
D18 the value of the first key *beyond* the far bound was read: a race with a `Put` to that key.) (2) It
never visits a key before its *near* bound: `Proofs/TreeAccessScan.lean` shows the machine, program point by
program point, in the middle of computing the functional cursor functions of `Model.BTree` (`find`,
`leftmostLeaf`, `rightmostLeaf`, `nextCore` / `prevCore` — the climb through `parent` pointers and
`xslices.Index` against `climbNext` over `pathTo` frames) on the frozen skeleton (`scanInv_next`), so every
position whose value it reads is a position of the functional iteration, which C01's seek and successor
theorems (`seekFwd_spec`, `advance`, …) place inside the near bound.

Not claimed: termination of range readers and that their items equal the sequential ones (only
`Get`/`Contains` results are), several operations per goroutine, iterators created before the concurrent
phase (stale cursor generation: the re-seek is `unmodelled`).

What stays trusted for the sentence as a statement about Go: the Go memory model — a program whose
conflicting plain accesses are all ordered by happens-before is data-race free and sequentially
consistent, and without synchronisation happens-before is program order — i.e. exactly that the
interleaving semantics of *accesses* used here is the right one for a race-free program, and that the
compiler introduces no accesses of its own to the locations named here.
-/
namespace Juniper.Props.C01Race
open Juniper.Gen.Tree Juniper.Model.BTree Juniper.Model.BTreeAccess Juniper.Proofs.TreeAccess
open Juniper.Proofs.Tree hiding Op CInv

variable {K V : Type}

/-- **No interleaving has a data race.** In every configuration reachable from the initial one no two
goroutines are about to access the same location with at least one of them writing. -/
theorem concurrent_puts_race_free (cmp : K → K → Int) (t : Tree K V) (puts : List (K × V)) (reads : List (Op K V))
    (h : ConcHyp cmp t puts reads) (m : Mem K V) (hm : Rep m t) (hx : AuxRep m t) (c : Config K V)
    (hr : Reach cmp (goroutines puts reads) (initial m (goroutines puts reads)) c) : ¬ Race c :=
  cinv_no_race (setup_of_hyp h) (reach_inv (setup_of_hyp h) hm hx hr)

/-- **Range readers, spelled out by their bounds.** `Range(lo, hi)` / `RangeReverse(lo, hi)` readers (`rev`; any of the 3×3
bound kinds, `Iterate` is `Range(Unbounded, Unbounded)`), each calling `Next` any number of times (`n`; a reader may
abandon its iterator), concurrent with Puts of present, pairwise inequivalent keys on a tree satisfying the tree
invariant: **no interleaving has a data race, provided every key of `t` inside the bounds of a reader — `aboveLo lo`
and `belowHi hi`, the interval of C01's ideal `srange` — is inequivalent to every written key.** -/
theorem concurrent_range_readers_race_free (cmp : K → K → Int) (t : Tree K V) (puts : List (K × V))
    (bounds : List (Bool × Bound K × Bound K × Nat)) (reads : List (Op K V))
    (hb : bounds.map (fun b => scanOf b.1 b.2.1 b.2.2.1 b.2.2.2) = reads.map some)
    (hsw : StrictWeak cmp) (hinv : Inv cmp t) (hd : puts.Pairwise fun p q => cmp p.1 q.1 ≠ 0)
    (hp : ∀ p ∈ puts, contains cmp t p.1 = true)
    (hk : ∀ b ∈ bounds, ∀ p ∈ puts, ∀ k' ∈ storedKeys t.root,
      aboveLo cmp b.2.1 k' = true → belowHi cmp b.2.2.1 k' = true → cmp p.1 k' ≠ 0)
    (m : Mem K V) (hm : Rep m t) (hx : AuxRep m t) (c : Config K V)
    (hr : Reach cmp (goroutines puts reads) (initial m (goroutines puts reads)) c) : ¬ Race c := by
  -- every reader is what `scanOf` makes of some bounds
  have hscan : ∀ r ∈ reads, ∃ b ∈ bounds, scanOf b.1 b.2.1 b.2.2.1 b.2.2.2 = some r := by
    intro r hr
    have hmem : some r ∈ reads.map some := List.mem_map.mpr ⟨r, hr, rfl⟩
    rw [← hb] at hmem
    obtain ⟨b, hbm, hbe⟩ := List.mem_map.mp hmem
    exact ⟨b, hbm, hbe⟩
  have hfacts : ∀ r ∈ reads, r.isSearch = false ∧ r.isPut = false ∧ ScanWF r ∧
      ∃ b ∈ bounds, ∀ k, (inRangeOf cmp r k && nearOp cmp r k) = (aboveLo cmp b.2.1 k && belowHi cmp b.2.2.1 k) := by
    intro r hr
    obtain ⟨b, hbm, hbe⟩ := hscan r hr
    have hl : b.2.1.kind ≠ none := by
      intro h; simp [scanOf, h] at hbe
      cases hbb : b.1 <;> simp [hbb, rangeSeek, rrangeSeek, rangeStop, rrangeStop, pickSide, h] at hbe
      all_goals (repeat' split at hbe) <;> simp_all
    have hh : b.2.2.1.kind ≠ none := by
      intro h; simp [scanOf, h] at hbe
      cases hbb : b.1 <;> simp [hbb, rangeSeek, rrangeSeek, rangeStop, rrangeStop, pickSide, h] at hbe
      all_goals (repeat' split at hbe) <;> simp_all
    obtain ⟨r', hr', h1, h2, h3⟩ := scanOf_bounds hsw b.1 b.2.1 b.2.2.1 b.2.2.2 hl hh
    rw [hbe] at hr'
    cases hr'
    exact ⟨h1, Op.isPut_of_not_search h1, h2, b, hbm, h3⟩
  refine concurrent_puts_race_free cmp t puts reads
    ⟨hsw, hinv.ids.1, hd, hp, fun r hm' => (hfacts r hm').2.1,
      fun r hm' hs' => absurd hs' (by rw [(hfacts r hm').1]; decide),
      ?_, fun r hm' _ => (hfacts r hm').2.2.1, fun _ => hinv⟩ m hm hx c hr
  intro r hm' _ p hpm k' hk' hin hnear
  obtain ⟨_, _, _, b, hbm, hbk⟩ := hfacts r hm'
  have := hbk k'
  rw [hin, hnear] at this
  simp only [Bool.and_self, Bool.true_eq, Bool.and_eq_true] at this
  exact hk b hbm p hpm k' hk' this.1 this.2

/-- **What a range reader reads.** In every reachable configuration, the next access of a range reader is a read,
and if it is a read of a value slot `(x, i)` that is a live slot of the tree, the key stored there is accepted by
the reader's in-range predicate: the value of the first key beyond the far bound is never read (only its key). -/
theorem range_reader_reads_in_range_values_only (cmp : K → K → Int) (t : Tree K V) (puts : List (K × V))
    (reads : List (Op K V)) (h : ConcHyp cmp t puts reads) (m : Mem K V) (hm : Rep m t) (hx : AuxRep m t) (c : Config K V)
    (hr : Reach cmp (goroutines puts reads) (initial m (goroutines puts reads)) c) :
    ∀ (j : Nat) op pc a, (goroutines puts reads)[j]? = some op → op.isSearch = false → c.pcs[j]? = some pc →
      accessOf pc = some a →
      a.write = false ∧ ∀ x i, a.loc = .node x (.val i) →
        ∀ y, Sub t.root y → y.id = x → ∀ hlt : i < y.kvs.length, inRangeOf cmp op y.kvs[i].1 = true := by
  intro j op pc a ho hns hp ha
  have hs := setup_of_hyp h
  have hi := reach_inv hs hm hx hr
  rcases access_class (hs.ok j op ho) (hi.good j op pc ho hp) ha with ⟨hw, hno⟩ | ⟨x, i, hloc, hsk, hw⟩
  · exact ⟨hw, fun x i hl => absurd hl (hno x i)⟩
  · refine ⟨by rw [hw]; exact Op.isPut_of_not_search hns, fun x' i' hl => ?_⟩
    rw [hloc] at hl
    simp only [Loc.node.injEq, Field.val.injEq] at hl
    obtain ⟨rfl, rfl⟩ := hl
    rcases hsk with ⟨hsr, _⟩ | ⟨_, hin⟩
    · rw [hns] at hsr; cases hsr
    · exact hin

/-- **Every Put (and Get, Contains) returns after boundedly many steps of its own**: in every schedule that can be
executed from the initial configuration, the steps taken by the `Put` / `Get` / `Contains` goroutines number at most
`#goroutines * (wt t + 4)` (`wt` = 2·entries + 6 per node) — however long the range readers go on. `Reach` and
executable schedules are the same thing. -/
theorem concurrent_runs_terminate (cmp : K → K → Int) (t : Tree K V) (puts : List (K × V)) (reads : List (Op K V))
    (h : ConcHyp cmp t puts reads) (m : Mem K V) (hm : Rep m t) (hx : AuxRep m t) :
    (∀ sched c, runSched cmp (goroutines puts reads) (initial m (goroutines puts reads)) sched = some c →
      searchSteps (goroutines puts reads) sched ≤ (goroutines puts reads).length * (wt t.root + 4)) ∧
    (∀ c, Reach cmp (goroutines puts reads) (initial m (goroutines puts reads)) c ↔
      ∃ sched, runSched cmp (goroutines puts reads) (initial m (goroutines puts reads)) sched = some c) := by
  refine ⟨fun sched c hs => ?_, fun c => ⟨sched_of_reach, fun ⟨s, hs⟩ => reach_of_sched s _ _ hs⟩⟩
  have := (sched_bound (setup_of_hyp h) sched _ c (cinv_initial (setup_of_hyp h) hm hx) hs).1
  have := total_initial t (goroutines puts reads) m
  omega

/-- **All Puts take effect, nothing else changes.** In every reachable configuration in which every `Put` has
returned (in particular in every configuration in which nobody can move) the memory holds exactly the tree `t'` that
the functional model's `put`s produce when executed sequentially **in any order** (`putAll` over any permutation of
the Puts): generation, size and the whole skeleton (identities, keys, occupancy, links) are those of `t`; for a
well-formed `t` the contents are those of the ideal sorted map after `sput k_j v_j` for every `j`
(each `k_j ↦ v_j`, everything else unchanged). In a configuration in which nobody can move every `Put` / `Get` /
`Contains` has returned its sequential result. -/
theorem concurrent_puts_all_take_effect (cmp : K → K → Int) (t : Tree K V) (puts : List (K × V))
    (reads : List (Op K V)) (h : ConcHyp cmp t puts reads) (m : Mem K V) (hm : Rep m t) (hx : AuxRep m t) (c : Config K V)
    (hr : Reach cmp (goroutines puts reads) (initial m (goroutines puts reads)) c) :
    (Terminal cmp (goroutines puts reads) c → PutsDone (goroutines puts reads) c ∧
      ∀ (i : Nat) op, (goroutines puts reads)[i]? = some op → op.isSearch = true →
        c.pcs[i]? = some (PC.done (expected cmp t op))) ∧
    (PutsDone (goroutines puts reads) c →
      ∃ t', Rep c.mem t' ∧
        (∀ puts', puts'.Perm puts → putAll cmp t puts' = some t') ∧
        t'.gen = t.gen ∧ t'.size = t.size ∧ skel t'.root = skel t.root ∧
        (WF cmp t → WF cmp t' ∧ toList t'.root = puts.foldl (fun l p => sput cmp p.1 p.2 l) (toList t.root))) := by
  have hs := setup_of_hyp h
  have hi := reach_inv hs hm hx hr
  have hrd : ∀ r ∈ reads, r.isPut = false := h.readers
  have hpres : ∀ p ∈ puts, (slotOf cmp p.1 t.root).isSome = true := by
    intro p hp; rw [slotOf_isSome]; exact h.present p hp
  refine ⟨fun hterm => ⟨putsDone_of_terminal hi hterm, terminal_results hi hterm⟩, fun hdone => ?_⟩
  refine ⟨{ t with root := reval (Gof cmp t.root puts) t.root }, ?_, ?_, rfl, rfl, skel_reval _ _, ?_⟩
  · exact final_rep hs (fun j k v ho => List.mem_of_getElem? (goroutines_put_mem hrd ho))
      (fun p hp => goroutines_of_put hp) h.distinct hi hdone
  · intro puts' hperm
    exact putAll_perm h.sw t h.nodup hperm h.distinct hpres
  · intro hw
    exact putAll_refines h.sw puts t _ hw (putAll_perm h.sw t h.nodup (List.Perm.refl _) h.distinct hpres)

/-- **Reads see the sequential values.** Whenever, in any interleaving, a `Get` / `Contains` has returned, it has
returned what the operation returns when run alone on `t`: a `Get k` the value `t` holds for `k`
(`get cmp t k`; for a well-formed `t` that is the ideal sorted map's value, `get_refines`), a `Contains k`
whether `k` is in `t`. (The Puts concurrent with it never change what it reads.) -/
theorem concurrent_reads_see_sequential_values (cmp : K → K → Int) (t : Tree K V) (puts : List (K × V))
    (reads : List (Op K V)) (h : ConcHyp cmp t puts reads) (m : Mem K V) (hm : Rep m t) (hx : AuxRep m t) (c : Config K V)
    (hr : Reach cmp (goroutines puts reads) (initial m (goroutines puts reads)) c) :
    ∀ (i : Nat) op r, (goroutines puts reads)[i]? = some op → op.isSearch = true → c.pcs[i]? = some (PC.done r) →
      r = expected cmp t op ∧
      (∀ k, op = .get k → r = .val (get cmp t k) ∧
        (WF cmp t → r = .val ((sget cmp k (toList t.root)).map (·.2)))) := by
  intro i op r ho hsr hp
  have hi := reach_inv (setup_of_hyp h) hm hx hr
  have hg : r = expected cmp t op := hi.good i op _ ho hp hsr
  refine ⟨hg, ?_⟩
  rintro k rfl
  refine ⟨hg, fun hw => ?_⟩
  rw [hg]
  simp only [expected]
  obtain ⟨hh, hbal, _, _⟩ := hw.bal
  unfold Juniper.Model.BTree.get
  rw [lookup_refines h.sw k t.root hh hbal hw.sorted]

/-! ## non-vacuity: a well-formed two-level tree, two writers, five readers

`exTree` = keys 10 … 70 | 80 | 90 … 150 on two levels (`exTree_wf : WF exCmp exTree`), writers `exPuts` = `80 ↦ 801`
(the separator in the root) and `120 ↦ 1201`, readers `exReads` = `Get 90` (same leaf as a written key),
`Contains 85` (absent), `Range(Unbounded, Excluded 80)` (`exRange`: keys 10 … 70; the first key beyond its far bound is
the written key 80, reached by climbing to the root), `Range(Included 90, Included 110)` (`exMid`: 90, 100, 110 *between* the
written keys: 80 before its near bound, 120 the first key beyond its far bound) and `RangeReverse(Excluded 120, Unbounded)`
(`exRangeRev`: 150, 140, 130; the first key beyond is the written key 120 in the same leaf); `exRange_eq`: these are what `scanOf` makes of
the bounds; `exHyp : ConcHyp …` (all in `Proofs/TreeAccessExample.lean`). -/

set_option maxRecDepth 12000 in
/-- an interleaving in which both writers and all readers overlap, run to the end (152 accesses): no race on the way
(checked on every prefix by the theorem, here on the final configuration by evaluation), everybody has
returned, the final memory holds `80 ↦ 801`, `120 ↦ 1201`, the readers saw `900`, `false`, the values of 10 … 70, of
90, 100, 110 and of 150, 140, 130. -/
example : ∃ c, runSched exCmp (goroutines exPuts exReads) (initial (memOf exTree) (goroutines exPuts exReads)) exSched = some c ∧
    c.pcs.map exResult = [some .unit, some .unit, some (.val (some 900)), some (.bool false),
      some (.vals [some 100, some 200, some 300, some 400, some 500, some 600, some 700]),
      some (.vals [some 900, some 1000, some 1100]),
      some (.vals [some 1500, some 1400, some 1300])] ∧
    hasRace c = false ∧
    c.mem.val 2 0 = some 801 ∧ c.mem.val 1 3 = some 1201 ∧ c.mem.val 1 0 = some 900 ∧ c.mem.gen = 15 ∧ c.mem.size = 15 := by
  refine ⟨_, rfl, ?_⟩
  decide

/-- the theorems applied to the example: the configuration reached by `exSched` is race free and —
being terminal — holds the sequential result. -/
example : ∀ c, runSched exCmp (goroutines exPuts exReads) (initial (memOf exTree) (goroutines exPuts exReads)) exSched = some c →
    ¬ Race c :=
  fun c hc => concurrent_puts_race_free exCmp exTree exPuts exReads exHyp _ (memOf_rep exTree exTree_nodup) (memOf_auxRep exTree exTree_nodup) c
    (reach_of_sched exSched _ c hc)

set_option maxRecDepth 8000 in
/-- the value slots the three range readers read, run alone: those of 10 … 70 (node 0), of 90, 100, 110 (node 1, slots 0, 1, 2)
resp. of 150, 140, 130 (node 1, slots 6, 5, 4) — never `(2, 0)` (key 80) or `(1, 3)` (key 120), whose *keys* they do read. -/
example : exValReads exRange = (List.range 7).map (fun i => Loc.node 0 (.val i)) ∧
    exValReads exMid = [.node 1 (.val 0), .node 1 (.val 1), .node 1 (.val 2)] ∧
    exValReads exRangeRev = [.node 1 (.val 6), .node 1 (.val 5), .node 1 (.val 4)] := by decide

/-! ## the hypothesis "already present" is needed -/

/-- **Negative witness.** A `Put` of an *absent* key (95 into the leaf `90 … 150`) inserts: it shifts keys
and values, increments `n`, `gen` and `size`. Concurrently with a `Get 90` — a read of *another* key —
there is an interleaving in which the `Put` is about to write `n` of the leaf while the `Get` is about
to read it: a data race. (46 accesses of the `Put`, then 6 of the `Get`.) -/
theorem put_absent_key_races :
    ∃ c, Reach exCmp [.put 95 7, .get 90] (initial (memOf exTree) [.put 95 7, .get 90]) c ∧ Race c := by
  have hrun : ∃ c, runSched exCmp [.put 95 7, .get 90] (initial (memOf exTree) [.put 95 7, .get 90])
      (List.replicate 46 0 ++ List.replicate 6 1) = some c ∧ hasRace c = true := by
    refine ⟨_, rfl, ?_⟩
    decide
  obtain ⟨c, hc, hrace⟩ := hrun
  exact ⟨c, reach_of_sched _ _ c hc, hasRace_sound hrace⟩

set_option maxRecDepth 4000 in
/-- … and with a range reader — which reads `gen` (`c.gen = c.t.gen`, `lost()`) — it races on `gen` (`t.gen++` after
the insertion): 48 accesses of the `Put`, 7 of `Range(Unbounded, Excluded 80)`. -/
theorem put_absent_key_races_on_gen :
    ∃ c, Reach exCmp [.put 95 7, exRange] (initial (memOf exTree) [.put 95 7, exRange]) c ∧ Race c := by
  have hrun : ∃ c, runSched exCmp [.put 95 7, exRange] (initial (memOf exTree) [.put 95 7, exRange])
      (List.replicate 48 0 ++ List.replicate 7 1) = some c ∧ hasRace c = true := by
    refine ⟨_, rfl, ?_⟩
    decide
  obtain ⟨c, hc, hrace⟩ := hrun
  exact ⟨c, reach_of_sched _ _ c hc, hasRace_sound hrace⟩

/-! ## the hypothesis on range readers is needed — and what defect D18 was -/

set_option maxRecDepth 4000 in
/-- **Negative witness.** A range whose far bound *includes* a written key — `Range(Unbounded, Included 80)` against
`Put 80` — does race: after 56 accesses the reader is about to read `values[0]` of the root while the `Put` (3
accesses) is about to write it. This is exactly what a range *ending before* 80 used to do before the repair of D18
(the cursor iterator read `(key, value)` of the first entry beyond the bound and `iterator.While` discarded it
afterwards); now `Range(Unbounded, Excluded 80)` stops on the key alone (`exHyp`, the example above). -/
theorem range_over_written_key_races :
    ∃ c, Reach exCmp [.put 80 801, .scan true .first 0 (some (.le, 80)) 100]
      (initial (memOf exTree) [.put 80 801, .scan true .first 0 (some (.le, 80)) 100]) c ∧ Race c := by
  have hrun : ∃ c, runSched exCmp [.put 80 801, .scan true .first 0 (some (.le, 80)) 100]
      (initial (memOf exTree) [.put 80 801, .scan true .first 0 (some (.le, 80)) 100])
      (List.replicate 3 0 ++ List.replicate 56 1) = some c ∧ hasRace c = true := by
    refine ⟨_, rfl, ?_⟩
    decide
  obtain ⟨c, hc, hrace⟩ := hrun
  exact ⟨c, reach_of_sched _ _ c hc, hasRace_sound hrace⟩

/-! ## why a configuration-local `Race` is enough (audit C01R-F7) -/

/-- **The first-race argument.** `Race` above is "two goroutines are *about to* perform conflicting accesses in one
configuration". A data race in the sense of the Go memory model is any two conflicting accesses of different
goroutines that are not ordered by happens-before — and without synchronisation none are, however many steps lie
between them. This theorem closes the gap for every system of the shape the access model has (each step of a
goroutine is one access, named by its private state; it reads at most the value at that location and changes at most
that value: `FirstRace.Sys`): if no reachable configuration has such a pair of *next* accesses, then no run contains
two conflicting accesses of different goroutines at all (`Indep` for every pair of events, at any distance). Proof:
were `a` (goroutine `i`) … `b` (goroutine `j`) the first such pair of a run, dropping `i`'s steps from `a` on leaves a
run (`FirstRace.frame`: the others never touched what `i` wrote, or an earlier pair would exist) that ends with `i`
still about to do `a` and `j` about to do `b`. That `Model/BTreeAccess.next` / `accessOf` are of this shape is read
off their clauses (comment at `Model.BTreeAccess.Race`) and is not proved here. -/
theorem race_free_configurations_exclude_all_data_races {Loc Val P : Type} [DecidableEq Loc]
    (S : Juniper.Proofs.FirstRace.Sys Loc Val P) (c0 : Juniper.Proofs.FirstRace.Config Loc Val P)
    (hfree : ∀ σ c, Juniper.Proofs.FirstRace.run S c0 σ = some c → ¬ Juniper.Proofs.FirstRace.Race S c)
    (σ : List Nat) (c : Juniper.Proofs.FirstRace.Config Loc Val P) (h : Juniper.Proofs.FirstRace.run S c0 σ = some c) :
    (Juniper.Proofs.FirstRace.events S c0 σ).Pairwise Juniper.Proofs.FirstRace.Indep :=
  Juniper.Proofs.FirstRace.no_conflicting_accesses_of_race_free c0 hfree σ c h

/-- non-vacuity: a two-goroutine system over one location — goroutine 0 writes it once, goroutine 1 reads it once.
Its initial configuration is a `Race`, and indeed the run `[0, 1]` contains the conflicting pair; with two readers
instead there is no race and every run is conflict free. -/
example :
    let S : Juniper.Proofs.FirstRace.Sys Unit Nat Bool :=
      { acc := fun p => if p then none else some ((), true), step := fun _ v => (true, v + 1) }
    let c0 : Juniper.Proofs.FirstRace.Config Unit Nat Bool := { mem := fun _ => 0, pcs := fun _ => false }
    Juniper.Proofs.FirstRace.Race S c0 ∧
      Juniper.Proofs.FirstRace.events S c0 [0, 1] = [(0, ((), true)), (1, ((), true))] := by
  refine ⟨⟨0, 1, ((), true), ((), true), by decide, rfl, rfl, rfl, Or.inl rfl⟩, ?_⟩
  simp [Juniper.Proofs.FirstRace.events, Juniper.Proofs.FirstRace.stepAt]

end Juniper.Props.C01Race
