import Juniper.Proofs.TreeAccessExample
/-!
# C01, last sentence — "Puts from several goroutines to distinct keys that are already present,
concurrent with reads of other keys, are free of data races and all take effect" (property theorems)

The theorems are about the **access-level model** `Model/BTreeAccess.lean`: every operation is a
sequence of atomic shared-memory accesses `read loc` / `write loc` (locations: `root`, `size`, `gen`,
and per node object `n`, `keys[i]`, `values[i]`, `children[i]`), a configuration is the shared memory
plus one program counter per goroutine, a step is one goroutine performing its next access, and a
**data race** is a reachable configuration in which two different goroutines are about to access the
same location, at least one of them writing. The statement order of `Put` (what happens before the
descent, in the overwrite branch, after the insertion) is interpreted from the regenerated statement
lists `Juniper.Gen.TreeAccess` (`putPlan_eq` pins it by `decide`).

Hypotheses (`ConcHyp cmp t puts reads`): `cmp` a strict weak order; the node objects of `t` pairwise
distinct; goroutine `j < puts.length` executes `Put k_j v_j`, the `k_j` pairwise inequivalent and
present in `t`; the other goroutines execute `Get` / `Contains` / one iterator step (`lost()` check +
value read of a cursor parked on a live slot) for keys inequivalent to every `k_j`. `m` is any memory
that holds `t` (`Rep m t`; `memOf t` is one: `memOf_rep`).

What stays trusted for the sentence as a statement about Go: the Go memory model — a program whose
conflicting plain accesses are all ordered by happens-before is data-race free and sequentially
consistent, and without synchronisation happens-before is program order — i.e. exactly that the
interleaving semantics of *accesses* used here is the right one for a race-free program, and that the
compiler introduces no accesses of its own to the locations named here.
-/
namespace Juniper.Props.C01Race
open Juniper.Gen.Tree Juniper.Model.BTree Juniper.Model.BTreeAccess Juniper.Proofs.TreeAccess
open Juniper.Proofs.Tree hiding Op CInv

variable {K V : Type}

/-- **No interleaving has a data race.** In every configuration reachable from the initial one no two
goroutines are about to access the same location with at least one of them writing. -/
theorem concurrent_puts_race_free (cmp : K → K → Int) (t : Tree K V) (puts : List (K × V)) (reads : List (Op K V))
    (h : ConcHyp cmp t puts reads) (m : Mem K V) (hm : Rep m t) (c : Config K V)
    (hr : Reach cmp (goroutines puts reads) (initial m (goroutines puts reads)) c) : ¬ Race c :=
  cinv_no_race (setup_of_hyp h) (reach_inv (setup_of_hyp h) hm hr)

/-- **Every run is finite**: a schedule that can be executed from the initial configuration has at most
`#goroutines * (wt t + 4)` steps (`wt` = 2·entries + 6 per node). So every maximal run ends in a
configuration in which nobody can move (`Terminal`); `Reach` and executable schedules are the same
thing. -/
theorem concurrent_runs_terminate (cmp : K → K → Int) (t : Tree K V) (puts : List (K × V)) (reads : List (Op K V))
    (h : ConcHyp cmp t puts reads) (m : Mem K V) (hm : Rep m t) :
    (∀ sched c, runSched cmp (goroutines puts reads) (initial m (goroutines puts reads)) sched = some c →
      sched.length ≤ (goroutines puts reads).length * (wt t.root + 4)) ∧
    (∀ c, Reach cmp (goroutines puts reads) (initial m (goroutines puts reads)) c ↔
      ∃ sched, runSched cmp (goroutines puts reads) (initial m (goroutines puts reads)) sched = some c) := by
  refine ⟨fun sched c hs => ?_, fun c => ⟨sched_of_reach, fun ⟨s, hs⟩ => reach_of_sched s _ _ hs⟩⟩
  have := (sched_bound (setup_of_hyp h) sched _ c (cinv_initial hm) hs).1
  have := total_initial t (goroutines puts reads) m
  omega

/-- **All Puts take effect, nothing else changes.** Every maximal run ends with every goroutine
returned, and the final memory holds exactly the tree `t'` that the functional model's `put`s produce
when executed sequentially **in any order** (`putAll` over any permutation of the Puts): generation,
size and the whole skeleton (identities, keys, occupancy, links) are those of `t`; for a well-formed
`t` the contents are those of the ideal sorted map after `sput k_j v_j` for every `j`
(each `k_j ↦ v_j`, everything else unchanged). -/
theorem concurrent_puts_all_take_effect (cmp : K → K → Int) (t : Tree K V) (puts : List (K × V))
    (reads : List (Op K V)) (h : ConcHyp cmp t puts reads) (m : Mem K V) (hm : Rep m t) (c : Config K V)
    (hr : Reach cmp (goroutines puts reads) (initial m (goroutines puts reads)) c)
    (hterm : Terminal cmp (goroutines puts reads) c) :
    (∀ (i : Nat) op, (goroutines puts reads)[i]? = some op → c.pcs[i]? = some (PC.done (expected cmp t op))) ∧
    ∃ t', Rep c.mem t' ∧
      (∀ puts', puts'.Perm puts → putAll cmp t puts' = some t') ∧
      t'.gen = t.gen ∧ t'.size = t.size ∧ skel t'.root = skel t.root ∧
      (WF cmp t → WF cmp t' ∧ toList t'.root = puts.foldl (fun l p => sput cmp p.1 p.2 l) (toList t.root)) := by
  have hs := setup_of_hyp h
  have hi := reach_inv hs hm hr
  have hrd : ∀ r ∈ reads, r.isPut = false := fun r hm => (h.readers r hm).1
  have hpres : ∀ p ∈ puts, (slotOf cmp p.1 t.root).isSome = true := by
    intro p hp; rw [slotOf_isSome]; exact h.present p hp
  refine ⟨terminal_results hi hterm, { t with root := reval (Gof cmp t.root puts) t.root }, ?_, ?_, rfl, rfl,
    skel_reval _ _, ?_⟩
  · exact final_rep hs (fun j k v ho => List.mem_of_getElem? (goroutines_put_mem hrd ho))
      (fun p hp => goroutines_of_put hp) h.distinct hi hterm
  · intro puts' hperm
    exact putAll_perm h.sw t h.nodup hperm h.distinct hpres
  · intro hw
    exact putAll_refines h.sw puts t _ hw (putAll_perm h.sw t h.nodup (List.Perm.refl _) h.distinct hpres)

/-- **Reads see the sequential values.** Whenever, in any interleaving, a reader has returned, it has
returned what the operation returns when run alone on `t`: a `Get k` the value `t` holds for `k`
(`get cmp t k`; for a well-formed `t` that is the ideal sorted map's value, `get_refines`), a `Contains k`
whether `k` is in `t`, an iterator step the value in the slot it is parked on. (The Puts concurrent with
it never change what it reads.) -/
theorem concurrent_reads_see_sequential_values (cmp : K → K → Int) (t : Tree K V) (puts : List (K × V))
    (reads : List (Op K V)) (h : ConcHyp cmp t puts reads) (m : Mem K V) (hm : Rep m t) (c : Config K V)
    (hr : Reach cmp (goroutines puts reads) (initial m (goroutines puts reads)) c) :
    ∀ (i : Nat) op r, (goroutines puts reads)[i]? = some op → c.pcs[i]? = some (PC.done r) →
      r = expected cmp t op ∧
      (∀ k, op = .get k → r = .val (get cmp t k) ∧
        (WF cmp t → r = .val ((sget cmp k (toList t.root)).map (·.2)))) := by
  intro i op r ho hp
  have hi := reach_inv (setup_of_hyp h) hm hr
  have hg : r = expected cmp t op := hi.good i op _ ho hp
  refine ⟨hg, ?_⟩
  rintro k rfl
  refine ⟨hg, fun hw => ?_⟩
  rw [hg]
  simp only [expected]
  obtain ⟨hh, hbal, _, _⟩ := hw.bal
  unfold Juniper.Model.BTree.get
  rw [lookup_refines h.sw k t.root hh hbal hw.sorted]

/-! ## non-vacuity: a well-formed two-level tree, two writers, three readers

`exTree` = keys 10 … 70 | 80 | 90 … 150 on two levels (`exTree_wf : WF exCmp exTree`), writers `exPuts` = `80 ↦ 801`
(the separator in the root) and `120 ↦ 1201`, readers `exReads` = `Get 90` (same leaf as a written key),
`Contains 85` (absent), an iterator step parked on key 20 with a stale cursor generation; `exHyp : ConcHyp …`
(all in `Proofs/TreeAccessExample.lean`). -/

/-- an interleaving in which both writers and all readers overlap, run to the end: no race on the way
(checked on every prefix by the theorem, here on the final configuration by evaluation), everybody has
returned, the final memory holds `80 ↦ 801`, `120 ↦ 1201`, the readers saw `900`, `false`, `200`. -/
example : ∃ c, runSched exCmp (goroutines exPuts exReads) (initial (memOf exTree) (goroutines exPuts exReads)) exSched = some c ∧
    c.pcs.map exResult = [some .unit, some .unit, some (.val (some 900)), some (.bool false), some (.val (some 200))] ∧
    hasRace c = false ∧
    c.mem.val 2 0 = some 801 ∧ c.mem.val 1 3 = some 1201 ∧ c.mem.val 1 0 = some 900 ∧ c.mem.gen = 15 ∧ c.mem.size = 15 := by
  refine ⟨_, rfl, ?_⟩
  decide

/-- the theorems applied to the example: the configuration reached by `exSched` is race free and —
being terminal — holds the sequential result. -/
example : ∀ c, runSched exCmp (goroutines exPuts exReads) (initial (memOf exTree) (goroutines exPuts exReads)) exSched = some c →
    ¬ Race c :=
  fun c hc => concurrent_puts_race_free exCmp exTree exPuts exReads exHyp _ (memOf_rep exTree exTree_nodup) c
    (reach_of_sched exSched _ c hc)

/-! ## the hypothesis "already present" is needed -/

/-- **Negative witness.** A `Put` of an *absent* key (95 into the leaf `90 … 150`) inserts: it shifts keys
and values, increments `n`, `gen` and `size`. Concurrently with a `Get 90` — a read of *another* key —
there is an interleaving in which the `Put` is about to write `n` of the leaf while the `Get` is about
to read it: a data race. (46 accesses of the `Put`, then 6 of the `Get`.) -/
theorem put_absent_key_races :
    ∃ c, Reach exCmp [.put 95 7, .get 90] (initial (memOf exTree) [.put 95 7, .get 90]) c ∧ Race c := by
  have hrun : ∃ c, runSched exCmp [.put 95 7, .get 90] (initial (memOf exTree) [.put 95 7, .get 90])
      (List.replicate 46 0 ++ List.replicate 6 1) = some c ∧ hasRace c = true := by
    refine ⟨_, rfl, ?_⟩
    decide
  obtain ⟨c, hc, hrace⟩ := hrun
  exact ⟨c, reach_of_sched _ _ c hc, hasRace_sound hrace⟩

/-- … and with an iterator step — which reads `gen` — it races on `gen` (`t.gen++` after the
insertion): 48 accesses of the `Put`, none of the iterator. -/
theorem put_absent_key_races_on_gen :
    ∃ c, Reach exCmp [.put 95 7, .iter 0 1 15 20] (initial (memOf exTree) [.put 95 7, .iter 0 1 15 20]) c ∧ Race c := by
  have hrun : ∃ c, runSched exCmp [.put 95 7, .iter 0 1 15 20] (initial (memOf exTree) [.put 95 7, .iter 0 1 15 20])
      (List.replicate 48 0) = some c ∧ hasRace c = true := by
    refine ⟨_, rfl, ?_⟩
    decide
  obtain ⟨c, hc, hrace⟩ := hrun
  exact ⟨c, reach_of_sched _ _ c hc, hasRace_sound hrace⟩

end Juniper.Props.C01Race
