-- Tie theorems of the pins (written by `gofacts -pin` together with Juniper/Pinned/Par.lean; see notes/pins.md).
-- Each says: the declaration gofacts reads from the tree under check today is, up to the names of its locals,
-- the one the author of the model saw. `rfl` on two literals: kernel-checked, no axioms.
import Juniper.Generated.PinPar
import Juniper.Pinned.Par

namespace Juniper.Props.PinPar

theorem pin_parallel_Do_ok : Juniper.Gen.PinPar.pin_parallel_Do = Juniper.Pinned.Par.pin_parallel_Do := by rfl
theorem pin_parallel_DoContext_ok : Juniper.Gen.PinPar.pin_parallel_DoContext = Juniper.Pinned.Par.pin_parallel_DoContext := by rfl
theorem pin_parallel_Map_ok : Juniper.Gen.PinPar.pin_parallel_Map = Juniper.Pinned.Par.pin_parallel_Map := by rfl
theorem pin_parallel_MapContext_ok : Juniper.Gen.PinPar.pin_parallel_MapContext = Juniper.Pinned.Par.pin_parallel_MapContext := by rfl
theorem pin_parallel_MapIterator_ok : Juniper.Gen.PinPar.pin_parallel_MapIterator = Juniper.Pinned.Par.pin_parallel_MapIterator := by rfl
theorem pin_parallel_MapStream_ok : Juniper.Gen.PinPar.pin_parallel_MapStream = Juniper.Pinned.Par.pin_parallel_MapStream := by rfl
theorem pin_parallel_mapIterator_Next_ok : Juniper.Gen.PinPar.pin_parallel_mapIterator_Next = Juniper.Pinned.Par.pin_parallel_mapIterator_Next := by rfl
theorem pin_parallel_mapStream_Close_ok : Juniper.Gen.PinPar.pin_parallel_mapStream_Close = Juniper.Pinned.Par.pin_parallel_mapStream_Close := by rfl
theorem pin_parallel_mapStream_Next_ok : Juniper.Gen.PinPar.pin_parallel_mapStream_Next = Juniper.Pinned.Par.pin_parallel_mapStream_Next := by rfl
theorem pin_parallel_type_mapIterator_ok : Juniper.Gen.PinPar.pin_parallel_type_mapIterator = Juniper.Pinned.Par.pin_parallel_type_mapIterator := by rfl
theorem pin_parallel_type_mapStream_ok : Juniper.Gen.PinPar.pin_parallel_type_mapStream = Juniper.Pinned.Par.pin_parallel_type_mapStream := by rfl
theorem pin_parallel_type_valueAndIndex_ok : Juniper.Gen.PinPar.pin_parallel_type_valueAndIndex = Juniper.Pinned.Par.pin_parallel_type_valueAndIndex := by rfl
theorem pin_parallel_vars_ok : Juniper.Gen.PinPar.pin_parallel_vars = Juniper.Pinned.Par.pin_parallel_vars := by rfl

end Juniper.Props.PinPar
