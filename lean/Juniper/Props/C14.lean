import Juniper.Proofs.ParMapBasic
/-!
# C14 — parallel.MapIterator / MapStream (property theorems)

The LTSs are `Juniper.Model.ParMap.Stream` and `Juniper.Model.ParMap.Iter` (`step`, `Reach`): all
interleavings of dispatcher, workers and consumer; source and `f` as the environment; guards, channel
capacities and `select` tables regenerated from `parallel/parallel.go`. Only property theorems and
their non-vacuity examples live here; invariants are in `Juniper/Proofs/ParMap*.lean`.
-/
namespace Juniper.Props.C14
open Juniper.Gen Juniper.Model.ParMap Juniper.Proofs.ParMap

/-- The number of workers and of `ready` tokens of `MapStream` are the clamped parallelism and buffer
size: `parallelism ≤ 0` means `GOMAXPROCS`, `bufferSize < parallelism` means `parallelism`. -/
theorem mapStream_workers_and_tokens (P B : Int) (gmp : Nat) :
    let cfg : Stream.Cfg := ⟨Stream.code, P, B, gmp⟩
    Stream.par cfg = (if P ≤ 0 then (gmp : Int) else P) ∧
    Stream.buf cfg = max B (Stream.par cfg) ∧
    Stream.numWorkers cfg = (Stream.par cfg).toNat ∧
    Stream.numTokens cfg = (Stream.buf cfg).toNat ∧
    Stream.readyCap cfg = (Stream.buf cfg).toNat ∧ Stream.cCap cfg = (Stream.buf cfg).toNat := by
  intro cfg
  have hs := stream_code_sound
  have hp : Stream.par cfg = (if P ≤ 0 then (gmp : Int) else P) := by
    simp [Stream.par, cfg, hs.clampLow]
  have hb : Stream.buf cfg = max B (Stream.par cfg) := by
    simp only [Stream.buf, cfg, hs.bufClamp]; split <;> simp_all <;> omega
  refine ⟨hp, hb, ?_, ?_, ?_, ?_⟩
  · unfold Stream.numWorkers
    rw [loopCount_lt _ (Stream.par cfg) (fun j => hs.spawnLoop j _) _ 0 (by omega) (by omega)]; simp
  · unfold Stream.numTokens
    rw [loopCount_lt _ (Stream.buf cfg) (fun j => hs.tokenLoop j _) _ 0 (by omega) (by omega)]; simp
  · simp [Stream.readyCap, cfg, hs.readyCap]
  · simp [Stream.cCap, cfg, hs.cCap]

/-- non-vacuity: `MapStream(ctx, s, 0, 1, f)` with `GOMAXPROCS = 4` has four workers and four tokens -/
example : Stream.numWorkers ⟨Stream.code, 0, 1, 4⟩ = 4 ∧ Stream.numTokens ⟨Stream.code, 0, 1, 4⟩ = 4 := by decide

end Juniper.Props.C14
