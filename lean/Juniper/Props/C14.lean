import Juniper.Proofs.ParMapIterB
/-!
# C14 — parallel.MapIterator / MapStream (property theorems; also the MapStream clauses of C08 and C09)

The LTSs are `Juniper.Model.ParMap.Stream` and `Juniper.Model.ParMap.Iter` (`step`, `Reach`): all
interleavings of dispatcher, workers and consumer; the source and `f` are the environment (arbitrary
results in arbitrary order, errors at any position), as are the consumer's calls, the expiry of its
per-call context, `Close` and the cancellation of the parent context. Guards, channel capacities, token
count and `select` tables are regenerated from `parallel/parallel.go` (`Stream.code`, `Iter.code`).
Every theorem holds for all requested parallelism `P` (`GOMAXPROCS = gmp ≥ 1` when `P ≤ 0`), buffer
size `B`, source lengths, latency patterns (= schedules), failure positions and consumer behaviours.
Only property theorems and non-vacuity examples live here; invariants are in `Proofs/ParMap*.lean`.

**Ties.** Every theorem below takes `cfg.code = Stream.code` / `Iter.code` (the regenerated code) and
discharges *inside its own proof* everything the invariants assume about the Go source: `stream_ties` /
`iter_ties` (`Proofs/ParMapTies.lean`) prove, by `decide` / `rfl` on the regenerated definitions, each field
of `Code.Sound` — guards, capacities, `select` tables, presence facts, and the three disciplines computed
from `Juniper.Gen.ParSync`: `Iter.sectionsAtomic` (MapIterator's two critical sections lock the same mutex
field, which is the cond's locker — the reason `dAcquire` / `cYield` may be atomic labels),
`Stream.ctxPlain` (the context handed to the source, to `f` and to the selects is
`errgroup.WithContext(context.WithCancel(ctx))`, cancelled by `Close` only — it never ends by itself),
`closeCancels` / `closeWaits` (`Close` is `s.cancel()` then `s.eg.Wait()`) — and the control skeletons of the
mirrored bodies. A change of any of these facts makes the theorems *of this file* fail by name. The model
follows the three disciplines: the examples marked "dependence" exhibit, in the LTS of code that violates
one, the behaviour the theorem excludes.

**Liveness wording.** `map_deadlock_free` / `mapIterator_deadlock_free` are *enabledness* statements about
single reachable states (an internal step is enabled, or a call of `f` / of the source is outstanding).
That pending calls actually return within a bounded number of steps — a decreasing measure — is
`Props/C14Progress.lean`; the only scheduling assumption there is that an enabled step is eventually taken.
"Consumer" is one goroutine: `closeCall` / `nextCall` are enabled only while it is not inside `Next` /
`Close` (`cons = idle`), so "`Close` at any moment" means *any moment at which the single consumer is not
inside `Next`* — with the pipeline in any state (dispatcher blocked on a token or inside the source, workers
inside `f`, results waiting in `c` or the reorder buffer); `Close` concurrent with a `Next` of another
goroutine is outside the model (stream protocol: `Next` and `Close` are not called concurrently).

Ghost vocabulary: `s.srcItems` items taken from the source so far; `s.fBegun` / `s.fEnded` calls of `f`
begun (index, argument) / returned (index, result); `s.results` what `Next` returned so far
(`.val k v` = value `v` for source item `k`); `s.srcLog` calls on the source.
-/
namespace Juniper.Props.C14
open Juniper.Gen Juniper.Model.ParMap Juniper.Proofs.ParMap

/-- The number of workers and of `ready` tokens of `MapStream` are the clamped parallelism and buffer
size: `parallelism ≤ 0` means `GOMAXPROCS`, `bufferSize < parallelism` means `parallelism`. -/
theorem mapStream_workers_and_tokens (P B : Int) (gmp : Nat) :
    let cfg : Stream.Cfg := ⟨Stream.code, P, B, gmp⟩
    Stream.par cfg = (if P ≤ 0 then (gmp : Int) else P) ∧
    Stream.buf cfg = max B (Stream.par cfg) ∧
    Stream.numWorkers cfg = (Stream.par cfg).toNat ∧
    Stream.numTokens cfg = (Stream.buf cfg).toNat ∧
    Stream.readyCap cfg = (Stream.buf cfg).toNat ∧ Stream.cCap cfg = (Stream.buf cfg).toNat := by
  intro cfg
  have hs : cfg.code.Sound := stream_code_sound stream_ties
  refine ⟨S.par_eq hs, S.buf_eq hs, S.numWorkers_eq hs, S.numTokens_eq hs, ?_, ?_⟩
  · have := hs.readyCap (Stream.buf cfg); simp only [Stream.readyCap]; rw [this]
  · have := hs.cCap (Stream.buf cfg); simp only [Stream.cCap]; rw [this]

/-- non-vacuity: `MapStream(ctx, s, 0, 1, f)` with `GOMAXPROCS = 4` has four workers and four tokens -/
example : Stream.numWorkers ⟨Stream.code, 0, 1, 4⟩ = 4 ∧ Stream.numTokens ⟨Stream.code, 0, 1, 4⟩ = 4 := by decide

/-! ## MapStream -/

/-- **Order, exactly once (MapStream).** In every reachable state: the values returned by `Next` so
far are those of source items 0, 1, 2, … in this order; the value for item `k` is what the one call
of `f` for index `k` returned, and that call was made on the `k`-th source item; `f` is never called
twice for an index; and when `Next` has reported the normal end, the source has ended, nothing failed
and every item taken from the source has been yielded. -/
theorem map_order_exactly_once (cfg : Stream.Cfg) (hc : cfg.code = Stream.code) (hg : 1 ≤ cfg.gmp)
    (s : Stream.St) (h : Stream.Reach cfg s) :
    s.results.filterMap S.valIdx = List.range (cnt S.isVal s.results) ∧
    (∀ k v, Stream.NextRes.val k v ∈ s.results →
        (k, Res.ok v) ∈ s.fEnded ∧ S.ecnt k s.fEnded = 1 ∧ ∃ a, (k, a) ∈ s.fBegun ∧ s.srcItems[k]? = some a) ∧
    (∀ k, S.icnt k s.fBegun ≤ 1) ∧
    (∀ k a, (k, a) ∈ s.fBegun → s.srcItems[k]? = some a) ∧
    (Stream.NextRes.end ∈ s.results →
        s.srcEnded = true ∧ S.nFail s = 0 ∧ cnt S.isVal s.results = s.srcItems.length) := by
  have hs : cfg.code.Sound := hc ▸ stream_code_sound stream_ties
  have hV := S.invV hs h
  have hP := S.invP hs h
  refine ⟨hV.RV, ?_, ?_, hV.BG, ?_⟩
  · intro k v hm
    have hok := hV.Vres k v hm
    have hpos : 0 < S.ecnt k s.fEnded := by
      unfold S.ecnt cnt; exact List.countP_pos_iff.2 ⟨_, hok, by simp⟩
    have hQ2 := hP.Q2 k
    have hQ1 := hP.Q1 k
    have hlt : k < s.dispI := by
      by_cases hlt : k < s.dispI
      · exact hlt
      · simp [S.b2n, hlt] at hQ2; omega
    simp [S.b2n, hlt] at hQ2 hQ1
    obtain ⟨a, ha⟩ := S.mem_of_icnt_pos (by omega : 0 < S.icnt k s.fBegun)
    exact ⟨hok, by omega, a, ha, hV.BG k a ha⟩
  · intro k
    have := hP.Q1 k
    unfold S.b2n at this; split at this <;> omega
  · intro hend
    have hpos : 0 < cnt S.isEnd s.results := by
      unfold cnt; exact List.countP_pos_iff.2 ⟨_, hend, rfl⟩
    have ⟨h1, h2, h3, h4, _⟩ := (S.invEnd hs hg h).END hpos
    have hF := (S.invF hs hg h).F3 hpos
    have hY := (S.invA hs h).Y
    simp [h4, S.b2n] at hY
    exact ⟨h3, hF.1, by omega⟩

/-- non-vacuity: parallelism 2, buffer 2; item 1 finishes before item 0, the consumer still gets
item 0 first, then item 1, then the end -/
example : ∃ s, Stream.Reach ⟨Stream.code, 2, 2, 8⟩ s ∧
    s.results = [.val 0 100, .val 1 101, .end] :=
  ⟨_, Stream.reach_of_run Stream.Reach.init (ls := [.dPull, .srcRet (.item 7), .dTakeToken, .dSend 0, .dPull,
      .srcRet (.item 8), .dTakeToken, .dSend 1, .dPull, .srcRet .end, .fRet 1 (.ok 101), .wSendC 1,
      .nextCall true, .cRecv, .fRet 0 (.ok 100), .wSendC 0, .cRecv, .cYield, .cRelease, .nextCall true, .cYield,
      .cRelease, .dCloseIn, .srcCloseRet, .dEgDone, .wExitIdle 0, .wExitIdle 1, .wDefer 0, .wDefer 1, .wEgDone 0,
      .wEgDone 1, .nextCall true, .cRecvClosed, .cWaitDone]) rfl, rfl⟩

/-- **In-flight bound (MapStream).** In every reachable state the number of source items taken but
not yet yielded is at most `max(bufferSize, parallelism) + 1`, which is at most
`bufferSize + parallelism + 1` (a negative `bufferSize` read as 0); and at most `parallelism` calls of
`f` run at once. -/
theorem inflight_bound (cfg : Stream.Cfg) (hc : cfg.code = Stream.code) (hg : 1 ≤ cfg.gmp)
    (s : Stream.St) (h : Stream.Reach cfg s) :
    (s.srcItems.length : Int) ≤ cnt S.isVal s.results + max cfg.B (Stream.par cfg) + 1 ∧
    max cfg.B (Stream.par cfg) ≤ max cfg.B 0 + Stream.par cfg ∧
    Stream.par cfg = (if cfg.P ≤ 0 then (cfg.gmp : Int) else cfg.P) ∧
    (Stream.fRunning s : Int) ≤ Stream.par cfg := by
  have hs : cfg.code.Sound := hc ▸ stream_code_sound stream_ties
  have hA := S.invA hs h
  have hpar := S.par_pos hs hg
  have hbuf := S.buf_eq hs
  have htok := S.numTokens_eq hs
  have hT := hA.T
  have hlen := hA.len
  have hnw := S.numWorkers_eq hs
  refine ⟨?_, by omega, S.par_eq hs, ?_⟩
  · rcases hA.S with hS | ⟨_, hS⟩
    · have : S.b2n (S.dHolding s.disp) ≤ 1 := by unfold S.b2n; split <;> omega
      have : S.b2n (S.dHolding s.disp) ≤ S.b2n (S.dSendIn s.disp) + 1 := by omega
      -- holding without a token: waitReady; with a token: sendIn, which the token count already covers
      omega
    · omega
  · have : Stream.fRunning s ≤ s.ws.length := List.countP_le_length
    omega

/-- non-vacuity: parallelism 1, buffer 1: two items taken, none yielded (`1 + 1`) -/
example : ∃ s, Stream.Reach ⟨Stream.code, 1, 1, 8⟩ s ∧ s.srcItems.length = 2 ∧ s.results = [] :=
  ⟨_, Stream.reach_of_run Stream.Reach.init (ls := [.dPull, .srcRet (.item 7), .dTakeToken, .dSend 0, .dPull,
      .srcRet (.item 8)]) rfl, rfl, rfl⟩

/-- **Deadlock freedom (MapStream), enabledness form.** In every reachable state in which the consumer is
inside `Next` (whatever the state of its context) or inside `Close`, some internal step of the library
(a label with `isEnv = false`) is enabled, or the environment owes a return: a call of `f` is running
(`fRunning > 0`) or a call on the source — `Next`, or the `Close` issued by the dispatcher — has not been
answered (`srcBusy`). Nothing is said here about the enabled step being taken or about termination: that is
`C14Progress.mapStream_next_terminates` / `mapStream_close_terminates` (measure). -/
theorem map_deadlock_free (cfg : Stream.Cfg) (hc : cfg.code = Stream.code) (hg : 1 ≤ cfg.gmp)
    (s : Stream.St) (h : Stream.Reach cfg s) (hbusy : S.consBusy s.cons = true) :
    (∃ l s', l.isEnv = false ∧ Stream.step cfg s l = some s') ∨ 0 < Stream.fRunning s ∨ Stream.srcBusy s = true := by
  have hs : cfg.code.Sound := hc ▸ stream_code_sound stream_ties
  rcases S.progress hs hg h hbusy with ⟨l, hl, hen⟩ | h' | h'
  · obtain ⟨s', hs'⟩ := Option.isSome_iff_exists.1 hen
    exact Or.inl ⟨l, s', hl, hs'⟩
  · exact Or.inr (Or.inl h')
  · exact Or.inr (Or.inr h')

/-- non-vacuity: the back-pressure state — buffer full of out-of-order results, dispatcher waiting
for a token, consumer inside `Next`: the worker's pending call of `f` is what is owed -/
example : ∃ s, Stream.Reach ⟨Stream.code, 2, 2, 8⟩ s ∧ S.consBusy s.cons = true ∧ s.ready = 0 ∧ Stream.fRunning s = 1 :=
  ⟨_, Stream.reach_of_run Stream.Reach.init (ls := [.dPull, .srcRet (.item 7), .dTakeToken, .dSend 0, .dPull,
      .srcRet (.item 8), .dTakeToken, .dSend 1, .dPull, .srcRet (.item 9), .fRet 1 (.ok 101), .wSendC 1,
      .nextCall true, .cRecv]) rfl, rfl, rfl, rfl⟩

/-- **Error rules (MapStream; C08 clauses).** (1) An error reported by `Next` is one that a call of `f`
or the source actually returned, or the error of the context passed to `MapStream` after the caller
cancelled it — never a cancellation the library caused itself. (1') The context the library hands to the
source, to `f` and to its own selects is cancelled *by the library* (`ctxCause = lib`) only after a failure
of the source or of `f` has been recorded in the errgroup — never by the passage of time, however long the
source is idle, `f` runs or the consumer stays away (uses `Code.Sound.ctxPlain`: the context is
`errgroup.WithContext(context.WithCancel(ctx))`, and `cancel` is called by `Close` only). (2) The normal end
is never reported when the source or a call of `f` failed. (3) No result at or beyond a failed item is ever
yielded: the consumer's position never passes the index of a failed call of `f` (nor the number of items the
source delivered), so the error comes after at most the results that precede it. -/
theorem mapStream_error_rules (cfg : Stream.Cfg) (hc : cfg.code = Stream.code) (hg : 1 ≤ cfg.gmp)
    (s : Stream.St) (h : Stream.Reach cfg s) :
    (∀ e, Stream.NextRes.err e ∈ s.results → S.genuine s e) ∧
    (s.ctxCause = some .lib → s.egErr ≠ none) ∧
    (Stream.NextRes.end ∈ s.results → S.nFail s = 0) ∧
    (∀ k e, (k, Res.err e) ∈ s.fEnded → s.i ≤ k) ∧
    (∀ k v, Stream.NextRes.val k v ∈ s.results → k < s.i ∧ k < s.srcItems.length) := by
  have hs : cfg.code.Sound := hc ▸ stream_code_sound stream_ties
  have hV := S.invV hs h
  have hP := S.invP hs h
  have hA := S.invA hs h
  refine ⟨(S.invE hs hg h).E4, (S.invB hs hg h).CA.1, ?_, ?_, ?_⟩
  · intro hend
    have hpos : 0 < cnt S.isEnd s.results := by
      unfold cnt; exact List.countP_pos_iff.2 ⟨_, hend, rfl⟩
    exact ((S.invF hs hg h).F3 hpos).1
  · intro k e hm
    have hd := hV.FD k e hm
    have hPk := hP.P k
    by_cases hlt : k < s.i
    · exfalso
      simp [S.b2n, hlt] at hPk
      split at hPk <;> omega
    · omega
  · intro k v hm
    -- the k-th value: k is below the number of values yielded so far
    have hmem : k ∈ s.results.filterMap S.valIdx := List.mem_filterMap.2 ⟨_, hm, rfl⟩
    rw [hV.RV] at hmem
    have hk : k < cnt S.isVal s.results := List.mem_range.1 hmem
    have hY := hA.Y
    have hle : s.i ≤ s.dispI := by
      by_cases hle : s.i ≤ s.dispI
      · exact hle
      · have hPi := hP.P s.dispI
        simp [S.b2n, (by omega : s.dispI < s.i)] at hPi
    have hS : s.dispI ≤ s.srcItems.length := by
      have hHV := hV.BG
      -- every dispatched index is an item of the source
      by_cases h0 : s.dispI = 0
      · omega
      · have hQ := hP.Q1 (s.dispI - 1)
        simp [S.b2n, (by omega : s.dispI - 1 < s.dispI)] at hQ
        obtain ⟨a, ha⟩ := S.mem_of_icnt_pos (by omega : 0 < S.icnt (s.dispI - 1) s.fBegun)
        have := hHV _ _ ha
        have hlt : s.dispI - 1 < s.srcItems.length := by
          by_cases hlt : s.dispI - 1 < s.srcItems.length
          · exact hlt
          · rw [List.getElem?_eq_none (by omega)] at this; simp at this
        omega
    constructor <;> omega

/-- non-vacuity: item 0 fails with error 5 after item 1 succeeded; `Next` reports `f`'s error 5 and
item 1's result is never yielded -/
example : ∃ s, Stream.Reach ⟨Stream.code, 2, 2, 8⟩ s ∧ s.results = [.err (.f 5)] ∧ s.i = 0 :=
  ⟨_, Stream.reach_of_run Stream.Reach.init (ls := [.dPull, .srcRet (.item 7), .dTakeToken, .dSend 0, .dPull,
      .srcRet (.item 8), .dTakeToken, .dSend 1, .dPull, .fRet 1 (.ok 101), .wSendC 1, .fRet 0 (.err 5),
      .wDefer 0, .wEgDone 0, .srcRet (.err 9002), .dCloseIn, .srcCloseRet, .dEgDone, .wExitIdle 1, .wDefer 1,
      .wEgDone 1, .nextCall true, .cRecv, .cRecvClosed, .cWaitDone]) rfl, rfl, rfl⟩

/-- dependence on `ctxPlain`: in the LTS of code whose context can end by the library's own doing (e.g.
`context.WithTimeout(ctx, time.Minute)` in place of `context.WithCancel(ctx)`: the generated fact
`msCtxAssigns` changes, `Stream.ctxPlain = false`, the label `libCtxEnd` is enabled) the source delivers an
item, then is idle; the library's context ends; the dispatcher, waiting for a token with both arms ready,
takes the `ctx.Done()` arm; `Next` reports the library's own context error although neither the source nor
`f` failed and nobody cancelled anything — (1) and (1') of `mapStream_error_rules` are false there. -/
example : ∃ s, Stream.Reach ⟨{ Stream.code with ctxPlain := false }, 1, 1, 8⟩ s ∧
    s.results = [.err .ctxLib] ∧ s.fEnded = [] ∧ s.srcErr = none ∧ s.parentCancelled = false ∧
    s.closeCalled = false :=
  ⟨_, Stream.reach_of_run Stream.Reach.init (ls := [.dPull, .srcRet (.item 7), .libCtxEnd, .dWaitCtx, .dCloseIn,
      .srcCloseRet, .dEgDone, .wExitIdle 0, .wDefer 0, .wEgDone 0, .nextCall true, .cRecvClosed, .cWaitDone]) rfl,
    rfl, rfl, rfl, rfl, rfl⟩

/-- **Close (MapStream; C09 clauses).** In every reachable state the calls seen by the source are a
sequence of complete `Next` calls followed by at most one `Close` (never `Next` after `Close`, never a
second `Close`, never two calls at once — one goroutine issues them all). From the moment the stream's
`Close` is called the library's context is cancelled (`Close` cancels *before* it waits:
`Code.Sound.closeCancels`). Once `Close` has returned (`Code.Sound.closeWaits`: it returns only when the
errgroup is empty): the dispatcher and every worker have finished, no call of `f` and no call on the source
is in progress, and the source has been closed exactly once (`Code.Sound.closesSource`). `Close` may be
called at any moment at which the single consumer is not inside `Next` (`closeCall` is enabled iff
`cons = idle`; see the header). That `Close` does return — within `SM.nu` steps once the outstanding calls
of `f` / of the source have returned — is `C14Progress.mapStream_close_terminates`. -/
theorem mapStream_close_returns_workers_stopped_source_closed (cfg : Stream.Cfg) (hc : cfg.code = Stream.code)
    (hg : 1 ≤ cfg.gmp) (s : Stream.St) (h : Stream.Reach cfg s) :
    (∃ a, s.srcLog = S.pairs a ++ S.logTail s.disp) ∧
    (s.cons = .closeWait ∨ s.cons = .closed → s.ctxCause ≠ none) ∧
    (s.cons = .closed →
      s.disp = .done ∧ (∀ pc ∈ s.ws, pc = .done) ∧ Stream.fRunning s = 0 ∧ Stream.srcBusy s = false ∧
      ∃ a, s.srcLog = S.pairs a ++ [SrcEv.closeBegin, SrcEv.closeEnd]) := by
  have hs : cfg.code.Sound := hc ▸ stream_code_sound stream_ties
  have hL := (S.invL hs h).SL
  refine ⟨hL, ?_, ?_⟩
  · intro hc'
    have hCL := (S.invB hs hg h).CL
    exact hCL.2 (hCL.1.2 (by rcases hc' with hc' | hc' <;> simp [hc', S.cClosing]))
  intro hclosed
  have he := (S.invH hs hg h).CLd (by simp [hclosed, S.cClosedP])
  have ⟨hd, hw⟩ := S.all_done_of_egLive (S.invB hs hg h) he
  have hall : ∀ pc ∈ s.ws, pc = Stream.WPc.done := by
    intro pc hpc
    have := cnt_eq_zero hw pc hpc
    cases pc <;> simp_all [S.wNotDone]
  refine ⟨hd, hall, ?_, by simp [Stream.srcBusy, hd], ?_⟩
  · unfold Stream.fRunning
    apply List.countP_eq_zero.2
    intro pc hpc
    rw [hall pc hpc]; simp
  · obtain ⟨a, ha⟩ := hL
    exact ⟨a, by simp [ha, hd, S.logTail]⟩

/-- non-vacuity: `Close` while the producer is ahead (one result in `c`, one call of `f` running) -/
example : ∃ s, Stream.Reach ⟨Stream.code, 1, 2, 8⟩ s ∧ s.cons = .closed ∧
    s.srcLog = [.nextBegin, .nextEnd, .nextBegin, .nextEnd, .nextBegin, .nextEnd, .closeBegin, .closeEnd] :=
  ⟨_, Stream.reach_of_run Stream.Reach.init (ls := [.dPull, .srcRet (.item 7), .dTakeToken, .dSend 0, .dPull,
      .srcRet (.item 8), .dTakeToken, .fRet 0 (.ok 100), .wSendC 0, .dSend 0, .dPull, .closeCall,
      .srcRet (.err 9002), .dCloseIn, .srcCloseRet, .dEgDone, .fRet 0 (.ok 101), .wSendCtx 0, .wDefer 0, .wEgDone 0,
      .cCloseDone]) rfl, rfl, rfl⟩

/-- non-vacuity at the boundary "the context handed to `MapStream` is already done": the environment's
`parentCancel` is the first label; the dispatcher still calls the source once (which returns the context's
error), closes it, and `Close` returns with the source closed exactly once -/
example : ∃ s, Stream.Reach ⟨Stream.code, 1, 1, 8⟩ s ∧ s.cons = .closed ∧ s.results = [] ∧
    s.srcLog = [.nextBegin, .nextEnd, .closeBegin, .closeEnd] :=
  ⟨_, Stream.reach_of_run Stream.Reach.init (ls := [.parentCancel, .dPull, .srcRet (.err 9001), .dCloseIn,
      .srcCloseRet, .dEgDone, .wExitIdle 0, .wDefer 0, .wEgDone 0, .closeCall, .cCloseDone]) rfl, rfl, rfl, rfl⟩

/-- dependence on `closeWaits` / `closeCancels`: in the LTS of a `Close` that does not wait for the errgroup,
`Close` returns while the dispatcher is inside the source's `Next` and a call of `f` is running; in the LTS
of a `Close` that waits without cancelling first, the library's context is still live while `Close` waits. -/
example : (∃ s, Stream.Reach ⟨{ Stream.code with closeWaits := false }, 1, 1, 8⟩ s ∧ s.cons = .closed ∧
      s.disp = .inNext ∧ Stream.fRunning s = 1) ∧
    (∃ s, Stream.Reach ⟨{ Stream.code with closeCancels := false }, 1, 1, 8⟩ s ∧ s.cons = .closeWait ∧
      s.ctxCause = none) :=
  ⟨⟨_, Stream.reach_of_run Stream.Reach.init (ls := [.dPull, .srcRet (.item 7), .dTakeToken, .dSend 0, .dPull,
      .closeCall, .cCloseDone]) rfl, rfl, rfl, rfl⟩,
   ⟨_, Stream.reach_of_run Stream.Reach.init (ls := [.dPull, .closeCall]) rfl, rfl, rfl⟩⟩

/-- **An expired consumer context costs nothing (MapStream; C08 clause).** The step in which `Next`
returns its own context's error changes nothing but the consumer's program counter (and the log of
results): the reorder buffer, the position, the result channel and the tokens are exactly as before, so
the next `Next` continues where this one left off; and a `Next` whose context has expired still yields
the next result if it is already there. -/
theorem mapStream_ctx_costs_nothing (cfg : Stream.Cfg) (hc : cfg.code = Stream.code) (s s' : Stream.St) :
    (Stream.step cfg s .cCtx = some s' →
      s.cons = .next false ∧ s' = { s with cons := .idle, results := s.results ++ [.ctxCons] }) ∧
    (s.cons = .next false → Stream.canYield cfg s = true → (Stream.step cfg s .cYield).isSome = true) := by
  have hs : cfg.code.Sound := hc ▸ stream_code_sound stream_ties
  constructor
  · intro hstep
    simp only [Stream.step] at hstep
    split at hstep
    · next heq =>
      split at hstep
      · simp only [Option.some.injEq] at hstep
        exact ⟨heq, hstep.symm⟩
      · simp at hstep
    · simp at hstep
  · intro hcons hy
    exact S.en_cYield hs hcons hy

/-- non-vacuity: a `Next` with an expired context returns its error, the following `Next` gets item 0 -/
example : ∃ s, Stream.Reach ⟨Stream.code, 1, 1, 8⟩ s ∧ s.results = [.ctxCons, .val 0 100] :=
  ⟨_, Stream.reach_of_run Stream.Reach.init (ls := [.dPull, .srcRet (.item 7), .dTakeToken, .dSend 0, .nextCall false,
      .cCtx, .fRet 0 (.ok 100), .wSendC 0, .nextCall true, .cRecv, .cYield, .cRelease]) rfl, rfl⟩

/-! ## MapIterator -/

/-- **Order, exactly once (MapIterator).** Values come out for source items 0, 1, 2, … in order; the
value for item `k` is what the one call of `f` on the `k`-th source item returned; when `Next` has
reported the end, the source has ended and every item taken from it has been yielded. -/
theorem mapIterator_order_exactly_once (cfg : Iter.Cfg) (hc : cfg.code = Iter.code) (hg : 1 ≤ cfg.gmp)
    (s : Iter.St) (h : Iter.Reach cfg s) :
    s.results.filterMap I.valIdx = List.range (cnt I.isVal s.results) ∧
    (∀ k v, Iter.NextRes.val k v ∈ s.results →
        (k, v) ∈ s.fEnded ∧ I.ecnt k s.fEnded = 1 ∧ ∃ a, (k, a) ∈ s.fBegun ∧ s.srcItems[k]? = some a) ∧
    (∀ k, S.icnt k s.fBegun ≤ 1) ∧
    (Iter.NextRes.end ∈ s.results → s.srcEnded = true ∧ cnt I.isVal s.results = s.srcItems.length) := by
  have hs : cfg.code.Sound := hc ▸ iter_code_sound iter_ties
  have hV := I.invV hs hg h
  have hP := I.invP hs h
  refine ⟨hV.RV, ?_, ?_, ?_⟩
  · intro k v hm
    have hok := hV.Vres k v hm
    have hpos : 0 < I.ecnt k s.fEnded := by
      unfold I.ecnt cnt; exact List.countP_pos_iff.2 ⟨_, hok, by simp⟩
    have hQ2 := hP.Q2 k
    have hQ1 := hP.Q1 k
    have hlt : k < s.dispI := by
      by_cases hlt : k < s.dispI
      · exact hlt
      · simp [S.b2n, hlt] at hQ2; omega
    simp [S.b2n, hlt] at hQ2 hQ1
    obtain ⟨a, ha⟩ := S.mem_of_icnt_pos (by omega : 0 < S.icnt k s.fBegun)
    exact ⟨hok, by omega, a, ha, hV.BG k a ha⟩
  · intro k
    have := hP.Q1 k
    unfold S.b2n at this; split at this <;> omega
  · intro hend
    have hpos : 0 < cnt I.isEnd s.results := by
      unfold cnt; exact List.countP_pos_iff.2 ⟨_, hend, rfl⟩
    have ⟨h1, h2, h3, _, _⟩ := (I.invEnd hs hg h).END hpos
    have hY := (I.invA hs hg h).Y
    exact ⟨h3, by omega⟩

/-- **In-flight bound (MapIterator).** Items taken from the source and not yet yielded never exceed
`max(bufferSize, parallelism) + 1 ≤ bufferSize + parallelism + 1`. -/
theorem mapIterator_inflight_bound (cfg : Iter.Cfg) (hc : cfg.code = Iter.code) (hg : 1 ≤ cfg.gmp)
    (s : Iter.St) (h : Iter.Reach cfg s) :
    (s.srcItems.length : Int) ≤ cnt I.isVal s.results + max cfg.B (Iter.par cfg) + 1 ∧
    max cfg.B (Iter.par cfg) ≤ max cfg.B 0 + Iter.par cfg := by
  have hs : cfg.code.Sound := hc ▸ iter_code_sound iter_ties
  have hA := I.invA hs hg h
  have hpar := I.par_pos hs hg
  have hbuf := I.buf_eq hs
  have hT := hA.T
  have hS := hA.S
  have hY := hA.Y
  have hTb := hA.Tb
  refine ⟨?_, by omega⟩
  have : S.b2n (I.dHolding s.disp) ≤ 1 := by unfold S.b2n; split <;> omega
  have : (0 : Int) ≤ S.b2n (I.dSendIn s.disp) := by omega
  have hh : I.dSendIn s.disp = true → I.dHolding s.disp = true := by
    cases s.disp <;> simp [I.dSendIn, I.dHolding]
  have : (S.b2n (I.dHolding s.disp) : Int) ≤ S.b2n (I.dSendIn s.disp) + 1 := by
    unfold S.b2n; split <;> split <;> omega
  omega

/-- **Deadlock freedom (MapIterator), enabledness form.** In every reachable state with the consumer inside
`Next`, some internal step (`isEnv = false`) is enabled, or a call of `f` is running, or the source iterator
has been asked for an item and has not answered — in particular a dispatcher parked in `cond.Wait()` is never
what a quiescent state waits for: parked ⇒ `inFlight = bufferSize`, so the decrement of the `Next` that frees
a slot hits `bufferSize-1` and its `Signal` finds the dispatcher registered. That rests on the two critical
sections being atomic with respect to each other (`Code.Sound.sectionsAtomic`, used by the invariant
`InvA.NC`/`PK`: both lock `mapIterator.m`, which is `cond.L`); without it the statement is false of the
model (example below). Termination (measure): `C14Progress.mapIterator_next_terminates`. -/
theorem mapIterator_deadlock_free (cfg : Iter.Cfg) (hc : cfg.code = Iter.code) (hg : 1 ≤ cfg.gmp)
    (s : Iter.St) (h : Iter.Reach cfg s) (hnext : s.cons = .next) :
    (∃ l s', l.isEnv = false ∧ Iter.step cfg s l = some s') ∨ 0 < Iter.fRunning s ∨ s.disp = .inNext := by
  have hs : cfg.code.Sound := hc ▸ iter_code_sound iter_ties
  rcases I.progress hs hg h hnext with ⟨l, hl, hen⟩ | h' | h'
  · obtain ⟨s', hs'⟩ := Option.isSome_iff_exists.1 hen
    exact Or.inl ⟨l, s', hl, hs'⟩
  · exact Or.inr (Or.inl h')
  · exact Or.inr (Or.inr h')

/-- non-vacuity: parallelism 1, buffer 1; the dispatcher parks with the second item, the consumer's
`Next` yields item 0 and wakes it -/
example : ∃ s, Iter.Reach ⟨Iter.code, 1, 1, 8⟩ s ∧ s.results = [.val 0 100] ∧ s.disp = .acquire 8 :=
  ⟨_, Iter.reach_of_run Iter.Reach.init (ls := [.dPull, .srcRet (some 7), .dAcquire, .dSend 0, .dPull, .srcRet (some 8),
      .dAcquire, .fRet 0 100, .nextCall, .wHandOff 0, .cYield]) rfl, rfl, rfl⟩

/-- dependence on `sectionsAtomic` — **the lost wakeup**: in the LTS of code whose two critical sections are
not atomic with respect to each other (e.g. `Next` locks another mutex than the dispatcher: the generated
`miNextSync` names `it.m2`, `Iter.sectionsAtomic = false`) the dispatcher's check and its parking are two
steps. Parallelism 1, buffer 1: the dispatcher holds the second item and has seen the buffer full
(`.checked 8`); the consumer's `Next` yields item 0, decrements `inFlight` to `bufferSize-1` and signals —
nobody is registered yet; the dispatcher parks (`dPark`); the consumer calls `Next` again. Now no internal
step is enabled, no call of `f` is running and the source is not being asked: every goroutine is asleep for
good with `inFlight = 0`. `mapIterator_deadlock_free` (and every theorem of `C14Progress` about MapIterator)
is false of that model. -/
example : ∃ s, Iter.Reach ⟨{ Iter.code with sectionsAtomic := false }, 1, 1, 8⟩ s ∧ s.cons = .next ∧
    s.disp = .parked 8 ∧ s.inFlight = 0 ∧ Iter.fRunning s = 0 ∧
    (∀ l ∈ Iter.internalLabels s, Iter.step ⟨{ Iter.code with sectionsAtomic := false }, 1, 1, 8⟩ s l = none) :=
  ⟨_, Iter.reach_of_run Iter.Reach.init (ls := [.dPull, .srcRet (some 7), .dAcquire, .dSend 0, .dPull,
      .srcRet (some 8), .dAcquire, .fRet 0 100, .nextCall, .wHandOff 0, .cYield, .dPark, .nextCall]) rfl,
    rfl, rfl, rfl, rfl, by decide⟩

/-- the discipline predicates themselves (`Model/ParMap.lean`): they hold of the operation lists regenerated from
the source as it is, and reject each of these variants of `mapIterator.Next` / the dispatcher / `MapStream` — `Next`
locking a second mutex `m2`; `TryLock` instead of `Lock`; `Signal` after `Unlock`; `if` instead of `for` around
`cond.Wait()`; the dispatcher incrementing `inFlight` after `Unlock`; a `context.WithTimeout` in place of
`context.WithCancel`; a `defer cancel()` in `MapStream`. (Two of them — `Signal` after `Unlock`, `if` for `for` with
one dispatcher and one consumer — are harmless in Go; the predicate pins the discipline the proofs were written for,
not the weakest one.) -/
example :
    let disp := [("for", ""), ("Lock", "it.m"), ("for", "it.inFlight >= bufferSize"), ("Wait", "it.cond"), ("}", ""),
      ("inc", "it.inFlight"), ("Unlock", "it.m"), ("}", "")]
    let next := fun (lock unlock : String × String) => [("for", ""), ("if", "it.h.Len() > 0 && it.h.Peek().idx == it.i"), lock,
      ("dec", "it.inFlight"), ("if", "it.inFlight == it.bufferSize-1"), ("Signal", "it.cond"), ("}", ""), unlock,
      ("}", ""), ("}", "")]
    let ok := fun d n f => Iter.sectionsAtomicOf d n ParSync.miCondInit f ParSync.miRestSync ParSync.miTouchers ParSync.parImports
    Iter.sectionsAtomic = true ∧ Stream.ctxPlain = true ∧
    ok disp (next ("Lock", "it.m") ("Unlock", "it.m")) ParSync.miFields = true ∧
    ok disp (next ("Lock", "it.m2") ("Unlock", "it.m2")) (("it.m2", "sync.Mutex") :: ParSync.miFields) = false ∧
    ok disp (next ("TryLock", "it.m") ("Unlock", "it.m")) ParSync.miFields = false ∧
    ok disp [("for", ""), ("if", "it.h.Len() > 0 && it.h.Peek().idx == it.i"), ("Lock", "it.m"), ("dec", "it.inFlight"),
      ("use", "wake := it.inFlight == it.bufferSize-1"), ("Unlock", "it.m"), ("if", "wake"), ("Signal", "it.cond"), ("}", ""),
      ("}", ""), ("}", "")] ParSync.miFields = false ∧
    ok [("for", ""), ("Lock", "it.m"), ("if", "it.inFlight >= bufferSize"), ("Wait", "it.cond"), ("}", ""),
      ("inc", "it.inFlight"), ("Unlock", "it.m"), ("}", "")] (next ("Lock", "it.m") ("Unlock", "it.m")) ParSync.miFields = false ∧
    ok [("for", ""), ("Lock", "it.m"), ("for", "it.inFlight >= bufferSize"), ("Wait", "it.cond"), ("}", ""),
      ("Unlock", "it.m"), ("inc", "it.inFlight"), ("}", "")] (next ("Lock", "it.m") ("Unlock", "it.m")) ParSync.miFields = false ∧
    Stream.ctxPlainOf [("ctx, cancel", "context.WithTimeout(ctx, time.Minute)"), ("eg, ctx", "errgroup.WithContext(ctx)")]
      ParSync.msCtxShadows ParSync.msCancelUses ParSync.parImports = false ∧
    Stream.ctxPlainOf ParSync.msCtxAssigns ParSync.msCtxShadows
      [("MapStream", "defer cancel()"), ("MapStream", "cancel: cancel"), ("mapStream.Close", "s.cancel()")] ParSync.parImports = false := by
  decide

end Juniper.Props.C14
