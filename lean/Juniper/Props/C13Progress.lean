import Juniper.Proofs.ParDoMeasure
/-!
# C13 — `parallel.Do` / `DoContext` do return: progress by a decreasing measure

`Props/C13.lean` states the barrier as a safety property ("returns only after every started call has
finished"). This file adds the liveness half. What is proved, exactly:

* a measure `M.phi : Cfg → St → Nat` that **every** step of the LTS strictly decreases — the library's steps
  (`fetch`, `check`, `begin`, `egDone`, `ret`) *and* the environment's (`fEnd` = a call of `f` returns,
  `callerCancel`) — from any state, reachable or not; `M.phi (init) ≤ 4·n + 2·W + 2` (`W` = goroutines that
  call `f`). So every run, under any scheduler and any behaviour of `f`, has at most that many steps
  (`do_measure`, `do_steps_bounded`): no livelock, no infinite run;
* enabledness: in a reachable state that has not returned, a library step is enabled or a call of `f` is in
  progress (`do_returns_when_calls_return`): the library never waits on itself; quiescent with no call
  running ⇒ returned;
* existence of a run to the return that uses only library steps and returns of `f` (`do_terminates`).

What is **assumed**, not proved, for "`Do` returns once every call of `f` has returned": scheduler fairness
in the weak form *a library step that is enabled is eventually taken* (Go runs runnable goroutines), and
that every call of `f` that began does return (environment assumption, part of the property text). The
measure counts environment steps too, so no assumption about how often the environment may act is needed.
Content vs model shape: the bound depends on the regenerated loop headers and clamps through `Code.Sound`
(`nW ≤ max 1 reqPar`); that `.ret` is enabled when all workers are done is the hand-written `Wait` guard
(see `do_barrier`). The wrappers `Map` / `MapContext` add no step of their own (a wrapper step is a callee
step: `Proofs/ParWrap.wstep_core`), so the bounds carry over through `core_reach`.
-/
namespace Juniper.Props.C13Progress
open Juniper.Gen Juniper.Model.ParDo Juniper.Proofs.ParDo

/-- **The measure.** Every step of the `Do`/`DoContext` LTS — library or environment — strictly decreases
`M.phi`; initially `M.phi ≤ 4·n + 2·W + 2`, where `W` is the number of goroutines that call `f` (1 on the
sequential path), itself at most `max(1, parallelism)` (`GOMAXPROCS` when `parallelism ≤ 0`). -/
theorem do_measure (cfg : Cfg) (hc : cfg.code = doCode ∨ cfg.code = dcCode) :
    (∀ s l s', step cfg s l = some s' → M.phi cfg s' < M.phi cfg s) ∧
    M.phi cfg (init cfg) ≤ 4 * cfg.n + 2 * nW cfg + 2 ∧
    (nW cfg : Int) ≤ max 1 (reqPar cfg) := by
  have hs : cfg.code.Sound := by pardo_sound hc
  refine ⟨fun s l s' h => M.phi_decreases hs h, M.phi_init_le hs, ?_⟩
  unfold nW
  split
  · omega
  · rw [numWorkers_eq hs]
    have := effPar_le_reqPar hs
    omega

/-- non-vacuity: the measure along a complete run of `DoContext(ctx, 2, 3, f)` in which call 1 fails:
`4·3 + 2·2 + 2 = 18` initially, strictly falling with every step, environment steps included -/
example : (List.range 15).map (fun n => (run ⟨dcCode, 2, 3, 8⟩ (init ⟨dcCode, 2, 3, 8⟩)
      (([.fetch 0, .fetch 1, .check 0, .check 1, .begin 1, .begin 0, .fEnd 1 (.err 5), .egDone 1, .fEnd 0 (.ok 9),
         .fetch 0, .check 0, .egDone 0, .callerCancel, .ret] : List Label).take n)).map (M.phi ⟨dcCode, 2, 3, 8⟩))
    = [some 18, some 17, some 16, some 15, some 14, some 13, some 12, some 10, some 9, some 8, some 7, some 3,
       some 2, some 1, some 0] := by
  decide

/-- **Steps are bounded by a function of `n` and the parallelism.** Every run from the initial state —
any interleaving of the workers, any results and return order of `f`, caller cancellation at any point —
has at most `4·n + 2·W + 2` steps (so in particular at most that many internal steps), and from any
reachable state at most `M.phi` more; there is no infinite run. -/
theorem do_steps_bounded (cfg : Cfg) (hc : cfg.code = doCode ∨ cfg.code = dcCode) :
    (∀ ls s, run cfg (init cfg) ls = some s → ls.length + M.phi cfg s ≤ 4 * cfg.n + 2 * nW cfg + 2) ∧
    (∀ s ls s', run cfg s ls = some s' → ls.length + M.phi cfg s' ≤ M.phi cfg s) ∧
    ¬ ∃ σ : Nat → St, ∀ n, ∃ l, step cfg (σ n) l = some (σ (n + 1)) := by
  have hs : cfg.code.Sound := by pardo_sound hc
  refine ⟨?_, fun s ls s' h => M.run_phi hs h, ?_⟩
  · intro ls s h
    have := M.run_phi hs h
    have := M.phi_init_le hs
    omega
  · rintro ⟨σ, hσ⟩
    have key : ∀ n, n + M.phi cfg (σ n) ≤ M.phi cfg (σ 0) := by
      intro n
      induction n with
      | zero => simp
      | succ n ih =>
        obtain ⟨l, hst⟩ := hσ n
        have := M.phi_decreases hs hst
        omega
    have := key (M.phi cfg (σ 0) + 1)
    omega

/-- non-vacuity: `Do(2, 3, f)` run to its return in 12 steps (bound `4·3 + 2·2 + 2 = 18`) -/
example : ∃ ls s, run ⟨doCode, 2, 3, 8⟩ (init ⟨doCode, 2, 3, 8⟩) ls = some s ∧ ls.length = 12 ∧ s.ret ≠ none ∧
    nW ⟨doCode, 2, 3, 8⟩ = 2 :=
  ⟨[.fetch 0, .fetch 1, .begin 1, .begin 0, .fEnd 1 (.ok 7), .fetch 1, .begin 1,
      .fEnd 1 (.ok 8), .fEnd 0 (.ok 9), .fetch 0, .fetch 1, .ret], _, rfl, rfl, by decide, by decide⟩

/-- **`Do` returns once its calls have returned.** In every reachable state in which no internal step of
the library is enabled (quiescent) and no call of `f` is in progress — every call that began has ended
— `Do` / `DoContext` has returned. Equivalently: while the call has not returned, the library can move
or a call of `f` is running; the library never waits on itself. (Safety statements about reachable
states: they say which states are stuck, not that an enabled step is taken — that is the fairness
assumption named in the header.) -/
theorem do_returns_when_calls_return (cfg : Cfg) (hc : cfg.code = doCode ∨ cfg.code = dcCode)
    (s : St) (h : Reach cfg s) :
    (M.Quiescent cfg s → running s = 0 → s.ret.isSome = true) ∧
    (s.ret = none → (∃ l s', l.isEnv = false ∧ step cfg s l = some s') ∨ 0 < running s) ∧
    (running s = 0 → ∀ i, endedCount s i = begunCount s i) := by
  have hs : cfg.code.Sound := by pardo_sound hc
  have hp : s.ret = none → (∃ l s', l.isEnv = false ∧ step cfg s l = some s') ∨ 0 < running s := by
    intro hret
    rcases M.progress hs h hret with ⟨l, hl, hen⟩ | hr
    · obtain ⟨s', hs'⟩ := Option.isSome_iff_exists.1 hen
      exact Or.inl ⟨l, s', hl, hs'⟩
    · exact Or.inr hr
  refine ⟨?_, hp, ?_⟩
  · intro hq hrun
    cases hret : s.ret with
    | some r => rfl
    | none =>
      rcases hp hret with ⟨l, s', hl, hst⟩ | hr
      · rw [hq l hl] at hst; simp at hst
      · omega
  · intro hrun i
    have hB := (inv1 hs h).B i
    have : runC s i ≤ running s := by
      unfold runC running
      apply List.countP_mono_left
      intro x _ hx
      cases x <;> simp_all [isRun]
    omega

/-- non-vacuity: a quiescent state of `DoContext(ctx, 2, 2, f)` that has *not* returned — both calls are
still running, which is exactly what the theorem allows -/
example : ∃ s, Reach ⟨dcCode, 2, 2, 8⟩ s ∧ s.ret = none ∧ running s = 2 ∧
    (∀ l ∈ internalLabels s, step ⟨dcCode, 2, 2, 8⟩ s l = none) :=
  ⟨_, reach_of_run Reach.init (ls := [.fetch 0, .fetch 1, .check 0, .check 1, .begin 1, .begin 0]) rfl, rfl, by decide,
    by decide⟩

/-- **Termination.** From every reachable state: (1) every continuation has at most `M.phi` steps; (2) a
continuation that ends quiescent with no call of `f` running has returned; (3) there is a continuation
made only of internal steps and returns of `f` that ends in a returned state. So, **assuming** every call
of `f` that began returns and an enabled library step is eventually taken (weak fairness of the Go
scheduler; neither is proved here), `Do` / `DoContext` returns — within `M.phi cfg s ≤ 4·n + 2·W + 2` steps
of the whole system, environment steps included. -/
theorem do_terminates (cfg : Cfg) (hc : cfg.code = doCode ∨ cfg.code = dcCode) (s : St) (h : Reach cfg s) :
    (∀ ls s', run cfg s ls = some s' → ls.length + M.phi cfg s' ≤ M.phi cfg s) ∧
    M.phi cfg s ≤ 4 * cfg.n + 2 * nW cfg + 2 ∧
    (∀ ls s', run cfg s ls = some s' → M.Quiescent cfg s' → running s' = 0 → s'.ret.isSome = true) ∧
    (∃ ls s', (∀ l ∈ ls, l.isEnv = false ∨ ∃ w r, l = .fEnd w r) ∧ run cfg s ls = some s' ∧
      ls.length ≤ M.phi cfg s ∧ s'.ret.isSome = true) := by
  have hs : cfg.code.Sound := by pardo_sound hc
  refine ⟨fun ls s' hr => M.run_phi hs hr, ?_, ?_, ?_⟩
  · have hb := M.phi_init_le hs
    have : M.phi cfg s ≤ M.phi cfg (init cfg) := by
      clear hb
      induction h with
      | init => exact Nat.le_refl _
      | step _ hst ih => have := M.phi_decreases hs hst; omega
    omega
  · intro ls s' hr hq hrun
    exact (do_returns_when_calls_return cfg hc s' (reach_of_run h hr)).1 hq hrun
  · obtain ⟨ls, s', h1, h2, h3⟩ := M.exists_return_run hs (M.phi cfg s) s h (Nat.le_refl _)
    have := M.run_phi hs h2
    exact ⟨ls, s', h1, h2, by omega, h3⟩

/-- non-vacuity: from the state with both calls running, the two returns and four internal steps end in
the returned state (`M.phi = 8` there) -/
example : ∃ s s', Reach ⟨dcCode, 2, 2, 8⟩ s ∧ s.ret = none ∧ M.phi ⟨dcCode, 2, 2, 8⟩ s = 8 ∧
    run ⟨dcCode, 2, 2, 8⟩ s [.fEnd 1 (.ok 11), .fEnd 0 (.ok 10), .fetch 0, .fetch 1, .ret] = some s' ∧
    s'.ret = some none :=
  ⟨_, _, reach_of_run Reach.init (ls := [.fetch 0, .fetch 1, .check 0, .check 1, .begin 1, .begin 0]) rfl, rfl,
    by decide, rfl, rfl⟩

end Juniper.Props.C13Progress
