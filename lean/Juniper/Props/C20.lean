import Juniper.Model.XTime
/-!
# C20 — xtime: SleepContext honours d and the deadline; JitterTicker keeps its spacing
-/
namespace Juniper.Props.C20
open Juniper.Gen.XTime Juniper.Model.XTime

/-- `SleepContext` with `d ≤ 0` returns nil at the very instant of the call. -/
theorem sleep_immediate_when_nonpositive (s : SState) (hd : s.d ≤ 0) (hp : s.phase = .idle) :
    ∃ s', sstep s .enter = some s' ∧ s'.phase = .returned .nil s.now := by
  have h : sleepDecision s.d s.deadline s.now = some .nil := by
    simp [sleepDecision, sleepNonPositive, sleepNonPositiveRet, hd]
  simp [sstep, hp, h]

example : (sInit 7 0 none false).d ≤ 0 ∧ (sInit 7 0 none false).phase = .idle := by decide

end Juniper.Props.C20
