import Juniper.Model.XTime
import Juniper.Proofs.XTimeSleep
import Juniper.Proofs.XTimeTicker
/-!
# C20 — xtime: SleepContext honours d and the deadline; JitterTicker keeps its spacing; no tick
after Stop (property theorems)

Models: `Juniper/Model/XTime.lean` (defined in terms of `Juniper.Gen.XTime`, regenerated from
`xtime/xtime.go` on every run). Helper lemmas: `Juniper/Proofs/XTimeSleep.lean`,
`Juniper/Proofs/XTimeTicker.lean`. Only the property theorems and their non-vacuity examples are here.

All theorems are *partial by nature* in one respect that no model of the code can remove: that the
Go runtime never fires a timer (or a context deadline) early and that `time.Now` is monotone is part
of the LTS (`fire`/`arm` are enabled only when `due ≤ now`, `advance` only moves forward), i.e. trusted;
so is the mutual exclusion `sync.Mutex` gives the critical sections of `JitterTicker` (each is one
label; the statement skeletons that justify this are regenerated and consumed, see
`no_tick_after_stop`). `SleepContext`'s durations are compared, never added: its arithmetic cannot
overflow. The arithmetic of `JitterTicker.schedule` is modelled over int64 / uint64 (see below).
-/
namespace Juniper.Props.C20
open Juniper.Facts Juniper.Gen.XTime Juniper.Model.XTime
open Juniper.Proofs.XTimeSleep Juniper.Proofs.XTimeTicker

/-! ## SleepContext -/

/-- *returns nil only after at least d has elapsed (at once when d ≤ 0)*: in every state reachable
from the call — for every schedule of clock advances, cancellation, deadline expiry and `select`
choices — a nil result at instant `t` means either `d ≤ 0` and `t` is the instant of the call, or at
least `d` has elapsed since the call. -/
theorem sleep_nil_only_after_d {s0 s : SState} (h0 : s0.phase = .idle) (hr : SReach s0 s) {t : Int}
    (hret : s.phase = .returned .nil t) :
    (s.d ≤ 0 ∧ t = s.start) ∨ (0 < s.d ∧ s.start + s.d ≤ t) := by
  have hi := sinv_reach h0 hr
  unfold SInv at hi
  rw [hret] at hi
  exact hi.1 rfl

example : ∃ s, SReach (sInit 0 5 none false) s ∧ s.phase = .returned .nil 7 :=
  ⟨_, sreach_of_runS [.enter, .advance 7, .arm 1] _ _ _ .refl rfl, by decide⟩

/-- *at once when d ≤ 0*: the call returns nil at the very instant it is made, whatever the context. -/
theorem sleep_immediate_when_nonpositive (s : SState) (hd : s.d ≤ 0) (hp : s.phase = .idle) :
    sstep s .enter = some { s with start := s.now, phase := .returned .nil s.now } := by
  simp [sstep, hp, sleepDecision_eq, hd]

example : (sInit 7 0 (some 3) true).d ≤ 0 ∧ (sInit 7 0 (some 3) true).phase = .idle := by decide

/-- *returns DeadlineTooSoonError immediately exactly when the context's deadline is closer than d*
(`d > 0`): the entry step ends the call with `DeadlineTooSoonError` at the instant of the call iff a
deadline exists and less than `d` is left until it; otherwise the call starts waiting with the timer
due exactly `d` later. -/
theorem sleep_deadline_too_soon_iff (s : SState) (hd : 0 < s.d) (hp : s.phase = .idle) :
    (sstep s .enter = some { s with start := s.now, phase := .returned .tooSoon s.now }
      ↔ ∃ dl, s.deadline = some dl ∧ dl - s.now < s.d) ∧
    ((¬ ∃ dl, s.deadline = some dl ∧ dl - s.now < s.d) →
      sstep s .enter = some { s with start := s.now, phase := .waiting (s.now + s.d) }) := by
  have hd' : ¬ s.d ≤ 0 := by omega
  cases hdl : s.deadline with
  | none => simp [sstep, hp, sleepDecision_eq, hd', hdl, sleepTimerDur]
  | some dl =>
    by_cases hc : dl - s.now < s.d
    · simp [sstep, hp, sleepDecision_eq, hd', hdl, hc]
    · simp [sstep, hp, sleepDecision_eq, hd', hdl, hc, sleepTimerDur]

/-- … and `DeadlineTooSoonError` is never returned later or for any other reason: in every reachable
state a `DeadlineTooSoonError` result carries the instant of the call and a deadline closer than `d`. -/
theorem sleep_too_soon_only_immediately {s0 s : SState} (h0 : s0.phase = .idle) (hr : SReach s0 s)
    {t : Int} (hret : s.phase = .returned .tooSoon t) :
    0 < s.d ∧ t = s.start ∧ ∃ dl, s.deadline = some dl ∧ dl - s.start < s.d := by
  have hi := sinv_reach h0 hr
  unfold SInv at hi
  rw [hret] at hi
  exact hi.2.1 rfl

example : (sInit 0 (3600 * 10 ^ 9) (some (20 * 10 ^ 6)) false).phase = .idle ∧
    ∃ dl, (sInit 0 (3600 * 10 ^ 9) (some (20 * 10 ^ 6)) false).deadline = some dl ∧ dl - 0 < 3600 * 10 ^ 9 :=
  ⟨rfl, _, rfl, by decide⟩
/-- the D5 scenario: a 1 ms sleep under a 1 h deadline is *not* too soon -/
example : ¬ ∃ dl, (sInit 0 (10 ^ 6) (some (3600 * 10 ^ 9)) false).deadline = some dl ∧ dl - 0 < 10 ^ 6 := by
  rintro ⟨dl, h, hlt⟩
  cases h
  revert hlt; decide

/-- *returns the context's error if the context ends first*: while the call waits and its timer is not
yet due, a context that has ended leaves exactly one kind of step to the call — returning the
context's error now — and that step is enabled. Conversely (reachable states) a context error is
returned only by a call that was waiting with an ended context. -/
theorem sleep_ctx_error_if_ctx_first (s : SState) (due : Int) (hp : s.phase = .waiting due)
    (hctx : s.ctxDone = true) (hfirst : s.now < due) :
    (∃ k, sstep s (.arm k) = some { s with phase := .returned .ctxErr s.now }) ∧
    (∀ k s', sstep s (.arm k) = some s' → s' = { s with phase := .returned .ctxErr s.now }) := by
  constructor
  · refine ⟨0, ?_⟩
    obtain ⟨hsel, h0, _, _⟩ := arms
    simp [sstep, hp, hsel, h0, armReady, hctx]
  · intro k s' h
    rcases arm_step hp h with ⟨_, _, rfl⟩ | ⟨_, hdue, _⟩
    · rfl
    · omega

theorem sleep_ctx_error_only_if_ctx_ended {s0 s : SState} (h0 : s0.phase = .idle) (hr : SReach s0 s)
    {t : Int} (hret : s.phase = .returned .ctxErr t) : 0 < s.d ∧ s.ctxDone = true := by
  have hi := sinv_reach h0 hr
  unfold SInv at hi
  rw [hret] at hi
  exact ⟨(hi.2.2.1 rfl).1, (hi.2.2.1 rfl).2.1⟩

example : ∃ s, SReach (sInit 0 5 none false) s ∧ s.phase = .waiting 5 ∧ s.ctxDone = true ∧ s.now < 5 :=
  ⟨_, sreach_of_runS [.enter, .advance 2, .cancel] _ _ _ .refl rfl, by decide, by decide, by decide⟩

/-! ## JitterTicker

`d` and `jitter` range over **all** Go `time.Duration` values of the documented domain,
`0 ≤ jitter < d ≤ MaxInt64`: the arithmetic of `schedule` (the argument of `rand.Int63n`, the
condition of the rejection loop over `rand.Uint64`, `d - jitter`, the saturation test, `next`) is
regenerated from the source with Go's wrap-around int64 / uint64 semantics
(`Juniper.Facts.wrap64`, `wrapU64`), and `drawOk_eq` / `schedNext_eq` prove that nothing wraps.
Instants (the clock, due times, timestamps) are mathematical integers; that the runtime fires a timer
armed with `next` no earlier than `now + next` (it saturates its own `when` when that sum exceeds the
runtime clock - such a timer never fires) is the trusted runtime statement. -/

/-- *created or Reset with any d > 0 and any jitter with 0 ≤ jitter < d does not panic*, for every
int64 `d ≤ MaxInt64`: creation succeeds for exactly the values `0 … 2·jitter` of the random source
(the precondition of `rand.Int63n` holds where it is called; above 2^62 the rejection loop over
`rand.Uint64` is used), and from then on — for every schedule of clock advances, timer firings,
callback runs, receives, `Reset`s and `Stop`s inside the protocol — no call with documented arguments
panics and the ticker never dies holding its mutex. -/
theorem ticker_no_panic {now d j : Int} (hd : 0 < d) (hj0 : 0 ≤ j) (hj : j < d) (hmax : d ≤ maxInt64) :
    (∀ r, (∃ s0, create now d j r = some s0) ↔ (0 ≤ r ∧ r ≤ 2 * j)) ∧
    ∀ r s0, create now d j r = some s0 →
      s0.lastPanic = false ∧ s0.panicked = false ∧
      ∀ s, TReachP s0 s → s.panicked = false ∧
        ∀ l s', Proto s l → (∀ d' j' r', l = .reset d' j' r' → 0 < d' ∧ j' < d') → tstep s l = some s' →
          s'.lastPanic = false ∧ s'.panicked = false := by
  constructor
  · intro r
    unfold create
    simp only [newPanics_false hd hj]
    constructor
    · rintro ⟨s0, h⟩
      obtain ⟨h1, h2, _⟩ := schedule_spec (s := _) hj0 hj hmax h
      exact ⟨h1, h2⟩
    · rintro ⟨h1, h2⟩
      exact schedule_enabled _ hj0 hj hmax h1 h2
  · intro r s0 hc
    have hi0 := tinv_create hd hj0 hj hmax hc
    refine ⟨?_, hi0.alive, ?_⟩
    · unfold create at hc
      simp only [newPanics_false hd hj] at hc
      obtain ⟨_, _, rfl⟩ := schedule_spec (s := _) hj0 hj hmax hc
      rfl
    · intro s hr
      have hi := tinv_reach hi0 hr
      refine ⟨hi.alive, ?_⟩
      intro l s' hp hl hs
      have hi' := tinv_step hi hp hs
      refine ⟨?_, hi'.alive⟩
      cases hlp : s'.lastPanic with
      | false => rfl
      | true =>
        rcases tstep_lastPanic hs hlp with hdead | ⟨d', j', r', rfl, hg⟩
        · rw [hi'.alive] at hdead; cases hdead
        · have := hl d' j' r' rfl
          simp [resetPanicsD, resetPanicsJ] at hg
          omega

/-- jitter = 0 (the D6 configuration) and jitter = d - 1 are inside the theorem -/
example : (create 0 5 0 0).isSome = true ∧ (create 0 5 4 8).isSome = true ∧
    ((create 0 5 0 0).bind fun s => tstep s (.reset 1 0 0)).isSome = true := by decide

/-- the D21 configurations: `d = MaxInt64, jitter = MaxInt64 - 1` (2·jitter + 1 does not fit into an
int64: the old code panicked in `rand.Int63n`) with the largest draw, and `d = MaxInt64,
jitter = 2^61` with a draw for which `d - jitter + r` exceeds MaxInt64 (the old code armed the timer
with a negative duration): created without panic, the timer is due `MaxInt64` ns from now
(saturated); a `Reset` to such a pair does not panic either. -/
example : ((create 0 maxInt64 (maxInt64 - 1) (2 * (maxInt64 - 1))).map fun s => (s.panicked, s.timer)) =
      some (false, some ⟨maxInt64, 1⟩) ∧
    ((create 0 maxInt64 2305843009213693952 4611686018427387904).map fun s => (s.panicked, s.timer)) =
      some (false, some ⟨maxInt64, 1⟩) ∧
    (((create 0 5 0 0).bind fun s => tstep s (.reset maxInt64 (maxInt64 - 1) 7)).map fun s => (s.lastPanic, s.timer)) =
      some (false, some ⟨maxInt64 - (maxInt64 - 1) + 7, 2⟩) := by decide

/-- *consecutive ticks are never less than d minus jitter apart*, for every int64 `d ≤ MaxInt64`: in
every state reachable inside the protocol, any two consecutive entries of the log of ticks put into
the channel (`sent`, newest first; each entry = the `time.Now()` carried by the tick and the
`d - jitter` in force when it was sent) are at least that `d - jitter` apart. -/
theorem ticker_spacing_ge {now d j r : Int} {s0 s : TState} (hd : 0 < d) (hj0 : 0 ≤ j) (hj : j < d)
    (hmax : d ≤ maxInt64) (hc : create now d j r = some s0) (hr : TReachP s0 s) (i : Nat)
    (h : i + 1 < s.sent.length) :
    (s.sent[i + 1]'h).1 + (s.sent[i]'(by omega)).2 ≤ (s.sent[i]'(by omega)).1 :=
  spaced_get s.sent (tinv_reach (tinv_create hd hj0 hj hmax hc) hr).spaced i h

/-- a reachable state with three ticks, one of them after a `Reset` to a tighter period -/
example : ∃ s0 s, create 0 5 2 3 = some s0 ∧ TReachP s0 s ∧ s.sent = [(13, 2), (10, 3), (6, 3)] := by
  refine ⟨_, _, rfl, reach_of_runP
    [.advance 6, .fire 0, .runCb 0 1, .recv, .advance 4, .fire 0, .runCb 0 0, .recv,
     .reset 3 1 0, .advance 3, .fire 0, .runCb 0 2] _ _ _ .refl rfl, ?_⟩
  decide

/-- *No tick is sent after Stop returns*: after a `Stop` on a running ticker (reachable inside the
protocol), no run of labels other than `Reset` — clock advances, the firing of a timer that raced
with the `Stop`, the callback goroutine it started, receives, even a second `Stop` — puts a tick
into the channel: the log of sent ticks stays what it was when `Stop` was called.

That the callback (lock; `t.gen == gen`; send; re-arm; unlock), `Stop` and `Reset` are single labels
is justified by the regenerated statement lists of the three critical sections having exactly that
shape (`cb_skeleton`, `stop_skeleton`, `reset_skeleton`, consumed by `tinv_step`): with the test
hoisted out of the lock, the send moved behind `Unlock`, or `t.gen++` undone in `Stop`, this theorem
no longer compiles. What the mutex itself guarantees is trusted (Go runtime) and searched by the
real-threads phase of the harness. -/
theorem no_tick_after_stop {now d j r : Int} {s0 s s1 s2 : TState} (hd : 0 < d) (hj0 : 0 ≤ j) (hj : j < d)
    (hmax : d ≤ maxInt64) (hc : create now d j r = some s0) (hr : TReachP s0 s) (hrun : s.stopped = false)
    (hstop : tstep s .stop = some s1) (hafter : RunNoReset s1 s2) :
    s2.sent = s.sent := by
  have hi := tinv_reach (tinv_create hd hj0 hj hmax hc) hr
  obtain ⟨hs1, he1⟩ := stop_establishes hi hrun hstop
  exact (stopped_run hs1 hafter).2.trans he1

/-- `Stop` racing a timer that has already fired: the callback goroutine runs after `Stop` -/
example : ∃ s0 s s1 s2, create 0 5 2 3 = some s0 ∧ TReachP s0 s ∧ s.stopped = false ∧ s.pending = [1] ∧
    tstep s .stop = some s1 ∧ RunNoReset s1 s2 ∧ s2.pending = [] := by
  refine ⟨_, _, _, _, rfl, reach_of_runP [.advance 6, .fire 0] _ _ _ .refl rfl, by decide, by decide, rfl,
    .step (.runCb 0 0) (.step (.advance 9) (.refl _) rfl rfl) rfl rfl, by decide⟩

end Juniper.Props.C20
