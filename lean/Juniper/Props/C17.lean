import Juniper.Model.Group
/-!
# C17 — xsync.Group (property theorems)
-/
namespace Juniper.Props.C17
open Juniper.Gen.Group Juniper.Model.Group

/-- The stop programs interpreted by the model are the ones in the source. -/
theorem stop_programs : stopProg = [.lock, .cancel, .unlock] ∧ sawProg = [.lock, .cancel, .unlock, .wait] := by
  decide

end Juniper.Props.C17
