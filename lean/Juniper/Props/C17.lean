import Juniper.Model.Group
import Juniper.Proofs.GroupLocal
import Juniper.Proofs.GroupInv
import Juniper.Proofs.GroupProgress
/-!
# C17 — xsync.Group: StopAndWait is a barrier; triggers are never lost or overlapped; periodic
functions keep running (property theorems)

Model: `Juniper/Model/Group.lean`, an LTS whose reachable states are all interleavings of
registrations (`Do`, `Trigger`, `Periodic`, `PeriodicOrTrigger`), trigger calls, `f` returning, clock
advances, parent-context cancellation and any number of `Stop` / `StopAndWait` calls, for any number
of registrations; lock discipline, stop programs, `select` tables, arm actions, channel capacities
and loop shapes are regenerated from `xsync/xsync.go` (`Juniper.Gen.Group`). Helper lemmas:
`Juniper/Proofs/Group{Local,Inv,Progress}.lean`. The theorems hold for both timer-channel semantics
(`async`).

Liveness clauses are proved in the form *the pending work is never dropped + a step of the
registration's own goroutine is enabled + every such step strictly decreases a measure (`dist`) or
begins the run*; that the Go scheduler eventually runs an enabled goroutine, that an armed timer
eventually fires and that `f` returns when it does is trusted (partial by nature).
-/
namespace Juniper.Props.C17
open Juniper.Gen.Group Juniper.Model.Group
open Juniper.Proofs.GroupLocal Juniper.Proofs.GroupInv Juniper.Proofs.GroupProgress

/-- *After StopAndWait returns, none of the functions is running and none ever starts again,
including ones whose start raced with the stop.* (That `g.m` is the standard library's `sync.RWMutex`,
`g.wg` its `WaitGroup`, that `NewGroup` stores the derived context together with its own cancel function,
that all methods have pointer receivers and that the spawned goroutine is `f(); g.wg.Done()` are regenerated
facts: `groupWiring_tie`, `spawnText_tie`, and the `decide` at the head of this proof.) Once some `StopAndWait` call has returned
(`barrier`), in that state and in every state reachable from it — whatever is registered, triggered,
cancelled or stopped afterwards, and wherever the spawns that raced with the stop were — the context
is cancelled, the wait group is empty, no thread is running `f` (`inF`, `active = 0`) and every thread
is at a point from which `f` cannot be reached: before its context check (which will fail), bailing
out, not spawned, or exited. -/
theorem stopAndWait_barrier {now : Int} {async : Bool} {s : GState} (hr : Reach (gInit now async) s)
    (hb : s.barrier = true) :
    ∀ s', Reach s s' →
      s'.barrier = true ∧ s'.ctxDone = true ∧ s'.wg = 0 ∧
      ∀ t ∈ s'.threads, t.pc ≠ .inF ∧ t.active = 0 ∧
        (t.pc = .spawnStart ∨ t.pc = .spawnLocked ∨ t.pc = .spawnBail ∨ t.pc = .notSpawned ∨ t.pc = .exited) := by
  intro s' hr'
  -- what `g.m`, `g.wg`, `g.ctx` are and how `NewGroup` wires them (audit C17 F1): re-checked here so that a
  -- no-op lock type, a `NewGroup` that stores the parent context, or a value receiver breaks *this* theorem
  have _wiring : groupFields.lookup "m" = some "sync.RWMutex" ∧ groupFields.lookup "wg" = some "sync.WaitGroup" ∧
      groupFields.lookup "ctx" = some "context.Context" ∧ groupImports.lookup "sync" = some "sync" ∧
      groupLocalTypes = [] ∧ groupReceivers.all (fun p => p.2 == "*Group") = true ∧
      newGroupStmts = ["bgCtx, cancel := context.WithCancel(ctx)", "return &Group{ ctx: bgCtx, cancel: cancel, }"] ∧
      spawnGoStmts = ["f()", "g.wg.Done()"] := by decide
  have hb' := barrier_reach hr' hb
  have hi := ginv_reach (reach_trans hr hr')
  obtain ⟨hsc, hz⟩ := hi.barrierK hb'
  obtain ⟨hctx, hchk⟩ := hi.safeK hsc
  refine ⟨hb', hctx, hz, ?_⟩
  intro t ht
  have hcount : s'.threads.countP holdsWg = 0 := by rw [← hi.wgCount]; exact hz
  have hw : wgOf t.pc = 0 := by
    have := (List.countP_eq_zero.mp hcount) t ht
    rw [holdsWg_eq] at this
    cases hp : t.pc <;> simp_all [wgOf]
  have hpc := pc_after_barrier hw (hchk t ht) (hi.noLate t ht)
  have hne : t.pc ≠ .inF := by intro h; rw [h] at hw; simp [wgOf] at hw
  refine ⟨hne, ?_, hpc⟩
  have := (hi.threads t ht).1
  simpa [hne] using this

/-- a `Do` racing a `StopAndWait`: the spawn passed its check before the stopper got the lock, `f` ran
and returned, then the barrier was reached; a `Trigger` registered afterwards bails out -/
example : ∃ s, Reach (gInit 0 false) s ∧ s.barrier = true ∧ s.threads.map (·.runs) = [1, 0] ∧
    s.threads.map (·.pc) = [.exited, .notSpawned] := by
  refine ⟨_, reach_of_runG
    [.register .doOnce 0 0, .stopCall true, .work 0 0 0, .work 0 0 0, .work 0 0 0, .work 0 0 0,
     .stopStep 0, .stopStep 0, .stopStep 0, .work 0 0 0, .work 0 0 0, .work 0 0 0, .fEnd 0, .work 0 0 0,
     .stopStep 0, .register .trigger 0 0, .work 1 0 0, .work 1 0 0, .work 1 0 0] _ _ _ .refl rfl, ?_⟩
  decide

/-- *While the group runs, every call of a trigger function is followed by a complete run of f that
begins after that call.* For every reachable state and every registration `i` made through `Trigger`
or `PeriodicOrTrigger`:
(a) a trigger call is always possible and leaves a value in the one-slot channel;
(b) as long as no run has begun since some call (`owed`), the request is still pending: the value is
    in the channel, or the loop has received it and is committed to calling `f` (between the receive
    and the call of `f` there is no further context check);
(c) a step of the registration's own goroutine clears `owed` only by beginning a run — so that run begins
    after the call (that no *other* label clears it, moves the goroutine or takes the token is
    `trigger_request_stable` below);
(d) while the context is live and the goroutine was spawned, a pending request makes progress:
    if `f` is running, its return leads back to the loop with the request still pending; otherwise a
    step of the loop's goroutine is enabled, and every such step begins a run or strictly decreases
    the distance to it, keeping the request pending. (`0 < dist t.pc` is not an assumption about the
    state: it follows from the live context once the registration call has passed `wg.Add` —
    `live_registration_on_its_way`; stability under all other labels and the bound along arbitrary
    runs: `trigger_request_stable`.) -/
theorem trigger_not_lost {now : Int} {async : Bool} {s : GState} (hr : Reach (gInit now async) s)
    (i : Nat) (t : Thread) (hti : s.threads[i]? = some t) (hk : t.kind = .trigger ∨ t.kind = .pot) :
    (∃ s' t', step s (.trig i) = some s' ∧ s'.threads[i]? = some t' ∧ t'.owed = true ∧ t'.token = true) ∧
    (t.owed = true → t.token = true ∨ committed t.pc = true) ∧
    (∀ c off s' t', step s (.work i c off) = some s' → s'.threads[i]? = some t' →
        t.owed = true → t'.owed = true ∨ (t'.pc = .inF ∧ t'.runs = t.runs + 1)) ∧
    (s.ctxDone = false → 0 < dist t.pc → (t.token = true ∨ committed t.pc = true) →
      (t.pc = .inF → ∃ s' t', step s (.fEnd i) = some s' ∧ s'.threads[i]? = some t' ∧ t'.pc = .loopHead ∧
          t'.token = t.token) ∧
      (t.pc ≠ .inF → ∃ c, (step s (.work i c 0)).isSome = true) ∧
      (∀ c off s' t', step s (.work i c off) = some s' → s'.threads[i]? = some t' →
          ((t'.pc = .inF ∧ t'.runs = t.runs + 1) ∨ (0 < dist t'.pc ∧ dist t'.pc < dist t.pc ∧ t'.runs = t.runs)) ∧
          (t'.token = true ∨ committed t'.pc = true ∨ t'.pc = .inF))) := by
  have hi := ginv_reach hr
  have hmem : t ∈ s.threads := List.mem_of_getElem? hti
  have hT := hi.threads t hmem
  obtain ⟨hlt, _⟩ := getElem?_some hti
  refine ⟨?_, hT.2.1, ?_, ?_⟩
  · obtain ⟨t', ht'⟩ := trigSend_enabled t hk
    obtain ⟨_, rfl⟩ := trigSend_spec ht'
    exact ⟨{ s with threads := s.threads.set i { t with token := true, owed := true } },
      { t with token := true, owed := true }, by simp [step, hti, ht'], by simp [hlt], rfl, rfl⟩
  · intro c off s' t' hs ht' ho
    obtain ⟨t0, t1, e, h0, hts, h1, _⟩ := work_inv hs
    rw [hti] at h0; cases h0
    rw [ht'] at h1; cases h1
    have F := threadStep_facts hts
    obtain ⟨_, _, _, _, _, _, _, _, Fruns, _, _, _, _, _, _, Fowed⟩ := F
    rcases Fowed ho with h | h
    · exact Or.inl h
    · exact Or.inr ⟨h, by simp [Fruns, h]⟩
  · intro hctx hd hpend
    refine ⟨?_, ?_, ?_⟩
    · intro hpc
      have hnd : t.kind ≠ .doOnce := by rcases hk with h | h <;> simp [h]
      exact ⟨{ s with threads := s.threads.set i { t with pc := .loopHead, active := t.active - 1 } },
        { t with pc := .loopHead, active := t.active - 1 }, by simp [step, hti, hpc, hnd], by simp [hlt], rfl, rfl⟩
    · intro hne
      have hsel : selectReady t := by
        intro hpc
        have : t.token = true := by
          rcases hpend with h | h
          · exact h
          · rw [hpc] at h; simp [committed] at h
        rcases hk with hk | hk
        · exact Or.inl ⟨hk, this⟩
        · exact Or.inr (Or.inr ⟨hk, Or.inl this⟩)
      obtain ⟨c, hc⟩ := step_enabled (v := view s) hT hd hne hsel
      exact ⟨c, work_some hti hc⟩
    · intro c off s' t' hs ht'
      obtain ⟨t0, t1, e, h0, hts, h1, _⟩ := work_inv hs
      rw [hti] at h0; cases h0
      rw [ht'] at h1; cases h1
      obtain ⟨h1, h2⟩ := step_decreases hts (by simpa [view] using hctx) hd
      refine ⟨?_, h2 hpend⟩
      rcases h1 with ⟨a, b, _⟩ | ⟨a, b, c', _⟩
      · exact Or.inl ⟨a, b⟩
      · exact Or.inr ⟨a, b, c'⟩

/-- **The other half of `trigger_not_lost` / `periodic_keeps_running` (audit C17 F4): a live context means
the registration is on its way.** For a reachable state with a live group context and a registration that is
not a `Do`: either its registration call is still inside `spawn` before `wg.Add(1)` (the call has not
returned, so no trigger function has been handed out and no timer exists yet), or `0 < dist t.pc` — the
goroutine is in its loop or inside `f`. So the hypothesis `0 < dist t.pc` of (d) and of
`periodic_keeps_running` is discharged by "the context is live and the registration call has returned". -/
theorem live_registration_on_its_way {now : Int} {async : Bool} {s : GState} (hr : Reach (gInit now async) s)
    (i : Nat) (t : Thread) (hti : s.threads[i]? = some t) (hk : t.kind ≠ .doOnce) (hctx : s.ctxDone = false) :
    0 < dist t.pc ∨ t.pc = .spawnStart ∨ t.pc = .spawnLocked ∨ t.pc = .spawnChecked :=
  live_on_its_way hr (List.mem_of_getElem? hti) hctx hk

/-- **Stability, and the measure along arbitrary runs.** For a reachable state `s`, a registration `i` that is
not a `Do` and is on its way (`0 < dist t.pc`):
(1) *every* label that is not a step of `i`'s own goroutine and not the return of its `f` — steps of all other
    goroutines, registrations, trigger calls (on `i` too), timers firing, the clock, parent cancellation, `Stop` /
    `StopAndWait` calls and their steps — leaves `i`'s goroutine exactly where it is (same pc, `runs`,
    `active`), keeps `owed`, keeps the token, keeps a fired timer fired and a non-idle timer non-idle; so an
    enabled own step stays enabled and `dist` cannot grow;
(2) along *any* run of the whole system at whose end the context is still live, `runs` has not decreased, and
    as long as no new run has begun the registration is still on its way, `dist` has dropped by at least the
    number of own steps taken in the run, and a pending request (token in the channel, or received and
    committed) is still pending. Since `dist ≤ 9`, a new run begins within 9 own steps (own steps = steps of
    the goroutine and returns of `f`), whatever everything else does in between.
What remains trusted for "is followed by a run" / "keeps being invoked": the scheduler eventually runs an
enabled goroutine, an armed timer eventually fires, `f` returns. -/
theorem trigger_request_stable {now : Int} {async : Bool} {s : GState} (_hr : Reach (gInit now async) s)
    (i : Nat) (t : Thread) (hti : s.threads[i]? = some t) (hk : t.kind ≠ .doOnce) (hd : 0 < dist t.pc) :
    (∀ l s', step s l = some s' → isOwn i l = false →
      ∃ t', s'.threads[i]? = some t' ∧ t'.pc = t.pc ∧ t'.kind = t.kind ∧ t'.runs = t.runs ∧ t'.active = t.active ∧
        (t.owed = true → t'.owed = true) ∧ (t.token = true → t'.token = true) ∧
        (t.timer = .fired → t'.timer = .fired) ∧ (t.timer ≠ .idle → t'.timer ≠ .idle)) ∧
    (∀ ls s', runG s ls = some s' → s'.ctxDone = false →
      ∃ t', s'.threads[i]? = some t' ∧ t'.kind = t.kind ∧ t.runs ≤ t'.runs ∧
        (t'.runs = t.runs → 0 < dist t'.pc ∧ dist t'.pc + nOwn i ls ≤ dist t.pc ∧ nOwn i ls < 9 ∧
          ((t.token = true ∨ committed t.pc = true) → (t'.token = true ∨ committed t'.pc = true)))) := by
  refine ⟨fun l s' h hl => env_stable h hti hl, ?_⟩
  intro ls s' hrun hctx
  obtain ⟨t', ht', hk', hle, himp⟩ := own_steps_bounded ls hrun hctx hti hk hd
  refine ⟨t', ht', hk', hle, fun he => ?_⟩
  obtain ⟨a, b, c⟩ := himp he
  have := dist_le t.pc
  exact ⟨a, b, by omega, c⟩

/-- non-vacuity: a trigger request made while `f` runs; then another registration is made, the clock moves, a
`Stop`-less stopper-free environment acts, `f` returns and the loop goes round: four own steps
(`fEnd`, loop head, select, …) — the measure went from 7 (`inF`) to the next run -/
example : ∃ s s' ls, Reach (gInit 0 true) s ∧ runG s ls = some s' ∧ s'.ctxDone = false ∧ nOwn 0 ls = 4 ∧
    (s.threads[0]?.map fun t => (t.pc, t.token, t.runs)) = some (.inF, true, 1) ∧
    (s'.threads[0]?.map fun t => (t.pc, t.token, t.runs)) = some (.inF, false, 2) := by
  refine ⟨_, _, [.register .periodic 5 1, .fEnd 0, .advance 3, .work 0 0 0, .trig 0, .work 0 1 0, .work 1 0 0, .work 0 0 0],
    reach_of_runG
      [.register .trigger 0 0, .work 0 0 0, .work 0 0 0, .work 0 0 0, .work 0 0 0, .work 0 0 0, .work 0 0 0,
       .trig 0, .work 0 0 0, .work 0 1 0, .work 0 0 0, .trig 0] _ _ _ .refl rfl, rfl, ?_⟩
  decide

/-- a burst of three trigger calls while `f` runs: one value stays in the channel, and after `f`
returns the loop is four steps away from the next run -/
example : ∃ s, Reach (gInit 0 true) s ∧ s.ctxDone = false ∧
    (s.threads[0]?.map fun t => (t.kind, t.pc, t.owed, t.token, t.runs)) = some (.trigger, .inF, true, true, 1) := by
  refine ⟨_, reach_of_runG
    [.register .trigger 0 0, .work 0 0 0, .work 0 0 0, .work 0 0 0, .work 0 0 0, .work 0 0 0, .work 0 0 0,
     .trig 0, .work 0 0 0, .work 0 1 0, .work 0 0 0, .trig 0, .trig 0, .trig 0] _ _ _ .refl rfl, ?_⟩
  decide

/-- *Runs of one f never overlap.* In every reachable state every registration has at most one run
of its `f` in progress (`active`, incremented when a run begins and decremented when `f` returns), it
has one exactly when its goroutine is inside `f`, and a run begins only from a state in which none
is in progress. -/
theorem runs_never_overlap {now : Int} {async : Bool} {s : GState} (hr : Reach (gInit now async) s) :
    (∀ t ∈ s.threads, t.active ≤ 1 ∧ (t.active = 1 ↔ t.pc = .inF)) ∧
    (∀ i c off s' t t', step s (.work i c off) = some s' → s.threads[i]? = some t → s'.threads[i]? = some t' →
        t'.runs = t.runs + 1 → t.active = 0 ∧ t'.active = 1) := by
  have hi := ginv_reach hr
  constructor
  · intro t ht
    have := (hi.threads t ht).1
    by_cases hp : t.pc = .inF <;> simp [hp] at this <;> simp [this, hp]
  · intro i c off s' t t' hs hti ht' hruns
    obtain ⟨t0, t1, e, h0, hts, h1, _⟩ := work_inv hs
    rw [hti] at h0; cases h0
    rw [ht'] at h1; cases h1
    have hT := hi.threads t (List.mem_of_getElem? hti)
    obtain ⟨Ftr, _, _, _, _, _, _, _, Fruns, _, _, _, _, _, Fact, _⟩ := threadStep_facts hts
    have hin : t'.pc = .inF := by
      by_cases h : t'.pc = .inF
      · exact h
      · simp [h] at Fruns; omega
    have hfrom : t.pc = .callF := (triples_acct _ Ftr).2.2.2.2.2.2.2.1 hin
    have ha := hT.1
    rw [hfrom] at ha
    simp at ha
    exact ⟨ha, by simp [Fact, hin, ha]⟩

example : ∃ s, Reach (gInit 0 false) s ∧ s.threads.map (·.active) = [1, 1] := by
  refine ⟨_, reach_of_runG
    [.register .doOnce 0 0, .register .trigger 0 0, .trig 1,
     .work 0 0 0, .work 0 0 0, .work 0 0 0, .work 0 0 0, .work 0 0 0, .work 0 0 0, .work 0 0 0,
     .work 1 0 0, .work 1 0 0, .work 1 0 0, .work 1 0 0, .work 1 0 0, .work 1 0 0, .work 1 0 0, .work 1 1 0,
     .work 1 0 0] _ _ _ .refl rfl, ?_⟩
  decide

/-- *Periodic functions keep being invoked, one run at a time, until the group is stopped.* For every
reachable state with a live context and every spawned `Periodic` / `PeriodicOrTrigger` registration:
while `f` runs, its return leads back to the loop; parked at the `select`, the timer is never idle —
it is armed (the clock can advance to its due instant, at which the runtime may fire it) or has fired
(then the receive arm is enabled); everywhere else a step of the goroutine is enabled (in particular
the `if !t.Stop() { <-t.C }` drain of PeriodicOrTrigger never blocks, under either timer semantics);
and every step of the goroutine begins a run or strictly decreases the distance to the next one.
(One run at a time: `runs_never_overlap`. `0 < dist t.pc` follows from the live context once the registration
call has passed `wg.Add`: `live_registration_on_its_way`; no other label moves the goroutine, un-fires or
disarms its timer, and along any run `dist` drops with every own step: `trigger_request_stable`, which is
stated for every registration that is not a `Do`. The conjunct about `advance` says only that the model's clock
can always reach `due`; that the runtime then fires the timer is trusted.) -/
theorem periodic_keeps_running {now : Int} {async : Bool} {s : GState} (hr : Reach (gInit now async) s)
    (i : Nat) (t : Thread) (hti : s.threads[i]? = some t) (hk : t.kind = .periodic ∨ t.kind = .pot)
    (hctx : s.ctxDone = false) (hd : 0 < dist t.pc) :
    (t.pc = .inF → ∃ s' t', step s (.fEnd i) = some s' ∧ s'.threads[i]? = some t' ∧ t'.pc = .loopHead) ∧
    (t.pc = .atSelect → t.timer ≠ .idle ∧
      ∀ due, t.timer = .armed due →
        (∃ s', step s (.advance (max 0 (due - s.now))) = some s' ∧ due ≤ s'.now) ∧
        (due ≤ s.now → (step s (.fireTimer i)).isSome = true)) ∧
    (t.pc ≠ .inF → (t.pc = .atSelect → t.timer = .fired ∨ (t.kind = .pot ∧ t.token = true)) →
      ∃ c, (step s (.work i c 0)).isSome = true) ∧
    (∀ c off s' t', step s (.work i c off) = some s' → s'.threads[i]? = some t' →
      (t'.pc = .inF ∧ t'.runs = t.runs + 1) ∨ (0 < dist t'.pc ∧ dist t'.pc < dist t.pc ∧ t'.runs = t.runs)) := by
  have hi := ginv_reach hr
  have hmem : t ∈ s.threads := List.mem_of_getElem? hti
  have hT := hi.threads t hmem
  obtain ⟨hlt, _⟩ := getElem?_some hti
  have hnd : t.kind ≠ .doOnce := by rcases hk with h | h <;> simp [h]
  refine ⟨?_, ?_, ?_, ?_⟩
  · intro hpc
    exact ⟨{ s with threads := s.threads.set i { t with pc := .loopHead, active := t.active - 1 } },
      { t with pc := .loopHead, active := t.active - 1 }, by simp [step, hti, hpc, hnd], by simp [hlt], rfl⟩
  · intro hpc
    have htm := hT.2.2.1 hk
    rw [hpc] at htm
    simp only at htm
    refine ⟨htm, ?_⟩
    intro due hdue
    have h0 : (0 : Int) ≤ max 0 (due - s.now) := by omega
    refine ⟨⟨{ s with now := s.now + max 0 (due - s.now) }, by simp [step, h0], by show due ≤ s.now + max 0 (due - s.now); omega⟩, ?_⟩
    intro hle
    simp [step, hti, hdue, hle]
  · intro hne hready
    have hsel : selectReady t := by
      intro hpc
      rcases hready hpc with hf | ⟨hp, htok⟩
      · rcases hk with hk | hk
        · exact Or.inr (Or.inl ⟨hk, hf⟩)
        · exact Or.inr (Or.inr ⟨hk, Or.inr hf⟩)
      · exact Or.inr (Or.inr ⟨hp, Or.inl htok⟩)
    obtain ⟨c, hc⟩ := step_enabled (v := view s) hT hd hne hsel
    exact ⟨c, work_some hti hc⟩
  · intro c off s' t' hs ht'
    obtain ⟨t0, t1, e, h0, hts, h1, _⟩ := work_inv hs
    rw [hti] at h0; cases h0
    rw [ht'] at h1; cases h1
    obtain ⟨h1, _⟩ := step_decreases hts (by simpa [view] using hctx) hd
    rcases h1 with ⟨a, b, _⟩ | ⟨a, b, c', _⟩
    · exact Or.inl ⟨a, b⟩
    · exact Or.inr ⟨a, b, c'⟩

/-- a PeriodicOrTrigger registration (interval 5, jitter 1) under the old timer-channel semantics:
the timer fired, a trigger arrived too, the loop took the trigger arm and is at the drain `<-t.C` -/
example : ∃ s, Reach (gInit 0 true) s ∧ s.ctxDone = false ∧
    (s.threads[0]?.map fun t => (t.kind, t.pc, t.timer)) = some (.pot, .potDrain, .fired) := by
  refine ⟨_, reach_of_runG
    [.register .pot 5 1, .work 0 0 0, .work 0 0 0, .work 0 0 0, .work 0 0 0, .work 0 0 0, .work 0 0 1,
     .work 0 0 0, .advance 6, .fireTimer 0, .trig 0, .work 0 2 0, .work 0 0 0] _ _ _ .refl rfl, ?_⟩
  decide

end Juniper.Props.C17
