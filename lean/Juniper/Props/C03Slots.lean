import Juniper.Proofs.TreeSlotsOpsHeap
/-!
# C03, clause "no retained garbage", at slot level

"Keys and values that were deleted or moved elsewhere are no longer referenced from the live
structure."  A node of the real tree has three fixed arrays (`keys [maxKVs]K`, `values [maxKVs]V`,
`children [branchFactor]*node`); the clause holds iff in every live node every slot behind the live
prefix is the zero value. `Model/BTreeSlotsOps.lean` keeps those arrays slot by slot and executes a
zeroing / clearing / shifting statement only if the *generated* fact (`Juniper.Gen.TreeSlots`,
re-extracted from `btree.go` on every run) says the statement is there; the facts are hypotheses
of the lemmas in `Proofs/TreeSlotsOps*.lean` and are discharged by `decide` inside the theorems below, so
dropping one of the statements from the Go source makes exactly the theorems that depend on it (and
`no_retained_slots`) fail to compile.

* `Rep a cap l` — array `a` has `cap` slots, live prefix = `l`, tail all `none`;
* `NodeRep x kvs kids` — the three arrays of node `x` represent entries `kvs` and children `kids`,
  `x.n = kvs.length`, `kids` is empty (leaf) or has `kvs.length + 1` elements;
* `slots_refine_*` — the operation succeeds and its result represents the list-level result (the very
  list expressions `Model/BTree.lean` uses: `take i ++ x :: drop i`, `take i ++ drop (i+1)`, …);
* `tail_cleared_*` — hence every slot behind the new live prefix is `none` (`TailCleared`, `TailOK`);
* `no_retained_slots` — every history of node-level operations (each within the precondition its Go
  function documents) from the empty root leaves every node that has not been unlinked with cleared
  tails;
* `no_retained_slots_tree` — the same after every history of `Put` / `Delete` of the heap model
  (`Heap.put` / `Heap.delete`), which changes its store only through enabled node-level operations
  and is compared with the real `tree.Map[*int,*int]` raw slot by raw slot after every operation
  (harness `c03slots`).
-/
namespace Juniper.Props.C03Slots
open Juniper.Model.BTreeSlotsOps Juniper.Proofs.TreeSlotsOps Juniper.Gen

variable {α K V C : Type}

/-! ## the array primitives -/

/-- `insertOne(a[:hi], idx, x)` with the live prefix inside the window = list insertion. -/
theorem slots_refine_insertOne {a : Slots α} {cap : Nat} {l : List α} (h : Rep a cap l) {hi idx : Nat}
    (hidx : idx ≤ l.length) (hl : l.length < hi) (hhi : hi ≤ cap) (x : α) :
    ∃ a', insertOne a hi idx (some x) = some a' ∧ Rep a' cap (l.take idx ++ x :: l.drop idx) :=
  rep_insertOne h hidx hl hhi x

theorem tail_cleared_insertOne {a a' : Slots α} {cap : Nat} {l : List α} (h : Rep a cap l) {hi idx : Nat}
    (hidx : idx ≤ l.length) (hl : l.length < hi) (hhi : hi ≤ cap) (x : α)
    (hop : insertOne a hi idx (some x) = some a') : TailCleared a' (l.length + 1) := by
  obtain ⟨a'', h1, h2⟩ := rep_insertOne h hidx hl hhi x
  rw [hop] at h1; cases h1
  have := h2.tailCleared
  simpa using (show (l.take idx ++ x :: l.drop idx).length = l.length + 1 by simp; omega) ▸ this

example : insertOne [some 1, some 3, none, none] 3 1 (some 2) = some [some 1, some 2, some 3, none] := by decide

/-- `removeOne(a[:hi], idx)` = list removal, *provided* the shift and the zeroing of the last slot are
in the source. -/
theorem slots_refine_removeOne {a : Slots α} {cap : Nat} {l : List α} (h : Rep a cap l) {hi idx : Nat}
    (hidx : idx < l.length) (hl : l.length ≤ hi) (hhi : hi ≤ cap) :
    ∃ a', removeOne a hi idx = some a' ∧ Rep a' cap (l.take idx ++ l.drop (idx + 1)) :=
  rep_removeOne h hidx hl hhi (by decide) (by decide)

theorem tail_cleared_removeOne {a a' : Slots α} {cap : Nat} {l : List α} (h : Rep a cap l) {hi idx : Nat}
    (hidx : idx < l.length) (hl : l.length ≤ hi) (hhi : hi ≤ cap) (hop : removeOne a hi idx = some a') :
    TailCleared a' (l.length - 1) := by
  obtain ⟨a'', h1, h2⟩ := rep_removeOne h hidx hl hhi (by decide) (by decide)
  rw [hop] at h1; cases h1
  have := h2.tailCleared
  simpa using (show (l.take idx ++ l.drop (idx + 1)).length = l.length - 1 by simp; omega) ▸ this

example : removeOne [some 1, some 2, some 3, none] 3 0 = some [some 2, some 3, none, none] := by decide

/-- explicit zeroing of the last live slot (`removeRightmost`, `rotateRight`) = `dropLast`. -/
theorem slots_refine_zero {a : Slots α} {cap : Nat} {l : List α} (h : Rep a cap l) (hl : 0 < l.length) :
    ∃ a', setSlot a (l.length - 1) none = some a' ∧ Rep a' cap l.dropLast :=
  rep_setSlot_clearLast h hl

theorem tail_cleared_zero {a a' : Slots α} {cap : Nat} {l : List α} (h : Rep a cap l) (hl : 0 < l.length)
    (hop : setSlot a (l.length - 1) none = some a') : TailCleared a' (l.length - 1) := by
  obtain ⟨a'', h1, h2⟩ := rep_setSlot_clearLast h hl
  rw [hop] at h1; cases h1
  simpa using h2.tailCleared

example : setSlot [some 1, some 2, none] 1 none = some [some 1, none, none] := by decide

/-- `xslices.Clear(a[len l:])` behind a prefix that holds `l`, whatever was behind it. -/
theorem slots_refine_clear {a : Slots α} {cap : Nat} {l : List α} (hlen : a.length = cap)
    (hpre : a.take l.length = l.map some) (hl : l.length ≤ cap) :
    ∃ a', clearFrom a l.length = some a' ∧ Rep a' cap l :=
  rep_clearFrom hlen hpre hl

theorem tail_cleared_clear {a a' : Slots α} {lo : Nat} (hop : clearFrom a lo = some a') : TailCleared a' lo := by
  unfold clearFrom at hop
  by_cases hlo : lo ≤ a.length
  · rw [if_pos hlo] at hop; cases hop
    intro i h1 h2
    have hl : (a.take lo).length = lo := by simp; omega
    have h3 : i < a.length := by simp at h2; omega
    rw [List.getElem?_append_right (by omega), hl, List.getElem?_replicate]
    have : i - lo < a.length - lo := by omega
    simp [this]
  · rw [if_neg hlo] at hop; cases hop

example : clearFrom [some 1, some 2, some 7, some 8] 2 = some [some 1, some 2, none, none] := by decide

/-- `copy(dst[len l:], src[:len r])` (`mergeTwo`) = append. -/
theorem slots_refine_copy {dst src : Slots α} {cap cap' : Nat} {l r : List α} (hd : Rep dst cap l)
    (hs : Rep src cap' r) (hfit : l.length + r.length ≤ cap) :
    ∃ a', copySlots dst l.length dst.length src 0 r.length = some a' ∧ Rep a' cap (l ++ r) :=
  rep_copy_append hd hs hfit

theorem tail_cleared_copy {dst src a' : Slots α} {cap cap' : Nat} {l r : List α} (hd : Rep dst cap l)
    (hs : Rep src cap' r) (hfit : l.length + r.length ≤ cap)
    (hop : copySlots dst l.length dst.length src 0 r.length = some a') : TailCleared a' (l.length + r.length) := by
  obtain ⟨a'', h1, h2⟩ := rep_copy_append hd hs hfit
  rw [hop] at h1; cases h1
  simpa using h2.tailCleared

example : copySlots [some 1, none, none, none] 1 4 [some 5, some 6, none] 0 2 = some [some 1, some 5, some 6, none] := by
  decide

/-! ## the node-level operations -/

/-- a node whose arrays represent some entries and children has cleared tails -/
theorem tail_cleared_of_rep {x : SNode K V C} {kvs : List (K × V)} {kids : List C} (h : NodeRep x kvs kids) :
    TailOK x := h.tailOK

/-- `insertIntoLeaf`. -/
theorem slots_refine_leafInsert {x : SNode K V C} {kvs : List (K × V)} (h : NodeRep x kvs [])
    {idx : Nat} (hidx : idx ≤ kvs.length) (hroom : kvs.length < keysCap) (k : K) (v : V) :
    ∃ x', leafInsert x idx k v = some x' ∧ NodeRep x' (kvs.take idx ++ (k, v) :: kvs.drop idx) [] :=
  leafInsert_rep h hidx hroom k v (by decide)

theorem tail_cleared_leafInsert {x x' : SNode K V C} {kvs : List (K × V)} (h : NodeRep x kvs [])
    {idx : Nat} (hidx : idx ≤ kvs.length) (hroom : kvs.length < keysCap) (k : K) (v : V)
    (hop : leafInsert x idx k v = some x') : TailOK x' := by
  obtain ⟨x'', h1, h2⟩ := leafInsert_rep h hidx hroom k v (by decide)
  rw [hop] at h1; cases h1; exact h2.tailOK

example : leafInsert (mkNode [(1, 10), (3, 30)] ([] : List Nat)) 1 2 20 = some (mkNode [(1, 10), (2, 20), (3, 30)] []) := by
  decide

/-- `Put` on a present key / the replacement write of `Delete`'s inner branch. -/
theorem slots_refine_replaceEntry {x : SNode K V C} {kvs : List (K × V)} {kids : List C} (h : NodeRep x kvs kids)
    {idx : Nat} (hidx : idx < kvs.length) (k : K) (v : V) :
    ∃ x', replaceEntry x idx (some k) (some v) = some x' ∧
      NodeRep x' (kvs.take idx ++ (k, v) :: kvs.drop (idx + 1)) kids :=
  replaceEntry_rep h hidx k v

theorem slots_refine_setValue {x : SNode K V C} {kvs : List (K × V)} {kids : List C} (h : NodeRep x kvs kids)
    {idx : Nat} (hidx : idx < kvs.length) (v : V) :
    ∃ x', setValue x idx v = some x' ∧ NodeRep x' (kvs.take idx ++ ((kvs[idx]).1, v) :: kvs.drop (idx + 1)) kids :=
  setValue_rep h hidx v

theorem tail_cleared_replaceEntry {x x' : SNode K V C} {kvs : List (K × V)} {kids : List C} (h : NodeRep x kvs kids)
    {idx : Nat} (hidx : idx < kvs.length) (k : K) (v : V)
    (hop : replaceEntry x idx (some k) (some v) = some x') : TailOK x' := by
  obtain ⟨x'', h1, h2⟩ := replaceEntry_rep h hidx k v
  rw [hop] at h1; cases h1; exact h2.tailOK

example : replaceEntry (mkNode [(1, 10), (3, 30)] [7, 8, 9]) 1 (some 2) (some 20) = some (mkNode [(1, 10), (2, 20)] [7, 8, 9]) := by
  decide

/-- the leaf branch of `Delete`. -/
theorem slots_refine_leafRemove {x : SNode K V C} {kvs : List (K × V)} (h : NodeRep x kvs [])
    {idx : Nat} (hidx : idx < kvs.length) :
    ∃ x', leafRemove x idx = some x' ∧ NodeRep x' (kvs.take idx ++ kvs.drop (idx + 1)) [] :=
  leafRemove_rep h hidx (by decide) (by decide) (by decide) (by decide) (by decide)

theorem tail_cleared_leafRemove {x x' : SNode K V C} {kvs : List (K × V)} (h : NodeRep x kvs [])
    {idx : Nat} (hidx : idx < kvs.length) (hop : leafRemove x idx = some x') : TailOK x' := by
  obtain ⟨x'', h1, h2⟩ := leafRemove_rep h hidx (by decide) (by decide) (by decide) (by decide) (by decide)
  rw [hop] at h1; cases h1; exact h2.tailOK

example : leafRemove (mkNode [(1, 10), (2, 20), (3, 30)] ([] : List Nat)) 2 = some (mkNode [(1, 10), (2, 20)] []) := by decide

/-- `removeRightmost` on the leaf it arrives at: returns the last entry, which is gone from the leaf. -/
theorem slots_refine_removeRightmost {x : SNode K V C} {kvs : List (K × V)} (h : NodeRep x kvs []) (hne : kvs ≠ []) :
    ∃ x', removeRightmostAt x = some (some (kvs.getLast hne).1, some (kvs.getLast hne).2, x') ∧
      NodeRep x' kvs.dropLast [] :=
  removeRightmostAt_rep h hne (by decide) (by decide) (by decide)

theorem tail_cleared_removeRightmost {x x' : SNode K V C} {kvs : List (K × V)} (h : NodeRep x kvs []) (hne : kvs ≠ [])
    {k : Option K} {v : Option V} (hop : removeRightmostAt x = some (k, v, x')) : TailOK x' := by
  obtain ⟨x'', h1, h2⟩ := removeRightmostAt_rep h hne (by decide) (by decide) (by decide)
  rw [hop] at h1; cases h1; exact h2.tailOK

example : removeRightmostAt (mkNode [(1, 10), (2, 20)] ([] : List Nat)) = some (some 2, some 20, mkNode [(1, 10)] []) := by
  decide

/-- the split in `overfill` (amalgam, both halves, the three `Clear` calls), leaf case: the entries
`kvs` with `(k, v)` inserted at `e` are cut at `medianIdx`; the left half stays in the node, the
separator goes up, the right half is a fresh node. -/
theorem slots_refine_split_leaf {x : SNode K V C} {kvs : List (K × V)} (h : NodeRep x kvs [])
    (hfull : kvs.length = keysCap) {e : Nat} (he : e ≤ keysCap) (k : K) (v : V) (afterK : Option C) :
    ∃ l' r', splitNode x e (some k) (some v) afterK =
        some (l', ((kvs.take e ++ (k, v) :: kvs.drop e)[Tree.medianIdx.toNat]?).map (·.1),
              ((kvs.take e ++ (k, v) :: kvs.drop e)[Tree.medianIdx.toNat]?).map (·.2), r') ∧
      NodeRep l' ((kvs.take e ++ (k, v) :: kvs.drop e).take Tree.medianIdx.toNat) [] ∧
      NodeRep r' ((kvs.take e ++ (k, v) :: kvs.drop e).drop (Tree.medianIdx.toNat + 1)) [] :=
  splitNode_leaf_rep h hfull he k v afterK (by decide) (by decide) (by decide) (by decide) (by decide)

/-- the split of an internal node: additionally the children with `r` inserted behind position `e`
are cut behind `medianIdx`. -/
theorem slots_refine_split_inner {x : SNode K V C} {kvs : List (K × V)} {kids : List C} (h : NodeRep x kvs kids)
    (hfull : kvs.length = keysCap) (hint : kids.length = kvs.length + 1)
    {e : Nat} (he : e ≤ keysCap) (k : K) (v : V) (r : C) :
    ∃ l' r', splitNode x e (some k) (some v) (some r) =
        some (l', ((kvs.take e ++ (k, v) :: kvs.drop e)[Tree.medianIdx.toNat]?).map (·.1),
              ((kvs.take e ++ (k, v) :: kvs.drop e)[Tree.medianIdx.toNat]?).map (·.2), r') ∧
      NodeRep l' ((kvs.take e ++ (k, v) :: kvs.drop e).take Tree.medianIdx.toNat)
        ((kids.take (e + 1) ++ r :: kids.drop (e + 1)).take (Tree.medianIdx.toNat + 1)) ∧
      NodeRep r' ((kvs.take e ++ (k, v) :: kvs.drop e).drop (Tree.medianIdx.toNat + 1))
        ((kids.take (e + 1) ++ r :: kids.drop (e + 1)).drop (Tree.medianIdx.toNat + 1)) :=
  splitNode_inner_rep h hfull hint he k v r (by decide) (by decide) (by decide) (by decide) (by decide) (by decide)

theorem tail_cleared_split {x l' r' : SNode K V C} {kvs : List (K × V)} {kids : List C} (h : NodeRep x kvs kids)
    (hfull : kvs.length = keysCap) {e : Nat} (he : e ≤ keysCap) (k : K) (v : V) (afterK : Option C)
    (hkind : kids = [] ∨ afterK.isSome = true) {sk : Option K} {sv : Option V}
    (hop : splitNode x e (some k) (some v) afterK = some (l', sk, sv, r')) : TailOK l' ∧ TailOK r' := by
  by_cases hk : kids = []
  · subst hk
    obtain ⟨l'', r'', h1, h2, h3⟩ := splitNode_leaf_rep h hfull he k v afterK (by decide) (by decide) (by decide) (by decide) (by decide)
    rw [hop] at h1; cases h1; exact ⟨h2.tailOK, h3.tailOK⟩
  · have hint : kids.length = kvs.length + 1 := by
      rcases h.hshape with h' | h'
      · exact absurd h' hk
      · exact h'
    rcases hkind with h' | h'
    · exact absurd h' hk
    · obtain ⟨r, rfl⟩ := Option.isSome_iff_exists.mp h'
      obtain ⟨l'', r'', h1, h2, h3⟩ := splitNode_inner_rep h hfull hint he k v r (by decide) (by decide) (by decide) (by decide) (by decide) (by decide)
      rw [hop] at h1; cases h1; exact ⟨h2.tailOK, h3.tailOK⟩

/-- a full leaf `10,20,…,150` split by the new key `75`: left keeps 8 entries, `80` goes up, right gets 7 -/
example :
    splitNode (mkNode ((List.range 15).map fun i => (10 * (i + 1), i)) ([] : List Nat)) 7 (some 75) (some 99) none =
      some (mkNode ((((List.range 15).map fun i => (10 * (i + 1), i)).take 7) ++ [(75, 99)]) [], some 80, some 7,
            mkNode (((List.range 15).map fun i => (10 * (i + 1), i)).drop 8) []) := by decide

/-- a full internal node (children `100…115`) split when its child 3 has split off the new node `200` -/
example :
    (splitNode (mkNode ((List.range 15).map fun i => (10 * (i + 1), i)) ((List.range 16).map (· + 100))) 3
        (some 35) (some 99) (some 200)).map (fun r => (r.1.n, r.1.kids.take 10, r.2.1, r.2.2.2.n, r.2.2.2.kids.take 9)) =
      some (8, [some 100, some 101, some 102, some 103, some 200, some 104, some 105, some 106, some 107, none],
            some 80, 7, [some 108, some 109, some 110, some 111, some 112, some 113, some 114, some 115, none]) := by
  decide

/-- the new root made by `overfill`. -/
theorem slots_refine_newRoot (k : K) (v : V) (l r : C) :
    ∃ x' : SNode K V C, newRootNode (some k) (some v) l r = some x' ∧ NodeRep x' [(k, v)] [l, r] :=
  newRootNode_rep k v l r

theorem tail_cleared_newRoot {x' : SNode K V C} (k : K) (v : V) (l r : C)
    (hop : newRootNode (some k) (some v) l r = some x') : TailOK x' := by
  obtain ⟨x'', h1, h2⟩ := newRootNode_rep (K := K) (V := V) k v l r
  rw [hop] at h1; cases h1; exact h2.tailOK

example : newRootNode (some 5) (some 50) 1 2 = some ({ mkNode [(5, 50)] [1, 2] with } : SNode Nat Nat Nat) := by decide

/-- separator insert: `overfill` with a parent that has room. -/
theorem slots_refine_separatorInsert {p : SNode K V C} {kvs : List (K × V)} {kids : List C} (h : NodeRep p kvs kids)
    (hint : kids.length = kvs.length + 1) {idx : Nat} (hidx : idx ≤ kvs.length) (hroom : kvs.length < keysCap)
    (k : K) (v : V) (r : C) :
    ∃ p', parentInsert p idx (some k) (some v) r = some p' ∧
      NodeRep p' (kvs.take idx ++ (k, v) :: kvs.drop idx) (kids.take (idx + 1) ++ r :: kids.drop (idx + 1)) :=
  parentInsert_rep h hint hidx hroom k v r (by decide)

theorem tail_cleared_separatorInsert {p p' : SNode K V C} {kvs : List (K × V)} {kids : List C} (h : NodeRep p kvs kids)
    (hint : kids.length = kvs.length + 1) {idx : Nat} (hidx : idx ≤ kvs.length) (hroom : kvs.length < keysCap)
    (k : K) (v : V) (r : C) (hop : parentInsert p idx (some k) (some v) r = some p') : TailOK p' := by
  obtain ⟨x'', h1, h2⟩ := parentInsert_rep h hint hidx hroom k v r (by decide)
  rw [hop] at h1; cases h1; exact h2.tailOK

example : parentInsert (mkNode [(10, 1), (30, 3)] [100, 101, 102]) 1 (some 20) (some 2) 200 =
    some (mkNode [(10, 1), (20, 2), (30, 3)] [100, 101, 200, 102]) := by decide

/-- `mergeTwo` incl. the separator removal from the parent: the right node's entries and children move
behind the separator into the left node, the parent loses the separator and the child pointer to the
right node (which is thereby unlinked; its `n` is set to 0). -/
theorem slots_refine_mergeTwo {p l r : SNode K V C} {pkvs lkvs rkvs : List (K × V)} {pkids lkids rkids : List C}
    (hp : NodeRep p pkvs pkids) (hl : NodeRep l lkvs lkids) (hr : NodeRep r rkvs rkids)
    (hpint : pkids.length = pkvs.length + 1) (hkind : lkids = [] ↔ rkids = [])
    {idx : Nat} (hidx : idx < pkvs.length) (hfit : lkvs.length + 1 + rkvs.length ≤ keysCap) :
    ∃ p' l' r', mergeNodes p l r idx = some (p', l', r') ∧
      NodeRep p' (pkvs.take idx ++ pkvs.drop (idx + 1)) (pkids.take (idx + 1) ++ pkids.drop (idx + 2)) ∧
      NodeRep l' (lkvs ++ pkvs[idx] :: rkvs) (lkids ++ rkids) ∧ r'.n = 0 :=
  mergeNodes_rep hp hl hr hpint hkind hidx hfit (by decide) (by decide) (by decide) (by decide) (by decide) (by decide) (by decide)

theorem tail_cleared_mergeTwo {p l r p' l' r' : SNode K V C} {pkvs lkvs rkvs : List (K × V)} {pkids lkids rkids : List C}
    (hp : NodeRep p pkvs pkids) (hl : NodeRep l lkvs lkids) (hr : NodeRep r rkvs rkids)
    (hpint : pkids.length = pkvs.length + 1) (hkind : lkids = [] ↔ rkids = [])
    {idx : Nat} (hidx : idx < pkvs.length) (hfit : lkvs.length + 1 + rkvs.length ≤ keysCap)
    (hop : mergeNodes p l r idx = some (p', l', r')) : TailOK p' ∧ TailOK l' := by
  obtain ⟨p'', l'', r'', h1, h2, h3, _⟩ := mergeNodes_rep hp hl hr hpint hkind hidx hfit (by decide) (by decide) (by decide) (by decide) (by decide) (by decide) (by decide)
  rw [hop] at h1; cases h1; exact ⟨h2.tailOK, h3.tailOK⟩

/-- two internal siblings merged under a parent with three children -/
example :
    (mergeNodes (mkNode [(30, 3), (60, 6)] [100, 101, 102]) (mkNode [(10, 1), (20, 2)] [1, 2, 3])
        (mkNode [(40, 4)] [4, 5]) 0).map (fun r => (r.1, r.2.1, r.2.2.n)) =
      some (mkNode [(60, 6)] [100, 102], mkNode [(10, 1), (20, 2), (30, 3), (40, 4)] [1, 2, 3, 4, 5], 0) := by decide

/-- `rotateRight` (steal from the left sibling): the left sibling's last entry goes up, the old
separator goes to the front of the right node together with the left sibling's last child — and the
left sibling no longer references any of them. -/
theorem slots_refine_rotateRight {p l r : SNode K V C} {pkvs lkvs rkvs : List (K × V)} {pkids lkids rkids : List C}
    (hp : NodeRep p pkvs pkids) (hl : NodeRep l lkvs lkids) (hr : NodeRep r rkvs rkids)
    (hkind : lkids = [] ↔ rkids = [])
    {idx : Nat} (hidx : idx < pkvs.length) (hlne : lkvs ≠ []) (hroom : rkvs.length < keysCap) :
    ∃ p' l' r', rotateRightNodes p l r idx = some (p', l', r', lkids.getLast?) ∧
      NodeRep p' (pkvs.take idx ++ lkvs.getLast hlne :: pkvs.drop (idx + 1)) pkids ∧
      NodeRep l' lkvs.dropLast lkids.dropLast ∧
      NodeRep r' (pkvs[idx] :: rkvs) (lkids.getLast?.toList ++ rkids) :=
  rotateRightNodes_rep hp hl hr hkind hidx hlne hroom (by decide) (by decide) (by decide) (by decide) (by decide) (by decide) (by decide) (by decide)

theorem tail_cleared_rotateRight {p l r p' l' r' : SNode K V C} {pkvs lkvs rkvs : List (K × V)} {pkids lkids rkids : List C}
    (hp : NodeRep p pkvs pkids) (hl : NodeRep l lkvs lkids) (hr : NodeRep r rkvs rkids)
    (hkind : lkids = [] ↔ rkids = [])
    {idx : Nat} (hidx : idx < pkvs.length) (hlne : lkvs ≠ []) (hroom : rkvs.length < keysCap) {c : Option C}
    (hop : rotateRightNodes p l r idx = some (p', l', r', c)) : TailOK p' ∧ TailOK l' ∧ TailOK r' := by
  obtain ⟨p'', l'', r'', h1, h2, h3, h4⟩ := rotateRightNodes_rep hp hl hr hkind hidx hlne hroom (by decide) (by decide) (by decide) (by decide) (by decide) (by decide) (by decide) (by decide)
  rw [hop] at h1; cases h1; exact ⟨h2.tailOK, h3.tailOK, h4.tailOK⟩

/-- an internal-level steal from the left sibling: child `3` changes sides and `l.children[2]` is nil afterwards -/
example :
    rotateRightNodes (mkNode [(30, 3)] [100, 101]) (mkNode [(10, 1), (20, 2)] [1, 2, 3]) (mkNode [(40, 4)] [4, 5]) 0 =
      some (mkNode [(20, 2)] [100, 101], mkNode [(10, 1)] [1, 2], mkNode [(30, 3), (40, 4)] [3, 4, 5], some 3) := by decide

/-- `rotateLeft` (steal from the right sibling; `idx` = position of the right node in the parent). -/
theorem slots_refine_rotateLeft {p l r : SNode K V C} {pkvs lkvs rkvs : List (K × V)} {pkids lkids rkids : List C}
    (hp : NodeRep p pkvs pkids) (hl : NodeRep l lkvs lkids) (hr : NodeRep r rkvs rkids)
    (hkind : lkids = [] ↔ rkids = [])
    {idx : Nat} (hidx0 : 0 < idx) (hidx : idx ≤ pkvs.length) (hrne : rkvs ≠ []) (hroom : lkvs.length < keysCap) :
    ∃ p' l' r', rotateLeftNodes p l r idx = some (p', l', r', rkids.head?) ∧
      NodeRep p' (pkvs.take (idx - 1) ++ rkvs.head hrne :: pkvs.drop idx) pkids ∧
      NodeRep l' (lkvs ++ [pkvs[idx - 1]]) (lkids ++ rkids.take 1) ∧
      NodeRep r' (rkvs.drop 1) (rkids.drop 1) :=
  rotateLeftNodes_rep hp hl hr hkind hidx0 hidx hrne hroom (by decide) (by decide) (by decide) (by decide) (by decide) (by decide) (by decide)

theorem tail_cleared_rotateLeft {p l r p' l' r' : SNode K V C} {pkvs lkvs rkvs : List (K × V)} {pkids lkids rkids : List C}
    (hp : NodeRep p pkvs pkids) (hl : NodeRep l lkvs lkids) (hr : NodeRep r rkvs rkids)
    (hkind : lkids = [] ↔ rkids = [])
    {idx : Nat} (hidx0 : 0 < idx) (hidx : idx ≤ pkvs.length) (hrne : rkvs ≠ []) (hroom : lkvs.length < keysCap)
    {c : Option C} (hop : rotateLeftNodes p l r idx = some (p', l', r', c)) : TailOK p' ∧ TailOK l' ∧ TailOK r' := by
  obtain ⟨p'', l'', r'', h1, h2, h3, h4⟩ := rotateLeftNodes_rep hp hl hr hkind hidx0 hidx hrne hroom (by decide) (by decide) (by decide) (by decide) (by decide) (by decide) (by decide)
  rw [hop] at h1; cases h1; exact ⟨h2.tailOK, h3.tailOK, h4.tailOK⟩

example :
    rotateLeftNodes (mkNode [(30, 3)] [100, 101]) (mkNode [(10, 1)] [1, 2]) (mkNode [(40, 4), (50, 5)] [3, 4, 5]) 1 =
      some (mkNode [(40, 4)] [100, 101], mkNode [(10, 1), (30, 3)] [1, 2, 3], mkNode [(50, 5)] [4, 5], some 3) := by decide

/-! ## histories -/

/-- **No retained slots, node-level histories.** Start from `newBtree`'s empty root and apply any
sequence of node-level operations, each within its documented precondition (`applyOp`); then in every
node object that has not been unlinked every key and value slot from `n` on is zero, and the node
either is a leaf with all child slots zero or its child slots from `n + 1` on are zero (`TailOK`) — and, the
invariant that is actually carried (audit C03S-F3: `TailOK` alone says nothing about the live prefixes and would
admit a "leaf" with `n = 3` whose child slots 1..3 still hold pointers): the node *represents* some entries and
children (`NodeRep`): its `n` key, `n` value and `0` or `n + 1` child slots in front are non-zero, all others zero.
Needs every zeroing / clearing / shifting statement of `btree.go` to be present (`ZeroingPresent`, the
conjunction of the generated presence facts). -/
theorem no_retained_slots (ops : List (NodeOp K V C)) {fam : Fam K V C}
    (hrun : runOps [some SNode.fresh] ops = some fam) :
    ∀ x, some x ∈ fam → (∃ kvs kids, NodeRep x kvs kids) ∧ TailOK x := by
  have hf : ZeroingPresent := by decide
  have h0 : AllClean ([some SNode.fresh] : Fam K V C) := by
    intro x hx; simp at hx; subst hx; exact clean_fresh
  exact fun x hx => ⟨runOps_clean hf ops h0 hrun x hx, (runOps_clean hf ops h0 hrun x hx).tailOK⟩

/-- a history through a leaf split, a new root, steals in both directions and a merge is enabled -/
example :
    (runOps ([some SNode.fresh] : Fam Nat Nat Nat)
      ((List.range 15).map (fun i => NodeOp.leafInsert 0 i (10 * (i + 1)) i) ++
       [.split 0 15 160 15 none, .newRoot 90 8 0 1, .setParent 0 (some 2), .setValue 2 0 88, .leafRemove 1 0,
        .rotateRight 2 0 1 0, .rotateLeft 2 0 1 1, .removeRightmost 1, .replaceEntry 2 0 85 5, .mergeTwo 2 0 1 0,
        .drop 2])).isSome = true := by
  decide

/-- **No retained slots, whole tree.** After every history of `Put`s and `Delete`s on the heap model
(`Heap.put` / `Heap.delete`: the transliteration of `btree.Put` / `btree.Delete` with parent pointers
that the correspondence harness compares with the real `tree.Map` raw slot by raw slot, and that
changes its store only through enabled node-level operations), every node object of the store that
has not been unlinked — in particular every node reachable from the root — represents some entries and children
(`NodeRep`: non-zero live prefixes of the right lengths) and has only zero slots behind its live prefixes. (`none` = the model hit a nil dereference / index out of range or left the
documented precondition of a helper; the harness checks that model and code agree on the outcome.) -/
theorem no_retained_slots_tree (cmp : K → K → Int) (ms : List (Heap.Mut K V)) {h : Heap K V}
    (hrun : Heap.runMuts cmp Heap.empty ms = some h) :
    ∀ id x, h.get id = some x → (∃ kvs kids, NodeRep x kvs kids) ∧ TailOK x := by
  have hf : ZeroingPresent := by decide
  intro id x hx
  exact ⟨(runMuts_clean hf cmp ms clean_empty hrun).get hx, ((runMuts_clean hf cmp ms clean_empty hrun).get hx).tailOK⟩

/-- what `NodeRep` adds to `TailOK` (audit C03S-F3): a "leaf" (`children[0] == nil`) with three entries whose child
slots 1..3 still hold pointers has cleared tails in the sense of `TailOK`, but represents no node — so it is excluded
by the conclusions of `no_retained_slots` / `no_retained_slots_tree`, not merely by the invariant inside their proofs. -/
example : let bad : SNode Nat Nat Nat :=
      { n := 3, keys := [some 1, some 2, some 3] ++ List.replicate 12 none,
        vals := [some 1, some 2, some 3] ++ List.replicate 12 none,
        kids := [none, some 7, some 8, some 9] ++ List.replicate 12 none, parent := none }
    bad.isLeaf = true ∧ ¬ ∃ kvs kids, NodeRep bad kvs kids := by
  refine ⟨by decide, ?_⟩
  rintro ⟨kvs, kids, h⟩
  have hl : kvs.length = 3 := by have := h.hn; simp at this; omega
  have hk : kids = [] := (h.isLeaf_iff).mp (by decide)
  subst hk
  have := h.hkids.get_tail (i := 1) (by simp) (by decide)
  simp at this

/-- 16 `Put`s (leaf split, new root), then two `Delete`s: a steal from the left sibling and a merge
with root collapse; one live node with 14 entries remains -/
example :
    (Heap.runMuts (fun a b : Int => a - b) (Heap.empty : Heap Int Int)
      ((List.range 16).map (fun (i : Nat) => Heap.Mut.put (10 * ((i : Int) + 1)) (i : Int)) ++ [.del 160, .del 150])).map
        (fun h => (h.size, h.live, h.events.reverse)) =
      some (14, [0], ["split-leaf", "newroot", "rotr-leaf", "merge-leaf", "collapse"]) := by
  decide

end Juniper.Props.C03Slots
