-- Tie theorems of the pins (written by `gofacts -pin` together with Juniper/Pinned/XTime.lean; see notes/pins.md).
-- Each says: the declaration gofacts reads from the tree under check today is, up to the names of its locals,
-- the one the author of the model saw. `rfl` on two literals: kernel-checked, no axioms.
import Juniper.Generated.PinXTime
import Juniper.Pinned.XTime

namespace Juniper.Props.PinXTime

theorem pin_xtime_JitterTicker_Reset_ok : Juniper.Gen.PinXTime.pin_xtime_JitterTicker_Reset = Juniper.Pinned.XTime.pin_xtime_JitterTicker_Reset := by rfl
theorem pin_xtime_JitterTicker_Stop_ok : Juniper.Gen.PinXTime.pin_xtime_JitterTicker_Stop = Juniper.Pinned.XTime.pin_xtime_JitterTicker_Stop := by rfl
theorem pin_xtime_JitterTicker_schedule_ok : Juniper.Gen.PinXTime.pin_xtime_JitterTicker_schedule = Juniper.Pinned.XTime.pin_xtime_JitterTicker_schedule := by rfl
theorem pin_xtime_NewJitterTicker_ok : Juniper.Gen.PinXTime.pin_xtime_NewJitterTicker = Juniper.Pinned.XTime.pin_xtime_NewJitterTicker := by rfl
theorem pin_xtime_SleepContext_ok : Juniper.Gen.PinXTime.pin_xtime_SleepContext = Juniper.Pinned.XTime.pin_xtime_SleepContext := by rfl
theorem pin_xtime_type_DeadlineTooSoonError_ok : Juniper.Gen.PinXTime.pin_xtime_type_DeadlineTooSoonError = Juniper.Pinned.XTime.pin_xtime_type_DeadlineTooSoonError := by rfl
theorem pin_xtime_type_JitterTicker_ok : Juniper.Gen.PinXTime.pin_xtime_type_JitterTicker = Juniper.Pinned.XTime.pin_xtime_type_JitterTicker := by rfl
theorem pin_xtime_vars_ok : Juniper.Gen.PinXTime.pin_xtime_vars = Juniper.Pinned.XTime.pin_xtime_vars := by rfl

end Juniper.Props.PinXTime
