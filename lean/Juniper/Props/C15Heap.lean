import Juniper.Proofs.HeapIter
/-!
# C15 (heap half) — Heap.Iterate / PriorityQueue.Iterate are snapshot-or-panic

The iterator model (`Model.Heap.iterNext`) captures `gen` and the slice at its first `Next`
(generated facts `iterCapturesGen`, `iterCapturesSlice`, `iterInitGen = -1`) and panics when the
heap's `gen` differs (`iterModified`, `iterPanics`). The presence *and position* of `h.gen++` in
`Push`, `Pop`, `RemoveAt` and `UpdateAt` are regenerated from `heap.go` on every run and enter the
theorems as the hypothesis `genFacts = true`, discharged by `decide`: before the repair of D14
(`UpdateAt` without `h.gen++`) that hypothesis is `false` and none of the theorems below type-checks.

A history is a list of `Ev`: `Next` calls interleaved with calls on the container; `run` returns the
results of the `Next` calls up to and including the first `panic` / `done`; `snapshot` is the contents
at the first `Next` (DESIGN §8a).
-/
namespace Juniper.Props.C15Heap
open Juniper.Gen.Heap Juniper.Model.Heap Juniper.Proofs.Heap Juniper.Proofs.HeapIter

variable {α : Type}

/-- **The regenerated facts hold for the present source**: `h.gen++` is executed unconditionally by
`Push`, `Pop`, `RemoveAt` and `UpdateAt` (for `UpdateAt` only since the repair of D14). -/
theorem genFacts_hold : genFacts = true := by decide

/-- The iterator starts with `gen = -1`, captures `gen` and the slice at its first `Next`, and the
mismatch branch panics. -/
theorem iterFacts_hold : iterFacts = true := by decide

/-- A fresh iterator captures the heap's generation and length at its first `Next`; later `Next`s
on the unchanged heap keep them. -/
theorem heapIter_first_next_captures (h : Heap α) (hif : iterFacts = true := by decide) :
    (iterNext h iterate).1.gen = h.gen ∧ (iterNext h iterate).1.len = h.a.length := by
  rw [iterNext_fresh hif]
  simp only [iterStep]
  split <;> simp

/-- **On an unchanged heap the iterator yields exactly the contents, every element once, and then
reports exhaustion** (`len + 1` calls to `Next`; the order is the array order). -/
theorem heapIter_unchanged_yields_each_once (less : α → α → Bool) (h : Heap α) (h0 : 0 ≤ h.gen)
    (hgf : genFacts = true := by decide) (hif : iterFacts = true := by decide) :
    run less h iterate (List.replicate (h.a.length + 1) Ev.next) =
      h.a.map (fun x => IterOut.item (some x)) ++ [IterOut.done] := by
  obtain ⟨k, tl, fin, hk, ht, hfin, hrun⟩ := run_fresh less hgf hif (List.replicate (h.a.length + 1) Ev.next) h h0
  have hsnap : snapshot less h (List.replicate (h.a.length + 1) Ev.next) = h.a := by
    simp [List.replicate_succ, snapshot]
  rw [hsnap] at hk hfin hrun
  -- with only `Next` events the run cannot stop early: it has `len + 1` results unless it ended
  have hlen : ∀ (n : Nat) (it : Iter), it.gen = h.gen → it.len = h.a.length → it.pos ≤ it.len →
      it.pos + n = h.a.length + 1 →
      (run less h it (List.replicate n Ev.next)).length = n ∧
      (run less h it (List.replicate n Ev.next)).getLast? = some IterOut.done := by
    intro n
    induction n with
    | zero => intro it _ _ _ hp; omega
    | succ n ih =>
      intro it hg hl hle hp
      have hs : it.gen ≠ -1 := by omega
      simp only [List.replicate_succ, run]
      rw [iterNext_started hs hif, if_pos hg]
      simp only [iterStep]
      by_cases hpos : it.pos < it.len
      · simp only [hpos, if_true]
        obtain ⟨l1, l2⟩ := ih { it with pos := it.pos + 1 } hg hl (by simp; omega) (by simp; omega)
        refine ⟨by simp [l1], ?_⟩
        cases hL : run less h { it with pos := it.pos + 1 } (List.replicate n Ev.next) with
        | nil => rw [hL] at l2; simp at l2
        | cons b l => rw [List.getLast?_cons_cons, ← hL]; exact l2
      · have : n = 0 := by omega
        subst this
        simp [hpos]
  have first : run less h iterate (List.replicate (h.a.length + 1) Ev.next) =
      run less h { gen := h.gen, pos := 0, len := h.a.length } (List.replicate (h.a.length + 1) Ev.next) := by
    simp only [List.replicate_succ, run]
    rw [iterNext_fresh hif, iterNext_started (by simp; omega) hif]; simp
  obtain ⟨l1, l2⟩ := hlen (h.a.length + 1) { gen := h.gen, pos := 0, len := h.a.length } rfl rfl (by simp) (by simp)
  rw [← first] at l1 l2
  rw [hrun] at l1 l2 ⊢
  cases ht with
  | open_ => simp at l1; omega
  | panic => simp at l2
  | done =>
    have := hfin rfl
    subst this; simp

example : run ltN ⟨[1, 3, 2], 5⟩ iterate [.next, .next, .next, .next] =
    [.item (some 1), .item (some 3), .item (some 2), .done] := by decide

/-- **Snapshot or panic.** For every heap, every history of `Next` calls interleaved with `Push`,
`Pop` (including the pop that empties the heap), `RemoveAt`, `UpdateAt` (i.e. `PriorityQueue.Update`
of an existing key to a lower / higher / equal priority), `Grow`, `Shrink` at any iterator position:
what the iterator returns before it stops is a prefix of the snapshot taken at its first `Next`, and
it reports exhaustion only after the whole snapshot — otherwise it panics (or the history ended). -/
theorem heapIter_snapshot_or_panic (less : α → α → Bool) (h : Heap α) (h0 : 0 ≤ h.gen) (evs : List (Ev α))
    (hgf : genFacts = true := by decide) (hif : iterFacts = true := by decide) :
    ∃ k tl fin, k ≤ (snapshot less h evs).length ∧ Tail α tl fin ∧
      (fin = true → k = (snapshot less h evs).length) ∧
      run less h iterate evs =
        ((snapshot less h evs).take k).map (fun x => IterOut.item (some x)) ++ tl :=
  run_fresh less hgf hif evs h h0

-- D14's scenario: Update of an existing key (UpdateAt) mid-iteration now panics instead of
-- yielding an element twice
example : run ltN ⟨[0, 0], 2⟩ iterate [.next, .updateAt 1 0, .next] = [.item (some 0), .panic] := by decide
-- the pop that empties the heap
example : run ltN ⟨[7], 0⟩ iterate [.next, .pop, .next] = [.item (some 7), .panic] := by decide
-- Grow keeps the contents: iteration continues correctly
example : run ltN ⟨[1, 2], 0⟩ iterate [.next, .grow, .next, .next] = [.item (some 1), .item (some 2), .done] := by
  decide

/-- a call that adds, removes or replaces an element (and does not itself panic) -/
def Mutates (h : Heap α) : Ev α → Prop
  | .push _ => True
  | .pop => h.a ≠ []
  | .removeAt i => i < h.a.length
  | .updateAt i _ => i < h.a.length
  | _ => False

/-- **Once iteration is under way, adding or removing an element makes the iterator's next call
panic** (so does `UpdateAt`, which replaces one). "Under way": the iterator's captured generation is
the heap's, which is what `heapIter_first_next_captures` establishes and `Next` on the unchanged heap
preserves. -/
theorem heapIter_add_remove_panics (less : α → α → Bool) (h : Heap α) (it : Iter) (hit : it.gen = h.gen)
    (h0 : 0 ≤ h.gen) (e : Ev α) (he : Mutates h e)
    (hgf : genFacts = true := by decide) (hif : iterFacts = true := by decide) :
    iterNext (applyEv less h e) it = (it, IterOut.panic) := by
  have hs : it.gen ≠ -1 := by omega
  have hgen : (applyEv less h e).gen = h.gen + 1 := by
    have hgf' := hgf
    simp only [genFacts, Bool.and_eq_true] at hgf'
    obtain ⟨⟨⟨h1, h2⟩, h3⟩, h4⟩ := hgf'
    cases e with
    | next => cases he
    | grow => cases he
    | shrink => cases he
    | push x => simp only [applyEv]; exact push_gen less h x h1
    | pop =>
      simp only [applyEv]
      cases hp : pop less h with
      | none => exact absurd ((pop_none_iff less h).mp hp) he
      | some r => obtain ⟨h', x, n⟩ := r; obtain ⟨_, _, _, _, hg, _⟩ := pop_shape hp h2; exact hg
    | removeAt i =>
      simp only [applyEv]
      cases hp : removeAt less h i with
      | none => exact absurd he ((removeAt_none_iff less h i).mp hp)
      | some r => obtain ⟨h', n⟩ := r; obtain ⟨_, _, _, hg, _⟩ := removeAt_shape hp h3; exact hg
    | updateAt i x =>
      simp only [applyEv]
      cases hp : updateAt less h i x with
      | none => exact absurd he ((updateAt_none_iff less h i x).mp hp)
      | some r =>
        obtain ⟨h', n⟩ := r; obtain ⟨_, hg, _, _⟩ := updateAt_shape hp
        simp only [hg, h4, bump, if_true]
  rw [iterNext_started hs hif, if_neg (by omega)]

example : Mutates (⟨[3, 4], 0⟩ : Heap Nat) (.removeAt 1) := by simp [Mutates]

/-! ## PriorityQueue.Iterate = the heap iterator mapped to keys -/

section PQ
open Juniper.Model.PQ Juniper.Proofs.PQ
variable {K P : Type} [DecidableEq K]

/-- Every successful `Update` (new key: an element is added; existing key with a lower, higher or
equal priority: the array is reordered in place — D14), `Remove` of a present key and `Pop` makes the
next call of an iterator under way panic. -/
theorem pqIter_mutation_panics (less : P → P → Bool) {q q' : PQ K P} (hq : IndexInv q) (it : Iter)
    (hit : it.gen = q.h.gen) (h0 : 0 ≤ q.h.gen)
    (hop : (∃ k p, update less q k p = some q') ∨ (∃ k p0, Holds q k p0 ∧ remove less q k = some q') ∨
      (∃ k, Juniper.Model.PQ.pop less q = some (q', k)))
    (hgf : genFacts = true := by decide) (hif : iterFacts = true := by decide) :
    Juniper.Model.PQ.iterNext q' it = (it, IterOut.panic) := by
  have key : ∃ e, Mutates q.h e ∧ q'.h = applyEv (lessKP less) q.h e := by
    rcases hop with ⟨k, p, hu⟩ | ⟨k, p0, hk, hu⟩ | ⟨k, hu⟩
    · by_cases hk : ∃ p0, Holds q k p0
      · obtain ⟨p0, hp0⟩ := hk
        obtain ⟨q'', he, _, _, i, y, notes, hi, hua⟩ := update_existing (less := less) hq p hp0
        rw [hu] at he; cases he
        have hil : i < q.h.a.length := by
          rcases Nat.lt_or_ge i q.h.a.length with h | h
          · exact h
          · rw [List.getElem?_eq_none h] at hi; cases hi
        exact ⟨.updateAt i (k, p), hil, by simp [applyEv, hua]⟩
      · obtain ⟨q'', he, _, _, hpush⟩ := update_new (less := less) hq p (fun p0 h => hk ⟨p0, h⟩)
        rw [hu] at he; cases he
        exact ⟨.push (k, p), trivial, by simp [applyEv, hpush]⟩
    · obtain ⟨q'', he, _, _, i, notes, hi, hua⟩ := remove_present (less := less) hq hk
      rw [hu] at he; cases he
      have hil : i < q.h.a.length := by
        rcases Nat.lt_or_ge i q.h.a.length with h | h
        · exact h
        · rw [List.getElem?_eq_none h] at hi; cases hi
      exact ⟨.removeAt i, hil, by simp [applyEv, hua]⟩
    · have hne : q.h.a ≠ [] := by
        intro e
        rw [pop_eq, (pop_none_iff _ _).mpr e] at hu; cases hu
      obtain ⟨q'', k', p0, notes, he, _, _, _, hua⟩ := pop_nonempty (less := less) hq hne
      rw [hu] at he; cases he
      exact ⟨.pop, hne, by simp [applyEv, hua]⟩
  obtain ⟨e, hm, hq'⟩ := key
  have := heapIter_add_remove_panics (lessKP less) q.h it hit h0 e hm hgf hif
  simp only [Juniper.Model.PQ.iterNext, hq', this]

end PQ

end Juniper.Props.C15Heap
