import Juniper.Proofs.HeapIter
/-!
# C15 (heap half) — Heap.Iterate / PriorityQueue.Iterate are snapshot-or-panic

The iterator model (`Model.Heap.iterNext`) captures `gen` and the slice at its first `Next`
(generated facts `iterCapturesGen`, `iterCapturesSlice`, `iterInitGen = -1`) and panics when the
heap's `gen` differs (`iterModified`, `iterPanics`). The presence *and position* of `h.gen++` in
`Push`, `Pop`, `RemoveAt` and `UpdateAt` (`genFacts`), the iterator facts (`iterFacts`), "the body of
every `xheap.Heap` wrapper method is exactly the forwarding statement" (`xFacts`) and "the body of
`PriorityQueue.Iterate` is exactly `return iterator.Map(h.inner.Iterate(), func(kp) K { return kp.K })`"
(`pqIterateMapsInnerToKey`) are regenerated from `heap.go` / `xheap.go` on every run. **No theorem
below takes such a fact as a hypothesis**: each discharges the facts it needs by `decide` *inside* its
proof, so its statement is unconditional and flipping a fact (e.g. `pushBumpsGen`, or before the
repair of D14 `updateAtBumpsGen`) makes the property theorems themselves fail.

A history is a list of `Ev` (heap level), `XEv` (the `xheap.Heap` API) or `PQEv` (the
`PriorityQueue` API): `Next` calls interleaved with calls on the container. `run` / `xrun` / `pqRun`
return what **every** `Next` call of the history returns — also the calls after a panic and after
exhaustion; `snapshot` is the contents at the first `Next` (DESIGN §8a). `SnapshotOrPanic` is the
specification shared with the deque half (`Spec/Deque.lean`): every item is the next element of the
snapshot, "exhausted" only after the whole snapshot (and then for ever), otherwise a panic, after which
there are only panics.
-/
namespace Juniper.Props.C15Heap
open Juniper.Gen.Heap Juniper.Model.Heap Juniper.Proofs.Heap Juniper.Proofs.HeapIter
open Juniper.Spec.Deque (Obs SnapshotOrPanic)

variable {α : Type}

/-- **The regenerated facts hold for the present source**: `h.gen++` is executed unconditionally by
`Push`, `Pop`, `RemoveAt` and `UpdateAt` (for `UpdateAt` only since the repair of D14). -/
theorem genFacts_hold : genFacts = true := by decide

/-- The iterator starts with `gen = -1`, captures `gen` and the slice at its first `Next`, and the
mismatch branch panics. -/
theorem iterFacts_hold : iterFacts = true := by decide

/-- Every `xheap.Heap` wrapper method consists of exactly its forwarding statement. -/
theorem xFacts_hold : xFacts = true := by decide

/-- A fresh iterator captures the heap's generation and length at its first `Next`; later `Next`s
on the unchanged heap keep them. -/
theorem heapIter_first_next_captures (h : Heap α) :
    (iterNext h iterate).1.gen = h.gen ∧ (iterNext h iterate).1.len = h.a.length := by
  rw [iterNext_fresh (by decide)]
  simp only [iterStep]
  split <;> simp

/-- **On an unchanged heap the iterator yields exactly the contents, every element once, and then
reports exhaustion for ever**: the first `n` calls to `Next` return the first `n` elements (array
order; all of them when `n ≥ Len`), every further call returns "exhausted"; nothing panics. -/
theorem heapIter_unchanged_yields_each_once (less : α → α → Bool) (h : Heap α) (h0 : 0 ≤ h.gen) (n : Nat) :
    run less h iterate (List.replicate n Ev.next) =
      (h.a.take n).map (fun x => Obs.item (some x)) ++ List.replicate (n - h.a.length) Obs.done :=
  run_nexts_fresh less (by decide) h h0 n

example : run ltN ⟨[1, 3, 2], 5⟩ iterate [.next, .next, .next, .next, .next] =
    [.item (some 1), .item (some 3), .item (some 2), .done, .done] := by decide

/-- **Snapshot or panic, the whole history.** For every heap, every history of `Next` calls
interleaved with `Push`, `Pop` (including the pop that empties the heap), `RemoveAt`, `UpdateAt`
(i.e. `PriorityQueue.Update` of an existing key to a lower / higher / equal priority), `Grow`, `Shrink`
at any iterator position — observed to its end, not only to the first panic: what the iterator returns
is a prefix of the snapshot taken at its first `Next`, it reports exhaustion only after the whole
snapshot (and then keeps reporting it while nothing changes), and otherwise it panics and keeps
panicking. -/
theorem heapIter_snapshot_or_panic (less : α → α → Bool) (h : Heap α) (h0 : 0 ≤ h.gen) (evs : List (Ev α)) :
    SnapshotOrPanic (snapshot less h evs) (run less h iterate evs) :=
  run_fresh less (by decide) (by decide) evs h h0

/-- `run` drops nothing: one observation per `Next` call of the history. -/
theorem heapIter_run_total (less : α → α → Bool) (h : Heap α) (it : Iter) (evs : List (Ev α)) :
    (run less h it evs).length = (evs.filter Ev.isNext).length := run_length less evs h it

-- D14's scenario: Update of an existing key (UpdateAt) mid-iteration now panics instead of
-- yielding an element twice — and keeps panicking
example : run ltN ⟨[0, 0], 2⟩ iterate [.next, .updateAt 1 0, .next, .next] = [.item (some 0), .panic, .panic] := by
  decide
-- the pop that empties the heap
example : run ltN ⟨[7], 0⟩ iterate [.next, .pop, .next] = [.item (some 7), .panic] := by decide
-- Grow keeps the contents: iteration continues correctly
example : run ltN ⟨[1, 2], 0⟩ iterate [.next, .grow, .next, .next] = [.item (some 1), .item (some 2), .done] := by
  decide
-- exhausted stays exhausted; exhausted, then Push, then Next: panic (and again)
example : run ltN ⟨[1], 0⟩ iterate [.next, .next, .next, .push 4, .next, .next] =
    [.item (some 1), .done, .done, .panic, .panic] := by decide

/-- **Once iteration is under way, adding or removing an element makes the iterator's next call
panic** (so does `UpdateAt`, which replaces one). "Under way": the iterator's captured generation is
the heap's, which is what `heapIter_first_next_captures` establishes and `Next` on the unchanged heap
preserves — at every position, the exhausted iterator included. -/
theorem heapIter_add_remove_panics (less : α → α → Bool) (h : Heap α) (it : Iter) (hit : it.gen = h.gen)
    (h0 : 0 ≤ h.gen) (e : Ev α) (he : Mutates h e) :
    iterNext (applyEv less h e) it = (it, IterOut.panic) := by
  have hs : it.gen ≠ -1 := by omega
  have hgen := applyEv_gen_mutates less h e he (by decide)
  rw [iterNext_started hs (by decide), if_neg (by omega)]

example : Mutates (⟨[3, 4], 0⟩ : Heap Nat) (.removeAt 1) := by simp [Mutates]

/-- **After the panic the iterator keeps panicking**, whatever happens next: once an element was
added or removed while iteration was under way, every later `Next` of any further history panics. -/
theorem heapIter_keeps_panicking (less : α → α → Bool) (h : Heap α) (it : Iter) (hit : it.gen = h.gen)
    (h0 : 0 ≤ h.gen) (e : Ev α) (he : Mutates h e) (evs : List (Ev α)) :
    ∀ o ∈ run less (applyEv less h e) it evs, o = Obs.panic := by
  have hgen := applyEv_gen_mutates less h e he (by decide)
  exact stale_run less (by decide) (by decide) evs _ it (by omega) (by omega)

/-- **Any number `n + 1` of `Next` calls on the unchanged heap — in particular more than `Len`, i.e.
an exhausted iterator — then a call that adds or removes an element, then any history**: the first
`n + 1` results are the elements in order followed by "exhausted", and every `Next` after the
mutation panics (one panic per `Next`). -/
theorem heapIter_exhausted_then_mutation_panics (less : α → α → Bool) (h : Heap α) (h0 : 0 ≤ h.gen)
    (n : Nat) (e : Ev α) (he : Mutates h e) (evs : List (Ev α)) :
    ∃ obs, run less h iterate (List.replicate (n + 1) Ev.next ++ e :: evs) =
        ((h.a.take (n + 1)).map (fun x => Obs.item (some x)) ++
          List.replicate (n + 1 - h.a.length) Obs.done) ++ obs ∧
      (∀ o ∈ obs, o = Obs.panic) ∧ obs.length = (evs.filter Ev.isNext).length := by
  refine ⟨run less (applyEv less h e) (nextsIt h (n + 1) iterate) evs, ?_, ?_, run_length less evs _ _⟩
  · rw [run_nexts_append, run_nexts_fresh less (by decide) h h0, run_op less h _ he.not_next]
  · exact heapIter_keeps_panicking less h _ (nextsIt_fresh (by decide) h h0 n) h0 e he evs

example : run ltN ⟨[1, 2], 0⟩ iterate (List.replicate 4 Ev.next ++ .pop :: [.next, .grow, .next]) =
    [.item (some 1), .item (some 2), .done, .done, .panic, .panic] := by decide

/-! ## `xheap.Heap` (the exported wrapper): `Iterate`, `Push`, `Pop`, `Grow`, `Shrink` forward -/

/-- **`xheap.Heap.Iterate` is snapshot-or-panic** for every history of the wrapper's own methods
(`Push`, `Pop`, `Grow`, `Shrink`) interleaved with `Next`: the wrapper methods are *defined* by the
generated facts "the body is exactly the forwarding statement", so a wrapper that does anything else
(extra statement, guard, different callee) breaks this theorem. -/
theorem xheapIter_snapshot_or_panic (less : α → α → Bool) (h : Heap α) (h0 : 0 ≤ h.gen) (evs : List (XEv α)) :
    SnapshotOrPanic (xsnapshot less h evs) (xrun less h iterate evs) := by
  rw [xrun_eq (by decide), xsnapshot_eq (by decide)]
  exact run_fresh less (by decide) (by decide) _ h h0

/-- On an unchanged `xheap.Heap` its iterator yields every element once, then "exhausted" for ever. -/
theorem xheapIter_unchanged_yields_each_once (less : α → α → Bool) (h : Heap α) (h0 : 0 ≤ h.gen) (n : Nat) :
    xrun less h iterate (List.replicate n XEv.next) =
      (h.a.take n).map (fun x => Obs.item (some x)) ++ List.replicate (n - h.a.length) Obs.done := by
  rw [xrun_eq (by decide)]
  have : (List.replicate n (XEv.next : XEv α)).map XEv.toEv = List.replicate n Ev.next := by
    simp [XEv.toEv]
  rw [this]
  exact run_nexts_fresh less (by decide) h h0 n

/-- `Push` / a `Pop` of a non-empty `xheap.Heap` while iteration is under way: the next `Next` of the
wrapper's iterator panics. -/
theorem xheapIter_add_remove_panics (less : α → α → Bool) (h : Heap α) (it : Iter) (hit : it.gen = h.gen)
    (h0 : 0 ≤ h.gen) (e : XEv α) (he : (∃ x, e = .push x) ∨ (e = .pop ∧ h.a ≠ [])) :
    X.iterNext (applyX less h e) it = (it, IterOut.panic) := by
  rw [xiterNext_eq (by decide), applyX_eq (by decide)]
  apply heapIter_add_remove_panics less h it hit h0
  rcases he with ⟨x, rfl⟩ | ⟨rfl, hne⟩
  · trivial
  · exact hne

example : xrun ltN ⟨[1, 3, 2], 0⟩ iterate [.next, .push 0, .next, .next] = [.item (some 1), .panic, .panic] ∧
    xrun ltN ⟨[1, 3, 2], 0⟩ iterate [.next, .grow, .next, .next, .next, .next] =
      [.item (some 1), .item (some 3), .item (some 2), .done, .done] := by decide

/-! ## PriorityQueue.Iterate = the inner heap's iterator mapped to keys -/

section PQ
open Juniper.Model.PQ Juniper.Proofs.PQ
variable {K P : Type} [DecidableEq K]

/-- **Unchanged queue.** `PriorityQueue.Iterate` on a queue that is not touched yields each key
exactly once — the keys of the array in array order, which are pairwise distinct (`IndexInv`) — and
then reports exhaustion for ever: the first `n` calls return the first `n` keys, every further call
"exhausted"; nothing panics. -/
theorem pqIter_unchanged_yields_each_key_once (less : P → P → Bool) (q : PQ K P) (hq : IndexInv q)
    (h0 : 0 ≤ q.h.gen) (n : Nat) :
    pqRun less q iterate (List.replicate n PQEv.next) =
        ((keysOf q.h.a).take n).map (fun k => Obs.item (some k)) ++
          List.replicate (n - (keysOf q.h.a).length) Obs.done ∧
      (keysOf q.h.a).Nodup := by
  refine ⟨?_, hq.1⟩
  rw [pqRun_nexts (by decide), run_nexts_fresh (lessKP less) (by decide) q.h h0 n]
  simp only [keysOf, List.map_append, List.map_take, List.map_map, List.map_replicate, List.length_map, mapObs]
  rfl

/-- **Snapshot or panic for `PriorityQueue.Iterate`, the whole history.** For every queue and every
history of `Update` (existing key to a lower / higher / equal priority, or a new key), `Remove`
(present or absent key), `Pop` (also the one that empties the queue, also on the empty queue) and
`Grow` interleaved with `Next` calls at any position: the keys the iterator returns are a prefix of
the keys held at its first `Next`, it reports exhaustion only after all of them, otherwise it panics
and keeps panicking. (`Remove` of an absent key and a refused call leave the state unchanged, `Grow`
the contents: the iteration may continue.) -/
theorem pqIter_snapshot_or_panic (less : P → P → Bool) (q : PQ K P) (h0 : 0 ≤ q.h.gen)
    (evs : List (PQEv K P)) :
    SnapshotOrPanic (pqSnapshot less q evs) (pqRun less q iterate evs) := by
  obtain ⟨hevs, h1, h2⟩ := pqRun_transport (by decide) less evs q iterate
  rw [h1, h2]
  exact snapshotOrPanic_map _ _ _ (run_fresh (lessKP less) (by decide) (by decide) hevs q.h h0)

/-- Every successful `Update` (new key: an element is added; existing key with a lower, higher or
equal priority: the array is reordered in place — D14), `Remove` of a present key and `Pop` makes the
next call of an iterator under way panic. -/
theorem pqIter_mutation_panics (less : P → P → Bool) {q q' : PQ K P} (hq : IndexInv q) (it : Iter)
    (hit : it.gen = q.h.gen) (h0 : 0 ≤ q.h.gen)
    (hop : (∃ k p, update less q k p = some q') ∨ (∃ k p0, Holds q k p0 ∧ remove less q k = some q') ∨
      (∃ k, Juniper.Model.PQ.pop less q = some (q', k))) :
    Juniper.Model.PQ.iterNext q' it = (it, IterOut.panic) := by
  obtain ⟨e, hm, hq'⟩ := pq_mutation_is_heap_mutation less hq hop
  have hgen := applyEv_gen_mutates (lessKP less) q.h e hm (by decide)
  rw [pqIterNext_eq (by decide), hq', iterNext_started (by omega) (by decide), if_neg (by omega)]
  rfl

-- `new` de-duplicates to 3 keys; unchanged drain; equal-priority Update, Remove, Pop → panic (kept);
-- Remove of an absent key and Grow → iteration continues
example :
    let q := Juniper.Model.PQ.new ltN [((10 : Nat), (5 : Nat)), (20, 3), (30, 4), (20, 9)]
    pqRun ltN q iterate (List.replicate 5 .next) = [.item (some 20), .item (some 10), .item (some 30), .done, .done] ∧
    pqRun ltN q iterate [.next, .update 10 5, .next, .next] = [.item (some 20), .panic, .panic] ∧
    pqRun ltN q iterate [.next, .remove 30, .next] = [.item (some 20), .panic] ∧
    pqRun ltN q iterate [.next, .pop, .next] = [.item (some 20), .panic] ∧
    pqRun ltN q iterate [.next, .remove 77, .grow, .next] = [.item (some 20), .item (some 10)] := by
  decide

end PQ

end Juniper.Props.C15Heap
