import Juniper.Model.PQ
/-!
# C15 (heap half) — Heap.Iterate / PriorityQueue.Iterate are snapshot-or-panic (property theorems)
-/
namespace Juniper.Props.C15Heap
open Juniper.Gen.Heap Juniper.Model.Heap

/-- A fresh iterator captures the heap's generation at its first `Next`. -/
theorem heapIter_first_next_captures {α : Type} (h : Heap α)
    (hf : (iterFresh iterInitGen && iterCapturesGen && iterCapturesSlice) = true := by decide) :
    (iterNext h iterate).1.gen = h.gen ∧ (iterNext h iterate).1.len = h.a.length := by
  simp only [Bool.and_eq_true] at hf
  obtain ⟨⟨h1, h2⟩, h3⟩ := hf
  simp only [iterNext, iterate, h1, h2, h3, if_true, iterStep]
  split <;> simp

end Juniper.Props.C15Heap
