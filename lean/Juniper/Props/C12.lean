import Juniper.Proofs.MergeChans
import Juniper.Proofs.Replicate
import Juniper.Proofs.StreamMergeClose
import Juniper.Proofs.StreamMergeResults
import Juniper.Proofs.StreamMergeProgress
import Juniper.Model.Skeleton
import Juniper.Generated.Skeleton
/-!
# C12 — Merge / Replicate move every value exactly once and finish when their inputs do

Property theorems (and their non-vacuity examples) about the LTS models of `Model/Merge.lean` and
`Model/StreamMerge.lean`, whose arm tables, guards, deferred calls and presence facts are the
generated `Juniper.Gen.Merge`. Helper lemmas: `Proofs/MergeChans.lean`, `Proofs/Replicate.lean`,
`Proofs/StreamMerge*.lean`. `Reach (init V n) s` ranges over every interleaving of the producers'
sends and closes, the consumer's receives and the steps of the merging goroutine(s).
-/
namespace Juniper.Props.C12
open Juniper.Model
open Juniper.Model.Merge (HasNil)

/-- Tie 1 for the control flow *between* the regenerated facts: the statement-kind skeletons of
`chans.Merge`, `merge2`, `merge3`, `chans.Replicate`, `stream.Merge`, its per-input goroutine (`for {
Next; if End {return} else if err != nil { if CAS { cancel(); sender.Close(err) }; return }; Send; if
err != nil {return} }` under the three `defer`s), its `cancel` closure, `mergeStream.Next/Close` and
of the `Pipe` functions the merged stream is built on, regenerated from the Go source
(`Juniper.Gen.Skeleton`), are exactly the ones the LTSs hard-wire (`Model/Skeleton.lean`): no statement
was added (an early `return` in front of the CAS, a filter on the error's kind), removed or moved. -/
theorem skeleton_ok :
    (Gen.Skeleton.chansMerge = Model.Skeleton.chansMerge ∧ Gen.Skeleton.merge2 = Model.Skeleton.merge2 ∧
      Gen.Skeleton.merge3 = Model.Skeleton.merge3 ∧ Gen.Skeleton.replicate = Model.Skeleton.replicate) ∧
    (Gen.Skeleton.streamMerge = Model.Skeleton.streamMerge ∧
      Gen.Skeleton.streamMergeWorker = Model.Skeleton.streamMergeWorker ∧
      Gen.Skeleton.streamMergeCancel = Model.Skeleton.streamMergeCancel ∧
      Gen.Skeleton.mergeNext = Model.Skeleton.mergeNext ∧ Gen.Skeleton.mergeClose = Model.Skeleton.mergeClose) ∧
    (Gen.Skeleton.send = Model.Skeleton.send ∧ Gen.Skeleton.pipeNext = Model.Skeleton.pipeNext ∧
      Gen.Skeleton.senderClose = Model.Skeleton.senderClose ∧ Gen.Skeleton.pipeClose = Model.Skeleton.pipeClose) := by
  decide

/-- Tie 1 for **the context `stream.Merge` hands to its inputs and to `Send`**: the regenerated right-hand
side of `ctx, cancel := …` is `context.WithCancel(context.Background())` — no deadline, no parent that can
end —, the variable `cancel` occurs in `Merge` (closures included) exactly twice, both times as the call
`cancel()` (their positions are pinned by `winSeq_eq`: after the won CAS, and `closeSeq_eq`: in the closure run
by `Close`), and `ctx` occurs exactly as the argument of `in[i].Next` and of `sender.Send`. Hence nobody but
those two calls can end that context: `ctxOrigin = plainCancel`, and the LTS's environment label `ctxEnds`
("the context ends without `cancel()`") is dead. The property theorems below that rely on it
(`streamMerge_first_error`, `streamMerge_end_only_if_all_done`, `streamMerge_end_iff_all_done`,
`streamMerge_interleaving`, `streamMerge_goroutines_finish_after_close`, and those of `Props/C12Progress.lean`)
re-derive `ctxOrigin = plainCancel` from the generated facts inside their own proofs. -/
theorem ctx_origin_ok :
    Gen.Merge.smCtxRhs = "context.WithCancel(context.Background())" ∧
    Gen.Merge.smCtxCancelUses = ["cancel()", "cancel()"] ∧
    Gen.Merge.smCtxCtxUses = ["in[i].Next(ctx)", "sender.Send(ctx,item)"] ∧
    StreamMerge.ctxOrigin = .plainCancel ∧
    (∀ (V : Type) (k : Nat) (s : StreamMerge.St V), StreamMerge.Reach (StreamMerge.init V k) s →
      StreamMerge.step s .ctxEnds = none) := by
  refine ⟨by decide, by decide, by decide, by decide, ?_⟩
  intro V k s h
  have ho : StreamMerge.ctxOrigin = .plainCancel := by decide
  cases hs : StreamMerge.step s .ctxEnds with
  | none => rfl
  | some s' => exact (Juniper.Proofs.StreamMerge.no_ctxEnds ((Juniper.Proofs.StreamMerge.reach_invA h).org.trans ho) hs).elim

/-- non-vacuity of the dependence: classified from the texts of a `WithTimeout` / a derived context / a third
use of `cancel`, the origin is not `plainCancel` -/
example : StreamMerge.ctxOriginOf "context.WithTimeout(context.Background(),time.Minute)" "context.WithTimeout"
      "context.Background()" ["cancel()", "cancel()"] ["in[i].Next(ctx)", "sender.Send(ctx,item)"] = .deadline ∧
    StreamMerge.ctxOriginOf "context.WithCancel(parent)" "context.WithCancel" "parent" ["cancel()", "cancel()"]
      ["in[i].Next(ctx)", "sender.Send(ctx,item)"] = .derivedFromCaller ∧
    StreamMerge.ctxOriginOf "context.WithCancel(context.Background())" "context.WithCancel" "context.Background()"
      ["time.AfterFunc(time.Hour,cancel)", "cancel()", "cancel()"] ["in[i].Next(ctx)", "sender.Send(ctx,item)"] = .other := by
  decide

section chans
variable {V : Type} [HasNil V]
open Juniper.Model.Merge Juniper.Proofs.MergeChans

/-- Arity dispatch of `chans.Merge`: one input takes the range loop, two `merge2`, three `merge3`,
everything else (zero included) the `reflect.Select` loop. -/
theorem merge_dispatch (n : Nat) :
    pathOf n = (if n = 1 then .range else if n = 2 then .m2 else if n = 3 then .m3 else .reflect) :=
  pathOf_eq n

/-- **chans.Merge outputs an interleaving of its inputs** — for every arity `n` (hence each of the
four code paths), every element type, every reachable state: for every input `i`, what `out` has
delivered from `i`, followed by the value Merge holds for `i` (blocked in `out <- item`), followed by
what is still receivable on `i`, is exactly what was ever offered on `i`. So `out` restricted to
input `i` is a prefix of input `i` (per-input order, nothing invented or duplicated), every
delivered value comes from one of the `n` inputs, and Merge never panics (nil values included). First
conjunct: the four code paths have the control flow the LTS hard-wires (regenerated skeletons). -/
theorem merge_interleaving (n : Nat) (s : St V) (h : Reach (init V n) s) :
    (Gen.Skeleton.chansMerge = Model.Skeleton.chansMerge ∧ Gen.Skeleton.merge2 = Model.Skeleton.merge2 ∧
      Gen.Skeleton.merge3 = Model.Skeleton.merge3) ∧
    (∀ i c, s.ins[i]? = some c → proj i s.out ++ held i s.pc ++ c.avail = c.sent) ∧
    (∀ p, p ∈ s.out → p.1 < n) ∧ s.pc ≠ .panicked :=
  let hi := reach_inv h
  ⟨⟨by decide, by decide, by decide⟩, hi.conserve, hi.tags, hi.noPanic⟩

example : ∃ s : St (Option Int), Reach (init (Option Int) 4) s ∧ s.out = [(2, none), (0, some 5)] ∧
    s.pc = .hold 2 (some 9) :=
  ⟨_, reach_of_run [.envSend 2 none, .envSend 0 (some 5), .recv 2, .deliver, .recv 0, .envSend 2 (some 9), .deliver,
    .recv 2] .refl rfl, by decide⟩

/-- **chans.Merge returns exactly when all inputs are closed and everything was delivered** — for
every arity. (1) Not earlier: whenever it has returned, every input is closed and drained and `out`
restricted to each input equals that input (same multiset, per-input order). (2) Not later: once
every input is closed and everything offered was delivered, Merge has returned or one of its own
steps is enabled, each such step keeps that situation and strictly decreases the measure `mu`, so
(3) some run of Merge-internal steps — needing neither producer nor consumer — ends in `done`. -/
theorem merge_returns_iff_all_closed_and_delivered (n : Nat) (s : St V) (h : Reach (init V n) s) :
    (s.pc = .done → ∀ i, i < n → ∃ c, s.ins[i]? = some c ∧ c.closed = true ∧ c.avail = [] ∧
        proj i s.out = c.sent) ∧
    (AllDone s → s.pc ≠ .done →
        (∃ l, l ∈ internalLabels s ∧ ∃ s', step s l = some s') ∧
        (∀ l, l ∈ internalLabels s → ∀ s', step s l = some s' → AllDone s' ∧ mu s' < mu s)) ∧
    (AllDone s → ∃ ls s', run s ls = some s' ∧ InternalRun s ls ∧ s'.pc = .done) := by
  have hi := reach_inv h
  refine ⟨?_, fun ha hnd => progress hi ha hnd, fun ha => eventually_done (mu s) s hi ha (Nat.le_refl _)⟩
  intro hd i hin
  have hl := hi.doneLive hd
  obtain ⟨c, hc, hcl, hav⟩ := hi.dead i hin (by rw [hl]; simp)
  have := hi.conserve i c hc
  rw [hd, hav] at this
  exact ⟨c, hc, hcl, hav, by simpa [held] using this⟩

/-- zero inputs: `chans.Merge(out)` returns at once -/
example : ∃ s : St (Option Int), run (init (Option Int) 0) [.exit] = some s ∧ s.pc = .done := ⟨_, rfl, by decide⟩
/-- one / two / three / four inputs: a full run through the respective code path ends in `done` -/
example : ∃ s : St (Option Int), run (init (Option Int) 1) [.envSend 0 (some 1), .recv 0, .envClose 0, .deliver, .recv 0] = some s ∧
    s.pc = .done ∧ s.out = [(0, some 1)] := ⟨_, rfl, by decide⟩
example : ∃ s : St (Option Int), run (init (Option Int) 2) [.envSend 1 (some 1), .envClose 0, .recv 0, .recv 1, .deliver, .envClose 1, .recv 1] = some s ∧
    s.pc = .done ∧ s.out = [(1, some 1)] := ⟨_, rfl, by decide⟩
example : ∃ s : St (Option Int), run (init (Option Int) 3) [.envClose 2, .envClose 0, .recv 0, .envClose 1, .recv 2, .recv 1] = some s ∧
    s.pc = .done := ⟨_, rfl, by decide⟩
example : ∃ s : St (Option Int), run (init (Option Int) 4) [.envClose 2, .envClose 0, .recv 0, .envSend 3 none, .recv 3, .deliver, .envClose 1,
    .recv 2, .recv 1, .envClose 3, .recv 3, .exit] = some s ∧ s.pc = .done ∧ s.out = [(3, none)] := ⟨_, rfl, by decide⟩

end chans

section replicate
variable {V : Type}
open Juniper.Model.Merge Juniper.Proofs.Replicate

/-- **chans.Replicate delivers the whole source in order to every destination** — for every number
of destinations `m` and every reachable state: what destination `j` has received, followed by the
value it is still owed of the item being fanned out, followed by what is still receivable on `src`,
is exactly what was ever offered on `src`; so each destination holds a prefix of the source, in
order. Replicate has returned only if `src` is closed and drained (then every destination holds the
whole source), and once `src` is closed and drained and every destination has everything, its next
own step returns. First conjunct: Replicate is the two nested `range` loops around one send and nothing
else (regenerated skeleton). -/
theorem replicate_all_in_order (m : Nat) (s : RSt V) (h : RReach (rinit V m) s) :
    Gen.Skeleton.replicate = Model.Skeleton.replicate ∧
    (∀ j o, s.outs[j]? = some o → o ++ rOwed j s.pc ++ s.src.avail = s.src.sent) ∧
    s.outs.length = m ∧
    (s.pc = .done → s.src.closed = true ∧ s.src.avail = [] ∧
      ∀ (j : Nat) (o : List V), s.outs[j]? = some o → o = s.src.sent) ∧
    (RAllDone s → s.pc ≠ .done → ∃ s', rstep s .recv = some s' ∧ s'.pc = .done) := by
  have hi := rreach_inv h
  refine ⟨by decide, hi.conserve, hi.len, ?_, fun ha hnd => rprogress hi ha hnd⟩
  intro hd
  obtain ⟨hcl, hav⟩ := hi.done hd
  refine ⟨hcl, hav, ?_⟩
  intro j o ho
  have := hi.conserve j o ho
  rw [hd, hav] at this
  simpa [rOwed] using this

example : ∃ s : RSt (Option Int), RReach (rinit (Option Int) 2) s ∧ s.pc = .done ∧
    s.outs = [[some 7, none], [some 7, none]] :=
  ⟨_, rreach_of_run [.envSend (some 7), .recv, .envSend none, .deliver, .deliver, .envClose, .recv, .deliver, .deliver,
    .recv] .refl rfl, by decide⟩

end replicate

section streamMerge
variable {V : Type}
open Juniper.Model.StreamMerge Juniper.Proofs.StreamMerge

/-- **stream.Merge outputs an interleaving of its inputs** — for every number of inputs `k` and every
reachable state: what the consumer received from input `i`, followed by the item goroutine `i` is
currently trying to send, followed by the item whose `Send` failed, is exactly the sequence of
items `in[i].Next` has returned. So the output restricted to input `i` is a prefix of input `i` (order
preserved, nothing duplicated or invented), and every delivered item carries the tag of one of the
`k` inputs. Third conjunct: an item is dropped (its `Send` failed) only after `Close` of the merged stream
was called or the CAS on `closeOnce` was won, i.e. some input returned an error — never merely because
time passed: this uses that the context handed to `Send` ends only through `cancel()` (`ctxOrigin`,
re-derived here from the regenerated facts). -/
theorem streamMerge_interleaving (k : Nat) (s : St V) (h : Reach (init V k) s) :
    (∀ i g, s.gs[i]? = some g → proj i s.out ++ heldG g.pc ++ g.dropped = g.items) ∧
    (∀ p, p ∈ s.out → p.1 < k) ∧
    (∀ g, g ∈ s.gs → g.dropped ≠ [] → s.closeOnce = true ∨ ∃ rest, s.cpc = .closing rest) := by
  have ho : ctxOrigin = .plainCancel := by decide
  have hf := reach_invF ho h
  have hb : InvB k s := by
    clear hf
    induction h with
    | refl => exact invB_init k
    | step l hr hs ih => exact invB_step (reach_invA hr) ih hs
  refine ⟨hb.conserve, hb.tags, ?_⟩
  intro g hg hd
  cases hco : s.closeOnce with
  | true => exact .inl rfl
  | false =>
    right
    refine Classical.byContradiction fun hn => ?_
    have hnc : notClosing s := fun rest hr => hn ⟨rest, hr⟩
    exact hd (hf.drop g hg (hf.f4 hco hnc g hg))

example : ∃ s : St (Option Int), Reach (init (Option Int) 2) s ∧ s.out = [(1, some 7), (0, some 3)] ∧
    s.results = [.item 1 (some 7), .item 0 (some 3)] :=
  ⟨_, reach_of_run [.inItem 0 (some 3), .inItem 1 (some 7), .cCall true, .sendOk 1, .cCall true, .sendOk 0] .refl rfl,
    by decide⟩

/-- **Every input of stream.Merge is closed exactly once by the time `Close` of the merged stream
returns, never used after, and `Next`/`Close` of an input never overlap** (the Merge clause of C09) —
in every reachable state: no input has been closed more than once, no `Next` began after a `Close`,
an input whose `Next` is in progress has not been closed (and `in[i].Close()` is only issued by the
goroutine that issues `in[i].Next`, after its loop, so the two never run concurrently); and once
`Close` of the merged stream has returned, every one of the `k` inputs has been closed exactly once
and every goroutine has called `wg.Done()`. -/
theorem streamMerge_inputs_closed_once (k : Nat) (s : St V) (h : Reach (init V k) s) :
    s.gs.length = k ∧
    (∀ g, g ∈ s.gs → g.closes ≤ 1 ∧ g.nextAfterClose = false ∧ (g.pc = .next → g.closes = 0)) ∧
    (s.cpc = .closing [] → ∀ g, g ∈ s.gs → g.closes = 1 ∧ pastWg g.pc = true) := by
  have ha := reach_invA h
  have hd := reach_invD h
  refine ⟨ha.len, ?_, fun hc => closed_once_when_close_returned ha hd hc⟩
  intro g hg
  have hl := ha.loc g hg
  refine ⟨?_, hl.nac, ?_⟩
  · rw [hl.closes]; split <;> omega
  · intro hp; rw [hl.closes, hp]; rfl

/-- **After the merged stream has been closed, the goroutines of stream.Merge finish without needing
further input** — in every reachable state in which `Close` has been called (`cpc = closing rest`):
(1) every step whatsoever strictly decreases the measure `nu` and `Close` stays in progress, so only
finitely many steps remain (this uses that the context ends only through `cancel()` — `ctxOrigin`,
re-derived here from the regenerated facts — so that the environment label `ctxEnds` is dead); (2) as long as `Close` has not returned or some goroutine has not
finished, a step from `internalLabels` is enabled — a step of a goroutine, of `Close`, or the return
of an input's `Next` with the error of the cancelled context; none of them is an item, an end or an
error of an input; (3) hence some run of such steps ends with `Close` returned and every goroutine
finished. (Assumption, stated in `internalLabels`: an input's `Next` returns once the context it was
given is cancelled.) -/
theorem streamMerge_goroutines_finish_after_close (k : Nat) (s : St V) (h : Reach (init V k) s)
    (rest : List CloseStep) (hc : s.cpc = .closing rest) :
    (Gen.Skeleton.mergeClose = Model.Skeleton.mergeClose ∧ Gen.Skeleton.streamMergeCancel = Model.Skeleton.streamMergeCancel ∧
      Gen.Skeleton.streamMergeWorker = Model.Skeleton.streamMergeWorker) ∧
    (∀ l s', step s l = some s' → nu s' < nu s ∧ ∃ rest', s'.cpc = .closing rest') ∧
    ((rest ≠ [] ∨ ∃ g, g ∈ s.gs ∧ g.pc ≠ .finished) → ∃ l, l ∈ internalLabels s ∧ ∃ s', step s l = some s') ∧
    (∃ ls s', run s ls = some s' ∧ InternalRun s ls ∧ s'.cpc = .closing [] ∧ ∀ g, g ∈ s'.gs → g.pc = .finished) :=
  have ho : ctxOrigin = .plainCancel := by decide
  ⟨⟨by decide, by decide, by decide⟩, fun _ _ hs => after_close_decreases ((reach_invA h).org.trans ho) hc hs,
   fun hnf => after_close_enabled (reach_invA h) (reach_invD h) hc hnf,
   after_close_finishes ho (nu s) s rest (reach_invA h) (reach_invD h) hc (Nat.le_refl _)⟩

/-- two inputs blocked forever in `Next`, one item delivered, then `Close`: everything finishes -/
example : ∃ s : St (Option Int), Reach (init (Option Int) 2) s ∧ s.cpc = .closing [] ∧
    s.gs.map (·.pc) = [.finished, .finished] ∧ s.gs.map (·.closes) = [1, 1] :=
  ⟨_, reach_of_run [.inItem 0 (some 3), .cCall true, .sendOk 0, .cClose, .cCloseStep, .cCloseStep, .inCtx 0, .inCtx 1,
      .cas 1, .cas 0, .win 1, .win 1, .win 1, .exitStep 0, .exitStep 0, .exitStep 1, .exitStep 1, .exitStep 0, .exitStep 0,
      .exitStep 0, .exitStep 1, .exitStep 1, .exitStep 1, .cCloseStep] .refl rfl, by decide⟩

/-- **The pipe's sender is closed at most once** (a second `close(s.senderDone)` would panic): in every
reachable state `sender.Close` has been called at most once — by the winner of the CAS on
`closeOnce`, or with nil by the last goroutine to bump `nDone`, or at construction for zero inputs. -/
theorem streamMerge_no_double_close_of_sender (k : Nat) (s : St V) (h : Reach (init V k) s) :
    s.senderCloses ≤ 1 := by
  have hc := reach_invC h
  rcases Nat.eq_zero_or_pos k with hk | hk
  · have := (hc.z hk).1; omega
  · have := hc.sc hk; omega

example : ∃ s : St (Option Int), Reach (init (Option Int) 2) s ∧ s.senderCloses = 1 ∧ s.senderErr = some (.inj 7) ∧
    s.gs.map (·.pc) = [.finished, .finished] :=
  ⟨_, reach_of_run [.inErr 0 7, .inErr 1 8, .cas 0, .cas 1, .win 0, .win 0, .win 0,
      .exitStep 0, .exitStep 0, .exitStep 0, .exitStep 0, .exitStep 0, .exitStep 1, .exitStep 1, .exitStep 1,
      .exitStep 1, .exitStep 1] .refl rfl, by decide⟩

/-- **Zero inputs: the merged stream ends at once.** In every state reachable from `Merge()` the
sender is closed with nil, so a `Next` of the consumer can always take its `senderDone` arm, and doing
so reports the normal end. -/
theorem streamMerge_zero_inputs_ends (s : St V) (h : Reach (init V 0) s) :
    s.senderCloses = 1 ∧ s.senderErr = none ∧
    ∀ live, s.cpc = .inNext live → ∃ s', step s .cEnd = some s' ∧ s'.results = s.results ++ [.endd] := by
  obtain ⟨h1, h2⟩ := (reach_invC h).z rfl
  refine ⟨h1, h2, ?_⟩
  intro live hc
  obtain ⟨s', hs', _, _, hr⟩ := cEnd_enabled hc (by omega : 0 < s.senderCloses)
  exact ⟨s', hs', by rw [hr, h2]⟩

example : ∃ s : St (Option Int), Reach (init (Option Int) 0) s ∧ s.results = [.endd, .endd] :=
  ⟨_, reach_of_run [.cCall true, .cEnd, .cCall false, .cEnd] .refl rfl, by decide⟩

/-- **stream.Merge reports the error of the input whose goroutine wins the CAS on `closeOnce` — "first" means
first to reach that CAS, not first `Next` to return: `errLog` order (the time the inputs' `Next` calls returned)
need not agree with it —, never the normal end** (also the Merge clause
of C08). In every reachable state: (1) an error the consumer was given is an injected error `x` of some
input `i` — never the error of the merge's own context, be it cancelled or (had it one) past its deadline —,
that input really returned it (`errLog`), and it is the error of the goroutine whose CAS on `closeOnce`
succeeded (`winner` is written once: the first goroutine to reach the CAS with an error; two inputs failing
at about the same time may be reported in either order); hence all errors reported are
the same; (2) once any input has returned an error the consumer is never told the normal end;
(3) once the sender is closed with error `e`, a pending `Next` can always return, and returns `e`;
(4) once any input has returned an error, a consumer waiting in `Next` is never stuck: some step
that needs no further input (the CAS, a statement of the winner, or the `senderDone` arm of `Next`)
is enabled — the error cannot be followed by silence; (5) the context handed to the inputs and to `Send` has
ended, or a goroutine holds that context's error, only if the CAS was won (an input failed) or `Close` of
the merged stream was called: it never ends because time passed or because of anybody else, so no input is
ever failed by the library. (0) First conjunct: between an input's `Next`
returning a non-End error and the CAS there is no statement — in particular no test of the error's kind
that returns early —, `mergeStream.Next`, `pipeStream.Next`, `PipeSender.Close` pass the error
through untouched (regenerated control skeletons), and the context is
`context.WithCancel(context.Background())`, ended by nobody but the two modelled `cancel()` calls
(`ctxOrigin = plainCancel`, from the regenerated right-hand side of `ctx, cancel := …` and the regenerated
lists of all uses of `cancel` and `ctx`; (1), (2) and (5) are proved from it). -/
theorem streamMerge_first_error (k : Nat) (s : St V) (h : Reach (init V k) s) :
    (Gen.Skeleton.streamMergeWorker = Model.Skeleton.streamMergeWorker ∧
      Gen.Skeleton.mergeNext = Model.Skeleton.mergeNext ∧ Gen.Skeleton.pipeNext = Model.Skeleton.pipeNext ∧
      Gen.Skeleton.senderClose = Model.Skeleton.senderClose ∧ ctxOrigin = .plainCancel) ∧
    (∀ e, Res.err e ∈ s.results → ∃ i x, e = .inj x ∧ s.winner = some (i, .inj x) ∧ (i, x) ∈ s.errLog) ∧
    (s.errLog ≠ [] → Res.endd ∉ s.results) ∧
    (∀ e, s.senderErr = some e → 0 < s.senderCloses → ∀ live, s.cpc = .inNext live →
      ∃ s', step s .cEnd = some s' ∧ s'.results = s.results ++ [.err e]) ∧
    (s.errLog ≠ [] → ∀ live, s.cpc = .inNext live → ∃ l, l ∈ internalLabels s ∧ ∃ s', step s l = some s') ∧
    ((s.cancelled = true ∨ ∃ g, g ∈ s.gs ∧ (g.pc = .gotErr .ctx ∨ ∃ r, g.pc = .won .ctx r)) →
      s.closeOnce = true ∨ ∃ rest, s.cpc = .closing rest) := by
  have ho : ctxOrigin = .plainCancel := by decide
  have ha := reach_invA h
  have hc := reach_invC h
  have hf := reach_invF ho h
  refine ⟨⟨by decide, by decide, by decide, by decide, ho⟩, ?_, ?_, ?_,
    fun herr live hcp => error_never_stuck ha hc hf (reach_invL h) herr hcp, ?_⟩
  rotate_right
  · intro hcan
    have hcan' : s.cancelled = true := by
      rcases hcan with hcan | ⟨g, hg, hp⟩
      · exact hcan
      · refine hf.r3 g hg ?_
        rcases hp with hp | ⟨r, hp⟩ <;> simp [hp, isCtxPc]
    refine Classical.byContradiction fun hn => ?_
    have hnc : notClosing s := fun rest hr => hn (.inr ⟨rest, hr⟩)
    exact hn (.inl ((hf.j3 hnc).2 hcan'))
  · intro e he
    obtain ⟨i, x, h1, h2⟩ := hf.r1 e he
    exact ⟨i, x, h1, h2, hc.w4 i x h2⟩
  · intro hne hend
    obtain ⟨hco, hall⟩ := hf.r4 hend
    cases hl : s.errLog with
    | nil => exact hne hl
    | cons p rest =>
      obtain ⟨g, hg, hlog⟩ := hf.r5 p (by rw [hl]; simp)
      have hgm := List.mem_of_getElem? hg
      have hw := hall g hgm
      have hloc := ha.loc g hgm
      rcases hlog with hlog | hlog | hlog
      · have : inLoop g.pc = true := by
          cases hp : g.pc <;> simp [hp, isErrPc, inLoop] at hlog ⊢
        have := hloc.why.mpr this
        rw [hw] at this; cases this
      · rw [hw] at hlog; cases hlog
      · rw [hw] at hlog; cases hlog
  · intro e he hpos live hcp
    obtain ⟨s', hs', _, _, hr⟩ := cEnd_enabled hcp hpos
    exact ⟨s', hs', by rw [hr, he]⟩

example : ∃ s : St (Option Int), Reach (init (Option Int) 2) s ∧
    s.results = [.item 1 (some 5), .err (.inj 7), .err (.inj 7)] ∧ s.errLog = [(0, 7), (1, 8)] :=
  ⟨_, reach_of_run [.inItem 1 (some 5), .inErr 0 7, .cCall true, .sendOk 1, .inErr 1 8, .cas 0, .cas 1, .win 0, .win 0,
      .cCall true, .cEnd, .cCall false, .cEnd] .refl rfl, by decide⟩

/-- "first" is the CAS, not the clock: input 0 returns its error before input 1 does, goroutine 1 reaches the
CAS first and the consumer is told 8 -/
example : ∃ s : St (Option Int), Reach (init (Option Int) 2) s ∧
    s.results = [.err (.inj 8)] ∧ s.errLog = [(0, 7), (1, 8)] :=
  ⟨_, reach_of_run [.inErr 0 7, .inErr 1 8, .cas 1, .cas 0, .win 1, .win 1, .cCall true, .cEnd] .refl rfl, by decide⟩

/-- **Non-vacuity of the dependence on `ctxOrigin`** — the same LTS started with a context that has a
deadline (what `ctx, cancel := context.WithTimeout(context.Background(), time.Minute)` would generate): the
consumer waits in `Next`, no input has failed or ended, time passes (`ctxEnds`), the input honours the
context it was given, its goroutine wins the CAS with the context's error, and the consumer is told an
error that no input produced: `results = [err ctx]` with `errLog = []`, `closeOnce` set although nothing
failed — (1) and (5) of `streamMerge_first_error` are false there, and the merged stream has failed
although every input is still willing to deliver. On the unchanged tree `ctxEnds` is dead (`ctx_origin_ok`). -/
example : ∃ s : St (Option Int),
    run { init (Option Int) 1 with origin := .deadline } [.cCall true, .ctxEnds, .inCtx 0, .cas 0, .win 0, .win 0, .cEnd]
      = some s ∧ s.results = [.err .ctx] ∧ s.errLog = [] ∧ s.winner = some (0, .ctx) ∧ s.cpc = .idle :=
  ⟨_, rfl, by decide⟩
/-- … and there an item can be dropped and the stream can end early: with two inputs, input 1 delivers an item
nobody has asked for yet; the deadline passes; `Send` fails, the item is dropped without any `Close` or input error -/
example : ∃ s : St (Option Int),
    run { init (Option Int) 2 with origin := .deadline } [.inItem 1 (some 4), .ctxEnds, .sendFail 1] = some s ∧
      s.gs.map (·.dropped) = [[], [some 4]] ∧ s.closeOnce = false ∧ s.cpc = .idle ∧ s.errLog = [] :=
  ⟨_, rfl, by decide⟩

/-- **A `Next` of the merged stream that fails on its expired context costs nothing** (the Merge clause
of C08): taking the `ctx.Done()` arm changes nothing but the consumer's own state — no goroutine
moves, no item is taken or dropped, the sender is untouched — so the next `Next` continues exactly
where the sequence was (by `streamMerge_interleaving` nothing is lost or duplicated). -/
theorem streamMerge_ctx_costs_nothing (s s' : St V) (h : step s .cCtx = some s') :
    s'.gs = s.gs ∧ s'.out = s.out ∧ s'.senderCloses = s.senderCloses ∧ s'.senderErr = s.senderErr ∧
    s'.results = s.results ++ [.ctx] ∧ s'.cpc = .idle := by
  obtain ⟨_, rfl⟩ := step_cCtx h
  exact ⟨rfl, rfl, rfl, rfl, rfl, rfl⟩

/-- a goroutine is parked in `Send` with an item; the expired `Next` returns ctx, the next one gets the item -/
example : ∃ s : St (Option Int), Reach (init (Option Int) 1) s ∧ s.results = [.ctx, .item 0 (some 4)] :=
  ⟨_, reach_of_run [.inItem 0 (some 4), .cCall false, .cCtx, .cCall true, .sendOk 0] .refl rfl, by decide⟩

/-- **The consumer's context may expire at any moment of a pending `Next`, and that costs nothing either**
("all relative speeds of producer and consumer"). The expiry (`cExpire`, an action of the consumer's side:
`inNext true → inNext false`) is possible exactly while a `Next` with a live context is pending; it changes
nothing but that flag — no goroutine moves, nothing is taken, dropped or closed —; afterwards the `ctx.Done()`
arm of that `Next` is enabled and taking it returns the context's error and nothing else
(`streamMerge_ctx_costs_nothing`); the other arms stay as they were, so an item or the end / error that
becomes available at the same time may be returned instead (Go's `select` picks either). -/
theorem streamMerge_ctx_expiry_while_pending (s s' : St V) (h : step s .cExpire = some s') :
    s.cpc = .inNext true ∧ s' = { s with cpc := .inNext false } ∧
    (∃ s'', step s' .cCtx = some s'' ∧ s''.results = s.results ++ [.ctx] ∧ s''.gs = s.gs ∧ s''.out = s.out ∧
      s''.cpc = .idle) ∧
    (∀ i, step s' (.sendOk i) = step s (.sendOk i)) ∧
    step s' .cEnd = step s .cEnd := by
  obtain ⟨hp, rfl⟩ := step_cExpire h
  have hx : step ({ s with cpc := .inNext false } : St V) .cCtx =
      some { s with cpc := .idle, results := s.results ++ [.ctx] } := by simp [step, nextArmCtx_eq]
  refine ⟨hp, rfl, ⟨_, hx, rfl, rfl, rfl, rfl⟩, ?_, ?_⟩
  · intro i
    simp only [step, hp]
    cases s.gs[i]? with
    | none => rfl
    | some g => cases hpc : g.pc <;> simp [hpc]
  · simp only [step, hp]

/-- the consumer waits with a live context, input 0 is silent; the context expires; `Next` returns its error;
the item that arrives later goes to the next `Next` — or, had it arrived between expiry and return, to this one -/
example : ∃ s : St (Option Int), Reach (init (Option Int) 1) s ∧ s.results = [.ctx, .item 0 (some 4)] :=
  ⟨_, reach_of_run [.cCall true, .cExpire, .cCtx, .inItem 0 (some 4), .cCall true, .sendOk 0] .refl rfl, by decide⟩
example : ∃ s : St (Option Int), Reach (init (Option Int) 1) s ∧ s.results = [.item 0 (some 4)] :=
  ⟨_, reach_of_run [.cCall true, .cExpire, .inItem 0 (some 4), .sendOk 0] .refl rfl, by decide⟩

/-- **The merged stream ends only when every input has ended and everything was delivered** (the
"only if" half of `streamMerge_end_iff_all_done`).
In every reachable state in which the consumer has been told the normal end: every input's `Next`
returned `End` (no goroutine left its loop for another reason — in particular none because the context
it was given ended: `ctxOrigin = plainCancel` is re-derived from the regenerated facts in this proof), no
input ever returned an error, and the items the consumer received from input `i` are exactly the items
`in[i].Next` returned, in order. -/
theorem streamMerge_end_only_if_all_done (k : Nat) (s : St V) (h : Reach (init V k) s)
    (hend : Res.endd ∈ s.results) :
    (∀ i g, s.gs[i]? = some g → g.why = some .ended ∧ proj i s.out = g.items) ∧ s.errLog = [] := by
  have ho : ctxOrigin = .plainCancel := by decide
  have ha := reach_invA h
  have hf := reach_invF ho h
  have hb : InvB k s := by
    clear hend hf ha
    induction h with
    | refl => exact invB_init k
    | step l hr hs ih => exact invB_step (reach_invA hr) ih hs
  obtain ⟨hco, hall⟩ := hf.r4 hend
  refine ⟨?_, ?_⟩
  · intro i g hg
    have hgm := List.mem_of_getElem? hg
    have hw := hall g hgm
    refine ⟨hw, ?_⟩
    have hloc := ha.loc g hgm
    have hnl : inLoop g.pc = false := by
      cases hh : inLoop g.pc
      · rfl
      · have := hloc.why.mpr hh; rw [hw] at this; cases this
    have hheld : heldG g.pc = [] := by
      cases hp : g.pc <;> simp [hp, heldG, inLoop] at hnl ⊢
    have hdrop : g.dropped = [] := hf.drop g hgm (by rw [hw]; simp)
    have := hb.conserve i g hg
    rw [hheld, hdrop] at this
    simpa using this
  · cases hl : s.errLog with
    | nil => rfl
    | cons p rest => exact absurd hend ((streamMerge_first_error k s h).2.2.1 (by rw [hl]; simp))

/-- **The merged stream ends exactly when all inputs are exhausted and everything has been
delivered.** Only if: `streamMerge_end_only_if_all_done`. If: in every reachable state in which every
input's `Next` has returned `End` and the consumer is waiting in `Next` with a live context,
(1) some step that needs no further input is enabled; (2) every enabled step other than the expiry of the
consumer's own context (`cExpire` — after it that `Next` may return the context's error instead, which
costs nothing: `streamMerge_ctx_costs_nothing`) either hands the normal
end to that `Next`, or keeps the situation and strictly decreases the measure `nu2` (no item is left
to deliver: no goroutine is in its loop any more); hence (3) some run of steps needing no further
input delivers the normal end. No fairness is asserted: (1)–(3) are enabledness, a strictly decreasing
measure and the existence of a run; that the scheduler runs enabled goroutine steps is the trusted
runtime assumption. -/
theorem streamMerge_end_iff_all_done (k : Nat) (s : St V) (h : Reach (init V k) s) :
    (Res.endd ∈ s.results →
      (∀ i g, s.gs[i]? = some g → g.why = some .ended ∧ proj i s.out = g.items) ∧ s.errLog = []) ∧
    (AllEnded s → s.cpc = .inNext true →
      (∃ l, l ∈ internalLabels s ∧ ∃ s', step s l = some s') ∧
      (∀ l s', l ≠ .cExpire → step s l = some s' → AllEnded s' ∧
        ((s'.cpc = .inNext true ∧ s'.results = s.results ∧ nu2 s' < nu2 s) ∨ s'.results = s.results ++ [.endd])) ∧
      (∃ ls s', run s ls = some s' ∧ InternalRun s ls ∧ s'.results = s.results ++ [.endd])) := by
  refine ⟨streamMerge_end_only_if_all_done k s h, ?_⟩
  intro hall hcp
  have ho : ctxOrigin = .plainCancel := by decide
  have ha := reach_invA h
  have hc := reach_invC h
  have hl := reach_invL h
  obtain ⟨h1, h2⟩ := end_progress ho ha hc hl hall hcp
  exact ⟨h1, h2, end_delivered ho (nu2 s) s ha hc hl hall hcp (Nat.le_refl _)⟩

/-- three inputs end one after the other, two items are delivered in between, then the end -/
example : ∃ s : St (Option Int), Reach (init (Option Int) 3) s ∧
    s.gs.map (·.why) = [some .ended, some .ended, some .ended] ∧ s.cpc = .inNext true ∧
    s.results = [.item 2 (some 1), .item 0 (some 2)] :=
  ⟨_, reach_of_run [.inItem 2 (some 1), .inEnd 1, .cCall true, .sendOk 2, .inItem 0 (some 2), .inEnd 2, .cCall true,
      .sendOk 0, .inEnd 0, .exitStep 1, .exitStep 1, .cCall true] .refl rfl, by decide⟩

end streamMerge

end Juniper.Props.C12
