import Juniper.Proofs.MergeChans
import Juniper.Proofs.Replicate
/-!
# C12 — Merge / Replicate move every value exactly once and finish when their inputs do

Property theorems (and their non-vacuity examples) about the LTS models of `Model/Merge.lean` and
`Model/StreamMerge.lean`, whose arm tables, guards, deferred calls and presence facts are the
generated `Juniper.Gen.Merge`. Helper lemmas: `Proofs/MergeChans.lean`, `Proofs/Replicate.lean`,
`Proofs/StreamMerge*.lean`. `Reach (init V n) s` ranges over every interleaving of the producers'
sends and closes, the consumer's receives and the steps of the merging goroutine(s).
-/
namespace Juniper.Props.C12
open Juniper.Model
open Juniper.Model.Merge (HasNil)

section chans
variable {V : Type} [HasNil V]
open Juniper.Model.Merge Juniper.Proofs.MergeChans

/-- Arity dispatch of `chans.Merge`: one input takes the range loop, two `merge2`, three `merge3`,
everything else (zero included) the `reflect.Select` loop. -/
theorem merge_dispatch (n : Nat) :
    pathOf n = (if n = 1 then .range else if n = 2 then .m2 else if n = 3 then .m3 else .reflect) :=
  pathOf_eq n

/-- **chans.Merge outputs an interleaving of its inputs** — for every arity `n` (hence each of the
four code paths), every element type, every reachable state: for every input `i`, what `out` has
delivered from `i`, followed by the value Merge holds for `i` (blocked in `out <- item`), followed by
what is still receivable on `i`, is exactly what was ever offered on `i`. So `out` restricted to
input `i` is a prefix of input `i` (per-input order, nothing invented or duplicated), every
delivered value comes from one of the `n` inputs, and Merge never panics (nil values included). -/
theorem merge_interleaving (n : Nat) (s : St V) (h : Reach (init V n) s) :
    (∀ i c, s.ins[i]? = some c → proj i s.out ++ held i s.pc ++ c.avail = c.sent) ∧
    (∀ p, p ∈ s.out → p.1 < n) ∧ s.pc ≠ .panicked :=
  let hi := reach_inv h
  ⟨hi.conserve, hi.tags, hi.noPanic⟩

example : ∃ s : St (Option Int), Reach (init (Option Int) 4) s ∧ s.out = [(2, none), (0, some 5)] ∧
    s.pc = .hold 2 (some 9) :=
  ⟨_, reach_of_run [.envSend 2 none, .envSend 0 (some 5), .recv 2, .deliver, .recv 0, .envSend 2 (some 9), .deliver,
    .recv 2] .refl rfl, by decide⟩

/-- **chans.Merge returns exactly when all inputs are closed and everything was delivered** — for
every arity. (1) Not earlier: whenever it has returned, every input is closed and drained and `out`
restricted to each input equals that input (same multiset, per-input order). (2) Not later: once
every input is closed and everything offered was delivered, Merge has returned or one of its own
steps is enabled, each such step keeps that situation and strictly decreases the measure `mu`, so
(3) some run of Merge-internal steps — needing neither producer nor consumer — ends in `done`. -/
theorem merge_returns_iff_all_closed_and_delivered (n : Nat) (s : St V) (h : Reach (init V n) s) :
    (s.pc = .done → ∀ i, i < n → ∃ c, s.ins[i]? = some c ∧ c.closed = true ∧ c.avail = [] ∧
        proj i s.out = c.sent) ∧
    (AllDone s → s.pc ≠ .done →
        (∃ l, l ∈ internalLabels s ∧ ∃ s', step s l = some s') ∧
        (∀ l, l ∈ internalLabels s → ∀ s', step s l = some s' → AllDone s' ∧ mu s' < mu s)) ∧
    (AllDone s → ∃ ls s', run s ls = some s' ∧ InternalRun s ls ∧ s'.pc = .done) := by
  have hi := reach_inv h
  refine ⟨?_, fun ha hnd => progress hi ha hnd, fun ha => eventually_done (mu s) s hi ha (Nat.le_refl _)⟩
  intro hd i hin
  have hl := hi.doneLive hd
  obtain ⟨c, hc, hcl, hav⟩ := hi.dead i hin (by rw [hl]; simp)
  have := hi.conserve i c hc
  rw [hd, hav] at this
  exact ⟨c, hc, hcl, hav, by simpa [held] using this⟩

/-- zero inputs: `chans.Merge(out)` returns at once -/
example : ∃ s : St (Option Int), run (init (Option Int) 0) [.exit] = some s ∧ s.pc = .done := ⟨_, rfl, by decide⟩
/-- one / two / three / four inputs: a full run through the respective code path ends in `done` -/
example : ∃ s : St (Option Int), run (init (Option Int) 1) [.envSend 0 (some 1), .recv 0, .envClose 0, .deliver, .recv 0] = some s ∧
    s.pc = .done ∧ s.out = [(0, some 1)] := ⟨_, rfl, by decide⟩
example : ∃ s : St (Option Int), run (init (Option Int) 2) [.envSend 1 (some 1), .envClose 0, .recv 0, .recv 1, .deliver, .envClose 1, .recv 1] = some s ∧
    s.pc = .done ∧ s.out = [(1, some 1)] := ⟨_, rfl, by decide⟩
example : ∃ s : St (Option Int), run (init (Option Int) 3) [.envClose 2, .envClose 0, .recv 0, .envClose 1, .recv 2, .recv 1] = some s ∧
    s.pc = .done := ⟨_, rfl, by decide⟩
example : ∃ s : St (Option Int), run (init (Option Int) 4) [.envClose 2, .envClose 0, .recv 0, .envSend 3 none, .recv 3, .deliver, .envClose 1,
    .recv 2, .recv 1, .envClose 3, .recv 3, .exit] = some s ∧ s.pc = .done ∧ s.out = [(3, none)] := ⟨_, rfl, by decide⟩

end chans

section replicate
variable {V : Type}
open Juniper.Model.Merge Juniper.Proofs.Replicate

/-- **chans.Replicate delivers the whole source in order to every destination** — for every number
of destinations `m` and every reachable state: what destination `j` has received, followed by the
value it is still owed of the item being fanned out, followed by what is still receivable on `src`,
is exactly what was ever offered on `src`; so each destination holds a prefix of the source, in
order. Replicate has returned only if `src` is closed and drained (then every destination holds the
whole source), and once `src` is closed and drained and every destination has everything, its next
own step returns. -/
theorem replicate_all_in_order (m : Nat) (s : RSt V) (h : RReach (rinit V m) s) :
    (∀ j o, s.outs[j]? = some o → o ++ rOwed j s.pc ++ s.src.avail = s.src.sent) ∧
    s.outs.length = m ∧
    (s.pc = .done → s.src.closed = true ∧ s.src.avail = [] ∧
      ∀ (j : Nat) (o : List V), s.outs[j]? = some o → o = s.src.sent) ∧
    (RAllDone s → s.pc ≠ .done → ∃ s', rstep s .recv = some s' ∧ s'.pc = .done) := by
  have hi := rreach_inv h
  refine ⟨hi.conserve, hi.len, ?_, fun ha hnd => rprogress hi ha hnd⟩
  intro hd
  obtain ⟨hcl, hav⟩ := hi.done hd
  refine ⟨hcl, hav, ?_⟩
  intro j o ho
  have := hi.conserve j o ho
  rw [hd, hav] at this
  simpa [rOwed] using this

example : ∃ s : RSt (Option Int), RReach (rinit (Option Int) 2) s ∧ s.pc = .done ∧
    s.outs = [[some 7, none], [some 7, none]] :=
  ⟨_, rreach_of_run [.envSend (some 7), .recv, .envSend none, .deliver, .deliver, .envClose, .recv, .deliver, .deliver,
    .recv] .refl rfl, by decide⟩

end replicate

end Juniper.Props.C12
