import Juniper.Model.Merge
import Juniper.Model.StreamMerge
/-!
# C12 — Merge / Replicate (property theorems)
-/
namespace Juniper.Props.C12
open Juniper.Model

/-- Arity dispatch of `chans.Merge`: one input takes the range loop, two `merge2`, three `merge3`,
everything else (zero included) the `reflect.Select` loop. -/
theorem merge_dispatch (n : Nat) :
    Merge.pathOf n = (if n = 1 then .range else if n = 2 then .m2 else if n = 3 then .m3 else .reflect) := by
  unfold Merge.pathOf Gen.Merge.dispatch1 Gen.Merge.dispatch2 Gen.Merge.dispatch3
  have e1 : ((n:Int) = 1) ↔ n = 1 := by omega
  have e2 : ((n:Int) = 2) ↔ n = 2 := by omega
  have e3 : ((n:Int) = 3) ↔ n = 3 := by omega
  simp only [e1, e2, e3, decide_eq_true_eq]

end Juniper.Props.C12
