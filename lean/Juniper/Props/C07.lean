import Juniper.Proofs.IterReduce
import Juniper.Proofs.StreamReduce
import Juniper.Proofs.IterRuns
import Juniper.Proofs.StreamRuns
import Juniper.Proofs.XSlices
import Juniper.Proofs.IterLast
import Juniper.Proofs.StreamLast
import Juniper.Proofs.Pipeline
import Juniper.Proofs.Minimal
import Juniper.Proofs.IterEqual
import Juniper.Proofs.MinimalMore
import Juniper.Proofs.Agree
import Juniper.Proofs.StreamPeek
import Juniper.Proofs.Sources
/-!
# C07 — iterator / stream / xslices combinators compute their documented sequence function;
lazy; sticky end (property theorems)

Vocabulary (`Juniper/Proofs/IterDen.lean`, `StreamDen.lean`):
* `Den m cost s L e` — iterator machine `m` in state `s` yields exactly the items of `L`, each
  annotated with the value of `cost` (source items pulled) at its delivery, then the end (at cost `e`)
  on **every** later call (sticky end is part of the meaning).
* `SDen soft m cost s L t` — the same for stream machines under every choice of per-call contexts,
  with soft failures allowed in between; `t` says how the stream terminates.
* `den_next` / `sden_next` turn a denotation into what the consumer's `Next` calls answer.

Every combinator theorem is for an **arbitrary inner machine**, so pipelines of any depth follow by
composing them (`pipeline_denotes_partial` does it once for six stage kinds). Helper lemmas live in
`Juniper/Proofs/`.

Every name of the property text has a theorem about the machine that `driver comb` executes and that
`harness/cmd/c07` runs against the real function (the harness counts `api:<pkg>.<Name>` per call and
reports a function it never called; `Proofs/Skeleton.lean` `Tie.api` pins the list of exported functions):
constructors `Slice` (`slice_denotes`), `Counter`, `Repeat`, `Empty`, `Chan` (`chan_denotes`), stream
`Empty` / `Error` / `FromIterator` / `Chan` (`s_*_denotes`), their initial states
(`constructor_states`), the `Compact` wrappers (`compactW_denotes`, `s_compactW_denotes`), the combinators,
the reducers, and the xslices counterparts (`xslices_agree_*`, over the C19 models of those functions).
Theorems that cover only part of their clause carry the suffix `_partial` and say what is missing.
-/
namespace Juniper.Props.C07
open Juniper.Model Juniper.Spec Juniper.Gen.Comb
open Juniper.Proofs
universe u v w

section iterator
open Juniper.Model.Iter Juniper.Proofs.IterDen
variable {σ : Type u} {τ : Type w} {α β : Type v}

/-- **Meaning of a denotation at the consumer, incl. the sticky end**: `n` consecutive `Next()`
calls answer the items of `L` in order and then the end, again and again, for every `n`. -/
theorem den_next {m : IM σ α} {cost : σ → Nat} {s : σ} {L : List (α × Nat)} {e : Nat} (h : Den m cost s L e) :
    ∃ F, ∀ fuel, F ≤ fuel → ∀ n, nexts m fuel n s = ideal (L.map Prod.fst) n := den_nexts h

/-- **Laziness, generic part**: when a `Next()` call returns an item, the number of source items
pulled so far is that item's annotation; when it returns the end, it is `e`. -/
theorem den_cost {m : IM σ α} {cost : σ → Nat} {s : σ} {L : List (α × Nat)} {e : Nat} (h : Den m cost s L e) :
    ∃ F, ∀ fuel, F ≤ fuel →
      match L with
      | [] => (drive m fuel s).1 = some none ∧ Ended m (drive m fuel s).2 ∧ cost (drive m fuel s).2 = e
      | p :: L' => (drive m fuel s).1 = some (some p.1) ∧ Den m cost (drive m fuel s).2 L' e ∧
          cost (drive m fuel s).2 = p.2 := drive_den h

/-- `iterator.Slice(l)` yields `l`; its `i`-th item is delivered with `i` items pulled (and no item is
pulled before the first `Next`). -/
theorem slice_denotes (l : List α) : Den src (fun s : Src α => s.pulled) (Src.of l) (annot 0 l) l.length := by
  simpa [Src.of] using src_den l 0 0

example : Den src (fun s : Src Nat => s.pulled) (Src.of [7, 8]) [(7, 1), (8, 2)] 2 := slice_denotes [7, 8]

/-- `iterator.Counter(n)` — the machine and the first state built from the regenerated constructor
fields (`&counterIterator{i: 0, n: n}`), the yielded item the regenerated `iter.i` — yields
`0, 1, …, n-1` for every `n` (nothing for `n ≤ 0`). -/
theorem counter_denotes (n : Int) :
    Den (counterOf n) (fun _ => 0) (counterInit n) ((List.range n.toNat).map fun (j : Nat) => ((j : Int), 0)) 0 := by
  have h := counter_den n 0 n.toNat (by omega)
  simpa [counterOf, counterInit, itCounterInitN, itCounterInitI] using h

example : ((List.range (3 : Int).toNat).map fun (j : Nat) => ((j : Int), 0)) = [(0, 0), (1, 0), (2, 0)] := by decide

/-- `iterator.Repeat(a, n)` yields `a` `n` times (none for `n ≤ 0`). -/
theorem repeat_denotes (a : α) (n : Int) :
    Den (repeat_ a) (fun _ => 0) (repeatInit n) (List.replicate n.toNat (a, 0)) 0 := by
  simpa [repeatInit, itRepeatInitX] using repeat_den a n

/-- `iterator.Empty()` yields nothing. -/
theorem empty_denotes : Den (empty (α := α)) (fun _ => 0) () [] 0 := empty_den

/-- `iterator.Chan(c)`: "yields the values received on c" — over a channel that holds `l` and is closed:
`l` in order, then the end for ever (`Next` is the regenerated `item, ok := <-iter.c; return item, ok`).
Sends and the close arriving *between* `Next` calls (any capacity, any interleaving) are the LTS of
`Props/C10Chan`. -/
theorem chan_denotes (l : List α) :
    Den (chan (α := α)) (fun _ => 0) ⟨l, true⟩ (l.map fun a => (a, 0)) 0 := Sources.ichan_den l

example : ((chan (α := Nat)).step ⟨[], false⟩).1 = .skip ∧ ((chan (α := Nat)).step ⟨[7], false⟩).1 = .item 7 := by decide

/-- **initial states**: the states the `*_denotes` theorems start from are the ones the constructors
build (regenerated field initialisers of `Counter`, `Repeat`, `WithPeek`, `CompactFunc`, `First`, `While`,
`Chunk` in both packages). -/
theorem constructor_states (s : σ) (n : Int) :
    counterInit n = 0 ∧ counterOf n = counter n ∧ repeatInit n = n ∧ itPeekInitHas = false ∧
    (compactInit s : CompactSt σ α) = ⟨s, true, none⟩ ∧ firstInit s n = ⟨s, n, false⟩ ∧ whileInit s = ⟨s, false⟩ ∧
    itChunkInitSize n = n ∧ stPeekInitHas = false ∧ (Stream.compactInit s : Stream.CompactSt σ α) = ⟨s, true, none⟩ ∧
    Stream.firstInit s n = ⟨s, n⟩ ∧ stChunkInitSize n = n :=
  ⟨rfl, rfl, rfl, rfl, rfl, rfl, rfl, rfl, rfl, rfl, rfl, rfl⟩

/-- `iterator.WithPeek(it)` yields what `it` yields. -/
theorem withPeek_denotes {m : IM σ α} {cost : σ → Nat} {s : σ} {L : List (α × Nat)} {e : Nat}
    (h : Den m cost s L e) : Den (withPeek m) (fun st => cost st.inner) ⟨s, none⟩ L e := peek_den h

/-- `Peek()` never changes what the iterator yields and answers its first item (or the end):
"if Peek returns a value, the next call to Next will return the same value". -/
theorem peek_preserves {m : IM σ α} {cost : σ → Nat} {p : PeekSt σ α} {L : List (α × Nat)} {e : Nat}
    (h : Den (withPeek m) (fun st => cost st.inner) p L e) :
    Den (withPeek m) (fun st => cost st.inner) (peekPeek m p).2 L e ∧
      ((peekPeek m p).1 = .skip ∨ (peekPeek m p).1 = .done ∧ L = [] ∨
        ∃ a c L', L = (a, c) :: L' ∧ (peekPeek m p).1 = .item a) := peekPeek_den h

/-- `iterator.Chunk(it, n)`, `n ≥ 1`: non-overlapping chunks of size `n`, a shorter last one; a chunk
is delivered as soon as its last item has been pulled. -/
theorem chunk_denotes (n : Nat) {m : IM σ α} {cost : σ → Nat} {s : σ} {L : List (α × Nat)} {e : Nat}
    (h : Den m cost s L e) :
    Den (chunk (n : Int) m) (fun st => cost st.inner) ⟨s, []⟩ (chunkGoA n [] L e) e ∧
      (chunkGoA n [] L e).map Prod.fst = Seq.chunk n (L.map Prod.fst) :=
  ⟨chunk_den n h [], chunkGoA_fst n [] L e⟩

example : Seq.chunk 2 [1, 2, 3, 4, 5] = [[1, 2], [3, 4], [5]] := by decide

/-- `iterator.CompactFunc(it, eq)`: adjacent duplicates elided (each item is compared with the last one kept). -/
theorem compact_denotes (eq : α → α → Bool) {m : IM σ α} {cost : σ → Nat} {s : σ} {L : List (α × Nat)} {e : Nat}
    (h : Den m cost s L e) :
    Den (compact eq m) (fun st => cost st.inner) ⟨s, true, none⟩ (Seq.compactGo (fun p q => eq p.1 q.1) none L) e :=
  compact_den eq h none

/-- `iterator.Compact(it)` (the wrapper: `CompactFunc(it, ==)`, regenerated body) elides adjacent duplicates. -/
theorem compactW_denotes [DecidableEq α] {m : IM σ α} {cost : σ → Nat} {s : σ} {L : List (α × Nat)} {e : Nat}
    (h : Den m cost s L e) :
    Den (compactEq m) (fun st => cost st.inner) (compactInit s)
      (Seq.compactGo (fun p q => decide (p.1 = q.1)) none L) e := by
  rw [Sources.icompactEq_eq]
  exact compact_den (fun a b => decide (a = b)) h none

example : (Seq.compactGo (fun p q : Nat × Nat => decide (p.1 = q.1)) none [(1, 1), (1, 2), (2, 3), (1, 4)]).map Prod.fst = [1, 2, 1] := by
  decide

/-- `iterator.Filter(it, keep)`. -/
theorem filter_denotes (keep : α → Bool) {m : IM σ α} {cost : σ → Nat} {s : σ} {L : List (α × Nat)} {e : Nat}
    (h : Den m cost s L e) : Den (filter keep m) cost s (L.filter fun p => keep p.1) e := filter_den keep h

/-- `iterator.First(it, n)`: the first `n` items; after them the end is reported **without a further pull**. -/
theorem first_denotes {m : IM σ α} {cost : σ → Nat} {s : σ} {L : List (α × Nat)} {e : Nat}
    (h : Den m cost s L e) (n : Int) :
    Den (first m) (fun st => cost st.inner) ⟨s, n, false⟩ (L.take n.toNat) (firstEnd (cost s) n.toNat L e) :=
  (first_den h).1 n

/-- `iterator.Flatten(it)`: the concatenation of the inner iterators (each `c` denoting `D c`), pulling
the outer iterator only when the current inner one has ended. -/
theorem flatten_denotes {mo : IM σ τ} {mi : IM τ α} {co : σ → Nat} (D : τ → List α) {so : σ}
    {Lo : List (τ × Nat)} {eo : Nat} (ho : Den mo co so Lo eo)
    (hD : ∀ p ∈ Lo, ∃ (ci : τ → Nat) (Li : List (α × Nat)) (ei : Nat), Den mi ci p.1 Li ei ∧ Li.map Prod.fst = D p.1) :
    Den (flatten mo mi) (fun st => co st.outer) ⟨so, none⟩
      (Lo.flatMap fun p => (D p.1).map fun a => (a, p.2)) eo := flatten_den D ho hD

/-- `iterator.Join(its...)`: the concatenation. -/
theorem join_denotes {m : IM σ α} (D : σ → List α) (ss : List σ)
    (hD : ∀ s ∈ ss, ∃ (ci : σ → Nat) (Li : List (α × Nat)) (ei : Nat), Den m ci s Li ei ∧ Li.map Prod.fst = D s) :
    Den (join m) (fun _ => 0) ss ((ss.flatMap D).map fun a => (a, 0)) 0 := join_den D ss hD

/-- `iterator.Map(it, f)`. -/
theorem map_denotes (f : α → β) {m : IM σ α} {cost : σ → Nat} {s : σ} {L : List (α × Nat)} {e : Nat}
    (h : Den m cost s L e) : Den (map f m) cost s (L.map fun p => (f p.1, p.2)) e := map_den f h

/-- `iterator.While(it, f)`: the longest prefix passing `f`; the end is reported with the first
failing item (which had to be pulled) and then stays. -/
theorem while_denotes (f : α → Bool) {m : IM σ α} {cost : σ → Nat} {s : σ} {L : List (α × Nat)} {e : Nat}
    (h : Den m cost s L e) :
    Den (while_ f m) (fun st => cost st.inner) ⟨s, false⟩ (L.takeWhile fun p => f p.1) (whileEnd f L e) :=
  while_den f h

/-- `iterator.Runs(it, same)` used as documented (outer `Next`; read the inner iterator to its end —
`take = none` — or take at most `take` items; advance): for a reflexive `same` it yields the maximal
runs of neighbours related by `same` — exactly `Seq.runs`, the function `xslices.Runs` computes —
each delivered as soon as the item after it has been pulled. No symmetry or transitivity is needed. -/
theorem runs_denotes (same : α → α → Bool) (hrefl : ∀ a, same a a = true) (take : Option Nat)
    {m : IM σ α} {cost : σ → Nat} {s : σ} {L : List (α × Nat)} {e : Nat} (h : Den m cost s L e) (gen : Nat) :
    Den (runsProto same take m) (rcost cost) ⟨⟨⟨s, none⟩, gen, none⟩, none⟩ (runsStartA same take L e) e ∧
      (runsStartA same none L e).map Prod.fst = Seq.runs same (L.map Prod.fst) :=
  ⟨(runs_den same hrefl take h).2.2 gen, runsStartA_all_fst same L e⟩

example : Seq.runs (fun a b : Nat => a ≤ b) [1, 3, 2, 2, 5, 0] = [[1, 3], [2, 2, 5], [0]] := by decide

/-! ### laziness in closed form (the `need_C` of each combinator, over a slice source) -/

/-- `Map`: the `k`-th answer costs `k` pulls. -/
theorem map_pulls (f : α → β) (l : List α) :
    Den (map f src) (fun s : Src α => s.pulled) (Src.of l) ((annot 0 l).map fun p => (f p.1, p.2)) l.length :=
  map_den f (slice_denotes l)

/-- `Filter`: the `k`-th answer costs the position of the `k`-th kept item. -/
theorem filter_pulls (keep : α → Bool) (l : List α) :
    Den (filter keep src) (fun s : Src α => s.pulled) (Src.of l) ((annot 0 l).filter fun p => keep p.1) l.length :=
  filter_den keep (slice_denotes l)

/-- `First n`: never more than `n` pulls, whatever the consumer does afterwards. -/
theorem first_pulls (n : Nat) (l : List α) :
    Den (first src) (fun st : FirstSt (Src α) => st.inner.pulled) ⟨Src.of l, n, false⟩ ((annot 0 l).take n)
      (firstEnd 0 n (annot 0 l) l.length) := by
  simpa [Src.of] using (first_den (slice_denotes l)).1 (n : Int)

example : firstEnd 0 2 (annot 0 [5, 6, 7]) 3 = 2 := by decide

/-- `Chunk n`: the `k`-th chunk costs `k·n` pulls (the last, shorter one: all of them). -/
theorem chunk_pulls (n : Nat) (l : List α) :
    Den (chunk (n : Int) src) (fun st : ChunkSt (Src α) α => st.inner.pulled) ⟨Src.of l, []⟩
      (chunkGoA n [] (annot 0 l) l.length) l.length := chunk_den n (slice_denotes l) []

example : chunkGoA 2 [] (annot 0 [1, 2, 3, 4, 5]) 5 = [([1, 2], 2), ([3, 4], 4), ([5], 5)] := by decide

/-- `While f`: stops pulling with the first item that fails `f`. -/
theorem while_pulls (f : α → Bool) (l : List α) :
    Den (while_ f src) (fun st : WhileSt (Src α) => st.inner.pulled) ⟨Src.of l, false⟩
      ((annot 0 l).takeWhile fun p => f p.1) (whileEnd f (annot 0 l) l.length) := while_den f (slice_denotes l)

example : whileEnd (fun n : Nat => n < 3) (annot 0 [1, 2, 5, 1]) 4 = 3 := by decide

/-- `CompactFunc`: an item is delivered the moment it is pulled. -/
theorem compact_pulls (eq : α → α → Bool) (l : List α) :
    Den (compact eq src) (fun st : CompactSt (Src α) α => st.inner.pulled) ⟨Src.of l, true, none⟩
      (Seq.compactGo (fun p q => eq p.1 q.1) none (annot 0 l)) l.length := compact_den eq (slice_denotes l) none

/-- `Flatten`: an item of the `j`-th inner iterator costs `j` pulls of the outer iterator — the outer
iterator is advanced only when the current inner one has ended. -/
theorem flatten_pulls {mi : IM τ α} (D : τ → List α) (cs : List τ)
    (hD : ∀ c ∈ cs, ∃ (ci : τ → Nat) (Li : List (α × Nat)) (ei : Nat), Den mi ci c Li ei ∧ Li.map Prod.fst = D c) :
    Den (flatten src mi) (fun st : FlattenSt (Src τ) τ => st.outer.pulled) ⟨Src.of cs, none⟩
      ((annot 0 cs).flatMap fun p => (D p.1).map fun a => (a, p.2)) cs.length :=
  flatten_den D (slice_denotes cs) (fun p hp => hD p.1 (by
    have := List.mem_map_of_mem (f := Prod.fst) hp
    rwa [annot_fst] at this))

example : ((annot 0 [[1, 2], [], [3]]).flatMap fun p => (id p.1).map fun a => (a, p.2)) = [(1, 1), (2, 1), (3, 3)] := by
  decide

/-- `Join` over slices: the `k`-th answer costs `k` pulls in total (`joinCost` = items pulled from all
arguments together); exhausted arguments are stepped over without pulling an item. -/
theorem join_pulls (ls : List (List α)) :
    Den (join src) (joinCost ls.flatten.length) (ls.map Src.of) (annot 0 ls.flatten) ls.flatten.length :=
  join_pulls' ls

example : annot 0 [[1, 2], [], [3]].flatten = [(1, 1), (2, 2), (3, 3)] := by decide

/-- `Runs` (documented protocol, any `take`): a run is delivered once the first item of the next run
has been pulled — one item of lookahead, never more — the last run when the source has ended. -/
theorem runs_pulls (same : α → α → Bool) (hrefl : ∀ a, same a a = true) (take : Option Nat) (l : List α) :
    Den (runsProto same take src) (rcost fun s : Src α => s.pulled) ⟨⟨⟨Src.of l, none⟩, 0, none⟩, none⟩
      (runsStartA same take (annot 0 l) l.length) l.length :=
  (runs_den same hrefl take (slice_denotes l)).2.2 0

example : runsStartA (fun a b : Nat => a == b) none (annot 0 [1, 1, 2, 3, 3]) 5 =
    [([1, 1], 3), ([2], 4), ([3, 3], 5)] := by decide

/-- **`WithPeek` under any interleaving of `Peek` and `Next`** (slice source): every call answers the
item after those consumed by the earlier `Next` calls — so whatever `Peek` shows is what the next `Next`
returns, however many `Peek`s come in between — and the number of source items pulled is
`min len (#Next + [the last call was a Peek])`: the first `Peek` after a `Next` costs one pull, further
ones nothing, and a `Next` after a `Peek` nothing. -/
theorem peek_interleave (l : List α) (ops : List PeekOp) :
    (peekRun src ops ⟨Src.of l, none⟩).1 = peekAnswers l ops 0 ∧
    (peekRun src ops ⟨Src.of l, none⟩).2.inner.pulled =
      min l.length (peekNexts ops + if ops.getLast? = some .peek then 1 else 0) := peek_interleave' l ops

example : peekAnswers [7, 8, 9] [.peek, .peek, .next, .next, .peek] 0 = [.item 7, .item 7, .item 7, .item 8, .item 9] ∧
    min 3 (peekNexts [.peek, .peek, .next, .next, .peek] + 1) = 3 := by decide

/-! ### … and these pull counts are minimal -/

/-- **`need_minimal_map`**: the `k`-th answer of `Map` costs `k` pulls, and `k - 1` source items leave it
undetermined: had the source ended there, the `k`-th answer would be the end instead of an item. -/
theorem need_minimal_map (f : α → β) (l : List α) (k : Nat) (hk1 : 1 ≤ k) (hk : k ≤ l.length) :
    ideal ((l.take (k - 1)).map f) k ≠ ideal (l.map f) k := need_minimal_map' f l k hk1 hk

/-- **`need_minimal_filter` / `_first` / `_while`**: the answer delivered at cost `c` *is* the `c`-th
source item, so fewer than `c` items cannot determine it (the annotated outputs of `Filter`, `First`,
`While` — and likewise `CompactFunc`, `WithPeek` — are sub-lists of the source's annotated items). -/
theorem need_minimal_filter (keep : α → Bool) (l : List α) (q : α × Nat)
    (hq : q ∈ (annot 0 l).filter fun r => keep r.1) : 0 < q.2 ∧ l[q.2 - 1]? = some q.1 :=
  need_minimal_filter' keep l q hq

theorem need_minimal_first (n : Nat) (l : List α) (q : α × Nat) (hq : q ∈ (annot 0 l).take n) :
    0 < q.2 ∧ l[q.2 - 1]? = some q.1 := need_minimal_first' n l q hq

theorem need_minimal_while (f : α → Bool) (l : List α) (q : α × Nat)
    (hq : q ∈ (annot 0 l).takeWhile fun r => f r.1) : 0 < q.2 ∧ l[q.2 - 1]? = some q.1 :=
  need_minimal_while' f l q hq

example : (3, 3) ∈ (annot 0 [1, 2, 3, 4]).filter fun r => r.1 % 2 == 1 := by decide

/-- **`need_minimal_chunk`**: the `k`-th chunk is delivered at cost `c` (`chunk_pulls`), and `c - 1`
source items do not determine it (`Undetermined`: an input with the same first `c - 1` items has another
`k`-th chunk, or none). -/
theorem need_minimal_chunk (n : Nat) (l : List α) (k : Nat) (ch : List α) (c : Nat)
    (h : (chunkGoA n [] (annot 0 l) l.length)[k]? = some (ch, c)) :
    (Seq.chunk n l)[k]? = some ch ∧ 0 < c ∧ Undetermined (Seq.chunk n) l (c - 1) k ch :=
  need_minimal_chunk' n l k ch c h

example : (chunkGoA 2 [] (annot 0 [1, 2, 3]) 3)[1]? = some ([3], 3) := by decide

/-- **`need_minimal_flatten`**: an item of the `j`-th inner iterator costs `j` outer pulls
(`flatten_pulls`); the first `j - 1` inner iterators do not contain it. -/
theorem need_minimal_flatten {τ : Type v} (D : τ → List α) (cs : List τ) (k : Nat) (b : α) (c : Nat)
    (h : ((annot 0 cs).flatMap fun q => (D q.1).map fun a => (a, q.2))[k]? = some (b, c)) :
    (cs.flatMap D)[k]? = some b ∧ 0 < c ∧ Undetermined (fun cs => cs.flatMap D) cs (c - 1) k b :=
  need_minimal_flatten' D cs k b c h

example : ((annot 0 [[1, 2], [], [3]]).flatMap fun q => (id q.1).map fun a => (a, q.2))[2]? = some (3, 3) := by decide

/-- **`need_minimal_join`**: the `k`-th answer (0-based) of `Join` costs `k + 1` pulls in total
(`join_pulls`); arguments holding only the first `k` items leave it undetermined. -/
theorem need_minimal_join (ls : List (List α)) (k : Nat) (b : α) (c : Nat)
    (h : (annot 0 ls.flatten)[k]? = some (b, c)) :
    ls.flatten[k]? = some b ∧ c = k + 1 ∧ ∀ ls' : List (List α), ls'.flatten = ls.flatten.take (c - 1) →
      ls'.flatten[k]? ≠ some b := need_minimal_join' ls k b c h

example : (annot 0 [[1, 2], [], [3]].flatten)[2]? = some (3, 3) := by decide

/-- **`need_minimal_runs`** (reflexive `same`, inner iterators read to their end): the `k`-th run is
delivered at cost `c` (`runs_pulls`: one item of lookahead, or the end of the source); `c - 1` source
items do not determine it — the run could still grow. -/
theorem need_minimal_runs (same : α → α → Bool) (hrefl : ∀ a, same a a = true) (l : List α)
    (k : Nat) (run : List α) (c : Nat)
    (h : (runsStartA same none (annot 0 l) l.length)[k]? = some (run, c)) :
    (Seq.runs same l)[k]? = some run ∧ 0 < c ∧ Undetermined (Seq.runs same) l (c - 1) k run :=
  need_minimal_runs' same hrefl l k run c h

example : (runsStartA (fun a b : Nat => a == b) none (annot 0 [1, 1, 2]) 3)[0]? = some ([1, 1], 3) := by decide

/-! ### reducers -/

/-- `iterator.Reduce(it, init, f)` = `foldl f init`, and the iterator is left ended. -/
theorem reduce_eq {m : IM σ α} {cost : σ → Nat} {s : σ} {L : List (α × Nat)} {e : Nat} (f : β → α → β)
    (h : Den m cost s L e) :
    ∃ F, ∀ fuel, F ≤ fuel → ∀ acc, (reduce m f fuel acc s).1 = some ((L.map Prod.fst).foldl f acc) ∧
      Ended m (reduce m f fuel acc s).2 := reduce_den f h

/-- `iterator.Collect(it)` = the denoted list. -/
theorem collect_eq {m : IM σ α} {cost : σ → Nat} {s : σ} {L : List (α × Nat)} {e : Nat} (h : Den m cost s L e) :
    ∃ F, ∀ fuel, F ≤ fuel → (collect m fuel s).1 = some (L.map Prod.fst) := collect_den h

/-- `iterator.One(it)`: the item iff there is exactly one. -/
theorem one_eq {m : IM σ α} {cost : σ → Nat} {s : σ} {L : List (α × Nat)} {e : Nat} (h : Den m cost s L e) :
    ∃ F, ∀ fuel, F ≤ fuel → (one m fuel s).1 = some (match L.map Prod.fst with | [a] => some a | _ => none) :=
  one_den h

/-- `iterator.Last(it, n)`, every `n ≥ 0` (D3: `n = 0` used to divide by zero): the last `n` items,
all of them if there are fewer; no panic. The ring index arithmetic is the regenerated one. -/
theorem last_eq {m : IM σ α} {cost : σ → Nat} {s : σ} {L : List (α × Nat)} {e : Nat} (n : Nat) (h : Den m cost s L e) :
    ∃ F, ∀ fuel, F ≤ fuel → (last m (n : Int) fuel s).1 = .ok ((Seq.lastN n (L.map Prod.fst)).map some) :=
  last_den n h

example : Seq.lastN 0 [1, 2, 3] = [] ∧ Seq.lastN 2 [1, 2, 3] = [2, 3] ∧ Seq.lastN 5 [1, 2, 3] = [1, 2, 3] := by decide

/-- `iterator.Equal(its...)`: `true` iff all iterators yield the same items in the same order
(`s0` yields `l0`, the others `ls`; rounds = how often the first iterator is advanced). -/
theorem equal_eq [DecidableEq α] {m : IM σ α} (l0 : List α) (s0 : σ) (r : List σ) (ls : List (List α))
    (h0 : DenL m s0 l0) (h : All2 (DenL m) r ls) :
    ∃ F, ∀ fuel, F ≤ fuel → ∀ rounds, l0.length + 1 ≤ rounds →
      (equal m fuel rounds (s0 :: r)).1 = some (decide (∀ l ∈ ls, l = l0)) := equal_den l0 s0 r ls h0 h

example : DenL src (Src.of [1, 2]) [1, 2] := ⟨_, _, _, slice_denotes [1, 2], by decide⟩

/-! ### how many source items the reducers consume -/

/-- `Reduce` / `Collect` read the iterator to its end: the cost afterwards is the end cost `e`
(over a slice: all `len` items). -/
theorem reduce_pulls {m : IM σ α} {cost : σ → Nat} {s : σ} {L : List (α × Nat)} {e : Nat} (f : β → α → β)
    (h : Den m cost s L e) : ∃ F, ∀ fuel, F ≤ fuel → ∀ acc, cost (reduce m f fuel acc s).2 = e := reduce_cost f h

theorem collect_pulls (l : List α) : ∃ F, ∀ fuel, F ≤ fuel → (collect src fuel (Src.of l)).2.pulled = l.length := by
  obtain ⟨F, hF⟩ := reduce_cost (fun (acc : List α) a => acc ++ [a]) (slice_denotes l)
  exact ⟨F, fun fuel hf => hF fuel hf []⟩

/-- `Last(it, n)` reads the iterator to its end whatever `n` is (also `n = 0`). -/
theorem last_pulls {m : IM σ α} {cost : σ → Nat} {s : σ} {L : List (α × Nat)} {e : Nat} (n : Nat)
    (h : Den m cost s L e) : ∃ F, ∀ fuel, F ≤ fuel → cost (last m (n : Int) fuel s).2 = e := last_cost n h

example (l : List Nat) : ∃ F, ∀ fuel, F ≤ fuel → (last src (0 : Nat) fuel (Src.of l)).2.pulled = l.length :=
  last_pulls 0 (slice_denotes l)

/-- `One` makes at most two `Next` calls: over a slice it pulls `min 2 len` items. -/
theorem one_pulls (l : List α) : ∃ F, ∀ fuel, F ≤ fuel → (one src fuel (Src.of l)).2.pulled = min 2 l.length := by
  obtain ⟨F, hF⟩ := one_cost (slice_denotes l)
  refine ⟨F, fun fuel hf => ?_⟩
  rw [hF fuel hf]
  match l with
  | [] => rfl
  | [_] => rfl
  | _ :: _ :: r => simp [annot, oneCost]

/-- **`equal_pulls_partial`**. Full statement: for arbitrary iterators, `Equal` pulls every iterator
once per round, first to last, and stops at the first mismatch (the later ones are not pulled in that
round). Proved here for slice sources, in closed form (`equalL`): the verdict, what is left unread of every
list, and hence how many items every iterator was pulled for (`pulled + unread = len`). The verdict for
arbitrary machines is `equal_eq`. -/
theorem equal_pulls_partial [DecidableEq α] (l0 : List α) (ls : List (List α)) (fuel rounds : Nat) (hf : 1 ≤ fuel)
    (hr : l0.length + 1 ≤ rounds) :
    (equal src fuel rounds ((l0 :: ls).map Src.of)).1 = some (equalL l0 ls).1 ∧
    (equal src fuel rounds ((l0 :: ls).map Src.of)).2.map (·.rest) = (equalL l0 ls).2 ∧
    (equal src fuel rounds ((l0 :: ls).map Src.of)).2.map (fun s => s.pulled + s.rest.length) =
      (l0 :: ls).map List.length := by
  obtain ⟨g, rfl⟩ : ∃ g, fuel = g + 1 := ⟨fuel - 1, by omega⟩
  obtain ⟨ss', h1, h2, h3⟩ := equal_src g l0 (Src.of l0) (ls.map Src.of) rounds rfl hr
  have e1 : (ls.map Src.of).map (·.rest) = ls := by simp [Src.of, Function.comp_def]
  rw [e1] at h1 h2
  simp only [List.map_cons]
  rw [h1]
  refine ⟨rfl, h2, ?_⟩
  have : ss'.map tot = (l0 :: ls).map List.length := by
    rw [h3]; simp [tot, Src.of, Function.comp_def]
  exact this

/-- … in particular, when all lists are equal every iterator is read to its end … -/
theorem equal_pulls_all_equal [DecidableEq α] (l0 : List α) (ls : List (List α)) (h : ∀ l ∈ ls, l = l0) :
    equalL l0 ls = (true, [] :: ls.map fun _ => []) := equalL_all l0 ls h

/-- … and after a mismatch the later iterators are not pulled in that round. -/
example : equalL [1, 2, 3] [[1, 2, 3], [1, 5], [1, 2, 3]] = (false, [[3], [3], [], [2, 3]]) := by decide

/-- **`pipeline_denotes_partial`**. Full statement: *every* composition of the combinators (any stage
kinds, any source) yields the composition of their documented list functions. Proved here: pipelines of
any depth whose stages are the six element-type-preserving kinds of `Pipe` (`Filter`, `Map α→α`,
`First`, `While`, `CompactFunc`, `WithPeek`) over a slice source. Missing: one datatype that also has the
type-changing stages (`Chunk`, `Flatten`, `Runs`, `Join`) and other sources; for those the per-combinator
theorems above (each for an arbitrary inner machine) have to be composed by hand. -/
theorem pipeline_denotes_partial {α : Type} (p : Pipe α) :
    ∃ (L : List (α × Nat)) (e : Nat), Den p.machine.m p.machine.cost p.machine.s L e ∧ L.map Prod.fst = p.spec :=
  pipeline_den p

example : (Pipe.first 2 (Pipe.filter (fun n : Nat => n % 2 == 0) (Pipe.map (· + 1) (Pipe.src [1, 2, 3, 5, 7])))).spec
    = [2, 4] := by decide

end iterator

section stream
open Juniper.Model.Stream Juniper.Proofs.StreamDen
variable {σ : Type u} {τ : Type w} {α β : Type v} {soft : Err → Bool}

/-- **Meaning of a stream denotation at the consumer** (any contexts; failed calls that cost nothing
erased): the items in order, then the end again and again / the failure itself. -/
theorem sden_next (hctx : soft .ctx = true) {m : SM σ α} {cost : σ → Nat} {s : σ}
    {L : List (α × Nat)} {t : Term} (h : SDen soft m cost s L t) :
    ∃ F, ∀ fuel, F ≤ fuel → ∀ cs, Conforms (hard soft (snexts m fuel cs s)) (L.map Prod.fst) t :=
  sden_conforms hctx h

/-- A fault-free scripted source yields its items; the `i`-th costs `i` pulls. -/
theorem source_denotes (l : List α) :
    SDen Err.soft src (fun s : Stream.Src α => s.pulled) (Stream.Src.of (l.map Ev.item))
      (scriptItems true 0 (l.map Ev.item)) (scriptTerm true 0 (l.map Ev.item)) := by
  simpa [Stream.Src.of] using src_sden (soft := Err.soft) true (fun _ => rfl) (fun _ => rfl) (l.map Ev.item) 0 0 0

/-- `stream.Empty()` yields nothing: the end at once and for ever, whatever the context (regenerated
`return zero, End`). -/
theorem s_empty_denotes : SDen soft (Stream.empty (α := α)) (fun _ => 0) () [] (.end_ 0) := Sources.empty_sden

/-- `stream.Error(e)` fails with `e` itself at once (regenerated `return zero, s.err`). -/
theorem s_error_denotes (e : Err) (he : soft e = false) :
    SDen soft (Stream.error (α := α) e) (fun _ => 0) () [] (.fail e) := Sources.error_sden e he

/-- `stream.FromIterator(iter)` yields what `iter` yields, at the same pull counts, then the end for ever;
a call whose context has expired is answered with the context error *before* the iterator is touched
(regenerated `ctx.Err() != nil` guard and operands): nothing is pulled, nothing is lost. -/
theorem s_fromIterator_denotes {m : Iter.IM σ α} {cost : σ → Nat} {s : σ} {L : List (α × Nat)} {e : Nat}
    (h : IterDen.Den m cost s L e) : SDen soft (Stream.fromIterator m) cost s L (.end_ e) :=
  Sources.fromIterator_sden h

example : ((Stream.fromIterator Iter.src).step (Iter.Src.of [7, 8]) false).1 = .err .ctx ∧
    ((Stream.fromIterator Iter.src).step (Iter.Src.of [7, 8]) false).2.pulled = 0 := by decide

/-- `stream.Chan(c)` over a channel that holds `l` and is closed: `l` in order, then the end for ever
(arms and operands of the `select` regenerated); a call whose context has expired costs nothing. The
concurrent behaviour — sends and the close arriving between and during `Next` calls, any capacity — is
`Props/C10Chan`. -/
theorem s_chan_denotes (l : List α) :
    SDen soft (Stream.chan (α := α)) (fun _ => 0) ⟨l, true⟩ (l.map fun a => (a, 0)) (.end_ 0) := Sources.schan_sden l

/-- `stream.Compact(s)` (the wrapper: `CompactFunc(s, ==)`, regenerated body). -/
theorem s_compactW_denotes [DecidableEq α] {m : SM σ α} {cost : σ → Nat} {s : σ} {L : List (α × Nat)} {t : Term}
    (h : SDen soft m cost s L t) :
    SDen soft (Stream.compactEq m) (fun st => cost st.inner) (Stream.compactInit s)
      (Seq.compactGo (fun p q => decide (p.1 = q.1)) none L) t := by
  rw [Sources.scompactEq_eq]
  exact compact_sden (fun a b => decide (a = b)) h none

/-- `stream.WithPeek`. -/
theorem s_withPeek_denotes {m : SM σ α} {cost : σ → Nat} {s : σ} {L : List (α × Nat)} {t : Term}
    (h : SDen soft m cost s L t) : SDen soft (withPeek m) (fun st => cost st.inner) ⟨s, none⟩ L t := peek_sden h

/-- `stream.Chunk(s, n)`. A failure drops the pending partial chunk and is reported itself. -/
theorem s_chunk_denotes (n : Nat) {m : SM σ α} {cost : σ → Nat} {s : σ} {L : List (α × Nat)} {t : Term}
    (h : SDen soft m cost s L t) :
    SDen soft (Stream.chunk (n : Int) m) (fun st => cost st.inner) ⟨s, []⟩ (chunkGoS n [] L t) t := chunk_sden n h []

/-- `stream.CompactFunc`. -/
theorem s_compact_denotes (eq : α → α → Bool) {m : SM σ α} {cost : σ → Nat} {s : σ} {L : List (α × Nat)} {t : Term}
    (h : SDen soft m cost s L t) :
    SDen soft (Stream.compact eq m) (fun st => cost st.inner) ⟨s, true, none⟩
      (Seq.compactGo (fun p q => eq p.1 q.1) none L) t := compact_sden eq h none

/-- `stream.Filter` (callback may fail). -/
theorem s_filter_denotes (keep : α → Except Err Bool) (hf : ∀ a e, keep a = .error e → soft e = false)
    {m : SM σ α} {cost : σ → Nat} {s : σ} {L : List (α × Nat)} {t : Term} (h : SDen soft m cost s L t) :
    SDen soft (Stream.filter keep m) (fun st => cost st.inner) ⟨s⟩ (filterS keep L t).1 (filterS keep L t).2 :=
  filter_sden keep hf h

/-- `stream.Map` (callback may fail). -/
theorem s_map_denotes (f : α → Except Err β) (hf : ∀ a e, f a = .error e → soft e = false)
    {m : SM σ α} {cost : σ → Nat} {s : σ} {L : List (α × Nat)} {t : Term} (h : SDen soft m cost s L t) :
    SDen soft (Stream.map f m) (fun st => cost st.inner) ⟨s⟩ (mapS f L t).1 (mapS f L t).2 := map_sden f hf h

/-- `stream.First`. -/
theorem s_first_denotes {m : SM σ α} {cost : σ → Nat} {s : σ} {L : List (α × Nat)} {t : Term}
    (h : SDen soft m cost s L t) (n : Int) :
    SDen soft (Stream.first m) (fun st => cost st.inner) ⟨s, n⟩ (L.take n.toNat) (firstTermS (cost s) n.toNat L t) :=
  first_sden h n

/-- `stream.While` (callback may fail). -/
theorem s_while_denotes (f : α → Except Err Bool) (hf : ∀ a e, f a = .error e → soft e = false)
    {m : SM σ α} {cost : σ → Nat} {s : σ} {L : List (α × Nat)} {t : Term} (h : SDen soft m cost s L t) :
    SDen soft (Stream.while_ f m) (fun st => cost st.inner) ⟨s, none, false⟩ (whileS f L t).1 (whileS f L t).2 :=
  while_sden f hf h

/-- `stream.FlattenSlices`. -/
theorem s_flattenSlices_denotes {m : SM σ (List α)} {cost : σ → Nat} {s : σ} {L : List (List α × Nat)} {t : Term}
    (h : SDen soft m cost s L t) :
    SDen soft (flattenSlices m) (fun st => cost st.inner) ⟨s, []⟩ (L.flatMap fun p => p.1.map fun a => (a, p.2)) t :=
  flattenSlices_sden h

/-- `stream.FlattenSlices` only *reads* the slices it is handed (D17: it used to zero `s.buffer[0]`, which
is the producer's array, so a `Chunk` upstream whose consumer kept the chunk saw it clobbered): the
regenerated count of `s.buffer[0] = zero` statements in `flattenSlicesStream.Next` is 0. A syntactic
fact (the model of `FlattenSlices` has no notion of the producer's array); the harness case
`corpus/C07/d17-*` shows the behaviour. -/
theorem flattenSlices_leaves_input_alone : stFlattenSlicesWritesInput = 0 := by decide

/-- `stream.Flatten`. -/
theorem s_flatten_denotes {mo : SM σ τ} {mi : SM τ α} {co : σ → Nat} (D : τ → List α × Term) {so : σ}
    {Lo : List (τ × Nat)} {t : Term} (ho : SDen soft mo co so Lo t)
    (hD : ∀ p ∈ Lo, ∃ (ci : τ → Nat) (Li : List (α × Nat)), SDen soft mi ci p.1 Li (D p.1).2 ∧ Li.map Prod.fst = (D p.1).1) :
    SDen soft (Stream.flatten mo mi) (fun st => co st.outer) ⟨so, none, []⟩ (flattenS D Lo t).1 (flattenS D Lo t).2 :=
  flatten_sden D ho hD []

/-- `stream.Join`. -/
theorem s_join_denotes {m : SM σ α} (D : σ → List α × Term) (ss : List σ)
    (hD : ∀ s ∈ ss, ∃ (ci : σ → Nat) (Li : List (α × Nat)), SDen soft m ci s Li (D s).2 ∧ Li.map Prod.fst = (D s).1) :
    SDen soft (Stream.join m) (fun _ => 0) ⟨ss, []⟩ (joinS D ss).1 (joinS D ss).2 := join_sden D ss hD []

/-- `stream.Runs` used as documented, faults included: a failure drops the run being collected and
is reported itself. -/
theorem s_runs_denotes (same : α → α → Bool) (hrefl : ∀ a, same a a = true) (take : Option Nat) (closeInner : Bool)
    {m : SM σ α} {cost : σ → Nat} {s : σ} {L : List (α × Nat)} {t : Term} (h : SDen soft m cost s L t) (gen : Nat) :
    SDen soft (Stream.runsProto same take closeInner m) (StreamDen.rcost cost) ⟨⟨⟨s, none⟩, gen, none⟩, none⟩
      (runsStartS same take L t) t :=
  (runs_sden same hrefl take closeInner h).2.2 gen

/-- … and on a stream that ends, with `take = none`, these are exactly the documented runs. -/
theorem s_runs_spec (same : α → α → Bool) (L : List (α × Nat)) (e : Nat) :
    (runsStartS same none L (.end_ e)).map Prod.fst = Seq.runs same (L.map Prod.fst) := runsStartS_all_fst same L e

/-- `stream.Collect` / `Reduce` / `xrand.SampleStream` on a fault-free stream return the documented value. -/
theorem s_collect_eq {m : SM σ α} {cost : σ → Nat} {s : σ} {L : List (α × Nat)} {e : Nat}
    (h : SDen strict m cost s L (.end_ e)) :
    ∃ F, ∀ fuel, F ≤ fuel → (Stream.collect m true fuel s).1 = .ok (L.map Prod.fst) := by
  obtain ⟨F, hF⟩ := collect_sden h
  exact ⟨F, fun fuel hf => by simpa [outOf] using hF fuel hf⟩

/-- `stream.Last` on a fault-free stream (every `n ≥ 0`). -/
theorem s_last_eq {m : SM σ α} {cost : σ → Nat} {s : σ} {L : List (α × Nat)} {e : Nat} (n : Nat)
    (h : SDen strict m cost s L (.end_ e)) :
    ∃ F, ∀ fuel, F ≤ fuel → (Stream.last m (n : Int) true fuel s).1 = .ok ((Seq.lastN n (L.map Prod.fst)).map some) := by
  obtain ⟨F, hF⟩ := last_sden n h
  exact ⟨F, fun fuel hf => by simpa [outOf] using hF fuel hf⟩

/-- `stream.One`: the only item, `ErrEmpty`, `ErrMoreThanOne` (or the first failure met). -/
theorem s_one_eq {m : SM σ α} {cost : σ → Nat} {s : σ} {L : List (α × Nat)} {t : Term} (h : SDen strict m cost s L t) :
    ∃ F, ∀ fuel, F ≤ fuel → (Stream.one m true fuel s).1 = oneRes (L.map Prod.fst) t := one_sden h

/-- `stream.Reduce`: the fold (callback may fail). -/
theorem s_reduce_eq {γ : Type v} {m : SM σ α} {cost : σ → Nat} {s : σ} {L : List (α × Nat)} {t : Term}
    (f : γ → α → Except Err γ) (h : SDen strict m cost s L t) :
    ∃ F, ∀ fuel, F ≤ fuel → ∀ init, (Stream.reduce m f true fuel init s).1 = foldRes f init (L.map Prod.fst) t :=
  reduce_sden f h

/-! ### closed-form pull counts on the stream side (fault-free source `ofList l`, any contexts) -/

/-- `stream.FlattenSlices`: the items of the `j`-th slice cost `j` pulls; nothing is pulled while the
buffer still holds items. -/
theorem s_flattenSlices_pulls (ls : List (List α)) :
    SDen Err.soft (flattenSlices Stream.src) (fun st => st.inner.pulled) ⟨ofList ls, []⟩
      ((IterDen.annot 0 ls).flatMap fun p => p.1.map fun a => (a, p.2)) (.end_ ls.length) :=
  flattenSlices_sden (ofList_sden true (fun _ => rfl) (fun _ => rfl) ls)

/-- `stream.Flatten` over fault-free inner streams: an item of the `j`-th inner stream costs `j`
pulls of the outer stream. -/
theorem s_flatten_pulls (ls : List (List α)) :
    SDen Err.soft (Stream.flatten Stream.src Stream.src) (fun st => st.outer.pulled) ⟨ofList (ls.map ofList), none, []⟩
      ((IterDen.annot 0 ls).flatMap fun p => p.1.map fun a => (a, p.2)) (.end_ ls.length) := by
  have ho := ofList_sden (soft := Err.soft) true (fun _ => rfl) (fun _ => rfl) (ls.map ofList)
  have h := flatten_sden (soft := Err.soft) srcD ho (fun p hp => by
    have hm := List.mem_map_of_mem (f := Prod.fst) hp
    rw [IterDen.annot_fst] at hm
    obtain ⟨l, _, hl⟩ := List.mem_map.mp hm
    rw [← hl]
    exact srcD_hyp Err.soft (fun _ => rfl) (fun _ => rfl) l) []
  rw [flattenS_ended, List.length_map] at h
  exact h

/-- `stream.Runs` (documented protocol): one item of lookahead per run, as for the iterator. -/
theorem s_runs_pulls (same : α → α → Bool) (hrefl : ∀ a, same a a = true) (take : Option Nat) (closeInner : Bool)
    (l : List α) :
    SDen Err.soft (Stream.runsProto same take closeInner Stream.src) (StreamDen.rcost fun s : Stream.Src α => s.pulled)
      ⟨⟨⟨ofList l, none⟩, 0, none⟩, none⟩ (runsStartS same take (IterDen.annot 0 l) (.end_ l.length)) (.end_ l.length) :=
  (runs_sden same hrefl take closeInner (ofList_sden true (fun _ => rfl) (fun _ => rfl) l)).2.2 0

/-- `stream.Collect` / `Reduce` / `Last` read a fault-free stream to its end; `One` stops after the
second item (`min 2 len` pulls). -/
theorem s_collect_pulls (l : List α) :
    ∃ F, ∀ fuel, F ≤ fuel → (Stream.collect Stream.src true fuel (ofList l)).2.pulled = l.length :=
  StreamDen.collect_cost (cost := fun s : Stream.Src α => s.pulled) (fun _ => rfl)
    (ofList_sden (soft := strict) false (fun _ => rfl) (fun _ => rfl) l)

theorem s_reduce_pulls {γ : Type v} (f : γ → α → Except Err γ) (hok : ∀ acc a, ∃ acc', f acc a = .ok acc') (l : List α) :
    ∃ F, ∀ fuel, F ≤ fuel → ∀ init, (Stream.reduce Stream.src f true fuel init (ofList l)).2.pulled = l.length :=
  StreamDen.reduce_cost (cost := fun s : Stream.Src α => s.pulled) (fun _ => rfl) f hok
    (ofList_sden (soft := strict) false (fun _ => rfl) (fun _ => rfl) l)

theorem s_last_pulls (n : Nat) (l : List α) :
    ∃ F, ∀ fuel, F ≤ fuel → (Stream.last Stream.src (n : Int) true fuel (ofList l)).2.pulled = l.length :=
  StreamDen.last_cost (cost := fun s : Stream.Src α => s.pulled) n (fun _ => rfl)
    (ofList_sden (soft := strict) false (fun _ => rfl) (fun _ => rfl) l)

theorem s_one_pulls (l : List α) :
    ∃ F, ∀ fuel, F ≤ fuel → (Stream.one Stream.src true fuel (ofList l)).2.pulled = min 2 l.length := by
  obtain ⟨F, hF⟩ := StreamDen.one_cost (cost := fun s : Stream.Src α => s.pulled) (fun _ => rfl)
    (ofList_sden (soft := strict) false (fun _ => rfl) (fun _ => rfl) l)
  refine ⟨F, fun fuel hf => ?_⟩
  rw [hF fuel hf]
  match l with
  | [] => rfl
  | [_] => rfl
  | _ :: _ :: r => simp [IterDen.annot, IterDen.oneCost]

example : (Stream.one Stream.src true 5 (ofList [4, 5, 6])).2.pulled = 2 := by decide

end stream

section streamPeek
open Juniper.Model.Stream Juniper.Proofs.StreamDen
variable {α : Type}

/-- **`stream.WithPeek` under any interleaving of `Peek` and `Next` and any per-call contexts**
(fault-free source): the answers are those of the abstract machine `(j, has)` — every call answers the
item after those consumed by the earlier `Next`s; a call whose context has expired answers the context
error and changes nothing, unless an item is buffered, which is then served — and the source has been
pulled for `j + [an item is buffered]` items. -/
theorem s_peek_interleave (l : List α) (ops : List SPeekOp) :
    (speekRun Stream.src ops ⟨ofList l, none⟩).1 = speekAnswers l ops (0, false) ∧
    (speekRun Stream.src ops ⟨ofList l, none⟩).2.inner.pulled =
      (speekTrack l.length ops (0, false)).1 + (speekTrack l.length ops (0, false)).2.toNat := s_peek_interleave' l ops

/-- … with live contexts, in closed form: `min len (#Next + [the last call was a Peek])`, as for the iterator. -/
theorem s_peek_interleave_live (l : List α) (ops : List IterDen.PeekOp) :
    (speekRun Stream.src (ops.map liveOp) ⟨ofList l, none⟩).2.inner.pulled =
      min l.length (IterDen.peekNexts ops + if ops.getLast? = some .peek then 1 else 0) := s_peek_interleave_live' l ops

example : speekAnswers [7, 8] [.peek true, .next false, .peek false, .next true, .peek true] (0, false)
    = [.item 7, .item 7, .err .ctx, .item 8, .end_] ∧
    speekTrack 2 [.peek true, .next false, .peek false, .next true, .peek true] (0, false) = (2, false) := by decide

end streamPeek

/-! ### iterator and stream versions agree (fault-free) -/

section agree
open Juniper.Proofs.IterDen Juniper.Proofs.StreamDen
variable {α β : Type v}

theorem scriptItems_items (p : Nat) (l : List α) : scriptItems true p (l.map Stream.Ev.item) = annot p l := by
  induction l generalizing p with
  | nil => rfl
  | cons a l ih => simp [scriptItems, annot, ih]

theorem scriptTerm_items (p : Nat) (l : List α) : scriptTerm true p (l.map Stream.Ev.item) = .end_ (p + l.length) := by
  induction l generalizing p with
  | nil => rfl
  | cons a l ih => simp [scriptTerm, ih]; omega

/-- A fault-free stream source and the slice iterator yield the same annotated sequence. -/
theorem iter_stream_agree_source (l : List α) :
    Den Iter.src (fun s : Iter.Src α => s.pulled) (Iter.Src.of l) (annot 0 l) l.length ∧
    SDen Stream.Err.soft Stream.src (fun s : Stream.Src α => s.pulled) (Stream.Src.of (l.map Stream.Ev.item))
      (annot 0 l) (.end_ l.length) := by
  refine ⟨slice_denotes l, ?_⟩
  have := source_denotes l
  rwa [scriptItems_items, scriptTerm_items, Nat.zero_add] at this

/-- `Filter`: iterator and stream versions yield the same items at the same pull counts. -/
theorem iter_stream_agree_filter (keep : α → Bool) (l : List α) :
    ∃ L, Den (Iter.filter keep Iter.src) (fun s : Iter.Src α => s.pulled) (Iter.Src.of l) L l.length ∧
      SDen Stream.Err.soft (Stream.filter (fun a => .ok (keep a)) Stream.src) (fun st => st.inner.pulled)
        ⟨Stream.Src.of (l.map Stream.Ev.item)⟩ L (.end_ l.length) := by
  refine ⟨(annot 0 l).filter fun p => keep p.1, filter_den keep (slice_denotes l), ?_⟩
  have h := filter_sden (soft := Stream.Err.soft) (fun a => Except.ok (keep a)) (by intro a e h; cases h)
    (iter_stream_agree_source l).2
  have e : ∀ (L : List (α × Nat)) (t : Term),
      filterS (fun a => Except.ok (keep a)) L t = (L.filter fun p => keep p.1, t) := by
    intro L t
    induction L with
    | nil => rfl
    | cons p L ih =>
      obtain ⟨a, c⟩ := p
      simp only [filterS, List.filter_cons]
      cases keep a <;> simp [ih]
  rw [e] at h
  exact h

/-- `Map`: iterator and stream versions agree. -/
theorem iter_stream_agree_map (f : α → β) (l : List α) :
    ∃ L, Den (Iter.map f Iter.src) (fun s : Iter.Src α => s.pulled) (Iter.Src.of l) L l.length ∧
      SDen Stream.Err.soft (Stream.map (fun a => .ok (f a)) Stream.src) (fun st => st.inner.pulled)
        ⟨Stream.Src.of (l.map Stream.Ev.item)⟩ L (.end_ l.length) := by
  refine ⟨(annot 0 l).map fun p => (f p.1, p.2), map_den f (slice_denotes l), ?_⟩
  have h := map_sden (soft := Stream.Err.soft) (fun a => Except.ok (f a)) (by intro a e h; cases h)
    (iter_stream_agree_source l).2
  have e : ∀ (L : List (α × Nat)) (t : Term),
      mapS (fun a => Except.ok (f a)) L t = (L.map fun p => (f p.1, p.2), t) := by
    intro L t
    induction L with
    | nil => rfl
    | cons p L ih => obtain ⟨a, c⟩ := p; simp [mapS, ih]
  rw [e] at h
  exact h

/-- `Chunk`: iterator and stream versions agree (same chunks, same pull counts). -/
theorem iter_stream_agree_chunk (n : Nat) (l : List α) :
    ∃ L, Den (Iter.chunk (n : Int) Iter.src) (fun st => st.inner.pulled) ⟨Iter.Src.of l, []⟩ L l.length ∧
      SDen Stream.Err.soft (Stream.chunk (n : Int) Stream.src) (fun st => st.inner.pulled)
        ⟨Stream.Src.of (l.map Stream.Ev.item), []⟩ L (.end_ l.length) := by
  refine ⟨chunkGoA n [] (annot 0 l) l.length, chunk_den n (slice_denotes l) [], ?_⟩
  have h := chunk_sden (soft := Stream.Err.soft) n (iter_stream_agree_source l).2 []
  have e : ∀ (pend : List α) (L : List (α × Nat)) (k : Nat), chunkGoS n pend L (.end_ k) = chunkGoA n pend L k := by
    intro pend L k
    induction L generalizing pend with
    | nil => rfl
    | cons p L ih => obtain ⟨a, c⟩ := p; simp [chunkGoS, chunkGoA, ih]
  rw [e] at h
  exact h

/-- `CompactFunc`: iterator and stream versions agree. -/
theorem iter_stream_agree_compact (eq : α → α → Bool) (l : List α) :
    ∃ L, Den (Iter.compact eq Iter.src) (fun st => st.inner.pulled) ⟨Iter.Src.of l, true, none⟩ L l.length ∧
      SDen Stream.Err.soft (Stream.compact eq Stream.src) (fun st => st.inner.pulled)
        ⟨Stream.Src.of (l.map Stream.Ev.item), true, none⟩ L (.end_ l.length) :=
  ⟨_, compact_den eq (slice_denotes l) none, compact_sden eq (iter_stream_agree_source l).2 none⟩

/-- `First`: iterator and stream versions agree (same items, same pull counts, the end without a further pull). -/
theorem iter_stream_agree_first (n : Nat) (l : List α) :
    ∃ L e, Den (Iter.first Iter.src) (fun st => st.inner.pulled) ⟨Iter.Src.of l, n, false⟩ L e ∧
      SDen Stream.Err.soft (Stream.first Stream.src) (fun st => st.inner.pulled)
        ⟨Stream.Src.of (l.map Stream.Ev.item), n⟩ L (.end_ e) := by
  refine ⟨(annot 0 l).take n, firstEnd 0 n (annot 0 l) l.length, ?_, ?_⟩
  · simpa [Iter.Src.of] using (first_den (slice_denotes l)).1 (n : Int)
  · have h := first_sden (soft := Stream.Err.soft) (iter_stream_agree_source l).2 (n : Int)
    have e : ∀ (c0 k : Nat) (L : List (α × Nat)) (e : Nat),
        firstTermS c0 k L (.end_ e) = .end_ (firstEnd c0 k L e) := by
      intro c0 k L
      induction k generalizing c0 L with
      | zero => intro e; rfl
      | succ k ih =>
        intro e
        cases L with
        | nil => rfl
        | cons p L => obtain ⟨a, c⟩ := p; exact ih c L e
    rw [e] at h
    simpa [Stream.Src.of] using h

/-- `While`: iterator and stream versions agree. -/
theorem iter_stream_agree_while (f : α → Bool) (l : List α) :
    ∃ L e, Den (Iter.while_ f Iter.src) (fun st => st.inner.pulled) ⟨Iter.Src.of l, false⟩ L e ∧
      SDen Stream.Err.soft (Stream.while_ (fun a => .ok (f a)) Stream.src) (fun st => st.inner.pulled)
        ⟨Stream.Src.of (l.map Stream.Ev.item), none, false⟩ L (.end_ e) := by
  refine ⟨(annot 0 l).takeWhile fun p => f p.1, whileEnd f (annot 0 l) l.length, while_den f (slice_denotes l), ?_⟩
  have h := while_sden (soft := Stream.Err.soft) (fun a => Except.ok (f a)) (by intro a e h; cases h)
    (iter_stream_agree_source l).2
  have e : ∀ (L : List (α × Nat)) (k : Nat),
      whileS (fun a => Except.ok (f a)) L (.end_ k) = (L.takeWhile fun p => f p.1, .end_ (whileEnd f L k)) := by
    intro L k
    induction L with
    | nil => rfl
    | cons p L ih =>
      obtain ⟨a, c⟩ := p
      simp only [whileS, List.takeWhile_cons, whileEnd]
      cases f a <;> simp [ih]
  rw [e] at h
  exact h

/-- the two proof-side list functions of `Runs` coincide on a stream that ends -/
theorem runsStart_agree (same : α → α → Bool) (take : Option Nat) (L : List (α × Nat)) (e : Nat) :
    runsStartS same take L (.end_ e) = runsStartA same take L e := by
  have key : ∀ (mode : Option (List α)) (prev : α) (L : List (α × Nat)),
      runsGoS same take mode prev L (.end_ e) = runsGoA same take mode prev L e := by
    intro mode prev L
    induction L generalizing mode prev with
    | nil => cases mode <;> rfl
    | cons p L ih =>
      obtain ⟨b, c⟩ := p
      cases mode <;> simp [runsGoS, runsGoA, ih, IterDen.reached]
  cases L with
  | nil => rfl
  | cons p L =>
    obtain ⟨b, c⟩ := p
    simp [runsStartS, runsNewS, runsStartA, key, IterDen.reached]

/-- `Runs` under the documented protocol (any `take`, reflexive `same`): the iterator machine and the
stream machine over the same list yield the same runs at the same pull counts (and both are `Seq.runs`,
see `runs_denotes` / `s_runs_spec`). -/
theorem iter_stream_agree_runs (same : α → α → Bool) (hrefl : ∀ a, same a a = true) (take : Option Nat)
    (closeInner : Bool) (l : List α) :
    ∃ L, Den (Iter.runsProto same take Iter.src) (IterDen.rcost fun s : Iter.Src α => s.pulled)
        ⟨⟨⟨Iter.Src.of l, none⟩, 0, none⟩, none⟩ L l.length ∧
      SDen Stream.Err.soft (Stream.runsProto same take closeInner Stream.src)
        (StreamDen.rcost fun s : Stream.Src α => s.pulled) ⟨⟨⟨ofList l, none⟩, 0, none⟩, none⟩ L (.end_ l.length) := by
  refine ⟨runsStartA same take (annot 0 l) l.length, C07.runs_pulls same hrefl take l, ?_⟩
  have h := C07.s_runs_pulls same hrefl take closeInner l
  rwa [runsStart_agree] at h

/-- `Flatten`: iterator and stream versions yield the same items at the same (outer) pull counts. -/
theorem iter_stream_agree_flatten (ls : List (List α)) :
    ∃ L, Den (Iter.flatten Iter.src Iter.src) (fun st => st.outer.pulled) ⟨Iter.Src.of (ls.map Iter.Src.of), none⟩ L ls.length ∧
      SDen Stream.Err.soft (Stream.flatten Stream.src Stream.src) (fun st => st.outer.pulled)
        ⟨ofList (ls.map ofList), none, []⟩ L (.end_ ls.length) := by
  refine ⟨(annot 0 ls).flatMap fun p => p.1.map fun a => (a, p.2), ?_, C07.s_flatten_pulls ls⟩
  have h := flatten_den (mi := Iter.src) (fun s : Iter.Src α => s.rest) (slice_denotes (ls.map Iter.Src.of))
    (fun p _ => ⟨_, _, _, src_den p.1.rest p.1.calls p.1.pulled, annot_fst _ _⟩)
  rw [flatten_annot, List.length_map] at h
  exact h

/-- `stream.FlattenSlices` has no iterator namesake; it agrees with `iterator.Flatten` over slice
iterators (and with `stream.Flatten`, see `iter_stream_agree_flatten`): same items, same pull counts. -/
theorem iter_stream_agree_flattenSlices (ls : List (List α)) :
    ∃ L, Den (Iter.flatten Iter.src Iter.src) (fun st => st.outer.pulled) ⟨Iter.Src.of (ls.map Iter.Src.of), none⟩ L ls.length ∧
      SDen Stream.Err.soft (Stream.flattenSlices Stream.src) (fun st => st.inner.pulled) ⟨ofList ls, []⟩ L (.end_ ls.length) := by
  refine ⟨(annot 0 ls).flatMap fun p => p.1.map fun a => (a, p.2), ?_, C07.s_flattenSlices_pulls ls⟩
  have h := flatten_den (mi := Iter.src) (fun s : Iter.Src α => s.rest) (slice_denotes (ls.map Iter.Src.of))
    (fun p _ => ⟨_, _, _, src_den p.1.rest p.1.calls p.1.pulled, annot_fst _ _⟩)
  rw [flatten_annot, List.length_map] at h
  exact h

/-- **`iter_stream_agree_join_partial`**. Full statement: the iterator and the stream `Join` yield the same
items *at the same pull counts*. Proved: both yield the concatenation (values); the iterator's pull
counts are `join_pulls`, the stream machine's denotation lemma carries cost 0 (its pull counts are
checked by the harness only). -/
theorem iter_stream_agree_join_partial (ls : List (List α)) :
    ∃ L, L.map Prod.fst = ls.flatten ∧
      Den (Iter.join Iter.src) (fun _ => 0) (ls.map Iter.Src.of) L 0 ∧
      SDen Stream.Err.soft (Stream.join Stream.src) (fun _ => 0) ⟨ls.map ofList, []⟩ L (.end_ 0) := by
  refine ⟨ls.flatten.map fun a => (a, 0), by simp [Function.comp_def], ?_, ?_⟩
  · have h := join_den (m := Iter.src) (fun s : Iter.Src α => s.rest) (ls.map Iter.Src.of)
      (fun s _ => ⟨_, _, _, src_den s.rest s.calls s.pulled, annot_fst _ _⟩)
    rwa [flatMap_rest_of] at h
  · have h := join_sden (soft := Stream.Err.soft) srcD (ls.map ofList) (fun s hs => by
      obtain ⟨l, _, hl⟩ := List.mem_map.mp hs
      rw [← hl]
      exact srcD_hyp Stream.Err.soft (fun _ => rfl) (fun _ => rfl) l) []
    rwa [joinS_ended] at h

/-! reducers: an iterator and a stream (any machines, e.g. two pipelines) that denote the same list
return the same value -/

section reducers
variable {σ : Type u} {σ' : Type w}

/-- `Collect`. -/
theorem iter_stream_agree_collect {mi : Iter.IM σ α} {ms : Stream.SM σ' α} {ci : σ → Nat} {cs : σ' → Nat} {si : σ} {ss : σ'}
    {Li Ls : List (α × Nat)} {ei es : Nat} (hi : Den mi ci si Li ei) (hs : SDen strict ms cs ss Ls (.end_ es))
    (hL : Li.map Prod.fst = Ls.map Prod.fst) :
    ∃ F, ∀ fuel, F ≤ fuel → (Iter.collect mi fuel si).1 = some (Li.map Prod.fst) ∧
      (Stream.collect ms true fuel ss).1 = .ok (Li.map Prod.fst) := by
  obtain ⟨F1, h1⟩ := collect_den hi
  obtain ⟨F2, h2⟩ := collect_sden hs
  exact ⟨max F1 F2, fun fuel hf => ⟨h1 fuel (by omega), by rw [h2 fuel (by omega), hL]; rfl⟩⟩

/-- `Reduce` (the stream callback being the total function `f`). -/
theorem iter_stream_agree_reduce {mi : Iter.IM σ α} {ms : Stream.SM σ' α} {ci : σ → Nat} {cs : σ' → Nat} {si : σ} {ss : σ'}
    {Li Ls : List (α × Nat)} {ei es : Nat} (f : β → α → β) (hi : Den mi ci si Li ei)
    (hs : SDen strict ms cs ss Ls (.end_ es)) (hL : Li.map Prod.fst = Ls.map Prod.fst) :
    ∃ F, ∀ fuel, F ≤ fuel → ∀ init, (Iter.reduce mi f fuel init si).1 = some ((Li.map Prod.fst).foldl f init) ∧
      (Stream.reduce ms (fun acc a => .ok (f acc a)) true fuel init ss).1 = .ok ((Li.map Prod.fst).foldl f init) := by
  obtain ⟨F1, h1⟩ := reduce_den f hi
  obtain ⟨F2, h2⟩ := reduce_sden (fun acc a => Except.ok (f acc a)) hs
  exact ⟨max F1 F2, fun fuel hf init => ⟨(h1 fuel (by omega) init).1, by rw [h2 fuel (by omega) init, foldRes_ok, hL]⟩⟩

/-- `Last` (every `n ≥ 0`). -/
theorem iter_stream_agree_last {mi : Iter.IM σ α} {ms : Stream.SM σ' α} {ci : σ → Nat} {cs : σ' → Nat} {si : σ} {ss : σ'}
    {Li Ls : List (α × Nat)} {ei es : Nat} (n : Nat) (hi : Den mi ci si Li ei) (hs : SDen strict ms cs ss Ls (.end_ es))
    (hL : Li.map Prod.fst = Ls.map Prod.fst) :
    ∃ F, ∀ fuel, F ≤ fuel → ∃ v, (Iter.last mi (n : Int) fuel si).1 = .ok v ∧ (Stream.last ms (n : Int) true fuel ss).1 = .ok v := by
  obtain ⟨F1, h1⟩ := last_den n hi
  obtain ⟨F2, h2⟩ := last_sden n hs
  exact ⟨max F1 F2, fun fuel hf => ⟨_, h1 fuel (by omega), by rw [h2 fuel (by omega), hL]; rfl⟩⟩

/-- `One`: the iterator's `(item, ok)` is the stream's result read through `oneOpt`
(`ErrEmpty` / `ErrMoreThanOne` ↦ not ok). -/
theorem iter_stream_agree_one {mi : Iter.IM σ α} {ms : Stream.SM σ' α} {ci : σ → Nat} {cs : σ' → Nat} {si : σ} {ss : σ'}
    {Li Ls : List (α × Nat)} {ei es : Nat} (hi : Den mi ci si Li ei) (hs : SDen strict ms cs ss Ls (.end_ es))
    (hL : Li.map Prod.fst = Ls.map Prod.fst) :
    ∃ F, ∀ fuel, F ≤ fuel → (Iter.one mi fuel si).1 = some (oneOpt (Stream.one ms true fuel ss).1) := by
  obtain ⟨F1, h1⟩ := one_den hi
  obtain ⟨F2, h2⟩ := one_sden hs
  exact ⟨max F1 F2, fun fuel hf => by rw [h1 fuel (by omega), h2 fuel (by omega), oneRes_opt, hL]; rfl⟩

/-- non-vacuity: the slice iterator and the fault-free scripted stream over the same list qualify -/
example (l : List α) : ∃ (Li Ls : List (α × Nat)) (ei es : Nat),
    Den Iter.src (fun s : Iter.Src α => s.pulled) (Iter.Src.of l) Li ei ∧
    SDen strict Stream.src (fun s : Stream.Src α => s.pulled) (ofList l) Ls (.end_ es) ∧
    Li.map Prod.fst = Ls.map Prod.fst :=
  ⟨_, _, _, _, slice_denotes l, ofList_sden (soft := strict) false (fun _ => rfl) (fun _ => rfl) l, rfl⟩

example : (Iter.one Iter.src 5 (Iter.Src.of [7])).1 = some (oneOpt (Stream.one Stream.src true 5 (ofList [7])).1) := by
  decide

end reducers

end agree

/-! ### the xslices counterparts agree with the iterator versions -/

section xslices
open Juniper.Proofs.IterDen Juniper.Proofs.XS
variable {α β : Type}

/-- an iterator state yields exactly the list `l` (annotations dropped) -/
def Yields {σ : Type u} (m : Iter.IM σ α) (s : σ) (l : List α) : Prop :=
  ∃ (cost : σ → Nat) (L : List (α × Nat)) (e : Nat), Den m cost s L e ∧ L.map Prod.fst = l

theorem yields_slice (l : List α) : Yields Iter.src (Iter.Src.of l) l :=
  ⟨_, _, _, slice_denotes l, annot_fst 0 l⟩

/-! The `XSlices.*` functions are executed by `driver comb` and compared with the real `xslices`
functions by `harness/cmd/c07` (modes `xs` and `agree`); `Chunk` / `Runs` are the Go loops over
regenerated bounds, the others are the C19 models (regenerated wrapper bodies / loop bodies,
`slices.*` by contract). `zero` is the zero value of the element type (it never shows). -/

/-- `Chunk` (sizes ≥ 1): `xslices.Chunk` returns the chunks the iterator yields. -/
theorem xslices_agree_chunk (n : Nat) (hn : 1 ≤ n) (l : List α) :
    XSlices.chunk l (n : Int) = some (Seq.chunk n l) ∧
    Yields (Iter.chunk (n : Int) Iter.src) ⟨Iter.Src.of l, []⟩ (Seq.chunk n l) :=
  ⟨chunk_eq l n hn, _, _, _, chunk_den n (slice_denotes l) [], by rw [chunkGoA_fst, annot_fst]; rfl⟩

/-- `Runs` (reflexive `same`): `xslices.Runs` returns the runs the iterator yields under the documented protocol. -/
theorem xslices_agree_runs (same : α → α → Bool) (hrefl : ∀ a, same a a = true) (l : List α) :
    XSlices.runs same l = some (Seq.runs same l) ∧
    Yields (Iter.runsProto same none Iter.src) ⟨⟨⟨Iter.Src.of l, none⟩, 0, none⟩, none⟩ (Seq.runs same l) :=
  ⟨runs_eq same l, _, _, _, (runs_den same hrefl none (slice_denotes l)).2.2 0,
    by rw [runsStartA_all_fst, annot_fst]⟩

theorem compactGo_fst (eq : α → α → Bool) (P : Option (α × Nat)) (L : List (α × Nat)) :
    (Seq.compactGo (fun p q => eq p.1 q.1) P L).map Prod.fst = Seq.compactGo eq (P.map Prod.fst) (L.map Prod.fst) := by
  induction L generalizing P with
  | nil => cases P <;> rfl
  | cons x L ih =>
    cases P with
    | none => simp [Seq.compactGo, ih]
    | some p =>
      simp only [Seq.compactGo, Option.map_some, List.map_cons]
      split
      · exact ih _
      · simp [ih]

/-- `CompactFunc` with an equivalence: `xslices.CompactFunc` (= `slices.CompactFunc(slices.Clone(s), eq)`,
which compares neighbours) returns what the iterator (which compares with the last item kept) yields. -/
theorem xslices_agree_compact (zero : α) (eq : α → α → Bool) (h : Seq.Equiv eq) (l : List α) :
    XSlices.compactFunc zero eq l = Seq.compact eq l ∧
    Yields (Iter.compact eq Iter.src) (Iter.compactInit (Iter.Src.of l)) (Seq.compact eq l) := by
  refine ⟨compactFunc_eq zero eq h l, _, _, _, compact_den eq (slice_denotes l) none, ?_⟩
  rw [compactGo_fst, annot_fst]
  rfl

/-- `Filter`: `xslices.Filter` (= `slices.DeleteFunc(slices.Clone(s), !keep)`) keeps what the iterator yields. -/
theorem xslices_agree_filter (zero : α) (keep : α → Bool) (l : List α) :
    XSlices.filter zero keep l = l.filter keep ∧ Yields (Iter.filter keep Iter.src) (Iter.Src.of l) (l.filter keep) := by
  refine ⟨filter_eq zero keep l, _, _, _, filter_den keep (slice_denotes l), ?_⟩
  have : ∀ L : List (α × Nat), (L.filter fun p => keep p.1).map Prod.fst = (L.map Prod.fst).filter keep := by
    intro L
    induction L with
    | nil => rfl
    | cons p L ih => simp only [List.filter_cons, List.map_cons]; split <;> simp [ih]
  rw [this, annot_fst]

/-- `Map`: the loop of `xslices.Map` never panics and returns what the iterator yields. -/
theorem xslices_agree_map (zero : β) (f : α → β) (l : List α) :
    XSlices.map zero f l = some (l.map f) ∧ Yields (Iter.map f Iter.src) (Iter.Src.of l) (l.map f) := by
  refine ⟨map_eq zero f l, _, _, _, map_den f (slice_denotes l), ?_⟩
  rw [List.map_map]
  have : (Prod.fst ∘ fun (p : α × Nat) => (f p.1, p.2)) = f ∘ Prod.fst := rfl
  rw [this, ← List.map_map, annot_fst]

/-- `Join`: the two loops of `xslices.Join` never panic and return what the iterator yields. -/
theorem xslices_agree_join (zero : α) (ls : List (List α)) :
    XSlices.join zero ls = some ls.flatten ∧ Yields (Iter.join Iter.src) (ls.map Iter.Src.of) ls.flatten := by
  refine ⟨join_eq zero ls, _, _, _, join_den (fun s => s.rest) (ls.map Iter.Src.of) ?_, ?_⟩
  · intro s hs
    simp only [List.mem_map] at hs
    obtain ⟨l, _, rfl⟩ := hs
    exact ⟨_, _, _, slice_denotes l, annot_fst 0 l⟩
  · rw [List.map_map]
    have : (Prod.fst ∘ fun (a : α) => (a, 0)) = id := rfl
    rw [this, List.map_id, List.flatMap_def, List.map_map]
    congr 1
    induction ls with
    | nil => rfl
    | cons l ls ih => simp [Iter.Src.of, ih]

/-- `Reduce`: the loop of `xslices.Reduce` is the left fold `iterator.Reduce` computes. -/
theorem xslices_agree_reduce (zero : β) (f : β → α → β) (init : β) (l : List α) :
    XSlices.reduce zero f init l = l.foldl f init ∧
    ∃ F, ∀ fuel, F ≤ fuel → (Iter.reduce Iter.src f fuel init (Iter.Src.of l)).1 = some (l.foldl f init) := by
  refine ⟨XS.reduce_eq zero f init l, ?_⟩
  obtain ⟨F, hF⟩ := reduce_den f (slice_denotes l)
  exact ⟨F, fun fuel hf => by have := (hF fuel hf init).1; rwa [annot_fst] at this⟩

/-- `Repeat` (`n ≥ 0`): `xslices.Repeat` returns what `iterator.Repeat` yields. -/
theorem xslices_agree_repeat (zero a : α) (n : Nat) (hn : (n : Int) ≤ Stdlib.allocLimit) :
    XSlices.repeat_ zero a (n : Int) = some (List.replicate n a) ∧
    Yields (Iter.repeat_ a) (Iter.repeatInit (n : Int)) (List.replicate n a) := by
  refine ⟨by rw [repeat_eq]; simp; omega, _, _, _, repeat_denotes a (n : Int), ?_⟩
  simp

/-- `Compact` (comparable elements): `xslices.Compact` (= `slices.Compact(slices.Clone(s))`) returns what
`iterator.Compact` (the wrapper) yields. -/
theorem xslices_agree_compact_eq [DecidableEq α] (zero : α) (l : List α) :
    XSlices.compact zero l = Seq.compact (fun a b => decide (a = b)) l ∧
    Yields (Iter.compactEq Iter.src) (Iter.compactInit (Iter.Src.of l))
      (Seq.compact (fun a b => decide (a = b)) l) := by
  have h := xslices_agree_compact zero (fun a b => decide (a = b))
    ⟨fun a => by simp, fun a b h => by simp at h ⊢; exact h.symm, fun a b c h1 h2 => by simp at h1 h2 ⊢; exact h1.trans h2⟩ l
  rw [Sources.icompactEq_eq]
  exact ⟨by rw [compact_items]; exact h.1, h.2⟩

/-- `Flatten` of slice iterators yields what `xslices.Join` returns. -/
theorem xslices_agree_flatten (zero : α) (ls : List (List α)) :
    XSlices.join zero ls = some ls.flatten ∧
    Yields (Iter.flatten Iter.src Iter.src) ⟨Iter.Src.of (ls.map Iter.Src.of), none⟩ ls.flatten := by
  refine ⟨join_eq zero ls, _, _, _, flatten_den (mi := Iter.src) (fun s : Iter.Src α => s.rest) (slice_denotes (ls.map Iter.Src.of))
    (fun p _ => ⟨_, _, _, src_den p.1.rest p.1.calls p.1.pulled, annot_fst _ _⟩), ?_⟩
  have e : ∀ (p : Nat) (ls : List (List α)),
      ((annot p (ls.map Iter.Src.of)).flatMap fun q => q.1.rest.map fun a => (a, q.2)).map Prod.fst = ls.flatten := by
    intro p ls
    induction ls generalizing p with
    | nil => rfl
    | cons l ls ih => simp [annot, Iter.Src.of, ih, Function.comp_def] at ih ⊢
  exact e 0 ls

/-- `Equal` (two slices): `xslices.Equal` (= `slices.Equal`) = `iterator.Equal` on the two slice iterators. -/
theorem xslices_agree_equal [DecidableEq α] (a b : List α) :
    ∃ F, ∀ fuel, F ≤ fuel → ∀ rounds, a.length + 1 ≤ rounds →
      (Iter.equal Iter.src fuel rounds [Iter.Src.of a, Iter.Src.of b]).1 = some (XSlices.equal a b) := by
  obtain ⟨F, hF⟩ := equal_den a (Iter.Src.of a) [Iter.Src.of b] [b]
    ⟨_, _, _, slice_denotes a, annot_fst 0 a⟩ (.cons ⟨_, _, _, slice_denotes b, annot_fst 0 b⟩ .nil)
  refine ⟨F, fun fuel hf rounds hr => ?_⟩
  rw [hF fuel hf rounds hr, XS.equal_eq]
  simp only [List.mem_singleton, forall_eq]
  congr 1
  exact decide_eq_decide.mpr ⟨fun h => h.symm, fun h => h.symm⟩

example : XSlices.equal [1, 2] [1, 2] = true ∧ XSlices.equal [1, 2] [1] = false ∧
    XSlices.reduce 0 (fun acc a => acc * 3 + a) 0 [1, 2] = 5 ∧ XSlices.compact 0 [1, 1, 2, 1] = [1, 2, 1] ∧
    XSlices.filter 0 (fun n => n % 2 == 0) [1, 2, 4] = [2, 4] ∧ XSlices.join 0 [[1], [], [2, 3]] = some [1, 2, 3] := by decide

end xslices

end Juniper.Props.C07
