import Juniper.Model.Iter
import Juniper.Model.Stream
import Juniper.Model.XSlices
import Juniper.Spec.Seq
/-! # C07 (placeholder, replaced in stage 2) -/
namespace Juniper.Props.C07
open Juniper.Gen.Comb

/-- every reducer defers Close (regenerated presence facts) -/
theorem reducers_defer_close :
    stCollectDefersClose = true ∧ stLastDefersClose = true ∧ stOneDefersClose = true ∧
    stReduceDefersClose = true ∧ sampleStreamDefersClose = true := by decide

end Juniper.Props.C07
