import Juniper.Proofs.TreeGet
/-!
# C01 — tree.Map/Set answer every call exactly like an ideal sorted map (property theorems)

Only property theorems and their non-vacuity examples live here; helper lemmas are in
`Juniper/Proofs/Tree*.lean`.
-/
namespace Juniper.Props.C01
open Juniper.Gen.Tree Juniper.Model.BTree Juniper.Proofs.Tree

variable {K : Type}

/-- `xsort.LessCompare` (the generated closure body) turns a strict weak order given as `less` into a
three-way comparison that is a strict weak order in the sense the B-tree relies on: `NewMap(less)` and
`NewMapCmp(cmp)` therefore build the same kind of tree. -/
theorem lessCompare_transCmp (less : K → K → Bool) (h : StrictWeakLess less) :
    StrictWeak (lessCmp less) := by
  have asym : ∀ a b, less a b = true → less b a = false := by
    intro a b hab
    cases hba : less b a with
    | false => rfl
    | true => have := h.trans a b a hab hba; rw [h.irrefl] at this; cases this
  have neg : ∀ a b c, less b a = false → less c b = false → less c a = false := by
    intro a b c hba hcb
    cases hca : less c a with
    | false => rfl
    | true =>
      cases hbc : less b c with
      | true => have := h.trans b c a hbc hca; rw [hba] at this; cases this
      | false =>
        cases hab : less a b with
        | true => have := h.trans c a b hca hab; rw [hcb] at this; cases this
        | false => have := (h.incomp_trans a b c hab hba hbc hcb).2; rw [hca] at this; cases this
  constructor
  · intro a b
    unfold lessCmp lessCompare
    cases hab : less a b <;> cases hba : less b a <;> simp
    have := asym a b hab; rw [hba] at this; cases this
  · intro a b c
    unfold lessCmp lessCompare
    intro h1 h2
    have hba : less b a = false := by
      cases hab : less a b <;> cases hba : less b a <;> simp_all
    have hcb : less c b = false := by
      cases hbc : less b c <;> cases hcb : less c b <;> simp_all
    have hca := neg a b c hba hcb
    cases hac : less a c <;> simp [hca]

/-- non-vacuity: the natural `<` on `Int` is a strict weak `less`. -/
example : StrictWeakLess (fun a b : Int => decide (a < b)) :=
  ⟨by simp, by intro a b c; simp; omega, by intro a b c; simp; omega⟩

/-- the comparison computed by `LessCompare` has exactly the sign the order dictates. -/
theorem lessCompare_sign (less : K → K → Bool) (a b : K) :
    (lessCmp less a b < 0 ↔ less a b = true) ∧
    (lessCmp less a b = 0 ↔ (less a b = false ∧ less b a = false)) := by
  unfold lessCmp lessCompare
  cases hab : less a b <;> cases hba : less b a <;> simp

/-- `Map` and `Set` are handles: a struct of exactly one pointer field with value receivers whose
methods forward to the shared `btree` — a copy denotes the same collection. -/
theorem map_set_are_handles :
    mapIsHandle = true ∧ setIsHandle = true ∧ mapForwards = true ∧ setForwards = true := by decide

variable {V : Type}

/-- `Put` on a well-formed tree does what the ideal sorted map does: the in-order contents afterwards
are `sput` of the contents before (value of the equivalent key replaced, the stored key kept; else the
entry inserted in order), and the tree stays well formed. -/
theorem put_refines (cmp : K → K → Int) (hc : StrictWeak cmp) (t : Tree K V) (k : K) (v : V) (hw : WF cmp t) :
    ∃ t', put cmp t k v = some t' ∧ WF cmp t' ∧ toList t'.root = sput cmp k v (toList t.root) :=
  put_refines_wf hc t k v hw

/-- `Len` is the number of distinct keys stored. -/
theorem len_refines (cmp : K → K → Int) (t : Tree K V) (hw : WF cmp t) : len t = (toList t.root).length :=
  hw.size

/-- `Delete` on a well-formed tree removes exactly the entry with the equivalent key (`serase`) and
keeps the tree well formed. (`hid`: the node objects are pairwise distinct.) -/
theorem delete_refines (cmp : K → K → Int) (hc : StrictWeak cmp) (t : Tree K V) (k : K) (hw : WF cmp t)
    (hid : (ids t.root).Nodup) :
    ∃ t', delete cmp t k = some t' ∧ WF cmp t' ∧ toList t'.root = serase cmp k (toList t.root) :=
  delete_refines_wf hc t k hw hid

/-- `Get` returns the value last put under an equivalent key (`none` = the zero value). -/
theorem get_refines (cmp : K → K → Int) (hc : StrictWeak cmp) (t : Tree K V) (k : K) (hw : WF cmp t) :
    get cmp t k = (sget cmp k (toList t.root)).map (·.2) := by
  obtain ⟨h, hbal, _, _⟩ := hw.bal
  unfold Juniper.Model.BTree.get
  rw [lookup_refines hc k t.root h hbal hw.sorted]

theorem contains_refines (cmp : K → K → Int) (hc : StrictWeak cmp) (t : Tree K V) (k : K) (hw : WF cmp t) :
    contains cmp t k = (sget cmp k (toList t.root)).isSome := by
  obtain ⟨h, hbal, _, _⟩ := hw.bal
  unfold contains
  rw [lookup_refines hc k t.root h hbal hw.sorted]

/-- `First` is the least entry (`none` = zero values, exactly when the map is empty). -/
theorem first_refines (cmp : K → K → Int) (t : Tree K V) (hw : WF cmp t) : first t = (toList t.root).head? := by
  obtain ⟨h, hbal, hmax, hroot⟩ := hw.bal
  unfold first
  by_cases h0 : t.root.n = 0
  · have hh : h = 0 := by
      cases h with
      | zero => rfl
      | succ h => have := hroot (by omega); omega
    subst hh
    obtain ⟨⟨id, kvs, kids⟩, size, gen, nextId⟩ := t
    have := bal_zero.mp hbal
    simp only at this h0 ⊢
    subst this
    have hk : kvs = [] := by simpa [node_n] using h0
    subst hk
    simp [firstEmpty, node_n]
  · have hn : 1 ≤ t.root.n := by
      have : 0 ≤ t.root.n := by simp [Node.n]
      omega
    simp only [firstEmpty, h0, decide_false, Bool.false_eq_true, if_false]
    exact ((first_leaf t.root h hbal hn).1).symm

/-- `Last` is the greatest entry. -/
theorem last_refines (cmp : K → K → Int) (t : Tree K V) (hw : WF cmp t) : last t = (toList t.root).getLast? := by
  obtain ⟨h, hbal, hmax, hroot⟩ := hw.bal
  unfold last
  by_cases h0 : t.root.n = 0
  · have hh : h = 0 := by
      cases h with
      | zero => rfl
      | succ h => have := hroot (by omega); omega
    subst hh
    obtain ⟨⟨id, kvs, kids⟩, size, gen, nextId⟩ := t
    have := bal_zero.mp hbal
    simp only at this h0 ⊢
    subst this
    have hk : kvs = [] := by simpa [node_n] using h0
    subst hk
    simp [lastEmpty, node_n]
  · have hn : 1 ≤ t.root.n := by
      have : 0 ≤ t.root.n := by simp [Node.n]
      omega
    simp only [lastEmpty, h0, decide_false, Bool.false_eq_true, if_false]
    exact ((last_leaf t.root h hbal hn).1).symm

end Juniper.Props.C01
