import Juniper.Proofs.TreeOps
import Juniper.Proofs.TreeIter
import Juniper.Proofs.TreeHandle
import Juniper.Proofs.TreeSpecAdequacy
/-!
# C01 — tree.Map/Set answer every call exactly like an ideal sorted map (property theorems)

Only property theorems and their non-vacuity examples live here; helper lemmas are in
`Juniper/Proofs/Tree*.lean`.
-/
namespace Juniper.Props.C01
open Juniper.Gen.Tree Juniper.Model.BTree Juniper.Proofs.Tree
open Juniper.Model.TreeHandle Juniper.Proofs.TreeHandle

variable {K : Type}

/-- `xsort.LessCompare` (the generated closure body) turns a strict weak order given as `less` into a
three-way comparison that is a strict weak order in the sense the B-tree relies on: `NewMap(less)` and
`NewMapCmp(cmp)` therefore build the same kind of tree. -/
theorem lessCompare_transCmp (less : K → K → Bool) (h : StrictWeakLess less) :
    StrictWeak (lessCmp less) := by
  have asym : ∀ a b, less a b = true → less b a = false := by
    intro a b hab
    cases hba : less b a with
    | false => rfl
    | true => have := h.trans a b a hab hba; rw [h.irrefl] at this; cases this
  have neg : ∀ a b c, less b a = false → less c b = false → less c a = false := by
    intro a b c hba hcb
    cases hca : less c a with
    | false => rfl
    | true =>
      cases hbc : less b c with
      | true => have := h.trans b c a hbc hca; rw [hba] at this; cases this
      | false =>
        cases hab : less a b with
        | true => have := h.trans c a b hca hab; rw [hcb] at this; cases this
        | false => have := (h.incomp_trans a b c hab hba hbc hcb).2; rw [hca] at this; cases this
  constructor
  · intro a b
    unfold lessCmp lessCompare
    cases hab : less a b <;> cases hba : less b a <;> simp
    have := asym a b hab; rw [hba] at this; cases this
  · intro a b c
    unfold lessCmp lessCompare
    intro h1 h2
    have hba : less b a = false := by
      cases hab : less a b <;> cases hba : less b a <;> simp_all
    have hcb : less c b = false := by
      cases hbc : less b c <;> cases hcb : less c b <;> simp_all
    have hca := neg a b c hba hcb
    cases hac : less a c <;> simp [hca]

/-- non-vacuity: the natural `<` on `Int` is a strict weak `less`. -/
example : StrictWeakLess (fun a b : Int => decide (a < b)) :=
  ⟨by simp, by intro a b c; simp; omega, by intro a b c; simp; omega⟩

/-- the comparison computed by `LessCompare` has exactly the sign the order dictates. -/
theorem lessCompare_sign (less : K → K → Bool) (a b : K) :
    (lessCmp less a b < 0 ↔ less a b = true) ∧
    (lessCmp less a b = 0 ↔ (less a b = false ∧ less b a = false)) := by
  unfold lessCmp lessCompare
  cases hab : less a b <;> cases hba : less b a <;> simp

variable {V : Type}

/-- `Put` on a well-formed tree does what the ideal sorted map does: the in-order contents afterwards
are `sput` of the contents before (value of the equivalent key replaced, the stored key kept; else the
entry inserted in order), and the tree stays well formed. -/
theorem put_refines (cmp : K → K → Int) (hc : StrictWeak cmp) (t : Tree K V) (k : K) (v : V) (hw : WF cmp t) :
    ∃ t', put cmp t k v = some t' ∧ WF cmp t' ∧ toList t'.root = sput cmp k v (toList t.root) :=
  put_refines_wf hc t k v hw

/-- `Len` is the number of distinct keys stored. -/
theorem len_refines (cmp : K → K → Int) (t : Tree K V) (hw : WF cmp t) : len t = (toList t.root).length :=
  hw.size

/-- `Delete` on a well-formed tree removes exactly the entry with the equivalent key (`serase`) and
keeps the tree well formed. (`hid`: the node objects are pairwise distinct.) -/
theorem delete_refines (cmp : K → K → Int) (hc : StrictWeak cmp) (t : Tree K V) (k : K) (hw : WF cmp t)
    (hid : (ids t.root).Nodup) :
    ∃ t', delete cmp t k = some t' ∧ WF cmp t' ∧ toList t'.root = serase cmp k (toList t.root) :=
  delete_refines_wf hc t k hw hid

/-- `Get` returns the value last put under an equivalent key (`none` = the zero value). -/
theorem get_refines (cmp : K → K → Int) (hc : StrictWeak cmp) (t : Tree K V) (k : K) (hw : WF cmp t) :
    get cmp t k = (sget cmp k (toList t.root)).map (·.2) := by
  obtain ⟨h, hbal, _, _⟩ := hw.bal
  unfold Juniper.Model.BTree.get
  rw [lookup_refines hc k t.root h hbal hw.sorted]

theorem contains_refines (cmp : K → K → Int) (hc : StrictWeak cmp) (t : Tree K V) (k : K) (hw : WF cmp t) :
    contains cmp t k = (sget cmp k (toList t.root)).isSome := by
  obtain ⟨h, hbal, _, _⟩ := hw.bal
  unfold contains
  rw [lookup_refines hc k t.root h hbal hw.sorted]

/-- `First` is the least entry (`none` = zero values, exactly when the map is empty). -/
theorem first_refines (cmp : K → K → Int) (t : Tree K V) (hw : WF cmp t) : first t = (toList t.root).head? := by
  obtain ⟨h, hbal, hmax, hroot⟩ := hw.bal
  unfold first
  by_cases h0 : t.root.n = 0
  · have hh : h = 0 := by
      cases h with
      | zero => rfl
      | succ h => have := hroot (by omega); omega
    subst hh
    obtain ⟨⟨id, kvs, kids⟩, size, gen, nextId⟩ := t
    have := bal_zero.mp hbal
    simp only at this h0 ⊢
    subst this
    have hk : kvs = [] := by simpa [node_n] using h0
    subst hk
    simp [firstEmpty, node_n]
  · have hn : 1 ≤ t.root.n := by
      have : 0 ≤ t.root.n := by simp [Node.n]
      omega
    simp only [firstEmpty, h0, decide_false, Bool.false_eq_true, if_false]
    exact ((first_leaf t.root h hbal hn).1).symm

/-- `Last` is the greatest entry. -/
theorem last_refines (cmp : K → K → Int) (t : Tree K V) (hw : WF cmp t) : last t = (toList t.root).getLast? := by
  obtain ⟨h, hbal, hmax, hroot⟩ := hw.bal
  unfold last
  by_cases h0 : t.root.n = 0
  · have hh : h = 0 := by
      cases h with
      | zero => rfl
      | succ h => have := hroot (by omega); omega
    subst hh
    obtain ⟨⟨id, kvs, kids⟩, size, gen, nextId⟩ := t
    have := bal_zero.mp hbal
    simp only at this h0 ⊢
    subst this
    have hk : kvs = [] := by simpa [node_n] using h0
    subst hk
    simp [lastEmpty, node_n]
  · have hn : 1 ≤ t.root.n := by
      have : 0 ≤ t.root.n := by simp [Node.n]
      omega
    simp only [lastEmpty, h0, decide_false, Bool.false_eq_true, if_false]
    exact ((last_leaf t.root h hbal hn).1).symm

/-- `Range(lo, hi)` on a tree that is not modified meanwhile yields exactly the entries inside the
bounds — for all 9 pairs of `Included`/`Excluded`/`Unbounded` and any bound positions (inverted bounds
give the empty list) — once each, in ascending key order, with their current values. The seek per
lower-bound kind and the `While` predicate per upper-bound kind are the generated switch tables. -/
theorem range_refines (cmp : K → K → Int) (hc : StrictWeak cmp) (t : Tree K V) (hi : Inv cmp t) (lo hi' : Bound K)
    (hlk : lo.kind ≠ none) (hhk : hi'.kind ≠ none) :
    ∃ it, range cmp t lo hi' = some it ∧ ∀ fuel, (toList t.root).length < fuel →
      drain cmp t fuel it = (srange cmp lo hi' (toList t.root)).map outOf :=
  range_refines_fwd hc hi lo hi' hlk hhk

/-- `RangeReverse(lo, hi)`: the same entries in descending order. -/
theorem rangeRev_refines (cmp : K → K → Int) (hc : StrictWeak cmp) (t : Tree K V) (hi : Inv cmp t) (lo hi' : Bound K)
    (hlk : lo.kind ≠ none) (hhk : hi'.kind ≠ none) :
    ∃ it, rangeReverse cmp t lo hi' = some it ∧ ∀ fuel, (toList t.root).length < fuel →
      drain cmp t fuel it = ((srange cmp lo hi' (toList t.root)).reverse).map outOf :=
  Juniper.Proofs.Tree.rangeRev_refines hc hi lo hi' hlk hhk

/-- the ideal range is what the property says: a sublist of the contents (each entry at most once, in
order) containing exactly the entries whose key is inside the bounds -/
theorem srange_spec (cmp : K → K → Int) (lo hi : Bound K) (L : List (K × V)) :
    (srange cmp lo hi L).Sublist L ∧
    ∀ e, e ∈ srange cmp lo hi L ↔ e ∈ L ∧ aboveLo cmp lo e.1 = true ∧ belowHi cmp hi e.1 = true := by
  refine ⟨List.filter_sublist, fun e => ?_⟩
  simp [srange, List.mem_filter]

/-- `Iterate` is `Range(Unbounded, Unbounded)` (generated forwarding fact) and yields the whole map. -/
theorem iterate_eq_range_unbounded (cmp : K → K → Int) (hc : StrictWeak cmp) (t : Tree K V) (hi : Inv cmp t) (k0 : K) :
    mapForwards = true ∧ setForwards = true ∧
    ∃ it, range cmp t ⟨some .unb, k0⟩ ⟨some .unb, k0⟩ = some it ∧ ∀ fuel, (toList t.root).length < fuel →
      drain cmp t fuel it = (toList t.root).map outOf := by
  refine ⟨by decide, by decide, ?_⟩
  obtain ⟨it, h1, h2⟩ := range_refines_fwd hc hi ⟨some .unb, k0⟩ ⟨some .unb, k0⟩ (by simp) (by simp)
  refine ⟨it, h1, fun fuel hf => ?_⟩
  rw [h2 fuel hf]
  have : srange cmp ⟨some .unb, k0⟩ ⟨some .unb, k0⟩ (toList t.root) = toList t.root := by
    unfold srange; apply List.filter_eq_self.mpr; intro e _; simp [aboveLo, belowHi]
  rw [this]

/-- **Every history.** Running any sequence of `Put`/`Delete`/`Get`/`Contains`/`Len`/`First`/`Last`/
`Range`/`RangeReverse` calls (any bounds) on the model from the empty tree and on the ideal sorted map
from the empty list gives the same outputs call by call; no call dereferences a nil pointer; the only
panics are the "unknown bound" panics of a zero `Bound`. -/
theorem history_refines (cmp : K → K → Int) (hc : StrictWeak cmp) (os : List (Op K V)) :
    ∃ t' outs, runOps cmp (Tree.empty : Tree K V) os = some (t', outs) ∧
      specOps cmp ([] : List (K × V)) os = (toList t'.root, outs) := by
  obtain ⟨t', outs, h1, _, h3⟩ := runOps_refines hc os Tree.empty (inv_empty cmp)
  exact ⟨t', outs, h1, by simpa [Tree.empty] using h3⟩

/-- non-vacuity of `history_refines`: a concrete history on `Int` keys with the natural order. -/
example : ∃ t' : Tree Int Int, ∃ outs,
    runOps (fun a b => a - b) Tree.empty [.put 2 20, .put 1 10, .put 2 21, .get 2, .len, .first] = some (t', outs) ∧
      toList t'.root = [(1, 10), (2, 21)] := by
  have hc : StrictWeak (fun a b : Int => a - b) := ⟨by intro a b; omega, by intro a b c; omega⟩
  obtain ⟨t', outs, h1, h2⟩ := history_refines (V := Int) _ hc [.put 2 20, .put 1 10, .put 2 21, .get 2, .len, .first]
  refine ⟨t', outs, h1, ?_⟩
  have := congrArg Prod.fst h2
  simp [specOps, specOp, sput] at this
  exact this.symm

/-- non-vacuity with an order in which *equivalent* is coarser than *equal* (`coarse a b = a/10 - b/10`,
a strict weak order): `Put 17` overwrites the value stored under `12` and keeps the stored key `12`,
`Get 13` finds it. -/
example : StrictWeak coarse ∧ ∃ t' : Tree Int Int, ∃ outs,
    runOps coarse Tree.empty [.put 12 1, .put 17 2, .put 25 3, .get 13, .first, .last, .len] = some (t', outs) ∧
      toList t'.root = [(12, 2), (25, 3)] ∧
      outs = [.unit, .unit, .unit, .val (some 2), .entry (some (12, 2)), .entry (some (25, 3)), .int 2] := by
  refine ⟨coarse_strictWeak, ?_⟩
  obtain ⟨t', outs, h1, h2⟩ := history_refines (V := Int) coarse coarse_strictWeak
    [.put 12 1, .put 17 2, .put 25 3, .get 13, .first, .last, .len]
  refine ⟨t', outs, h1, ?_⟩
  have e : specOps coarse ([] : List (Int × Int)) [.put 12 1, .put 17 2, .put 25 3, .get 13, .first, .last, .len] =
      ([(12, 2), (25, 3)], [.unit, .unit, .unit, .val (some 2), .entry (some (12, 2)), .entry (some (25, 3)), .int 2]) := rfl
  rw [e] at h2
  exact ⟨(congrArg Prod.fst h2).symm, (congrArg Prod.snd h2).symm⟩

/-- non-vacuity on a tree of two levels: 20 ascending `Put`s split the root (`0 < height`), then a
`Delete`, a `Range` with an included and an excluded bound, a `RangeReverse` and `Len`. -/
example : ∃ t' : Tree Int Int, ∃ outs,
    runOps (fun a b => a - b) Tree.empty
      ((List.range 20).map (fun (i : Nat) => Op.put (i : Int) (10 * (i : Int))) ++
        [.del 3, .range ⟨some .incl, 2⟩ ⟨some .excl, 6⟩, .rrange ⟨some .unb, 0⟩ ⟨some .incl, 1⟩, .len]) = some (t', outs) ∧
      0 < height t'.root ∧
      outs.drop 20 = [.unit, .items [(2, some 20), (4, some 40), (5, some 50)], .items [(1, some 10), (0, some 0)], .int 19] := by
  have hc : StrictWeak (fun a b : Int => a - b) := ⟨by intro a b; omega, by intro a b c; omega⟩
  obtain ⟨t', outs, h1, hi, h2⟩ := runOps_refines hc
    ((List.range 20).map (fun (i : Nat) => Op.put (i : Int) (10 * (i : Int))) ++
      [.del 3, .range ⟨some .incl, 2⟩ ⟨some .excl, 6⟩, .rrange ⟨some .unb, 0⟩ ⟨some .incl, 1⟩, .len])
    (Tree.empty : Tree Int Int) (inv_empty _)
  have hl : ((specOps (fun a b : Int => a - b) (toList (Tree.empty : Tree Int Int).root)
      ((List.range 20).map (fun (i : Nat) => Op.put (i : Int) (10 * (i : Int))) ++
        [.del 3, .range ⟨some .incl, 2⟩ ⟨some .excl, 6⟩, .rrange ⟨some .unb, 0⟩ ⟨some .incl, 1⟩, .len])).1.length : Int) = 19 := by
    simp only [Tree.empty, toList_leaf]; rfl
  have ho : (specOps (fun a b : Int => a - b) (toList (Tree.empty : Tree Int Int).root)
      ((List.range 20).map (fun (i : Nat) => Op.put (i : Int) (10 * (i : Int))) ++
        [.del 3, .range ⟨some .incl, 2⟩ ⟨some .excl, 6⟩, .rrange ⟨some .unb, 0⟩ ⟨some .incl, 1⟩, .len])).2.drop 20 =
      [.unit, .items [(2, some 20), (4, some 40), (5, some 50)], .items [(1, some 10), (0, some 0)], .int 19] := by
    simp only [Tree.empty, toList_leaf]; rfl
  rw [h2] at hl ho
  exact ⟨t', outs, h1, height_pos_of_large hi.wf (by rw [hl]; decide), ho⟩

/-- the ideal sorted map is a map: after `sput k v`, a lookup under any key *equivalent* to `k` yields
`v` … -/
theorem sget_sput_same (cmp : K → K → Int) (hc : StrictWeak cmp) (k k' : K) (v : V) (L : List (K × V))
    (he : cmp k' k = 0) : (sget cmp k' (sput cmp k v L)).map (·.2) = some v :=
  sget_sput_same_aux hc v he L

/-- … and a lookup under a key that is not equivalent to `k` is unaffected. -/
theorem sget_sput_other (cmp : K → K → Int) (hc : StrictWeak cmp) (k k' : K) (v : V) (L : List (K × V))
    (hne : cmp k' k ≠ 0) : sget cmp k' (sput cmp k v L) = sget cmp k' L :=
  sget_sput_other_aux hc v hne L

example : sget (fun a b : Int => a - b) 2 (sput (fun a b : Int => a - b) 2 7 [(1, 10), (2, 20), (3, 30)]) = some (2, 7) ∧
    sget coarse 15 (sput coarse 11 7 [(1, 10), (12, 20), (31, 30)]) = some (12, 7) := ⟨rfl, rfl⟩

/-- A `Set` is a `Map` to `struct{}`: `Add`/`Remove`/`Contains`/`Len`/`First`/`Last`/`Range` forward to the
same B-tree operations (generated forwarding fact), so every theorem above holds with `V := Unit`. -/
theorem set_refines (cmp : K → K → Int) (hc : StrictWeak cmp) (os : List (Op K Unit)) :
    setForwards = true ∧ setIsHandle = true ∧
    ∃ t' outs, runOps cmp (Tree.empty : Tree K Unit) os = some (t', outs) ∧
      specOps cmp ([] : List (K × Unit)) os = (toList t'.root, outs) :=
  ⟨by decide, by decide, history_refines cmp hc os⟩

/-- **Copies of a `Map` value denote the same collection.** `m0` is the value a constructor returns
(`newHandle`: `Map{t: newBtree(…)}`, `newBtree` = `return &btree{…}`), `m1` a copy of it (`copyHandle`,
whose meaning is the generated `mapIsHandle`: one field, a pointer). Every history of exported calls,
each issued through either of the two values in any alternation (`true` = through the copy), is call
by call the history of the ONE shared tree (`runOps`, in which the alternation does not occur) and
hence of the ideal sorted map: whatever is done through one value is observed through the other.
Each exported method is interpreted by the generated text of its body (`mapBodies`); a `btree` method
updates the shared object only if its receiver — and that of every method writing `root`/`size`/`gen`
— is a pointer (generated `btreeRecvIsPtr`, `btreeWritesHeader`); with `func (t btree[K, V]) Put` the
model loses `size`, `gen` and a new root in the copy, and this theorem does not compile. -/
theorem map_copies_denote_same_collection (cmp : K → K → Int) (hc : StrictWeak cmp) (ctor : String)
    (hctor : ctor = "NewMap" ∨ ctor = "NewMapCmp") (os : List (Bool × Op K V)) :
    ∃ s0 m0 s1 m1 t' outs,
      newHandle ctor (Store.empty : Store K V) = some (s0, m0) ∧
      copyHandle mapIsHandle s0 m0 = some (s1, m1) ∧
      runVia (mapApply cmp) m0 m1 s1 os = some ({ objs := [t'] }, outs) ∧
      runOps cmp (Tree.empty : Tree K V) (os.map (·.2)) = some (t', outs) ∧
      specOps cmp ([] : List (K × V)) (os.map (·.2)) = (toList t'.root, outs) := by
  obtain ⟨hn, hcp⟩ := new_then_copy (K := K) (V := V) ctor
    (by rcases hctor with h | h <;> simp [h]) mapIsHandle (by decide) (by decide)
  obtain ⟨t', outs, h1, h2⟩ := history_refines cmp hc (os.map (·.2))
  refine ⟨_, _, _, _, t', outs, hn, hcp, ?_, h1, h2⟩
  have := runVia_eq_runOps cmp (fun o : Op K V => o) (mapApply cmp) (mapApply_eq cmp (by decide)) os Tree.empty
  rw [this, h1]; rfl

/-- non-vacuity: `Put` through the original, `Put` and `Delete` through the copy, reads through both. -/
example : ∃ s0 m0 s1 m1 t' outs,
    newHandle "NewMap" (Store.empty : Store Int Int) = some (s0, m0) ∧ copyHandle mapIsHandle s0 m0 = some (s1, m1) ∧
    runVia (mapApply (fun a b : Int => a - b)) m0 m1 s1
      [(false, .put 1 10), (true, .put 2 20), (false, .len), (true, .del 1), (false, .get 2), (true, .has 1)] =
        some ({ objs := [t'] }, outs) ∧
    toList t'.root = [(2, 20)] ∧ outs = [.unit, .unit, .int 2, .unit, .val (some 20), .bool false] := by
  have hc : StrictWeak (fun a b : Int => a - b) := ⟨by intro a b; omega, by intro a b c; omega⟩
  obtain ⟨s0, m0, s1, m1, t', outs, h1, h2, h3, _, h5⟩ := map_copies_denote_same_collection (V := Int) _ hc "NewMap"
    (Or.inl rfl) [(false, .put 1 10), (true, .put 2 20), (false, .len), (true, .del 1), (false, .get 2), (true, .has 1)]
  refine ⟨s0, m0, s1, m1, t', outs, h1, h2, h3, ?_⟩
  simp [specOps, specOp, sput, serase, sget] at h5
  exact ⟨h5.1.symm, h5.2.symm⟩

/-- **Copies of a `Set` value denote the same collection**: the same for `tree.Set` (`setIsHandle`,
`setBodies`; `Add`/`Remove`/`Contains`/`Len`/`First`/`Last`/`Range`/`RangeReverse`). -/
theorem set_copies_denote_same_collection (cmp : K → K → Int) (hc : StrictWeak cmp) (ctor : String)
    (hctor : ctor = "NewSet" ∨ ctor = "NewSetCmp") (os : List (Bool × SetOp K)) :
    ∃ s0 m0 s1 m1 t' outs,
      newHandle ctor (Store.empty : Store K Unit) = some (s0, m0) ∧
      copyHandle setIsHandle s0 m0 = some (s1, m1) ∧
      runVia (setApply cmp) m0 m1 s1 os = some ({ objs := [t'] }, outs) ∧
      runOps cmp (Tree.empty : Tree K Unit) (os.map (·.2.toOp)) = some (t', outs) ∧
      specOps cmp ([] : List (K × Unit)) (os.map (·.2.toOp)) = (toList t'.root, outs) := by
  obtain ⟨hn, hcp⟩ := new_then_copy (K := K) (V := Unit) ctor
    (by rcases hctor with h | h <;> simp [h]) setIsHandle (by decide) (by decide)
  obtain ⟨t', outs, h1, h2⟩ := history_refines cmp hc (os.map (·.2.toOp))
  refine ⟨_, _, _, _, t', outs, hn, hcp, ?_, h1, h2⟩
  have := runVia_eq_runOps cmp SetOp.toOp (setApply cmp) (setApply_eq cmp (by decide)) os Tree.empty
  rw [this, h1]; rfl

example : ∃ s0 m0 s1 m1 t' outs,
    newHandle "NewSetCmp" (Store.empty : Store Int Unit) = some (s0, m0) ∧ copyHandle setIsHandle s0 m0 = some (s1, m1) ∧
    runVia (setApply (fun a b : Int => a - b)) m0 m1 s1
      [(true, .add 5), (false, .add 3), (true, .remove 5), (false, .contains 5), (true, .len)] = some ({ objs := [t'] }, outs) ∧
    toList t'.root = [(3, ())] ∧ outs = [.unit, .unit, .unit, .bool false, .int 1] := by
  have hc : StrictWeak (fun a b : Int => a - b) := ⟨by intro a b; omega, by intro a b c; omega⟩
  obtain ⟨s0, m0, s1, m1, t', outs, h1, h2, h3, _, h5⟩ := set_copies_denote_same_collection _ hc "NewSetCmp"
    (Or.inr rfl) [(true, .add 5), (false, .add 3), (true, .remove 5), (false, .contains 5), (true, .len)]
  refine ⟨s0, m0, s1, m1, t', outs, h1, h2, h3, ?_⟩
  simp [specOps, specOp, sput, serase, sget, SetOp.toOp] at h5
  exact ⟨h5.1.symm, h5.2.symm⟩

/-- Concurrent clause, the part a sequential model can state (**partial**; the full clause — "puts from
several goroutines to distinct present keys concurrent with reads of other keys are free of data races
and all take effect" — additionally rests on the Go memory model: disjoint plain accesses do not race;
supporting evidence is the `-race` stress harness `c01race`).
`Put` of a key that is present writes exactly one value slot: the tree's generation, size, allocation
counter and its whole skeleton (node identities, keys, occupancy, child links) are unchanged, and the
contents change only in that entry's value (`put_refines`); the generated fact `putOverwriteOnly` says
that the overwrite branch consists of the single assignment `curr.values[idx] = v` followed by `return`. -/
theorem putPresent_footprint_partial (cmp : K → K → Int) (hc : StrictWeak cmp) (t : Tree K V) (k : K) (v : V)
    (hw : WF cmp t) (hpres : (sget cmp k (toList t.root)).isSome = true) :
    putOverwriteOnly = true ∧
    ∃ t', put cmp t k v = some t' ∧ t'.gen = t.gen ∧ t'.size = t.size ∧ t'.nextId = t.nextId ∧
      skel t'.root = skel t.root := by
  refine ⟨by decide, ?_⟩
  obtain ⟨h, hbal, hmax, _⟩ := hw.bal
  have hb := bal_ins cmp k v t.root t.nextId h hbal hmax
  have hr := ins_refines hc k v t.root t.nextId h hbal hmax hw.sorted
  have hsk := ins_found_skel cmp k v t.root t.nextId
  unfold put
  rcases hres : ins cmp k v t.root t.nextId with ⟨res, f⟩
  rw [hres] at hb hr hsk
  cases res with
  | crash => exact hb.elim
  | found r => exact ⟨_, rfl, rfl, rfl, rfl, hsk r rfl⟩
  | one r => rw [hr.2] at hpres; cases hpres
  | split l sep r => rw [hr.2] at hpres; cases hpres

end Juniper.Props.C01
