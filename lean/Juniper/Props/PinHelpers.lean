-- Tie theorems of the pins (written by `gofacts -pin` together with Juniper/Pinned/Helpers.lean; see notes/pins.md).
-- Each says: the declaration gofacts reads from the tree under check today is, up to the names of its locals,
-- the one the author of the model saw. `rfl` on two literals: kernel-checked, no axioms.
import Juniper.Generated.PinHelpers
import Juniper.Pinned.Helpers

namespace Juniper.Props.PinHelpers

theorem pin_xerrors_WithStack_ok : Juniper.Gen.PinHelpers.pin_xerrors_WithStack = Juniper.Pinned.Helpers.pin_xerrors_WithStack := by rfl
theorem pin_xerrors_withStack_Unwrap_ok : Juniper.Gen.PinHelpers.pin_xerrors_withStack_Unwrap = Juniper.Pinned.Helpers.pin_xerrors_withStack_Unwrap := by rfl
theorem pin_xmaps_Difference_ok : Juniper.Gen.PinHelpers.pin_xmaps_Difference = Juniper.Pinned.Helpers.pin_xmaps_Difference := by rfl
theorem pin_xmaps_FromKeysAndValues_ok : Juniper.Gen.PinHelpers.pin_xmaps_FromKeysAndValues = Juniper.Pinned.Helpers.pin_xmaps_FromKeysAndValues := by rfl
theorem pin_xmaps_Intersection_ok : Juniper.Gen.PinHelpers.pin_xmaps_Intersection = Juniper.Pinned.Helpers.pin_xmaps_Intersection := by rfl
theorem pin_xmaps_Intersects_ok : Juniper.Gen.PinHelpers.pin_xmaps_Intersects = Juniper.Pinned.Helpers.pin_xmaps_Intersects := by rfl
theorem pin_xmaps_Reverse_ok : Juniper.Gen.PinHelpers.pin_xmaps_Reverse = Juniper.Pinned.Helpers.pin_xmaps_Reverse := by rfl
theorem pin_xmaps_ReverseSingle_ok : Juniper.Gen.PinHelpers.pin_xmaps_ReverseSingle = Juniper.Pinned.Helpers.pin_xmaps_ReverseSingle := by rfl
theorem pin_xmaps_Set_Add_ok : Juniper.Gen.PinHelpers.pin_xmaps_Set_Add = Juniper.Pinned.Helpers.pin_xmaps_Set_Add := by rfl
theorem pin_xmaps_Set_Contains_ok : Juniper.Gen.PinHelpers.pin_xmaps_Set_Contains = Juniper.Pinned.Helpers.pin_xmaps_Set_Contains := by rfl
theorem pin_xmaps_Set_Remove_ok : Juniper.Gen.PinHelpers.pin_xmaps_Set_Remove = Juniper.Pinned.Helpers.pin_xmaps_Set_Remove := by rfl
theorem pin_xmaps_SetFromSlice_ok : Juniper.Gen.PinHelpers.pin_xmaps_SetFromSlice = Juniper.Pinned.Helpers.pin_xmaps_SetFromSlice := by rfl
theorem pin_xmaps_ToIndex_ok : Juniper.Gen.PinHelpers.pin_xmaps_ToIndex = Juniper.Pinned.Helpers.pin_xmaps_ToIndex := by rfl
theorem pin_xmaps_Union_ok : Juniper.Gen.PinHelpers.pin_xmaps_Union = Juniper.Pinned.Helpers.pin_xmaps_Union := by rfl
theorem pin_xmath_Abs_ok : Juniper.Gen.PinHelpers.pin_xmath_Abs = Juniper.Pinned.Helpers.pin_xmath_Abs := by rfl
theorem pin_xmath_Clamp_ok : Juniper.Gen.PinHelpers.pin_xmath_Clamp = Juniper.Pinned.Helpers.pin_xmath_Clamp := by rfl
theorem pin_xmath_Max_ok : Juniper.Gen.PinHelpers.pin_xmath_Max = Juniper.Pinned.Helpers.pin_xmath_Max := by rfl
theorem pin_xmath_Min_ok : Juniper.Gen.PinHelpers.pin_xmath_Min = Juniper.Pinned.Helpers.pin_xmath_Min := by rfl
theorem pin_xmath_xrand_newSampler_ok : Juniper.Gen.PinHelpers.pin_xmath_xrand_newSampler = Juniper.Pinned.Helpers.pin_xmath_xrand_newSampler := by rfl
theorem pin_xmath_xrand_rSample_ok : Juniper.Gen.PinHelpers.pin_xmath_xrand_rSample = Juniper.Pinned.Helpers.pin_xmath_xrand_rSample := by rfl
theorem pin_xmath_xrand_rSampleIterator_ok : Juniper.Gen.PinHelpers.pin_xmath_xrand_rSampleIterator = Juniper.Pinned.Helpers.pin_xmath_xrand_rSampleIterator := by rfl
theorem pin_xmath_xrand_rSampleSlice_ok : Juniper.Gen.PinHelpers.pin_xmath_xrand_rSampleSlice = Juniper.Pinned.Helpers.pin_xmath_xrand_rSampleSlice := by rfl
theorem pin_xmath_xrand_rSampleStream_ok : Juniper.Gen.PinHelpers.pin_xmath_xrand_rSampleStream = Juniper.Pinned.Helpers.pin_xmath_xrand_rSampleStream := by rfl
theorem pin_xmath_xrand_rShuffle_ok : Juniper.Gen.PinHelpers.pin_xmath_xrand_rShuffle = Juniper.Pinned.Helpers.pin_xmath_xrand_rShuffle := by rfl
theorem pin_xmath_xrand_sampler_Next_ok : Juniper.Gen.PinHelpers.pin_xmath_xrand_sampler_Next = Juniper.Pinned.Helpers.pin_xmath_xrand_sampler_Next := by rfl
theorem pin_xslices_All_ok : Juniper.Gen.PinHelpers.pin_xslices_All = Juniper.Pinned.Helpers.pin_xslices_All := by rfl
theorem pin_xslices_Any_ok : Juniper.Gen.PinHelpers.pin_xslices_Any = Juniper.Pinned.Helpers.pin_xslices_Any := by rfl
theorem pin_xslices_Chunk_ok : Juniper.Gen.PinHelpers.pin_xslices_Chunk = Juniper.Pinned.Helpers.pin_xslices_Chunk := by rfl
theorem pin_xslices_Clear_ok : Juniper.Gen.PinHelpers.pin_xslices_Clear = Juniper.Pinned.Helpers.pin_xslices_Clear := by rfl
theorem pin_xslices_Clone_ok : Juniper.Gen.PinHelpers.pin_xslices_Clone = Juniper.Pinned.Helpers.pin_xslices_Clone := by rfl
theorem pin_xslices_Compact_ok : Juniper.Gen.PinHelpers.pin_xslices_Compact = Juniper.Pinned.Helpers.pin_xslices_Compact := by rfl
theorem pin_xslices_CompactFunc_ok : Juniper.Gen.PinHelpers.pin_xslices_CompactFunc = Juniper.Pinned.Helpers.pin_xslices_CompactFunc := by rfl
theorem pin_xslices_CompactInPlace_ok : Juniper.Gen.PinHelpers.pin_xslices_CompactInPlace = Juniper.Pinned.Helpers.pin_xslices_CompactInPlace := by rfl
theorem pin_xslices_CompactInPlaceFunc_ok : Juniper.Gen.PinHelpers.pin_xslices_CompactInPlaceFunc = Juniper.Pinned.Helpers.pin_xslices_CompactInPlaceFunc := by rfl
theorem pin_xslices_Count_ok : Juniper.Gen.PinHelpers.pin_xslices_Count = Juniper.Pinned.Helpers.pin_xslices_Count := by rfl
theorem pin_xslices_CountFunc_ok : Juniper.Gen.PinHelpers.pin_xslices_CountFunc = Juniper.Pinned.Helpers.pin_xslices_CountFunc := by rfl
theorem pin_xslices_Equal_ok : Juniper.Gen.PinHelpers.pin_xslices_Equal = Juniper.Pinned.Helpers.pin_xslices_Equal := by rfl
theorem pin_xslices_EqualFunc_ok : Juniper.Gen.PinHelpers.pin_xslices_EqualFunc = Juniper.Pinned.Helpers.pin_xslices_EqualFunc := by rfl
theorem pin_xslices_Fill_ok : Juniper.Gen.PinHelpers.pin_xslices_Fill = Juniper.Pinned.Helpers.pin_xslices_Fill := by rfl
theorem pin_xslices_Filter_ok : Juniper.Gen.PinHelpers.pin_xslices_Filter = Juniper.Pinned.Helpers.pin_xslices_Filter := by rfl
theorem pin_xslices_FilterInPlace_ok : Juniper.Gen.PinHelpers.pin_xslices_FilterInPlace = Juniper.Pinned.Helpers.pin_xslices_FilterInPlace := by rfl
theorem pin_xslices_Group_ok : Juniper.Gen.PinHelpers.pin_xslices_Group = Juniper.Pinned.Helpers.pin_xslices_Group := by rfl
theorem pin_xslices_Grow_ok : Juniper.Gen.PinHelpers.pin_xslices_Grow = Juniper.Pinned.Helpers.pin_xslices_Grow := by rfl
theorem pin_xslices_Index_ok : Juniper.Gen.PinHelpers.pin_xslices_Index = Juniper.Pinned.Helpers.pin_xslices_Index := by rfl
theorem pin_xslices_IndexFunc_ok : Juniper.Gen.PinHelpers.pin_xslices_IndexFunc = Juniper.Pinned.Helpers.pin_xslices_IndexFunc := by rfl
theorem pin_xslices_Insert_ok : Juniper.Gen.PinHelpers.pin_xslices_Insert = Juniper.Pinned.Helpers.pin_xslices_Insert := by rfl
theorem pin_xslices_Join_ok : Juniper.Gen.PinHelpers.pin_xslices_Join = Juniper.Pinned.Helpers.pin_xslices_Join := by rfl
theorem pin_xslices_LastIndex_ok : Juniper.Gen.PinHelpers.pin_xslices_LastIndex = Juniper.Pinned.Helpers.pin_xslices_LastIndex := by rfl
theorem pin_xslices_LastIndexFunc_ok : Juniper.Gen.PinHelpers.pin_xslices_LastIndexFunc = Juniper.Pinned.Helpers.pin_xslices_LastIndexFunc := by rfl
theorem pin_xslices_Map_ok : Juniper.Gen.PinHelpers.pin_xslices_Map = Juniper.Pinned.Helpers.pin_xslices_Map := by rfl
theorem pin_xslices_Partition_ok : Juniper.Gen.PinHelpers.pin_xslices_Partition = Juniper.Pinned.Helpers.pin_xslices_Partition := by rfl
theorem pin_xslices_Reduce_ok : Juniper.Gen.PinHelpers.pin_xslices_Reduce = Juniper.Pinned.Helpers.pin_xslices_Reduce := by rfl
theorem pin_xslices_Remove_ok : Juniper.Gen.PinHelpers.pin_xslices_Remove = Juniper.Pinned.Helpers.pin_xslices_Remove := by rfl
theorem pin_xslices_RemoveUnordered_ok : Juniper.Gen.PinHelpers.pin_xslices_RemoveUnordered = Juniper.Pinned.Helpers.pin_xslices_RemoveUnordered := by rfl
theorem pin_xslices_Repeat_ok : Juniper.Gen.PinHelpers.pin_xslices_Repeat = Juniper.Pinned.Helpers.pin_xslices_Repeat := by rfl
theorem pin_xslices_Reverse_ok : Juniper.Gen.PinHelpers.pin_xslices_Reverse = Juniper.Pinned.Helpers.pin_xslices_Reverse := by rfl
theorem pin_xslices_Runs_ok : Juniper.Gen.PinHelpers.pin_xslices_Runs = Juniper.Pinned.Helpers.pin_xslices_Runs := by rfl
theorem pin_xslices_Shrink_ok : Juniper.Gen.PinHelpers.pin_xslices_Shrink = Juniper.Pinned.Helpers.pin_xslices_Shrink := by rfl
theorem pin_xslices_Unique_ok : Juniper.Gen.PinHelpers.pin_xslices_Unique = Juniper.Pinned.Helpers.pin_xslices_Unique := by rfl
theorem pin_xslices_UniqueInPlace_ok : Juniper.Gen.PinHelpers.pin_xslices_UniqueInPlace = Juniper.Pinned.Helpers.pin_xslices_UniqueInPlace := by rfl
theorem pin_xslices_uniqueInto_ok : Juniper.Gen.PinHelpers.pin_xslices_uniqueInto = Juniper.Pinned.Helpers.pin_xslices_uniqueInto := by rfl
theorem pin_xsort_Equal_ok : Juniper.Gen.PinHelpers.pin_xsort_Equal = Juniper.Pinned.Helpers.pin_xsort_Equal := by rfl
theorem pin_xsort_Greater_ok : Juniper.Gen.PinHelpers.pin_xsort_Greater = Juniper.Pinned.Helpers.pin_xsort_Greater := by rfl
theorem pin_xsort_GreaterOrEqual_ok : Juniper.Gen.PinHelpers.pin_xsort_GreaterOrEqual = Juniper.Pinned.Helpers.pin_xsort_GreaterOrEqual := by rfl
theorem pin_xsort_LessCompare_ok : Juniper.Gen.PinHelpers.pin_xsort_LessCompare = Juniper.Pinned.Helpers.pin_xsort_LessCompare := by rfl
theorem pin_xsort_LessOrEqual_ok : Juniper.Gen.PinHelpers.pin_xsort_LessOrEqual = Juniper.Pinned.Helpers.pin_xsort_LessOrEqual := by rfl
theorem pin_xsort_Merge_ok : Juniper.Gen.PinHelpers.pin_xsort_Merge = Juniper.Pinned.Helpers.pin_xsort_Merge := by rfl
theorem pin_xsort_MergeSlices_ok : Juniper.Gen.PinHelpers.pin_xsort_MergeSlices = Juniper.Pinned.Helpers.pin_xsort_MergeSlices := by rfl
theorem pin_xsort_MinK_ok : Juniper.Gen.PinHelpers.pin_xsort_MinK = Juniper.Pinned.Helpers.pin_xsort_MinK := by rfl
theorem pin_xsort_OrderedLess_ok : Juniper.Gen.PinHelpers.pin_xsort_OrderedLess = Juniper.Pinned.Helpers.pin_xsort_OrderedLess := by rfl
theorem pin_xsort_Reverse_ok : Juniper.Gen.PinHelpers.pin_xsort_Reverse = Juniper.Pinned.Helpers.pin_xsort_Reverse := by rfl
theorem pin_xsort_Search_ok : Juniper.Gen.PinHelpers.pin_xsort_Search = Juniper.Pinned.Helpers.pin_xsort_Search := by rfl
theorem pin_xsort_Slice_ok : Juniper.Gen.PinHelpers.pin_xsort_Slice = Juniper.Pinned.Helpers.pin_xsort_Slice := by rfl
theorem pin_xsort_SliceIsSorted_ok : Juniper.Gen.PinHelpers.pin_xsort_SliceIsSorted = Juniper.Pinned.Helpers.pin_xsort_SliceIsSorted := by rfl
theorem pin_xsort_SliceStable_ok : Juniper.Gen.PinHelpers.pin_xsort_SliceStable = Juniper.Pinned.Helpers.pin_xsort_SliceStable := by rfl
theorem pin_xsort_mergeIterator_Next_ok : Juniper.Gen.PinHelpers.pin_xsort_mergeIterator_Next = Juniper.Pinned.Helpers.pin_xsort_mergeIterator_Next := by rfl
theorem pin_xerrors_type_withStack_ok : Juniper.Gen.PinHelpers.pin_xerrors_type_withStack = Juniper.Pinned.Helpers.pin_xerrors_type_withStack := by rfl
theorem pin_xerrors_vars_ok : Juniper.Gen.PinHelpers.pin_xerrors_vars = Juniper.Pinned.Helpers.pin_xerrors_vars := by rfl
theorem pin_xmaps_type_Set_ok : Juniper.Gen.PinHelpers.pin_xmaps_type_Set = Juniper.Pinned.Helpers.pin_xmaps_type_Set := by rfl
theorem pin_xmaps_vars_ok : Juniper.Gen.PinHelpers.pin_xmaps_vars = Juniper.Pinned.Helpers.pin_xmaps_vars := by rfl
theorem pin_xmath_vars_ok : Juniper.Gen.PinHelpers.pin_xmath_vars = Juniper.Pinned.Helpers.pin_xmath_vars := by rfl
theorem pin_xmath_xrand_type_defaultRand_ok : Juniper.Gen.PinHelpers.pin_xmath_xrand_type_defaultRand = Juniper.Pinned.Helpers.pin_xmath_xrand_type_defaultRand := by rfl
theorem pin_xmath_xrand_type_randRand_ok : Juniper.Gen.PinHelpers.pin_xmath_xrand_type_randRand = Juniper.Pinned.Helpers.pin_xmath_xrand_type_randRand := by rfl
theorem pin_xmath_xrand_type_sampler_ok : Juniper.Gen.PinHelpers.pin_xmath_xrand_type_sampler = Juniper.Pinned.Helpers.pin_xmath_xrand_type_sampler := by rfl
theorem pin_xmath_xrand_vars_ok : Juniper.Gen.PinHelpers.pin_xmath_xrand_vars = Juniper.Pinned.Helpers.pin_xmath_xrand_vars := by rfl
theorem pin_xslices_vars_ok : Juniper.Gen.PinHelpers.pin_xslices_vars = Juniper.Pinned.Helpers.pin_xslices_vars := by rfl
theorem pin_xsort_type_Less_ok : Juniper.Gen.PinHelpers.pin_xsort_type_Less = Juniper.Pinned.Helpers.pin_xsort_type_Less := by rfl
theorem pin_xsort_type_mergeIterator_ok : Juniper.Gen.PinHelpers.pin_xsort_type_mergeIterator = Juniper.Pinned.Helpers.pin_xsort_type_mergeIterator := by rfl
theorem pin_xsort_type_valueAndSource_ok : Juniper.Gen.PinHelpers.pin_xsort_type_valueAndSource = Juniper.Pinned.Helpers.pin_xsort_type_valueAndSource := by rfl
theorem pin_xsort_vars_ok : Juniper.Gen.PinHelpers.pin_xsort_vars = Juniper.Pinned.Helpers.pin_xsort_vars := by rfl

end Juniper.Props.PinHelpers
