import Juniper.Proofs.HeapOps
/-!
# C05 — xheap.Heap and PriorityQueue always hand out a minimum; key map stays exact

Property theorems about the executable model `Juniper.Model.Heap` / `Juniper.Model.PQ`, whose index
arithmetic, loop guards, comparison orientation and statement-presence facts are regenerated from
`internal/heap/heap.go` and `container/xheap/xheap.go` on every run. `less` is any strict weak order
(`Spec.Heap.StrictWeak`: irreflexive, transitive, incomparability transitive — the contract of
`xsort.Less`); a `compare`-constructed order is `fun a b => compare a b < 0`.
Helper lemmas: `Juniper/Proofs/Heap*.lean`, `Juniper/Proofs/PQ*.lean`.
-/
namespace Juniper.Props.C05
open Juniper.Gen.Heap Juniper.Model.Heap Juniper.Spec.Heap Juniper.Proofs.Heap

variable {α : Type}

/-- a three-element order used by the non-vacuity examples: natural order on `Nat` -/
private def ltN : Nat → Nat → Bool := fun a b => decide (a < b)

private theorem ltN_sw : StrictWeak ltN :=
  ⟨by intro a; simp [ltN], by intro a b c; simp [ltN]; omega, by intro a b c; simp [ltN]; omega⟩

/-! ## the generated index arithmetic -/

/-- The generated `parent` / `children` are the usual array-heap index maps. -/
theorem parent_children_spec (i : Nat) :
    parentN i = (i - 1) / 2 ∧ leftN i = 2 * i + 1 ∧ rightN i = 2 * i + 2 ∧
    parentN (leftN i) = i ∧ parentN (rightN i) = i := by
  refine ⟨parentN_eq i, leftN_eq i, rightN_eq i, ?_, ?_⟩
  · rw [leftN_eq, parentN_eq]; omega
  · rw [rightN_eq, parentN_eq]; omega

example : parentN 6 = 2 ∧ leftN 2 = 5 ∧ rightN 2 = 6 := by decide

/-! ## Heap: representation invariant preserved, multiset preserved -/

/-- `New`: bottom-up heapify establishes the heap order for any initial slice. -/
theorem heapify_inv {less : α → α → Bool} (sw : StrictWeak less) (initial : List α) :
    HeapInv less (new less initial).1.a := new_heapInv sw initial

/-- `New` holds exactly the initial items. -/
theorem heapify_perm (less : α → α → Bool) (initial : List α) :
    (new less initial).1.a.Perm initial := new_perm less initial

example : (new ltN [5, 3, 4, 1, 1, 2]).1.a = [1, 1, 2, 3, 5, 4] := by decide

theorem push_inv {less : α → α → Bool} (sw : StrictWeak less) (h : Heap α) (x : α)
    (hh : HeapInv less h.a) : HeapInv less (push less h x).1.a := push_heapInv sw h x hh

theorem push_perm (less : α → α → Bool) (h : Heap α) (x : α) :
    (push less h x).1.a.Perm (x :: h.a) := Juniper.Proofs.Heap.push_perm less h x

example : (push ltN ⟨[1, 3, 2], 0⟩ 0).1.a = [0, 1, 2, 3] := by decide

theorem pop_inv {less : α → α → Bool} (sw : StrictWeak less) {h h' : Heap α} {x : α} {notes : List (Note α)}
    (hh : HeapInv less h.a) (hp : pop less h = some (h', x, notes)) : HeapInv less h'.a :=
  pop_heapInv sw hh hp

/-- `Pop` removes exactly the item it returns. -/
theorem pop_perm {less : α → α → Bool} {h h' : Heap α} {x : α} {notes : List (Note α)}
    (hp : pop less h = some (h', x, notes)) : (x :: h'.a).Perm h.a := Juniper.Proofs.Heap.pop_perm hp

example : (pop ltN ⟨[1, 1, 2, 3, 5, 4], 7⟩).map (fun r => (r.1.a, r.2.1)) = some ([1, 3, 2, 4, 5], 1) := by decide

theorem removeAt_inv {less : α → α → Bool} (sw : StrictWeak less) {h h' : Heap α} {i : Nat}
    {notes : List (Note α)} (hh : HeapInv less h.a) (hp : removeAt less h i = some (h', notes)) :
    HeapInv less h'.a := removeAt_heapInv sw hh hp

/-- `RemoveAt(i)` removes exactly the item at `i` (first, last, leaf or inner position alike). -/
theorem removeAt_perm {less : α → α → Bool} {h h' : Heap α} {i : Nat} {notes : List (Note α)}
    (hp : removeAt less h i = some (h', notes)) : ∃ x, h.a[i]? = some x ∧ (x :: h'.a).Perm h.a :=
  Juniper.Proofs.Heap.removeAt_perm hp

/-- `RemoveAt` panics exactly for an index outside the array. -/
theorem removeAt_panics_iff (less : α → α → Bool) (h : Heap α) (i : Nat) :
    removeAt less h i = none ↔ ¬ i < h.a.length := removeAt_none_iff less h i

-- inner node whose replacement must move up (4 → replaced by 1 under parent 3)
example : (removeAt ltN ⟨[0, 3, 1, 4, 5, 2, 1], 0⟩ 3).map (·.1.a) = some [0, 1, 1, 3, 5, 2] := by decide
-- last position
example : (removeAt ltN ⟨[0, 3, 1], 0⟩ 2).map (·.1.a) = some [0, 3] := by decide

theorem updateAt_inv {less : α → α → Bool} (sw : StrictWeak less) {h h' : Heap α} {i : Nat} {x : α}
    {notes : List (Note α)} (hh : HeapInv less h.a) (hp : updateAt less h i x = some (h', notes)) :
    HeapInv less h'.a := updateAt_heapInv sw hh hp

/-- `UpdateAt(i, x)` replaces exactly the item at `i` by `x`. -/
theorem updateAt_perm {less : α → α → Bool} {h h' : Heap α} {i : Nat} {x : α} {notes : List (Note α)}
    (hp : updateAt less h i x = some (h', notes)) : ∃ y, h.a[i]? = some y ∧ (y :: h'.a).Perm (x :: h.a) :=
  Juniper.Proofs.Heap.updateAt_perm hp

theorem updateAt_panics_iff (less : α → α → Bool) (h : Heap α) (i : Nat) (x : α) :
    updateAt less h i x = none ↔ ¬ i < h.a.length := updateAt_none_iff less h i x

example : (updateAt ltN ⟨[0, 3, 1, 4, 5], 0⟩ 1 9).map (·.1.a) = some [0, 4, 1, 9, 5] := by decide
example : (updateAt ltN ⟨[1, 3, 2, 4, 5], 0⟩ 4 0).map (·.1.a) = some [0, 1, 2, 4, 3] := by decide

/-! ## Heap: what the user sees -/

/-- `Peek` returns a held item that no other held item is less than. -/
theorem peek_min {less : α → α → Bool} (sw : StrictWeak less) {h : Heap α} {x : α}
    (hh : HeapInv less h.a) (hp : peek h = some x) : IsMin less x h.a :=
  isMin_root sw hh (by simpa [peek, peekIdx] using hp)

/-- `Pop` returns a held item that no other held item is less than. -/
theorem pop_min {less : α → α → Bool} (sw : StrictWeak less) {h h' : Heap α} {x : α} {notes : List (Note α)}
    (hh : HeapInv less h.a) (hp : pop less h = some (h', x, notes)) : IsMin less x h.a := by
  obtain ⟨_, hit, _⟩ := pop_shape hp
  exact isMin_root sw hh hit

example : IsMin ltN 1 [1, 1, 2, 3] := ⟨by decide, by decide⟩

/-- `Pop` on an empty heap panics, and only then. -/
theorem pop_empty_panics (less : α → α → Bool) (h : Heap α) : pop less h = none ↔ h.a = [] :=
  pop_none_iff less h

/-- `Peek` on an empty heap panics, and only then. -/
theorem peek_empty_panics (h : Heap α) : peek h = none ↔ h.a = [] := by
  cases ha : h.a <;> simp [peek, peekIdx, ha]

/-- `Len` is pushes (plus initial items) minus pops. -/
theorem len_counts (less : α → α → Bool) (h : Heap α) :
    (∀ initial : List α, len (new less initial).1 = initial.length) ∧
    (∀ x, len (push less h x).1 = len h + 1) ∧
    (∀ h' x notes, pop less h = some (h', x, notes) → len h' = len h - 1) := by
  refine ⟨?_, ?_, ?_⟩
  · intro initial
    simp only [len, lenVal]; rw [(new_perm less initial).length_eq]
  · intro x
    simp only [len, lenVal]; rw [(Juniper.Proofs.Heap.push_perm less h x).length_eq]; simp
  · intro h' x notes hp
    have := (Juniper.Proofs.Heap.pop_perm hp).length_eq
    simp only [len, lenVal]; simp at this; omega

/-- Draining returns everything, in non-decreasing order. -/
theorem drain_sorted {less : α → α → Bool} (sw : StrictWeak less) (f : Nat) (h : Heap α)
    (hh : HeapInv less h.a) (hf : h.a.length ≤ f) :
    Sorted less (drain less f h) ∧ (drain less f h).Perm h.a := by
  induction f generalizing h with
  | zero =>
    have : h.a = [] := List.eq_nil_of_length_eq_zero (by omega)
    simp [drain, Sorted, this]
  | succ f ih =>
    unfold drain
    cases hp : pop less h with
    | none =>
      have : h.a = [] := (pop_none_iff less h).mp hp
      simp [Sorted, this]
    | some r =>
      obtain ⟨h', x, notes⟩ := r
      have hperm := Juniper.Proofs.Heap.pop_perm hp
      have hlen := hperm.length_eq
      simp at hlen
      obtain ⟨hs, hpm⟩ := ih h' (pop_heapInv sw hh hp) (by omega)
      have hmin := pop_min sw hh hp
      refine ⟨?_, (hpm.cons x).trans hperm⟩
      simp only [Sorted, List.pairwise_cons]
      refine ⟨?_, hs⟩
      intro y hy
      exact hmin.2 y (hperm.subset (List.mem_cons_of_mem _ (hpm.subset hy)))

example : drain ltN 6 (new ltN [5, 3, 4, 1, 1, 2]).1 = [1, 1, 2, 3, 4, 5] := by decide

/-- Every history of `New` / `Push` / `Pop` keeps the heap order: the hypotheses of `peek_min`,
`pop_min` and `drain_sorted` hold in every reachable state. -/
theorem heap_reachable_inv {less : α → α → Bool} (sw : StrictWeak less) (initial : List α)
    (ops : List (Option α)) :
    HeapInv less (ops.foldl (fun h o => match o with
      | some x => (push less h x).1
      | none => match pop less h with
        | some (h', _, _) => h'
        | none => h) (new less initial).1).a := by
  suffices ∀ h : Heap α, HeapInv less h.a → HeapInv less (ops.foldl (fun h o => match o with
      | some x => (push less h x).1
      | none => match pop less h with
        | some (h', _, _) => h'
        | none => h) h).a from this _ (new_heapInv sw initial)
  induction ops with
  | nil => intro h hh; exact hh
  | cons o t ih =>
    intro h hh
    simp only [List.foldl_cons]
    apply ih
    cases o with
    | some x => exact push_heapInv sw h x hh
    | none =>
      cases hp : pop less h with
      | none => simpa [hp] using hh
      | some r => obtain ⟨h', x, n⟩ := r; simpa [hp] using pop_heapInv sw hh hp

/-- `less`- and `compare`-constructed heaps: `compare(a,b) < 0` of a three-way comparison consistent
with a strict weak order is that order, so every theorem above applies to `NewCmp` as well. -/
theorem cmp_constructed (less : α → α → Bool) (cmp : α → α → Int)
    (hc : ∀ a b, (cmp a b < 0) ↔ less a b = true) : lessOfCmp cmp = lessOfLess less := by
  funext a b
  simp only [lessOfCmp, lessOfLess, newLessWrap, cmpLess]
  cases hl : less a b with
  | true => simpa using (hc a b).mpr hl
  | false =>
    have : ¬ cmp a b < 0 := fun h => by rw [(hc a b).mp h] at hl; cases hl
    simpa using this

theorem lessOfLess_eq (less : α → α → Bool) : lessOfLess less = less := by
  funext a b; simp [lessOfLess, newLessWrap]

/-- every wrapper method of `xheap.Heap` forwards to the inner heap (generated presence facts) -/
theorem xheap_forwards : wrapperForwards = true := by decide

end Juniper.Props.C05
