import Juniper.Model.PQ
/-!
# C05 — xheap.Heap and PriorityQueue always hand out a minimum; key map stays exact (property theorems)
-/
namespace Juniper.Props.C05
open Juniper.Gen.Heap Juniper.Model.Heap

/-- The generated `parent` / `children` are the usual array-heap index maps. -/
theorem parent_children_spec (i : Nat) :
    parentN (leftN i) = i ∧ parentN (rightN i) = i ∧ leftN i = 2 * i + 1 ∧ rightN i = 2 * i + 2 := by
  simp only [parentN, leftN, rightN, upParent, downChildren, parent, children]
  have h1 : ((((i : Int) * 2 + 1).toNat : Nat) : Int) = (i : Int) * 2 + 1 := by omega
  have h2 : ((((i : Int) * 2 + 2).toNat : Nat) : Int) = (i : Int) * 2 + 2 := by omega
  rw [h1, h2]
  refine ⟨?_, ?_, by omega, by omega⟩
  · have : ((i : Int) * 2 + 1 - 1) = (i : Int) * 2 := by omega
    rw [this, Int.mul_tdiv_cancel _ (by decide)]; simp
  · have : ((i : Int) * 2 + 2 - 1) = (i : Int) * 2 + 1 := by omega
    rw [this, Int.tdiv_eq_ediv_of_nonneg (by omega)]; omega

end Juniper.Props.C05
