import Juniper.Proofs.HeapOps
import Juniper.Proofs.PQOps
/-!
# C05 — xheap.Heap and PriorityQueue always hand out a minimum; key map stays exact

Property theorems about the executable model `Juniper.Model.Heap` / `Juniper.Model.PQ`, whose index
arithmetic, loop guards, comparison orientation and statement-presence facts are regenerated from
`internal/heap/heap.go` and `container/xheap/xheap.go` on every run. `less` is any strict weak order
(`Spec.Heap.StrictWeak`: irreflexive, transitive, incomparability transitive — the contract of
`xsort.Less`); a `compare`-constructed order is `fun a b => compare a b < 0`.
The first sections are about `internal/heap` (the array heap shared by `xheap.Heap` and
`xheap.PriorityQueue`), the section "what the user sees" about the exported wrapper `xheap.Heap`.
Helper lemmas: `Juniper/Proofs/Heap*.lean`, `Juniper/Proofs/PQ*.lean`.
-/
namespace Juniper.Props.C05
open Juniper.Gen.Heap Juniper.Model.Heap Juniper.Spec.Heap Juniper.Proofs.Heap

variable {α : Type}

/-! ## the generated index arithmetic -/

/-- The generated `parent` / `children` are the usual array-heap index maps. -/
theorem parent_children_spec (i : Nat) :
    parentN i = (i - 1) / 2 ∧ leftN i = 2 * i + 1 ∧ rightN i = 2 * i + 2 ∧
    parentN (leftN i) = i ∧ parentN (rightN i) = i := by
  refine ⟨parentN_eq i, leftN_eq i, rightN_eq i, ?_, ?_⟩
  · rw [leftN_eq, parentN_eq]; omega
  · rw [rightN_eq, parentN_eq]; omega

example : parentN 6 = 2 ∧ leftN 2 = 5 ∧ rightN 2 = 6 := by decide

/-! ## Heap: representation invariant preserved, multiset preserved -/

/-- `New`: bottom-up heapify establishes the heap order for any initial slice. -/
theorem heapify_inv {less : α → α → Bool} (sw : StrictWeak less) (initial : List α) :
    HeapInv less (new less initial).1.a := new_heapInv sw initial

/-- `New` holds exactly the initial items. -/
theorem heapify_perm (less : α → α → Bool) (initial : List α) :
    (new less initial).1.a.Perm initial := new_perm less initial

example : (new ltN [5, 3, 4, 1, 1, 2]).1.a = [1, 1, 2, 3, 5, 4] := by decide

theorem push_inv {less : α → α → Bool} (sw : StrictWeak less) (h : Heap α) (x : α)
    (hh : HeapInv less h.a) : HeapInv less (push less h x).1.a := push_heapInv sw h x hh

theorem push_perm (less : α → α → Bool) (h : Heap α) (x : α) :
    (push less h x).1.a.Perm (x :: h.a) := Juniper.Proofs.Heap.push_perm less h x

example : (push ltN ⟨[1, 3, 2], 0⟩ 0).1.a = [0, 1, 2, 3] := by decide

theorem pop_inv {less : α → α → Bool} (sw : StrictWeak less) {h h' : Heap α} {x : α} {notes : List (Note α)}
    (hh : HeapInv less h.a) (hp : pop less h = some (h', x, notes)) : HeapInv less h'.a :=
  pop_heapInv sw hh hp

/-- `Pop` removes exactly the item it returns. -/
theorem pop_perm {less : α → α → Bool} {h h' : Heap α} {x : α} {notes : List (Note α)}
    (hp : pop less h = some (h', x, notes)) : (x :: h'.a).Perm h.a := Juniper.Proofs.Heap.pop_perm hp

example : (pop ltN ⟨[1, 1, 2, 3, 5, 4], 7⟩).map (fun r => (r.1.a, r.2.1)) = some ([1, 3, 2, 4, 5], 1) := by decide

theorem removeAt_inv {less : α → α → Bool} (sw : StrictWeak less) {h h' : Heap α} {i : Nat}
    {notes : List (Note α)} (hh : HeapInv less h.a) (hp : removeAt less h i = some (h', notes)) :
    HeapInv less h'.a := removeAt_heapInv sw hh hp

/-- `RemoveAt(i)` removes exactly the item at `i` (first, last, leaf or inner position alike). -/
theorem removeAt_perm {less : α → α → Bool} {h h' : Heap α} {i : Nat} {notes : List (Note α)}
    (hp : removeAt less h i = some (h', notes)) : ∃ x, h.a[i]? = some x ∧ (x :: h'.a).Perm h.a :=
  Juniper.Proofs.Heap.removeAt_perm hp

/-- `RemoveAt` panics exactly for an index outside the array. -/
theorem removeAt_panics_iff (less : α → α → Bool) (h : Heap α) (i : Nat) :
    removeAt less h i = none ↔ ¬ i < h.a.length := removeAt_none_iff less h i

-- inner node whose replacement must move up (4 → replaced by 1 under parent 3)
example : (removeAt ltN ⟨[0, 3, 1, 4, 5, 2, 1], 0⟩ 3).map (·.1.a) = some [0, 1, 1, 3, 5, 2] := by decide
-- last position
example : (removeAt ltN ⟨[0, 3, 1], 0⟩ 2).map (·.1.a) = some [0, 3] := by decide

theorem updateAt_inv {less : α → α → Bool} (sw : StrictWeak less) {h h' : Heap α} {i : Nat} {x : α}
    {notes : List (Note α)} (hh : HeapInv less h.a) (hp : updateAt less h i x = some (h', notes)) :
    HeapInv less h'.a := updateAt_heapInv sw hh hp

/-- `UpdateAt(i, x)` replaces exactly the item at `i` by `x`. -/
theorem updateAt_perm {less : α → α → Bool} {h h' : Heap α} {i : Nat} {x : α} {notes : List (Note α)}
    (hp : updateAt less h i x = some (h', notes)) : ∃ y, h.a[i]? = some y ∧ (y :: h'.a).Perm (x :: h.a) :=
  Juniper.Proofs.Heap.updateAt_perm hp

theorem updateAt_panics_iff (less : α → α → Bool) (h : Heap α) (i : Nat) (x : α) :
    updateAt less h i x = none ↔ ¬ i < h.a.length := updateAt_none_iff less h i x

example : (updateAt ltN ⟨[0, 3, 1, 4, 5], 0⟩ 1 9).map (·.1.a) = some [0, 4, 1, 9, 5] := by decide
example : (updateAt ltN ⟨[1, 3, 2, 4, 5], 0⟩ 4 0).map (·.1.a) = some [0, 1, 2, 4, 3] := by decide

/-! ## Heap: what the user sees (`xheap.Heap`)

The theorems of this section are about the methods of the exported wrapper `xheap.Heap`
(`Model.Heap.X.push/pop/peek/len/drain`), which the model *defines* by the generated facts "the body
of the wrapper method is exactly the forwarding statement" (`xPushForwards`, `xPopForwards`,
`xPeekForwards`, `xLenForwards`); every proof discharges the facts it needs by `decide`, so a wrapper
that does anything but forward breaks the theorem about that method. -/

/-- `Push` keeps the heap order and adds exactly the pushed item. -/
theorem xheap_push {less : α → α → Bool} (sw : StrictWeak less) (h : Heap α) (x : α)
    (hh : HeapInv less h.a) :
    HeapInv less (X.push less h x).a ∧ (X.push less h x).a.Perm (x :: h.a) := by
  rw [xpush_eq (by decide)]
  exact ⟨push_heapInv sw h x hh, Juniper.Proofs.Heap.push_perm less h x⟩

/-- `Peek` returns a held item that no other held item is less than. -/
theorem peek_min {less : α → α → Bool} (sw : StrictWeak less) {h : Heap α} {x : α}
    (hh : HeapInv less h.a) (hp : X.peek h = some x) : IsMin less x h.a := by
  rw [xpeek_eq (by decide)] at hp
  exact isMin_root sw hh (by simpa [peek, peekIdx] using hp)

/-- `Pop` returns a held item that no other held item is less than, removes exactly that item and
keeps the heap order. -/
theorem pop_min {less : α → α → Bool} (sw : StrictWeak less) {h h' : Heap α} {x : α}
    (hh : HeapInv less h.a) (hp : X.pop less h = some (h', x)) :
    IsMin less x h.a ∧ (x :: h'.a).Perm h.a ∧ HeapInv less h'.a := by
  obtain ⟨notes, hp'⟩ := xpop_some (by decide) hp
  obtain ⟨_, hit, _⟩ := pop_shape hp'
  exact ⟨isMin_root sw hh hit, Juniper.Proofs.Heap.pop_perm hp', pop_heapInv sw hh hp'⟩

example : IsMin ltN 1 [1, 1, 2, 3] := ⟨by decide, by decide⟩
example : X.pop ltN ⟨[1, 1, 2, 3, 5, 4], 7⟩ = some (⟨[1, 3, 2, 4, 5], 8⟩, 1) := by decide

/-- `Pop` on an empty heap panics, and only then. -/
theorem pop_empty_panics (less : α → α → Bool) (h : Heap α) : X.pop less h = none ↔ h.a = [] := by
  rw [xpop_none (by decide)]; exact pop_none_iff less h

/-- `Peek` on an empty heap panics, and only then. -/
theorem peek_empty_panics (h : Heap α) : X.peek h = none ↔ h.a = [] := by
  rw [xpeek_eq (by decide)]
  cases ha : h.a <;> simp [peek, peekIdx, ha]

/-- `Len` is pushes (plus initial items) minus pops. -/
theorem len_counts (less : α → α → Bool) (h : Heap α) :
    (∀ initial : List α, X.len (new less initial).1 = initial.length) ∧
    (∀ x, X.len (X.push less h x) = X.len h + 1) ∧
    (∀ h' x, X.pop less h = some (h', x) → X.len h' = X.len h - 1) := by
  refine ⟨?_, ?_, ?_⟩
  · intro initial
    rw [xlen_eq (by decide)]
    simp only [len, lenVal]; rw [(new_perm less initial).length_eq]
  · intro x
    rw [xlen_eq (by decide), xlen_eq (by decide), xpush_eq (by decide)]
    simp only [len, lenVal]; rw [(Juniper.Proofs.Heap.push_perm less h x).length_eq]; simp
  · intro h' x hp
    obtain ⟨notes, hp'⟩ := xpop_some (by decide) hp
    have := (Juniper.Proofs.Heap.pop_perm hp').length_eq
    rw [xlen_eq (by decide), xlen_eq (by decide)]
    simp only [len, lenVal]; simp at this; omega

/-- Draining returns everything, in non-decreasing order. -/
theorem drain_sorted {less : α → α → Bool} (sw : StrictWeak less) (f : Nat) (h : Heap α)
    (hh : HeapInv less h.a) (hf : h.a.length ≤ f) :
    Sorted less (X.drain less f h) ∧ (X.drain less f h).Perm h.a := by
  induction f generalizing h with
  | zero =>
    have : h.a = [] := List.eq_nil_of_length_eq_zero (by omega)
    simp [X.drain, Sorted, this]
  | succ f ih =>
    unfold X.drain
    cases hp : X.pop less h with
    | none =>
      have : h.a = [] := (pop_empty_panics less h).mp hp
      simp [Sorted, this]
    | some r =>
      obtain ⟨h', x⟩ := r
      obtain ⟨hmin, hperm, hinv⟩ := pop_min sw hh hp
      have hlen := hperm.length_eq
      simp at hlen
      obtain ⟨hs, hpm⟩ := ih h' hinv (by omega)
      refine ⟨?_, (hpm.cons x).trans hperm⟩
      simp only [Sorted, List.pairwise_cons]
      refine ⟨?_, hs⟩
      intro y hy
      exact hmin.2 y (hperm.subset (List.mem_cons_of_mem _ (hpm.subset hy)))

example : X.drain ltN 6 (new ltN [5, 3, 4, 1, 1, 2]).1 = [1, 1, 2, 3, 4, 5] := by decide

/-- one call of a history: `some x` = `Push(x)`, `none` = `Pop()` (a panicking `Pop` leaves the heap
as it is) -/
def hstep (less : α → α → Bool) (h : Heap α) : Option α → Heap α
  | some x => X.push less h x
  | none => match X.pop less h with
    | some (h', _) => h'
    | none => h

/-- Every history of `New` / `Push` / `Pop` keeps the heap order: the hypotheses of `peek_min`,
`pop_min` and `drain_sorted` hold in every reachable state. -/
theorem heap_reachable_inv {less : α → α → Bool} (sw : StrictWeak less) (initial : List α)
    (ops : List (Option α)) :
    HeapInv less (ops.foldl (hstep less) (new less initial).1).a := by
  suffices ∀ h : Heap α, HeapInv less h.a → HeapInv less (ops.foldl (hstep less) h).a from
    this _ (new_heapInv sw initial)
  induction ops with
  | nil => intro h hh; exact hh
  | cons o t ih =>
    intro h hh
    simp only [List.foldl_cons]
    apply ih
    cases o with
    | some x => exact (xheap_push sw h x hh).1
    | none =>
      simp only [hstep]
      cases hp : X.pop less h with
      | none => exact hh
      | some r => obtain ⟨h', x⟩ := r; exact (pop_min sw hh hp).2.2

example : (([some 4, some 1, none, some 0, none, none, none] : List (Option Nat)).foldl (hstep ltN)
    (new ltN [5, 3]).1).a = [5] := by decide

/-- `less`- and `compare`-constructed heaps: `compare(a,b) < 0` of a three-way comparison consistent
with a strict weak order is that order, so every theorem above applies to `NewCmp` as well. -/
theorem cmp_constructed (less : α → α → Bool) (cmp : α → α → Int)
    (hc : ∀ a b, (cmp a b < 0) ↔ less a b = true) : lessOfCmp cmp = lessOfLess less := by
  funext a b
  simp only [lessOfCmp, lessOfLess, newLessWrap, cmpLess]
  cases hl : less a b with
  | true => simpa using (hc a b).mpr hl
  | false =>
    have : ¬ cmp a b < 0 := fun h => by rw [(hc a b).mp h] at hl; cases hl
    simpa using this

theorem lessOfLess_eq (less : α → α → Bool) : lessOfLess less = less := by
  funext a b; simp [lessOfLess, newLessWrap]

/-! ## PriorityQueue: the key → index map stays exact -/

section PQ
open Juniper.Model.PQ Juniper.Proofs.PQ
variable {K P : Type} [DecidableEq K]

/-- **Notification discipline.** Every element whose index changes is notified with its final
index: applying the ordered notifications of `swap`, `percolateUp`, `percolateDown` to a map that
records every element of the old array yields a map that records every element of the new array;
the notify-all loop of `New` records every element whatever the map held before. -/
theorem notifications_cover_moves (less : KP K P → KP K P → Bool) {a : List (KP K P)}
    (nd : (keysOf a).Nodup) :
    (∀ m i j, Idx m a → i < a.length → j < a.length → Idx (applyNotes m (swapN a i j).2) (swapAt a i j)) ∧
    (∀ m i, Idx m a → i < a.length →
      Idx (applyNotes m (percolateUp less a i).2) (percolateUp less a i).1) ∧
    (∀ m i, Idx m a → i < a.length →
      Idx (applyNotes m (percolateDown less a i).2) (percolateDown less a i).1) ∧
    (∀ m, Idx (applyNotes m (notifyAll a)) a) :=
  ⟨fun _ _ _ h hi hj => idx_swapN nd h hi hj,
   fun _ _ h hi => upLoop_idx less _ nd h hi,
   fun _ _ h hi => downLoop_idx less _ nd h hi,
   fun m => idx_notifyAll m nd⟩

example : Idx (applyNotes [(7, 0), (8, 1)] (swapN [((7 : Nat), (5 : Nat)), (8, 3)] 1 0).2)
    (swapAt [(7, 5), (8, 3)] 1 0) := by
  intro i k p h
  match i, h with
  | 0, h => simp [swapAt_eq] at h; obtain ⟨rfl, rfl⟩ := h; decide
  | 1, h => simp [swapAt_eq] at h; obtain ⟨rfl, rfl⟩ := h; decide
  | i + 2, h => simp [swapAt_eq] at h

/-- What every reachable queue satisfies: the index map is exact (`IndexInv`: keys distinct,
`m k = i ↔ a[i].key = k`) and the array is a heap for the priority order. -/
def QInv (less : P → P → Bool) (q : PQ K P) : Prop := IndexInv q ∧ HeapInv (lessKP less) q.h.a

/-- **`pq_initial_dedup`**: a queue built from an initial list (duplicate keys allowed) holds each
distinct key once — with the priority of its first occurrence — and starts with an exact index map. -/
theorem pq_initial_dedup {less : P → P → Bool} (sw : StrictWeak less) (initial : List (KP K P)) :
    QInv less (Juniper.Model.PQ.new less initial) ∧
    (keysOf (Juniper.Model.PQ.new less initial).h.a).Nodup ∧
    (∀ k, (∃ p, Holds (Juniper.Model.PQ.new less initial) k p) ↔ k ∈ keysOf initial) ∧
    (∀ k p, Holds (Juniper.Model.PQ.new less initial) k p →
      initial.find? (fun e => decide (e.1 = k)) = some (k, p)) := by
  obtain ⟨hinv, hh⟩ := new_spec less initial
  obtain ⟨nd, hb, hc, hd, he⟩ := dedup_spec initial ([] : IdxMap K)
  refine ⟨⟨hinv, ?_⟩, hinv.1, ?_, ?_⟩
  · rw [new_eq]; exact new_heapInv (lessKP_sw sw) _
  · intro k
    constructor
    · rintro ⟨p, hp⟩
      exact mem_keys_of_mem ((hb _ ((hh k p).mp hp)).1)
    · intro hk
      obtain ⟨i, p, hi⟩ := mem_keysOf.mp (hc k hk rfl)
      exact ⟨p, (hh k p).mpr (List.mem_of_getElem? hi)⟩
  · intro k p hp
    exact he k p ((hh k p).mp hp)

example : (Juniper.Model.PQ.new ltN [((1 : Nat), (5 : Nat)), (2, 3), (1, 9), (3, 4)]).h.a = [(2, 3), (1, 5), (3, 4)] := by
  decide

/-- **`IndexInv` is preserved by `Update`** (new key, or existing key to a lower / higher / equal
priority), which never panics and changes the mapping at `k` only. -/
theorem indexInv_update {less : P → P → Bool} (sw : StrictWeak less) {q : PQ K P} (hq : QInv less q)
    (k : K) (p : P) :
    ∃ q', update less q k p = some q' ∧ QInv less q' ∧
      ∀ k' p', Holds q' k' p' ↔ (k' = k ∧ p' = p) ∨ (k' ≠ k ∧ Holds q k' p') := by
  by_cases hk : ∃ p0, Holds q k p0
  · obtain ⟨p0, hp0⟩ := hk
    obtain ⟨q', he, hi, hh, i, y, notes, _, hu⟩ := update_existing (less := less) hq.1 p hp0
    exact ⟨q', he, ⟨hi, updateAt_heapInv (lessKP_sw sw) hq.2 hu⟩, hh⟩
  · have hk' : ∀ p0, ¬ Holds q k p0 := fun p0 h => hk ⟨p0, h⟩
    obtain ⟨q', he, hi, hh, hpush⟩ := update_new (less := less) hq.1 p hk'
    exact ⟨q', he, ⟨hi, by rw [hpush]; exact push_heapInv (lessKP_sw sw) _ _ hq.2⟩, hh⟩

/-- **`IndexInv` is preserved by `Remove`** (key at the first, last, a leaf or an inner position, or
absent), which never panics and deletes exactly `k`. -/
theorem indexInv_remove {less : P → P → Bool} (sw : StrictWeak less) {q : PQ K P} (hq : QInv less q) (k : K) :
    ∃ q', remove less q k = some q' ∧ QInv less q' ∧
      ∀ k' p', Holds q' k' p' ↔ k' ≠ k ∧ Holds q k' p' := by
  by_cases hk : ∃ p0, Holds q k p0
  · obtain ⟨p0, hp0⟩ := hk
    obtain ⟨q', he, hi, hh, i, notes, _, hu⟩ := remove_present (less := less) hq.1 hp0
    exact ⟨q', he, ⟨hi, removeAt_heapInv (lessKP_sw sw) hq.2 hu⟩, hh⟩
  · have hk' : ∀ p0, ¬ Holds q k p0 := fun p0 h => hk ⟨p0, h⟩
    refine ⟨q, remove_absent hq.1 hk', hq, ?_⟩
    intro k' p'
    constructor
    · intro h; exact ⟨fun e => hk' p' (e ▸ h), h⟩
    · exact fun h => h.2

/-- **`IndexInv` is preserved by `Pop`**, which panics exactly on the empty queue and otherwise
removes and returns a key whose current priority is minimal. -/
theorem indexInv_pop {less : P → P → Bool} (sw : StrictWeak less) {q : PQ K P} (hq : QInv less q) :
    (q.h.a = [] → Juniper.Model.PQ.pop less q = none) ∧
    (q.h.a ≠ [] → ∃ q' k p0, Juniper.Model.PQ.pop less q = some (q', k) ∧ QInv less q' ∧
      Holds q k p0 ∧ (∀ k' p', Holds q k' p' → less p' p0 = false) ∧
      (∀ k' p', Holds q' k' p' ↔ k' ≠ k ∧ Holds q k' p')) := by
  constructor
  · intro he
    rw [pop_eq, (pop_none_iff _ _).mpr he]
  · intro hne
    obtain ⟨q', k, p0, notes, he, h0, hi, hh, hu⟩ := pop_nonempty (less := less) hq.1 hne
    refine ⟨q', k, p0, he, ⟨hi, pop_heapInv (lessKP_sw sw) hq.2 hu⟩, List.mem_of_getElem? h0, ?_, hh⟩
    intro k' p' hh'
    have := (isMin_root (lessKP_sw sw) hq.2 h0).2 (k', p') hh'
    simpa [lessKP, pqLessWrap] using this

/-- **`pq_refines_map`** — the observers report the current mapping: `Contains`, `Priority`
(zero value, modelled as `none`, for an absent key), `Len` (number of keys, each held once), and
`Peek` returns a key of minimal current priority and panics exactly on the empty queue.
Together with `indexInv_update/remove/pop` and `pq_initial_dedup` this is the refinement of the
queue to a finite map key → priority. -/
theorem pq_refines_map {less : P → P → Bool} (sw : StrictWeak less) {q : PQ K P} (hq : QInv less q) :
    (∀ k, contains q k = true ↔ ∃ p, Holds q k p) ∧
    (∀ k p, Holds q k p → priority q k = some (some p)) ∧
    (∀ k, (∀ p, ¬ Holds q k p) → priority q k = some none) ∧
    (∀ k p p', Holds q k p → Holds q k p' → p = p') ∧
    (Juniper.Model.PQ.len q = (keysOf q.h.a).length ∧ (keysOf q.h.a).Nodup) ∧
    (Juniper.Model.PQ.peek q = none ↔ q.h.a = []) ∧
    (∀ k, Juniper.Model.PQ.peek q = some k →
      ∃ p0, Holds q k p0 ∧ ∀ k' p', Holds q k' p' → less p' p0 = false) := by
  refine ⟨contains_iff hq.1, fun k p => priority_present hq.1, fun k => priority_absent hq.1,
    fun k p p' => holds_functional hq.1, ⟨len_eq q, hq.1.1⟩, ?_, ?_⟩
  · rw [peek_eq]; cases h : q.h.a <;> simp
  · intro k hk
    rw [peek_eq] at hk
    cases h0 : q.h.a[0]? with
    | none => rw [h0] at hk; cases hk
    | some r =>
      obtain ⟨k0, p0⟩ := r
      rw [h0] at hk; simp at hk; subst hk
      refine ⟨p0, List.mem_of_getElem? h0, ?_⟩
      intro k' p' hh'
      have := (isMin_root (lessKP_sw sw) hq.2 h0).2 (k', p') hh'
      simpa [lessKP, pqLessWrap] using this

/-- Queue operations of a history. -/
inductive QOp (K P : Type) where
  | update (k : K) (p : P)
  | remove (k : K)
  | pop

/-- one step; a panicking call (only `Pop` on empty) leaves the queue as it is -/
def qstep (less : P → P → Bool) (q : PQ K P) : QOp K P → PQ K P
  | .update k p => (update less q k p).getD q
  | .remove k => (remove less q k).getD q
  | .pop => ((Juniper.Model.PQ.pop less q).map (·.1)).getD q

/-- **For every operation sequence** from any initial list the queue satisfies `QInv`, i.e. the
hypotheses of all theorems above hold in every reachable state. -/
theorem pq_reachable_inv {less : P → P → Bool} (sw : StrictWeak less) (initial : List (KP K P))
    (ops : List (QOp K P)) :
    QInv less (ops.foldl (qstep less) (Juniper.Model.PQ.new less initial)) := by
  suffices ∀ q : PQ K P, QInv less q → QInv less (ops.foldl (qstep less) q) from
    this _ (pq_initial_dedup sw initial).1
  induction ops with
  | nil => intro q hq; exact hq
  | cons o t ih =>
    intro q hq
    simp only [List.foldl_cons]
    apply ih
    cases o with
    | update k p =>
      obtain ⟨q', he, hi, _⟩ := indexInv_update sw hq k p
      simp [qstep, he, hi]
    | remove k =>
      obtain ⟨q', he, hi, _⟩ := indexInv_remove sw hq k
      simp [qstep, he, hi]
    | pop =>
      by_cases hne : q.h.a = []
      · simp [qstep, (indexInv_pop sw hq).1 hne, hq]
      · obtain ⟨q', k, p0, he, hi, _⟩ := (indexInv_pop sw hq).2 hne
        simp [qstep, he, hi]

example : ((([QOp.update 4 1, .update 2 9, .pop, .remove 3] : List (QOp Nat Nat)).foldl (qstep ltN)
    (Juniper.Model.PQ.new ltN [(1, 5), (2, 3), (1, 9), (3, 4)])).h.a) = [(1, 5), (2, 9)] := by decide

/-- a `compare`-constructed queue orders priorities by `compare(a, b) < 0` -/
theorem pq_cmp_constructed (less : P → P → Bool) (cmp : P → P → Int)
    (hc : ∀ a b, (cmp a b < 0) ↔ less a b = true) : lessOfCmpP cmp = less := by
  funext a b
  simp only [lessOfCmpP, pqCmpLess]
  cases hl : less a b with
  | true => simpa using (hc a b).mpr hl
  | false =>
    have : ¬ cmp a b < 0 := fun h => by rw [(hc a b).mp h] at hl; cases hl
    simpa using this

end PQ

end Juniper.Props.C05
