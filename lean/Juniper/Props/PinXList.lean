-- Tie theorems of the pins (written by `gofacts -pin` together with Juniper/Pinned/XList.lean; see notes/pins.md).
-- Each says: the declaration gofacts reads from the tree under check today is, up to the names of its locals,
-- the one the author of the model saw. `rfl` on two literals: kernel-checked, no axioms.
import Juniper.Generated.PinXList
import Juniper.Pinned.XList

namespace Juniper.Props.PinXList

theorem pin_container_xlist_List_Back_ok : Juniper.Gen.PinXList.pin_container_xlist_List_Back = Juniper.Pinned.XList.pin_container_xlist_List_Back := by rfl
theorem pin_container_xlist_List_Clear_ok : Juniper.Gen.PinXList.pin_container_xlist_List_Clear = Juniper.Pinned.XList.pin_container_xlist_List_Clear := by rfl
theorem pin_container_xlist_List_Front_ok : Juniper.Gen.PinXList.pin_container_xlist_List_Front = Juniper.Pinned.XList.pin_container_xlist_List_Front := by rfl
theorem pin_container_xlist_List_InsertAfter_ok : Juniper.Gen.PinXList.pin_container_xlist_List_InsertAfter = Juniper.Pinned.XList.pin_container_xlist_List_InsertAfter := by rfl
theorem pin_container_xlist_List_InsertBefore_ok : Juniper.Gen.PinXList.pin_container_xlist_List_InsertBefore = Juniper.Pinned.XList.pin_container_xlist_List_InsertBefore := by rfl
theorem pin_container_xlist_List_Len_ok : Juniper.Gen.PinXList.pin_container_xlist_List_Len = Juniper.Pinned.XList.pin_container_xlist_List_Len := by rfl
theorem pin_container_xlist_List_MoveAfter_ok : Juniper.Gen.PinXList.pin_container_xlist_List_MoveAfter = Juniper.Pinned.XList.pin_container_xlist_List_MoveAfter := by rfl
theorem pin_container_xlist_List_MoveBefore_ok : Juniper.Gen.PinXList.pin_container_xlist_List_MoveBefore = Juniper.Pinned.XList.pin_container_xlist_List_MoveBefore := by rfl
theorem pin_container_xlist_List_MoveToBack_ok : Juniper.Gen.PinXList.pin_container_xlist_List_MoveToBack = Juniper.Pinned.XList.pin_container_xlist_List_MoveToBack := by rfl
theorem pin_container_xlist_List_MoveToFront_ok : Juniper.Gen.PinXList.pin_container_xlist_List_MoveToFront = Juniper.Pinned.XList.pin_container_xlist_List_MoveToFront := by rfl
theorem pin_container_xlist_List_PushBack_ok : Juniper.Gen.PinXList.pin_container_xlist_List_PushBack = Juniper.Pinned.XList.pin_container_xlist_List_PushBack := by rfl
theorem pin_container_xlist_List_PushFront_ok : Juniper.Gen.PinXList.pin_container_xlist_List_PushFront = Juniper.Pinned.XList.pin_container_xlist_List_PushFront := by rfl
theorem pin_container_xlist_List_Remove_ok : Juniper.Gen.PinXList.pin_container_xlist_List_Remove = Juniper.Pinned.XList.pin_container_xlist_List_Remove := by rfl
theorem pin_container_xlist_List_remove_ok : Juniper.Gen.PinXList.pin_container_xlist_List_remove = Juniper.Pinned.XList.pin_container_xlist_List_remove := by rfl
theorem pin_container_xlist_Node_Next_ok : Juniper.Gen.PinXList.pin_container_xlist_Node_Next = Juniper.Pinned.XList.pin_container_xlist_Node_Next := by rfl
theorem pin_container_xlist_Node_Prev_ok : Juniper.Gen.PinXList.pin_container_xlist_Node_Prev = Juniper.Pinned.XList.pin_container_xlist_Node_Prev := by rfl
theorem pin_container_xlist_type_List_ok : Juniper.Gen.PinXList.pin_container_xlist_type_List = Juniper.Pinned.XList.pin_container_xlist_type_List := by rfl
theorem pin_container_xlist_type_Node_ok : Juniper.Gen.PinXList.pin_container_xlist_type_Node = Juniper.Pinned.XList.pin_container_xlist_type_Node := by rfl
theorem pin_container_xlist_vars_ok : Juniper.Gen.PinXList.pin_container_xlist_vars = Juniper.Pinned.XList.pin_container_xlist_vars := by rfl

end Juniper.Props.PinXList
