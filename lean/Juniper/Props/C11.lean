import Juniper.Proofs.BatchClose
import Juniper.Proofs.BatchWaiter
import Juniper.Proofs.BatchSize
import Juniper.Proofs.BatchBg
import Juniper.Proofs.BatchProgress
import Juniper.Model.Skeleton
import Juniper.Generated.Skeleton
/-!
# C11 — stream.Batch / BatchFunc partition their source under every timing and Close always returns
(with the Batch clauses of C08 and C09)

Every theorem is about `Reach code cfg`: the states reachable in the transition system of
`Model/Batch.lean` instantiated with the facts regenerated from `stream/stream.go` (`code`), under
**all** interleavings of the three goroutines, the timer, the source, the consumer's calls, context
expiries, clock advances and `Close`. `code_is_good` is the tie: the regenerated `select` arm tables,
`stopTimer()`/`startTimer()` call sites, deferred calls and statement facts are the ones the proofs
in `Juniper/Proofs/Batch*.lean` are about; it is re-checked by `decide` on every run.

What the liveness-flavoured clauses are proved as (nothing here says "eventually" without naming what is
assumed): `batch_close_returns` — after `Close` every internal step strictly decreases a measure, a
run-level bound `#internal steps ≤ 16 + 4·#items the source still hands out`, and quiescent ⇒ `Close`
has returned; `batch_handed_to_waiter` — the overdue condition is stable until the waiter is served or
leaves, every internal step but the hand-off `prodSend` decreases a rank, and such a step is enabled;
`batch_waiter_sees_end` — enabledness of the closed-channel arm. Assumed, not proved: scheduler
fairness, select fairness between the arms named in those docstrings, finitely many items after `Close`.
`Close` is taken only while no `Next` is pending and no `Next` is called after it (Stream contract):
"at any moment" = at any moment between consumer calls, with the goroutines in any state.

Only the property theorems and their non-vacuity examples live here.
-/
namespace Juniper.Props.C11
open Juniper.Model.Batch Juniper.Proofs.Batch

/-- Tie 1: the facts extracted from the Go source now are the facts the proofs are about. -/
theorem code_is_good : code = good := by decide

/-- Tie 1, statement order facts the model relies on but cannot observe at quiescence: the producer
defers `wg.Done()` first (so it runs last: the source is closed and `c` is closed before `Close`'s
`wg.Wait()` can return), `Close` is `bgCancel(); wg.Wait()` over exactly two goroutines, the three
channels are rendez-vous channels, and `timer.Reset` gets the same duration as `time.NewTimer`.
Operand-level facts the transition relation hard-wires: `Batch` forwards `s` and `maxWait` unchanged
to `BatchFunc`; `stopTimer` drains `timerC` exactly when `!stopped && timerC != nil` (the model's
`stopTimer` never blocks: with Go's timers a value is in the channel whenever `Stop` reports false and
`timerC` has not been received from — trusted runtime semantics); after a hand-over `flush` gives
`batch` a fresh slice (the model's batches are values: a batch handed out is never written again).
The statement lists of the batcher's branches, of which `code` reads single statements, are the
expected ones as a whole. -/
theorem code_order_facts :
    Gen.Batch.producerDefers = ["out.wg.Done()", "s.Close()", "close(c)"] ∧
    Gen.Batch.closeStmts = ["iter.bgCancel()", "iter.wg.Wait()"] ∧
    Gen.Batch.wgCount = 2 ∧
    Gen.Batch.unbufferedChans = Gen.Batch.chanMakes ∧
    Gen.Batch.timerResetDur = Gen.Batch.timerDur ∧
    (Gen.Batch.batchCallArgs = ["s", "maxWait", "func"] ∧ ∀ mw, Gen.Batch.batchMaxWaitArg mw = mw) ∧
    (Gen.Batch.stopTimerDrainCond = "!stopped && timerC != nil" ∧ Gen.Batch.stopTimerDrainChan = "timerC") ∧
    Gen.Batch.flushBatchReset = "make([]T,0,…)" ∧
    (Gen.Batch.fullStmts = ["stopTimer()", "if !flush() {", "return", "}"] ∧
      Gen.Batch.firstItemStmts = ["batchStart = time.Now()", "if waitingAtEmpty {", "startTimer()", "}"] ∧
      Gen.Batch.timerArmStmts = ["timerC = nil", "if !flush() {", "return", "}"] ∧
      Gen.Batch.waitElapsedStmts = ["stopTimer()", "if !flush() {", "return", "}"] ∧
      Gen.Batch.waitNotElapsedStmts = ["startTimer()"] ∧
      Gen.Batch.waitEmptyStmts = ["waitingAtEmpty = true"]) := by
  refine ⟨by decide, by decide, by decide, by decide, rfl, ⟨by decide, fun _ => rfl⟩, by decide, by decide, by decide⟩

/-- Tie 1 for the stream's background context: the regenerated right-hand side of
`bgCtx, bgCancel := …` is `context.WithCancel(context.Background())` (one assignment, nothing else
ever assigns either name), the identifier `bgCancel` occurs nowhere in the package but in that
definition, in `bgCancel: bgCancel` of the `batchStream` literal, in the field declaration and in
`iter.bgCancel()` of `Close`; `bgCtx` occurs nowhere but as the argument of the producer's
`s.Next(bgCtx)`, in the producer's own-cancellation guard and in the `<-bgCtx.Done()` arms of the
hand-off and of `flush`. Hence (label `bgEnds` of the LTS, enabled iff `Code.bgMayEnd`) nothing but
`Close` ends the background work: no deadline, no timer, no parent context. -/
theorem bg_ctx_only_close_cancels :
    code.BgTied ∧ code.bgMayEnd = false ∧ (∀ cfg s, step code cfg s .bgEnds = none) := by
  refine ⟨by decide, by decide, ?_⟩
  intro cfg s
  have : code.bgMayEnd = false := by decide
  simp [step, this]

/-- Tie 1 for the control flow *between* the regenerated facts: the statement-kind skeletons of
`Batch`, `BatchFunc`, its producer goroutine (three `defer`s; `for { Next; if End {break} else if <own
cancellation> {break} else if err != nil { out.err = err; return }; select { c <- item | <-bgCtx.Done():
return } }`), the batcher goroutine with its deferred cleanup and loop, `flush`, `stopTimer`,
`startTimer`, `batchStream.Next` and `Close`, regenerated from `stream/stream.go`
(`Juniper.Gen.Skeleton`), are exactly the ones `Model/Batch.lean` hard-wires (`Model/Skeleton.lean`):
no statement was added, removed or moved. -/
theorem skeleton_ok :
    Gen.Skeleton.batch = Model.Skeleton.batch ∧ Gen.Skeleton.batchFunc = Model.Skeleton.batchFunc ∧
    Gen.Skeleton.batchProducer = Model.Skeleton.batchProducer ∧ Gen.Skeleton.batchBatcher = Model.Skeleton.batchBatcher ∧
    Gen.Skeleton.batchFlush = Model.Skeleton.batchFlush ∧ Gen.Skeleton.batchStopTimer = Model.Skeleton.batchStopTimer ∧
    Gen.Skeleton.batchStartTimer = Model.Skeleton.batchStartTimer ∧ Gen.Skeleton.batchNext = Model.Skeleton.batchNext ∧
    Gen.Skeleton.batchClose = Model.Skeleton.batchClose := by
  decide

/-- Tie 1 for the producer's three-way test on what `s.Next(bgCtx)` returned: the regenerated guard of
the middle branch ("this is my own cancellation, `break` without recording an error") is
`err == context.Canceled && bgCtx.Err() == context.Canceled` — it can hold only after `Close` has
cancelled `bgCtx`, whatever the error is; an error that merely *is* or *wraps* `context.Canceled`
while `bgCtx` is live is a failure of the source and goes to `out.err = err`. -/
theorem cancel_guard_needs_close :
    (∀ errEq errIs bgEq bgDone, Gen.Batch.prodCancelGuard errEq errIs bgEq bgDone = (errEq && bgEq)) ∧
    (∀ errEq errIs, Gen.Batch.prodCancelGuard errEq errIs false false = false) := by
  decide

theorem reach_good {cfg : Cfg} {s : State} (h : Reach code cfg s) : Reach good cfg s :=
  code_is_good ▸ h

/-- **Partition.** While `Close` has not been called, the batches handed out, the batch being built
and the item in the producer's hand concatenate to exactly what the source has handed out; the
batches returned by `Next` (failed calls erased) are exactly the hand-overs; always, what was handed
out is a prefix of the source sequence; and once `Next` has reported `End`, the source did end and
the concatenation of all returned batches **is** the source sequence. Nothing lost, nothing
duplicated, nothing reordered, under any timing. First conjunct (0): the regenerated facts this
rests on beyond the arm tables — the background context ends only through `Close` (`Code.BgTied`:
with a deadline on `bgCtx`, or `bgCancel` handed to a timer, the stream ends — `End`, or an error no
source produced — while the source is still willing, see the examples below), and `flush` replaces the
batch it handed out by a fresh slice. -/
theorem batch_partition {cfg : Cfg} {s : State} (h : Reach code cfg s) :
    (code.BgTied ∧ Gen.Batch.flushBatchReset = "make([]T,0,…)") ∧
    (s.bgCancelled = false → flat s.delivered ++ s.batch ++ inTransit s = s.pulled) ∧
    flat s.delivered <+: s.pulled ∧
    batchesOf s.results = s.delivered.map (·.items) ∧
    (.endOK ∈ s.results → s.srcTerm = some .eof ∧ (batchesOf s.results).flatten = s.pulled) := by
  have h2 := inv2_reach (reach_good h)
  have h3 := inv3_reach (reach_good h)
  refine ⟨⟨by decide, by decide⟩, h2.a1, h2.a2, h2.g1, ?_⟩
  intro he
  refine ⟨h3.r2 he, ?_⟩
  have := (h3.r1 _ he (Or.inl rfl)).2.2
  rw [h2.g1]
  exact this

example : ∃ s, Reach code (Cfg.ofBatch 10 2) s ∧ s.results = [.batch [7, 8], .batch [9], .endOK] ∧
    s.pulled = [7, 8, 9] :=
  ⟨_, reach_of_run Reach.init
    [.srcRet (.item 7), .prodSend, .fullRet false, .srcRet (.item 8), .nextCall true, .prodSend, .fullRet true,
     .deliver, .srcRet (.item 9), .prodSend, .fullRet false, .srcRet .eof, .prodCloseC, .recvCClosed,
     .nextCall true, .deliver, .batchExit, .nextCall true, .consClosed] rfl, by decide, by decide⟩

/-- Non-vacuity of the dependence on `Code.BgTied` (1): the same code with a deadline on `bgCtx`
(`context.WithTimeout(context.Background(), time.Minute)`). A consumer waits, nothing happens for a
minute, the deadline passes (`bgEnds`), the source's `Next` returns `DeadlineExceeded`, which the
producer's guard does not take for its own cancellation: `Next` reports an error although the source
neither ended nor failed. -/
example : ∃ s, Reach { good with bgOrigin := .deadline } (Cfg.ofBatch 10 2) s ∧ s.results = [.bgErr] ∧
    s.srcTerm = none ∧ s.bgCancelled = false :=
  ⟨_, reach_of_run Reach.init
    [.nextCall true, .announce, .tick 60000, .bgEnds, .prodCancelled, .prodCloseC, .recvCClosed, .batchExit,
     .consClosed] rfl, by decide, by decide, by decide⟩

/-- (2): `bgCancel` also handed to a timer (`time.AfterFunc(time.Hour, bgCancel)`). An item is in the
batch, the timer fires, the producer takes the `context.Canceled` for its own cancellation, the
batcher's end-of-input `flush` takes its `<-bgCtx.Done()` arm: `Next` reports `End` although the source
has not ended, and item 7 is lost. -/
example : ∃ s, Reach { good with bgCancelOnlyInClose := false } (Cfg.ofBatch 10 2) s ∧ s.results = [.endOK] ∧
    s.srcTerm = none ∧ s.pulled = [7] ∧ s.bgCancelled = false :=
  ⟨_, reach_of_run Reach.init
    [.srcRet (.item 7), .prodSend, .fullRet false, .tick 3600000, .bgEnds, .prodCancelled, .prodCloseC, .recvCClosed,
     .flushAbort, .batchExit, .nextCall true, .consClosed] rfl, by decide, by decide, by decide, by decide⟩

/-- (3): the producer gives the source another context (`s.Next(context.Background())`): after `Close`
nothing can wake the producer — the state is quiescent and `Close` has not returned. -/
example : ∃ s, Reach { good with srcNextGetsBg := false } (Cfg.ofBatch 10 2) s ∧ s.bgCancelled = true ∧
    s.closeReturned = false ∧ s.ppc = .next ∧
    internalLabels.all (fun l => (step { good with srcNextGetsBg := false } (Cfg.ofBatch 10 2) s l).isNone) = true :=
  ⟨_, reach_of_run Reach.init [.close] rfl, by decide, by decide, by decide, by decide⟩

/-- **Every batch is non-empty.** -/
theorem batch_nonempty {cfg : Cfg} {s : State} (h : Reach code cfg s) :
    (∀ d ∈ s.delivered, d.items ≠ []) ∧ (∀ b ∈ batchesOf s.results, b ≠ []) := by
  have h2 := inv2_reach (reach_good h)
  have hd : ∀ d ∈ s.delivered, d.items ≠ [] := by
    intro d hd hnil
    have := h2.d_ne d hd
    simp [hnil] at this
  refine ⟨hd, ?_⟩
  intro b hb
  rw [h2.g1] at hb
  obtain ⟨d, hd', rfl⟩ := List.mem_map.1 hb
  exact hd d hd'

/-- **A `Batch` batch holds at most `batchSize` items** (and one flushed because it was full holds
exactly `batchSize`). `batchSize ≥ 1` is the documented domain. -/
theorem batch_size_le {maxWait batchSize : Nat} (hn : 1 ≤ batchSize) {s : State}
    (h : Reach code (Cfg.ofBatch maxWait batchSize) s) :
    (∀ b ∈ batchesOf s.results, b.length ≤ batchSize) ∧
    (∀ d ∈ s.delivered, d.reason = .full → d.items.length = batchSize) ∧
    s.batch.length ≤ batchSize := by
  have h2 := inv2_reach (reach_good h)
  have h5 := inv5_reach (sizeCfg_ofBatch maxWait batchSize hn) (reach_good h)
  refine ⟨?_, h5.s4, h5.s1⟩
  intro b hb
  rw [h2.g1] at hb
  obtain ⟨d, hd', rfl⟩ := List.mem_map.1 hb
  exact h5.s3 d hd'

example : ∃ s, Reach code (Cfg.ofBatch 10 2) s ∧ s.results = [.batch [7, 8]] :=
  ⟨_, reach_of_run Reach.init
    [.srcRet (.item 7), .prodSend, .fullRet false, .srcRet (.item 8), .nextCall true, .prodSend, .fullRet true,
     .deliver] rfl, by decide⟩

/-- **An underfilled batch leaves early only after maxWait.** Every hand-over was made for one of
four reasons, and each reason carries its justification: `full` said so; the source had ended (`c`
closed, which without `Close` happens only after the source's `End`/error); or — the timer arm and the
"already elapsed" arm — the batch's oldest item had been with the batcher for at least `maxWait`
(`firstAt` = clock when the batcher received it; the code's `batchStart` lies in between). -/
theorem batch_underfilled_waited {cfg : Cfg} {s : State} (h : Reach code cfg s) :
    ∀ d ∈ s.delivered,
      (d.reason = .full ∧ cfg.fullOK d.items true = true) ∨
      (d.reason = .srcEnd ∧ s.srcTerm ≠ none) ∨
      ((d.reason = .timer ∨ d.reason = .waiter) ∧ d.firstAt ≤ d.start ∧ d.start + cfg.maxWait ≤ d.time ∧
        d.firstAt + cfg.maxWait ≤ d.time) := by
  have h2 := inv2_reach (reach_good h)
  have h3 := inv3_reach (reach_good h)
  intro d hd
  cases hr : d.reason with
  | full => exact Or.inl ⟨rfl, h2.d_full d hd hr⟩
  | srcEnd => exact Or.inr (Or.inl ⟨rfl, h3.d_end2 d hd hr⟩)
  | timer =>
    have := h2.d_wait d hd (Or.inl hr)
    exact Or.inr (Or.inr ⟨Or.inl rfl, this.2, this.1, by omega⟩)
  | waiter =>
    have := h2.d_wait d hd (Or.inr hr)
    exact Or.inr (Or.inr ⟨Or.inr rfl, this.2, this.1, by omega⟩)

/-- The same for `Batch`, in the property's words: a batch with fewer than `batchSize` items that is
handed out before the source has ended has an oldest item that waited at least `maxWait` — the
`maxWait` given to `Batch`: `Batch` forwards it unchanged to `BatchFunc` (regenerated argument of that
call, `hm` in the proof). -/
theorem batch_underfilled_waited_batch {maxWait batchSize : Nat} (hn : 1 ≤ batchSize) {s : State}
    (h : Reach code (Cfg.ofBatch maxWait batchSize) s) :
    ∀ d ∈ s.delivered, d.items.length < batchSize →
      (d.reason = .srcEnd ∧ s.srcTerm ≠ none) ∨ d.firstAt + maxWait ≤ d.time := by
  intro d hd hlt
  have hargs : Gen.Batch.batchCallArgs = ["s", "maxWait", "func"] := by decide
  have hm : (Cfg.ofBatch maxWait batchSize).maxWait = maxWait := by
    simp [Cfg.ofBatch, Gen.Batch.batchMaxWaitArg]
  have h5 := inv5_reach (sizeCfg_ofBatch maxWait batchSize hn) (reach_good h)
  rcases batch_underfilled_waited h d hd with hf | he | hw
  · have := h5.s4 d hd hf.1
    omega
  · exact Or.inl he
  · exact Or.inr (hm ▸ hw.2.2.2)

example : ∃ s, Reach code (Cfg.ofBatch 10 3) s ∧
    s.delivered = [{ items := [7], firstAt := 0, start := 0, time := 10, reason := .timer, toWaiter := true }] :=
  ⟨_, reach_of_run Reach.init
    [.nextCall true, .announce, .srcRet (.item 7), .prodSend, .fullRet false, .tick 10, .timerExpire, .recvTimer,
     .deliver] rfl, by decide⟩

/-- **…and then it is handed to a waiting consumer rather than held back.** For a consumer that has
announced itself (it is in the inner `select` of `Next`) while the batch is non-empty:

(0) regenerated facts beyond the arm tables: nothing but `Close` ends the background work
    (`Code.BgTied`); `stopTimer`, which runs on the way to the hand-over, drains `timerC` only under
    `!stopped && timerC != nil` (then a value is there: it does not block — runtime semantics, trusted).
(1) **the waiter is never forgotten** (safety): at the loop's `select` the timer is running for this
    batch, its channel is the one the `select` listens on, and its deadline is `batchStart + maxWait`
    or has already passed; inside `full` for the batch's first item the batcher remembers the waiter
    (`waitingAtEmpty`: it arms the timer right after the call), inside `full` for a later item the
    timer is running; in `flush` the hand-over to this very consumer is enabled and *serves* it
    (`Served`: its `Next` returns exactly this batch, logged as a hand-over to an announced waiter).
(2) **once `maxWait` has elapsed** (`Overdue`: `batchStart + maxWait ≤ now` on the batcher's clock,
    `batchStart` being this batch's):
    (a) *stability*: whatever happens next — any label, environment included — the state is `Overdue`
        again, or the consumer has been served with this batch, or it has left on its own expired
        context (`Served`);
    (b) *rank*: every step of a goroutine or of the runtime other than the hand-off `prodSend`
        serves the consumer or strictly decreases `waitRank` (≤ 9);
    (c) no step at all raises `waitRank` by more than `waitCost`: 3 for `prodSend` (each needs a
        fresh item from the source), 2 for the source's end / failure (once), 0 otherwise;
    (d) *enabledness*: a step as in (b) is enabled (the hand-over, the timer arm, the expiry of the
        timer — its deadline has passed —, or the return of `full`: `hfull`).
    So, unless the consumer leaves, it is served after at most `9 + 3·#prodSend + 2` further steps of
    the goroutines. What is **not** proved and is the fairness assumption (`checks/C11.json`): that
    Go's `select` in the batcher's loop does not take its `<-c` arm for ever while the timer arm is
    ready and the producer keeps offering items (`prodSend`, then `fullRet false`, is a cycle of
    constant rank), and that enabled steps are eventually taken (scheduler).
For `bpc = exit / done` see `batch_waiter_sees_end`. -/
theorem batch_handed_to_waiter {cfg : Cfg} (hfull : ∀ b, ∃ r, cfg.fullOK b r = true) {s : State}
    (h : Reach code cfg s) (hw : s.cons = .inner) (hne : s.batch ≠ []) :
    (code.BgTied ∧ Gen.Batch.stopTimerDrainCond = "!stopped && timerC != nil" ∧
      Gen.Batch.stopTimerDrainChan = "timerC") ∧
    ((s.bpc = .sel → s.timer ≠ .idle ∧ s.timerCSet = true ∧
        ∀ t, s.timer = .armed t → t = s.batchStart + cfg.maxWait ∨ (s.batchStart + cfg.maxWait ≤ t ∧ t ≤ s.now)) ∧
      (s.bpc = .inFull → s.batch.length = 1 → s.waitingAtEmpty = true) ∧
      (s.bpc = .inFull → 2 ≤ s.batch.length → s.timer ≠ .idle ∧ s.timerCSet = true) ∧
      (∀ r, s.bpc = .flush r → ∃ s', step code cfg s .deliver = some s' ∧ Served s s')) ∧
    (Overdue cfg s →
      (∀ l s', step code cfg s l = some s' → Overdue cfg s' ∨ Served s s') ∧
      (∀ l s', l.internal = true → l ≠ .prodSend → step code cfg s l = some s' →
        Served s s' ∨ waitRank s' < waitRank s) ∧
      (∀ l s', step code cfg s l = some s' → Served s s' ∨ waitRank s' ≤ waitRank s + waitCost l) ∧
      (∃ l, l.internal = true ∧ l ≠ .prodSend ∧ (step code cfg s l).isSome = true) ∧
      waitRank s ≤ 9) := by
  have h1 := inv1_reach (reach_good h)
  have h3 := inv3_reach (reach_good h)
  have h4 := inv4_reach (reach_good h)
  have hpos : 0 < s.batch.length := List.length_pos_iff.2 hne
  refine ⟨⟨by decide, by decide, by decide⟩, ?_⟩
  rw [code_is_good]
  refine ⟨⟨?_, ?_, ?_, ?_⟩, ?_⟩
  · intro hb
    have ht := h4.j1 hw hb hpos
    exact ⟨ht, h1.t_set (Or.inl hb) ht, h1.t_armed (Or.inl hb)⟩
  · intro hb hl; exact h4.j3 hw hb hl
  · intro hb hl
    have ht := h4.j4 hw hb hl
    exact ⟨ht, h1.t_set (Or.inr hb) ht⟩
  · intro r hb
    cases r <;> simp [step, hb, hw, good, afterFull, Gen.Batch.firstItemCond, Served]
  · intro hO
    exact ⟨fun l s' hs => waiter_stable h1 h3 hO hs, fun l s' hl hp hs => waiter_rank h1 h3 hO hl hp hs,
      fun l s' hs => waiter_cost h1 h3 hO hs, waiter_enabled h1 h3 h4 (hfull _) hO, waitRank_le s⟩

/-- an overdue waiter at the loop's `select` with the timer still to expire … -/
example : ∃ s, Reach code (Cfg.ofFunc 10) s ∧ Overdue (Cfg.ofFunc 10) s ∧ s.batch = [7, 8] ∧ s.bpc = .sel ∧
    s.timer = .armed 10 ∧ waitRank s = 3 :=
  ⟨_, reach_of_run Reach.init
    [.srcRet (.item 7), .prodSend, .fullRet false, .tick 4, .nextCall true, .announce, .srcRet (.item 8),
     .prodSend, .fullRet false, .tick 6] rfl, by decide, by decide, by decide, by decide, by decide⟩

/-- … and one while the batcher is inside `full` for a second item (the state the earlier version of
this theorem was silent about); from here `fullRet false, timerExpire, recvTimer, deliver` serves it -/
example : ∃ s s', Reach code (Cfg.ofFunc 10) s ∧ Overdue (Cfg.ofFunc 10) s ∧ s.bpc = .inFull ∧ waitRank s = 6 ∧
    run code (Cfg.ofFunc 10) s [.fullRet false, .timerExpire, .recvTimer, .deliver] = some s' ∧
    s'.results = [.batch [7, 8]] ∧ s'.delivered.map (·.toWaiter) = [true] :=
  ⟨_, _, reach_of_run Reach.init [.srcRet (.item 7), .prodSend, .fullRet false, .nextCall true, .announce,
     .srcRet (.item 8), .prodSend, .tick 100] rfl, by decide, by decide, by decide, rfl, by decide, by decide⟩

/-- **A waiting consumer learns that the stream is over.** Once the batcher has left its loop (`exit`:
its deferred `timer.Stop(); close(out.batchC)` is the enabled step; `done`: `batchC` is closed) a
pending `Next`, whether in the outer or in the inner `select`, has its closed-channel arm enabled, and
taking it makes the call return `End`, or the source's error if the source had failed. (The other half
of "not held back": what the waiter gets when there will be no further batch. Enabledness of the one
step; that it is taken is scheduler fairness.) -/
theorem batch_waiter_sees_end {cfg : Cfg} {s : State} (h : Reach code cfg s) (hc : s.cons ≠ .idle) :
    (s.bpc = .exit → (step code cfg s .batchExit).isSome = true) ∧
    (s.bpc = .done → ∃ s', step code cfg s .consClosed = some s' ∧ s'.cons = .idle ∧
      (s'.results = s.results ++ [.endOK] ∨ s'.results = s.results ++ [.srcErr])) := by
  have h0 := inv0_reach (reach_good h)
  rw [code_is_good]
  exact waiter_sees_end h0 hc

example : ∃ s, Reach code (Cfg.ofBatch 10 2) s ∧ s.cons = .inner ∧ s.bpc = .done :=
  ⟨_, reach_of_run Reach.init
    [.nextCall true, .announce, .srcRet .eof, .prodCloseC, .recvCClosed, .batchExit] rfl, by decide, by decide⟩

/-- **A source error is reported after the items that preceded it** (C08): when `Next` reports the
source's error, the source did fail and every item it handed out before failing has been returned in
a batch; the error is never replaced by the normal end (and `End` is reported only for a source that
ended normally); and once the error (or the end) has been reported no later `Next` returns a batch.
"The source failed" (`srcTerm = some .err`) includes a source that fails *of its own accord* with
`context.Canceled` or an error wrapping it (label `srcCancelErr`) while nobody has cancelled anything:
(0) the regenerated guard of the producer's "my own cancellation" branch is false whenever `bgCtx` is
live, whatever the error, and the producer / `Next` have no other statement between the source's
`Next` and `out.err = err` resp. between the closed `batchC` and `return nil, iter.err` (regenerated
control skeletons); and `bgCtx`, the only other thing that can make the source's `Next` fail, ends only
through `Close` (`Code.BgTied`, regenerated: origin of `bgCtx`, every use of `bgCancel` and of `bgCtx`).
So the error a `Next` reports is the source's, never the background context's (`bgErr`: with a
deadline on `bgCtx` it would be `context.DeadlineExceeded` out of nowhere — example after
`batch_partition`). -/
theorem batch_error_after_items {cfg : Cfg} {s : State} (h : Reach code cfg s) :
    ((∀ errEq errIs, Gen.Batch.prodCancelGuard errEq errIs false false = false) ∧
      Gen.Skeleton.batchProducer = Model.Skeleton.batchProducer ∧ Gen.Skeleton.batchNext = Model.Skeleton.batchNext ∧
      code.BgTied) ∧
    (.bgErr ∉ s.results ∧ s.bgExpired = false) ∧
    (.srcErr ∈ s.results → s.srcTerm = some .err ∧ (batchesOf s.results).flatten = s.pulled) ∧
    (s.srcTerm = some .err → .endOK ∉ s.results) ∧
    (.endOK ∈ s.results → s.srcTerm = some .eof) ∧
    ((.srcErr ∈ s.results ∨ .endOK ∈ s.results) →
      ∀ l s', step code cfg s l = some s' → batchesOf s'.results = batchesOf s.results) := by
  have h2 := inv2_reach (reach_good h)
  have h3 := inv3_reach (reach_good h)
  have h0 := inv0_reach (reach_good h)
  refine ⟨⟨by decide, by decide, by decide, by decide⟩, ⟨h0.x3, h0.x1⟩, ?_, ?_, h3.r2, ?_⟩
  · intro he
    refine ⟨h3.r3 he, ?_⟩
    have := (h3.r1 _ he (Or.inr rfl)).2.2
    rw [h2.g1]
    exact this
  · intro he hend
    have := h3.r2 hend
    rw [he] at this
    cases this
  · intro hterm l s' hs
    have hdone : s.bpc = .done := by
      rcases hterm with he | he
      · exact h3.e1 (h3.r1 _ he (Or.inr rfl)).1
      · exact h3.e1 (h3.r1 _ he (Or.inl rfl)).1
    rw [code_is_good] at hs
    cases l <;> unfold_step at hs <;> (repeat' split at hs) <;> cases hs <;>
      first | rfl | (simp; done) | (simp_all; done) | (rename_i hflush; rw [hdone] at hflush; cases hflush) | grind

example : ∃ s, Reach code (Cfg.ofBatch 10 2) s ∧ s.results = [.batch [7], .srcErr] ∧ s.pulled = [7] :=
  ⟨_, reach_of_run Reach.init
    [.srcRet (.item 7), .prodSend, .fullRet false, .srcRet .err, .prodCloseC, .recvCClosed,
     .nextCall true, .deliver, .batchExit, .nextCall true, .consClosed] rfl, by decide, by decide⟩

/-- a source that fails on its own with `context.Canceled` (bare, then wrapped) while nobody cancelled
anything: the error is reported after the item, not the normal end -/
example : ∃ s, Reach code (Cfg.ofBatch 10 2) s ∧ s.results = [.batch [7], .srcErr] ∧ s.srcTerm = some .err ∧
    s.bgCancelled = false :=
  ⟨_, reach_of_run Reach.init
    [.srcRet (.item 7), .prodSend, .fullRet false, .srcCancelErr false, .prodCloseC, .recvCClosed,
     .nextCall true, .deliver, .batchExit, .nextCall true, .consClosed] rfl, by decide, by decide, by decide⟩
example : ∃ s, Reach code (Cfg.ofBatch 10 2) s ∧ s.results = [.srcErr] ∧ s.srcTerm = some .err :=
  ⟨_, reach_of_run Reach.init
    [.srcCancelErr true, .prodCloseC, .recvCClosed, .batchExit, .nextCall true, .consClosed] rfl, by decide, by decide⟩
/-- after `Close`, a bare `context.Canceled` out of the source is the producer's own cancellation -/
example : ∃ s, Reach code (Cfg.ofBatch 10 2) s ∧ s.bgCancelled = true ∧ s.err = false ∧ s.ppc = .closeC :=
  ⟨_, reach_of_run Reach.init [.close, .srcCancelErr false] rfl, by decide, by decide, by decide⟩

/-- **A `Next` that fails on its expired context costs nothing** (C08): the failing step changes
nothing but the call's own bookkeeping, the batches returned by the other calls are unaffected, and
(by `batch_partition`, which holds in every reachable state, whatever calls failed before) the next
calls continue the sequence exactly where it was. -/
theorem batch_ctx_costs_nothing {cfg : Cfg} {s s' : State} (h : Reach code cfg s)
    (hs : step code cfg s .consCtx = some s') :
    s' = { s with cons := .idle, results := s.results ++ [.ctxErr] } ∧
    batchesOf s'.results = batchesOf s.results ∧
    (s'.bgCancelled = false → flat s'.delivered ++ s'.batch ++ inTransit s' = s'.pulled) := by
  have hp := (batch_partition (Reach.step _ h hs)).2.1
  simp only [step] at hs
  split at hs
  · cases hs
    refine ⟨rfl, by simp, hp⟩
  · cases hs

example : ∃ s, Reach code (Cfg.ofBatch 10 2) s ∧ s.results = [.ctxErr, .batch [7, 8]] :=
  ⟨_, reach_of_run Reach.init
    [.srcRet (.item 7), .prodSend, .fullRet false, .nextCall true, .announce, .ctxExpire, .consCtx,
     .srcRet (.item 8), .prodSend, .fullRet true, .nextCall true, .deliver] rfl, by decide⟩

/-- **Close always returns.** `Close` is `bgCancel(); wg.Wait()` over two goroutines
(`code_order_facts`). What is proved, for every reachable state in which `bgCancel()` has run
(`Close` is taken between consumer calls only: the Stream contract, listed as an assumption):

(0) regenerated facts this rests on: `Close`, `flush` and `stopTimer` consist of the statements the
    model has and no others (control skeletons); `bgCtx` is what the source's `Next` is given and what
    the hand-off and `flush` select on (`Code.BgTied`); `stopTimer`'s only blocking-looking statement,
    the drain `<-timerC`, is guarded by `!stopped && timerC != nil` — with Go's timers a value is (or
    is about to be, asynchronous timer channels) in the channel exactly then, so it does not block: a
    property of the runtime, trusted, not proved here;
(1) every step of the producer, the batcher or the runtime keeps `bgCtx` cancelled and strictly
    decreases `measure` (≤ 16);
(2) **run-level bound**: along *any* run from here — environment steps included — the context stays
    cancelled and `measure(end) + #internal steps ≤ measure(start) + 4 · #items`, where `#items`
    counts the labels `srcRet (.item _)` of the run: the only way the environment can raise the
    measure is a source that still hands out an item after `Close` (it need not look at its context
    first). So the goroutines take at most `16 + 4 · #items` steps; *if the source hands out only
    finitely many more items*, only finitely many internal steps can happen. (Without that assumption
    the statement "only finitely many" is false in the model: `srcRet item; prodSend; fullRet false`
    is a cycle of constant measure — the batcher's loop has no `<-bgCtx.Done()` arm and keeps
    receiving, and the producer's `select` may prefer `c <- item` to `<-bgCtx.Done()` for ever.)
(3) a state in which no internal step is enabled has both goroutines finished and `wg.Wait()`
    returned (`closeReturned`): the only quiescent state after `Close` is "Close has returned".

Assumptions, all named in `checks/C11.json`: the user's `full` returns (`hfull`); a source `Next`
blocked on the cancelled `bgCtx` returns (the `prodCancelled` step is internal); after `Close` the
source hands out only finitely many more items (or else: the producer's `select` between
`c <- item` and `<-bgCtx.Done()` is fair — not formalised); for "eventually" in wall-clock terms,
that enabled steps are taken (scheduler). -/
theorem batch_close_returns {cfg : Cfg} (hfull : ∀ b, ∃ r, cfg.fullOK b r = true) {s : State}
    (h : Reach code cfg s) (hc : s.bgCancelled = true) :
    (Gen.Skeleton.batchClose = Model.Skeleton.batchClose ∧ Gen.Skeleton.batchFlush = Model.Skeleton.batchFlush ∧
      Gen.Skeleton.batchStopTimer = Model.Skeleton.batchStopTimer ∧ code.BgTied ∧
      Gen.Batch.stopTimerDrainCond = "!stopped && timerC != nil" ∧ Gen.Batch.stopTimerDrainChan = "timerC") ∧
    (∀ l s', l.internal = true → step code cfg s l = some s' →
      s'.bgCancelled = true ∧ measure s' < measure s ∧ measure s ≤ 16) ∧
    (∀ ls s', run code cfg s ls = some s' →
      s'.bgCancelled = true ∧ measure s' + internalCount ls ≤ measure s + 4 * itemCount ls) ∧
    (Quiescent code cfg s → s.ppc = .done ∧ s.bpc = .done ∧ s.closeReturned = true) := by
  have h1 := inv1_reach (reach_good h)
  have h3 := inv3_reach (reach_good h)
  refine ⟨⟨by decide, by decide, by decide, by decide, by decide, by decide⟩, ?_⟩
  rw [code_is_good]
  exact ⟨fun l s' hl hs => ⟨(measure_decreases h1 hc hl hs).1, (measure_decreases h1 hc hl hs).2, measure_le s⟩,
    close_run_bound (reach_good h) hc, fun hq => quiescent_closed h3 (hfull _) hc hq⟩

/-- the producer is ahead (blocked handing over item 9 while the batcher holds a full batch nobody
asked for) when Close is called — the situation of the repaired deadlock -/
example : ∃ s, Reach code (Cfg.ofBatch 10 2) s ∧ s.bgCancelled = true ∧ s.ppc = .send 9 ∧
    s.bpc = .flush .full :=
  ⟨_, reach_of_run Reach.init
    [.srcRet (.item 7), .prodSend, .fullRet false, .srcRet (.item 8), .prodSend, .fullRet true,
     .srcRet (.item 9), .close] rfl, by decide⟩

/-- why (2) counts items: after `Close` a source that ignores its context hands out item 2, the
producer's `select` takes `c <- item`, `full` says no — the same control state, the same measure:
three more steps for one more item -/
example : ∃ s s', Reach code (Cfg.ofFunc 10) s ∧ s.bgCancelled = true ∧
    run code (Cfg.ofFunc 10) s [.srcRet (.item 2), .prodSend, .fullRet false] = some s' ∧
    measure s' = measure s ∧ s'.closeReturned = false ∧ s'.ppc = s.ppc ∧ s'.bpc = s.bpc ∧
    internalCount [.srcRet (.item 2), .prodSend, .fullRet false] = 2 ∧
    itemCount [.srcRet (.item 2), .prodSend, .fullRet false] = 1 :=
  ⟨_, _, reach_of_run Reach.init [.close, .srcRet (.item 1), .prodSend, .fullRet false] rfl,
   by decide, rfl, by decide, by decide, by decide, by decide, by decide, by decide⟩

/-- **The source is closed exactly once by the time Close returns, never used after, and its Next
and Close never overlap** (C09): the source's `Close` has been called at most once, exactly once when
`Close` of the stream has returned; the source never saw `Next` after `Close`; while a `Next` of the
source is pending its `Close` has not been called, and `Close` is only ever called by the goroutine
that calls `Next`, after its last `Next` returned. The model runs the producer's deferred calls in
the order `close(c)`, `s.Close()`, `wg.Done()`; that this is the source's order is `code_order_facts`.
First conjunct: the producer leaves its loop (and closes the source) only on the source's own
end / error or after `Close` — `bgCtx` has no other way to end, and it is the context the source's
`Next` is given (`Code.BgTied`, regenerated). -/
theorem batch_source_closed_once {cfg : Cfg} {s : State} (h : Reach code cfg s) :
    code.BgTied ∧
    s.srcCloses ≤ 1 ∧
    (s.closeReturned = true → s.srcCloses = 1) ∧
    s.srcNextAfterClose = false ∧
    (s.ppc = .next → s.srcCloses = 0) ∧
    (∀ s', step code cfg s .prodCloseSrc = some s' → s.ppc = .closeSrc) := by
  have h3 := inv3_reach (reach_good h)
  refine ⟨by decide, ?_, ?_, h3.h2, ?_, ?_⟩
  · rw [h3.h1]; split <;> omega
  · intro hr; rw [h3.h1, (h3.h3 hr).1]; rfl
  · intro hp; rw [h3.h1, hp]; rfl
  · intro s' hs
    simp only [step] at hs
    split at hs
    · assumption
    · cases hs

example : ∃ s, Reach code (Cfg.ofBatch 10 2) s ∧ s.closeReturned = true ∧ s.srcCloses = 1 ∧ s.srcNexts = 2 :=
  ⟨_, reach_of_run Reach.init
    [.srcRet (.item 7), .prodSend, .fullRet false, .srcRet (.item 8), .prodSend, .fullRet true, .close,
     .flushAbort, .batchExit, .prodCancelled, .prodCloseC, .prodCloseSrc, .closeReturn] rfl, by decide⟩

end Juniper.Props.C11
