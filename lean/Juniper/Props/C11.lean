import Juniper.Model.Batch
/-!
# C11 — stream.Batch / BatchFunc (property theorems)
-/
namespace Juniper.Props.C11
open Juniper.Model.Batch

/-- The arm tables and statement facts regenerated from `stream.go` are the ones the proofs below are
about. -/
theorem code_facts : code.loopRecvC = true ∧ code.loopRecvTimer = true ∧ code.loopRecvWaiting = true := by
  decide

end Juniper.Props.C11
