import Juniper.Proofs.PipeMeasure
import Juniper.Proofs.PipeFifo
/-!
# C10 — progress of `stream.Pipe` by a global measure

`Props/C10.lean` proves "no stuck call" per call: a pending `Send` / `TrySend` / `Next` whose return
condition holds has an enabled step, each of its own steps brings it closer to its return (`stage`,
`rstage`), and the condition is stable. This file adds the *global* form: `mu` (the stages of all pending
calls summed) is strictly decreased by **every** internal step of the LTS, whichever goroutine takes it;
hence no run of internal steps is longer than `2·senders + 2` — the library cannot keep itself busy — and
a quiescent state is exactly one in which every pending call waits for an action of the environment
(the peer calling `Next` / `Send`, a `Close`, a context expiry): the pipe never waits on itself.
-/
namespace Juniper.Props.C10Progress
open Juniper.Facts Juniper.Gen.Pipe Juniper.Model.Pipe Juniper.Proofs.Pipe

/-- **Internal steps terminate (Pipe).** Every internal step (a `select` arm of a pending `Send`,
`TrySend` or `Next`, a rendez-vous on the unbuffered channel) strictly decreases `mu`, in every state;
`mu ≤ 2·senders + 2`; so a run of internal steps from `st` has at most `mu st` steps and there is no
infinite one. -/
theorem pipe_internal_steps_terminate (st : State) :
    (∀ l st', step st l = some st' → l.internal = true → mu st' < mu st) ∧
    mu st ≤ 2 * st.senders.length + 2 ∧
    (∀ ls st', (∀ l ∈ ls, l.internal = true) → run st ls = some st' → ls.length + mu st' ≤ mu st) ∧
    ¬ ∃ σ : Nat → State, σ 0 = st ∧ ∀ n, ∃ l, l.internal = true ∧ step (σ n) l = some (σ (n + 1)) := by
  refine ⟨fun l st' h hl => mu_decreases h hl, mu_le st, fun ls st' hl hr => run_mu hr hl, ?_⟩
  rintro ⟨σ, h0, hσ⟩
  have key : ∀ n, n + mu (σ n) ≤ mu (σ 0) := by
    intro n
    induction n with
    | zero => simp
    | succ n ih =>
      obtain ⟨l, hl, hst⟩ := hσ n
      have := mu_decreases hst hl
      omega
  have := key (mu (σ 0) + 1)
  omega

/-- non-vacuity: sender 0 parked in `Send 9` on a full buffer, sender 1 at the first `select` of
`TrySend 8`: measure 3; the two `default` arms of the `TrySend` bring it to 1 -/
example : ∃ st st', Reach (init 2 1) st ∧ mu st = 3 ∧
    run st [.sender 1 .dflt, .sender 1 .dflt] = some st' ∧ mu st' = 1 :=
  ⟨after (init 2 1) [.startSend 0 7 false, .sender 0 (.send chData), .startSend 0 9 false, .startTry 1 8 false], _,
   reach_after (by decide), by decide, rfl, by decide⟩

/-- **In a quiescent state every pending call waits for the environment (Pipe).** If no internal step is
enabled then: no `TrySend` is pending (it never waits); a pending `Send` has a live context, neither the
receiver nor the sender is closed, the buffer is full and no receiver is there for a rendez-vous — it
waits for a `Next`, a `Close` or its context; the receiver is not in the drain (the drain never waits);
a pending `Next` has a live context, an empty buffer, an open sender and no sender offering a value — it
waits for a `Send`, the sender's `Close` or its context. The facts used about the regenerated tables
(the three `Done` arms and the data arm of `Send`, both `default` arms of `TrySend`, the arms of `Next`
and of its drain) are discharged here by `decide`. -/
theorem pipe_quiescent_calls_wait_for_environment (st : State) (hq : Quiescent st) :
    (∀ (i : Nat) (sd : Sender) (m : Msg), st.senders[i]? = some sd → sd.pc ≠ .try1 m ∧ sd.pc ≠ .try2 m) ∧
    (∀ (i : Nat) (sd : Sender) (m : Msg), st.senders[i]? = some sd → sd.pc = .send m →
      st.streamDone = false ∧ st.senderDone = false ∧ sd.ctx = false ∧ st.cap ≤ st.buf.length ∧
      canHandoff st sd = false) ∧
    st.rpc ≠ .drain ∧
    (st.rpc = .next → st.buf = [] ∧ st.senderDone = false ∧ st.rctx = false ∧
      ∀ sd ∈ st.senders, canHandoff st sd = false) :=
  quiescent_waits ⟨⟨by decide, by decide, by decide⟩, by decide, ⟨by decide, by decide, by decide⟩,
    ⟨by decide, by decide, by decide, fun _ => by decide, fun _ => by decide, by decide⟩, by decide⟩ hq

/-- non-vacuity: a quiescent state with a pending call — sender 0 parked in `Send 9` on the full
buffer of a pipe nobody reads -/
example : ∃ st sd, Reach (init 2 1) st ∧ st.senders[0]? = some sd ∧ sd.pc = .send ⟨0, 1, 9⟩ ∧
    (∀ l ∈ ([.handoff 0, .handoff 1, .recv .dflt, .recv (.recv chData), .recv (.recv chCtx), .recv (.recv chSenderDone),
        .sender 0 (.send chData), .sender 0 (.recv chCtx), .sender 0 (.recv chStreamDone), .sender 0 (.recv chSenderDone),
        .sender 0 .dflt, .sender 1 .dflt] : List Label), step st l = none) ∧ mu st = 1 :=
  ⟨after (init 2 1) [.startSend 0 7 false, .sender 0 (.send chData), .startSend 0 9 false], _,
   reach_after (by decide), rfl, rfl, by decide, by decide⟩

end Juniper.Props.C10Progress
