import Juniper.Proofs.PipeMeasure
import Juniper.Proofs.PipeFifo
/-!
# C10 — progress of `stream.Pipe` by a global measure

`Props/C10.lean` proves "no stuck call" per call: a pending `Send` / `TrySend` / `Next` whose return
condition holds has an enabled step, each of its own steps brings it closer to its return (`stage`,
`rstage`), and the condition is stable. This file adds the *global* form: `mu` (the stages of all pending
calls summed) is strictly decreased by **every** internal step of the LTS (arms, rendez-vous, parking),
whichever goroutine takes it; hence no run of internal steps is longer than `2·senders + 3` — the library
cannot keep itself busy — and a quiescent state is exactly one in which every pending call is parked and
waits for an action of the environment (the peer calling `Next` / `Send`, a `Close`, a context expiry):
the pipe never waits on itself; on an unbuffered pipe a `Send` and a `Next` never both wait.

No fairness assumption is used in this file: the statements are about which steps are enabled and
about the measure, in every state. Environment labels (a call being started, `Close`, a context
expiring) are not internal and may raise `mu`.
-/
namespace Juniper.Props.C10Progress
open Juniper.Facts Juniper.Gen.Pipe Juniper.Model.Pipe Juniper.Proofs.Pipe

/-- **Internal steps terminate (Pipe).** Every internal step (labels `sender i a`, `recv a`, `handoff i`,
`park i`, `parkRecv`: a `select` arm of a pending `Send`, `TrySend` or `Next`, a rendez-vous on the
unbuffered channel, a blocking `select` parking) strictly decreases `mu`, in every state (reachable or
not); `mu ≤ 2·senders + 3`; so a run of internal steps from `st` has at most `mu st` steps and there is no
infinite one. Environment labels are not covered (they start new calls). -/
theorem pipe_internal_steps_terminate (st : State) :
    (∀ l st', step st l = some st' → l.internal = true → mu st' < mu st) ∧
    mu st ≤ 2 * st.senders.length + 3 ∧
    (∀ ls st', (∀ l ∈ ls, l.internal = true) → run st ls = some st' → ls.length + mu st' ≤ mu st) ∧
    ¬ ∃ σ : Nat → State, σ 0 = st ∧ ∀ n, ∃ l, l.internal = true ∧ step (σ n) l = some (σ (n + 1)) := by
  refine ⟨fun l st' h hl => mu_decreases h hl, mu_le st, fun ls st' hl hr => run_mu hr hl, ?_⟩
  rintro ⟨σ, h0, hσ⟩
  have key : ∀ n, n + mu (σ n) ≤ mu (σ 0) := by
    intro n
    induction n with
    | zero => simp
    | succ n ih =>
      obtain ⟨l, hl, hst⟩ := hσ n
      have := mu_decreases hst hl
      omega
  have := key (mu (σ 0) + 1)
  omega

/-- non-vacuity: sender 0 polling in `Send 9` on a full buffer, sender 1 at the first `select` of
`TrySend 8`: measure 4; the two `default` arms of the `TrySend` and the parking of the `Send` bring it to 1 -/
example : ∃ st st', Reach (init 2 1) st ∧ mu st = 4 ∧
    run st [.sender 1 .dflt, .park 0, .sender 1 .dflt] = some st' ∧ mu st' = 1 :=
  ⟨after (init 2 1) [.startSend 0 7 false, .sender 0 (.send chData), .startSend 0 9 false, .startTry 1 8 false], _,
   reach_after (by decide), by decide, rfl, by decide⟩

/-- **In a quiescent state every pending call is parked and waits for the environment (Pipe).** If no
internal step is enabled (in any state, reachable or not) then: no `TrySend` is pending (it never waits);
a pending `Send` is parked, has a live context, neither the receiver nor the sender is closed, the buffer
is full and no rendez-vous is possible — it waits for a `Next`, a `Close` or its context; the receiver is
not in the drain (the drain never waits); a pending `Next` is parked, has a live context, an empty buffer,
an open sender and no rendez-vous possible — it waits for a `Send`, the sender's `Close` or its context.
The facts used about the regenerated tables (the three `Done` arms and the data arm of `Send`, both
`default` arms of `TrySend`, the arms of `Next` and of its drain) are discharged here by `decide`. -/
theorem pipe_quiescent_calls_wait_for_environment (st : State) (hq : Quiescent st) :
    (∀ (i : Nat) (sd : Sender) (m : Msg), st.senders[i]? = some sd → sd.pc ≠ .try1 m ∧ sd.pc ≠ .try2 m) ∧
    (∀ (i : Nat) (sd : Sender) (m : Msg) (p : Bool), st.senders[i]? = some sd → sd.pc = .send m p →
      p = true ∧ st.streamDone = false ∧ st.senderDone = false ∧ sd.ctx = false ∧ st.cap ≤ st.buf.length ∧
      canHandoff st sd = false) ∧
    st.rpc ≠ .drain ∧
    (∀ p : Bool, st.rpc = .next p → p = true ∧ st.buf = [] ∧ st.senderDone = false ∧ st.rctx = false ∧
      ∀ sd ∈ st.senders, canHandoff st sd = false) :=
  quiescent_waits ⟨⟨by decide, by decide, by decide⟩, by decide, ⟨by decide, by decide, by decide⟩,
    ⟨by decide, by decide, by decide, fun _ => by decide, fun _ => by decide, by decide⟩, by decide⟩ hq

/-- non-vacuity: a quiescent state with a pending call — sender 0 parked in `Send 9` on the full
buffer of a pipe nobody reads -/
example : ∃ st sd, Reach (init 2 1) st ∧ st.senders[0]? = some sd ∧ sd.pc = .send ⟨0, 1, 9⟩ true ∧
    (∀ l ∈ ([.handoff 0, .handoff 1, .park 0, .park 1, .parkRecv, .recv .dflt, .recv (.recv chData), .recv (.recv chCtx), .recv (.recv chSenderDone),
        .sender 0 (.send chData), .sender 0 (.recv chCtx), .sender 0 (.recv chStreamDone), .sender 0 (.recv chSenderDone),
        .sender 0 .dflt, .sender 1 .dflt] : List Label), step st l = none) ∧ mu st = 1 :=
  ⟨after (init 2 1) [.startSend 0 7 false, .sender 0 (.send chData), .startSend 0 9 false, .park 0], _,
   reach_after (by decide), rfl, rfl, by decide, by decide⟩

/-- **On an unbuffered pipe a `Send` and a `Next` never both wait.** In a reachable quiescent state of a pipe
with `bufferSize = 0` there is no pending `Send` together with a pending `Next`: by the theorem above
both would be parked, and the wait-queue discipline of the LTS (`park` is enabled only when the poll
finds no parked partner; proved invariant `QInv`) excludes that. Together with
`pipe_internal_steps_terminate`: from any reachable state with a pending `Send` and a pending `Next`,
every maximal run of internal steps ends with at least one of them returned. -/
theorem pipe_unbuffered_send_and_next_never_both_wait {n : Nat} {st : State}
    (hr : Reach (init n 0) st) (hq : Quiescent st)
    {i : Nat} {sd : Sender} {m : Msg} {p q : Bool}
    (hsd : st.senders[i]? = some sd) (hpc : sd.pc = .send m p) (hn : st.rpc = .next q) : False := by
  have hcap : st.cap = 0 := by
    have : ∀ {st}, Reach (init n 0) st → st.cap = 0 := by
      intro st hr
      induction hr with
      | refl => simp [init, chanCap]
      | step _ hs ih => rw [cap_step hs, ih]
    exact this hr
  exact quiescent_unbuffered_not_both
    ⟨⟨by decide, by decide, by decide⟩, by decide, ⟨by decide, by decide, by decide⟩,
     ⟨by decide, by decide, by decide, fun _ => by decide, fun _ => by decide, by decide⟩, by decide⟩
    hr hcap hq hsd hpc hn

/-- non-vacuity: reachable quiescent states of an unbuffered pipe with a waiting `Send` only, and with a
waiting `Next` only -/
example : ∃ st, Reach (init 1 0) st ∧ st.senders[0]?.map (·.pc) = some (.send ⟨0, 0, 5⟩ true) ∧ st.rpc = .idle ∧
    (∀ l ∈ ([.handoff 0, .park 0, .parkRecv, .sender 0 (.send chData), .sender 0 (.recv chCtx),
        .sender 0 (.recv chStreamDone), .sender 0 (.recv chSenderDone)] : List Label), step st l = none) :=
  ⟨after (init 1 0) [.startSend 0 5 false, .park 0], reach_after (by decide), by decide, by decide, by decide⟩
example : ∃ st, Reach (init 1 0) st ∧ st.rpc = .next true ∧
    (∀ l ∈ ([.handoff 0, .park 0, .parkRecv, .recv (.recv chData), .recv (.recv chCtx), .recv (.recv chSenderDone)] : List Label),
      step st l = none) :=
  ⟨after (init 1 0) [.startNext false, .parkRecv], reach_after (by decide), by decide, by decide⟩

end Juniper.Props.C10Progress
