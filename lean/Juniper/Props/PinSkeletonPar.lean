-- Tie theorems of the pins (written by `gofacts -pin` together with Juniper/Pinned/SkeletonPar.lean; see notes/pins.md).
-- Each says: the declaration gofacts reads from the tree under check today is, up to the names of its locals,
-- the one the author of the model saw. `rfl` on two literals: kernel-checked, no axioms.
import Juniper.Generated.PinSkeletonPar
import Juniper.Pinned.SkeletonPar

namespace Juniper.Props.PinSkeletonPar

theorem pin_parallel_Do_ok : Juniper.Gen.PinSkeletonPar.pin_parallel_Do = Juniper.Pinned.SkeletonPar.pin_parallel_Do := by rfl
theorem pin_parallel_DoContext_ok : Juniper.Gen.PinSkeletonPar.pin_parallel_DoContext = Juniper.Pinned.SkeletonPar.pin_parallel_DoContext := by rfl
theorem pin_parallel_Map_ok : Juniper.Gen.PinSkeletonPar.pin_parallel_Map = Juniper.Pinned.SkeletonPar.pin_parallel_Map := by rfl
theorem pin_parallel_MapContext_ok : Juniper.Gen.PinSkeletonPar.pin_parallel_MapContext = Juniper.Pinned.SkeletonPar.pin_parallel_MapContext := by rfl
theorem pin_parallel_MapIterator_ok : Juniper.Gen.PinSkeletonPar.pin_parallel_MapIterator = Juniper.Pinned.SkeletonPar.pin_parallel_MapIterator := by rfl
theorem pin_parallel_MapStream_ok : Juniper.Gen.PinSkeletonPar.pin_parallel_MapStream = Juniper.Pinned.SkeletonPar.pin_parallel_MapStream := by rfl
theorem pin_parallel_mapIterator_Next_ok : Juniper.Gen.PinSkeletonPar.pin_parallel_mapIterator_Next = Juniper.Pinned.SkeletonPar.pin_parallel_mapIterator_Next := by rfl
theorem pin_parallel_mapStream_Close_ok : Juniper.Gen.PinSkeletonPar.pin_parallel_mapStream_Close = Juniper.Pinned.SkeletonPar.pin_parallel_mapStream_Close := by rfl
theorem pin_parallel_mapStream_Next_ok : Juniper.Gen.PinSkeletonPar.pin_parallel_mapStream_Next = Juniper.Pinned.SkeletonPar.pin_parallel_mapStream_Next := by rfl
theorem pin_xsync_Group_Do_ok : Juniper.Gen.PinSkeletonPar.pin_xsync_Group_Do = Juniper.Pinned.SkeletonPar.pin_xsync_Group_Do := by rfl
theorem pin_xsync_Group_Periodic_ok : Juniper.Gen.PinSkeletonPar.pin_xsync_Group_Periodic = Juniper.Pinned.SkeletonPar.pin_xsync_Group_Periodic := by rfl
theorem pin_xsync_Group_PeriodicOrTrigger_ok : Juniper.Gen.PinSkeletonPar.pin_xsync_Group_PeriodicOrTrigger = Juniper.Pinned.SkeletonPar.pin_xsync_Group_PeriodicOrTrigger := by rfl
theorem pin_xsync_Group_Stop_ok : Juniper.Gen.PinSkeletonPar.pin_xsync_Group_Stop = Juniper.Pinned.SkeletonPar.pin_xsync_Group_Stop := by rfl
theorem pin_xsync_Group_StopAndWait_ok : Juniper.Gen.PinSkeletonPar.pin_xsync_Group_StopAndWait = Juniper.Pinned.SkeletonPar.pin_xsync_Group_StopAndWait := by rfl
theorem pin_xsync_Group_Trigger_ok : Juniper.Gen.PinSkeletonPar.pin_xsync_Group_Trigger = Juniper.Pinned.SkeletonPar.pin_xsync_Group_Trigger := by rfl
theorem pin_xsync_Group_spawn_ok : Juniper.Gen.PinSkeletonPar.pin_xsync_Group_spawn = Juniper.Pinned.SkeletonPar.pin_xsync_Group_spawn := by rfl
theorem pin_xsync_jitterDuration_ok : Juniper.Gen.PinSkeletonPar.pin_xsync_jitterDuration = Juniper.Pinned.SkeletonPar.pin_xsync_jitterDuration := by rfl
theorem pin_parallel_type_mapIterator_ok : Juniper.Gen.PinSkeletonPar.pin_parallel_type_mapIterator = Juniper.Pinned.SkeletonPar.pin_parallel_type_mapIterator := by rfl
theorem pin_parallel_type_mapStream_ok : Juniper.Gen.PinSkeletonPar.pin_parallel_type_mapStream = Juniper.Pinned.SkeletonPar.pin_parallel_type_mapStream := by rfl
theorem pin_parallel_type_valueAndIndex_ok : Juniper.Gen.PinSkeletonPar.pin_parallel_type_valueAndIndex = Juniper.Pinned.SkeletonPar.pin_parallel_type_valueAndIndex := by rfl
theorem pin_parallel_vars_ok : Juniper.Gen.PinSkeletonPar.pin_parallel_vars = Juniper.Pinned.SkeletonPar.pin_parallel_vars := by rfl
theorem pin_xsync_type_ContextCond_ok : Juniper.Gen.PinSkeletonPar.pin_xsync_type_ContextCond = Juniper.Pinned.SkeletonPar.pin_xsync_type_ContextCond := by rfl
theorem pin_xsync_type_Future_ok : Juniper.Gen.PinSkeletonPar.pin_xsync_type_Future = Juniper.Pinned.SkeletonPar.pin_xsync_type_Future := by rfl
theorem pin_xsync_type_Group_ok : Juniper.Gen.PinSkeletonPar.pin_xsync_type_Group = Juniper.Pinned.SkeletonPar.pin_xsync_type_Group := by rfl
theorem pin_xsync_type_Map_ok : Juniper.Gen.PinSkeletonPar.pin_xsync_type_Map = Juniper.Pinned.SkeletonPar.pin_xsync_type_Map := by rfl
theorem pin_xsync_type_Pool_ok : Juniper.Gen.PinSkeletonPar.pin_xsync_type_Pool = Juniper.Pinned.SkeletonPar.pin_xsync_type_Pool := by rfl
theorem pin_xsync_type_Watchable_ok : Juniper.Gen.PinSkeletonPar.pin_xsync_type_Watchable = Juniper.Pinned.SkeletonPar.pin_xsync_type_Watchable := by rfl
theorem pin_xsync_type_watchableInner_ok : Juniper.Gen.PinSkeletonPar.pin_xsync_type_watchableInner = Juniper.Pinned.SkeletonPar.pin_xsync_type_watchableInner := by rfl
theorem pin_xsync_vars_ok : Juniper.Gen.PinSkeletonPar.pin_xsync_vars = Juniper.Pinned.SkeletonPar.pin_xsync_vars := by rfl

end Juniper.Props.PinSkeletonPar
