import Juniper.Proofs.TreeHistory
import Juniper.Proofs.TreeSlots
import Juniper.Proofs.TreeSpecAdequacy
import Juniper.Proofs.TreeCost
/-!
# C03 — the tree stays balanced and half-full: O(log n) work, no retained garbage (property theorems)
-/
namespace Juniper.Props.C03
open Juniper.Gen.Tree Juniper.Gen.TreeAccess Juniper.Model.BTree Juniper.Proofs.Tree

variable {K V : Type}

/-- The occupancy arithmetic of `btree.go:8-35` for the constants as they are in the source now:
two minimal nodes plus a separator fit into one node, a node is never required to be empty, and an
overfull node splits into two halves that both respect the minimum. -/
theorem occupancy_constants :
    2 * minKVs ≤ maxKVs ∧ 1 ≤ minKVs ∧ maxKVs + 1 = branchFactor ∧ keysLen = maxKVs ∧
    valuesLen = maxKVs ∧ childrenLen = branchFactor ∧
    minKVs ≤ leftN ∧ minKVs ≤ rightN ∧ leftN + 1 + rightN = amalgamLen ∧ amalgamLen = maxKVs + 1 ∧
    medianIdx = leftN ∧ rightFirstIdx 0 = medianIdx + 1 ∧ rightFirstChildIdx 0 = medianIdx + 1 := by decide

/-- every statement that clears a vacated slot is present in the source (`removeOne`,
`removeRightmost`, `rotateRight`, `overfill`), and `mergeTwo` marks the unlinked node. -/
theorem zeroing_statements_present :
    removeOneZeroesLast = true ∧ removeRightmostZeroesKey = true ∧ removeRightmostZeroesValue = true ∧
    rotateRightZeroesKey = true ∧ rotateRightZeroesValue = true ∧ rotateRightZeroesChild = true ∧
    overfillClearsKeys = true ∧ overfillClearsValues = true ∧ overfillClearsChildren = true ∧
    mergeZeroesRight = true := by decide

/-- **In one node**: the comparator calls of one `searchNode` call are the regenerated per-iteration count
(`searchLoopCompares`, tied to 1 by `cost_skeleton`) times the loop iterations entered, and the iterations are
determined by the functional `searchNode` the well-formedness proofs are about: it returns from inside iteration
`idx` or falls out after all `n` of them — so at most one comparison per stored key. -/
theorem searchCost_le (cmp : K → K → Int) (k : K) (kvs : List (K × V)) :
    searchCost cmp k kvs = min ((searchNode cmp k kvs).1 + 1) kvs.length ∧ searchCost cmp k kvs ≤ kvs.length := by
  refine ⟨?_, Juniper.Proofs.Tree.searchCost_le cmp k kvs⟩
  simp [searchCost, searchIters, cost_skeleton.1.2.2]

/-- The empty tree is well formed. -/
theorem wf_new (cmp : K → K → Int) : WF cmp (Tree.empty : Tree K V) := wf_empty cmp

/-- `Put` preserves well-formedness: the tree stays balanced (all leaves at one depth), every node
except the root keeps `minKVs ≤ n ≤ maxKVs`, the root keeps `1 ≤ n` unless it is a leaf, every inner
node has `n+1` children, the in-order key sequence stays strictly sorted (each key on exactly one
search path) and `size` stays the number of stored keys. `Put` never dereferences a nil child. -/
theorem wf_put (cmp : K → K → Int) (hc : StrictWeak cmp) (t : Tree K V) (k : K) (v : V) (hw : WF cmp t) :
    ∃ t', put cmp t k v = some t' ∧ WF cmp t' := by
  obtain ⟨t', h1, h2, _⟩ := put_refines_wf hc t k v hw
  exact ⟨t', h1, h2⟩

/-- non-vacuity of `wf_put`: a well-formed tree exists (the empty one) and the natural order on `Int`
is a strict weak order. -/
example : ∃ t : Tree Int Int, WF (fun a b => a - b) t ∧ StrictWeak (fun a b : Int => a - b) :=
  ⟨Tree.empty, wf_empty _, ⟨by intro a b; omega, by intro a b c; omega⟩⟩

/-- `Delete` preserves well-formedness (and never dereferences a nil pointer): steal from the right
sibling, else from the left, else merge into the left sibling if it has `n ≤ minKVs`, else with the
right one, cascading upwards, and an emptied root is replaced by its only child.
The hypothesis on node identities says that the tree's node objects are pairwise distinct (the Go
code compares node pointers with `t.root`). -/
theorem wf_delete (cmp : K → K → Int) (hc : StrictWeak cmp) (t : Tree K V) (k : K) (hw : WF cmp t)
    (hid : (ids t.root).Nodup) : ∃ t', delete cmp t k = some t' ∧ WF cmp t' := by
  obtain ⟨t', h1, h2, _⟩ := delete_refines_wf hc t k hw hid
  exact ⟨t', h1, h2⟩

/-- A well-formed tree of height `h` (leaves at depth `h`) stores at least `2·(minKVs+1)^h − 1`
keys (for `h = 0` this is trivial). -/
theorem min_keys_of_height (cmp : K → K → Int) (t : Tree K V) (hw : WF cmp t) (hpos : 0 < height t.root) :
    2 * (minKVs.toNat + 1) ^ height t.root ≤ t.size.toNat + 1 := by
  obtain ⟨h, hbal, hmax, hroot⟩ := hw.bal
  have hh := height_of_bal t.root h hbal
  rw [hh] at hpos ⊢
  have := length_toList_ge t.root h hbal 1 (by have := hroot hpos; omega)
  rw [hw.size]; simpa using this

/-- The depth bound of the property for the shipped fan-out: a tree holding `n` keys has at most
`1 + ⌊log₈((n+1)/2)⌋` levels (`levels = height + 1`), stated with the integer logarithm
(`⌊log₈ x⌋ = ⌊log₂ x⌋ / 3`); for two or more levels this is `2·8^(levels−1) ≤ n+1`.
Convention at the edge: for `n = 0` (and `n ≤ 14`: one level) `(n+1)/2` may be `0` and the bound is read
with the totalised `Nat.log2 0 = 0`, i.e. "at most 1 level" — the empty tree is its empty root. -/
theorem depth_bound (cmp : K → K → Int) (t : Tree K V) (hw : WF cmp t) :
    (0 < height t.root → 2 * 8 ^ height t.root ≤ t.size.toNat + 1) ∧
    height t.root + 1 ≤ 1 + Nat.log2 ((t.size.toNat + 1) / 2) / 3 := by
  have h8 : minKVs.toNat + 1 = 8 := by decide
  by_cases hpos : 0 < height t.root
  · have h1 := min_keys_of_height cmp t hw hpos
    rw [h8] at h1
    refine ⟨fun _ => h1, ?_⟩
    have h2 : 8 ^ height t.root ≤ (t.size.toNat + 1) / 2 := by omega
    have h3 : (2 : Nat) ^ (3 * height t.root) ≤ (t.size.toNat + 1) / 2 := by
      rw [Nat.pow_mul]; exact h2
    have hne : (t.size.toNat + 1) / 2 ≠ 0 := by
      have : 0 < 8 ^ height t.root := Nat.pow_pos (by omega)
      omega
    have := (Nat.le_log2 hne).mpr h3
    omega
  · exact ⟨fun h => absurd h hpos, by omega⟩

/-- non-vacuity of `min_keys_of_height` / `depth_bound` with `0 < height`: 16 ascending `Put`s split the
root; the resulting two-level tree is well formed and tight for the bound (`2·8¹ = 16 ≤ 16 + 1`). -/
example : ∃ t' : Tree Int Int,
    runMuts (fun a b => a - b) Tree.empty ((List.range 16).map fun (i : Nat) => Mut.put (i : Int) (0 : Int)) = some t' ∧
      WF (fun a b => a - b) t' ∧ 0 < height t'.root ∧ t'.size = 16 ∧
      height t'.root + 1 ≤ 1 + Nat.log2 ((t'.size.toNat + 1) / 2) / 3 := by
  have hc : StrictWeak (fun a b : Int => a - b) := ⟨by intro a b; omega, by intro a b c; omega⟩
  obtain ⟨t', h1, h2, h3⟩ := inv_runMuts hc ((List.range 16).map fun (i : Nat) => Mut.put (i : Int) (0 : Int))
    (Tree.empty : Tree Int Int) (inv_empty _)
  have hlen : (toList t'.root).length = 16 := by
    rw [h3]; simp only [Tree.empty, toList_leaf]; decide
  exact ⟨t', h1, h2.wf, height_pos_of_large h2.wf (by rw [hlen]; decide), by rw [h2.wf.size, hlen]; rfl,
    (depth_bound _ t' h2.wf).2⟩

/-- **"At most 15 key comparisons in each level"**, for `Get` and for `Contains`: the lookup visits at most one
node per level (`levelCosts … .length ≤ height + 1`), makes at most `maxKVs` = 15 comparator calls in each visited
node, hence at most `15 · levels` in total. How many comparator calls one loop iteration of `searchNode` makes and how
many `searchNode` calls one level of `Get` / `Contains` makes are regenerated from `btree.go`
(`Gen.TreeAccess.searchLoopCompares`, `getLoopSearches`, `containsLoopSearches`); that nothing else in the three
functions compares is `cost_skeleton`, used in the proof. -/
theorem search_cost (cmp : K → K → Int) (t : Tree K V) (k : K) (hw : WF cmp t) :
    ((levelCosts getLoopSearches cmp k t.root).length ≤ height t.root + 1 ∧
      (∀ c ∈ levelCosts getLoopSearches cmp k t.root, (c : Int) ≤ maxKVs) ∧
      (getCost cmp k t.root : Int) ≤ maxKVs * (height t.root + 1)) ∧
    ((levelCosts containsLoopSearches cmp k t.root).length ≤ height t.root + 1 ∧
      (∀ c ∈ levelCosts containsLoopSearches cmp k t.root, (c : Int) ≤ maxKVs) ∧
      (containsCost cmp k t.root : Int) ≤ maxKVs * (height t.root + 1)) ∧ maxKVs = 15 := by
  obtain ⟨h, hbal, hmax, hroot⟩ := hw.bal
  have hh := height_of_bal t.root h hbal
  obtain ⟨_, ⟨_, _, hg, _⟩, ⟨_, _, hc, _⟩⟩ := cost_skeleton
  have eg : ((getLoopSearches : Nat) : Int) = 1 := by rw [hg]; rfl
  have ec : ((containsLoopSearches : Nat) : Int) = 1 := by rw [hc]; rfl
  rw [hh]
  refine ⟨⟨levelCosts_length_le _ cmp k t.root h hbal, fun c hc' => ?_, ?_⟩,
    ⟨levelCosts_length_le _ cmp k t.root h hbal, fun c hc' => ?_, ?_⟩, by decide⟩
  · have := levelCosts_le _ cmp k t.root h hbal hmax c hc'; rw [eg, Int.one_mul] at this; exact this
  · have := levelCosts_sum_le getLoopSearches cmp k t.root h hbal hmax; rw [eg, Int.one_mul] at this; exact this
  · have := levelCosts_le _ cmp k t.root h hbal hmax c hc'; rw [ec, Int.one_mul] at this; exact this
  · have := levelCosts_sum_le containsLoopSearches cmp k t.root h hbal hmax; rw [ec, Int.one_mul] at this; exact this

/-- non-vacuity of `search_cost`, and tightness of the per-level bound: in a full leaf (15 keys) a lookup of a key
beyond the last one makes exactly 15 comparisons, in one level. -/
example : let x : Node Int Int := .mk 0 ((List.range 15).map fun (i : Nat) => ((i : Int), (0 : Int))) []
    levelCosts containsLoopSearches (fun a b => a - b) 99 x = [15] ∧ getCost (fun a b => a - b) 99 x = 15 ∧
    getCost (fun a b => a - b) 0 x = 1 ∧ getCost (fun a b => a - b) 7 x = 8 := by
  simp only [getCost, levelCosts]
  decide

/-- Every key is reachable on exactly one root-to-leaf search path: the in-order key sequence is
strictly ascending (so no key occurs twice), and the search path of any stored key ends at its entry. -/
theorem unique_path (cmp : K → K → Int) (hc : StrictWeak cmp) (t : Tree K V) (hw : WF cmp t) :
    (toList t.root).Pairwise (fun a b => cmp a.1 b.1 < 0) ∧
    ∀ e ∈ toList t.root, lookup cmp e.1 t.root = some e := by
  obtain ⟨h, hbal, hmax, hroot⟩ := hw.bal
  refine ⟨hw.sorted, ?_⟩
  intro e he
  rw [lookup_refines hc e.1 t.root h hbal hw.sorted]
  exact sget_of_mem hc hw.sorted he (hc.refl e.1)

/-- Every tree reachable from `newBtree` by any sequence of `Put`s and `Delete`s — however
adversarial — is well formed (balanced, half-full, sorted, `size` = number of keys), no operation on
the way dereferences a nil pointer, and its node identities stay pairwise distinct. -/
theorem wf_reachable (cmp : K → K → Int) (hc : StrictWeak cmp) (ms : List (Mut K V)) :
    ∃ t', runMuts cmp (Tree.empty : Tree K V) ms = some t' ∧ WF cmp t' ∧ IdsOK t' ∧
      len t' = (toList t'.root).length := by
  obtain ⟨t', h1, h2, _⟩ := inv_runMuts hc ms Tree.empty (inv_empty cmp)
  exact ⟨t', h1, h2.wf, h2.ids, h2.wf.size⟩

/-- non-vacuity of `wf_reachable`/`wf_delete`: a concrete history with inserts and a delete. -/
example : ∃ t' : Tree Int Int,
    runMuts (fun a b => a - b) Tree.empty [.put 3 30, .put 1 10, .put 2 20, .del 3] = some t' ∧
      toList t'.root = [(1, 10), (2, 20)] := by
  have hc : StrictWeak (fun a b : Int => a - b) := ⟨by intro a b; omega, by intro a b c; omega⟩
  obtain ⟨t', h1, _, h3⟩ := inv_runMuts hc [Mut.put 3 30, .put 1 10, .put 2 20, .del 3] (Tree.empty : Tree Int Int) (inv_empty _)
  refine ⟨t', h1, ?_⟩
  rw [h3]
  simp [specMut, sput, serase, Tree.empty, toList_leaf]

/-- "Keys and values that were deleted or moved elsewhere are no longer referenced from the live structure", slot
level (**partial**). Full statement: *for every history, in every node of the reachable tree each of the three fixed
arrays is `Clean`: its live prefix followed only by zero slots* (`no_retained_slots`). Proved here: every array
primitive and every node-level array surgery of `btree.go` — written as in the source, with each zeroing statement
guarded by its regenerated presence fact — maps a clean array to a clean array whose live prefix is the list-level
result the tree model uses (leaf insert, remove, `removeRightmost`, both sides of both rotations, both sides of
`mergeTwo`, the left/right halves of `overfill` incl. the aliasing write loop, the parent insert; all in
`Proofs/TreeSlots.lean`), and in a clean array no slot at index `≥ n` references anything (`tail_cleared`).
The composition of these per-array lemmas over whole trees and all `Put`/`Delete` histories is NOT in this file: it is
`no_retained_slots_tree` (`Props/C03Slots.lean`, slot-level heap model, every zeroing statement guarded by its fact) together
with `heap_never_crashes`, `no_retained_reachable`, `unlinked_unreachable` (`Props/C03Link.lean`: the heap model refines the
functional model, never crashes, and cleanliness holds for exactly the nodes reachable from the root). This theorem is kept
as the array-level statement about the older single-array model `Model/BTreeSlots.lean`. -/
theorem no_retained_slots_partial {α : Type} {cap : Nat} {live : List α} {arr : List (Option α)} (hc : Clean cap live arr) :
    (∀ i, live.length ≤ i → i < cap → arr[i]? = some none) ∧
    (∀ idx, idx < live.length →
      Clean cap (live.take idx ++ live.drop (idx + 1)) (Juniper.Model.BTreeSlots.remove arr live.length idx)) ∧
    (∀ (x : α) idx, idx ≤ live.length → live.length < cap →
      Clean cap (live.take idx ++ x :: live.drop idx) (Juniper.Model.BTreeSlots.leafInsert arr live.length idx (some x))) ∧
    (0 < live.length → Clean cap live.dropLast (Juniper.Model.BTreeSlots.removeRightmostKeys arr live.length)) ∧
    (0 < live.length → Clean cap live.dropLast (Juniper.Model.BTreeSlots.rotateRightDonorKeys arr live.length)) ∧
    (0 < cap → Clean cap (live.drop 1) (Juniper.Model.BTreeSlots.rotateLeftDonor arr)) :=
  ⟨tail_cleared hc, fun _ h => slots_refine_remove hc h, fun x _ h1 h2 => slots_refine_leafInsert x hc h1 h2,
   fun h => slots_refine_removeRightmost hc h, fun h => slots_refine_rotateRight_donor hc h,
   fun h => slots_refine_rotateLeft_donor hc h⟩

/-- non-vacuity: a clean array with two live slots out of four. -/
example : Clean 4 [(1 : Nat), 2] [some 1, some 2, none, none] := ⟨by decide, by decide⟩

end Juniper.Props.C03
