import Juniper.Proofs.TreeIterProps
import Juniper.Proofs.TreeIterRun
/-!
# C02 — tree iterators stay correct while the tree is modified between Next calls (property theorems)

The model iterator (cursor = node identity, index, remembered key, generation; `lost()`, the re-seek, the sticky
cut-off `done` and the in-range test — on the key, before the value is read — regenerated from `btree.go`; the
equivalence with the former `iterator.While` wrapping is `Proofs/TreeWhile.iterNext_eq_while`) is shown to refine the *resume-key iterator* of the specification for every
interleaving of `Put`/`Delete` with `Next` calls of any number of live forward and reverse iterators
(`iter_refines_resume`); the property's clauses are then theorems about the specification iterator.
Helper lemmas are in `Juniper/Proofs/Tree*.lean`.
-/
namespace Juniper.Props.C02
open Juniper.Gen.Tree Juniper.Model.BTree Juniper.Proofs.Tree

variable {K V : Type}

/-- "once it reports exhaustion it keeps doing so", far-bound half in the model: once the in-range predicate has
failed (`iter.done`), `Next` answers `end` on whatever tree, without looking at the tree or the cursor again (and
without evaluating `lost()`: no panic). The guard is the regenerated `if iter.done` of both `Next` methods. -/
theorem cutoff_sticky (cmp : K → K → Int) (t : Tree K V) (it : Iter K) (hd : it.done = true) :
    iterNext cmp t it = (it, none) ∧ iterNextPanics t it = false := by
  obtain ⟨g1, _, _, _, _⟩ := iter_guards
  unfold iterNext iterNextPanics
  simp [hd, g1]

/-- the cut-off happens exactly when the predicate fails on the key the cursor is parked on (after the re-seek of a
lost cursor) — **decided on the key alone, before the value slot is read** — and it is sticky (`iter.done = true`
is in the source); an in-range key is yielded with the value read *before* the cursor moves on. -/
theorem cutoff_exact (cmp : K → K → Int) (t : Tree K V) (it : Iter K) (op : CmpOp) (key : K) (p : Pos K)
    (hs : it.stop = some (op, key)) (hd : it.done = false) (hp : (iterReseek cmp t it.fwd it.c).pos = some p) :
    (evalOp op (cmp p.k key) = false →
      iterNext cmp t it = ({ it with c := iterReseek cmp t it.fwd it.c, done := true }, none)) ∧
    (evalOp op (cmp p.k key) = true → (iterNext cmp t it).2 = some (p.k, valueAt t p)) := by
  obtain ⟨g1, g2, g3, _, g5⟩ := iter_guards
  unfold iterNext
  constructor <;> intro hk <;> simp [hs, hd, hp, hk, g1, g2, g3]

/-- **"It never panics", `Next` on a cursor that is off the edge.** `Next` begins with `iter.c.lost()`. On an
exhausted iterator, or one created on an empty range, `curr == nil`; the regenerated `lost()` expression, evaluated
as the Go code evaluates it, must then not consult `c.curr.n` / `c.curr.keys[c.i]` — it does not (the conjunct
`c.curr != nil &&` guards them), for any pair of generations, i.e. after any number of structural changes. Deleting
the guard from `btree.go` makes this theorem, `iter_total` and `iter_refines_resume` fail. -/
theorem next_off_edge_never_derefs_nil (t : Tree K V) (it : Iter K) : iterNextPanics t it = false := by
  simp [iterNextPanics, lost_guards_nil]

/-- A cursor parked in a node that has left the tree (merged away: `right.n = 0` — the regenerated presence fact
`mergeZeroesRight`, through `retiredN` —; collapsed root: `n = 0`) and whose generation is stale considers itself
lost — so it re-seeks by key instead of reading the dead node. -/
theorem retired_nodes_are_lost (cmp : K → K → Int) (t : Tree K V) (c : Cursor K) (p : Pos K) (hp : c.pos = some p)
    (hg : c.gen ≠ t.gen) (hf : findNode p.id t.root = none) :
    lostAt cmp t c = true := by
  have hg' : ¬ ((c.gen : Int) = (t.gen : Int)) := by omega
  simp [lostAt, hp, hf, lost, hg']

/-- A cursor that does not consider itself lost (the regenerated `lost()` expression is false) is parked on an
entry of the current tree whose key is equivalent to the key it remembers. -/
theorem cursor_valid_of_not_lost (cmp : K → K → Int) (hs : StrictWeak cmp) {t : Tree K V} {c : Cursor K} (hc : CInv t c)
    {p : Pos K} (hp : c.pos = some p) (hl : lostAt cmp t c = false) :
    ∃ y up e, At t.root p y up e ∧ cmp p.k e.1 = 0 :=
  parked_of_not_lost hs hc hp hl

/-- Navigation: from a valid position `cursor.Next` moves to the in-order successor (staying in the leaf, descending
to the leftmost leaf of the next child, or climbing to the first ancestor with an entry to the right) and runs off the
end exactly after the last entry; `cursor.Prev` symmetrically. `befOf ++ e :: aftOf` is the tree's in-order list split
at the cursor's entry `e`. -/
theorem cursor_next_is_successor {root : Node K V} {h : Nat} (t : Tree K V) (ht : t.root = root) (hb : Bal h root)
    (hone : ∀ i, cnt i root ≤ 1) {p : Pos K} {y : Node K V} {up : List (Node K V × Nat)} {e : K × V}
    (ha : At root p y up e) :
    toList root = befOf up y p.i ++ e :: aftOf up y p.i ∧
    (aftOf up y p.i = [] → nextCore t p = none) ∧
    (∀ e' A', aftOf up y p.i = e' :: A' → ∃ p' y' up', nextCore t p = some p' ∧ At root p' y' up' e' ∧ p'.k = e'.1 ∧
      befOf up' y' p'.i = befOf up y p.i ++ [e] ∧ aftOf up' y' p'.i = A') :=
  ⟨at_toList hb ha, (next_step t ht hb hone ha).1, (next_step t ht hb hone ha).2⟩

theorem cursor_prev_is_predecessor {root : Node K V} {h : Nat} (t : Tree K V) (ht : t.root = root) (hb : Bal h root)
    (hone : ∀ i, cnt i root ≤ 1) {p : Pos K} {y : Node K V} {up : List (Node K V × Nat)} {e : K × V}
    (ha : At root p y up e) :
    (befOf up y p.i = [] → prevCore t p = none) ∧
    (∀ B' e', befOf up y p.i = B' ++ [e'] → ∃ p' y' up', prevCore t p = some p' ∧ At root p' y' up' e' ∧ p'.k = e'.1 ∧
      befOf up' y' p'.i = B' ∧ aftOf up' y' p'.i = e :: aftOf up y p.i) :=
  prev_step t ht hb hone ha

/-- The four seeks: `SeekFirstGreaterOrEqual`/`SeekFirstGreater` park on the least entry `≥ k` / `> k` (the rest of the
contents from there on is what a forward iteration yields), `SeekLastLessOrEqual`/`SeekLastLess` on the greatest entry
`≤ k` / `< k`; the comparison operators are the regenerated ones. -/
theorem seeks_least_greatest (cmp : K → K → Int) (hs : StrictWeak cmp) {t : Tree K V} (hi : Inv cmp t) (c0 : Cursor K) (k : K) :
    Fwd t (seekFirstGreaterOrEqual cmp t c0 k) ((toList t.root).dropWhile fun x => decide (0 < cmp k x.1)) ∧
    Fwd t (seekFirstGreater cmp t c0 k) ((toList t.root).dropWhile fun x => decide (0 ≤ cmp k x.1)) ∧
    Bwd t (seekLastLessOrEqual cmp t c0 k) ((toList t.root).reverse.dropWhile fun x => decide (cmp k x.1 < 0)) ∧
    Bwd t (seekLastLess cmp t c0 k) ((toList t.root).reverse.dropWhile fun x => decide (cmp k x.1 ≤ 0)) := by
  refine ⟨?_, ?_, ?_, ?_⟩
  · have := seekFwd_spec hs hi seekFirstGreaterOrEqualStep (by intro c h; simp [seekFirstGreaterOrEqualStep, h])
      (by intro c h; simp [seekFirstGreaterOrEqualStep]; omega) c0 k
    simpa [seekFirstGreaterOrEqualStep, seekFirstGreaterOrEqual] using this
  · have := seekFwd_spec hs hi seekFirstGreaterStep (by intro c h; simp [seekFirstGreaterStep]; omega)
      (by intro c h; simp [seekFirstGreaterStep]; omega) c0 k
    simpa [seekFirstGreaterStep, seekFirstGreater] using this
  · have := seekBwd_spec hs hi seekLastLessOrEqualStep (by intro c h; simp [seekLastLessOrEqualStep, h])
      (by intro c h; simp [seekLastLessOrEqualStep]; omega) c0 k
    simpa [seekLastLessOrEqualStep, seekLastLessOrEqual] using this
  · have := seekBwd_spec hs hi seekLastLessStep (by intro c h; simp [seekLastLessStep]; omega)
      (by intro c h; simp [seekLastLessStep]; omega) c0 k
    simpa [seekLastLessStep, seekLastLess] using this

/-- **"It never spins", the `Next → Seek → Next` recursion** (audit C02-F6). The Go `Seek*` methods end in `c.Next()` /
`c.Prev()`, and `cursor.Next` / `Prev` begin with `if c.lost() { c.SeekFirstGreater(c.k); return }`: were the cursor lost
right after `seek`, the code would recurse. The model's `stepFwd` / `stepBwd` evaluate the regenerated `lost()` there
and, if it were true, stop (`c` unchanged) instead of recursing — a cut-off. It is unreachable: `seek` parks the cursor
with the tree's generation (the regenerated `seekSetsGen`: `c.gen = c.t.gen` is in the source), so `lost()` is false
whatever the tree looks like, and `stepFwd` / `stepBwd` are exactly one `nextCore` / `prevCore` move. -/
theorem seek_then_step_never_recurses (cmp : K → K → Int) (t : Tree K V) (c c' : Cursor K) (k : K)
    (h : seek cmp t c k = (c', true)) :
    lostAt cmp t c' = false ∧
    ∀ p, c'.pos = some p →
      stepFwd cmp t c' = { c' with pos := nextCore t p } ∧ stepBwd cmp t c' = { c' with pos := prevCore t p } := by
  have hgen : seekSetsGen = true := by decide
  have hg : c'.gen = t.gen := by
    unfold seek at h
    split at h
    · cases h
    · simp only [hgen, if_true, Prod.mk.injEq, and_true] at h
      rw [← h]
  have hl := lostAt_of_gen_eq cmp t c' hg
  refine ⟨hl, fun p hp => ?_⟩
  simp [stepFwd, stepBwd, hp, hl]

/-- **Refinement.** For every script that interleaves `Put`/`Delete` (of any keys) with the creation of
`Range`/`RangeReverse` iterators (any bounds) and `Next` calls on any number of simultaneously live
iterators, starting from any reachable tree with any set of live iterators: the model runs to completion
(no nil dereference — "never panics"; every `Next` is a terminating function: "never spins"), and every
`Next` returns what the specification's resume-key iterator returns on the *current* contents — an
equivalent key with exactly its current value, or `end` — while the simulation relation (tree invariant,
contents, per-iterator cursor invariant) is maintained. Whether the mutation splits, merges, rotates or
unlinks the node an iterator is parked in, collapses the root or empties the tree is immaterial. -/
theorem iter_refines_resume (cmp : K → K → Int) (hs : StrictWeak cmp) (sts : List (Step K V))
    (m : MSt K V) (s : SSt K V) (h : Sim cmp m s) :
    ∃ m' os, mrun cmp m sts = some (m', os) ∧ Sim cmp m' (srun cmp s sts).1 ∧ ObsAll cmp os (srun cmp s sts).2 :=
  sim_run hs sts m s h

/-- the empty tree without iterators is related to the empty map -/
theorem sim_init (cmp : K → K → Int) :
    Sim cmp (⟨Tree.empty, fun _ => none⟩ : MSt K V) ⟨[], fun _ => none⟩ :=
  ⟨inv_empty cmp, by simp [Tree.empty], fun _ => rfl⟩

/-- non-vacuity: from the empty tree every script is covered. -/
example (cmp : K → K → Int) (hs : StrictWeak cmp) (sts : List (Step K V)) :
    ∃ m' os, mrun cmp (⟨Tree.empty, fun _ => none⟩ : MSt K V) sts = some (m', os) ∧
      ObsAll cmp os (srun cmp ⟨[], fun _ => none⟩ sts).2 := by
  obtain ⟨m', os, h1, _, h3⟩ := iter_refines_resume cmp hs sts _ _ (sim_init cmp)
  exact ⟨m', os, h1, h3⟩

/-- "it never panics or spins": on every reachable state (simulation relation) no step of any script dereferences a
nil pointer — neither a `Put`/`Delete` (`crash` outcomes of `ins`/`del`) nor a `Next` (`iterNextPanics`: the `lost()`
call at its top on a cursor with `curr == nil`, see `next_off_edge_never_derefs_nil`) —, and every `Next` is a
terminating function. -/
theorem iter_total (cmp : K → K → Int) (hs : StrictWeak cmp) (sts : List (Step K V))
    (m : MSt K V) (s : SSt K V) (h : Sim cmp m s) : (mrun cmp m sts).isSome = true := by
  obtain ⟨m', os, h1, _, _⟩ := sim_run hs sts m s h
  simp [h1]

/-- "its keys are strictly monotone in its direction": two consecutive yielding `Next` calls, on whatever
(sorted) contents the map had at the two moments. -/
theorem iter_strict_monotone (cmp : K → K → Int) (hs : StrictWeak cmp) {L1 L2 : List (K × V)}
    (h1 : Sorted cmp L1) (h2 : Sorted cmp L2) {it it1 it2 : SIter K} {e1 e2 : K × V}
    (hn1 : snext cmp L1 it = (it1, some e1)) (hn2 : snext cmp L2 it1 = (it2, some e2)) :
    dcmp cmp it.fwd e1.1 e2.1 < 0 :=
  snext_strict_monotone hs h1 h2 hn1 hn2

/-- "… and inside its bounds": a fresh `Range`/`RangeReverse` iterator starts inside its near bound (first conjunct:
`smk`, the specification's iterator for `Range(lo, hi)` / `RangeReverse(lo, hi)` on whatever map, direction `fwd`, far
bound `stopOf fwd lo hi`), every `Next` keeps it there, and every yielded key is inside the near bound and satisfies the
far-bound (`While`) predicate. -/
theorem iter_in_bounds (cmp : K → K → Int) (hs : StrictWeak cmp) {L : List (K × V)} (hL : Sorted cmp L) (lo hi : Bound K) :
    (∀ (L0 : List (K × V)) (fwd : Bool),
      (smk cmp L0 fwd lo hi).fwd = fwd ∧ (smk cmp L0 fwd lo hi).stop = stopOf fwd lo hi ∧
      ∀ k, (smk cmp L0 fwd lo hi).resume = some k → nearFn cmp fwd lo hi k = true) ∧
    ∀ {it it' : SIter K} {out : Option (K × V)},
      (∀ k, it.resume = some k → nearFn cmp it.fwd lo hi k = true) → snext cmp L it = (it', out) →
      (∀ e, out = some e → nearFn cmp it.fwd lo hi e.1 = true ∧ keepFn cmp it.stop e.1 = true) ∧
      (it'.fwd = it.fwd ∧ ∀ k, it'.resume = some k → nearFn cmp it'.fwd lo hi k = true) := by
  refine ⟨fun L0 fwd => ⟨rfl, rfl, smk_near cmp L0 fwd lo hi⟩, ?_⟩
  intro it it' out hinv h
  obtain ⟨a, b⟩ := snext_near hs hL lo hi hinv h
  refine ⟨fun e he => ⟨a e he, ?_⟩, b⟩
  subst he
  exact (snext_yield_present hs hL h).2

/-- "every key it yields is present at that moment and paired with its current value". -/
theorem iter_yields_present_current_value (cmp : K → K → Int) (hs : StrictWeak cmp) {L : List (K × V)}
    (hL : Sorted cmp L) {it it' : SIter K} {e : K × V} (h : snext cmp L it = (it', some e)) : e ∈ L :=
  (snext_yield_present hs hL h).1

/-- "once it reports exhaustion it keeps doing so". -/
theorem iter_exhaustion_sticky (cmp : K → K → Int) (hs : StrictWeak cmp) {L : List (K × V)} (hL : Sorted cmp L)
    {it it' : SIter K} (h : snext cmp L it = (it', none)) (L' : List (K × V)) : snext cmp L' it' = (it', none) :=
  snext_exhaustion_sticky hs hL h L'

/-- "No key that stays in the collection from the iterator's creation until the iterator has moved past it is
skipped": a fresh iterator owes every entry inside its near bound (`smk_owes`), and while an owed entry `x` is in the
map and inside the far bound, `Next` neither ends nor yields beyond `x`: it yields `x` or a key before `x`, still
owing `x`. -/
theorem iter_no_skip_of_persistent_keys (cmp : K → K → Int) (hs : StrictWeak cmp) :
    (∀ {L : List (K × V)} (_ : Sorted cmp L) (fwd : Bool) (lo hi : Bound K) {x : K × V}, x ∈ L →
        nearFn cmp fwd lo hi x.1 = true → Owes cmp (smk cmp L fwd lo hi) x.1) ∧
    (∀ {L : List (K × V)} (_ : Sorted cmp L) {it : SIter K} {x : K × V}, x ∈ L → Owes cmp it x.1 →
        keepFn cmp it.stop x.1 = true →
        (∀ a b, dcmp cmp it.fwd a b < 0 → keepFn cmp it.stop b = true → keepFn cmp it.stop a = true) →
        (∃ it', snext cmp L it = (it', some x)) ∨
        (∃ it' e, snext cmp L it = (it', some e) ∧ dcmp cmp it.fwd e.1 x.1 < 0 ∧ Owes cmp it' x.1 ∧
          it'.fwd = it.fwd ∧ it'.stop = it.stop)) ∧
    (∀ (fwd : Bool) (lo hi : Bound K) a b, dcmp cmp fwd a b < 0 → keepFn cmp (stopOf fwd lo hi) b = true →
        keepFn cmp (stopOf fwd lo hi) a = true) :=
  ⟨fun hL fwd lo hi _ hx hn => (smk_owes hs hL fwd lo hi hx hn).1,
   fun hL _ _ hx ho hk hm => snext_no_skip hs hL hx ho hk hm,
   fun fwd lo hi => keep_mono hs fwd lo hi⟩

/-- "A key inserted during the iteration that lies beyond the next key the iterator yields, and is not removed
again, is yielded too": if `x` is in the map when `Next` yields `y` and lies beyond `y`, the iterator owes `x` from
then on, so by `iter_no_skip_of_persistent_keys` it is yielded before anything beyond it for as long as it stays. -/
theorem iter_sees_inserted_beyond_next (cmp : K → K → Int) (hs : StrictWeak cmp) {L : List (K × V)} (hL : Sorted cmp L)
    {it it' : SIter K} {x y : K × V} (hx : x ∈ L) (h : snext cmp L it = (it', some y))
    (hb : dcmp cmp it.fwd y.1 x.1 < 0) : Owes cmp it' x.1 ∧ it'.fwd = it.fwd ∧ it'.stop = it.stop :=
  snext_owes_beyond hs hL hx h hb

/-- **The clauses, along a whole script** (audit C02-F5: the composition of `iter_refines_resume` with the step-local
clause theorems above, as a theorem). From any state in the simulation relation (any reachable tree, any live
iterators): create iterator `j` by `Range(lo, hi)` (`fwd`) / `RangeReverse(lo, hi)` and let *any* script follow that does
not re-create slot `j` — `Put`s and `Delete`s of any keys (splits, merges, rotations, root collapse, emptying the
tree), creation and `Next` calls of any other iterators, `Next` calls on `j` at any moments. Then the model runs to
the end, and with `ys` = what `j`'s `Next` calls returned (model: the real code's answers), `vs` = the specification's
views (for each of those calls: the contents of the map *at that moment* — `Sim` keeps it equal to the model tree's
in-order contents — and the specification's answer):
* `ys` is `vs`, call by call: an equivalent key with exactly the current value, or "exhausted" (`OutAll`);
* every yielded entry is **present at that moment with its current value**, **inside the near bound** and the far
  bound;
* the yielded keys are **strictly monotone** in the iterator's direction (any two of them, not just neighbours) —
  stated for the specification's answers and for the model's own;
* **exhaustion is sticky**: after the first "exhausted" every later call says "exhausted", for both. -/
theorem iter_script_clauses (cmp : K → K → Int) (hs : StrictWeak cmp) (m : MSt K V) (s : SSt K V) (h : Sim cmp m s)
    (j : Nat) (fwd : Bool) (lo hi : Bound K) (hlo : lo.kind ≠ none) (hhi : hi.kind ≠ none)
    (sts : List (Step K V)) (hno : NoMk j sts) :
    ∃ m' os, mrun cmp m (.mk j fwd lo hi :: sts) = some (m', os) ∧
      let ys := yieldsOf j (.mk j fwd lo hi :: sts) os
      let vs := sviews cmp j s (.mk j fwd lo hi :: sts)
      OutAll cmp ys (vs.map (·.2)) ∧
      (∀ v ∈ vs, ∀ e, v.2 = some e →
        e ∈ v.1 ∧ nearFn cmp fwd lo hi e.1 = true ∧ keepFn cmp (stopOf fwd lo hi) e.1 = true) ∧
      ((vs.filterMap (·.2)).Pairwise (fun a c => dcmp cmp fwd a.1 c.1 < 0) ∧
        (ys.filterMap id).Pairwise (fun a c => dcmp cmp fwd a.1 c.1 < 0)) ∧
      (Sticky (vs.map (·.2)) ∧ Sticky ys) := by
  obtain ⟨m', os, h1, _, h3⟩ := iter_refines_resume cmp hs (.mk j fwd lo hi :: sts) m s h
  refine ⟨m', os, h1, ?_⟩
  have hz : ¬ (lo.kind = none ∨ hi.kind = none) := fun hz => hz.elim hlo hhi
  have hL : Sorted cmp s.L := by rw [h.list]; exact (inv_facts h.inv).choose_spec.2.2
  have hrel := yieldsOf_rel (cmp := cmp) j (.mk j fwd lo hi :: sts) os _ h3
  rw [← sviews_yields] at hrel
  -- the specification side, from the creation on
  have hv : sviews cmp j s (.mk j fwd lo hi :: sts) =
      sviews cmp j { s with its := setSlot s.its j (smk cmp s.L fwd lo hi) } sts := by
    simp [sviews, sstep, hz]
  obtain ⟨c1, c2, c3⟩ := sviews_clauses hs j lo hi fwd (stopOf fwd lo hi) sts
    { s with its := setSlot s.its j (smk cmp s.L fwd lo hi) } (smk cmp s.L fwd lo hi) none hL
    (by simp [setSlot]) rfl rfl hno (smk_near cmp s.L fwd lo hi) (by intro b0 hb0; cases hb0)
  have c2' : ((sviews cmp j s (.mk j fwd lo hi :: sts)).map (·.2)).filterMap id =
      (sviews cmp j s (.mk j fwd lo hi :: sts)).filterMap (·.2) := by
    rw [List.filterMap_map]; rfl
  rw [← hv] at c1 c2 c3
  refine ⟨hrel, fun v hv' e he => ⟨(c1 v hv' e he).1, (c1 v hv' e he).2.1, (c1 v hv' e he).2.2.1⟩,
    ⟨c2, outAll_pairwise hs fwd _ _ hrel (by rw [c2']; exact c2)⟩, c3, outAll_sticky _ _ hrel c3⟩

/-- **"No key that stays in the collection from the iterator's creation until the iterator has moved past it is
skipped", along a whole script** (audit C02-F5). Create iterator `j` on a map that contains the entry `x` inside both
bounds, then let any script follow (mutations of any keys, other iterators, `Next` calls on `j`; slot `j` not
re-created) during which `x` is in the map whenever `j` is asked (`sviews`: the contents at each of those moments).
Then `j`'s answers are entries strictly before `x` (in its direction) until it yields `x` itself — it never reports
exhaustion and never yields an entry beyond `x` first; the model's answers are those, call by call (`OutAll`). The same
holds from any later state in which the iterator still owes `x` (`sviews_no_skip`), in particular — "a key inserted
beyond the next key the iterator yields, and not removed again, is yielded too" — from the moment `Next` yields `y`
for every `x` present then and beyond `y` (`iter_sees_inserted_beyond_next`). -/
theorem iter_script_no_skip (cmp : K → K → Int) (hs : StrictWeak cmp) (m : MSt K V) (s : SSt K V) (h : Sim cmp m s)
    (j : Nat) (fwd : Bool) (lo hi : Bound K) (hlo : lo.kind ≠ none) (hhi : hi.kind ≠ none)
    (sts : List (Step K V)) (hno : NoMk j sts) (x : K × V) (hx : x ∈ s.L)
    (hnear : nearFn cmp fwd lo hi x.1 = true) (hfar : keepFn cmp (stopOf fwd lo hi) x.1 = true)
    (hpers : ∀ v ∈ sviews cmp j s (.mk j fwd lo hi :: sts), x ∈ v.1) :
    ∃ m' os, mrun cmp m (.mk j fwd lo hi :: sts) = some (m', os) ∧
      let zs := (sviews cmp j s (.mk j fwd lo hi :: sts)).map (·.2)
      OutAll cmp (yieldsOf j (.mk j fwd lo hi :: sts) os) zs ∧
      ((∃ pre post, zs = pre ++ some x :: post ∧ ∀ y ∈ pre, ∃ e, y = some e ∧ dcmp cmp fwd e.1 x.1 < 0) ∨
        (∀ y ∈ zs, ∃ e, y = some e ∧ dcmp cmp fwd e.1 x.1 < 0)) := by
  obtain ⟨m', os, h1, _, h3⟩ := iter_refines_resume cmp hs (.mk j fwd lo hi :: sts) m s h
  refine ⟨m', os, h1, ?_⟩
  have hz : ¬ (lo.kind = none ∨ hi.kind = none) := fun hz => hz.elim hlo hhi
  have hL : Sorted cmp s.L := by rw [h.list]; exact (inv_facts h.inv).choose_spec.2.2
  have hrel := yieldsOf_rel (cmp := cmp) j (.mk j fwd lo hi :: sts) os _ h3
  rw [← sviews_yields] at hrel
  have hv : sviews cmp j s (.mk j fwd lo hi :: sts) =
      sviews cmp j { s with its := setSlot s.its j (smk cmp s.L fwd lo hi) } sts := by
    simp [sviews, sstep, hz]
  refine ⟨hrel, ?_⟩
  rw [hv] at hpers ⊢
  exact sviews_no_skip hs j fwd (stopOf fwd lo hi) x hfar (keep_mono hs fwd lo hi) sts
    { s with its := setSlot s.its j (smk cmp s.L fwd lo hi) } (smk cmp s.L fwd lo hi) hL (by simp [setSlot]) rfl rfl hno
    (smk_owes hs hL fwd lo hi hx hnear).1 hpers

/-- non-vacuity of the clause theorems: a forward iterator over `[(1,10),(3,30)]` from `Included 1`. After it
yielded `1` it is parked on `3`: a key `2` inserted now (behind the parked key) is skipped — which the property
allows —, a key `4` inserted beyond the next yield is yielded. -/
example : let cmp : Int → Int → Int := fun a b => a - b
    let it0 := smk cmp [((1 : Int), (10 : Int)), (3, 30)] true ⟨some .incl, 1⟩ ⟨some .unb, 0⟩
    let it1 := (snext cmp [(1, 10), (3, 30)] it0).1
    (snext cmp [(1, 10), (3, 30)] it0).2 = some (1, 10) ∧
    (snext cmp [(1, 10), (2, 20), (3, 30), (4, 40)] it1).2 = some (3, 30) ∧
    (snext cmp [(1, 10), (2, 20), (3, 30), (4, 40)] (snext cmp [(1, 10), (2, 20), (3, 30), (4, 40)] it1).1).2 = some (4, 40) := by
  simp [smk, startOf, stopOf, snext, sraw, ahead, geS, aboveLo, seekFirstGreaterOrEqualStep]

/-! ## non-vacuity with a lost cursor (audit C02-F4) -/

/-- the comparator of the example -/
def exCmp : Int → Int → Int := fun a b => a - b
theorem exCmp_sw : StrictWeak exCmp := ⟨by intro a b; unfold exCmp; omega, by intro a b c; unfold exCmp; omega⟩

/-- 16 ascending puts (the root splits: leaves `1 … 8 | 10 … 16`, separator 9), a forward iterator
`Range(Included 12, Unbounded)` — parked on key 12 in the right leaf (node 1, index 2) —, then `Delete 10`, `Delete 11`: the right
leaf underflows and is merged into the left one, so the cursor's node object has left the tree, the generation is stale and
`lostAt` is `true` (by evaluation of the model: cursor `(1, 2, 12)`, `findNode 1 = none`); then three `Next`s -/
def lostScript : List (Step Int Int) :=
  (List.range 16).map (fun (i : Nat) => Step.mutate (.put ((i : Int) + 1) (10 * ((i : Int) + 1)))) ++
  [.mk 0 true ⟨some .incl, 12⟩ ⟨some .unb, 0⟩, .mutate (.del 10), .mutate (.del 11), .next 0, .next 0, .next 0]

def yieldOf {β : Type} : Obs β → Option (Option β)
  | .yielded r => some r
  | _ => none

set_option maxRecDepth 4000 in
/-- … the model runs the script to the end (no nil dereference) and its three `Next`s return what the specification returns:
`12 ↦ 120` (re-sought by key in the merged node), `13 ↦ 130`, `14 ↦ 140`. -/
example : ∃ m' os, mrun exCmp (⟨Tree.empty, fun _ => none⟩ : MSt Int Int) lostScript = some (m', os) ∧
    ObsAll exCmp os (srun exCmp ⟨[], fun _ => none⟩ lostScript).2 ∧
    ((srun exCmp (⟨[], fun _ => none⟩ : SSt Int Int) lostScript).2.drop 19).map yieldOf =
      [some (some (12, 120)), some (some (13, 130)), some (some (14, 140))] := by
  obtain ⟨m', os, h1, _, h3⟩ := iter_refines_resume exCmp exCmp_sw lostScript _ _ (sim_init exCmp)
  exact ⟨m', os, h1, h3, by decide⟩

/-- non-vacuity of `iter_script_clauses` on the lost-cursor script: after the 16 `Put`s the simulation relation holds
(`iter_refines_resume`), the rest of the script — create iterator 0, two `Delete`s that merge its node away, three
`Next`s — is an instance, and its views are `12 ↦ 120`, `13 ↦ 130`, `14 ↦ 140` (strictly ascending, inside
`[12, ∞)`, present). -/
example : NoMk 0 ([.mutate (.del 10), .mutate (.del 11), .next 0, .next 0, .next 0] : List (Step Int Int)) ∧
    ((sviews exCmp 0 (srun exCmp (⟨[], fun _ => none⟩ : SSt Int Int) (lostScript.take 16)).1
      (lostScript.drop 16)).map (·.2)) = [some (12, 120), some (13, 130), some (14, 140)] := by
  refine ⟨by intro f lo hi hm; simp at hm, by decide⟩

end Juniper.Props.C02
