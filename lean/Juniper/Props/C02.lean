import Juniper.Proofs.TreeCmp
/-!
# C02 — tree iterators stay correct while the tree is modified between Next calls (property theorems)
-/
namespace Juniper.Props.C02
open Juniper.Gen.Tree Juniper.Model.BTree Juniper.Proofs.Tree

variable {K V : Type}

/-- "once it reports exhaustion it keeps doing so", far-bound half: after the `While` wrapper has seen
one key beyond the far bound it never calls the cursor again and answers `end` on whatever tree. -/
theorem while_cutoff_sticky (cmp : K → K → Int) (t : Tree K V) (it : Iter K) (op : CmpOp) (key : K)
    (hs : it.stop = some (op, key)) (hd : it.done = true) :
    iterNext cmp t it = (it, none) := by
  unfold iterNext
  simp [hs, hd, whileChecksDone]

/-- the cut-off is set exactly when the predicate fails (`iter.done = true` is present in the source). -/
theorem while_sets_done : whileSticky = true ∧ whileStops false = true ∧ whileStops true = false ∧
    whileChecksDone true = true ∧ whileChecksDone false = false := by decide

end Juniper.Props.C02
