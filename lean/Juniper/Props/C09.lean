import Juniper.Proofs.StreamClose
/-!
# C09 — every stream handed to the library is closed exactly once, never used after (property
theorems, caller's-goroutine combinators)

Sources carry ghost logs (`closes`, `after` = `Next` calls that arrived after a `Close`).
`Forwards m m' proj`: the wrapper `m'` touches its inner stream only through at most one `m.step`
per step of its own and its `Close` is exactly one `m.close`. The hypotheses `h… = true` are the
presence facts regenerated from `stream.go` / `xrand.go` (`s.inner.Close()` in every wrapper's `Close`,
`defer s.Close()` in every reducer): delete such a statement and the default `by decide` fails.
-/
namespace Juniper.Props.C09
open Juniper.Model.Stream Juniper.Gen.Comb
open Juniper.Proofs.StreamDen
universe u v w x
variable {σ : Type u} {σ' : Type w} {τ : Type w} {α β : Type v} {γ : Type x}

/-- **`C_close_once`, generic form.** For any wrapper — or pipeline of wrappers, see
`pipeline_forwards` — that forwards to a logged source: after any number of `Next` calls under any
contexts (consumer stops wherever it likes: after 0..n outputs, at the end, at an error), `Close`
leaves the source closed exactly once, with no `Next` after the `Close`. -/
theorem close_once {m' : SM σ' γ} {proj : σ' → Src α} (h : Forwards src m' proj)
    (t : σ') (h0 : (proj t).closes = 0) (cs : List Bool) :
    (proj (m'.close (afterS m' cs t))).closes = 1 ∧
      (proj (m'.close (afterS m' cs t))).after = (proj t).after := forwards_close_once h t h0 cs

/-- forwarding composes: a pipeline forwards to its source -/
theorem pipeline_forwards {σ'' : Type u} {δ : Type v} {m : SM σ α} {m' : SM σ' γ} {m'' : SM σ'' δ}
    {p : σ' → σ} {q : σ'' → σ'} (h1 : Forwards m m' p) (h2 : Forwards m' m'' q) : Forwards m m'' (p ∘ q) :=
  h1.comp h2

/-- every single-source wrapper of `stream.go` forwards -/
theorem withPeek_close_once (m : SM σ α) (h : stPeekCloseForwards = true := by decide) :
    Forwards m (withPeek m) (fun p => p.inner) := withPeek_forwards m h
theorem chunk_close_once (size : Int) (m : SM σ α) (h : stChunkCloseForwards = true := by decide) :
    Forwards m (chunk size m) (fun st => st.inner) := chunk_forwards size m h
theorem compact_close_once (eq : α → α → Bool) (m : SM σ α) (h : stCompactCloseForwards = true := by decide) :
    Forwards m (compact eq m) (fun st => st.inner) := compact_forwards eq m h
theorem filter_close_once (keep : α → Except Err Bool) (m : SM σ α) (h : stFilterCloseForwards = true := by decide) :
    Forwards m (filter keep m) (fun st => st.inner) := filter_forwards keep m h
theorem map_close_once (f : α → Except Err β) (m : SM σ α) (h : stMapCloseForwards = true := by decide) :
    Forwards m (map f m) (fun st => st.inner) := map_forwards f m h
theorem first_close_once (m : SM σ α) (h : stFirstCloseForwards = true := by decide) :
    Forwards m (first m) (fun st => st.inner) := first_forwards m h
theorem while_close_once (f : α → Except Err Bool) (m : SM σ α) (h : stWhileCloseForwards = true := by decide) :
    Forwards m (while_ f m) (fun st => st.inner) := while_forwards f m h
theorem flattenSlices_close_once (m : SM σ (List α)) (h : stFlattenSlicesCloseForwards = true := by decide) :
    Forwards m (flattenSlices m) (fun st => st.inner) := flattenSlices_forwards m h
/-- `Flatten` forwards to its outer stream … -/
theorem flatten_outer_close_once (mo : SM σ τ) (mi : SM τ α) (h : stFlattenCloseForwards = true := by decide) :
    Forwards mo (flatten mo mi) (fun st => st.outer) := flatten_outer_forwards mo mi h

/-- `Runs` used through the documented protocol (outer `Next`, read the inner stream, optionally close
it, advance) forwards to its source: both ports move the source by at most one step, the outer
`Close` closes it (through the shared peekable) exactly once. -/
theorem runs_close_once (same : α → α → Bool) (take : Option Nat) (cl : Bool) (m : SM σ α)
    (hR : stRunsCloseForwards = true := by decide) (hP : stPeekCloseForwards = true := by decide) :
    Forwards m (runsProto same take cl m) (fun st => st.rs.pk.inner) := runsProto_forwards same take cl m hR hP

/-- non-vacuity: a two-stage pipeline over the logged source, consumer stops after three calls -/
example : let m' := chunk 2 (filter (fun (n : Nat) => .ok (n % 2 == 0)) src)
    let t : ChunkSt (Wrap (Src Nat)) Nat := ⟨⟨Src.of [.item 2, .item 4, .transient 1, .item 6]⟩, []⟩
    ((m'.close (afterS m' [true, false, true] t)).inner.inner).closes = 1 ∧
    ((m'.close (afterS m' [true, false, true] t)).inner.inner).after = 0 := by decide

/-- **`flatten_inner_closed_once`**: … and every inner stream it obtained (fresh, over logged sources)
is closed exactly once — when it ended, or by `Close` — and never pulled afterwards. -/
theorem flatten_inner_closed_once {mo : SM σ (Src α)}
    (hfresh : ∀ s c x s', mo.step s c = (.item x, s') → Open0 x) (so : σ) (cs : List Bool)
    (hK : stFlattenCloseCurr = true := by decide) :
    let st' := (flatten mo src).close (afterS (flatten mo src) cs ⟨so, none, []⟩)
    ∀ x ∈ st'.finished ++ st'.curr.toList, Closed1 x :=
  Juniper.Proofs.StreamDen.flatten_inner_closed_once hfresh so cs hK

/-- **`join_rest_closed_once`**: the arguments of `Join` that ended were closed at their end, the
remaining ones are closed by `Close`; each exactly once. -/
theorem join_rest_closed_once (ss : List (Src α)) (hss : ∀ x ∈ ss, Open0 x) (cs : List Bool)
    (hF : stJoinCloseForwards = true := by decide) :
    let st' := (join src).close (afterS (join src) cs ⟨ss, []⟩)
    ∀ x ∈ st'.finished ++ st'.remaining, Closed1 x :=
  Juniper.Proofs.StreamDen.join_rest_closed_once ss hss cs hF

example : Open0 (Src.of [Ev.item 1, .fatal 2] : Src Nat) := ⟨rfl, rfl⟩

/-! ### reducers close on every path (value, error, panic-free or not, any context) -/

/-- `Collect` closes its stream exactly once, whatever happens (hypothesis: `defer s.Close()` is there). -/
theorem collect_closes {m' : SM σ' γ} {proj : σ' → Src α} (h : Forwards src m' proj) (t : σ')
    (h0 : (proj t).closes = 0) (c : Bool) (fuel : Nat) (hd : stCollectDefersClose = true := by decide) :
    (proj (collect m' c fuel t).2).closes = 1 ∧ (proj (collect m' c fuel t).2).after = (proj t).after :=
  reducer_closes h t h0 (collect_reach m' c fuel t hd)

theorem reduce_closes {δ : Type x} {m' : SM σ' γ} {proj : σ' → Src α} (h : Forwards src m' proj) (t : σ')
    (h0 : (proj t).closes = 0) (f : δ → γ → Except Err δ) (c : Bool) (fuel : Nat) (init : δ)
    (hd : stReduceDefersClose = true := by decide) :
    (proj (reduce m' f c fuel init t).2).closes = 1 ∧ (proj (reduce m' f c fuel init t).2).after = (proj t).after :=
  reducer_closes h t h0 (reduce_reach m' f c fuel init t hd)

theorem last_closes {m' : SM σ' γ} {proj : σ' → Src α} (h : Forwards src m' proj) (t : σ')
    (h0 : (proj t).closes = 0) (n : Int) (c : Bool) (fuel : Nat) (hd : stLastDefersClose = true := by decide) :
    (proj (last m' n c fuel t).2).closes = 1 ∧ (proj (last m' n c fuel t).2).after = (proj t).after :=
  reducer_closes h t h0 (last_reach m' n c fuel t hd)

/-- `One` (D8: the `defer` was missing — then `by decide` fails and the monitor shows the open source). -/
theorem one_closes {m' : SM σ' γ} {proj : σ' → Src α} (h : Forwards src m' proj) (t : σ')
    (h0 : (proj t).closes = 0) (c : Bool) (fuel : Nat) (hd : stOneDefersClose = true := by decide) :
    (proj (one m' c fuel t).2).closes = 1 ∧ (proj (one m' c fuel t).2).after = (proj t).after :=
  reducer_closes h t h0 (one_reach m' c fuel t hd)

/-- `xrand.SampleStream` (as a reducer: reads to the end or the first error, then the deferred `Close`). -/
theorem sampleStream_closes {m' : SM σ' γ} {proj : σ' → Src α} (h : Forwards src m' proj) (t : σ')
    (h0 : (proj t).closes = 0) (c : Bool) (fuel : Nat) (hd : sampleStreamDefersClose = true := by decide) :
    (proj (sampleCount m' c fuel t).2).closes = 1 ∧ (proj (sampleCount m' c fuel t).2).after = (proj t).after :=
  reducer_closes h t h0 (sample_reach m' c fuel t hd)

example : let r := one src true 10 (Src.of [Ev.item 1, .item 2] : Src Nat)
    r.1 = .error .moreThanOne ∧ r.2.closes = 1 ∧ r.2.after = 0 := by decide

end Juniper.Props.C09
