import Juniper.Proofs.StreamClose
import Juniper.Proofs.StreamCloseMulti
import Juniper.Proofs.StreamLog
/-!
# C09 — every stream handed to the library is closed exactly once, never used after (property
theorems, caller's-goroutine combinators)

Sources carry ghost logs (`closes`, `after` = `Next` calls that arrived after a `Close`).
`Forwards m m' proj`: the wrapper `m'` touches its inner stream only through at most one `m.step`
per step of its own and its `Close` is exactly one `m.close`.

**How the Go source enters.** The machines' `close` functions and the reducers' deferred `Close` are
*defined by* the presence facts regenerated from `stream.go` / `xrand.go` (`s.inner.Close()` in every
wrapper's `Close`; "the first statement is `defer s.Close()`" for every reducer and for
`xrand.rSampleStream`; the range operand and body of `joinStream.Close`; the condition of
`flattenStream.Close`). Each fact has a tie lemma `<fact>_fact : Gen.Comb.<fact> = true := by decide`
(`Proofs/StreamFacts.lean`), and the `Forwards` / `*_reach` lemmas every theorem below is derived from
*use* those lemmas in their proofs. No theorem of this file has a fact as a hypothesis: delete such a
statement from the Go source and the tie lemma of that name — and with it every theorem here that
depends on it — no longer builds.
-/
namespace Juniper.Props.C09
open Juniper.Model.Stream Juniper.Gen.Comb
open Juniper.Proofs.StreamDen
universe u v w x
variable {σ : Type u} {σ' : Type w} {τ : Type w} {α β : Type v} {γ : Type x}

/-- **`C_close_once`, generic form.** For any wrapper — or pipeline of wrappers, see
`pipeline_forwards` — that forwards to a logged source: after any number of `Next` calls under any
contexts (consumer stops wherever it likes: after 0..n outputs, at the end, at an error), `Close`
leaves the source closed exactly once, with no `Next` after the `Close`. -/
theorem close_once {m' : SM σ' γ} {proj : σ' → Src α} (h : Forwards src m' proj)
    (t : σ') (h0 : (proj t).closes = 0) (cs : List Bool) :
    (proj (m'.close (afterS m' cs t))).closes = 1 ∧
      (proj (m'.close (afterS m' cs t))).after = (proj t).after := forwards_close_once h t h0 cs

/-- forwarding composes: a pipeline forwards to its source -/
theorem pipeline_forwards {σ'' : Type u} {δ : Type v} {m : SM σ α} {m' : SM σ' γ} {m'' : SM σ'' δ}
    {p : σ' → σ} {q : σ'' → σ'} (h1 : Forwards m m' p) (h2 : Forwards m' m'' q) : Forwards m m'' (p ∘ q) :=
  h1.comp h2

/-- every single-source wrapper of `stream.go` forwards -/
theorem withPeek_close_once (m : SM σ α) :
    Forwards m (withPeek m) (fun p => p.inner) :=
  Juniper.Proofs.Skeleton.under Juniper.Proofs.Skeleton.Tie.stPeek (withPeek_forwards m)
theorem chunk_close_once (size : Int) (m : SM σ α) :
    Forwards m (chunk size m) (fun st => st.inner) :=
  Juniper.Proofs.Skeleton.under Juniper.Proofs.Skeleton.Tie.stChunk (chunk_forwards size m)
theorem compact_close_once (eq : α → α → Bool) (m : SM σ α) :
    Forwards m (compact eq m) (fun st => st.inner) :=
  Juniper.Proofs.Skeleton.under Juniper.Proofs.Skeleton.Tie.stCompact (compact_forwards eq m)
theorem filter_close_once (keep : α → Except Err Bool) (m : SM σ α) :
    Forwards m (filter keep m) (fun st => st.inner) :=
  Juniper.Proofs.Skeleton.under Juniper.Proofs.Skeleton.Tie.stFilter (filter_forwards keep m)
theorem map_close_once (f : α → Except Err β) (m : SM σ α) :
    Forwards m (map f m) (fun st => st.inner) :=
  Juniper.Proofs.Skeleton.under Juniper.Proofs.Skeleton.Tie.stMap (map_forwards f m)
theorem first_close_once (m : SM σ α) :
    Forwards m (first m) (fun st => st.inner) :=
  Juniper.Proofs.Skeleton.under Juniper.Proofs.Skeleton.Tie.stFirst (first_forwards m)
theorem while_close_once (f : α → Except Err Bool) (m : SM σ α) :
    Forwards m (while_ f m) (fun st => st.inner) :=
  Juniper.Proofs.Skeleton.under Juniper.Proofs.Skeleton.Tie.stWhile (while_forwards f m)
theorem flattenSlices_close_once (m : SM σ (List α)) :
    Forwards m (flattenSlices m) (fun st => st.inner) :=
  Juniper.Proofs.Skeleton.under Juniper.Proofs.Skeleton.Tie.stFlattenSlices (flattenSlices_forwards m)
/-- `Flatten` forwards to its outer stream … -/
theorem flatten_outer_close_once (mo : SM σ τ) (mi : SM τ α) :
    Forwards mo (flatten mo mi) (fun st => st.outer) :=
  Juniper.Proofs.Skeleton.under Juniper.Proofs.Skeleton.Tie.stFlatten (flatten_outer_forwards mo mi)

/-- `Runs` used through the documented protocol (outer `Next`, read the inner stream, optionally close
it, advance) forwards to its source: both ports move the source by at most one step, the outer
`Close` closes it (through the shared peekable) exactly once. -/
theorem runs_close_once (same : α → α → Bool) (take : Option Nat) (cl : Bool) (m : SM σ α)
    :
    Forwards m (runsProto same take cl m) (fun st => st.rs.pk.inner) :=
  Juniper.Proofs.Skeleton.under Juniper.Proofs.Skeleton.Tie.stRuns (runsProto_forwards same take cl m)

/-- non-vacuity: a two-stage pipeline over the logged source, consumer stops after three calls -/
example : let m' := chunk 2 (filter (fun (n : Nat) => .ok (n % 2 == 0)) src)
    let t : ChunkSt (Wrap (Src Nat)) Nat := ⟨⟨Src.of [.item 2, .item 4, .transient 1, .item 6]⟩, []⟩
    ((m'.close (afterS m' [true, false, true] t)).inner.inner).closes = 1 ∧
    ((m'.close (afterS m' [true, false, true] t)).inner.inner).after = 0 := by decide

/-! ### every wrapper named in the property: its own closed-exactly-once statement over the logged source

(`Next` calls under any contexts — the consumer stops wherever it likes — then `Close`: the source has
seen exactly one `Close` and no `Next` after it.) Corollaries of `close_once` and the `Forwards` lemma of
each wrapper, i.e. of its regenerated `s.inner.Close()` fact and its control skeleton. -/

theorem withPeek_closes_source_once (s0 : Src α) (h0 : s0.closes = 0) (cs : List Bool) :
    ((withPeek src).close (afterS (withPeek src) cs ⟨s0, none⟩)).inner.closes = 1 ∧
    ((withPeek src).close (afterS (withPeek src) cs ⟨s0, none⟩)).inner.after = s0.after :=
  close_once (withPeek_close_once src) ⟨s0, none⟩ h0 cs

theorem chunk_closes_source_once (size : Int) (s0 : Src α) (h0 : s0.closes = 0) (cs : List Bool) :
    ((chunk size src).close (afterS (chunk size src) cs ⟨s0, []⟩)).inner.closes = 1 ∧
    ((chunk size src).close (afterS (chunk size src) cs ⟨s0, []⟩)).inner.after = s0.after :=
  close_once (chunk_close_once size src) ⟨s0, []⟩ h0 cs

theorem compact_closes_source_once (eq : α → α → Bool) (s0 : Src α) (h0 : s0.closes = 0) (cs : List Bool) :
    ((compact eq src).close (afterS (compact eq src) cs ⟨s0, true, none⟩)).inner.closes = 1 ∧
    ((compact eq src).close (afterS (compact eq src) cs ⟨s0, true, none⟩)).inner.after = s0.after :=
  close_once (compact_close_once eq src) ⟨s0, true, none⟩ h0 cs

theorem filter_closes_source_once (keep : α → Except Err Bool) (s0 : Src α) (h0 : s0.closes = 0) (cs : List Bool) :
    ((filter keep src).close (afterS (filter keep src) cs ⟨s0⟩)).inner.closes = 1 ∧
    ((filter keep src).close (afterS (filter keep src) cs ⟨s0⟩)).inner.after = s0.after :=
  close_once (filter_close_once keep src) ⟨s0⟩ h0 cs

theorem map_closes_source_once (f : α → Except Err β) (s0 : Src α) (h0 : s0.closes = 0) (cs : List Bool) :
    ((map f src).close (afterS (map f src) cs ⟨s0⟩)).inner.closes = 1 ∧
    ((map f src).close (afterS (map f src) cs ⟨s0⟩)).inner.after = s0.after :=
  close_once (map_close_once f src) ⟨s0⟩ h0 cs

theorem first_closes_source_once (n : Int) (s0 : Src α) (h0 : s0.closes = 0) (cs : List Bool) :
    ((first src).close (afterS (first src) cs ⟨s0, n⟩)).inner.closes = 1 ∧
    ((first src).close (afterS (first src) cs ⟨s0, n⟩)).inner.after = s0.after :=
  close_once (first_close_once src) ⟨s0, n⟩ h0 cs

theorem while_closes_source_once (f : α → Except Err Bool) (s0 : Src α) (h0 : s0.closes = 0) (cs : List Bool) :
    ((while_ f src).close (afterS (while_ f src) cs ⟨s0, none, false⟩)).inner.closes = 1 ∧
    ((while_ f src).close (afterS (while_ f src) cs ⟨s0, none, false⟩)).inner.after = s0.after :=
  close_once (while_close_once f src) ⟨s0, none, false⟩ h0 cs

theorem flattenSlices_closes_source_once (s0 : Src (List α)) (h0 : s0.closes = 0) (cs : List Bool) :
    ((flattenSlices src).close (afterS (flattenSlices src) cs ⟨s0, []⟩)).inner.closes = 1 ∧
    ((flattenSlices src).close (afterS (flattenSlices src) cs ⟨s0, []⟩)).inner.after = s0.after :=
  close_once (flattenSlices_close_once src) ⟨s0, []⟩ h0 cs

/-- `Flatten`: the outer stream (the inner ones: `flatten_inner_closed_once`) -/
theorem flatten_closes_outer_once (mi : SM τ α) (s0 : Src τ) (h0 : s0.closes = 0) (cs : List Bool) :
    ((flatten src mi).close (afterS (flatten src mi) cs ⟨s0, none, []⟩)).outer.closes = 1 ∧
    ((flatten src mi).close (afterS (flatten src mi) cs ⟨s0, none, []⟩)).outer.after = s0.after :=
  close_once (flatten_outer_close_once src mi) ⟨s0, none, []⟩ h0 cs

/-- `Join` closes every argument exactly once: `join_rest_closed_once`, `join_pipelines_closed_once`; `Runs`: -/
theorem runs_closes_source_once (same : α → α → Bool) (take : Option Nat) (cl : Bool) (s0 : Src α)
    (h0 : s0.closes = 0) (cs : List Bool) :
    ((runsProto same take cl src).close (afterS (runsProto same take cl src) cs ⟨⟨⟨s0, none⟩, 0, none⟩, none⟩)).rs.pk.inner.closes = 1 ∧
    ((runsProto same take cl src).close (afterS (runsProto same take cl src) cs ⟨⟨⟨s0, none⟩, 0, none⟩, none⟩)).rs.pk.inner.after = s0.after :=
  close_once (runs_close_once same take cl src) ⟨⟨⟨s0, none⟩, 0, none⟩, none⟩ h0 cs

example : ((first src).close (afterS (first src) [true, true, false, true] ⟨Src.of [Ev.item 1, .item 2, .item 3], 1⟩)).inner.closes = 1 := by
  decide

/-- **`WithPeek` used through `Peek` *and* `Next`**, in any order, under any contexts, over any fault script,
then `Close`: the source has been closed exactly once and not pulled afterwards (`withPeek_closes_source_once`
is the `Next`-only case). -/
theorem peek_interleave_closes_once {α : Type} (s0 : Src α) (h0 : s0.closes = 0) (ops : List SPeekOp) :
    (peekClose src (speekRun src ops ⟨s0, none⟩).2).inner.closes = 1 ∧
    (peekClose src (speekRun src ops ⟨s0, none⟩).2).inner.after = s0.after :=
  Juniper.Proofs.StreamDen.peek_interleave_closes_once s0 h0 ops

example : (peekClose src (speekRun src [.peek true, .peek false, .next true, .peek true]
    ⟨Src.of [Ev.item 1, .transient 3, .item 2], none⟩).2).inner.closes = 1 := by decide

/-! ### pipelines of arbitrary depth: the source's ghost call log -/

section pipelines
variable {α : Type}

/-- **pipeline, counters**: any `SPipe` pipeline (any depth; `Filter`, `Map`, `First`, `While`,
`CompactFunc`, `WithPeek`, `Chunk`+`FlattenSlices`) over the logged source: closed exactly once, never
pulled afterwards. -/
theorem pipeline_close_once (p : SPipe α) (s0 : Src α) (h0 : s0.closes = 0) (cs : List Bool) :
    ((p.machine src).proj ((p.machine src).m.close (afterS (p.machine src).m cs ((p.machine src).wrap s0)))).closes = 1 ∧
    ((p.machine src).proj ((p.machine src).m.close (afterS (p.machine src).m cs ((p.machine src).wrap s0)))).after = s0.after := by
  have h := close_once (spipe_forwards src p) ((p.machine src).wrap s0) (by rw [SPipe.proj_wrap]; exact h0) cs
  rwa [SPipe.proj_wrap] at h

/-- **pipeline, call log**: what the source sees, call by call, is `Next`s and then exactly one `Close`,
at the very end. -/
theorem pipeline_call_log (p : SPipe α) (s0 : Src α) (cs : List Bool) :
    NextsThenClose ((p.machine lsrc).proj ((p.machine lsrc).m.close
      (afterS (p.machine lsrc).m cs ((p.machine lsrc).wrap ⟨s0, []⟩)))).log := by
  obtain ⟨ds, h⟩ := forwards_call_log (spipe_forwards lsrc p) ((p.machine lsrc).wrap ⟨s0, []⟩) cs
  rw [SPipe.proj_wrap] at h
  exact ⟨ds, by rw [h]; rfl⟩

/-- **no `Next` after `Close`** … -/
theorem pipeline_no_next_after_close (p : SPipe α) (s0 : Src α) (cs : List Bool) :
    nextAfterClose ((p.machine lsrc).proj ((p.machine lsrc).m.close
      (afterS (p.machine lsrc).m cs ((p.machine lsrc).wrap ⟨s0, []⟩)))).log = false :=
  (nextsThenClose_spec (pipeline_call_log p s0 cs)).2.1

/-- … **no second `Close`** … -/
theorem pipeline_no_second_close (p : SPipe α) (s0 : Src α) (cs : List Bool) :
    closeCount ((p.machine lsrc).proj ((p.machine lsrc).m.close
      (afterS (p.machine lsrc).m cs ((p.machine lsrc).wrap ⟨s0, []⟩)))).log = 1 :=
  (nextsThenClose_spec (pipeline_call_log p s0 cs)).1

/-- … and **never concurrent**: the combinator methods start no goroutine and use no channel
(regenerated: `combConcurrencyOps = 0`), every step of the pipeline adds at most one *complete* call to
the source's log — made under the step's own context and finished before the step returns — and the log
of a run is the concatenation, in the order of the consumer's calls, of what each of them adds. Calls
on the source therefore never overlap each other as long as the consumer's own calls do not. -/
theorem pipeline_never_concurrent (p : SPipe α) :
    combConcurrencyOps = 0 ∧ AtomicCalls (p.machine lsrc).m (p.machine lsrc).proj ∧
    ∀ (t : (p.machine lsrc).σ) (cs1 cs2 : List Bool), ∃ ds1 ds2 : List Bool,
      ((p.machine lsrc).proj (afterS (p.machine lsrc).m cs1 t)).log =
        ((p.machine lsrc).proj t).log ++ ds1.map Call.next ∧
      ((p.machine lsrc).proj (afterS (p.machine lsrc).m (cs1 ++ cs2) t)).log =
        ((p.machine lsrc).proj t).log ++ ds1.map Call.next ++ ds2.map Call.next :=
  ⟨Juniper.Proofs.Skeleton.Tie.sequential, forwards_atomic (spipe_forwards lsrc p),
    forwards_log_append (spipe_forwards lsrc p)⟩

/-- a reducer over a pipeline: the same log shape (here `Collect`; the others likewise by their `_reach` lemma) -/
theorem pipeline_collect_call_log (p : SPipe α) (s0 : Src α) (c : Bool) (fuel : Nat) :
    NextsThenClose ((p.machine lsrc).proj (collect (p.machine lsrc).m c fuel ((p.machine lsrc).wrap ⟨s0, []⟩)).2).log := by
  obtain ⟨cs, hcs⟩ := collect_reach (p.machine lsrc).m c fuel ((p.machine lsrc).wrap ⟨s0, []⟩)
  rw [hcs]
  exact pipeline_call_log p s0 cs

/-- non-vacuity: a depth-4 pipeline; seven steps (one with an expired context), then `Close`: `First 2`
stops asking once it has delivered two items -/
example :
    let p : SPipe Nat := .first 2 (.chunkFlat 2 (.filter (fun n => .ok (n % 2 == 1)) (.peek .src)))
    let M := p.machine lsrc
    (M.proj (M.m.close (afterS M.m [true, true, false, true, true, true, true] (M.wrap ⟨Src.of [.item 1, .item 2, .item 3, .item 5], []⟩)))).log
      = [.next true, .next true, .next false, .next true, .close] := by
  decide

end pipelines

/-! ### streams obtained on the way: Flatten's inner streams, Join's later arguments — over raw sources,
over pipelines, and under further stages -/

/-- **`flatten_inner_closed_once`**: … and every inner stream it obtained (fresh, over logged sources)
is closed exactly once — when it ended, or by `Close` — and never pulled afterwards.
(Uses `stFlattenClosesEnded_fact`, `stFlattenClearsCurr_fact`, `stFlattenCloseCurr_fact`.) -/
theorem flatten_inner_closed_once {mo : SM σ (Src α)}
    (hfresh : ∀ s c x s', mo.step s c = (.item x, s') → Open0 x) (so : σ) (cs : List Bool) :
    let st' := (flatten mo src).close (afterS (flatten mo src) cs ⟨so, none, []⟩)
    ∀ x ∈ st'.finished ++ st'.curr.toList, Closed1 x :=
  Juniper.Proofs.StreamDen.flatten_inner_closed_once hfresh so cs

/-- **`flatten_pipelines_inner_closed_once`**: the same when the inner streams are *pipelines* (states of
any machine `mi` that forwards to a logged source, e.g. an `SPipe` pipeline, `Runs`, another `Flatten`'s
outer side) and the outer stream is any machine that, from the states reachable from `so` (invariant
`P`), only hands out fresh ones: the source behind every inner stream obtained is closed exactly once,
never pulled afterwards. -/
theorem flatten_pipelines_inner_closed_once {mo : SM σ' σ} {mi : SM σ β} {proj : σ → Src α}
    (h : Forwards src mi proj) (P : σ' → Prop) (hP : ∀ s c, P s → P (mo.step s c).2)
    (hfresh : ∀ s c x s', P s → mo.step s c = (.item x, s') → Open0 (proj x)) (so : σ') (hso : P so) (cs : List Bool) :
    let st' := (flatten mo mi).close (afterS (flatten mo mi) cs ⟨so, none, []⟩)
    ∀ x ∈ st'.finished ++ st'.curr.toList, Closed1 (proj x) :=
  Juniper.Proofs.StreamDen.flatten_pipelines_inner_closed_once h P hP hfresh so hso cs

/-- **one run of `Flatten`, outer and inner streams together**: the outer stream is a scripted stream
(items, transient and fatal failures) of fresh scripted streams (each with its own faults). After any
run under any contexts and `Close`: the outer stream was closed exactly once and not pulled afterwards
**and** every inner stream obtained was closed exactly once and not pulled afterwards. -/
theorem flatten_scripted_closed_once (so : Src (Src α)) (h0 : so.closes = 0) (hfr : FreshScript so) (cs : List Bool) :
    let st' := (flatten src src).close (afterS (flatten src src) cs ⟨so, none, []⟩)
    st'.outer.closes = 1 ∧ st'.outer.after = so.after ∧ ∀ x ∈ st'.finished ++ st'.curr.toList, Closed1 x :=
  Juniper.Proofs.StreamDen.flatten_scripted_closed_once so h0 hfr cs

/-- … and none of the inner streams the outer stream handed out is missing from the lists that statement
ranges over: their number is the number of items pulled from the outer stream (any inner machine). -/
theorem flatten_none_lost {τ : Type w} (mi : SM τ β) (so : Src τ) (h0 : so.pulled = 0) (cs : List Bool) :
    let st' := (flatten src mi).close (afterS (flatten src mi) cs ⟨so, none, []⟩)
    (st'.finished ++ st'.curr.toList).length = st'.outer.pulled :=
  Juniper.Proofs.StreamDen.flatten_none_lost mi so h0 cs

/-- non-vacuity: inner stream 1 ends (closed when it ended), the outer stream then fails transiently,
inner stream 2 is abandoned after one item (closed by `Close`), the outer stream is closed once -/
example :
    let so : Src (Src Nat) := Src.of [.item (Src.of [.item 1]), .transient 7, .item (Src.of [.item 2, .item 3]), .fatal 9]
    let st' := (flatten src src).close (afterS (flatten src src) [true, true, true, true, true, true] ⟨so, none, []⟩)
    st'.finished.map (fun x => (x.closes, x.after, x.calls)) = [(1, 0, 2)] ∧
    st'.curr.map (fun x => (x.closes, x.after, x.pulled)) = some (1, 0, 1) ∧
    (st'.outer.closes, st'.outer.after) = (1, 0) := by decide

example : FreshScript (Src.of [.item (Src.of [Ev.item 1]), .transient 7, .item (Src.of [.item 2, .item 3]), .fatal 9] : Src (Src Nat)) := by
  intro x hx
  simp [Src.of] at hx
  rcases hx with rfl | rfl <;> exact ⟨rfl, rfl⟩

/-- **`join_rest_closed_once`**: the arguments of `Join` that ended were closed at their end, the
remaining ones — the one being read and those never reached — are closed by `Close`; each exactly
once, and none of the arguments is lost. (Uses `stJoinClosesEnded_fact`, `stJoinAdvances_fact`,
`stJoinCloseForwards_fact`: presence, range operand and body of the loop of `joinStream.Close`.) -/
theorem join_rest_closed_once (ss : List (Src α)) (hss : ∀ x ∈ ss, Open0 x) (cs : List Bool) :
    let st' := (join src).close (afterS (join src) cs ⟨ss, []⟩)
    (∀ x ∈ st'.finished ++ st'.remaining, Closed1 x) ∧ (st'.finished ++ st'.remaining).length = ss.length :=
  Juniper.Proofs.StreamDen.join_pipelines_closed_once (mi := src) (proj := id) (Forwards.refl src) ss hss cs

/-- **`join_pipelines_closed_once`**: `Join(p₁, …, pₙ)` where every argument is a *pipeline* (a state of
any machine that forwards to a logged source): after any run and `Close` the source behind every
argument has been closed exactly once and not pulled afterwards; none is lost. -/
theorem join_pipelines_closed_once {mi : SM σ β} {proj : σ → Src α} (h : Forwards src mi proj) (ss : List σ)
    (hss : ∀ s ∈ ss, Open0 (proj s)) (cs : List Bool) :
    let st' := (join mi).close (afterS (join mi) cs ⟨ss, []⟩)
    (∀ x ∈ st'.finished ++ st'.remaining, Closed1 (proj x)) ∧ (st'.finished ++ st'.remaining).length = ss.length :=
  Juniper.Proofs.StreamDen.join_pipelines_closed_once h ss hss cs

/-- **stages on top of a `Join`** (`Filter(Chunk(Join(p₁, …, pₙ)))`, any forwarding machine `m'` over the
`Join`): the same conclusion for the whole pipeline's `Close`. -/
theorem stages_over_join_closed_once {σ'' : Type w} {mi : SM σ β} {proj : σ → Src α} {m' : SM σ'' γ}
    {q : σ'' → JoinSt σ} (h : Forwards src mi proj) (hq : Forwards (join mi) m' q) (t : σ'') (ss : List σ)
    (ht : q t = ⟨ss, []⟩) (hss : ∀ s ∈ ss, Open0 (proj s)) (cs : List Bool) :
    let st' := q (m'.close (afterS m' cs t))
    (∀ x ∈ st'.finished ++ st'.remaining, Closed1 (proj x)) ∧ (st'.finished ++ st'.remaining).length = ss.length :=
  Juniper.Proofs.StreamDen.stages_over_join_closed_once h hq t ss ht hss cs

/-- **a reducer over a `Join` of pipelines** (`Collect(ctx, Join(p₁, …, pₙ))`): when `Collect` returns —
value or error, any context — the source behind every argument has been closed exactly once. -/
theorem collect_join_closes {mi : SM σ β} {proj : σ → Src α} (h : Forwards src mi proj) (ss : List σ)
    (hss : ∀ s ∈ ss, Open0 (proj s)) (c : Bool) (fuel : Nat) :
    let st' := (collect (join mi) c fuel ⟨ss, []⟩).2
    (∀ x ∈ st'.finished ++ st'.remaining, Closed1 (proj x)) ∧ (st'.finished ++ st'.remaining).length = ss.length := by
  obtain ⟨cs, hcs⟩ := collect_reach (join mi) c fuel ⟨ss, []⟩
  intro st'
  have : st' = (join mi).close (afterS (join mi) cs ⟨ss, []⟩) := hcs
  rw [this]
  exact Juniper.Proofs.StreamDen.join_pipelines_closed_once h ss hss cs

/-- non-vacuity: three arguments, each a `Filter` pipeline over its own logged source; the consumer stops
while the first is being read — the second and third are never reached — all three are closed exactly
once by `Close` -/
example :
    let mi := filter (fun (n : Nat) => .ok (n % 2 == 0)) src
    let ss : List (Wrap (Src Nat)) := [⟨Src.of [.item 2, .item 4]⟩, ⟨Src.of [.item 6]⟩, ⟨Src.of []⟩]
    let st' := (join mi).close (afterS (join mi) [true] ⟨ss, []⟩)
    (st'.finished ++ st'.remaining).map (fun x => (x.inner.closes, x.inner.after, x.inner.calls)) =
      [(1, 0, 1), (1, 0, 0), (1, 0, 0)] := by decide

example : Open0 (Src.of [Ev.item 1, .fatal 2] : Src Nat) := ⟨rfl, rfl⟩

/-! ### reducers close on every path (value, error, panic-free or not, any context)

Each uses the tie lemma of its `defer` fact through its `*_reach` lemma (`stCollectDefersClose_fact`, … :
"the first statement of the function is `defer s.Close()`"). -/

/-- `Collect` closes its stream exactly once, whatever happens. -/
theorem collect_closes {m' : SM σ' γ} {proj : σ' → Src α} (h : Forwards src m' proj) (t : σ')
    (h0 : (proj t).closes = 0) (c : Bool) (fuel : Nat) :
    (proj (collect m' c fuel t).2).closes = 1 ∧ (proj (collect m' c fuel t).2).after = (proj t).after :=
  reducer_closes h t h0 (collect_reach m' c fuel t)

/-- `Reduce` (tie: `stReduceDefersClose_fact`). -/
theorem reduce_closes {δ : Type x} {m' : SM σ' γ} {proj : σ' → Src α} (h : Forwards src m' proj) (t : σ')
    (h0 : (proj t).closes = 0) (f : δ → γ → Except Err δ) (c : Bool) (fuel : Nat) (init : δ) :
    (proj (reduce m' f c fuel init t).2).closes = 1 ∧ (proj (reduce m' f c fuel init t).2).after = (proj t).after :=
  reducer_closes h t h0 (reduce_reach m' f c fuel init t)

/-- `Last` (tie: `stLastDefersClose_fact`); also when `n < 0` makes `make` panic. -/
theorem last_closes {m' : SM σ' γ} {proj : σ' → Src α} (h : Forwards src m' proj) (t : σ')
    (h0 : (proj t).closes = 0) (n : Int) (c : Bool) (fuel : Nat) :
    (proj (last m' n c fuel t).2).closes = 1 ∧ (proj (last m' n c fuel t).2).after = (proj t).after :=
  reducer_closes h t h0 (last_reach m' n c fuel t)

/-- `One` (D8: the `defer` was missing — then `stOneDefersClose_fact` fails and the monitor shows the open source). -/
theorem one_closes {m' : SM σ' γ} {proj : σ' → Src α} (h : Forwards src m' proj) (t : σ')
    (h0 : (proj t).closes = 0) (c : Bool) (fuel : Nat) :
    (proj (one m' c fuel t).2).closes = 1 ∧ (proj (one m' c fuel t).2).after = (proj t).after :=
  reducer_closes h t h0 (one_reach m' c fuel t)

/-- `xrand.SampleStream` = `rSampleStream(ctx, defaultRand{}, s, k)` (regenerated body `sampleStreamW`);
`rSampleStream` as a reducer: reads to the end or the first error, then the deferred `Close`
(tie: `sampleStreamDefersClose_fact`; control skeleton: `Tie.sample`). -/
theorem sampleStream_closes {m' : SM σ' γ} {proj : σ' → Src α} (h : Forwards src m' proj) (t : σ')
    (h0 : (proj t).closes = 0) (c : Bool) (fuel : Nat) :
    (proj (sampleCount m' c fuel t).2).closes = 1 ∧ (proj (sampleCount m' c fuel t).2).after = (proj t).after :=
  reducer_closes h t h0 (sample_reach m' c fuel t)

example : let r := one src true 10 (Src.of [Ev.item 1, .item 2] : Src Nat)
    r.1 = .error .moreThanOne ∧ r.2.closes = 1 ∧ r.2.after = 0 := by decide

example : let r := sampleCount src true 10 (Src.of [Ev.item 1, .fatal 3] : Src Nat)
    r.1 = .error (.fatal 3) ∧ r.2.closes = 1 ∧ r.2.after = 0 := by decide

end Juniper.Props.C09
