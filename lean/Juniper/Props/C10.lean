import Juniper.Model.Pipe
import Juniper.Model.Skeleton
import Juniper.Generated.Skeleton
import Juniper.Proofs.PipeFifo
import Juniper.Proofs.PipeNoLoss
import Juniper.Proofs.PipeLive
/-!
# C10 — stream.Pipe: FIFO per sender, nothing sent-before-close lost, no stuck call
(and the Pipe clauses of C08: a call that fails on an expired context costs nothing, the close
error surfaces after the data)

All theorems are about `Juniper.Model.Pipe`, the labelled transition system whose `select` arms,
arm bodies and drain step are the definitions regenerated from `stream/stream.go`
(`Juniper.Gen.Pipe`). `Reach (init n b) st`: `st` is reachable in a pipe with `n` sender goroutines and
`bufferSize = b` under *some* schedule and environment — the theorems quantify over all of them.
Facts about the regenerated tables are discharged by `decide` inside the proofs: when the source
changes so that one of them no longer holds, exactly the theorems that rely on it stop compiling.

Vocabulary (defined in `Model/Pipe.lean` and `Proofs/Pipe*.lean`): `ofSender i l` = the messages of
sender `i` in `l`, in order; `sd.sent` = the messages sender `i`'s calls were started with (ghost);
`st.ackedBC` = messages whose send on the channel succeeded before the sender's `Close` (ghost);
`st.delivered` = what `Next` returned so far (ghost); `reportsEnd st l` = step `l` makes `Next` return
the end / the close error; `Quiet` = no `Send`/`TrySend` in flight; `stage`/`rstage` = number of
`select` statements a call still has in front of it.
-/
namespace Juniper.Props.C10
open Juniper.Facts Juniper.Gen.Pipe Juniper.Model.Pipe Juniper.Proofs.Pipe

/-- A two-sender pipe with `bufferSize = 2`: sender 0 sends 7, sender 1 `TrySend`s 8 (both buffered),
sender 0 starts sending 9 and parks because the buffer is full; the sender is closed
with an error, the parked `Send` returns it; the receiver's first `Next` takes the `senderDone` arm,
drains 7; the second `Next` takes 8 from its main select; the third goes through the drain's
`default` and reports. Used by the non-vacuity examples below. -/
def demo : List Label :=
  [.startSend 0 7 false, .sender 0 (.send chData), .startTry 1 8 false, .sender 1 .dflt, .sender 1 (.send chData),
   .startSend 0 9 false, .closeSender true, .sender 0 (.recv chSenderDone),
   .startNext false, .recv (.recv chSenderDone), .recv (.recv chData),
   .startNext false, .recv (.recv chData),
   .startNext false, .recv (.recv chSenderDone), .recv .dflt]

/-- The regenerated `select` tables of `Send`, `TrySend` and `pipeStream.Next` contain exactly the arms
the model interprets (no arm it would ignore), and `Pipe` wires both halves to the same channels,
`Close` stores the error before closing `senderDone`. -/
theorem tables_exact : tablesKnown = true ∧ wiringOK = true := by decide

/-- Tie 1 for the control flow *between* the tables: the LTS hard-wires that `Send` is one `select`,
`TrySend` two non-blocking `select`s and nothing else, `Next` one `select` whose `senderDone` arm is the
drain followed by the report, `Close` = store the error, then `close(senderDone)`. The statement-kind
skeletons regenerated from `stream/stream.go` (`Juniper.Gen.Skeleton`: one token per statement, in
source order, nested blocks flattened, identifiers and operands normalised away, `select` arms in
canonical order) are exactly the ones written down in `Model/Skeleton.lean`: no statement was added
(a fast path, a bare channel operation, an early `return`), removed or moved. -/
theorem skeleton_ok :
    Gen.Skeleton.pipe = Model.Skeleton.pipe ∧ Gen.Skeleton.send = Model.Skeleton.send ∧
    Gen.Skeleton.trySend = Model.Skeleton.trySend ∧ Gen.Skeleton.senderClose = Model.Skeleton.senderClose ∧
    Gen.Skeleton.pipeNext = Model.Skeleton.pipeNext ∧ Gen.Skeleton.pipeClose = Model.Skeleton.pipeClose := by
  decide

/-- The buffer never exceeds the capacity `make(chan T, bufferSize)` was given, which is
`bufferSize` itself. -/
theorem pipe_capacity {n b : Nat} {st : State} (hr : Reach (init n b) st) :
    st.cap = b ∧ st.buf.length ≤ b := by
  have hcap : ∀ {st}, Reach (init n b) st → st.cap = b := by
    intro st hr
    induction hr with
    | refl => simp [init, chanCap]
    | step _ hs ih => rw [cap_step hs, ih]
  have := (inv_reach (by decide) hr).cap
  rw [hcap hr] at this
  exact ⟨hcap hr, this⟩


example : ∃ st, Reach (init 2 2) st ∧ st.buf.length = 2 :=
  ⟨after (init 2 2) (demo.take 6), reach_after (by decide), by decide⟩

/-- **Only sent values, each at most once, each sender's values in the order sent.** In every
reachable state, for what has been delivered and what is still buffered: every message is one that
a `Send`/`TrySend` of its sender was called with; no message occurs twice; and per sender the
messages form a sublist (order-preserving, gaps allowed: failed calls) of that sender's calls. -/
theorem pipe_only_sent_at_most_once_in_order {n b : Nat} {st : State} (hr : Reach (init n b) st) :
    (∀ m ∈ st.delivered ++ st.buf, ∃ sd, st.senders[m.sender]? = some sd ∧ m ∈ sd.sent) ∧
    (st.delivered ++ st.buf).Nodup ∧
    (∀ i sd, st.senders[i]? = some sd → (ofSender i (st.delivered ++ st.buf)).Sublist sd.sent) :=
  fifo_of_inv (inv_reach (by decide) hr)


/-- non-vacuity: two senders, both delivered, one failed call (9) in between -/
example : ∃ st, Reach (init 2 2) st ∧ st.delivered.map (·.val) = [7, 8] ∧
    (st.senders.map fun sd => sd.sent.map (·.val)) = [[7, 9], [8]] :=
  ⟨after (init 2 2) demo, reach_after (by decide), by decide, by decide⟩

/-- **Nothing sent before close is lost.** Once a `Next` has reported the end / the close error, the
sender had been closed and every value whose send succeeded before that `Close` has been
delivered. (False of the tree before the D11 fix: `nextDrains = false` there.) -/
theorem pipe_no_loss_before_close {n b : Nat} {st : State} (hr : Reach (init n b) st)
    (hend : st.endReported = true) :
    st.senderDone = true ∧ ∀ m ∈ st.ackedBC, m ∈ st.delivered :=
  noLoss_reach (by decide) ⟨by decide, by decide, by decide⟩ hr hend


example : ∃ st, Reach (init 2 2) st ∧ st.endReported = true ∧ st.ackedBC.map (·.val) = [7, 8] :=
  ⟨after (init 2 2) demo, reach_after (by decide), by decide, by decide⟩

/-- The same at the reporting step itself: `Next` reports only out of the drain's `default`, with an
empty buffer, and at that moment everything acknowledged before the `Close` has been delivered
(so those values were delivered *before* the receiver is told about the end). -/
theorem pipe_no_loss_at_report {n b : Nat} {st st' : State} {l : Label} (hr : Reach (init n b) st)
    (hs : step st l = some st') (hrep : reportsEnd st l = true) :
    st.buf = [] ∧ st'.delivered = st.delivered ∧ ∀ m ∈ st'.ackedBC, m ∈ st'.delivered := by
  obtain ⟨_, _, hbuf, _, hst'⟩ := report_only_when_drained ⟨by decide, by decide, by decide⟩ hs hrep
  refine ⟨hbuf, by rw [hst']; rfl, ?_⟩
  have := pipe_no_loss_before_close (Reach.step hr hs) (by rw [hst']; rfl)
  exact this.2


example : ∃ st st', Reach (init 2 2) st ∧ step st (.recv .dflt) = some st' ∧ reportsEnd st (.recv .dflt) = true ∧
    st'.ackedBC.length = 2 :=
  ⟨after (init 2 2) (demo.take 15), after (init 2 2) demo, reach_after (by decide), by decide, by decide, by decide⟩

/-- **Once no Send is in flight, the end, once reported, keeps being reported.** If `Next` reports
while no `Send`/`TrySend` is in flight, then as long as no new one is started, no step can hand a
value to the receiver any more, the sender stays closed and the stored error is unchanged — so
(with `next_never_stuck`) every later `Next` reports again, and the same thing. -/
theorem pipe_end_sticky_when_quiet {n b : Nat} {st s1 s2 : State} {l : Label} {ls : List Label}
    (hr : Reach (init n b) st) (hq : Quiet st) (hs : step st l = some s1) (hrep : reportsEnd st l = true)
    (hls : ∀ x ∈ ls, startsSend x = false) (hrun : run s1 ls = some s2) :
    (∀ l', deliversValue l' = true → step s2 l' = none) ∧
    s2.senderDone = true ∧ s2.senderErr = s1.senderErr := by
  have h1 := settled_of_quiet_report ⟨by decide, by decide, by decide⟩ (inv_reach (by decide) hr) hq hs hrep
  obtain ⟨h2, herr⟩ := settled_run h1 hls hrun
  exact ⟨fun l' hl' => settled_no_delivery h2 hl', h2.1, herr⟩


/-- non-vacuity: after the report of `demo`, two more `Next` calls (one with an expired context)
and the receiver's `Close`: all hypotheses hold -/
example : ∃ st s1 s2, Reach (init 2 2) st ∧ Quiet st ∧ step st (.recv .dflt) = some s1 ∧
    reportsEnd st (.recv .dflt) = true ∧
    run s1 [.startNext true, .recv (.recv chCtx), .startNext false, .recv (.recv chSenderDone), .recv .dflt, .closeRecv] = some s2 :=
  ⟨after (init 2 2) (demo.take 15), after (init 2 2) demo,
   after (init 2 2) (demo ++ [.startNext true, .recv (.recv chCtx), .startNext false, .recv (.recv chSenderDone), .recv .dflt, .closeRecv]),
   reach_after (by decide), by decide, by decide, by decide, by decide⟩

/-- **Send returns once the receiver closes, the sender closes or its context expires.** In any
state in which a `Send` is pending and one of the three holds, an arm of its `select` that makes it
return is enabled; and whatever step happens next, the call has either returned or is still
pending with the condition still true (the condition is stable). That `Send` *is* that one `select`
and nothing else is the first conjunct (regenerated control skeleton). -/
theorem send_never_stuck {st : State} {i : Nat} {sd : Sender} {m : Msg}
    (hsd : st.senders[i]? = some sd) (hpc : sd.pc = .send m)
    (hc : st.streamDone = true ∨ st.senderDone = true ∨ sd.ctx = true) :
    Gen.Skeleton.send = Model.Skeleton.send ∧
    (∃ a st' sd', step st (.sender i a) = some st' ∧ st'.senders[i]? = some sd' ∧ sd'.pc = .idle) ∧
    (∀ l st', step st l = some st' → ∃ sd', st'.senders[i]? = some sd' ∧
      (sd'.pc = .idle ∨ (sd'.pc = .send m ∧ (st'.streamDone = true ∨ st'.senderDone = true ∨ sd'.ctx = true)))) := by
  refine ⟨by decide, ?_, ?_⟩
  · obtain ⟨a, st', hs⟩ := send_enabled ⟨by decide, by decide, by decide⟩ hsd hpc hc
    obtain ⟨sd', hsd', hlt⟩ := sender_step_progress hsd (Or.inr ⟨a, rfl⟩) hs
    refine ⟨a, st', sd', hs, hsd', ?_⟩
    rw [hpc] at hlt
    cases hp : sd'.pc <;> simp [hp, stage] at hlt ⊢
  · intro l st' hs
    exact send_cond_stable hsd hpc hc hs


/-- non-vacuity: sender 0 parked in `Send 9` on a full buffer when the sender is closed -/
example : ∃ st sd m, Reach (init 2 2) st ∧ st.senders[0]? = some sd ∧ sd.pc = .send m ∧ st.senderDone = true ∧ m.val = 9 :=
  ⟨after (init 2 2) (demo.take 7), ⟨.send ⟨0, 1, 9⟩, false, [⟨0, 0, 7⟩, ⟨0, 1, 9⟩]⟩, ⟨0, 1, 9⟩,
   reach_after (by decide), by decide, by decide, by decide, by decide⟩

/-- **TrySend never blocks.** Its body consists of exactly two `select` statements — no statement
before, between or after them that could block or return early (regenerated control skeleton) —, both
with a `default` arm (regenerated tables); hence in every state a pending `TrySend` has an enabled step of its own, and each of its
steps takes it to the next `select` or returns — it returns after at most two own steps without
waiting for any other goroutine. -/
theorem trySend_never_blocks {st : State} {i : Nat} {sd : Sender} {m : Msg}
    (hsd : st.senders[i]? = some sd) (hpc : sd.pc = .try1 m ∨ sd.pc = .try2 m) :
    Gen.Skeleton.trySend = Model.Skeleton.trySend ∧
    (trySendArms1.contains .dflt = true ∧ trySendArms2.contains .dflt = true) ∧
    (∃ l st', (l = .handoff i ∨ ∃ a, l = .sender i a) ∧ step st l = some st') ∧
    (∀ l st', (l = .handoff i ∨ ∃ a, l = .sender i a) → step st l = some st' →
      ∃ sd', st'.senders[i]? = some sd' ∧ stage sd'.pc < stage sd.pc) ∧
    stage sd.pc ≤ 2 :=
  ⟨by decide, ⟨by decide, by decide⟩, trySend_enabled ⟨by decide, by decide, by decide⟩ hsd hpc,
    fun _ _ hl hs => sender_step_progress hsd hl hs,
    by rcases hpc with h | h <;> simp [h, stage]⟩


/-- non-vacuity: sender 1 at the first and at the second `select` of `TrySend 8` -/
example : ∃ st sd m, Reach (init 2 2) st ∧ st.senders[1]? = some sd ∧ sd.pc = .try1 m :=
  ⟨after (init 2 2) (demo.take 3), ⟨.try1 ⟨1, 0, 8⟩, false, [⟨1, 0, 8⟩]⟩, ⟨1, 0, 8⟩, reach_after (by decide), by decide, by decide⟩
example : ∃ st sd m, Reach (init 2 2) st ∧ st.senders[1]? = some sd ∧ sd.pc = .try2 m :=
  ⟨after (init 2 2) (demo.take 4), ⟨.try2 ⟨1, 0, 8⟩, false, [⟨1, 0, 8⟩]⟩, ⟨1, 0, 8⟩, reach_after (by decide), by decide, by decide⟩

/-- **Next returns once a value is available, the sender closes or its context expires.** In any
state in which `Next` is parked in its main `select` and one of these holds, a step of the receiver
is enabled and takes `Next` strictly closer to its return; in the drain (if the source has one) it never waits at all (it
returns with the next step of the receiver); and the stable part of the condition — a buffered
value, the sender's `Close`, the expired context — persists while `Next` is parked. First conjunct:
`Next` is that `select` (with the drain `select` and the report inside its `senderDone` arm) and
nothing else (regenerated control skeleton). -/
theorem next_never_stuck {st : State} :
    Gen.Skeleton.pipeNext = Model.Skeleton.pipeNext ∧
    (st.rpc = .next →
      (st.buf ≠ [] ∨ (∃ sd ∈ st.senders, canHandoff st sd = true) ∨ st.senderDone = true ∨ st.rctx = true) →
      ∃ l st', isRecvLabel l = true ∧ step st l = some st' ∧ rstage st'.rpc < rstage st.rpc) ∧
    (nextDrains = true → st.rpc = .drain →
      ∃ l st', isRecvLabel l = true ∧ step st l = some st' ∧ st'.rpc = .idle) ∧
    (st.rpc = .next → (st.buf ≠ [] ∨ st.senderDone = true ∨ st.rctx = true) →
      ∀ l st', step st l = some st' →
        st'.rpc ≠ .next ∨ (st'.buf ≠ [] ∨ st'.senderDone = true ∨ st'.rctx = true)) := by
  have hF : NextFacts := ⟨by decide, by decide, by decide, fun _ => by decide, fun _ => by decide, by decide⟩
  exact ⟨by decide, fun hpc hc => next_enabled hF hpc hc, fun hd hpc => drain_enabled hF hd hpc,
    fun hpc hc l st' hs => next_cond_stable hpc hc hs⟩


/-- non-vacuity: `Next` parked with two buffered values and a closed sender; `Next` in the drain;
`Next` facing a sender parked on an unbuffered pipe -/
example : ∃ st, Reach (init 2 2) st ∧ st.rpc = .next ∧ st.buf ≠ [] ∧ st.senderDone = true :=
  ⟨after (init 2 2) (demo.take 9), reach_after (by decide), by decide, by decide, by decide⟩
example : ∃ st, Reach (init 2 2) st ∧ st.rpc = .drain :=
  ⟨after (init 2 2) (demo.take 10), reach_after (by decide), by decide⟩
example : ∃ st sd, Reach (init 1 0) st ∧ st.rpc = .next ∧ sd ∈ st.senders ∧ canHandoff st sd = true :=
  ⟨after (init 1 0) [.startSend 0 5 false, .startNext false], ⟨.send ⟨0, 0, 5⟩, false, [⟨0, 0, 5⟩]⟩,
   reach_after (by decide), by decide, by decide, by decide⟩

/-! ## Pipe clauses of C08 -/

/-- **A Next/Send/TrySend that fails on an expired context costs nothing.** The step in which the
call returns the context's error changes nothing but that call's program counter: channel
contents, ghost logs, flags and every other goroutine are as they were, so the next call continues
exactly where this one left off. -/
theorem pipe_ctx_costs_nothing {st st' : State} :
    (step st (.recv (.recv chCtx)) = some st' → st' = { st with rpc := .idle }) ∧
    (∀ i, step st (.sender i (.recv chCtx)) = some st' →
      ∃ sd, st.senders[i]? = some sd ∧ st' = st.setSender i { sd with pc := sd.pc.after (.recv chCtx) }) := by
  constructor
  · intro hs
    obtain ⟨_, hcase⟩ := step_recv hs
    rcases hcase with ⟨m, rest, h, _⟩ | ⟨h, _⟩ | ⟨h, _⟩ | ⟨ch, _, _, _, rfl⟩ | ⟨h, _⟩
    · simp [chCtx, chData] at h
    · simp [chCtx, chSenderDone] at h
    · simp [chCtx, chSenderDone] at h
    · rfl
    · cases h
  · intro i hs
    obtain ⟨sd, m, hsd, _, _, hcase⟩ := step_sender hs
    rcases hcase with ⟨rfl, _⟩ | ⟨ch, h, _⟩
    · exact ⟨sd, hsd, rfl⟩
    · cases h


/-- non-vacuity: a `Next` and a `Send` whose contexts expire while they wait on a full, unread pipe -/
example : ∃ st st', Reach (init 1 1) st ∧ step st (.recv (.recv chCtx)) = some st' ∧ st'.buf.length = 1 :=
  ⟨after (init 1 1) [.startSend 0 5 false, .sender 0 (.send chData), .startNext true],
   after (init 1 1) [.startSend 0 5 false, .sender 0 (.send chData), .startNext true, .recv (.recv chCtx)],
   reach_after (by decide), by decide, by decide⟩
example : ∃ st st', Reach (init 1 1) st ∧ step st (.sender 0 (.recv chCtx)) = some st' :=
  ⟨after (init 1 1) [.startSend 0 5 false, .sender 0 (.send chData), .startSend 0 6 false, .cancelSender 0],
   after (init 1 1) [.startSend 0 5 false, .sender 0 (.send chData), .startSend 0 6 false, .cancelSender 0, .sender 0 (.recv chCtx)],
   reach_after (by decide), by decide⟩

/-- **The close error surfaces after the data.** When `Next` reports, the sender has been closed,
what is reported is the error it was closed with (the normal end only if that was `nil`) — read off
the regenerated statements that follow the drain — and everything sent ahead of the `Close` has
been delivered. First conjunct: `Close(err)` is "store `err`, close `senderDone`" and `Next` has no
statement besides its `select`, the drain and that report — no test of the error's *kind* in between
(regenerated control skeletons). -/
theorem pipe_close_error_after_data {n b : Nat} {st st' : State} {l : Label} (hr : Reach (init n b) st)
    (hs : step st l = some st') (hrep : reportsEnd st l = true) :
    (Gen.Skeleton.senderClose = Model.Skeleton.senderClose ∧ Gen.Skeleton.pipeNext = Model.Skeleton.pipeNext) ∧
    st.senderDone = true ∧ endResult st = (if st.senderErr then "err" else "end") ∧
    ∀ m ∈ st'.ackedBC, m ∈ st'.delivered := by
  obtain ⟨_, hrpc, _, _, _⟩ := report_only_when_drained ⟨by decide, by decide, by decide⟩ hs hrep
  refine ⟨⟨by decide, by decide⟩, (inv_reach (by decide) hr).drain hrpc, ?_, (pipe_no_loss_at_report hr hs hrep).2.2⟩
  have : (nextEndStmts == ["err := *s.senderErr", "if err != nil {", "return zero, err", "}", "return zero, End"]) = true := by decide
  simp [endResult, this]


example : ∃ st st', Reach (init 2 2) st ∧ step st (.recv .dflt) = some st' ∧ reportsEnd st (.recv .dflt) = true ∧
    st.senderErr = true ∧ st'.delivered.map (·.val) = [7, 8] :=
  ⟨after (init 2 2) (demo.take 15), after (init 2 2) demo, reach_after (by decide), by decide, by decide, by decide, by decide⟩

end Juniper.Props.C10
