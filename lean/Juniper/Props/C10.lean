import Juniper.Model.Pipe
import Juniper.Model.Skeleton
import Juniper.Generated.Skeleton
import Juniper.Proofs.PipeFifo
import Juniper.Proofs.PipeNoLoss
import Juniper.Proofs.PipeLive
import Juniper.Proofs.PipeQueue
/-!
# C10 — stream.Pipe: FIFO per sender, nothing sent-before-close lost, no stuck call
(and the Pipe clauses of C08: a call that fails on an expired context costs nothing, the close
error surfaces after the data)

All theorems are about `Juniper.Model.Pipe`, the labelled transition system whose `select` arms,
arm bodies and drain step are the definitions regenerated from `stream/stream.go`
(`Juniper.Gen.Pipe`). `Reach (init n b) st`: `st` is reachable in a pipe with `n` sender goroutines and
`bufferSize = b` under *some* schedule and environment — the theorems quantify over all of them.
Facts about the regenerated tables are discharged by `decide` inside the proofs: when the source
changes so that one of them no longer holds, exactly the theorems that rely on it stop compiling.

Vocabulary (defined in `Model/Pipe.lean` and `Proofs/Pipe*.lean`): `ofSender i l` = the messages of
sender `i` in `l`, in order; `sd.sent` = the messages sender `i`'s calls were started with (ghost);
`st.ackedBC` = messages whose send on the channel succeeded before the sender's `Close` (ghost);
`st.delivered` = what `Next` returned so far (ghost); `reportsEnd st l` = step `l` makes `Next` return
the end / the close error; `Quiet` = no `Send`/`TrySend` in flight; `stage`/`rstage` = upper bound on
the number of own steps a call still has in front of it (poll-or-park, arm); `ownLabel i l` = `l` is a
step of sender goroutine `i` (an arm of its `select`, a rendez-vous, its parking); `isRecvLabel l`
likewise for the receiver. A call at a blocking `select` is *polling* (`send m false`, `next false`) or
*parked* (`… true`); `canHandoff st sd` = a rendez-vous between `sd` and the receiver on the unbuffered
channel is possible, which needs exactly one of the two to be parked (`Model/Pipe.lean`, "Polling and
parking").

**What the liveness theorems (`…_never_stuck`, `…_never_blocks`, `unbuffered_send_meets_next`) say:** an
*enabled step* of the call that returns / brings it strictly closer to its return (measure `stage` /
`rstage`), and that the condition under which it is enabled is *stable* under every label of the LTS.
"The call returns" follows under the assumption — not proved, it is a property of the Go scheduler —
that an internal step of a goroutine that stays enabled is eventually taken (weak fairness per call).
-/
namespace Juniper.Props.C10
open Juniper.Facts Juniper.Gen.Pipe Juniper.Model.Pipe Juniper.Proofs.Pipe

/-- A two-sender pipe with `bufferSize = 2`: sender 0 sends 7, sender 1 `TrySend`s 8 (both buffered),
sender 0 starts sending 9 and parks because the buffer is full; the sender is closed
with an error, the parked `Send` returns it; the receiver's first `Next` takes the `senderDone` arm,
drains 7; the second `Next` takes 8 from its main select; the third goes through the drain's
`default` and reports. Used by the non-vacuity examples below. -/
def demo : List Label :=
  [.startSend 0 7 false, .sender 0 (.send chData), .startTry 1 8 false, .sender 1 .dflt, .sender 1 (.send chData),
   .startSend 0 9 false, .closeSender true, .sender 0 (.recv chSenderDone),
   .startNext false, .recv (.recv chSenderDone), .recv (.recv chData),
   .startNext false, .recv (.recv chData),
   .startNext false, .recv (.recv chSenderDone), .recv .dflt]

/-- The regenerated `select` tables of `Send`, `TrySend` and `pipeStream.Next` contain exactly the arms
the model interprets (no arm it would ignore), and `Pipe` wires both halves to the same channels,
`Close` stores the error before closing `senderDone`. -/
theorem tables_exact : tablesKnown = true ∧ wiringOK = true := by decide

/-- Tie 1 for the control flow *between* the tables: the LTS hard-wires that `Send` is one `select`,
`TrySend` two non-blocking `select`s and nothing else, `Next` one `select` whose `senderDone` arm is the
drain followed by the report, `Close` = store the error, then `close(senderDone)`. The statement-kind
skeletons regenerated from `stream/stream.go` (`Juniper.Gen.Skeleton`: one token per statement, in
source order, nested blocks flattened, identifiers and operands normalised away, `select` arms in
canonical order) are exactly the ones written down in `Model/Skeleton.lean`: no statement was added
(a fast path, a bare channel operation, an early `return`), removed or moved. -/
theorem skeleton_ok :
    Gen.Skeleton.pipe = Model.Skeleton.pipe ∧ Gen.Skeleton.send = Model.Skeleton.send ∧
    Gen.Skeleton.trySend = Model.Skeleton.trySend ∧ Gen.Skeleton.senderClose = Model.Skeleton.senderClose ∧
    Gen.Skeleton.pipeNext = Model.Skeleton.pipeNext ∧ Gen.Skeleton.pipeClose = Model.Skeleton.pipeClose := by
  decide

/-- The buffer never exceeds the capacity `make(chan T, bufferSize)` was given, which is
`bufferSize` itself. -/
theorem pipe_capacity {n b : Nat} {st : State} (hr : Reach (init n b) st) :
    st.cap = b ∧ st.buf.length ≤ b := by
  have hcap : ∀ {st}, Reach (init n b) st → st.cap = b := by
    intro st hr
    induction hr with
    | refl => simp [init, chanCap]
    | step _ hs ih => rw [cap_step hs, ih]
  have := (inv_reach (by decide) hr).cap
  rw [hcap hr] at this
  exact ⟨hcap hr, this⟩


example : ∃ st, Reach (init 2 2) st ∧ st.buf.length = 2 :=
  ⟨after (init 2 2) (demo.take 6), reach_after (by decide), by decide⟩

/-- **Only sent values, each at most once, each sender's values in the order sent.** In every
reachable state, for what has been delivered and what is still buffered: every message is one that
a `Send`/`TrySend` of its sender was called with; no message occurs twice; and per sender the
messages form a sublist (order-preserving, gaps allowed: failed calls) of that sender's calls. -/
theorem pipe_only_sent_at_most_once_in_order {n b : Nat} {st : State} (hr : Reach (init n b) st) :
    (∀ m ∈ st.delivered ++ st.buf, ∃ sd, st.senders[m.sender]? = some sd ∧ m ∈ sd.sent) ∧
    (st.delivered ++ st.buf).Nodup ∧
    (∀ i sd, st.senders[i]? = some sd → (ofSender i (st.delivered ++ st.buf)).Sublist sd.sent) :=
  fifo_of_inv (inv_reach (by decide) hr)


/-- non-vacuity: two senders, both delivered, one failed call (9) in between -/
example : ∃ st, Reach (init 2 2) st ∧ st.delivered.map (·.val) = [7, 8] ∧
    (st.senders.map fun sd => sd.sent.map (·.val)) = [[7, 9], [8]] :=
  ⟨after (init 2 2) demo, reach_after (by decide), by decide, by decide⟩

/-- **Nothing sent before close is lost.** Once a `Next` has reported the end / the close error, the
sender had been closed and every value whose send succeeded before that `Close` has been
delivered. (False of the tree before the D11 fix: `nextDrains = false` there.) -/
theorem pipe_no_loss_before_close {n b : Nat} {st : State} (hr : Reach (init n b) st)
    (hend : st.endReported = true) :
    st.senderDone = true ∧ ∀ m ∈ st.ackedBC, m ∈ st.delivered :=
  noLoss_reach (by decide) ⟨by decide, by decide, by decide⟩ hr hend


example : ∃ st, Reach (init 2 2) st ∧ st.endReported = true ∧ st.ackedBC.map (·.val) = [7, 8] :=
  ⟨after (init 2 2) demo, reach_after (by decide), by decide, by decide⟩

/-- The same at the reporting step itself: `Next` reports only out of the drain's `default`, with an
empty buffer, and at that moment everything acknowledged before the `Close` has been delivered
(so those values were delivered *before* the receiver is told about the end). -/
theorem pipe_no_loss_at_report {n b : Nat} {st st' : State} {l : Label} (hr : Reach (init n b) st)
    (hs : step st l = some st') (hrep : reportsEnd st l = true) :
    st.buf = [] ∧ st'.delivered = st.delivered ∧ ∀ m ∈ st'.ackedBC, m ∈ st'.delivered := by
  obtain ⟨_, _, hbuf, _, hst'⟩ := report_only_when_drained ⟨by decide, by decide, by decide⟩ hs hrep
  refine ⟨hbuf, by rw [hst']; rfl, ?_⟩
  have := pipe_no_loss_before_close (Reach.step hr hs) (by rw [hst']; rfl)
  exact this.2


example : ∃ st st', Reach (init 2 2) st ∧ step st (.recv .dflt) = some st' ∧ reportsEnd st (.recv .dflt) = true ∧
    st'.ackedBC.length = 2 :=
  ⟨after (init 2 2) (demo.take 15), after (init 2 2) demo, reach_after (by decide), by decide, by decide, by decide⟩

/-- **Once no Send is in flight, the end, once reported, keeps being reported.** If `Next` reports
while no `Send`/`TrySend` is in flight, then as long as no new one is started, no step can hand a
value to the receiver any more, the sender stays closed and the stored error is unchanged — so
(with `next_never_stuck`) every later `Next` reports again, and the same thing. -/
theorem pipe_end_sticky_when_quiet {n b : Nat} {st s1 s2 : State} {l : Label} {ls : List Label}
    (hr : Reach (init n b) st) (hq : Quiet st) (hs : step st l = some s1) (hrep : reportsEnd st l = true)
    (hls : ∀ x ∈ ls, startsSend x = false) (hrun : run s1 ls = some s2) :
    (∀ l', deliversValue l' = true → step s2 l' = none) ∧
    s2.senderDone = true ∧ s2.senderErr = s1.senderErr := by
  have h1 := settled_of_quiet_report ⟨by decide, by decide, by decide⟩ (inv_reach (by decide) hr) hq hs hrep
  obtain ⟨h2, herr⟩ := settled_run h1 hls hrun
  exact ⟨fun l' hl' => settled_no_delivery h2 hl', h2.1, herr⟩


/-- non-vacuity: after the report of `demo`, two more `Next` calls (one with an expired context)
and the receiver's `Close`: all hypotheses hold -/
example : ∃ st s1 s2, Reach (init 2 2) st ∧ Quiet st ∧ step st (.recv .dflt) = some s1 ∧
    reportsEnd st (.recv .dflt) = true ∧
    run s1 [.startNext true, .recv (.recv chCtx), .startNext false, .recv (.recv chSenderDone), .recv .dflt, .closeRecv] = some s2 :=
  ⟨after (init 2 2) (demo.take 15), after (init 2 2) demo,
   after (init 2 2) (demo ++ [.startNext true, .recv (.recv chCtx), .startNext false, .recv (.recv chSenderDone), .recv .dflt, .closeRecv]),
   reach_after (by decide), by decide, by decide, by decide, by decide⟩

/-- **Send returns once the receiver closes, the sender closes or its context expires** — proved as:
in any state (reachable or not) in which a `Send` is pending (polling or parked, `pc = send m p`) and
one of the three holds,
1. `Send` *is* one `select` and nothing else (regenerated control skeleton);
2. an arm of that `select` is enabled whose step makes the call return (`pc = idle` afterwards);
3. stability: whatever label of the LTS is taken next (any goroutine, any environment action), the call
   has returned or is still pending with one of the three still true;
4. a `Send` that has not parked yet (`p = false`) has an enabled own step in *every* state (an arm, a
   rendez-vous, or it parks) — polling never waits;
5. every own step of the call strictly decreases `stage ≤ 2`.
Assumption for "returns": weak fairness of the scheduler towards this call's enabled steps. -/
theorem send_never_stuck {st : State} {i : Nat} {sd : Sender} {m : Msg} {p : Bool}
    (hsd : st.senders[i]? = some sd) (hpc : sd.pc = .send m p)
    (hc : st.streamDone = true ∨ st.senderDone = true ∨ sd.ctx = true) :
    Gen.Skeleton.send = Model.Skeleton.send ∧
    (∃ a st' sd', step st (.sender i a) = some st' ∧ st'.senders[i]? = some sd' ∧ sd'.pc = .idle) ∧
    (∀ l st', step st l = some st' → ∃ sd', st'.senders[i]? = some sd' ∧
      (sd'.pc = .idle ∨ ((∃ p', sd'.pc = .send m p') ∧
        (st'.streamDone = true ∨ st'.senderDone = true ∨ sd'.ctx = true)))) ∧
    (p = false → ∃ l st', ownLabel i l ∧ step st l = some st') ∧
    (∀ l st', ownLabel i l → step st l = some st' →
      ∃ sd', st'.senders[i]? = some sd' ∧ stage sd'.pc < stage sd.pc) ∧ stage sd.pc ≤ 2 := by
  refine ⟨by decide, send_enabled ⟨by decide, by decide, by decide⟩ hsd hpc hc,
    fun l st' hs => send_cond_stable hsd hpc hc hs, ?_, ?_, ?_⟩
  · intro hp; subst hp; exact send_poll_enabled hsd hpc
  · intro l st' hl hs
    obtain ⟨sd', h1, h2, _⟩ := sender_step_progress hsd hl hs
    exact ⟨sd', h1, h2⟩
  · rw [hpc]; cases p <;> simp [stage]


/-- non-vacuity: sender 0 parked in `Send 9` on a full buffer when the sender is closed -/
example : ∃ st sd m, Reach (init 2 2) st ∧ st.senders[0]? = some sd ∧ sd.pc = .send m false ∧ st.senderDone = true ∧ m.val = 9 :=
  ⟨after (init 2 2) (demo.take 7), ⟨.send ⟨0, 1, 9⟩ false, false, [⟨0, 0, 7⟩, ⟨0, 1, 9⟩]⟩, ⟨0, 1, 9⟩,
   reach_after (by decide), by decide, by decide, by decide, by decide⟩
/-- … and the same `Send` parked (it polled the full buffer before the `Close`) -/
example : ∃ st sd m, Reach (init 2 2) st ∧ st.senders[0]? = some sd ∧ sd.pc = .send m true ∧ st.senderDone = true :=
  ⟨after (init 2 2) (demo.take 6 ++ [.park 0, .closeSender true]), ⟨.send ⟨0, 1, 9⟩ true, false, [⟨0, 0, 7⟩, ⟨0, 1, 9⟩]⟩, ⟨0, 1, 9⟩,
   reach_after (by decide), by decide, by decide, by decide⟩

/-- **TrySend never blocks** — proved as: its body consists of exactly two `select` statements — no
statement before, between or after them that could block or return early (regenerated control
skeleton) —, both with a `default` arm (regenerated tables); in *every* state (reachable or not,
whatever the other goroutines do) a pending `TrySend` has an enabled step of its own (an arm, `default`,
or a rendez-vous with a *parked* `Next`); each own step strictly decreases `stage ≤ 2`, i.e. takes it to
the second `select` or returns. So it returns after at most two own steps and never waits for another
goroutine. (That the scheduler runs the goroutine is the only assumption.) -/
theorem trySend_never_blocks {st : State} {i : Nat} {sd : Sender} {m : Msg}
    (hsd : st.senders[i]? = some sd) (hpc : sd.pc = .try1 m ∨ sd.pc = .try2 m) :
    Gen.Skeleton.trySend = Model.Skeleton.trySend ∧
    (trySendArms1.contains .dflt = true ∧ trySendArms2.contains .dflt = true) ∧
    (∃ l st', ownLabel i l ∧ step st l = some st') ∧
    (∀ l st', ownLabel i l → step st l = some st' →
      ∃ sd', st'.senders[i]? = some sd' ∧ stage sd'.pc < stage sd.pc) ∧
    stage sd.pc ≤ 2 :=
  ⟨by decide, ⟨by decide, by decide⟩, trySend_enabled ⟨by decide, by decide, by decide⟩ hsd hpc,
    fun _ _ hl hs => by
      obtain ⟨sd', h1, h2, _⟩ := sender_step_progress hsd hl hs
      exact ⟨sd', h1, h2⟩,
    by rcases hpc with h | h <;> simp [h, stage]⟩


/-- non-vacuity: sender 1 at the first and at the second `select` of `TrySend 8` -/
example : ∃ st sd m, Reach (init 2 2) st ∧ st.senders[1]? = some sd ∧ sd.pc = .try1 m :=
  ⟨after (init 2 2) (demo.take 3), ⟨.try1 ⟨1, 0, 8⟩, false, [⟨1, 0, 8⟩]⟩, ⟨1, 0, 8⟩, reach_after (by decide), by decide, by decide⟩
example : ∃ st sd m, Reach (init 2 2) st ∧ st.senders[1]? = some sd ∧ sd.pc = .try2 m :=
  ⟨after (init 2 2) (demo.take 4), ⟨.try2 ⟨1, 0, 8⟩, false, [⟨1, 0, 8⟩]⟩, ⟨1, 0, 8⟩, reach_after (by decide), by decide, by decide⟩

/-- **Next returns once a value is available, the sender closes or its context expires** — proved as,
in every state (reachable or not):
1. `Next` is one `select` (with the drain `select` and the report inside its `senderDone` arm) and nothing
   else (regenerated control skeleton);
2. if `Next` is at its main `select` (polling or parked) and a value is buffered, a rendez-vous is
   possible (`canHandoff`: unbuffered pipe, a sender offers, exactly one side parked), the sender is
   closed or the context expired, then a step of the receiver is enabled that strictly decreases `rstage`;
3. a `Next` that has not parked yet has an enabled own step in every state (an arm, a rendez-vous with
   a parked `Send`, or it parks), which decreases `rstage` — polling never waits;
4. in the drain (if the source has one) it never waits: a receiver step is enabled and returns;
5. stability: the part of the condition that does not depend on other calls — a buffered value, the
   sender's `Close`, the expired context — persists under every label while `Next` is at its main `select`.
(That a pending `Send` and a pending `Next` on an unbuffered pipe do reach a state with `canHandoff` is
`unbuffered_send_meets_next`.) Assumption for "returns": weak fairness of the scheduler towards the
receiver's enabled steps. -/
theorem next_never_stuck {st : State} :
    Gen.Skeleton.pipeNext = Model.Skeleton.pipeNext ∧
    (∀ p, st.rpc = .next p →
      (st.buf ≠ [] ∨ (∃ sd ∈ st.senders, canHandoff st sd = true) ∨ st.senderDone = true ∨ st.rctx = true) →
      ∃ l st', isRecvLabel l = true ∧ step st l = some st' ∧ rstage st'.rpc < rstage st.rpc) ∧
    (st.rpc = .next false →
      ∃ l st', isRecvLabel l = true ∧ step st l = some st' ∧ rstage st'.rpc < rstage st.rpc) ∧
    (nextDrains = true → st.rpc = .drain →
      ∃ l st', isRecvLabel l = true ∧ step st l = some st' ∧ st'.rpc = .idle) ∧
    (st.rpc.isNext = true → (st.buf ≠ [] ∨ st.senderDone = true ∨ st.rctx = true) →
      ∀ l st', step st l = some st' →
        st'.rpc.isNext = false ∨ (st'.buf ≠ [] ∨ st'.senderDone = true ∨ st'.rctx = true)) := by
  have hF : NextFacts := ⟨by decide, by decide, by decide, fun _ => by decide, fun _ => by decide, by decide⟩
  exact ⟨by decide, fun p hpc hc => next_enabled hF hpc hc, fun hpc => next_poll_enabled hpc,
    fun hd hpc => drain_enabled hF hd hpc, fun hpc hc l st' hs => next_cond_stable hpc hc hs⟩


/-- non-vacuity: `Next` at its select with two buffered values and a closed sender; `Next` in the drain;
`Next` polling while a `Send` is parked on an unbuffered pipe (rendez-vous possible) -/
example : ∃ st, Reach (init 2 2) st ∧ st.rpc = .next false ∧ st.buf ≠ [] ∧ st.senderDone = true :=
  ⟨after (init 2 2) (demo.take 9), reach_after (by decide), by decide, by decide, by decide⟩
example : ∃ st, Reach (init 2 2) st ∧ st.rpc = .drain :=
  ⟨after (init 2 2) (demo.take 10), reach_after (by decide), by decide⟩
example : ∃ st sd, Reach (init 1 0) st ∧ st.rpc = .next false ∧ sd ∈ st.senders ∧ canHandoff st sd = true :=
  ⟨after (init 1 0) [.startSend 0 5 false, .park 0, .startNext false], ⟨.send ⟨0, 0, 5⟩ true, false, [⟨0, 0, 5⟩]⟩,
   reach_after (by decide), by decide, by decide, by decide⟩

/-- **No lost rendez-vous on an unbuffered pipe.** In every reachable state of a pipe with `bufferSize = 0`
in which a `Send` and a `Next` are both pending (each polling or parked), an internal step of one of the
two calls is enabled: whoever is still polling can fire an arm, complete the rendez-vous with the parked
partner, or park; and the two are never both parked (wait-queue invariant `QInv`: the poll of the
second to arrive finds the first in the queue — `park` is enabled only if no partner is parked). Each
such step decreases `stage`/`rstage`, so after at most two of them the rendez-vous `handoff i` itself, or a
returning arm, is enabled. Assumption for "they do meet": weak fairness of the scheduler. -/
theorem unbuffered_send_meets_next {n : Nat} {st : State} {i : Nat} {sd : Sender} {m : Msg} {p q : Bool}
    (hr : Reach (init n 0) st) (hsd : st.senders[i]? = some sd) (hpc : sd.pc = .send m p)
    (hn : st.rpc = .next q) :
    (sendArms.contains (.send chData) = true ∧ nextArms.contains (.recv chData) = true) ∧
    ¬(p = true ∧ q = true) ∧
    ((∃ l st', ownLabel i l ∧ step st l = some st') ∨
     (∃ l st', isRecvLabel l = true ∧ step st l = some st' ∧ rstage st'.rpc < rstage st.rpc)) := by
  have hcap : st.cap = 0 := by
    have : ∀ {st}, Reach (init n 0) st → st.cap = 0 := by
      intro st hr
      induction hr with
      | refl => simp [init, chanCap]
      | step _ hs ih => rw [cap_step hs, ih]
    exact this hr
  have hq := qinv_reach ⟨by decide, by decide⟩ hr hcap
  have hnot : ¬(p = true ∧ q = true) := by
    rintro ⟨rfl, rfl⟩
    have := hq (by simp [hn, RPc.parked]) sd (List.mem_of_getElem? hsd)
    simp [hpc, SPc.parked] at this
  refine ⟨⟨by decide, by decide⟩, hnot, ?_⟩
  cases p with
  | false => exact Or.inl (send_poll_enabled hsd hpc)
  | true =>
    cases q with
    | false => exact Or.inr (next_poll_enabled hn)
    | true => exact (hnot ⟨rfl, rfl⟩).elim


/-- non-vacuity: both polling; `Send` parked, `Next` polling; `Next` parked, `Send` polling -/
example : ∃ st sd, Reach (init 1 0) st ∧ st.senders[0]? = some sd ∧ sd.pc = .send ⟨0, 0, 5⟩ false ∧ st.rpc = .next false :=
  ⟨after (init 1 0) [.startSend 0 5 false, .startNext false], _, reach_after (by decide), rfl, rfl, rfl⟩
example : ∃ st sd, Reach (init 1 0) st ∧ st.senders[0]? = some sd ∧ sd.pc = .send ⟨0, 0, 5⟩ true ∧ st.rpc = .next false :=
  ⟨after (init 1 0) [.startSend 0 5 false, .park 0, .startNext false], _, reach_after (by decide), rfl, rfl, rfl⟩
example : ∃ st sd, Reach (init 1 0) st ∧ st.senders[0]? = some sd ∧ sd.pc = .send ⟨0, 0, 5⟩ false ∧ st.rpc = .next true :=
  ⟨after (init 1 0) [.startNext false, .parkRecv, .startSend 0 5 false], _, reach_after (by decide), rfl, rfl, rfl⟩

/-! ### Non-blocking selects meet only parked partners (audit C10 F1)

The second `select` of `TrySend` and the drain `select` of `Next` are both non-blocking: neither ever
waits in a channel queue, so they cannot rendez-vous with each other. -/

/-- Sender 0 between the two selects of `TrySend 5` on an unbuffered pipe when the sender is closed with
an error; `Next` takes the `senderDone` arm and stands at its drain `select`. -/
def raceTryDrain : List Label :=
  [.startNext false, .parkRecv, .startTry 0 5 false, .sender 0 .dflt, .closeSender true, .recv (.recv chSenderDone)]

/-- In that state **both `default`s are enabled and the rendez-vous is not**: `TrySend` returns `false`,
`Next` reports the close error — the outcome real threads show (`Next=err, TrySend=false`). -/
example : ∃ st, Reach (init 1 0) st ∧ st.rpc = .drain ∧ st.senders[0]?.map (·.pc) = some (.try2 ⟨0, 0, 5⟩) ∧
    (step st (.recv .dflt)).isSome = true ∧ (step st (.sender 0 .dflt)).isSome = true ∧ step st (.handoff 0) = none :=
  ⟨after (init 1 0) raceTryDrain, reach_after (by decide), by decide, by decide, by decide, by decide, by decide⟩

/-- … and the run to the end, with the results of the two calls: `Next = err`, `TrySend = false`. -/
example : runCompletions (init 1 0) (raceTryDrain ++ [.recv .dflt, .sender 0 .dflt]) = [(.recv, .err), (.sender 0, .fls)] ∧
    (run (init 1 0) (raceTryDrain ++ [.recv .dflt, .sender 0 .dflt])).isSome = true := by decide

/-- `TrySend` on an unbuffered pipe with a *parked* `Next`: at the second `select` the rendez-vous is the
only own step (`default` is not enabled), `TrySend` returns `true` and `Next` the value. -/
example : ∃ st, Reach (init 1 0) st ∧ st.rpc = .next true ∧ st.senders[0]?.map (·.pc) = some (.try2 ⟨0, 0, 5⟩) ∧
    step st (.sender 0 .dflt) = none ∧ step st (.sender 0 (.send chData)) = none ∧
    completions st (.handoff 0) = [(.sender 0, .tru), (.recv, .val 5)] ∧ (step st (.handoff 0)).isSome = true :=
  ⟨after (init 1 0) [.startNext false, .parkRecv, .startTry 0 5 false, .sender 0 .dflt], reach_after (by decide),
   by decide, by decide, by decide, by decide, by decide, by decide⟩

/-- … while a `Next` that has been started but has not parked yet is not in the wait queue: `TrySend`
takes its `default` (returns `false`), no rendez-vous. -/
example : ∃ st, Reach (init 1 0) st ∧ st.rpc = .next false ∧ st.senders[0]?.map (·.pc) = some (.try2 ⟨0, 0, 5⟩) ∧
    (step st (.sender 0 .dflt)).isSome = true ∧ step st (.handoff 0) = none :=
  ⟨after (init 1 0) [.startNext false, .startTry 0 5 false, .sender 0 .dflt], reach_after (by decide),
   by decide, by decide, by decide, by decide⟩

/-- The drain receives from an unbuffered pipe only from a *parked* `Send`: with a `Send` that is still
polling the drain's `default` is enabled and the rendez-vous is not; once the `Send` is parked it is the
other way round. (A `Send` cannot park after the `Close`, so the parked case needs the `Send` to have
parked before it.) -/
example : ∃ st, Reach (init 1 0) st ∧ st.rpc = .drain ∧ (step st (.recv .dflt)).isSome = true ∧ step st (.handoff 0) = none :=
  ⟨after (init 1 0) [.startSend 0 5 false, .closeSender false, .startNext false, .recv (.recv chSenderDone)],
   reach_after (by decide), by decide, by decide, by decide⟩
example : ∃ st, Reach (init 1 0) st ∧ st.rpc = .drain ∧ step st (.recv .dflt) = none ∧ (step st (.handoff 0)).isSome = true :=
  ⟨after (init 1 0) [.startSend 0 5 false, .park 0, .closeSender false, .startNext false, .recv (.recv chSenderDone)],
   reach_after (by decide), by decide, by decide, by decide⟩

/-! ## Pipe clauses of C08 -/

/-- **A Next/Send/TrySend that fails on an expired context costs nothing.** The step in which the
call returns the context's error changes nothing but that call's program counter: channel
contents, ghost logs, flags and every other goroutine are as they were, so the next call continues
exactly where this one left off. -/
theorem pipe_ctx_costs_nothing {st st' : State} :
    (step st (.recv (.recv chCtx)) = some st' → st' = { st with rpc := .idle }) ∧
    (∀ i, step st (.sender i (.recv chCtx)) = some st' →
      ∃ sd, st.senders[i]? = some sd ∧ st' = st.setSender i { sd with pc := sd.pc.after (.recv chCtx) }) := by
  constructor
  · intro hs
    obtain ⟨_, hcase⟩ := step_recv hs
    rcases hcase with ⟨m, rest, h, _⟩ | ⟨h, _⟩ | ⟨h, _⟩ | ⟨ch, _, _, _, rfl⟩ | ⟨h, _⟩
    · simp [chCtx, chData] at h
    · simp [chCtx, chSenderDone] at h
    · simp [chCtx, chSenderDone] at h
    · rfl
    · cases h
  · intro i hs
    obtain ⟨sd, m, hsd, _, _, hcase⟩ := step_sender hs
    rcases hcase with ⟨rfl, _⟩ | ⟨ch, h, _⟩
    · exact ⟨sd, hsd, rfl⟩
    · cases h


/-- non-vacuity: a `Next` and a `Send` whose contexts expire while they wait on a full, unread pipe -/
example : ∃ st st', Reach (init 1 1) st ∧ step st (.recv (.recv chCtx)) = some st' ∧ st'.buf.length = 1 :=
  ⟨after (init 1 1) [.startSend 0 5 false, .sender 0 (.send chData), .startNext true],
   after (init 1 1) [.startSend 0 5 false, .sender 0 (.send chData), .startNext true, .recv (.recv chCtx)],
   reach_after (by decide), by decide, by decide⟩
example : ∃ st st', Reach (init 1 1) st ∧ step st (.sender 0 (.recv chCtx)) = some st' :=
  ⟨after (init 1 1) [.startSend 0 5 false, .sender 0 (.send chData), .startSend 0 6 false, .cancelSender 0],
   after (init 1 1) [.startSend 0 5 false, .sender 0 (.send chData), .startSend 0 6 false, .cancelSender 0, .sender 0 (.recv chCtx)],
   reach_after (by decide), by decide⟩

/-- **The close error surfaces after the data.** When `Next` reports, the sender has been closed,
what is reported is the error it was closed with (the normal end only if that was `nil`) — read off
the regenerated statements that follow the drain — and everything sent ahead of the `Close` has
been delivered. First conjunct: `Close(err)` is "store `err`, close `senderDone`" and `Next` has no
statement besides its `select`, the drain and that report — no test of the error's *kind* in between
(regenerated control skeletons). -/
theorem pipe_close_error_after_data {n b : Nat} {st st' : State} {l : Label} (hr : Reach (init n b) st)
    (hs : step st l = some st') (hrep : reportsEnd st l = true) :
    (Gen.Skeleton.senderClose = Model.Skeleton.senderClose ∧ Gen.Skeleton.pipeNext = Model.Skeleton.pipeNext) ∧
    st.senderDone = true ∧ endResult st = (if st.senderErr then Res.err else Res.fin) ∧
    ∀ m ∈ st'.ackedBC, m ∈ st'.delivered := by
  obtain ⟨_, hrpc, _, _, _⟩ := report_only_when_drained ⟨by decide, by decide, by decide⟩ hs hrep
  refine ⟨⟨by decide, by decide⟩, (inv_reach (by decide) hr).drain hrpc, ?_, (pipe_no_loss_at_report hr hs hrep).2.2⟩
  have : (nextEndStmts == ["err := *s.senderErr", "if err != nil {", "return zero, err", "}", "return zero, End"]) = true := by decide
  simp [endResult, this]


example : ∃ st st', Reach (init 2 2) st ∧ step st (.recv .dflt) = some st' ∧ reportsEnd st (.recv .dflt) = true ∧
    st.senderErr = true ∧ st'.delivered.map (·.val) = [7, 8] :=
  ⟨after (init 2 2) (demo.take 15), after (init 2 2) demo, reach_after (by decide), by decide, by decide, by decide, by decide⟩

end Juniper.Props.C10
