import Juniper.Model.Pipe
import Juniper.Model.Skeleton
import Juniper.Generated.Skeleton
import Juniper.Proofs.PipeFifo
import Juniper.Proofs.PipeNoLoss
import Juniper.Proofs.PipeLive
import Juniper.Proofs.PipeQueue
import Juniper.Proofs.PipeResult
import Juniper.Proofs.PipeTrySticky
/-!
# C10 — stream.Pipe: FIFO per sender, nothing sent-before-close lost, no stuck call
(and the Pipe clauses of C08: a call that fails on an expired context costs nothing, the close
error surfaces after the data)

All theorems are about `Juniper.Model.Pipe`, the labelled transition system whose `select` arms,
arm bodies and drain step are the definitions regenerated from `stream/stream.go`
(`Juniper.Gen.Pipe`). `Reach (init n b) st`: `st` is reachable in a pipe with `n` sender goroutines and
`bufferSize = b` under *some* schedule and environment — the theorems quantify over all of them.
Facts about the regenerated tables are discharged by `decide` inside the proofs: when the source
changes so that one of them no longer holds, exactly the theorems that rely on it stop compiling.

Vocabulary (defined in `Model/Pipe.lean` and `Proofs/Pipe*.lean`): `ofSender i l` = the messages of
sender `i` in `l`, in order; `sd.sent` = the messages sender `i`'s calls were started with (ghost);
`st.ackedBC` = messages whose send on the channel succeeded before the sender's `Close` (ghost);
`st.delivered` = what `Next` returned so far (ghost); `reportsEnd st l` = step `l` makes `Next` return
the end / the close error; `Quiet` = no `Send`/`TrySend` in flight; `stage`/`rstage` = upper bound on
the number of own steps a call still has in front of it (poll-or-park, arm); `ownLabel i l` = `l` is a
step of sender goroutine `i` (an arm of its `select`, a rendez-vous, its parking); `isRecvLabel l`
likewise for the receiver. A call at a blocking `select` is *polling* (`send m false`, `next false`) or
*parked* (`… true`); `canHandoff st sd` = a rendez-vous between `sd` and the receiver on the unbuffered
channel is possible, which needs exactly one of the two to be parked (`Model/Pipe.lean`, "Polling and
parking").

**What the liveness theorems (`…_never_stuck`, `…_never_blocks`, `unbuffered_send_meets_next`) say:** an
*enabled step* of the call that returns / brings it strictly closer to its return (measure `stage` /
`rstage`), and that the condition under which it is enabled is *stable* under every label of the LTS.
"The call returns" follows under the assumption — not proved, it is a property of the Go scheduler —
that an internal step of a goroutine that stays enabled is eventually taken (weak fairness per call).
-/
namespace Juniper.Props.C10
open Juniper.Facts Juniper.Gen.Pipe Juniper.Model.Pipe Juniper.Proofs.Pipe

/-- A two-sender pipe with `bufferSize = 2`: sender 0 sends 7, sender 1 `TrySend`s 8 (both buffered),
sender 0 starts sending 9 and parks because the buffer is full; the sender is closed
with an error, the parked `Send` returns it; the receiver's first `Next` takes the `senderDone` arm,
drains 7; the second `Next` takes 8 from its main select; the third goes through the drain's
`default` and reports. Used by the non-vacuity examples below. -/
def demo : List Label :=
  [.startSend 0 7 false, .sender 0 (.send chData), .startTry 1 8 false, .sender 1 .dflt, .sender 1 (.send chData),
   .startSend 0 9 false, .closeSender true, .sender 0 (.recv chSenderDone),
   .startNext false, .recv (.recv chSenderDone), .recv (.recv chData),
   .startNext false, .recv (.recv chData),
   .startNext false, .recv (.recv chSenderDone), .recv .dflt]

/-- The regenerated `select` tables of `Send`, `TrySend` and `pipeStream.Next` contain exactly the arms
the model interprets (no arm it would ignore), and `Pipe` wires both halves to the same channels,
`Close` stores the error before closing `senderDone`. -/
theorem tables_exact : tablesKnown = true ∧ wiringOK = true := by decide

/-- Tie 1 for the control flow *between* the tables: the LTS hard-wires that `Send` is one `select`,
`TrySend` two non-blocking `select`s and nothing else, `Next` one `select` whose `senderDone` arm is the
drain followed by the report, `Close` = store the error, then `close(senderDone)`. The statement-kind
skeletons regenerated from `stream/stream.go` (`Juniper.Gen.Skeleton`: one token per statement, in
source order, nested blocks flattened, identifiers and operands normalised away, `select` arms in
canonical order) are exactly the ones written down in `Model/Skeleton.lean`: no statement was added
(a fast path, a bare channel operation, an early `return`), removed or moved. -/
theorem skeleton_ok :
    Gen.Skeleton.pipe = Model.Skeleton.pipe ∧ Gen.Skeleton.send = Model.Skeleton.send ∧
    Gen.Skeleton.trySend = Model.Skeleton.trySend ∧ Gen.Skeleton.senderClose = Model.Skeleton.senderClose ∧
    Gen.Skeleton.pipeNext = Model.Skeleton.pipeNext ∧ Gen.Skeleton.pipeClose = Model.Skeleton.pipeClose := by
  decide

/-- The buffer never exceeds the capacity `make(chan T, bufferSize)` was given, which is
`bufferSize` itself. -/
theorem pipe_capacity {n b : Nat} {st : State} (hr : Reach (init n b) st) :
    st.cap = b ∧ st.buf.length ≤ b := by
  have hcap : ∀ {st}, Reach (init n b) st → st.cap = b := by
    intro st hr
    induction hr with
    | refl => simp [init, chanCap]
    | step _ hs ih => rw [cap_step hs, ih]
  have := (inv_reach (by decide) hr).cap
  rw [hcap hr] at this
  exact ⟨hcap hr, this⟩


example : ∃ st, Reach (init 2 2) st ∧ st.buf.length = 2 :=
  ⟨after (init 2 2) (demo.take 6), reach_after (by decide), by decide⟩

/-- **Only sent values, each at most once, each sender's values in the order sent.** In every
reachable state, for what has been delivered and what is still buffered: every message is one that
a `Send`/`TrySend` of its sender was called with; no message occurs twice; and per sender the
messages form a sublist (order-preserving, gaps allowed: failed calls) of that sender's calls. -/
theorem pipe_only_sent_at_most_once_in_order {n b : Nat} {st : State} (hr : Reach (init n b) st) :
    (∀ m ∈ st.delivered ++ st.buf, ∃ sd, st.senders[m.sender]? = some sd ∧ m ∈ sd.sent) ∧
    (st.delivered ++ st.buf).Nodup ∧
    (∀ i sd, st.senders[i]? = some sd → (ofSender i (st.delivered ++ st.buf)).Sublist sd.sent) :=
  fifo_of_inv (inv_reach (by decide) hr)


/-- non-vacuity: two senders, both delivered, one failed call (9) in between -/
example : ∃ st, Reach (init 2 2) st ∧ st.delivered.map (·.val) = [7, 8] ∧
    (st.senders.map fun sd => sd.sent.map (·.val)) = [[7, 9], [8]] :=
  ⟨after (init 2 2) demo, reach_after (by decide), by decide, by decide⟩

/-- **Nothing sent before close is lost.** Once a `Next` has reported the end / the close error, the
sender had been closed and every value whose send succeeded before that `Close` has been
delivered. (False of the tree before the D11 fix: `nextDrains = false` there.) -/
theorem pipe_no_loss_before_close {n b : Nat} {st : State} (hr : Reach (init n b) st)
    (hend : st.endReported = true) :
    st.senderDone = true ∧ ∀ m ∈ st.ackedBC, m ∈ st.delivered :=
  noLoss_reach (by decide) ⟨by decide, by decide, by decide⟩ hr hend


example : ∃ st, Reach (init 2 2) st ∧ st.endReported = true ∧ st.ackedBC.map (·.val) = [7, 8] :=
  ⟨after (init 2 2) demo, reach_after (by decide), by decide, by decide⟩

/-- The same at the reporting step itself: `Next` reports only out of the drain's `default`, with an
empty buffer, and at that moment everything acknowledged before the `Close` has been delivered
(so those values were delivered *before* the receiver is told about the end). -/
theorem pipe_no_loss_at_report {n b : Nat} {st st' : State} {l : Label} (hr : Reach (init n b) st)
    (hs : step st l = some st') (hrep : reportsEnd st l = true) :
    st.buf = [] ∧ st'.delivered = st.delivered ∧ ∀ m ∈ st'.ackedBC, m ∈ st'.delivered := by
  obtain ⟨_, _, hbuf, _, hst'⟩ := report_only_when_drained ⟨by decide, by decide, by decide⟩ hs hrep
  refine ⟨hbuf, by rw [hst']; rfl, ?_⟩
  have := pipe_no_loss_before_close (Reach.step hr hs) (by rw [hst']; rfl)
  exact this.2


example : ∃ st st', Reach (init 2 2) st ∧ step st (.recv .dflt) = some st' ∧ reportsEnd st (.recv .dflt) = true ∧
    st'.ackedBC.length = 2 :=
  ⟨after (init 2 2) (demo.take 15), after (init 2 2) demo, reach_after (by decide), by decide, by decide, by decide⟩

/-- **Once no Send is in flight, the end, once reported, keeps being reported** — proved in this shape:
if a step reports (`reportsEnd st l`) in a reachable state in which no `Send`/`TrySend` is in flight
(`Quiet st`), then after every continuation `ls` **in which no `Send`/`TrySend` is started**
(`startsSend x = false` for every label of `ls`; all other labels — `Next` calls, context expiries, the
receiver's `Close` — are allowed), in the state reached: no value-delivering label (data arm of `Next` or
of its drain, rendez-vous) is enabled, the sender is still closed and the stored error is the one that
was reported. The hypothesis is stronger than the text's "no Send is in flight": it also excludes calls
started *after* the report. It is needed: a `Send` started after the sender's `Close` on a buffered pipe
has its data arm and its `senderDone` arm both ready and may still put a value into the channel, which a
later `Next` delivers (after that the pipe is `Quiet` again with `endReported` and a longer `delivered`). The
property text leaves that period open. What every later `Next` *returns* under the same hypotheses is
`pipe_end_sticky_results` (the same report, or its own context's error); that such a `Next` returns at all
is `next_never_stuck` (`senderDone = true` is a stable return condition) plus scheduler fairness. -/
theorem pipe_end_sticky_when_quiet {n b : Nat} {st s1 s2 : State} {l : Label} {ls : List Label}
    (hr : Reach (init n b) st) (hq : Quiet st) (hs : step st l = some s1) (hrep : reportsEnd st l = true)
    (hls : ∀ x ∈ ls, startsSend x = false) (hrun : run s1 ls = some s2) :
    (∀ l', deliversValue l' = true → step s2 l' = none) ∧
    s2.senderDone = true ∧ s2.senderErr = s1.senderErr := by
  have h1 := settled_of_quiet_report ⟨by decide, by decide, by decide⟩ (inv_reach (by decide) hr) hq hs hrep
  obtain ⟨h2, herr⟩ := settled_run h1 hls hrun
  exact ⟨fun l' hl' => settled_no_delivery h2 hl', h2.1, herr⟩


/-- non-vacuity: after the report of `demo`, two more `Next` calls (one with an expired context)
and the receiver's `Close`: all hypotheses hold -/
example : ∃ st s1 s2, Reach (init 2 2) st ∧ Quiet st ∧ step st (.recv .dflt) = some s1 ∧
    reportsEnd st (.recv .dflt) = true ∧
    run s1 [.startNext true, .recv (.recv chCtx), .startNext false, .recv (.recv chSenderDone), .recv .dflt, .closeRecv] = some s2 :=
  ⟨after (init 2 2) (demo.take 15), after (init 2 2) demo,
   after (init 2 2) (demo ++ [.startNext true, .recv (.recv chCtx), .startNext false, .recv (.recv chSenderDone), .recv .dflt, .closeRecv]),
   reach_after (by decide), by decide, by decide, by decide, by decide⟩

/-- **Send returns once the receiver closes, the sender closes or its context expires** — proved as:
in any state (reachable or not) in which a `Send` is pending (polling or parked, `pc = send m p`) and
one of the three holds,
1. `Send` *is* one `select` and nothing else (regenerated control skeleton);
2. an arm of that `select` is enabled whose step makes the call return (`pc = idle` afterwards);
3. stability: whatever label of the LTS is taken next (any goroutine, any environment action), the call
   has returned or is still pending with one of the three still true;
4. a `Send` that has not parked yet (`p = false`) has an enabled own step in *every* state (an arm, a
   rendez-vous, or it parks) — polling never waits;
5. every own step of the call strictly decreases `stage ≤ 2`.
Assumption for "returns": weak fairness of the scheduler towards this call's enabled steps. -/
theorem send_never_stuck {st : State} {i : Nat} {sd : Sender} {m : Msg} {p : Bool}
    (hsd : st.senders[i]? = some sd) (hpc : sd.pc = .send m p)
    (hc : st.streamDone = true ∨ st.senderDone = true ∨ sd.ctx = true) :
    Gen.Skeleton.send = Model.Skeleton.send ∧
    (∃ a st' sd', step st (.sender i a) = some st' ∧ st'.senders[i]? = some sd' ∧ sd'.pc = .idle) ∧
    (∀ l st', step st l = some st' → ∃ sd', st'.senders[i]? = some sd' ∧
      (sd'.pc = .idle ∨ ((∃ p', sd'.pc = .send m p') ∧
        (st'.streamDone = true ∨ st'.senderDone = true ∨ sd'.ctx = true)))) ∧
    (p = false → ∃ l st', ownLabel i l ∧ step st l = some st') ∧
    (∀ l st', ownLabel i l → step st l = some st' →
      ∃ sd', st'.senders[i]? = some sd' ∧ stage sd'.pc < stage sd.pc) ∧ stage sd.pc ≤ 2 := by
  refine ⟨by decide, send_enabled ⟨by decide, by decide, by decide⟩ hsd hpc hc,
    fun l st' hs => send_cond_stable hsd hpc hc hs, ?_, ?_, ?_⟩
  · intro hp; subst hp; exact send_poll_enabled hsd hpc
  · intro l st' hl hs
    obtain ⟨sd', h1, h2, _⟩ := sender_step_progress hsd hl hs
    exact ⟨sd', h1, h2⟩
  · rw [hpc]; cases p <;> simp [stage]


/-- non-vacuity: sender 0 parked in `Send 9` on a full buffer when the sender is closed -/
example : ∃ st sd m, Reach (init 2 2) st ∧ st.senders[0]? = some sd ∧ sd.pc = .send m false ∧ st.senderDone = true ∧ m.val = 9 :=
  ⟨after (init 2 2) (demo.take 7), ⟨.send ⟨0, 1, 9⟩ false, false, [⟨0, 0, 7⟩, ⟨0, 1, 9⟩]⟩, ⟨0, 1, 9⟩,
   reach_after (by decide), by decide, by decide, by decide, by decide⟩
/-- … and the same `Send` parked (it polled the full buffer before the `Close`) -/
example : ∃ st sd m, Reach (init 2 2) st ∧ st.senders[0]? = some sd ∧ sd.pc = .send m true ∧ st.senderDone = true :=
  ⟨after (init 2 2) (demo.take 6 ++ [.park 0, .closeSender true]), ⟨.send ⟨0, 1, 9⟩ true, false, [⟨0, 0, 7⟩, ⟨0, 1, 9⟩]⟩, ⟨0, 1, 9⟩,
   reach_after (by decide), by decide, by decide, by decide⟩

/-- **TrySend never blocks** — proved as: its body consists of exactly two `select` statements — no
statement before, between or after them that could block or return early (regenerated control
skeleton) —, both with a `default` arm (regenerated tables); in *every* state (reachable or not,
whatever the other goroutines do) a pending `TrySend` has an enabled step of its own (an arm, `default`,
or a rendez-vous with a *parked* `Next`); each own step strictly decreases `stage ≤ 2`, i.e. takes it to
the second `select` or returns. So it returns after at most two own steps and never waits for another
goroutine. (That the scheduler runs the goroutine is the only assumption.) -/
theorem trySend_never_blocks {st : State} {i : Nat} {sd : Sender} {m : Msg}
    (hsd : st.senders[i]? = some sd) (hpc : sd.pc = .try1 m ∨ sd.pc = .try2 m) :
    Gen.Skeleton.trySend = Model.Skeleton.trySend ∧
    (trySendArms1.contains .dflt = true ∧ trySendArms2.contains .dflt = true) ∧
    (∃ l st', ownLabel i l ∧ step st l = some st') ∧
    (∀ l st', ownLabel i l → step st l = some st' →
      ∃ sd', st'.senders[i]? = some sd' ∧ stage sd'.pc < stage sd.pc) ∧
    stage sd.pc ≤ 2 :=
  ⟨by decide, ⟨by decide, by decide⟩, trySend_enabled ⟨by decide, by decide, by decide⟩ hsd hpc,
    fun _ _ hl hs => by
      obtain ⟨sd', h1, h2, _⟩ := sender_step_progress hsd hl hs
      exact ⟨sd', h1, h2⟩,
    by rcases hpc with h | h <;> simp [h, stage]⟩


/-- non-vacuity: sender 1 at the first and at the second `select` of `TrySend 8` -/
example : ∃ st sd m, Reach (init 2 2) st ∧ st.senders[1]? = some sd ∧ sd.pc = .try1 m :=
  ⟨after (init 2 2) (demo.take 3), ⟨.try1 ⟨1, 0, 8⟩, false, [⟨1, 0, 8⟩]⟩, ⟨1, 0, 8⟩, reach_after (by decide), by decide, by decide⟩
example : ∃ st sd m, Reach (init 2 2) st ∧ st.senders[1]? = some sd ∧ sd.pc = .try2 m :=
  ⟨after (init 2 2) (demo.take 4), ⟨.try2 ⟨1, 0, 8⟩, false, [⟨1, 0, 8⟩]⟩, ⟨1, 0, 8⟩, reach_after (by decide), by decide, by decide⟩

/-- **Next returns once a value is available, the sender closes or its context expires** — proved as,
in every state (reachable or not):
1. `Next` is one `select` (with the drain `select` and the report inside its `senderDone` arm) and nothing
   else (regenerated control skeleton);
2. if `Next` is at its main `select` (polling or parked) and a value is buffered, a rendez-vous is
   possible (`canHandoff`: unbuffered pipe, a sender offers, exactly one side parked), the sender is
   closed or the context expired, then a step of the receiver is enabled that strictly decreases `rstage`;
3. a `Next` that has not parked yet has an enabled own step in every state (an arm, a rendez-vous with
   a parked `Send`, or it parks), which decreases `rstage` — polling never waits;
4. in the drain (if the source has one) it never waits: a receiver step is enabled and returns;
5. stability: the part of the condition that does not depend on other calls — a buffered value, the
   sender's `Close`, the expired context — persists under every label while `Next` is at its main `select`.
(That a pending `Send` and a pending `Next` on an unbuffered pipe do reach a state with `canHandoff` is
`unbuffered_send_meets_next`.) Assumption for "returns": weak fairness of the scheduler towards the
receiver's enabled steps. -/
theorem next_never_stuck {st : State} :
    Gen.Skeleton.pipeNext = Model.Skeleton.pipeNext ∧
    (∀ p, st.rpc = .next p →
      (st.buf ≠ [] ∨ (∃ sd ∈ st.senders, canHandoff st sd = true) ∨ st.senderDone = true ∨ st.rctx = true) →
      ∃ l st', isRecvLabel l = true ∧ step st l = some st' ∧ rstage st'.rpc < rstage st.rpc) ∧
    (st.rpc = .next false →
      ∃ l st', isRecvLabel l = true ∧ step st l = some st' ∧ rstage st'.rpc < rstage st.rpc) ∧
    (nextDrains = true → st.rpc = .drain →
      ∃ l st', isRecvLabel l = true ∧ step st l = some st' ∧ st'.rpc = .idle) ∧
    (st.rpc.isNext = true → (st.buf ≠ [] ∨ st.senderDone = true ∨ st.rctx = true) →
      ∀ l st', step st l = some st' →
        st'.rpc.isNext = false ∨ (st'.buf ≠ [] ∨ st'.senderDone = true ∨ st'.rctx = true)) := by
  have hF : NextFacts := ⟨by decide, by decide, by decide, fun _ => by decide, fun _ => by decide, by decide⟩
  exact ⟨by decide, fun p hpc hc => next_enabled hF hpc hc, fun hpc => next_poll_enabled hpc,
    fun hd hpc => drain_enabled hF hd hpc, fun hpc hc l st' hs => next_cond_stable hpc hc hs⟩


/-- non-vacuity: `Next` at its select with two buffered values and a closed sender; `Next` in the drain;
`Next` polling while a `Send` is parked on an unbuffered pipe (rendez-vous possible) -/
example : ∃ st, Reach (init 2 2) st ∧ st.rpc = .next false ∧ st.buf ≠ [] ∧ st.senderDone = true :=
  ⟨after (init 2 2) (demo.take 9), reach_after (by decide), by decide, by decide, by decide⟩
example : ∃ st, Reach (init 2 2) st ∧ st.rpc = .drain :=
  ⟨after (init 2 2) (demo.take 10), reach_after (by decide), by decide⟩
example : ∃ st sd, Reach (init 1 0) st ∧ st.rpc = .next false ∧ sd ∈ st.senders ∧ canHandoff st sd = true :=
  ⟨after (init 1 0) [.startSend 0 5 false, .park 0, .startNext false], ⟨.send ⟨0, 0, 5⟩ true, false, [⟨0, 0, 5⟩]⟩,
   reach_after (by decide), by decide, by decide, by decide⟩

/-- **No lost rendez-vous on an unbuffered pipe.** In every reachable state of a pipe with `bufferSize = 0`
in which a `Send` and a `Next` are both pending (each polling or parked), an internal step of one of the
two calls is enabled: whoever is still polling can fire an arm, complete the rendez-vous with the parked
partner, or park; and the two are never both parked (wait-queue invariant `QInv`: the poll of the
second to arrive finds the first in the queue — `park` is enabled only if no partner is parked). Each
such step decreases `stage`/`rstage`, so after at most two of them the rendez-vous `handoff i` itself, or a
returning arm, is enabled. Assumption for "they do meet": weak fairness of the scheduler. -/
theorem unbuffered_send_meets_next {n : Nat} {st : State} {i : Nat} {sd : Sender} {m : Msg} {p q : Bool}
    (hr : Reach (init n 0) st) (hsd : st.senders[i]? = some sd) (hpc : sd.pc = .send m p)
    (hn : st.rpc = .next q) :
    (sendArms.contains (.send chData) = true ∧ nextArms.contains (.recv chData) = true) ∧
    ¬(p = true ∧ q = true) ∧
    ((∃ l st', ownLabel i l ∧ step st l = some st') ∨
     (∃ l st', isRecvLabel l = true ∧ step st l = some st' ∧ rstage st'.rpc < rstage st.rpc)) := by
  have hcap : st.cap = 0 := by
    have : ∀ {st}, Reach (init n 0) st → st.cap = 0 := by
      intro st hr
      induction hr with
      | refl => simp [init, chanCap]
      | step _ hs ih => rw [cap_step hs, ih]
    exact this hr
  have hq := qinv_reach ⟨by decide, by decide⟩ hr hcap
  have hnot : ¬(p = true ∧ q = true) := by
    rintro ⟨rfl, rfl⟩
    have := hq (by simp [hn, RPc.parked]) sd (List.mem_of_getElem? hsd)
    simp [hpc, SPc.parked] at this
  refine ⟨⟨by decide, by decide⟩, hnot, ?_⟩
  cases p with
  | false => exact Or.inl (send_poll_enabled hsd hpc)
  | true =>
    cases q with
    | false => exact Or.inr (next_poll_enabled hn)
    | true => exact (hnot ⟨rfl, rfl⟩).elim


/-- non-vacuity: both polling; `Send` parked, `Next` polling; `Next` parked, `Send` polling -/
example : ∃ st sd, Reach (init 1 0) st ∧ st.senders[0]? = some sd ∧ sd.pc = .send ⟨0, 0, 5⟩ false ∧ st.rpc = .next false :=
  ⟨after (init 1 0) [.startSend 0 5 false, .startNext false], _, reach_after (by decide), rfl, rfl, rfl⟩
example : ∃ st sd, Reach (init 1 0) st ∧ st.senders[0]? = some sd ∧ sd.pc = .send ⟨0, 0, 5⟩ true ∧ st.rpc = .next false :=
  ⟨after (init 1 0) [.startSend 0 5 false, .park 0, .startNext false], _, reach_after (by decide), rfl, rfl, rfl⟩
example : ∃ st sd, Reach (init 1 0) st ∧ st.senders[0]? = some sd ∧ sd.pc = .send ⟨0, 0, 5⟩ false ∧ st.rpc = .next true :=
  ⟨after (init 1 0) [.startNext false, .parkRecv, .startSend 0 5 false], _, reach_after (by decide), rfl, rfl, rfl⟩

/-! ### Non-blocking selects meet only parked partners (audit C10 F1)

The second `select` of `TrySend` and the drain `select` of `Next` are both non-blocking: neither ever
waits in a channel queue, so they cannot rendez-vous with each other. -/

/-- Sender 0 between the two selects of `TrySend 5` on an unbuffered pipe when the sender is closed with
an error; `Next` takes the `senderDone` arm and stands at its drain `select`. -/
def raceTryDrain : List Label :=
  [.startNext false, .parkRecv, .startTry 0 5 false, .sender 0 .dflt, .closeSender true, .recv (.recv chSenderDone)]

/-- In that state **both `default`s are enabled and the rendez-vous is not**: `TrySend` returns `false`,
`Next` reports the close error — the outcome real threads show (`Next=err, TrySend=false`). -/
example : ∃ st, Reach (init 1 0) st ∧ st.rpc = .drain ∧ st.senders[0]?.map (·.pc) = some (.try2 ⟨0, 0, 5⟩) ∧
    (step st (.recv .dflt)).isSome = true ∧ (step st (.sender 0 .dflt)).isSome = true ∧ step st (.handoff 0) = none :=
  ⟨after (init 1 0) raceTryDrain, reach_after (by decide), by decide, by decide, by decide, by decide, by decide⟩

/-- … and the run to the end, with the results of the two calls: `Next = err`, `TrySend = false`. -/
example : runCompletions (init 1 0) (raceTryDrain ++ [.recv .dflt, .sender 0 .dflt]) = [(.recv, .err), (.sender 0, .fls)] ∧
    (run (init 1 0) (raceTryDrain ++ [.recv .dflt, .sender 0 .dflt])).isSome = true := by decide

/-- `TrySend` on an unbuffered pipe with a *parked* `Next`: at the second `select` the rendez-vous is the
only own step (`default` is not enabled), `TrySend` returns `true` and `Next` the value. -/
example : ∃ st, Reach (init 1 0) st ∧ st.rpc = .next true ∧ st.senders[0]?.map (·.pc) = some (.try2 ⟨0, 0, 5⟩) ∧
    step st (.sender 0 .dflt) = none ∧ step st (.sender 0 (.send chData)) = none ∧
    completions st (.handoff 0) = [(.sender 0, .tru), (.recv, .val 5)] ∧ (step st (.handoff 0)).isSome = true :=
  ⟨after (init 1 0) [.startNext false, .parkRecv, .startTry 0 5 false, .sender 0 .dflt], reach_after (by decide),
   by decide, by decide, by decide, by decide, by decide, by decide⟩

/-- … while a `Next` that has been started but has not parked yet is not in the wait queue: `TrySend`
takes its `default` (returns `false`), no rendez-vous. -/
example : ∃ st, Reach (init 1 0) st ∧ st.rpc = .next false ∧ st.senders[0]?.map (·.pc) = some (.try2 ⟨0, 0, 5⟩) ∧
    (step st (.sender 0 .dflt)).isSome = true ∧ step st (.handoff 0) = none :=
  ⟨after (init 1 0) [.startNext false, .startTry 0 5 false, .sender 0 .dflt], reach_after (by decide),
   by decide, by decide, by decide, by decide⟩

/-- The drain receives from an unbuffered pipe only from a *parked* `Send`: with a `Send` that is still
polling the drain's `default` is enabled and the rendez-vous is not; once the `Send` is parked it is the
other way round. (A `Send` cannot park after the `Close`, so the parked case needs the `Send` to have
parked before it.) -/
example : ∃ st, Reach (init 1 0) st ∧ st.rpc = .drain ∧ (step st (.recv .dflt)).isSome = true ∧ step st (.handoff 0) = none :=
  ⟨after (init 1 0) [.startSend 0 5 false, .closeSender false, .startNext false, .recv (.recv chSenderDone)],
   reach_after (by decide), by decide, by decide, by decide⟩
example : ∃ st, Reach (init 1 0) st ∧ st.rpc = .drain ∧ step st (.recv .dflt) = none ∧ (step st (.handoff 0)).isSome = true :=
  ⟨after (init 1 0) [.startSend 0 5 false, .park 0, .closeSender false, .startNext false, .recv (.recv chSenderDone)],
   reach_after (by decide), by decide, by decide, by decide⟩

/-! ## What the calls return versus what happens to the logs (audit C10 F2)

The clauses of the property speak about *results* ("every value whose Send returned nil before Close"),
the invariants above about ghost logs (`ackedBC` = committed before the `Close`). `completions st l` is the
list of calls that return in step `l`, with the result read off the **regenerated arm bodies**
(`Gen.Pipe.sendBodies`, `trySendBodies1/2`, `nextBodies`, `nextDrainBodies`, `nextEndStmts`); `Res` =
`nil ctx closed err tru fls fin (val v) unknown`; `endRes st` = what a report returns: `err` if the sender was
closed with an error (`st.senderErr`), `fin` (`End`) otherwise. The theorems below tie result and log change together,
arm by arm and then along runs. The facts about the bodies are discharged by `decide` *inside* these
theorems: a changed `return` statement (e.g. `Send`'s `ctx` arm returning `nil`) makes them fail to
compile. -/

/-- **`Send` returned nil ⇒ its value was committed (and nothing else returns nil before `Close`).** For a
pending `Send` of message `m` (polling or parked) and any step `sender i a` of its `select`: the call
returns in this step, with exactly one result `r`, and
* the data arm returns `nil`, appends `m` to the channel buffer and to `acked`, and to `ackedBC` iff the
  sender is not yet closed;
* every other arm leaves buffer and all logs untouched and returns the context's error (`ctx` arm),
  `ErrClosedPipe` (`streamDone` arm), or what the sender was closed with (`senderDone` arm: `err`, or
  `nil` after `Close(nil)` — the only `nil` without a commit, and it needs `senderDone`);
hence (last conjunct) `r = nil` while the sender is not closed implies `ackedBC` grew by `m`. -/
theorem send_returns_nil_iff_committed {st st' : State} {i : Nat} {sd : Sender} {m : Msg} {p : Bool} {a : Arm}
    (hsd : st.senders[i]? = some sd) (hpc : sd.pc = .send m p) (hs : step st (.sender i a) = some st') :
    ∃ r, completions st (.sender i a) = [(.sender i, r)] ∧
      ((a = .send chData ∧ r = .nil ∧ st'.buf = st.buf ++ [m] ∧ st'.acked = st.acked ++ [m] ∧
          st'.ackedBC = (if st.senderDone then st.ackedBC else st.ackedBC ++ [m])) ∨
       (a ≠ .send chData ∧ st'.buf = st.buf ∧ st'.acked = st.acked ∧ st'.ackedBC = st.ackedBC ∧
          st'.delivered = st.delivered ∧
          ((a = .recv chCtx ∧ sd.ctx = true ∧ r = .ctx) ∨ (a = .recv chStreamDone ∧ st.streamDone = true ∧ r = .closed) ∨
           (a = .recv chSenderDone ∧ st.senderDone = true ∧ r = (if st.senderErr then .err else .nil))))) ∧
      (r = .nil → st.senderDone = false → st'.ackedBC = st.ackedBC ++ [m]) := by
  have hB : SendBodies := ⟨by decide, by decide, by decide, by decide, by decide⟩
  rcases send_arm_result hB hsd hpc hs with ⟨rfl, hc, rfl⟩ | ⟨rfl, hc⟩
  · refine ⟨.nil, hc, Or.inl ⟨rfl, rfl, rfl, by simp [commit, State.setSender], ?_⟩, ?_⟩
    · cases hd : st.senderDone <;> simp [commit, State.setSender, hd]
    · intro _ hd; simp [commit, State.setSender, hd]
  · rcases hc with ⟨rfl, hx, hc⟩ | ⟨rfl, hx, hc⟩ | ⟨rfl, hx, hc⟩
    · exact ⟨_, hc, Or.inr ⟨by simp, rfl, rfl, rfl, rfl, Or.inl ⟨rfl, hx, rfl⟩⟩, by intro h; cases h⟩
    · exact ⟨_, hc, Or.inr ⟨by simp, rfl, rfl, rfl, rfl, Or.inr (Or.inl ⟨rfl, hx, rfl⟩)⟩, by intro h; cases h⟩
    · exact ⟨_, hc, Or.inr ⟨by simp, rfl, rfl, rfl, rfl, Or.inr (Or.inr ⟨rfl, hx, rfl⟩)⟩,
        by intro _ hd; rw [hx] at hd; cases hd⟩

/-- non-vacuity: the `Send 7` of `demo` returns `nil` from its data arm; the `Send 9` parked on the full
buffer returns the close error from its `senderDone` arm -/
example : completions (init 2 2 |> fun s => after s (demo.take 1)) (.sender 0 (.send chData)) = [(.sender 0, .nil)] ∧
    completions (after (init 2 2) (demo.take 7)) (.sender 0 (.recv chSenderDone)) = [(.sender 0, .err)] := by decide

/-- **`TrySend` returned true ⇔ its value was committed; false ⇒ nothing happened; the first `select`'s
`default` does not return.** For a pending `TrySend` of `m` and a step `sender i a`:
* at the first `select`: `default` returns nothing — the call moves to the second `select`, nothing else
  changes; the three `Done` arms return the context's error / `ErrClosedPipe` / what the sender was
  closed with (`err`, or `false` after `Close(nil)`), and change nothing but the call's pc;
* at the second `select`: the data arm returns `true`, appends `m` to the buffer and to `acked` (to
  `ackedBC` iff the sender is not yet closed); `default` returns `false` and changes nothing but the pc. -/
theorem trySend_returns_true_iff_committed {st st' : State} {i : Nat} {sd : Sender} {m : Msg} {a : Arm}
    (hsd : st.senders[i]? = some sd) (hs : step st (.sender i a) = some st') :
    (sd.pc = .try1 m →
      (a = .dflt ∧ completions st (.sender i a) = [] ∧ st' = st.setSender i { sd with pc := .try2 m }) ∨
      (a ≠ .dflt ∧ st' = st.setSender i { sd with pc := .idle } ∧
        ((a = .recv chCtx ∧ sd.ctx = true ∧ completions st (.sender i a) = [(.sender i, .ctx)]) ∨
         (a = .recv chStreamDone ∧ st.streamDone = true ∧ completions st (.sender i a) = [(.sender i, .closed)]) ∨
         (a = .recv chSenderDone ∧ st.senderDone = true ∧
            completions st (.sender i a) = [(.sender i, if st.senderErr then .err else .fls)])))) ∧
    (sd.pc = .try2 m →
      (a = .send chData ∧ completions st (.sender i a) = [(.sender i, .tru)] ∧ st'.buf = st.buf ++ [m] ∧
        st'.acked = st.acked ++ [m] ∧ st'.ackedBC = (if st.senderDone then st.ackedBC else st.ackedBC ++ [m])) ∨
      (a = .dflt ∧ completions st (.sender i a) = [(.sender i, .fls)] ∧
        st' = st.setSender i { sd with pc := .idle })) := by
  have hB : TryBodies := ⟨by decide, by decide, by decide, by decide, by decide, by decide, by decide, by decide⟩
  constructor
  · intro hpc
    rcases try1_arm_result hB hsd hpc hs with h | ⟨h1, h2⟩
    · exact Or.inl h
    · refine Or.inr ⟨?_, h1, h2⟩
      rcases h2 with ⟨rfl, _⟩ | ⟨rfl, _⟩ | ⟨rfl, _⟩ <;> simp
  · intro hpc
    rcases try2_arm_result hB hsd hpc hs with ⟨rfl, hc, rfl⟩ | h
    · refine Or.inl ⟨rfl, hc, rfl, by simp [commit, State.setSender], ?_⟩
      cases hd : st.senderDone <;> simp [commit, State.setSender, hd]
    · exact Or.inr h

/-- non-vacuity: the `TrySend 8` of `demo` passes its first `select` without returning and returns `true`
from the second; a `TrySend` on a full buffer returns `false` -/
example : completions (after (init 2 2) (demo.take 3)) (.sender 1 .dflt) = [] ∧
    completions (after (init 2 2) (demo.take 4)) (.sender 1 (.send chData)) = [(.sender 1, .tru)] ∧
    completions (after (init 1 1) [.startSend 0 1 false, .sender 0 (.send chData), .startTry 0 2 false, .sender 0 .dflt])
      (.sender 0 .dflt) = [(.sender 0, .fls)] := by decide

/-- **A rendez-vous returns success to the sender and the value to `Next`.** In a `handoff i` step the
call of sender `i` is a `Send` (returns `nil`) or a `TrySend` at its second `select` (returns `true`), `Next`
returns the value of the message in flight, and that message is appended to `acked` (to `ackedBC` iff the
sender is not closed) and to `delivered` in the same step. -/
theorem rendezvous_returns_success_and_value {st st' : State} {i : Nat} {sd : Sender}
    (hsd : st.senders[i]? = some sd) (hs : step st (.handoff i) = some st') :
    ∃ m, sd.pc.msg? = some m ∧
      (((∃ p, sd.pc = .send m p) ∧ completions st (.handoff i) = [(.sender i, .nil), (.recv, .val m.val)]) ∨
       (sd.pc = .try2 m ∧ completions st (.handoff i) = [(.sender i, .tru), (.recv, .val m.val)])) ∧
      st'.acked = st.acked ++ [m] ∧ st'.delivered = st.delivered ++ [m] ∧
      st'.ackedBC = (if st.senderDone then st.ackedBC else st.ackedBC ++ [m]) := by
  obtain ⟨m, hm, hres, rfl⟩ := handoff_result ⟨by decide, by decide, by decide, by decide, by decide⟩
    ⟨by decide, by decide, by decide, by decide, by decide, by decide, by decide, by decide⟩
    ⟨by decide, by decide, by decide, by decide, by decide, by decide, by decide, by decide⟩ (by decide) hsd hs
  refine ⟨m, hm, hres, by simp [commit, State.setSender], rfl, ?_⟩
  cases hd : st.senderDone <;> simp [commit, State.setSender, hd]

/-- non-vacuity: a polling `Next` meets a parked `Send 5` on an unbuffered pipe -/
example : completions (after (init 1 0) [.startSend 0 5 false, .park 0, .startNext false]) (.handoff 0) =
    [(.sender 0, .nil), (.recv, .val 5)] := by decide

/-- **`Next` returns a value ⇔ `delivered` grows by exactly that value; the report is the close error or
`End`.** First conjunct (pin): the `senderDone` arm of `pipeStream.Next` as listed in `nextBodies` is the
drain `select` followed by exactly the statements `nextEndStmts` the model reads the report from. Then, for
every step `recv a` of the receiver:
* a data arm (main `select` or drain) returns the value of the head of the buffer and moves that message
  from the buffer to the end of `delivered`;
* the `senderDone` arm of the main `select` returns nothing (it enters the drain);
* the context arm returns the context's error; `delivered` is untouched;
* the drain's `default` returns no value: it falls through to the report — `err` if the sender was closed
  with an error, `End` (`fin`) otherwise; `delivered` is untouched. -/
theorem next_returns_value_iff_delivered {st st' : State} {a : Arm} (hs : step st (.recv a) = some st') :
    nextBodies.lookup (.recv chSenderDone) =
      some ("select { case item := <-s.c: return item, nil default: }" :: nextEndStmts) ∧
    ((∃ m rest, a = .recv chData ∧ st.buf = m :: rest ∧ completions st (.recv a) = [(.recv, .val m.val)] ∧
        st'.buf = rest ∧ st'.delivered = st.delivered ++ [m]) ∨
     (a = .recv chSenderDone ∧ st.rpc.isNext = true ∧ st.senderDone = true ∧ completions st (.recv a) = [] ∧
        st' = { st with rpc := .drain }) ∨
     (a = .recv chCtx ∧ st.rpc.isNext = true ∧ st.rctx = true ∧ completions st (.recv a) = [(.recv, .ctx)] ∧
        st' = { st with rpc := .idle }) ∨
     (a = .dflt ∧ st.rpc = .drain ∧ reportsEnd st (.recv a) = true ∧
        completions st (.recv a) = [(.recv, endRes st)] ∧ st' = reportEnd st)) := by
  refine ⟨by decide, ?_⟩
  rcases recv_result ⟨by decide, by decide, by decide, by decide, by decide, by decide, by decide, by decide⟩ hs with
    ⟨m, rest, rfl, hb, hc, rfl⟩ | h | h | ⟨rfl, hr, hc, hrep, rfl⟩
  · exact Or.inl ⟨m, rest, rfl, hb, hc, rfl, rfl⟩
  · exact Or.inr (Or.inl h)
  · exact Or.inr (Or.inr (Or.inl h))
  · exact Or.inr (Or.inr (Or.inr ⟨rfl, hr, hrep, hc, rfl⟩))

/-- non-vacuity: `demo`'s first `Next` returns 7 from the drain, the third reports the close error from
the drain's `default` -/
example : completions (after (init 2 2) (demo.take 10)) (.recv (.recv chData)) = [(.recv, .val 7)] ∧
    completions (after (init 2 2) (demo.take 15)) (.recv .dflt) = [(.recv, .err)] := by decide

/-- **Results versus logs, for every label of the LTS** (environment actions, arms of any call,
rendez-vous, parking):
1. either the step commits the message `m` in flight of some sender `i` — `acked` grows by `m`, `ackedBC`
   too unless the sender is already closed — and that call returns success in this very step (`nil` /
   `true`); or both logs are untouched and no call returns `true`, and a call returns `nil` only if the
   sender is closed (`Send`'s `senderDone` arm after `Close(nil)`);
2. either the step appends one message to `delivered` and `Next` returns exactly that message's value in
   this step (and nothing else); or `delivered` is untouched and `Next`, if it returns, returns its
   context's error or — in a reporting step — the close error / `End`. -/
theorem results_match_logs {st st' : State} {l : Label} (hs : step st l = some st') :
    ((∃ i sd m, st.senders[i]? = some sd ∧ sd.pc.msg? = some m ∧ st'.acked = st.acked ++ [m] ∧
        st'.ackedBC = (if st.senderDone then st.ackedBC else st.ackedBC ++ [m]) ∧
        (l = .handoff i ∨ ∃ a, l = .sender i a) ∧
        ((.sender i, .nil) ∈ completions st l ∨ (.sender i, .tru) ∈ completions st l)) ∨
     (st'.acked = st.acked ∧ st'.ackedBC = st.ackedBC ∧
        ∀ i r, (Who.sender i, r) ∈ completions st l → r ≠ .tru ∧ (r = .nil → st.senderDone = true))) ∧
    ((∃ m, st'.delivered = st.delivered ++ [m] ∧ deliversValue l = true ∧
        ∀ r, (Who.recv, r) ∈ completions st l ↔ r = .val m.val) ∨
     (st'.delivered = st.delivered ∧
        ∀ r, (Who.recv, r) ∈ completions st l →
          r = .ctx ∨ (r = endRes st ∧ reportsEnd st l = true))) := by
  have hB : Bodies := ⟨⟨by decide, by decide, by decide, by decide, by decide⟩,
    ⟨by decide, by decide, by decide, by decide, by decide, by decide, by decide, by decide⟩,
    ⟨by decide, by decide, by decide, by decide, by decide, by decide, by decide, by decide⟩, by decide⟩
  exact ⟨step_commit_results hB hs, step_delivery_results hB hs⟩

/-- non-vacuity: the committing steps of `demo` (positions 1, 4) and its delivering steps (10, 12) -/
example : (step (after (init 2 2) (demo.take 1)) (.sender 0 (.send chData))).map (·.acked.map (·.val)) = some [7] ∧
    (step (after (init 2 2) (demo.take 10)) (.recv (.recv chData))).map (·.delivered.map (·.val)) = some [7] := by decide

/-- **Clause 5 over results: every value whose `Send` returned nil (`TrySend`: true) before the sender's
`Close` is delivered before the end / the close error is reported.** `okBeforeClose s0 ls` lists, along the
run `ls`, the messages of the calls whose step of return had `(sender i, nil)` or `(sender i, tru)` among
its `completions` while `senderDone` was still `false` (`Model/Pipe.lean`). For every run from the initial
state (any schedule, any environment):
1. in the state reached, each of them is delivered or still in the channel buffer;
2. if the end has been reported, each of them has been delivered;
3. if the next step reports (`reportsEnd`), each of them has *already* been delivered (the report itself
   delivers nothing). -/
theorem pipe_returned_ok_before_close_is_delivered {n b : Nat} {ls : List Label} {st : State}
    (hrun : run (init n b) ls = some st) :
    (∀ m ∈ okBeforeClose (init n b) ls, m ∈ st.delivered ∨ m ∈ st.buf) ∧
    (st.endReported = true → ∀ m ∈ okBeforeClose (init n b) ls, m ∈ st.delivered) ∧
    (∀ l st', step st l = some st' → reportsEnd st l = true →
      st'.delivered = st.delivered ∧ ∀ m ∈ okBeforeClose (init n b) ls, m ∈ st.delivered) := by
  have hB : Bodies := ⟨⟨by decide, by decide, by decide, by decide, by decide⟩,
    ⟨by decide, by decide, by decide, by decide, by decide, by decide, by decide, by decide⟩,
    ⟨by decide, by decide, by decide, by decide, by decide, by decide, by decide, by decide⟩, by decide⟩
  have hr : Reach (init n b) st := reach_of_run hrun
  have hsub := okBeforeClose_sub_ackedBC hB hrun
  refine ⟨fun m hm => (inv_reach (by decide) hr).held m (hsub m hm),
    fun hend m hm => (pipe_no_loss_before_close hr hend).2 m (hsub m hm), ?_⟩
  intro l st' hs hrep
  obtain ⟨_, hdel, hall⟩ := pipe_no_loss_at_report hr hs hrep
  refine ⟨hdel, fun m hm => ?_⟩
  rw [← hdel]
  exact hall m (ackedBC_mono_step hB hs m (hsub m hm))

/-- non-vacuity: along `demo` the calls with 7 and 8 returned success before the `Close` (the `Send 9`
returned the close error), and the end is reported after both were delivered; the prefix of `demo`
before the report is a run whose next step reports -/
example : (okBeforeClose (init 2 2) demo).map (·.val) = [7, 8] ∧
    (run (init 2 2) demo).map (fun st => (st.endReported, st.delivered.map (·.val))) = some (true, [7, 8]) ∧
    (run (init 2 2) (demo.take 15)).map (fun st => reportsEnd st (.recv .dflt)) = some true := by decide

/-- **Stickiness over results.** If `Next` reports — the step returns exactly the close error or `End` to
the receiver — at a moment when no `Send`/`TrySend` is in flight (`Quiet`), then along every continuation
in which no `Send`/`TrySend` is *started* (`startsSend x = false` for every label; everything else —
`Next` calls with live or expired contexts, context expiries, the receiver's `Close` — is allowed), every
`Next` that returns returns its own context's error or the same report again; never a value, never the
other report. -/
theorem pipe_end_sticky_results {n b : Nat} {st s1 s2 : State} {l : Label} {ls : List Label}
    (hr : Reach (init n b) st) (hq : Quiet st) (hs : step st l = some s1) (hrep : reportsEnd st l = true)
    (hls : ∀ x ∈ ls, startsSend x = false) (hrun : run s1 ls = some s2) :
    completions st l = [(.recv, endRes st)] ∧
    ∀ r, (Who.recv, r) ∈ runCompletions s1 ls → r = .ctx ∨ r = endRes st := by
  have hB : Bodies := ⟨⟨by decide, by decide, by decide, by decide, by decide⟩,
    ⟨by decide, by decide, by decide, by decide, by decide, by decide, by decide, by decide⟩,
    ⟨by decide, by decide, by decide, by decide, by decide, by decide, by decide, by decide⟩, by decide⟩
  have hD : DrainFacts := ⟨by decide, by decide, by decide⟩
  have h1 := settled_of_quiet_report hD (inv_reach (by decide) hr) hq hs hrep
  obtain ⟨rfl, hrpc, _, _, rfl⟩ := report_only_when_drained hD hs hrep
  constructor
  · rcases recv_result hB.next hs with ⟨_, _, h, _⟩ | ⟨h, _⟩ | ⟨h, _⟩ | ⟨_, _, hc, _, _⟩
    · cases h
    · cases h
    · cases h
    · exact hc
  · intro r hrr
    exact settled_run_results hB h1 hls hrun r hrr

/-- non-vacuity: after the report of `demo` (close error), a `Next` with an expired context returns `ctx`,
a live one reports the close error again -/
example : runCompletions (after (init 2 2) demo)
    [.startNext true, .recv (.recv chCtx), .startNext false, .recv (.recv chSenderDone), .recv .dflt, .closeRecv] =
    [(.recv, .ctx), (.recv, .err)] := by decide

/-- **… and a `TrySend` called after the report does not re-open it** (fix8b, seeded/C10-m10).
`pipe_end_sticky_when_quiet` / `pipe_end_sticky_results` with a weaker hypothesis on the continuation: only
the start of a **`Send`** is excluded (`startsRealSend x = false`). `TrySend`s may be started after the report
— any number, from any sender goroutine, with live or expired contexts — and run to completion, interleaved
with `Next` calls, context expiries and the receiver's `Close`. If `Next` reports at a moment when no
`Send`/`TrySend` is in flight (`Quiet`), then along every such continuation `ls`
1. in the state reached no value-delivering label is enabled, the channel is empty, the sender is still
   closed and the stored error is the one that was reported;
2. every `Next` that returns along `ls` returns its own context's error or the same report again.
Why it holds, and why only for `TrySend`: once the sender is closed a `TrySend` at its first `select` finds
the `senderDone` arm ready, so that `select` cannot take `default`; every arm it can take returns; the second
`select`, the only statement of `TrySend` that touches the data channel, is never reached. All three are
statements about the regenerated first arm table of `TrySend` and its arm bodies (`TryGateFacts`, first
line of the proof, `by decide`): a `TrySend` whose closed-check can fall through breaks this theorem by name.
The property text's "once no Send is in flight …" is thereby proved for every period in which no call of
the method `Send` is started after the report; for a `Send` started after the sender's `Close` the remark at
`pipe_end_sticky_when_quiet` stands. -/
theorem pipe_end_sticky_trySend_after_report {n b : Nat} {st s1 s2 : State} {l : Label} {ls : List Label}
    (hr : Reach (init n b) st) (hq : Quiet st) (hs : step st l = some s1) (hrep : reportsEnd st l = true)
    (hls : ∀ x ∈ ls, startsRealSend x = false) (hrun : run s1 ls = some s2) :
    ((∀ l', deliversValue l' = true → step s2 l' = none) ∧ s2.buf = [] ∧
      s2.senderDone = true ∧ s2.senderErr = s1.senderErr) ∧
    ∀ r, (Who.recv, r) ∈ runCompletions s1 ls → r = .ctx ∨ r = endRes st := by
  have hF : TryGateFacts := by decide
  have hB : Bodies := ⟨⟨by decide, by decide, by decide, by decide, by decide⟩,
    ⟨by decide, by decide, by decide, by decide, by decide, by decide, by decide, by decide⟩,
    ⟨by decide, by decide, by decide, by decide, by decide, by decide, by decide, by decide⟩, by decide⟩
  have hD : DrainFacts := ⟨by decide, by decide, by decide⟩
  have h1 := settledT_of_settled (settled_of_quiet_report hD (inv_reach (by decide) hr) hq hs hrep)
  obtain ⟨h2, herr⟩ := settledT_run hF h1 hls hrun
  refine ⟨⟨fun l' hl' => settledT_no_delivery hF h2 hl', h2.2.1, h2.1, herr⟩, ?_⟩
  obtain ⟨rfl, _, _, _, rfl⟩ := report_only_when_drained hD hs hrep
  intro r hrr
  exact settledT_run_results hF hB h1 hls hrun r hrr

/-- non-vacuity: after the report of `demo` (sender closed with an error, buffer of 2 empty again), sender 1
calls `TrySend 5` with a live context — it returns through the `senderDone` arm — sender 0 calls `TrySend 6`
with an expired context and returns through the `ctx` arm; the `Next` calls in between and after report the
close error again. All hypotheses hold, two `TrySend`s were started and have returned, nothing was sent. -/
example : ∃ st s1 s2, Reach (init 2 2) st ∧ Quiet st ∧ step st (.recv .dflt) = some s1 ∧
    reportsEnd st (.recv .dflt) = true ∧
    run s1 [.startTry 1 5 false, .sender 1 (.recv chSenderDone), .startNext false, .recv (.recv chSenderDone), .recv .dflt,
            .startTry 0 6 true, .sender 0 (.recv chCtx), .startNext false, .recv (.recv chSenderDone), .recv .dflt] = some s2 ∧
    s2.buf = [] ∧ Quiet s2 ∧
    runCompletions s1 [.startTry 1 5 false, .sender 1 (.recv chSenderDone), .startNext false, .recv (.recv chSenderDone), .recv .dflt,
            .startTry 0 6 true, .sender 0 (.recv chCtx), .startNext false, .recv (.recv chSenderDone), .recv .dflt] =
      [(.sender 1, .err), (.recv, .err), (.sender 0, .ctx), (.recv, .err)] :=
  ⟨after (init 2 2) (demo.take 15), after (init 2 2) demo,
   after (init 2 2) (demo ++ [.startTry 1 5 false, .sender 1 (.recv chSenderDone), .startNext false, .recv (.recv chSenderDone), .recv .dflt,
            .startTry 0 6 true, .sender 0 (.recv chCtx), .startNext false, .recv (.recv chSenderDone), .recv .dflt]),
   reach_after (by decide), by decide, by decide, by decide, by decide, by decide, by decide, by decide⟩

/-- … and the `default` of that first `select` is indeed not enabled there: the step is refused by the model
(the changed `TrySend` of seeded/C10-m10 takes exactly this step). -/
example : (run (after (init 2 2) demo) [.startTry 1 5 false, .sender 1 .dflt]) = none := by decide

/-! ## Pipe clauses of C08 -/

/-- **A Next/Send/TrySend that fails on an expired context costs nothing.** The step in which the
call returns the context's error changes nothing but that call's program counter: channel
contents, ghost logs, flags and every other goroutine are as they were, so the next call continues
exactly where this one left off. -/
theorem pipe_ctx_costs_nothing {st st' : State} :
    (step st (.recv (.recv chCtx)) = some st' → st' = { st with rpc := .idle }) ∧
    (∀ i, step st (.sender i (.recv chCtx)) = some st' →
      ∃ sd, st.senders[i]? = some sd ∧ st' = st.setSender i { sd with pc := sd.pc.after (.recv chCtx) }) := by
  constructor
  · intro hs
    obtain ⟨_, hcase⟩ := step_recv hs
    rcases hcase with ⟨m, rest, h, _⟩ | ⟨h, _⟩ | ⟨h, _⟩ | ⟨ch, _, _, _, rfl⟩ | ⟨h, _⟩
    · simp [chCtx, chData] at h
    · simp [chCtx, chSenderDone] at h
    · simp [chCtx, chSenderDone] at h
    · rfl
    · cases h
  · intro i hs
    obtain ⟨sd, m, hsd, _, _, hcase⟩ := step_sender hs
    rcases hcase with ⟨rfl, _⟩ | ⟨ch, h, _⟩
    · exact ⟨sd, hsd, rfl⟩
    · cases h


/-- non-vacuity: a `Next` and a `Send` whose contexts expire while they wait on a full, unread pipe -/
example : ∃ st st', Reach (init 1 1) st ∧ step st (.recv (.recv chCtx)) = some st' ∧ st'.buf.length = 1 :=
  ⟨after (init 1 1) [.startSend 0 5 false, .sender 0 (.send chData), .startNext true],
   after (init 1 1) [.startSend 0 5 false, .sender 0 (.send chData), .startNext true, .recv (.recv chCtx)],
   reach_after (by decide), by decide, by decide⟩
example : ∃ st st', Reach (init 1 1) st ∧ step st (.sender 0 (.recv chCtx)) = some st' :=
  ⟨after (init 1 1) [.startSend 0 5 false, .sender 0 (.send chData), .startSend 0 6 false, .cancelSender 0],
   after (init 1 1) [.startSend 0 5 false, .sender 0 (.send chData), .startSend 0 6 false, .cancelSender 0, .sender 0 (.recv chCtx)],
   reach_after (by decide), by decide⟩

/-- **The close error surfaces after the data.** When `Next` reports (`reportsEnd st l`, any reachable
state), the sender has been closed; the call returns in that step with exactly the error the sender was
closed with (`err`), or the normal end (`fin`) if that was `nil` — `completions` reads this off the
regenerated drain `default` body (empty: falls through) and the regenerated statements that follow the
drain (`nextEndStmts`) —; and every value committed before the `Close` (hence, by
`pipe_returned_ok_before_close_is_delivered`, every value whose `Send` had returned nil before it) has been
delivered. First conjunct: `Close(err)` is "store `err`, close `senderDone`" and `Next` has no statement
besides its `select`, the drain and that report — no test of the error's *kind* in between (regenerated
control skeletons). -/
theorem pipe_close_error_after_data {n b : Nat} {st st' : State} {l : Label} (hr : Reach (init n b) st)
    (hs : step st l = some st') (hrep : reportsEnd st l = true) :
    (Gen.Skeleton.senderClose = Model.Skeleton.senderClose ∧ Gen.Skeleton.pipeNext = Model.Skeleton.pipeNext) ∧
    st.senderDone = true ∧ completions st l = [(.recv, if st.senderErr then Res.err else Res.fin)] ∧
    ∀ m ∈ st'.ackedBC, m ∈ st'.delivered := by
  obtain ⟨rfl, hrpc, _, _, _⟩ := report_only_when_drained ⟨by decide, by decide, by decide⟩ hs hrep
  refine ⟨⟨by decide, by decide⟩, (inv_reach (by decide) hr).drain hrpc, ?_, (pipe_no_loss_at_report hr hs hrep).2.2⟩
  rcases recv_result ⟨by decide, by decide, by decide, by decide, by decide, by decide, by decide, by decide⟩ hs with
    ⟨_, _, h, _⟩ | ⟨h, _⟩ | ⟨h, _⟩ | ⟨_, _, hc, _, _⟩
  · cases h
  · cases h
  · cases h
  · rw [hc]; simp [endRes]


example : ∃ st st', Reach (init 2 2) st ∧ step st (.recv .dflt) = some st' ∧ reportsEnd st (.recv .dflt) = true ∧
    st.senderErr = true ∧ st'.delivered.map (·.val) = [7, 8] :=
  ⟨after (init 2 2) (demo.take 15), after (init 2 2) demo, reach_after (by decide), by decide, by decide, by decide, by decide⟩

end Juniper.Props.C10
