import Juniper.Model.Pipe
/-!
# C10 — stream.Pipe (property theorems)
-/
namespace Juniper.Props.C10
open Juniper.Facts Juniper.Gen.Pipe Juniper.Model.Pipe

/-- The regenerated `select` tables of `Send`, `TrySend` and `pipeStream.Next` contain exactly the arms
the model interprets, and `Pipe` wires both halves to the same channels. -/
theorem tables_exact : tablesKnown = true ∧ wiringOK = true := by decide

end Juniper.Props.C10
