import Juniper.Model.Deque
/-!
# C04 — deque.Deque equals an ideal double-ended sequence (property theorems)

Only property theorems and their non-vacuity examples live here; helper lemmas are in
`Juniper/Proofs/Deque*.lean`.
-/
namespace Juniper.Props.C04
open Juniper.Gen.Deque Juniper.Model.Deque

/-- The generated `positiveMod` is the mathematical residue for a positive modulus
(ring index arithmetic of `PushFront`/`PopBack`). -/
theorem positiveMod_spec (l d : Int) (hd : 0 < d) :
    0 ≤ positiveMod l d ∧ positiveMod l d < d ∧ positiveMod l d = l % d := by
  unfold positiveMod
  simp only [Int.tmod_eq_emod]
  have h0 := Int.emod_nonneg l (Int.ne_of_gt hd)
  have h1 := Int.emod_lt_of_pos l hd
  have hab : d.natAbs = d := by omega
  by_cases hdv : d ∣ l
  · have : l % d = 0 := Int.emod_eq_zero_of_dvd hdv
    simp [hdv, this, hd]
  · have : l % d ≠ 0 := fun h => hdv (Int.dvd_of_emod_eq_zero h)
    by_cases hl : 0 ≤ l
    · simp [hl]; omega
    · simp [hl, hdv]; rw [hab]; omega

end Juniper.Props.C04
